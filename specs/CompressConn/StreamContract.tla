---- MODULE StreamContract ----
(* The observable contract of one direction of a (compressed) connection, as pure     *)
(* predicates over byte COUNTS.  Stream.tla proves them of the design-level model     *)
(* (TLC, exhaustive); StreamMonitor.tla evaluates the same predicates on every        *)
(* recorded real Read / blocked Read.                                                 *)
(*   del      bytes delivered to the reader so far                                    *)
(*   started  bytes handed to Write calls that have started                           *)
(*   flushed  bytes covered by Write calls that returned nil (the flush promise)      *)
(*   crossed  upper bound on the bytes whose encoding has left the wire               *)
(*   rawW/rawR  raw (encoded) bytes accepted by / consumed from the underlying conn   *)
EXTENDS Integers

(* a Read that returned n bytes into a buffer of b bytes *)
ReadOK(del, n, b, crossed, started) ==
  /\ n >= 0 /\ n <= b
  /\ del + n <= crossed          \* nothing is delivered before it crossed the wire
  /\ del + n <= started          \* nothing beyond what was written

(* a Read that returned EOF / an error although the reader's own endpoint is open *)
EndOK(del, started, writerClosed) == writerClosed /\ del = started

(* a Read that is blocked although the writer's promise says data must be readable:  *)
(* every raw byte accepted by the conn was consumed and still less than flushed came  *)
StuckBad(del, flushed, rawW, rawR) == rawW = rawR /\ del < flushed
====
