SPECIFICATION Spec
CONSTANTS
  WSizes = {0, 1}
  RSizes = {0, 1}
  Chunks = {1, 999}
  MaxBytes = 1
  AllowClose = FALSE
  AllowBreak = FALSE
  Defects = {"NoFlush"}
INVARIANTS TypeOK Prefix Pipeline
PROPERTIES FlushedDelivered
