---- MODULE StreamMonitor ----
(* Property monitor for C24 on recorded executions of the REAL compressed connection  *)
(* (harness/cmd/compressconn).  It knows nothing about codecs: per direction it keeps *)
(* the byte counts of StreamContract (started / flushed / delivered), the raw-byte    *)
(* marks of every returned Write, the close / break flags, and evaluates the contract *)
(* predicates that Stream.tla proves of the design model on every recorded Write      *)
(* return, Read return and blocked Read.  Every line is consumed; a rejected line is  *)
(* printed as <<"MISMATCH", line, clause, dir, expected, got>>.                       *)
EXTENDS Integers, Sequences, TLC, Json, StreamContract
Trace == ndJsonDeserialize("trace.ndjson")
Dirs == {"ab", "ba"}
Writer(d) == IF d = "ab" THEN "a" ELSE "b"
Reader(d) == IF d = "ab" THEN "b" ELSE "a"

VARIABLES l,
  started, flushed, del,  \* [Dirs -> Nat]
  wcall,                  \* [Dirs -> -1 | n] size of the Write call in progress
  wfail,                  \* [Dirs -> BOOLEAN] a Write returned an error (codec errors are sticky)
  marks,                  \* [Dirs -> Seq(<<raww, started>>)] after every returned Write
  closed,                 \* [{"a","b"} -> BOOLEAN]
  broke                   \* [Dirs -> BOOLEAN] the harness broke the raw conn in that direction
vars == <<l, started, flushed, del, wcall, wfail, marks, closed, broke>>

Zero == [d \in Dirs |-> 0]
Fresh ==
  /\ started' = Zero /\ flushed' = Zero /\ del' = Zero
  /\ wcall' = [d \in Dirs |-> -1] /\ wfail' = [d \in Dirs |-> FALSE]
  /\ marks' = [d \in Dirs |-> <<>>]
  /\ closed' = [e \in {"a", "b"} |-> FALSE] /\ broke' = [d \in Dirs |-> FALSE]

Init == l = 1 /\ started = Zero /\ flushed = Zero /\ del = Zero
        /\ wcall = [d \in Dirs |-> -1] /\ wfail = [d \in Dirs |-> FALSE]
        /\ marks = [d \in Dirs |-> <<>>]
        /\ closed = [e \in {"a", "b"} |-> FALSE] /\ broke = [d \in Dirs |-> FALSE]

(* bytes whose encoding can have left the wire when the receiver consumed rawr raw bytes: *)
(* the raw bytes up to the mark of Write j encode nothing beyond what Write j covers      *)
Crossed(d, rawr) ==
  IF rawr = 0 THEN 0
  ELSE LET idx == {i \in 1..Len(marks[d]) : marks[d][i][1] >= rawr} IN
       IF idx = {} THEN started[d]
       ELSE marks[d][CHOOSE i \in idx : \A j \in idx : i <= j][2]

Min3(a, b, c) == IF a <= b /\ a <= c THEN a ELSE IF b <= c THEN b ELSE c
Bad(clause, d, exp, got) == PrintT(<<"MISMATCH", l, clause, d, exp, got>>)
Check(ok, clause, d, exp, got) == IF ok THEN TRUE ELSE Bad(clause, d, exp, got)

Step ==
  /\ l <= Len(Trace)
  /\ l' = l + 1
  /\ LET e == Trace[l] IN
     CASE e.op = "New" -> Fresh
       [] e.op = "WCall" ->
            /\ started' = [started EXCEPT ![e.d] = @ + e.n]
            /\ wcall' = [wcall EXCEPT ![e.d] = e.n]
            /\ UNCHANGED <<flushed, del, wfail, marks, closed, broke>>
       [] e.op = "WRet" ->
            /\ IF e.err = 0
                 THEN Check(e.n = wcall[e.d], "short write without error", e.d, wcall[e.d], e.n)
                 ELSE Check(broke[e.d] \/ closed[Writer(e.d)] \/ closed[Reader(e.d)], "write failed on a healthy connection", e.d, 0, e.err)
            /\ wfail' = [wfail EXCEPT ![e.d] = @ \/ e.err # 0]
            /\ flushed' = [flushed EXCEPT ![e.d] = IF e.err = 0 /\ ~wfail[e.d] THEN started[e.d] ELSE @]
            /\ marks' = [marks EXCEPT ![e.d] = Append(@, <<e.raww, started[e.d]>>)]
            /\ wcall' = [wcall EXCEPT ![e.d] = -1]
            /\ UNCHANGED <<started, del, closed, broke>>
       [] e.op = "RRet" ->
            /\ Check(e.eq, "delivered bytes differ from the written bytes at offset", e.d, del[e.d], e.bad)
            /\ Check(ReadOK(del[e.d], e.n, e.b, Crossed(e.d, e.rawr), started[e.d]),
                     "read returned more than the buffer / than has crossed the wire / than was written: max n", e.d,
                     Min3(e.b, Crossed(e.d, e.rawr) - del[e.d], started[e.d] - del[e.d]), e.n)
            /\ IF e.err \in {1, 2} /\ ~closed[Reader(e.d)]
                 THEN IF broke[e.d]
                        THEN Check(closed[Writer(e.d)] /\ del[e.d] + e.n >= flushed[e.d], "EOF/error before everything flushed was delivered", e.d, flushed[e.d], del[e.d] + e.n)
                        ELSE Check(EndOK(del[e.d] + e.n, started[e.d], closed[Writer(e.d)]), "EOF/error before everything written was delivered", e.d, started[e.d], del[e.d] + e.n)
                 ELSE TRUE
            /\ IF e.err = 2 /\ ~closed[Reader(e.d)] /\ ~broke[e.d] /\ closed[Writer(e.d)] /\ del[e.d] + e.n = started[e.d]
                 THEN PrintT(<<"NOTE", l, "unclean end of stream", e.d>>) ELSE TRUE
            /\ del' = [del EXCEPT ![e.d] = @ + e.n]
            /\ UNCHANGED <<started, flushed, wcall, wfail, marks, closed, broke>>
       [] e.op = "RBlock" ->
            /\ Check(~(e.b >= 1 /\ ~closed[Reader(e.d)] /\ StuckBad(del[e.d], flushed[e.d], e.raww, e.rawr)),
                     "Read blocks although everything on the wire was consumed and flushed data is missing", e.d, flushed[e.d], del[e.d])
            /\ UNCHANGED <<started, flushed, del, wcall, wfail, marks, closed, broke>>
       [] e.op = "Close" ->
            /\ closed' = [closed EXCEPT ![e.e] = TRUE]
            /\ UNCHANGED <<started, flushed, del, wcall, wfail, marks, broke>>
       [] e.op = "Break" ->
            /\ broke' = [broke EXCEPT ![e.d] = TRUE]
            /\ UNCHANGED <<started, flushed, del, wcall, wfail, marks, closed>>
       [] OTHER -> UNCHANGED <<started, flushed, del, wcall, wfail, marks, closed, broke>>
Spec == Init /\ [][Step]_vars
====
