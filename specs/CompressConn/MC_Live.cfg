SPECIFICATION Spec
CONSTANTS
  WSizes = {0, 1}
  RSizes = {0, 1}
  Chunks = {1, 999}
  MaxBytes = 1
  AllowClose = FALSE
  AllowBreak = FALSE
  Defects = {}
INVARIANTS TypeOK Prefix Pipeline NoStuck
PROPERTIES FlushedDelivered
