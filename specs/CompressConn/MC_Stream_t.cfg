SPECIFICATION Spec
CONSTANTS
  WSizes = {0, 1, 2}
  RSizes = {0, 1, 2}
  Chunks = {1, 999}
  MaxBytes = 3
  AllowClose = TRUE
  AllowBreak = TRUE
  Defects = {}
INVARIANTS TypeOK Prefix Pipeline NoStuck
PROPERTIES ReadsOK EOFOK
