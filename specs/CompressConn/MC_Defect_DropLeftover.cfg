SPECIFICATION Spec
CONSTANTS
  WSizes = {0, 1, 2}
  RSizes = {0, 1}
  Chunks = {1, 999}
  MaxBytes = 2
  AllowClose = TRUE
  AllowBreak = TRUE
  Defects = {"DropLeftover"}
INVARIANTS TypeOK Prefix Pipeline NoStuck
PROPERTIES ReadsOK EOFOK
