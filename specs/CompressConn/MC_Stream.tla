---- MODULE MC_Stream ----
EXTENDS Stream
====
