SPECIFICATION GSpec
CONSTANTS
  WSizes = {0, 1, 2, 3}
  RSizes = {0, 1, 2, 3}
  Chunks = {1, 2, 999}
  MaxBytes = 9
  AllowClose = TRUE
  AllowBreak = TRUE
  Defects = {}
  Depth = 14
  CloseAfter = 9
CONSTRAINT Emit
