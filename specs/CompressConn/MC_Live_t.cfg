SPECIFICATION Spec
CONSTANTS
  WSizes = {0, 1, 2}
  RSizes = {0, 1, 2}
  Chunks = {1, 999}
  MaxBytes = 2
  AllowClose = FALSE
  AllowBreak = FALSE
  Defects = {}
INVARIANTS TypeOK Prefix Pipeline NoStuck
PROPERTIES FlushedDelivered
