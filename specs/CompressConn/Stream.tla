---- MODULE Stream ----
(* C24 -- the write / flush / read / close state machine of goakt's compressed        *)
(* connection wrapper (internal/net/compress.go and compress_{gzip,zstd,brotli}.go).  *)
(*                                                                                    *)
(* Two endpoints "a" and "b" of a duplex connection, two directions "ab" and "ba".    *)
(* Per direction the pipeline of the code:                                            *)
(*   Write(p):  c.writer.Write(p)   -> bytes enter the compressor      (WriteCall)    *)
(*              [the codec may push full blocks to raw.Write early]    (Spill)        *)
(*              c.writer.Flush()    -> everything buffered reaches raw (WriteFlush)   *)
(*              return n, nil                                                         *)
(*   raw conn:  delivers what was written in arbitrary chunks          (Deliver)      *)
(*   Read(p):   c.reader.Read(p)    -> decoder pulls from raw, returns (ReadCall,     *)
(*              1..len(p) of the bytes it could decode, or blocks       ReadRet)      *)
(*   Close():   closer() = codec.Close() (writes the tail) ; raw.Close (Close)        *)
(* Bytes are identified as <<direction, position>> so loss, duplication, reordering   *)
(* and cross-direction leakage are all visible.  Deviations are named branches:       *)
(*   NoFlush        Write returns without Flush                                       *)
(*   DropLeftover   Read forgets decoded bytes that did not fit the caller's buffer   *)
(*   StaleCodec     a pooled decoder still holds bytes of its previous connection     *)
(*   IgnoreFlushErr Write reports success although the raw conn refused the bytes     *)
(*   CloseNoTail    Close does not write the compressor's tail                        *)
(* Defects = {} is the design that the code implements.                               *)
EXTENDS Integers, Sequences, FiniteSets, TLC, StreamContract
CONSTANTS WSizes,    \* sizes of Write calls (abstract units; 0 allowed)
          RSizes,    \* sizes of Read buffers (0 allowed)
          Chunks,    \* how many units the raw conn hands over per Deliver (All = everything)
          MaxBytes,  \* bound on the bytes written per direction
          AllowClose, AllowBreak,
          Defects

All   == 999
Dirs  == {"ab", "ba"}
Ends  == {"a", "b"}
Writer(d) == IF d = "ab" THEN "a" ELSE "b"
Reader(d) == IF d = "ab" THEN "b" ELSE "a"
Out(e)    == IF e = "a" THEN "ab" ELSE "ba"
In(e)     == IF e = "a" THEN "ba" ELSE "ab"

VARIABLES
  nw,       \* [Dirs -> Nat]  bytes handed to Write so far: ids <<d,1>> .. <<d,nw[d]>>
  flushed,  \* [Dirs -> Nat]  bytes covered by Write calls that returned nil
  wst,      \* [Dirs -> {"idle","buffered"}] a Write is between c.writer.Write and Flush
  cbuf,     \* [Dirs -> Seq(id)] inside the compressor, not yet handed to raw.Write
  wire,     \* [Dirs -> Seq(id)] accepted by the raw conn, not yet handed to the peer
  dbuf,     \* [Dirs -> Seq(id)] received by the peer's decoder, not yet returned by Read
  del,      \* [Dirs -> Seq(id)] returned to the reader
  rst,      \* [Dirs -> -1 | bufsize] a Read is pending with that buffer size
  closed,   \* [Ends -> BOOLEAN]
  brk,      \* [Dirs -> BOOLEAN] the raw conn refuses further writes in that direction
  lost,     \* [Dirs -> BOOLEAN] bytes of that direction were refused by a broken raw conn
  last      \* the environment action / observable result of the last step
vars == <<nw, flushed, wst, cbuf, wire, dbuf, del, rst, closed, brk, lost, last>>

Ids(d, lo, hi) == [i \in 1..(hi - lo) |-> <<d, lo + i>>]
Take(s, k) == SubSeq(s, 1, k)
Drop(s, k) == SubSeq(s, k + 1, Len(s))
Min(a, b)  == IF a < b THEN a ELSE b

Init ==
  /\ nw = [d \in Dirs |-> 0] /\ flushed = [d \in Dirs |-> 0]
  /\ wst = [d \in Dirs |-> "idle"]
  /\ cbuf = [d \in Dirs |-> <<>>] /\ wire = [d \in Dirs |-> <<>>]
  /\ dbuf = [d \in Dirs |-> IF "StaleCodec" \in Defects /\ d = "ab" THEN << <<"old", 1>> >> ELSE <<>>]
  /\ del = [d \in Dirs |-> <<>>]
  /\ rst = [d \in Dirs |-> -1]
  /\ closed = [e \in Ends |-> FALSE]
  /\ brk = [d \in Dirs |-> FALSE] /\ lost = [d \in Dirs |-> FALSE]
  /\ last = [op |-> "Init"]

(* raw.Write of a sequence of bytes: accepted, or refused when the conn is broken *)
ToWire(d, s) == IF brk[d] THEN wire[d] ELSE wire[d] \o s

(* c.writer.Write(p): the bytes enter the compressor *)
WriteCall(d, n) ==
  /\ ~closed[Writer(d)] /\ wst[d] = "idle" /\ nw[d] + n <= MaxBytes
  /\ nw' = [nw EXCEPT ![d] = @ + n]
  /\ cbuf' = [cbuf EXCEPT ![d] = @ \o Ids(d, nw[d], nw[d] + n)]
  /\ wst' = [wst EXCEPT ![d] = "buffered"]
  /\ last' = [op |-> "Write", d |-> d, x |-> n]
  /\ UNCHANGED <<flushed, wire, dbuf, del, rst, closed, brk, lost>>

(* the codec's internal buffer overflows during Write: a prefix goes to raw.Write early *)
Spill(d) ==
  /\ wst[d] = "buffered" /\ cbuf[d] # <<>> /\ ~brk[d]
  /\ \E k \in 1..Len(cbuf[d]) :
       /\ wire' = [wire EXCEPT ![d] = @ \o Take(cbuf[d], k)]
       /\ cbuf' = [cbuf EXCEPT ![d] = Drop(@, k)]
  /\ last' = [op |-> "tau"]
  /\ UNCHANGED <<nw, flushed, wst, dbuf, del, rst, closed, brk, lost>>

(* c.writer.Flush() and return *)
WriteFlush(d) ==
  /\ wst[d] = "buffered"
  /\ wst' = [wst EXCEPT ![d] = "idle"]
  /\ IF "NoFlush" \in Defects
       THEN /\ flushed' = [flushed EXCEPT ![d] = nw[d]]      \* returns nil, nothing pushed
            /\ UNCHANGED <<cbuf, wire, lost>>
       ELSE /\ wire' = [wire EXCEPT ![d] = ToWire(d, cbuf[d])]
            /\ cbuf' = [cbuf EXCEPT ![d] = <<>>]
            /\ lost' = [lost EXCEPT ![d] = @ \/ (brk[d] /\ cbuf[d] # <<>>)]
            /\ flushed' = [flushed EXCEPT ![d] =
                 IF (lost[d] \/ (brk[d] /\ cbuf[d] # <<>>)) /\ "IgnoreFlushErr" \notin Defects
                   THEN @            \* Write returns the raw conn's error (sticky in the codecs)
                   ELSE nw[d]]       \* Write returns n, nil
  /\ last' = [op |-> "tau"]
  /\ UNCHANGED <<nw, dbuf, del, rst, closed, brk>>

(* the raw conn hands k units (or everything it holds) to the peer *)
Deliver(d, k) ==
  /\ wire[d] # <<>> /\ ~closed[Reader(d)]
  /\ LET m == Min(k, Len(wire[d])) IN
       /\ dbuf' = [dbuf EXCEPT ![d] = @ \o Take(wire[d], m)]
       /\ wire' = [wire EXCEPT ![d] = Drop(@, m)]
  /\ last' = [op |-> "Deliver", d |-> d, x |-> k]
  /\ UNCHANGED <<nw, flushed, wst, cbuf, del, rst, closed, brk, lost>>

ReadCall(d, b) ==
  /\ ~closed[Reader(d)] /\ rst[d] = -1
  /\ rst' = [rst EXCEPT ![d] = b]
  /\ last' = [op |-> "Read", d |-> d, x |-> b]
  /\ UNCHANGED <<nw, flushed, wst, cbuf, wire, dbuf, del, closed, brk, lost>>

(* the decoder returns 1..len(p) of the bytes it holds (it may return fewer than it has); *)
(* a zero-length Read returns 0 *)
ReadRet(d) ==
  /\ rst[d] >= 0 /\ ~closed[Reader(d)]
  /\ \E n \in 0..Min(rst[d], Len(dbuf[d])) :
       /\ (n = 0) => (rst[d] = 0)
       /\ del' = [del EXCEPT ![d] = @ \o Take(dbuf[d], n)]
       /\ dbuf' = [dbuf EXCEPT ![d] = IF "DropLeftover" \in Defects /\ n > 0 THEN <<>> ELSE Drop(@, n)]
       /\ last' = [op |-> "tau", ret |-> n]
  /\ rst' = [rst EXCEPT ![d] = -1]
  /\ UNCHANGED <<nw, flushed, wst, cbuf, wire, closed, brk, lost>>

(* EOF: the writer's endpoint is closed and nothing is left in flight *)
ReadEOF(d) ==
  /\ rst[d] >= 0 /\ ~closed[Reader(d)]
  /\ closed[Writer(d)] /\ wire[d] = <<>> /\ dbuf[d] = <<>>
  /\ rst' = [rst EXCEPT ![d] = -1]
  /\ last' = [op |-> "tau", ret |-> -1]
  /\ UNCHANGED <<nw, flushed, wst, cbuf, wire, dbuf, del, closed, brk, lost>>

(* Close of endpoint e: closer() writes the compressor's tail, then raw.Close();      *)
(* its own pending Read (if any) is released with an error                            *)
Close(e) ==
  /\ AllowClose /\ ~closed[e] /\ wst[Out(e)] = "idle"
  /\ closed' = [closed EXCEPT ![e] = TRUE]
  /\ wire' = [wire EXCEPT ![Out(e)] = IF "CloseNoTail" \in Defects THEN @ ELSE ToWire(Out(e), cbuf[Out(e)])]
  /\ cbuf' = [cbuf EXCEPT ![Out(e)] = <<>>]
  /\ lost' = [lost EXCEPT ![Out(e)] = @ \/ (cbuf[Out(e)] # <<>> /\ (brk[Out(e)] \/ "CloseNoTail" \in Defects))]
  /\ rst' = [rst EXCEPT ![In(e)] = -1]
  /\ last' = [op |-> "Close", e |-> e]
  /\ UNCHANGED <<nw, flushed, wst, dbuf, del, brk>>

(* the raw conn breaks in one direction: further raw writes are refused *)
Break(d) ==
  /\ AllowBreak /\ ~brk[d] /\ wst[d] = "idle" /\ ~closed[Writer(d)]
  /\ brk' = [brk EXCEPT ![d] = TRUE]
  /\ last' = [op |-> "Break", d |-> d]
  /\ UNCHANGED <<nw, flushed, wst, cbuf, wire, dbuf, del, rst, closed, lost>>

Next ==
  \/ \E d \in Dirs : \/ \E n \in WSizes : WriteCall(d, n)
                     \/ Spill(d) \/ WriteFlush(d)
                     \/ \E k \in Chunks : Deliver(d, k)
                     \/ \E b \in RSizes : ReadCall(d, b)
                     \/ ReadRet(d) \/ ReadEOF(d)
                     \/ Break(d)
  \/ \E e \in Ends : Close(e)

MaxR == CHOOSE b \in RSizes : \A c \in RSizes : c <= b
Fair == \A d \in Dirs : /\ WF_vars(WriteFlush(d)) /\ WF_vars(Deliver(d, All))
                        /\ SF_vars(ReadCall(d, MaxR)) /\ WF_vars(ReadRet(d))
Spec == Init /\ [][Next]_vars /\ Fair

----
(* ---------------- safety ---------------- *)
TypeOK ==
  /\ \A d \in Dirs : nw[d] \in 0..MaxBytes /\ flushed[d] \in 0..nw[d] /\ rst[d] \in {-1} \cup RSizes
                     /\ (wst[d] = "idle" /\ "NoFlush" \notin Defects => cbuf[d] = <<>>)

(* Delivered is a prefix of Written: no loss in the middle, no duplicate, no reordering, *)
(* nothing from the other direction or another connection                               *)
Prefix == \A d \in Dirs : Len(del[d]) <= nw[d] /\ del[d] = Ids(d, 0, Len(del[d]))

(* nothing is lost or reordered anywhere in the pipeline (while the conn is intact)     *)
Pipeline == \A d \in Dirs : ~lost[d] => del[d] \o dbuf[d] \o wire[d] \o cbuf[d] = Ids(d, 0, nw[d])

Crossed(d) == nw[d] - Len(cbuf[d]) - Len(wire[d])

(* the monitor's safety clause, proven of the model: every Read result is within bounds *)
ReadsOK == [][\A d \in Dirs :
                 Len(del'[d]) # Len(del[d]) \/ (rst[d] >= 0 /\ rst'[d] = -1 /\ ~closed'[Reader(d)] /\ last'.op = "tau" /\ "ret" \in DOMAIN last' /\ last'.ret >= 0 /\ UNCHANGED wst)
                 => ReadOK(Len(del[d]), Len(del'[d]) - Len(del[d]), rst[d], Crossed(d)', nw'[d])]_vars

(* EOF only after everything written was delivered *)
EOFOK == [][\A d \in Dirs : (ReadEOF(d) /\ ~lost[d]) => EndOK(Len(del[d]), nw[d], closed[Writer(d)])]_vars

(* the monitor's "flushed data is readable" clause as a state predicate: a pending Read  *)
(* with an empty wire and an empty decoder means everything flushed was delivered        *)
NoStuck == \A d \in Dirs :
  (rst[d] >= 1 /\ ~closed[Reader(d)]) =>
     ~ (dbuf[d] = <<>> /\ StuckBad(Len(del[d]), flushed[d], 0, Len(wire[d])))

(* ---------------- liveness (no Close / Break in the liveness configuration) -------- *)
(* whatever a returned Write covers is eventually delivered: nothing stays in a buffer  *)
FlushedDelivered == \A d \in Dirs : \A k \in 1..MaxBytes : (flushed[d] >= k) ~> (Len(del[d]) >= k)
====
