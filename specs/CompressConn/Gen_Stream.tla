---- MODULE Gen_Stream ----
(* Schedule generator: carries the history of ENVIRONMENT actions (Write, Deliver,    *)
(* Read, Close, Break; the tau steps of the wrapper are the implementation's) and     *)
(* prints it when a walk has Depth of them or both endpoints are closed.  BFS = every *)
(* schedule of that length, -simulate = random walks.  The driver executes the        *)
(* schedules on the real wrappers; sizes are classes that tools/groups/compressconn.py*)
(* maps to concrete byte counts.                                                      *)
EXTENDS Stream, Json
CONSTANTS Depth, CloseAfter   \* Close and Break are scheduled only after CloseAfter environment actions (longer walks)
VARIABLE hist
GInit == Init /\ hist = <<>>
GNext == Next /\ (last'.op \in {"Close", "Break"} => Len(hist) >= CloseAfter)
         /\ hist' = IF last'.op = "tau" THEN hist ELSE Append(hist, last')
GSpec == GInit /\ [][GNext]_<<vars, hist>>
Emit == (Len(hist) < Depth /\ ~(closed["a"] /\ closed["b"])) \/ (PrintT(<<"BEHAVIOUR", ToJson(hist)>>) /\ FALSE)
====
