SPECIFICATION Spec
CONSTANTS
  Senders = {"s1", "s2"}
  RankOf <- Ranks
  Scenarios <- Quick
  MaxProc = 3
  MaxTurns = 5
  Defects = {"OffTurnDeactivate", "DeliverAfterDeactivate"}
CHECK_DEADLOCK FALSE
