--------------------------- MODULE Trace_Registry ---------------------------
(* Conformance: the recorded puppet replay of REAL actor systems must be a behaviour of *)
(* Registry.tla, step by step: the thread that was released took the model's step,      *)
(* reached the gate (kind of registry operation, node) the model predicts, the registry *)
(* record and the set of nodes holding an active instance are the model's.  A rejection *)
(* (TLC stops before the last line) is drift, reported separately from verdicts.        *)
EXTENDS MC_Registry, Json

Trace == ndJsonDeserialize("trace.ndjson")
VARIABLES l, run
tvars == <<vars, l, run>>

GateOf(pc) == CASE pc \in {"sG", "oG", "cG", "iG"} -> "G"
                [] pc \in {"oE", "iE"} -> "E"
                [] pc = "cNX" -> "NX"
                [] pc \in {"fR", "pR", "iR", "fX"} -> "R"
                [] pc \in {"pD", "fD"} -> "deact"
                [] OTHER -> pc            \* call, act, P, wait, done
Range(q) == {q[i] : i \in 1..Len(q)}

Reset == /\ reg' = NoNode /\ gmap' = [n \in Nodes |-> 0] /\ pnode' = <<>> /\ pact' = {} /\ live' = {}
         /\ flight' = [n \in Nodes |-> NoThread] /\ wait' = [n \in Nodes |-> {}]
         /\ th' = [t \in Threads |-> T0(t)] /\ fails' = MaxFails /\ pfails' = MaxPutFails
         /\ last' = [t |-> "-", a |-> "init", pc |-> "-", at |-> NoNode, d |-> "-"]

TStep ==
  /\ l <= Len(Trace)
  /\ l' = l + 1
  /\ LET e == Trace[l] IN
     CASE e.ev = "New" -> Reset /\ run' = TRUE
       [] e.ev \in {"drift", "End"} -> run' = FALSE /\ UNCHANGED vars
       [] e.ev = "step" /\ run ->
            /\ Step(e.t)
            /\ last'.a = e.a
            /\ GateOf(last'.pc) = e.gate
            /\ (e.at = "" \/ e.gate = "call" \/ last'.at = e.at)
            /\ reg' = e.own
            /\ LiveNodes' = Range(e.live)
            /\ UNCHANGED run
       [] OTHER -> UNCHANGED <<vars, run>>

TInit == Init /\ l = 1 /\ run = FALSE
TSpec == TInit /\ [][TStep]_tvars
=============================================================================
