---------------------------- MODULE Mon_Registry ----------------------------
(* Property monitor for C30 on recorded executions of REAL goakt actor systems sharing *)
(* one registry.  It knows nothing about the activation protocol: it tracks which      *)
(* grain instances are active (between a successful OnActivate and the start of        *)
(* OnDeactivate, as reported by the test grain itself) and on which node, and what the *)
(* registry (read through the real cluster engine) says once all calls have returned.  *)
(*   New(id)            a fresh grain identity (history separator)                      *)
(*   act(n, inst, ok)   OnActivate of instance inst on node n returned (ok = 1) / failed *)
(*   deact(n, inst)     OnDeactivate of instance inst started                           *)
(*   End(q, own, live)  all calls returned (q = 1); own = node named by the registry    *)
(* Every line is consumed; violations are printed as <<"MISMATCH", "C30", line, what, id>>. *)
EXTENDS Integers, Sequences, FiniteSets, TLC, Json

Trace == ndJsonDeserialize("trace.ndjson")

VARIABLES l, liveI, ended
vars == <<l, liveI, ended>>

Init == l = 1 /\ liveI = {} /\ ended = TRUE

Nodes(s) == {x[2] : x \in s}
Range(q) == {q[i] : i \in 1..Len(q)}
Check(cond, what, id) == IF cond THEN TRUE ELSE PrintT(<<"MISMATCH", "C30", l, what, id>>)

Step ==
  /\ l <= Len(Trace)
  /\ l' = l + 1
  /\ LET e == Trace[l] IN
     CASE e.ev = "New" -> liveI' = {} /\ ended' = FALSE
       [] e.ev = "act" /\ ~ended /\ e.ok = 1 ->
            /\ liveI' = liveI \cup {<<e.inst, e.n>>}
            /\ Check(Cardinality(Nodes(liveI')) <= 1, "two nodes hold an active instance of the grain at the same time", e.id)
            /\ UNCHANGED ended
       [] e.ev = "deact" /\ ~ended ->
            /\ liveI' = {x \in liveI : x[1] # e.inst}
            /\ UNCHANGED ended
       [] e.ev = "End" /\ ~ended ->
            /\ Check(e.q = 0 \/ \A n \in Nodes(liveI) : e.own = n,
                     "activity settled but the registry does not name the node that holds the active instance", e.id)
            /\ Check(Range(e.live) = Nodes(liveI), "HARNESS: live bookkeeping differs from the monitor", e.id)
            /\ ended' = TRUE /\ UNCHANGED liveI
       [] OTHER -> UNCHANGED <<liveI, ended>>

Spec == Init /\ [][Step]_vars
=============================================================================
