---------------------------- MODULE GrainMonitor ----------------------------
(* C31 monitor: judges the callback events of an instrumented grain on a REAL actor system. *)
(* Events (one trace line each):                                                             *)
(*   New                     a fresh grain identity (history separator)                      *)
(*   actenter / actexit      OnActivate of instance inst (a = 1: the same Go object again)   *)
(*   renter / rexit          OnReceive of message id on instance inst, goroutine g           *)
(*   deenter / deexit        OnDeactivate of instance inst, goroutine g                      *)
(*   ptry / ptryend          passivationTry entered / left on goroutine g (witness only)     *)
(*   callstart (id)          a sender starts TellGrain for message id (s = "m" | "pill")     *)
(*   tellret (id, a = 1 ok)  that TellGrain returned                                         *)
(*   End                     the history is over (all senders returned, system stopped)      *)
(* Violations are printed as <<"MISMATCH", "C31", line, what>>.                              *)
EXTENDS Integers, Sequences, FiniteSets, TLC, Json

Trace == ndJsonDeserialize("trace.ndjson")

VARIABLES l,
          actDone,    \* instances whose OnActivate has returned (current activation)
          deStarted,  \* instances whose OnDeactivate has started (current activation)
          deDone,     \* instances whose OnDeactivate has returned
          inR,        \* <<inst, g>> currently inside OnReceive
          inD,        \* <<inst, g>> currently inside OnDeactivate
          gone,       \* [message id |-> instances that were already deactivated when its TellGrain call started]
          accepted,   \* ids of "m" messages whose TellGrain returned nil
          received    \* ids handed to OnReceive

vars == <<l, actDone, deStarted, deDone, inR, inD, gone, accepted, received>>

Init == l = 1 /\ actDone = {} /\ deStarted = {} /\ deDone = {} /\ inR = {} /\ inD = {} /\ gone = <<>> /\ accepted = {} /\ received = {}

Check(cond, what) == IF cond THEN TRUE ELSE PrintT(<<"MISMATCH", "C31", l, what>>)

Step ==
  /\ l <= Len(Trace)
  /\ l' = l + 1
  /\ LET e == Trace[l] IN
     CASE e.ev = "New" ->
            /\ actDone' = {} /\ deStarted' = {} /\ deDone' = {} /\ inR' = {} /\ inD' = {} /\ gone' = <<>>
            /\ accepted' = {} /\ received' = {}
       [] e.ev = "actenter" ->
            /\ Check(e.inst \notin deDone, "a deactivated grain instance was activated again (not a fresh instance)")
            /\ actDone' = actDone \ {e.inst} /\ deStarted' = deStarted \ {e.inst}
            /\ UNCHANGED <<deDone, inR, inD, gone, accepted, received>>
       [] e.ev = "actexit" ->
            /\ actDone' = actDone \cup {e.inst}
            /\ UNCHANGED <<deStarted, deDone, inR, inD, gone, accepted, received>>
       [] e.ev = "renter" ->
            /\ Check(e.inst \in actDone, "OnReceive before OnActivate completed")
            /\ Check(~(e.inst \in deStarted /\ e.inst \notin deDone), "OnReceive started while OnDeactivate was running")
            /\ Check(e.inst \notin deDone, "OnReceive after OnDeactivate of its activation")
            /\ Check(e.id \notin received, "message handed to OnReceive twice")
            /\ Check(e.id \notin DOMAIN gone \/ e.inst \notin gone[e.id], "message sent after the deactivation was delivered to the deactivated instance")
            /\ inR' = inR \cup {<<e.inst, e.g>>} /\ received' = received \cup {e.id}
            /\ UNCHANGED <<actDone, deStarted, deDone, inD, gone, accepted>>
       [] e.ev = "rexit" ->
            /\ inR' = {x \in inR : x # <<e.inst, e.g>>}
            /\ UNCHANGED <<actDone, deStarted, deDone, inD, gone, accepted, received>>
       [] e.ev = "deenter" ->
            /\ Check(e.inst \in actDone, "OnDeactivate before OnActivate completed")
            /\ Check(e.inst \notin deStarted, "OnDeactivate ran twice for one activation")
            /\ Check(\A x \in inR : x[1] # e.inst, "OnDeactivate started while OnReceive was running")
            /\ deStarted' = deStarted \cup {e.inst} /\ inD' = inD \cup {<<e.inst, e.g>>}
            /\ UNCHANGED <<actDone, deDone, inR, gone, accepted, received>>
       [] e.ev = "deexit" ->
            /\ deDone' = deDone \cup {e.inst} /\ inD' = {x \in inD : x # <<e.inst, e.g>>}
            /\ UNCHANGED <<actDone, deStarted, inR, gone, accepted, received>>
       [] e.ev = "callstart" ->
            /\ gone' = [i \in DOMAIN gone \cup {e.id} |-> IF i = e.id THEN deDone ELSE gone[i]]
            /\ UNCHANGED <<actDone, deStarted, deDone, inR, inD, accepted, received>>
       [] e.ev = "tellret" ->
            /\ accepted' = IF e.a = 1 /\ e.s = "m" THEN accepted \cup {e.id} ELSE accepted
            /\ UNCHANGED <<actDone, deStarted, deDone, inR, inD, gone, received>>
       [] e.ev = "End" ->
            /\ Check(accepted \subseteq received, "a message whose TellGrain returned nil was never handed to OnReceive")
            /\ Check(\A i \in actDone : i \in deStarted => i \in deDone, "OnDeactivate did not finish")
            /\ UNCHANGED <<actDone, deStarted, deDone, inR, inD, gone, accepted, received>>
       [] OTHER -> UNCHANGED <<actDone, deStarted, deDone, inR, inD, gone, accepted, received>>

Spec == Init /\ [][Step]_vars
=============================================================================
