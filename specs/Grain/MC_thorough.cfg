SPECIFICATION Spec
CONSTANTS
  Senders = {"s1", "s2"}
  RankOf <- Ranks
  Scenarios <- Thorough
  MaxProc = 4
  MaxTurns = 7
  Defects = {}
INVARIANTS ActivateBeforeReceive DeactivateOnce NoOverlap FreshAfterDeactivate
PROPERTIES NoReceiveAfterDeactivate
CHECK_DEADLOCK FALSE
