------------------------------ MODULE Lifecycle ------------------------------
(* Life cycle of ONE goakt grain identity on one node: actor/grain_engine.go (localSend,    *)
(* ensureGrainProcess: fast path + single-flight activation, finalizeGrainActivation),      *)
(* actor/grain_pid.go (activate, receive, runTurn / dispatchOne, handlePoisonPill,          *)
(* passivationTry, deactivate) and actor/actor_system.go (shutdown: passivator.Stop,        *)
(* poisonAllGrains).                                                                        *)
(*                                                                                          *)
(* A "process" is one grainPID object with its own grain instance; a new one is created     *)
(* whenever a message finds no process registered under the identity.  Every action is the  *)
(* piece of real code between two gates of one goroutine:                                   *)
(*   sender s   SCall (harness gate "call": TellGrain up to OnActivate or grainPID.receive), *)
(*              SActEnter / SActExit (the instrumented grain's OnActivate),                  *)
(*              SRecv (gr.receive: isActive check, enqueue, TrySchedule, push),              *)
(*              SRet (the Tell returns: acknowledged by the handler, or timed out)           *)
(*   worker k   GTake (gt.take), GEnter / GExit (OnReceive), GDeEnter / GDeExit (OnDeactivate*)
(*              reached through a PoisonPill, on the turn)                                   *)
(*   manager m  PFire (idle deadline passed: passivationTry entered, gp.enter), PTry          *)
(*              (the isActive / onPoisonPill guard, then deactivate on the MANAGER goroutine  *)
(*              for a grain without reentrancy), PDeEnter / PDeExit (OnDeactivate)            *)
(*   shutdown z ZCall (system Stop: shuttingDown, passivator.Stop, ..., poisonAllGrains up to *)
(*              grainPID.receive), ZRecv (gr.receive with the pill), ZRet (deactivated closed)*)
EXTENDS Integers, Sequences, FiniteSets, TLC

CONSTANTS Senders,     \* set of sender names
          RankOf,      \* [Senders -> 1..9]: message ids are rank * 10 + index
          Scenarios,   \* set of scenario records, one is chosen initially (variable sc, never changes):
                       \*   plan        [Senders -> Seq of "m" | "pill"]: what each sender tells, in order
                       \*   passivates  how often the idle deadline may expire (0 / 1)
                       \*   shutdowns   system shutdowns (0 / 1)
          MaxProc,     \* grain processes (activations of fresh instances) that may be created
          MaxTurns,    \* worker tokens
          Defects      \* "OffTurnDeactivate":   time-based passivation of a grain without reentrancy runs deactivate() on the
                       \*                        manager goroutine, unsynchronised with the grain's turn (repaired: a pill on the turn)
                       \* "DeliverAfterDeactivate": the turn hands messages that are still queued to OnReceive after OnDeactivate
                       \*                        (repaired: they are refused with an error)

VARIABLES sc, map,       \* process registered under the identity (0 = none)
          nproc,       \* processes created so far
          act, pill,   \* per process: activated flag, onPoisonPill flag
          mb,          \* per process: mailbox, Seq of [id, kind, from]
          sch,         \* per process: "Idle" | "Sched" | "Proc"
          armed,       \* per process: registered with the passivation manager (deadline running)
          closed,      \* per process: the deactivated channel is closed
          spc, sidx, starget, sack,   \* senders: pc, index into Plan, process in hand, reply ("" none, "ok", "err")
          sf,          \* single flight: name of the sender running the activation ("" = none)
          tpc, tproc, tmsg, nturn,    \* worker tokens
          mpc, mproc, fires,          \* manager
          zpc, ztarget, stopping,     \* shutdown thread, system shuttingDown flag
          stopped,     \* Stop has returned: the dispatcher is gone, nothing that is scheduled from now on ever runs
          \* observation of the callbacks (what the property talks about)
          actDone,     \* per process: OnActivate has returned for the current activation
          deN,         \* per process: OnDeactivate calls of the current activation
          inRecv,      \* set of <<process, thread>> inside OnReceive
          inDe,        \* set of <<process, thread>> inside OnDeactivate
          sent, got    \* accepted bookkeeping: ids told / ids handed to OnReceive, with the process

vars == <<sc, map, nproc, act, pill, mb, sch, armed, closed, spc, sidx, starget, sack, sf, tpc, tproc, tmsg, nturn,
          mpc, mproc, fires, zpc, ztarget, stopping, stopped, actDone, deN, inRecv, inDe, sent, got>>

Procs == 1..MaxProc
Turns == 1..MaxTurns
OffTurn == "OffTurnDeactivate" \in Defects
DeliverAfter == "DeliverAfterDeactivate" \in Defects
NoMsg == [id |-> 0, kind |-> "none", from |-> ""]
Id(s, i) == RankOf[s] * 10 + i

\* the first process was created and activated by ActorSystem.GrainIdentity (WithGrainDeactivateAfter(short)); processes
\* created later by a send get the default configuration (2 minutes: never due within a walk)
Init == /\ sc \in Scenarios /\ map = 1 /\ nproc = 1
        /\ act = [p \in Procs |-> p = 1] /\ pill = [p \in Procs |-> FALSE] /\ mb = [p \in Procs |-> <<>>]
        /\ sch = [p \in Procs |-> "Idle"] /\ armed = [p \in Procs |-> p = 1] /\ closed = [p \in Procs |-> FALSE]
        /\ spc = [s \in Senders |-> IF Len(sc.plan[s]) = 0 THEN "done" ELSE "idle"] /\ sidx = [s \in Senders |-> 1] /\ starget = [s \in Senders |-> 0]
        /\ sack = [s \in Senders |-> ""] /\ sf = ""
        /\ tpc = [k \in Turns |-> "none"] /\ tproc = [k \in Turns |-> 0] /\ tmsg = [k \in Turns |-> NoMsg] /\ nturn = 0
        /\ mpc = "idle" /\ mproc = 0 /\ fires = 0
        /\ zpc = (IF sc.shutdowns > 0 THEN "idle" ELSE "done") /\ ztarget = 0 /\ stopping = FALSE /\ stopped = FALSE
        /\ actDone = [p \in Procs |-> p = 1] /\ deN = [p \in Procs |-> 0] /\ inRecv = {} /\ inDe = {}
        /\ sent = {} /\ got = {}

\* ---------------------------------------------------------------- pieces of sequential code
\* grainPID.receive: dropped silently when the process is not active
Enq(p, m) == IF act[p]
             THEN /\ mb' = [mb EXCEPT ![p] = Append(@, m)]
                  /\ IF sch[p] = "Idle"
                     THEN /\ sch' = [sch EXCEPT ![p] = "Sched"]
                          /\ IF stopped THEN UNCHANGED <<nturn, tpc, tproc>>       \* pushed onto a dispatcher that no longer runs
                             ELSE /\ nturn < MaxTurns /\ nturn' = nturn + 1
                                  /\ tpc' = [tpc EXCEPT ![nturn + 1] = "take"] /\ tproc' = [tproc EXCEPT ![nturn + 1] = p]
                     ELSE UNCHANGED <<sch, nturn, tpc, tproc>>
             ELSE UNCHANGED <<mb, sch, nturn, tpc, tproc>>

\* deactivate() after OnDeactivate has returned: grains.Delete(key) (whatever is registered), activated := false,
\* onPoisonPill := false, deactivated closed
DeactDone(p) == /\ map' = 0
                /\ act' = [act EXCEPT ![p] = FALSE] /\ pill' = [pill EXCEPT ![p] = FALSE]
                /\ closed' = [closed EXCEPT ![p] = TRUE]

\* ---------------------------------------------------------------- senders: TellGrain
Msg(s) == [id |-> Id(s, sidx[s]), kind |-> sc.plan[s][sidx[s]], from |-> s]
NextMsg(s, r) == /\ sack' = [sack EXCEPT ![s] = ""] /\ sidx' = [sidx EXCEPT ![s] = @ + 1]
                 /\ spc' = [spc EXCEPT ![s] = IF sidx[s] = Len(sc.plan[s]) THEN "done" ELSE "idle"]

\* TellGrain: rejected while the system stops; else ensureGrainProcess: fast path (registered and active) or the
\* single-flight activation (re-activate the registered, inactive process or create a fresh one)
SCall(s) ==
  /\ spc[s] = "idle" /\ sidx[s] <= Len(sc.plan[s])
  /\ IF stopping THEN NextMsg(s, "err") /\ UNCHANGED <<starget, sf, nproc, actDone, deN>>
     ELSE IF map # 0 /\ act[map]
          THEN /\ starget' = [starget EXCEPT ![s] = map] /\ spc' = [spc EXCEPT ![s] = "recv"]
               /\ UNCHANGED <<sf, nproc, sidx, sack, actDone, deN>>
     ELSE IF sf # "" THEN spc' = [spc EXCEPT ![s] = "sfwait"] /\ UNCHANGED <<starget, sf, nproc, sidx, sack, actDone, deN>>
     ELSE /\ sf' = s /\ spc' = [spc EXCEPT ![s] = "actenter"]
          /\ IF map # 0
             THEN starget' = [starget EXCEPT ![s] = map] /\ UNCHANGED nproc
             ELSE nproc < MaxProc /\ nproc' = nproc + 1 /\ starget' = [starget EXCEPT ![s] = nproc + 1]
          /\ actDone' = [actDone EXCEPT ![starget'[s]] = FALSE] /\ deN' = [deN EXCEPT ![starget'[s]] = 0]
          /\ UNCHANGED <<sidx, sack>>
  /\ UNCHANGED <<sc, map, act, pill, mb, sch, armed, closed, tpc, tproc, tmsg, nturn, mpc, mproc, fires, zpc, ztarget, stopping, stopped, inRecv, inDe, sent, got>>

SActEnter(s) == /\ spc[s] = "actenter" /\ spc' = [spc EXCEPT ![s] = "actexit"]
                /\ UNCHANGED <<sc, map, nproc, act, pill, mb, sch, armed, closed, sidx, starget, sack, sf, tpc, tproc, tmsg, nturn,
                               mpc, mproc, fires, zpc, ztarget, stopping, stopped, actDone, deN, inRecv, inDe, sent, got>>

\* OnActivate returned: activated := true, markActivity, Register; finalize: grains.Set; the single flight ends and the
\* callers that waited on it share its result
SActExit(s) ==
  /\ spc[s] = "actexit"
  /\ LET p == starget[s] IN
     /\ act' = [act EXCEPT ![p] = TRUE] /\ actDone' = [actDone EXCEPT ![p] = TRUE]
     /\ map' = p /\ sf' = "" /\ UNCHANGED armed
     /\ spc' = [t \in Senders |-> IF t = s \/ spc[t] = "sfwait" THEN "recv" ELSE spc[t]]
     /\ starget' = [t \in Senders |-> IF spc[t] = "sfwait" THEN p ELSE starget[t]]
  /\ UNCHANGED <<sc, nproc, pill, mb, sch, closed, sidx, sack, tpc, tproc, tmsg, nturn, mpc, mproc, fires, zpc, ztarget, stopping, stopped,
                 deN, inRecv, inDe, sent, got>>

SRecv(s) == /\ spc[s] = "recv" /\ spc' = [spc EXCEPT ![s] = "wait"]
            /\ Enq(starget[s], Msg(s))
            /\ sent' = sent \cup {<<Msg(s).id, starget[s], act[starget[s]]>>}
            /\ UNCHANGED <<sc, map, nproc, act, pill, armed, closed, sidx, starget, sack, sf, tmsg, mpc, mproc, fires, zpc, ztarget, stopping, stopped,
                           actDone, deN, inRecv, inDe, got>>

\* the Tell returns: the handler acknowledged it, or nobody ever will (dropped by receive: the caller times out)
SRet(s) == /\ spc[s] = "wait"
           /\ \/ sack[s] # ""
              \/ <<Msg(s).id, starget[s], FALSE>> \in sent
           /\ NextMsg(s, sack[s])
           /\ UNCHANGED <<sc, map, nproc, act, pill, mb, sch, armed, closed, starget, sf, tpc, tproc, tmsg, nturn, mpc, mproc, fires,
                          zpc, ztarget, stopping, stopped, actDone, deN, inRecv, inDe, sent, got>>

\* ---------------------------------------------------------------- the grain's turn
\* a reply to whoever told the message (NoErr / Err); the shutdown thread's pill has nobody waiting on the reply
Ack(a, m, r) == [s \in Senders |-> IF m.from = s THEN r ELSE a[s]]

\* runTurn's loop from its top to the next gate (recursion over pills found on an inactive process and refused messages);
\* a = the process is active at this point of the step
RECURSIVE Adv(_, _, _, _, _)
Adv(a, q, pl, ak, ar) ==     \* mailbox, onPoisonPill, acks, armed  ->  [mb, pill, ack, armed, pc, msg, idle]
  IF q = <<>> THEN [mb |-> q, pill |-> pl, ack |-> ak, armed |-> ar, pc |-> "end", msg |-> NoMsg, idle |-> TRUE]
  ELSE LET m == Head(q) IN
       IF m.kind = "pill"
       THEN IF a THEN [mb |-> Tail(q), pill |-> TRUE, ack |-> ak, armed |-> FALSE, pc |-> "deenter", msg |-> m, idle |-> FALSE]
                 ELSE Adv(a, Tail(q), TRUE, Ack(ak, m, "ok"), ar)
       ELSE IF a \/ DeliverAfter
            THEN [mb |-> Tail(q), pill |-> pl, ack |-> ak, armed |-> ar, pc |-> "renter", msg |-> m, idle |-> FALSE]
            ELSE Adv(a, Tail(q), pl, Ack(ak, m, "err"), ar)

Commit(k, p, r) == /\ mb' = [mb EXCEPT ![p] = r.mb] /\ pill' = [pill EXCEPT ![p] = r.pill] /\ sack' = r.ack
                   /\ armed' = [armed EXCEPT ![p] = r.armed]
                   /\ tpc' = [tpc EXCEPT ![k] = r.pc] /\ tmsg' = [tmsg EXCEPT ![k] = r.msg]
                   /\ sch' = [sch EXCEPT ![p] = IF r.idle THEN "Idle" ELSE "Proc"]

GTake(k) == /\ tpc[k] = "take"
            /\ LET p == tproc[k] IN
               IF sch[p] = "Sched" THEN Commit(k, p, Adv(act[p], mb[p], pill[p], sack, armed[p]))
               ELSE tpc' = [tpc EXCEPT ![k] = "end"] /\ UNCHANGED <<mb, pill, sack, armed, tmsg, sch>>
            /\ UNCHANGED <<sc, map, nproc, act, closed, spc, sidx, starget, sf, tproc, nturn, mpc, mproc, fires, zpc, ztarget, stopping, stopped,
                           actDone, deN, inRecv, inDe, sent, got>>

GEnter(k) == /\ tpc[k] = "renter" /\ tpc' = [tpc EXCEPT ![k] = "rexit"]
             /\ inRecv' = inRecv \cup {<<tproc[k], k>>}
             /\ got' = got \cup {<<tmsg[k].id, tproc[k]>>}
             /\ UNCHANGED <<sc, map, nproc, act, pill, mb, sch, armed, closed, spc, sidx, starget, sack, sf, tproc, tmsg, nturn,
                            mpc, mproc, fires, zpc, ztarget, stopping, stopped, actDone, deN, inDe, sent>>

\* OnReceive returns (it called NoErr): reply to the sender, then on with the loop
GExit(k) == /\ tpc[k] = "rexit"
            /\ inRecv' = inRecv \ {<<tproc[k], k>>}
            /\ LET p == tproc[k] IN Commit(k, p, Adv(act[p], mb[p], pill[p], Ack(sack, tmsg[k], "ok"), armed[p]))
            /\ UNCHANGED <<sc, map, nproc, act, closed, spc, sidx, starget, sf, tproc, nturn, mpc, mproc, fires, zpc, ztarget, stopping, stopped,
                           actDone, deN, inDe, sent, got>>

\* handlePoisonPill -> deactivate -> OnDeactivate, on the turn
GDeEnter(k) == /\ tpc[k] = "deenter" /\ tpc' = [tpc EXCEPT ![k] = "deexit"]
               /\ inDe' = inDe \cup {<<tproc[k], k>>} /\ deN' = [deN EXCEPT ![tproc[k]] = @ + 1]
               /\ UNCHANGED <<sc, map, nproc, act, pill, mb, sch, armed, closed, spc, sidx, starget, sack, sf, tproc, tmsg, nturn,
                              mpc, mproc, fires, zpc, ztarget, stopping, stopped, actDone, inRecv, sent, got>>

\* OnDeactivate returned: grains.Delete, activated := false, onPoisonPill := false, deactivated closed; handlePoisonPill
\* replies; the loop goes on with whatever is still queued on the now inactive process
GDeExit(k) ==
  /\ tpc[k] = "deexit"
  /\ inDe' = inDe \ {<<tproc[k], k>>}
  /\ LET p == tproc[k] IN
     /\ map' = 0 /\ closed' = [closed EXCEPT ![p] = TRUE] /\ act' = [act EXCEPT ![p] = FALSE]
     /\ Commit(k, p, Adv(FALSE, mb[p], FALSE, Ack(sack, tmsg[k], "ok"), FALSE))
  /\ UNCHANGED <<sc, nproc, spc, sidx, starget, sf, tproc, nturn, mpc, mproc, fires, zpc, ztarget, stopping, stopped, actDone, deN, inRecv, sent, got>>

\* ---------------------------------------------------------------- the passivation manager
PFire == /\ mpc = "idle" /\ fires < sc.passivates /\ ~stopping
         /\ \E p \in Procs : armed[p] /\ mproc' = p
         /\ mpc' = "try" /\ fires' = fires + 1
         /\ UNCHANGED <<sc, map, nproc, act, pill, mb, sch, armed, closed, spc, sidx, starget, sack, sf, tpc, tproc, tmsg, nturn,
                        zpc, ztarget, stopping, stopped, actDone, deN, inRecv, inDe, sent, got>>

\* passivationTry: not active / poisoned -> false; else (no reentrancy) deactivate right here: unregister, ... OnDeactivate
PTry == /\ mpc = "try"
        /\ IF ~act[mproc] \/ pill[mproc]
           THEN mpc' = "idle" /\ UNCHANGED <<armed, mb, sch, nturn, tpc, tproc>>
           ELSE IF OffTurn THEN mpc' = "deenter" /\ armed' = [armed EXCEPT ![mproc] = FALSE] /\ UNCHANGED <<mb, sch, nturn, tpc, tproc>>
           ELSE \* repaired design: the decision travels through the mailbox and is taken on the turn (as for reentrant grains)
                /\ mpc' = "idle" /\ armed' = [armed EXCEPT ![mproc] = FALSE]
                /\ Enq(mproc, [id |-> 0, kind |-> "pill", from |-> "m"])
        /\ UNCHANGED <<sc, map, nproc, act, pill, closed, spc, sidx, starget, sack, sf, tmsg, mproc, fires, zpc, ztarget, stopping, stopped,
                       actDone, deN, inRecv, inDe, sent, got>>

PDeEnter == /\ mpc = "deenter" /\ mpc' = "deexit"
            /\ inDe' = inDe \cup {<<mproc, 0>>} /\ deN' = [deN EXCEPT ![mproc] = @ + 1]
            /\ UNCHANGED <<sc, map, nproc, act, pill, mb, sch, armed, closed, spc, sidx, starget, sack, sf, tpc, tproc, tmsg, nturn,
                           mproc, fires, zpc, ztarget, stopping, stopped, actDone, inRecv, sent, got>>

PDeExit == /\ mpc = "deexit" /\ mpc' = "idle"
           /\ inDe' = inDe \ {<<mproc, 0>>}
           /\ DeactDone(mproc)
           /\ UNCHANGED <<sc, nproc, mb, sch, armed, spc, sidx, starget, sack, sf, tpc, tproc, tmsg, nturn, mproc, fires, zpc, ztarget,
                          stopping, stopped, actDone, deN, inRecv, sent, got>>

\* ---------------------------------------------------------------- system shutdown
\* Stop: shuttingDown := true; passivator.Stop waits for the manager's run loop; ...; poisonAllGrains: snapshot of the
\* registered processes: an inactive one is just deleted, an active one gets a PoisonPill through receive
ZCall == /\ zpc = "idle" /\ mpc = "idle"
         /\ stopping' = TRUE
         /\ IF map # 0 /\ act[map] THEN zpc' = "recv" /\ ztarget' = map /\ UNCHANGED <<map, stopped>>
            ELSE zpc' = "done" /\ map' = 0 /\ stopped' = TRUE /\ UNCHANGED ztarget
         /\ UNCHANGED <<sc, nproc, act, pill, mb, sch, armed, closed, spc, sidx, starget, sack, sf, tpc, tproc, tmsg, nturn, mpc, mproc, fires,
                        actDone, deN, inRecv, inDe, sent, got>>
ZRecv == /\ zpc = "recv" /\ zpc' = "wait"
         /\ Enq(ztarget, [id |-> 0, kind |-> "pill", from |-> "z"])
         /\ UNCHANGED <<sc, map, nproc, act, pill, armed, closed, spc, sidx, starget, sack, sf, tmsg, mpc, mproc, fires, ztarget, stopping, stopped,
                        actDone, deN, inRecv, inDe, sent, got>>
ZRet == /\ zpc = "wait" /\ closed[ztarget] /\ zpc' = "done" /\ stopped' = TRUE
        /\ UNCHANGED <<sc, map, nproc, act, pill, mb, sch, armed, closed, spc, sidx, starget, sack, sf, tpc, tproc, tmsg, nturn, mpc, mproc,
                       fires, ztarget, stopping, actDone, deN, inRecv, inDe, sent, got>>

Next == \/ \E s \in Senders : SCall(s) \/ SActEnter(s) \/ SActExit(s) \/ SRecv(s) \/ SRet(s)
        \/ \E k \in Turns : GTake(k) \/ GEnter(k) \/ GExit(k) \/ GDeEnter(k) \/ GDeExit(k)
        \/ PFire \/ PTry \/ PDeEnter \/ PDeExit
        \/ ZCall \/ ZRecv \/ ZRet

Spec == Init /\ [][Next]_vars

\* ---------------------------------------------------------------- properties (C31)
\* OnActivate completes before the first OnReceive of the activation
ActivateBeforeReceive == \A x \in inRecv : actDone[x[1]]
\* OnDeactivate exactly once per activation ...
DeactivateOnce == \A p \in Procs : deN[p] <= 1
\* ... after the last OnReceive of that activation ...
NoReceiveAfterDeactivate == [][\A k \in Turns : (tpc[k] = "renter" /\ tpc'[k] = "rexit") => deN[tproc[k]] = 0]_vars
\* ... and never concurrently with one
NoOverlap == \A x \in inRecv, y \in inDe : x[1] # y[1]
\* a deactivated process is never re-activated: a message sent after deactivation reaches a fresh instance
FreshAfterDeactivate == \A p \in Procs : closed[p] => ~act[p]
=============================================================================
