------------------------------ MODULE Registry ------------------------------
(* C30 - a grain is active on at most one node at a time.                             *)
(*                                                                                    *)
(* Transcription of goakt's grain activation protocol over the cluster registry       *)
(* (actor/grain_engine.go, actor/grain_pid.go, internal/cluster/cluster.go) for ONE   *)
(* grain identity, at the granularity of registry operations.  The registry is        *)
(* linearizable: every operation is one atomic step; nodes interleave arbitrarily.    *)
(*                                                                                    *)
(* Logical threads (constant Kind / Org):                                             *)
(*   "send"  AskGrain on node Org: remoteAskGrain (local fast path, GetGrain, remote  *)
(*           hop to the owner) -> localSend -> ensureGrainProcess (fast path,         *)
(*           single-flight, ensureNew/ExistingGrainProcess, ensureGrainOwnership =    *)
(*           GrainExists + GetGrain, tryClaimGrain = PutGrainIfAbsent + GetGrain,     *)
(*           activate, rollback RemoveGrain iff claimed, finalizeGrainActivation =    *)
(*           grains.Set + PutGrain); an owner mismatch forwards to the owner node.    *)
(*   "ident" GrainIdentity on node Org: activateGrain = resolveGrainOwner (GrainExists*)
(*           + GetGrain OUTSIDE the single-flight), tryRemoteGrainActivation (remote  *)
(*           owner: RemoteActivateGrain -> recreateGrain there; failure: RemoveGrain  *)
(*           of the "stale" entry and local activation), activateGrainLocally (claim  *)
(*           only when the owner snapshot was empty; owner mismatch swallowed).  No   *)
(*           registry operation lies between that owner lookup and the single-flight, *)
(*           so the snapshot is used in the step that took it.                        *)
(*   "pass"  the passivation manager deactivating the grain on node Org:              *)
(*           passivationTry -> deactivate = OnDeactivate, grains.Delete(key),         *)
(*           RemoveGrain, activated := false.                                         *)
(* A thread is always parked in front of a gate; pc names the gate:                   *)
(*   call | sG | iE iG iR | oE oG | cNX cG | act | fR | P | fD fX | pD pR | wait woken done *)
(* (E = GrainExists, G = GetGrain, NX = PutGrainIfAbsent, P = PutGrain, R =           *)
(* RemoveGrain, act / pD = inside the test grain's OnActivate / OnDeactivate).  A     *)
(* step performs the gated operation and runs the thread to its next gate.            *)
(*                                                                                    *)
(* Defects (CONSTANT): the code as it is = all of them; {} = the repaired design.     *)
(*   "UnclaimedActivate"  tryClaimGrain: AlreadyExists followed by a GetGrain that    *)
(*                        finds nothing returns (false, nil) and the caller activates *)
(*                        WITHOUT a claim (known finding; existing unit tests codify  *)
(*                        it).  Repair: the claim is attempted again, at most         *)
(*                        MaxClaimTries times.                                        *)
(*   "DeleteBeforeRemove" deactivate deletes the local grains entry before it removes *)
(*                        the registry record, so a re-activation on the same node    *)
(*                        (owner = local, no claim) gets its record removed.  Repair: *)
(*                        RemoveGrain first, then grains.Delete (FIXED in /repo).     *)
(*   "ForeignRemove"      tryRemoteGrainActivation removes the owner's record when    *)
(*                        the remote activation request fails for ANY reason (e.g.    *)
(*                        OnActivate failed over there).  Repair: return the error.   *)
(*   "RepublishActive"    activateGrainLocally / recreateGrain run finalizeGrainActivation *)
(*                        (grains.Set + plain PutGrain) also for a process that was    *)
(*                        ALREADY active and unclaimed by this call; that write races  *)
(*                        with a concurrent deactivation of the process and lands after*)
(*                        its RemoveGrain.  Repair: nothing activated, nothing claimed *)
(*                        -> nothing to publish.                                       *)
EXTENDS Integers, Sequences, FiniteSets, TLC

CONSTANTS Nodes, Threads, Kind, Org, MaxHops, MaxFails, MaxPutFails, Defects,
          PassDuringFlight   \* TRUE: the passivation manager may fire while an activation of the identity is in flight
                             \* on its node (idle deadline shorter than one activation; see docs/grainreg.md)

NoNode == "-"
NoThread == "-"
MaxClaimTries == 3     \* bound of the repaired claim loop

VARIABLES reg,      \* registry record of the identity: owner node or NoNode
          gmap,     \* [Nodes -> Nat]  grains map: process id registered under the identity (0 = none)
          pnode,    \* Seq(Nodes)      node of process i (processes are numbered in creation order)
          pact,     \* set of processes whose `activated` flag is set
          live,     \* set of processes between a successful OnActivate and the start of OnDeactivate
          flight,   \* [Nodes -> Threads \cup {NoThread}]  leader of the per-identity single-flight
          wait,     \* [Nodes -> SUBSET Threads]            threads blocked on that single-flight
          th,       \* [Threads -> thread record]
          fails,    \* remaining injected OnActivate failures
          pfails,   \* remaining injected PutGrain failures (publication failure in finalizeGrainActivation)
          last      \* output only: the step just taken

vars == <<reg, gmap, pnode, pact, live, flight, wait, th, fails, pfails, last>>
core == <<reg, gmap, pnode, pact, live, flight, wait, th, fails, pfails>>

Has(d) == d \in Defects

T0(t) == [pc |-> "call", cur |-> Org[t], prog |-> "-", own |-> NoNode, claimed |-> FALSE, pid |-> 0,
          actHere |-> FALSE, hops |-> 0, tries |-> 0, res |-> [k |-> "-", o |-> NoNode]]

Init == /\ reg = NoNode
        /\ gmap = [n \in Nodes |-> 0]
        /\ pnode = <<>>
        /\ pact = {} /\ live = {}
        /\ flight = [n \in Nodes |-> NoThread]
        /\ wait = [n \in Nodes |-> {}]
        /\ th = [t \in Threads |-> T0(t)]
        /\ fails = MaxFails /\ pfails = MaxPutFails
        /\ last = [t |-> "-", a |-> "init", pc |-> "-", at |-> NoNode, d |-> "-"]

\* ---------------------------------------------------------------- state bundle (pure functions over it)
S0 == [reg |-> reg, gmap |-> gmap, pnode |-> pnode, pact |-> pact, live |-> live, flight |-> flight, wait |-> wait,
       th |-> th, fails |-> fails, pfails |-> pfails]

CommitD(s, t, a, d) == /\ reg' = s.reg /\ gmap' = s.gmap /\ pnode' = s.pnode /\ pact' = s.pact /\ live' = s.live
                       /\ flight' = s.flight /\ wait' = s.wait /\ th' = s.th /\ fails' = s.fails /\ pfails' = s.pfails
                       /\ last' = [t |-> t, a |-> a, pc |-> s.th[t].pc, at |-> s.th[t].cur, d |-> d]
Commit(s, t, a) == CommitD(s, t, a, "-")

Res(k, o) == [k |-> k, o |-> o]

\* the process the flight leader t works on: the one registered on node m, else a new one
WithProc(s, t, m) ==
  IF s.gmap[m] # 0 THEN [s EXCEPT !.th[t].pid = s.gmap[m]]
  ELSE [s EXCEPT !.pnode = Append(@, m), !.th[t].pid = Len(s.pnode) + 1]

\* finalizeGrainActivation up to its PutGrain: grains.Set(key, process)
Finalize(s, t) == [s EXCEPT !.gmap[s.th[t].cur] = s.th[t].pid, !.th[t].pc = "P"]

Block(s, t, m, prog) == [s EXCEPT !.th[t].pc = "wait", !.th[t].cur = m, !.th[t].prog = prog, !.wait[m] = @ \cup {t}]

\* localSend on node m: ensureGrainProcess
EnterLS(s, t, m) ==
  IF s.gmap[m] # 0 /\ s.gmap[m] \in s.pact THEN [s EXCEPT !.th[t].pc = "done", !.th[t].cur = m]       \* fast path, deliver
  ELSE IF s.flight[m] # NoThread THEN Block(s, t, m, "ens")
  ELSE LET s1 == WithProc([s EXCEPT !.flight[m] = t, !.th[t].cur = m, !.th[t].prog = "ens", !.th[t].claimed = FALSE,
                                    !.th[t].actHere = TRUE], t, m)
       IN [s1 EXCEPT !.th[t].pc = "oE"]

\* what a thread does when its single-flight call returns r
Cont(s, t, r) ==
  LET x == s.th[t] IN
  CASE Kind[t] = "send" ->
         IF r.k = "mis" /\ x.hops < MaxHops
         THEN EnterLS([s EXCEPT !.th[t].hops = @ + 1], t, r.o)                   \* sendToGrainOwner
         ELSE [s EXCEPT !.th[t].pc = "done"]
    [] Kind[t] = "ident" /\ x.prog = "rec" ->
         IF r.k = "ok" THEN [s EXCEPT !.th[t].pc = "done"]
         ELSE IF Has("ForeignRemove")
              THEN [s EXCEPT !.th[t].pc = "iR", !.th[t].own = x.cur, !.th[t].cur = Org[t]]
              ELSE [s EXCEPT !.th[t].pc = "done", !.th[t].cur = Org[t]]
    [] OTHER -> [s EXCEPT !.th[t].pc = "done"]                                   \* ident/loc: mismatch swallowed

\* the leader t leaves the single-flight of its node with result r
EndFlight(s, t, r) ==
  LET m == s.th[t].cur
      s1 == [s EXCEPT !.flight[m] = NoThread, !.wait[m] = {},
                      !.th = [w \in Threads |-> IF w \in s.wait[m] THEN [s.th[w] EXCEPT !.pc = "woken", !.res = r] ELSE s.th[w]]]
  IN Cont(s1, t, r)

\* ownership is settled (claimed or not): activate unless the process is already active
AfterClaim(s, t) == IF s.th[t].pid \in s.pact
                    THEN (IF Has("RepublishActive") \/ s.th[t].claimed
                          THEN Finalize([s EXCEPT !.th[t].actHere = FALSE], t)
                          ELSE EndFlight(s, t, Res("ok", NoNode)))
                    ELSE [s EXCEPT !.th[t].pc = "act"]

\* activateGrainLocally on the origin node with the owner snapshot th[t].own
EnterLoc(s, t) ==
  LET n == Org[t] IN
  IF s.flight[n] # NoThread THEN Block([s EXCEPT !.th[t].cur = n], t, n, "loc")
  ELSE LET s1 == WithProc([s EXCEPT !.flight[n] = t, !.th[t].cur = n, !.th[t].prog = "loc", !.th[t].claimed = FALSE,
                                    !.th[t].actHere = TRUE], t, n)
       IN IF s.th[t].own = NoNode THEN [s1 EXCEPT !.th[t].pc = "cNX", !.th[t].tries = 0]
          ELSE AfterClaim(s1, t)

\* recreateGrain on node m (inbound RemoteActivateGrain)
EnterRec(s, t, m) ==
  IF s.flight[m] # NoThread THEN Block(s, t, m, "rec")
  ELSE AfterClaim(WithProc([s EXCEPT !.flight[m] = t, !.th[t].cur = m, !.th[t].prog = "rec", !.th[t].claimed = FALSE,
                                     !.th[t].actHere = TRUE], t, m), t)

\* ---------------------------------------------------------------- steps
Woken == {w \in Threads : th[w].pc = "woken"}
At(t, pc) == th[t].pc = pc /\ Woken = {}         \* woken threads run on before anybody else reaches a gate

Call(t) ==
  /\ At(t, "call")
  /\ LET n == Org[t] IN
     CASE Kind[t] = "send" ->
            Commit(IF gmap[n] # 0 /\ gmap[n] \in pact THEN EnterLS(S0, t, n) ELSE [S0 EXCEPT !.th[t].pc = "sG"], t, "call")
       [] Kind[t] = "ident" -> Commit([S0 EXCEPT !.th[t].pc = "iE"], t, "call")
       [] Kind[t] = "pass" ->
            /\ PassDuringFlight \/ flight[n] = NoThread
            /\ Commit(IF gmap[n] # 0 /\ gmap[n] \in pact THEN [S0 EXCEPT !.th[t].pc = "pD", !.th[t].pid = gmap[n]]
                   ELSE [S0 EXCEPT !.th[t].pc = "done"], t, "call")

\* remoteAskGrain: GetGrain
SendGet(t) ==
  /\ At(t, "sG")
  /\ Commit(IF reg = NoNode \/ reg = Org[t] THEN EnterLS(S0, t, Org[t])
            ELSE EnterLS([S0 EXCEPT !.th[t].hops = @ + 1], t, reg), t, "G")

\* resolveGrainOwner (outside the single-flight)
IdentExists(t) ==
  /\ At(t, "iE")
  /\ Commit(IF reg = NoNode THEN EnterLoc([S0 EXCEPT !.th[t].own = NoNode], t) ELSE [S0 EXCEPT !.th[t].pc = "iG"], t, "E")

IdentGet(t) ==
  /\ At(t, "iG")
  /\ Commit(IF reg = NoNode \/ reg = Org[t] THEN EnterLoc([S0 EXCEPT !.th[t].own = reg], t)
            ELSE EnterRec([S0 EXCEPT !.th[t].own = reg], t, reg), t, "G")

\* tryRemoteGrainActivation: remote activation failed -> remove the "stale" entry, activate locally
IdentRemove(t) ==
  /\ At(t, "iR")
  /\ CommitD(EnterLoc([S0 EXCEPT !.reg = NoNode], t), t, "R", "ForeignRemove")

\* ensureGrainOwnership / getGrainOwner
OwnExists(t) ==
  /\ At(t, "oE")
  /\ Commit([S0 EXCEPT !.th[t].pc = IF reg = NoNode THEN "cNX" ELSE "oG", !.th[t].tries = 0], t, "E")

OwnGet(t) ==
  /\ At(t, "oG")
  /\ Commit(IF reg = NoNode THEN [S0 EXCEPT !.th[t].pc = "cNX", !.th[t].tries = 0]
            ELSE IF reg = th[t].cur THEN AfterClaim(S0, t)
            ELSE EndFlight(S0, t, Res("mis", reg)), t, "G")

\* tryClaimGrain
ClaimNX(t) ==
  /\ At(t, "cNX")
  /\ Commit(IF reg = NoNode THEN AfterClaim([S0 EXCEPT !.reg = th[t].cur, !.th[t].claimed = TRUE], t)
            ELSE [S0 EXCEPT !.th[t].pc = "cG", !.th[t].tries = @ + 1], t, "NX")

ClaimGet(t) ==
  /\ At(t, "cG")
  /\ CommitD(IF reg = NoNode
             THEN (IF Has("UnclaimedActivate") THEN AfterClaim(S0, t)
                   ELSE IF th[t].tries < MaxClaimTries THEN [S0 EXCEPT !.th[t].pc = "cNX"]       \* claimGrain: claim again
                   ELSE EndFlight(S0, t, Res("err", NoNode)))                                     \* errGrainClaimContended
             ELSE IF reg = th[t].cur THEN AfterClaim(S0, t)
             ELSE EndFlight(S0, t, Res("mis", reg)), t, "G",
             IF reg = NoNode /\ Has("UnclaimedActivate") THEN "UnclaimedActivate" ELSE "-")

\* grainPID.activate: OnActivate succeeds ...
ActOk(t) ==
  /\ At(t, "act")
  /\ Commit(Finalize([S0 EXCEPT !.pact = @ \cup {th[t].pid}, !.live = @ \cup {th[t].pid}, !.th[t].actHere = TRUE], t), t, "actok")

\* ... or fails (injected): roll the claim back iff this call made it
ActFail(t) ==
  /\ At(t, "act") /\ fails > 0
  /\ Commit(IF th[t].claimed THEN [S0 EXCEPT !.fails = @ - 1, !.th[t].pc = "fR"]
            ELSE EndFlight([S0 EXCEPT !.fails = @ - 1], t, Res("err", NoNode)), t, "actfail")

RollbackRemove(t) ==
  /\ At(t, "fR")
  /\ Commit(EndFlight([S0 EXCEPT !.reg = NoNode], t, Res("err", NoNode)), t, "R")

\* finalizeGrainActivation: PutGrain (plain put)
Put(t) ==
  /\ At(t, "P")
  /\ Commit(EndFlight([S0 EXCEPT !.reg = th[t].cur], t, Res("ok", NoNode)), t, "P")

\* ... or the publication fails (injected): finalizeGrainActivation rolls back exactly what this call created
PutFail(t) ==
  /\ At(t, "P") /\ pfails > 0
  /\ Commit(IF th[t].actHere THEN [S0 EXCEPT !.pfails = @ - 1, !.th[t].pc = "fD"]              \* process.deactivate
            ELSE IF th[t].claimed THEN [S0 EXCEPT !.pfails = @ - 1, !.th[t].pc = "fR"]          \* release the claim only
            ELSE EndFlight([S0 EXCEPT !.pfails = @ - 1], t, Res("err", NoNode)), t, "Pfail")

\* rollback deactivate: OnDeactivate, then (in the order of the code) RemoveGrain / grains.Delete
RollDeact(t) ==
  /\ At(t, "fD")
  /\ Commit(IF Has("DeleteBeforeRemove")
            THEN [S0 EXCEPT !.live = @ \ {th[t].pid}, !.gmap[th[t].cur] = 0, !.th[t].pc = "fX"]
            ELSE [S0 EXCEPT !.live = @ \ {th[t].pid}, !.th[t].pc = "fX"], t, "deact")

RollRemove(t) ==
  /\ At(t, "fX")
  /\ Commit(EndFlight([S0 EXCEPT !.reg = NoNode, !.gmap[th[t].cur] = 0, !.pact = @ \ {th[t].pid}], t, Res("err", NoNode)), t, "R")

\* deactivate (passivation): OnDeactivate, then grains.Delete + RemoveGrain in the order of the code
PassDeact(t) ==
  /\ At(t, "pD")
  /\ Commit(IF Has("DeleteBeforeRemove")
            THEN [S0 EXCEPT !.live = @ \ {th[t].pid}, !.gmap[Org[t]] = 0, !.th[t].pc = "pR"]
            ELSE [S0 EXCEPT !.live = @ \ {th[t].pid}, !.th[t].pc = "pR"], t, "deact")   \* (tagged in PassRemove)

PassRemove(t) ==
  /\ At(t, "pR")
  /\ CommitD(IF Has("DeleteBeforeRemove")
            THEN [S0 EXCEPT !.reg = NoNode, !.pact = @ \ {th[t].pid}, !.th[t].pc = "done"]
            ELSE [S0 EXCEPT !.reg = NoNode, !.gmap[Org[t]] = 0, !.pact = @ \ {th[t].pid}, !.th[t].pc = "done"], t, "R",
             \* the late RemoveGrain hits a record that a re-activation on this node relies on
             IF Has("DeleteBeforeRemove") /\ gmap[Org[t]] # 0 THEN "DeleteBeforeRemove" ELSE "-")

\* a thread whose single-flight call returned runs on to its next gate
Wake(t) ==
  /\ th[t].pc = "woken"
  /\ Commit(Cont(S0, t, th[t].res), t, "wake")

Step(t) == \/ Call(t) \/ SendGet(t) \/ IdentExists(t) \/ IdentGet(t) \/ IdentRemove(t) \/ OwnExists(t) \/ OwnGet(t)
           \/ ClaimNX(t) \/ ClaimGet(t) \/ ActOk(t) \/ ActFail(t) \/ RollbackRemove(t) \/ Put(t)
           \/ PutFail(t) \/ RollDeact(t) \/ RollRemove(t)
           \/ PassDeact(t) \/ PassRemove(t) \/ Wake(t)

Next == \E t \in Threads : Step(t)

Spec == Init /\ [][Next]_vars

\* ---------------------------------------------------------------- properties
LiveNodes == {pnode[p] : p \in live}

\* C30 (1): at most one node holds an active instance
OneNode == Cardinality(LiveNodes) <= 1

Quiescent == \A t \in Threads : th[t].pc = "done"

\* C30 (2): once activity settles the registry names the node that holds the instance
RegistryNamesHolder == Quiescent => \A n \in LiveNodes : reg = n

\* not part of C30 (reported only): one node, one instance
OneInstance == Cardinality(live) <= 1

TypeOK == /\ reg \in Nodes \cup {NoNode}
          /\ \A n \in Nodes : flight[n] \in Threads \cup {NoThread}
          /\ \A t \in Threads : th[t].pc \in {"call", "sG", "iE", "iG", "iR", "oE", "oG", "cNX", "cG", "act", "fR", "P",
                                              "fD", "fX", "pD", "pR", "wait", "woken", "done"}
          /\ live \subseteq pact
=============================================================================
