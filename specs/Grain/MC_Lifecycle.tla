---- MODULE MC_Lifecycle ----
EXTENDS Lifecycle
Ranks == [s \in Senders |-> IF s = "s1" THEN 1 ELSE IF s = "s2" THEN 2 ELSE 3]
Sc(p1, p2, pa, sh) == [plan |-> [s \in Senders |-> IF s = "s1" THEN p1 ELSE p2], passivates |-> pa, shutdowns |-> sh]
\* quick tier
pass     == Sc(<<"m", "m">>, <<>>, 1, 0)                 \* traffic against the idle deadline
pillq    == Sc(<<"m", "m">>, <<"pill">>, 0, 0)           \* explicit deactivation against traffic (and the re-activation race)
passpill == Sc(<<"m">>, <<"pill">>, 1, 0)                \* explicit deactivation against passivation
shut     == Sc(<<"m", "m">>, <<>>, 1, 1)                 \* system shutdown against traffic and passivation
pillshut == Sc(<<"m">>, <<"pill">>, 0, 1)                \* explicit deactivation against system shutdown (two pills)
Quick == {pass, pillq, passpill, shut, pillshut}
\* thorough tier
Thorough == {Sc(<<"m", "m">>, <<"pill", "m">>, 1, 0), Sc(<<"m", "pill">>, <<"m">>, 1, 1), Sc(<<"m", "m">>, <<"m", "m">>, 1, 0)}
PassOnly == {pass}
PillOnly == {pillq}
====
