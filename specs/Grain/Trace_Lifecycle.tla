--------------------------- MODULE Trace_Lifecycle ---------------------------
(* Conformance: the (action, projected real state) lines logged by the grain replay must be *)
(* a behaviour of Lifecycle.tla. Projection: is a process registered under the identity, is  *)
(* it activated, its mailbox length and dispatch state.                                      *)
EXTENDS Lifecycle, Json

Conf == ndJsonDeserialize("conf.ndjson")

VARIABLES l, skipping
tvars == <<vars, l, skipping>>

SchedNo == [Idle |-> 0, Sched |-> 1, Proc |-> 2]
Ranks == [s \in Senders |-> IF s = "s1" THEN 1 ELSE IF s = "s2" THEN 2 ELSE 3]

Match(p) == IF map' = 0 THEN ~p.reg
            ELSE /\ p.reg /\ p.active = act'[map'] /\ p.mblen = Len(mb'[map']) /\ p.sch = SchedNo[sch'[map']]

Act(e) == CASE e.a = "SCall" -> SCall(e.arg)
            [] e.a = "SActEnter" -> SActEnter(e.arg)
            [] e.a = "SActExit" -> SActExit(e.arg)
            [] e.a = "SRecv" -> SRecv(e.arg)
            [] e.a = "SRet" -> SRet(e.arg)
            [] e.a = "GTake" -> GTake(e.arg)
            [] e.a = "GEnter" -> GEnter(e.arg)
            [] e.a = "GExit" -> GExit(e.arg)
            [] e.a = "GDeEnter" -> GDeEnter(e.arg)
            [] e.a = "GDeExit" -> GDeExit(e.arg)
            [] e.a = "PFire" -> PFire
            [] e.a = "PTry" -> PTry
            [] e.a = "PDeEnter" -> PDeEnter
            [] e.a = "PDeExit" -> PDeExit
            [] e.a = "ZCall" -> ZCall
            [] e.a = "ZRecv" -> ZRecv
            [] e.a = "ZRet" -> ZRet
            [] OTHER -> FALSE

ScOf(p) == [plan |-> p.plan, passivates |-> p.passivates, shutdowns |-> p.shutdowns]
AnyScenario == {[plan |-> [s \in Senders |-> <<>>], passivates |-> 0, shutdowns |-> 0]}
Reset(c) == /\ sc' = c /\ map' = 1 /\ nproc' = 1
         /\ act' = [p \in Procs |-> p = 1] /\ pill' = [p \in Procs |-> FALSE] /\ mb' = [p \in Procs |-> <<>>]
         /\ sch' = [p \in Procs |-> "Idle"] /\ armed' = [p \in Procs |-> p = 1] /\ closed' = [p \in Procs |-> FALSE]
         /\ spc' = [s \in Senders |-> IF Len(c.plan[s]) = 0 THEN "done" ELSE "idle"] /\ sidx' = [s \in Senders |-> 1] /\ starget' = [s \in Senders |-> 0]
         /\ sack' = [s \in Senders |-> ""] /\ sf' = ""
         /\ tpc' = [k \in Turns |-> "none"] /\ tproc' = [k \in Turns |-> 0] /\ tmsg' = [k \in Turns |-> NoMsg] /\ nturn' = 0
         /\ mpc' = "idle" /\ mproc' = 0 /\ fires' = 0
         /\ zpc' = (IF c.shutdowns > 0 THEN "idle" ELSE "done") /\ ztarget' = 0 /\ stopping' = FALSE /\ stopped' = FALSE
         /\ actDone' = [p \in Procs |-> p = 1] /\ deN' = [p \in Procs |-> 0] /\ inRecv' = {} /\ inDe' = {}
         /\ sent' = {} /\ got' = {}

TraceInit == Init /\ l = 1 /\ skipping = FALSE

TraceNext ==
  /\ l <= Len(Conf)
  /\ l' = l + 1
  /\ LET e == Conf[l] IN
     IF e.a = "New" THEN Reset(ScOf(e.p)) /\ skipping' = FALSE
     ELSE IF skipping \/ e.a = "Drift" THEN UNCHANGED vars /\ skipping' = TRUE
     ELSE \/ Act(e) /\ Match(e.p) /\ skipping' = FALSE
          \/ /\ ~ENABLED (Act(e) /\ Match(e.p))
             /\ PrintT(<<"DRIFT", l, e.a>>)
             /\ UNCHANGED vars /\ skipping' = TRUE

TraceSpec == TraceInit /\ [][TraceNext]_tvars
=============================================================================
