---- MODULE MC_Registry ----
(* Thread table of a run: cfg files give kind (send | ident | pass) and origin node of *)
(* threads t1..t4 as plain strings (cfg files cannot hold functions).                  *)
EXTENDS Registry
CONSTANTS K1, K2, K3, K4, O1, O2, O3, O4
KindT == [t \in Threads |-> CASE t = "t1" -> K1 [] t = "t2" -> K2 [] t = "t3" -> K3 [] OTHER -> K4]
OrgT == [t \in Threads |-> CASE t = "t1" -> O1 [] t = "t2" -> O2 [] t = "t3" -> O3 [] OTHER -> O4]
View == core
====
