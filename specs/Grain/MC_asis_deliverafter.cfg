SPECIFICATION Spec
CONSTANTS
  Senders = {"s1", "s2"}
  RankOf <- Ranks
  Scenarios <- PillOnly
  MaxProc = 3
  MaxTurns = 5
  Defects = {"DeliverAfterDeactivate"}
INVARIANTS ActivateBeforeReceive DeactivateOnce NoOverlap FreshAfterDeactivate
PROPERTIES NoReceiveAfterDeactivate
CHECK_DEADLOCK FALSE
