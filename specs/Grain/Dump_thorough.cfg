SPECIFICATION Spec
CONSTANTS
  Senders = {"s1", "s2"}
  RankOf <- Ranks
  Scenarios <- Thorough
  MaxProc = 4
  MaxTurns = 7
  Defects = {"OffTurnDeactivate", "DeliverAfterDeactivate"}
CHECK_DEADLOCK FALSE
