---- MODULE Gen_Registry ----
(* Behaviour generator: random walks (-simulate) of Registry.tla; a walk is printed when it *)
(* reaches quiescence (all threads done).  The printed histories are replayed on real      *)
(* actor systems by harness/cmd/grainreg.                                                  *)
EXTENDS MC_Registry, Json
VARIABLE hist
GInit == Init /\ hist = <<>>
GNext == Next /\ hist' = Append(hist, last')
GSpec == GInit /\ [][GNext]_<<vars, hist>>
Emit == (~Quiescent) \/ (PrintT(<<"BEHAVIOUR", ToJson(hist)>>) /\ FALSE)
====
