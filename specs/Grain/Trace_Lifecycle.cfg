SPECIFICATION TraceSpec
CONSTANTS
  Senders = {"s1", "s2"}
  RankOf <- Ranks
  Scenarios <- AnyScenario
  MaxProc = 4
  MaxTurns = 7
  Defects = {"OffTurnDeactivate", "DeliverAfterDeactivate"}
CHECK_DEADLOCK FALSE
