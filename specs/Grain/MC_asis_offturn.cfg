SPECIFICATION Spec
CONSTANTS
  Senders = {"s1", "s2"}
  RankOf <- Ranks
  Scenarios <- PassOnly
  MaxProc = 3
  MaxTurns = 5
  Defects = {"OffTurnDeactivate"}
INVARIANTS ActivateBeforeReceive DeactivateOnce NoOverlap FreshAfterDeactivate
PROPERTIES NoReceiveAfterDeactivate
CHECK_DEADLOCK FALSE
