SPECIFICATION Spec
CONSTANTS
  Pubs = {"p1", "p2"}
  NPub = 1
  RankOf <- Ranks
  Subs = {"s1"}
  InitSubscribed = {"s1"}
  Drainers = {"d1", "d2"}
  DrainOf <- DrainMap
  NIter = 2
  Ctls = {}
  KOps = 0
  Defects = {"LengthWrap"}
VIEW View
INVARIANTS NoPanic
CHECK_DEADLOCK FALSE
