SPECIFICATION TSpec
CONSTANTS
  Enqueuers = {"p1", "p2", "p3"}
  Dequeuers = {"c1", "c2"}
  NMsgs = 3
  NDeq = 4
  NNodes = 12
  Defects = {}
  PoolPolicy = "oneP"
  RankOf <- Ranks
CHECK_DEADLOCK FALSE
