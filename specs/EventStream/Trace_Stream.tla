----------------------------- MODULE Trace_Stream -----------------------------
(* Conformance of the REAL EventsStream with Stream.tla: every line of the recorded     *)
(* step-wise replay names the model action the puppet scheduler let the real thread     *)
(* perform and carries the projection of the real stream after the step (topics map,    *)
(* each subscriber's own topic set, active flag, queue length counter, queue contents). *)
(* Accepted iff the model can take that action and arrives at the same projection.      *)
EXTENDS Stream, Json

Trace == ndJsonDeserialize("trace.ndjson")
VARIABLE l
Ranks == [p \in Pubs |-> IF p = "p1" THEN 1 ELSE IF p = "p2" THEN 2 ELSE 3]
DrainMap == [d \in Drainers |-> IF d = "d3" THEN "s2" ELSE "s1"]
SeqSet(sq) == {sq[i] : i \in 1..Len(sq)}

Reset ==
  /\ topics' = InitSubscribed
  /\ selfT' = [s \in Subs |-> s \in InitSubscribed]
  /\ active' = [s \in Subs |-> TRUE]
  /\ q' = [s \in Subs |-> <<>>] /\ qlen' = [s \in Subs |-> 0]
  /\ pc' = [t \in Threads |-> "idle"]
  /\ pk' = [p \in Pubs |-> 1] /\ snap' = [p \in Pubs |-> <<>>]
  /\ n' = [d \in Drainers |-> 0] /\ got' = [d \in Drainers |-> <<>>] /\ iters' = [d \in Drainers |-> 0]
  /\ kop' = [k \in Ctls |-> ""] /\ ks' = [k \in Ctls |-> ""] /\ kops' = [k \in Ctls |-> 0] /\ kflag' = [k \in Ctls |-> FALSE]
  /\ must' = [e \in Events |-> {}] /\ mustnot' = [e \in Events |-> {}] /\ inflight' = {} /\ pubdone' = {}
  /\ stableSub' = [s \in Subs |-> s \in InitSubscribed]
  /\ stableUnsub' = [s \in Subs |-> s \notin InitSubscribed]
  /\ dead' = [s \in Subs |-> FALSE]
  /\ delivered' = [s \in Subs |-> <<>>]
  /\ tgen' = 1 /\ kgen' = [k \in Ctls |-> -1]
  /\ panicked' = FALSE /\ lastRes' = <<>> /\ last' = "init"

Act(a, t, s) ==
  CASE a = "PCall" -> PCall(t)   [] a = "PSnap" -> PSnap(t)     [] a = "PActive" -> PActive(t)
    [] a = "PSig" -> PSig(t)     [] a = "PLink" -> PLink(t)     [] a = "PCnt" -> PCnt(t)
    [] a = "ICall" -> ICall(t)   [] a = "ILen" -> ILen(t)       [] a = "IDeq" -> IDeq(t)   [] a = "IDec" -> IDec(t)
    [] a = "KSubscribe" -> KSubscribe(t, s)     [] a = "KUnsubscribe" -> KUnsubscribe(t, s)
    [] a = "KRemove" -> KRemove(t, s)           [] a = "KShutdown" -> KShutdown(t, s)
    [] a = "KSubActive" -> KSubActive(t)        [] a = "KSubSelf" -> KSubSelf(t)
    [] a = "KSubTopics" -> KSubTopics(t)        [] a = "KUnsubSelf" -> KUnsubSelf(t)
    [] a = "KUnsubTopics" -> KUnsubTopics(t)    [] a = "KRmTopics" -> KRmTopics(t)
    [] a = "KRmDelete" -> KRmDelete(t)          [] a = "KShut" -> KShut(t)

Matches(e) ==
  /\ topics' = SeqSet(e.topics)
  /\ \A s \in Subs : /\ active'[s] = e.active[s] /\ selfT'[s] = e.selfT[s]
                     /\ qlen'[s] = e.qlen[s] /\ q'[s] = e.q[s]

TStep ==
  /\ l <= Len(Trace)
  /\ l' = l + 1
  /\ LET e == Trace[l] IN
     IF e.a = "New" THEN Reset ELSE e.t \in Threads /\ Act(e.a, e.t, e.s) /\ Matches(e)

TSpec == Init /\ l = 1 /\ [][TStep]_<<vars, l>>
===============================================================================
