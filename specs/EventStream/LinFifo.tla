------------------------------ MODULE LinFifo ------------------------------
(* Property monitor (queue part of C20): is a recorded call/return history of the REAL  *)
(* internal/queue.Queue linearizable to a FIFO queue in which every enqueued element is *)
(* dequeued exactly once and Dequeue returns nil only when the queue is empty?          *)
(* Any number of concurrent enqueuers and dequeuers.  Same idea as                      *)
(* specs/Mailbox/LinQueue.tla: every pending operation takes effect in one silent Lin   *)
(* step between its call and its return (just in time: only when the next line is a     *)
(* return); the return must carry the result computed at that point.  Lines:            *)
(*   {ev: "call"|"ret"|"New", t: thread, op: "enq"|"deq", id, res}                      *)
(* "New" separates histories; <<"END", line>> is printed for every history that was     *)
(* linearized completely.  So that one bad history does not hide the following ones the *)
(* search may also give up on a history (bad = TRUE: the remaining lines are skipped,   *)
(* <<"ENDBAD", line>> is printed); a history is NOT linearizable iff no <<"END", line>> *)
(* exists for its closing "New" line.                                                   *)
EXTENDS Integers, Sequences, FiniteSets, TLC, Json

Trace == ndJsonDeserialize("trace.ndjson")

VARIABLES l,       \* next trace line
          q,       \* abstract FIFO: Seq(id)
          pend,    \* pending operations [t, op, id, lin, res]
          bad      \* this history has been given up

vars == <<l, q, pend, bad>>

Init == l = 1 /\ q = <<>> /\ pend = {} /\ bad = FALSE

NextIsRet == l <= Len(Trace) /\ Trace[l].ev = "ret"
Done(p, r) == pend' = (pend \ {p}) \cup {[p EXCEPT !.lin = TRUE, !.res = r]}

Lin(p) ==
  /\ ~bad /\ NextIsRet /\ ~p.lin
  /\ UNCHANGED <<l, bad>>
  /\ CASE p.op = "enq" -> q' = Append(q, p.id) /\ Done(p, 1)
       [] p.op = "deq" -> IF q = <<>> THEN Done(p, 0) /\ UNCHANGED q
                                      ELSE Done(p, Head(q)) /\ q' = Tail(q)

Line ==
  /\ ~bad
  /\ l <= Len(Trace)
  /\ l' = l + 1
  /\ UNCHANGED bad
  /\ LET e == Trace[l] IN
     CASE e.ev = "call" -> /\ pend' = pend \cup {[t |-> e.t, op |-> e.op, id |-> e.id, lin |-> FALSE, res |-> 0]}
                           /\ UNCHANGED q
       [] e.ev = "ret"  -> /\ \E p \in pend : p.t = e.t /\ p.lin /\ p.res = e.res /\ pend' = pend \ {p}
                           /\ UNCHANGED q
       [] e.ev = "New"  -> /\ PrintT(<<"END", l>>)
                           /\ q' = <<>> /\ pend' = {}

\* give up on this history at a return line (only there can a linearization attempt get stuck)
GiveUp == /\ ~bad /\ NextIsRet
          /\ bad' = TRUE /\ q' = <<>> /\ pend' = {} /\ UNCHANGED l
Skip == /\ bad /\ l <= Len(Trace) /\ l' = l + 1
        /\ IF Trace[l].ev = "New" THEN PrintT(<<"ENDBAD", l>>) /\ bad' = FALSE ELSE UNCHANGED bad
        /\ UNCHANGED <<q, pend>>

Next == Line \/ GiveUp \/ Skip \/ \E p \in pend : Lin(p)
Spec == Init /\ [][Next]_vars
=============================================================================
