------------------------------ MODULE MSQueue ------------------------------
(* internal/queue/queue.go — the subscriber queue of the event stream: a Michael-Scott *)
(* lock-free queue (dummy head node, CAS on tail.next / tail / head) whose nodes, in   *)
(* the code as found, were recycled through a sync.Pool.                               *)
(* One action per atomic step; action names = verifhook points of the real code:      *)
(*   Enqueue:  ECall      harness "call" -> getItem (pool.Get / new node), node.v = v   *)
(*             ELoadTail  msq.enq.loadtail   tail := load(q.tail)                        *)
(*             ELoadNext  msq.enq.loadnext   next := load(tail.next)                     *)
(*             EHelp      msq.enq.help       CAS(q.tail, tail, next); retry              *)
(*             ELink      msq.enq.link       CAS(tail.next, nil, node)  (lin. point)     *)
(*             ESwing     msq.enq.swing      CAS(q.tail, tail, node)                     *)
(*             EInc       msq.enq.len        len++ ; return                              *)
(*   Dequeue:  DCall      harness "call"                                                 *)
(*             DLoadHead  msq.deq.loadhead   head := load(q.head)                        *)
(*             DLoadNext  msq.deq.loadnext   next := load(head.next); nil -> return nil  *)
(*             DCas       msq.deq.cas        CAS(q.head, head, next)     (lin. point)    *)
(*             DReadV     msq.deq.readv      value := next.v   (AFTER the CAS)           *)
(*             DRelV / DRelNext / DRelPut    msq.deq.release / msq.rel.next / msq.rel.put *)
(*                        releaseItem(head): head.v = nil ; head.next = nil ; pool.Put   *)
(*                        -- only with "PoolReuse" \in Defects (the code as found)       *)
(*             DDec       msq.deq.len        len-- ; return value                        *)
(* Defects = {} is the repaired design: nodes are never reused (left to the GC), so    *)
(* next pointers are write-once and the textbook linearization argument applies.       *)
(* Ghost variables: absq (the abstract FIFO, updated at the linearization points) and  *)
(* expect (what the abstract FIFO handed to a dequeuer at its head CAS).               *)
EXTENDS Integers, Sequences, FiniteSets, TLC

CONSTANTS Enqueuers,   \* set of enqueuer thread names
          Dequeuers,   \* set of dequeuer thread names
          NMsgs,       \* Enqueue calls per enqueuer
          NDeq,        \* Dequeue calls per dequeuer
          NNodes,      \* nodes that may ever be allocated (node 1 is the initial dummy)
          Defects,     \* subset of {"PoolReuse"}
          PoolPolicy,  \* "oneP": sync.Pool as seen from one P (private slot, then LIFO shared list, then New)
                       \* "any" : Get may return any pooled node or a new one (several Ps, GC clearing the pool)
          RankOf       \* [Enqueuers -> 1..9]

Threads == Enqueuers \cup Dequeuers
Nodes == 1..NNodes
Reuse == "PoolReuse" \in Defects
Id(p, k) == RankOf[p] * 10 + k

VARIABLES nxt,        \* [Nodes -> Nodes \cup {0}]   item.next (0 = nil)
          val,        \* [Nodes -> Int]               item.v    (0 = nil)
          head, tail, \* q.head, q.tail
          len,        \* q.len
          fresh,      \* next never-allocated node
          ppriv,      \* sync.Pool private slot of the P (0 = empty)
          pshared,    \* sync.Pool shared list of the P, head first
          pc,         \* [Threads -> STRING]
          node,       \* [Threads -> Nodes \cup {0}]  enqueuer: newNode
          lt,         \* [Threads -> Nodes \cup {0}]  local `tail` (enqueuer) / `head` (dequeuer)
          ln,         \* [Threads -> Nodes \cup {0}]  local `next`
          lv,         \* [Threads -> Int]             dequeuer: local `value`
          pk,         \* [Enqueuers -> 1..NMsgs+1]
          dops,       \* [Dequeuers -> 0..NDeq]
          absq,       \* ghost: abstract FIFO (sequence of ids)
          expect,     \* ghost: [Dequeuers -> Int] id the abstract FIFO handed out at the head CAS (-1: it was empty)
          completed,  \* ghost: ids whose Enqueue returned
          returned,   \* ghost: non-nil results of Dequeue in return order
          lastRes,    \* result of the last returned Dequeue (0 = nil), output only
          last        \* "thread:action" of the last step, output only

vars == <<nxt, val, head, tail, len, fresh, ppriv, pshared, pc, node, lt, ln, lv, pk, dops,
          absq, expect, completed, returned, lastRes, last>>

Init == /\ nxt = [n \in Nodes |-> 0] /\ val = [n \in Nodes |-> 0]
        /\ head = 1 /\ tail = 1 /\ len = 0 /\ fresh = 2
        /\ ppriv = 0 /\ pshared = <<>>
        /\ pc = [t \in Threads |-> "idle"]
        /\ node = [t \in Threads |-> 0] /\ lt = [t \in Threads |-> 0] /\ ln = [t \in Threads |-> 0]
        /\ lv = [t \in Threads |-> 0]
        /\ pk = [p \in Enqueuers |-> 1] /\ dops = [c \in Dequeuers |-> 0]
        /\ absq = <<>> /\ expect = [c \in Dequeuers |-> 0]
        /\ completed = {} /\ returned = <<>> /\ lastRes = 0 /\ last = "init"

Goto(t, l) == pc' = [pc EXCEPT ![t] = l]
RemoveAt(s, i) == SubSeq(s, 1, i - 1) \o SubSeq(s, i + 1, Len(s))
RECURSIVE InsertSorted(_, _)
InsertSorted(s, x) == IF s = <<>> THEN <<x>> ELSE IF x <= Head(s) THEN <<x>> \o s ELSE <<Head(s)>> \o InsertSorted(Tail(s), x)

\* ---- sync.Pool ------------------------------------------------------------------
\* possible outcomes of q.getItem(): <<node, ppriv', pshared', fresh'>>
GetChoices ==
  IF ~Reuse THEN {<<fresh, ppriv, pshared, fresh + 1>>}
  ELSE IF PoolPolicy = "oneP"
       THEN IF ppriv # 0 THEN {<<ppriv, 0, pshared, fresh>>}
            ELSE IF pshared # <<>> THEN {<<Head(pshared), 0, Tail(pshared), fresh>>}
            ELSE {<<fresh, 0, <<>>, fresh + 1>>}
       ELSE {<<pshared[i], 0, RemoveAt(pshared, i), fresh>> : i \in 1..Len(pshared)}
            \cup {<<fresh, 0, pshared, fresh + 1>>}
PutPriv(n) == IF PoolPolicy = "oneP" /\ ppriv = 0 THEN n ELSE IF PoolPolicy = "oneP" THEN ppriv ELSE 0
PutShared(n) == IF PoolPolicy = "oneP" THEN (IF ppriv = 0 THEN pshared ELSE <<n>> \o pshared)
                ELSE InsertSorted(pshared, n)

\* ---- Enqueue --------------------------------------------------------------------
ECall(p) ==
  /\ pc[p] = "idle" /\ pk[p] <= NMsgs
  /\ \E g \in GetChoices :
       /\ g[1] <= NNodes
       /\ node' = [node EXCEPT ![p] = g[1]]
       /\ val' = [val EXCEPT ![g[1]] = Id(p, pk[p])]      \* newNode.v = v ; newNode.next is NOT reset here
       /\ ppriv' = g[2] /\ pshared' = g[3] /\ fresh' = g[4]
  /\ Goto(p, "ltail") /\ last' = p \o ":ECall"
  /\ UNCHANGED <<nxt, head, tail, len, lt, ln, lv, pk, dops, absq, expect, completed, returned, lastRes>>

ELoadTail(p) ==
  /\ pc[p] = "ltail" /\ p \in Enqueuers
  /\ lt' = [lt EXCEPT ![p] = tail]
  /\ Goto(p, "lnext") /\ last' = p \o ":ELoadTail"
  /\ UNCHANGED <<nxt, val, head, tail, len, fresh, ppriv, pshared, node, ln, lv, pk, dops, absq, expect, completed, returned, lastRes>>

ELoadNext(p) ==
  /\ pc[p] = "lnext" /\ p \in Enqueuers
  /\ ln' = [ln EXCEPT ![p] = nxt[lt[p]]]
  /\ Goto(p, IF nxt[lt[p]] # 0 THEN "help" ELSE "link") /\ last' = p \o ":ELoadNext"
  /\ UNCHANGED <<nxt, val, head, tail, len, fresh, ppriv, pshared, node, lt, lv, pk, dops, absq, expect, completed, returned, lastRes>>

EHelp(p) ==
  /\ pc[p] = "help"
  /\ tail' = IF tail = lt[p] THEN ln[p] ELSE tail
  /\ Goto(p, "ltail") /\ last' = p \o ":EHelp"
  /\ UNCHANGED <<nxt, val, head, len, fresh, ppriv, pshared, node, lt, ln, lv, pk, dops, absq, expect, completed, returned, lastRes>>

ELink(p) ==
  /\ pc[p] = "link" /\ last' = p \o ":ELink"
  /\ IF nxt[lt[p]] = 0
     THEN /\ nxt' = [nxt EXCEPT ![lt[p]] = node[p]]
          /\ absq' = Append(absq, Id(p, pk[p]))
          /\ Goto(p, "swing")
     ELSE /\ Goto(p, "ltail") /\ UNCHANGED <<nxt, absq>>
  /\ UNCHANGED <<val, head, tail, len, fresh, ppriv, pshared, node, lt, ln, lv, pk, dops, expect, completed, returned, lastRes>>

ESwing(p) ==
  /\ pc[p] = "swing"
  /\ tail' = IF tail = lt[p] THEN node[p] ELSE tail
  /\ Goto(p, "inc") /\ last' = p \o ":ESwing"
  /\ UNCHANGED <<nxt, val, head, len, fresh, ppriv, pshared, node, lt, ln, lv, pk, dops, absq, expect, completed, returned, lastRes>>

EInc(p) ==
  /\ pc[p] = "inc"
  /\ len' = len + 1
  /\ completed' = completed \cup {Id(p, pk[p])}
  /\ pk' = [pk EXCEPT ![p] = @ + 1]
  /\ Goto(p, IF pk[p] = NMsgs THEN "done" ELSE "idle") /\ last' = p \o ":EInc"
  /\ UNCHANGED <<nxt, val, head, tail, fresh, ppriv, pshared, node, lt, ln, lv, dops, absq, expect, returned, lastRes>>

\* ---- Dequeue --------------------------------------------------------------------
DReturn(c, r) == /\ lastRes' = r
                 /\ returned' = IF r # 0 THEN Append(returned, r) ELSE returned
                 /\ dops' = [dops EXCEPT ![c] = @ + 1]
                 /\ Goto(c, IF dops[c] + 1 = NDeq THEN "done" ELSE "idle")

DCall(c) ==
  /\ pc[c] = "idle" /\ dops[c] < NDeq
  /\ Goto(c, "lhead") /\ last' = c \o ":DCall"
  /\ UNCHANGED <<nxt, val, head, tail, len, fresh, ppriv, pshared, node, lt, ln, lv, pk, dops, absq, expect, completed, returned, lastRes>>

DLoadHead(c) ==
  /\ pc[c] = "lhead"
  /\ lt' = [lt EXCEPT ![c] = head]
  /\ Goto(c, "lnext") /\ last' = c \o ":DLoadHead"
  /\ UNCHANGED <<nxt, val, head, tail, len, fresh, ppriv, pshared, node, ln, lv, pk, dops, absq, expect, completed, returned, lastRes>>

DLoadNext(c) ==
  /\ pc[c] = "lnext" /\ c \in Dequeuers /\ last' = c \o ":DLoadNext"
  /\ ln' = [ln EXCEPT ![c] = nxt[lt[c]]]
  /\ IF nxt[lt[c]] = 0
     THEN DReturn(c, 0)
     ELSE Goto(c, "cas") /\ UNCHANGED <<lastRes, returned, dops>>
  /\ UNCHANGED <<nxt, val, head, tail, len, fresh, ppriv, pshared, node, lt, lv, pk, absq, expect, completed>>

DCas(c) ==
  /\ pc[c] = "cas" /\ last' = c \o ":DCas"
  /\ IF head = lt[c]
     THEN /\ head' = ln[c]
          /\ expect' = [expect EXCEPT ![c] = IF absq # <<>> THEN Head(absq) ELSE -1]
          /\ absq' = IF absq # <<>> THEN Tail(absq) ELSE absq
          /\ Goto(c, "readv")
     ELSE /\ Goto(c, "lhead") /\ UNCHANGED <<head, expect, absq>>
  /\ UNCHANGED <<nxt, val, tail, len, fresh, ppriv, pshared, node, lt, ln, lv, pk, dops, completed, returned, lastRes>>

DReadV(c) ==
  /\ pc[c] = "readv"
  /\ lv' = [lv EXCEPT ![c] = val[ln[c]]]
  /\ Goto(c, IF Reuse THEN "relv" ELSE "dec") /\ last' = c \o ":DReadV"
  /\ UNCHANGED <<nxt, val, head, tail, len, fresh, ppriv, pshared, node, lt, ln, pk, dops, absq, expect, completed, returned, lastRes>>

DRelV(c) ==
  /\ pc[c] = "relv"
  /\ val' = [val EXCEPT ![lt[c]] = 0]
  /\ Goto(c, "relnext") /\ last' = c \o ":DRelV"
  /\ UNCHANGED <<nxt, head, tail, len, fresh, ppriv, pshared, node, lt, ln, lv, pk, dops, absq, expect, completed, returned, lastRes>>

DRelNext(c) ==
  /\ pc[c] = "relnext"
  /\ nxt' = [nxt EXCEPT ![lt[c]] = 0]
  /\ Goto(c, "relput") /\ last' = c \o ":DRelNext"
  /\ UNCHANGED <<val, head, tail, len, fresh, ppriv, pshared, node, lt, ln, lv, pk, dops, absq, expect, completed, returned, lastRes>>

DRelPut(c) ==
  /\ pc[c] = "relput"
  /\ ppriv' = PutPriv(lt[c]) /\ pshared' = PutShared(lt[c])
  /\ Goto(c, "dec") /\ last' = c \o ":DRelPut"
  /\ UNCHANGED <<nxt, val, head, tail, len, fresh, node, lt, ln, lv, pk, dops, absq, expect, completed, returned, lastRes>>

DDec(c) ==
  /\ pc[c] = "dec" /\ last' = c \o ":DDec"
  /\ len' = len - 1
  /\ DReturn(c, lv[c])
  /\ UNCHANGED <<nxt, val, head, tail, fresh, ppriv, pshared, node, lt, ln, lv, pk, absq, expect, completed>>

Next == \/ \E p \in Enqueuers : ECall(p) \/ ELoadTail(p) \/ ELoadNext(p) \/ EHelp(p) \/ ELink(p) \/ ESwing(p) \/ EInc(p)
        \/ \E c \in Dequeuers : DCall(c) \/ DLoadHead(c) \/ DLoadNext(c) \/ DCas(c) \/ DReadV(c)
                                 \/ DRelV(c) \/ DRelNext(c) \/ DRelPut(c) \/ DDec(c)

Spec == Init /\ [][Next]_vars

\* ---- properties -----------------------------------------------------------------
Ids(s) == {s[i] : i \in 1..Len(s)}
Quiescent == \A t \in Threads : pc[t] \in {"idle", "done"}

\* values of the nodes after n, following next pointers (bounded: recycled nodes can form cycles)
RECURSIVE ChainVals(_, _)
ChainVals(n, fuel) == IF nxt[n] = 0 \/ fuel = 0 THEN <<>> ELSE <<val[nxt[n]]>> \o ChainVals(nxt[n], fuel - 1)
RECURSIVE Reaches(_, _, _)
Reaches(a, b, fuel) == a = b \/ (fuel > 0 /\ nxt[a] # 0 /\ Reaches(nxt[a], b, fuel - 1))

\* refinement witness: the list hanging off head IS the abstract FIFO
ChainIsAbs == ChainVals(head, NNodes + 1) = absq

\* a dequeuer that won the head CAS returns what the abstract FIFO handed out
ValueOK == \A c \in Dequeuers : pc[c] = "dec" => lv[c] = expect[c]

\* Dequeue returns nil only when the abstract FIFO is empty at the load of head.next
EmptyOK == [][ \A c \in Dequeuers : (pc[c] = "lnext" /\ pc'[c] \in {"idle", "done"}) => absq = <<>> ]_vars

NoDup == \A i, j \in 1..Len(returned) : i # j => returned[i] # returned[j]

\* nothing in flight: every completed enqueue was returned once or is still queued, and Length() is exact
QuiescentExact == Quiescent => /\ completed = Ids(returned) \cup Ids(absq)
                               /\ Ids(returned) \cap Ids(absq) = {}
                               /\ len = Len(absq)

\* repaired design only: one list from the initial dummy, head and tail on it, tail never beyond the end
OneList == /\ Reaches(1, head, NNodes) /\ Reaches(1, tail, NNodes)
           /\ \A n \in Nodes : (n >= fresh) => nxt[n] = 0
=============================================================================
