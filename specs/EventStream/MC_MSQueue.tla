---- MODULE MC_MSQueue ----
EXTENDS MSQueue
View == <<nxt, val, head, tail, len, fresh, ppriv, pshared, pc, node, lt, ln, lv, pk, dops, absq, expect, completed, returned, lastRes>>
Ranks == [p \in Enqueuers |-> IF p = "p1" THEN 1 ELSE IF p = "p2" THEN 2 ELSE 3]
====
