------------------------------- MODULE Stream -------------------------------
(* eventstream/eventstream.go + subscriber.go at atomic-step granularity, one topic.     *)
(* The subscriber queue is abstract here (q = FIFO sequence, qlen = the Length counter,  *)
(* incremented AFTER the link and decremented AFTER the head CAS, as MSQueue.tla shows   *)
(* the repaired internal/queue refines).  Action names = verifhook points:                *)
(*  publisher  PCall (harness "call": Publish entered), PSnap (es.pub.snap: copy          *)
(*             topics[topic] under the read lock), PActive (es.pub.active: sub.Active()), *)
(*             PSig (es.sig.active: signal's own active check), PLink (msq.enq.loadtail:  *)
(*             Enqueue up to the link), PCnt (msq.enq.len: len++)                         *)
(*  drainer    ICall, ILen (es.iter.len: n := Length()), IDeq (msq.deq.loadhead: Dequeue  *)
(*             up to the head CAS / nil), IDec (msq.deq.len: len--)                       *)
(*  controller KSubscribe/KUnsubscribe/KRemove/KShutdown (harness "call"), KSubActive     *)
(*             (es.sub.active), KSubSelf (es.sub.self), KSubTopics (es.sub.topics),       *)
(*             KUnsubSelf (es.unsub.self), KUnsubTopics (es.unsub.topics), KRmTopics      *)
(*             (es.rm.topics), KRmDelete (es.rm.delete), KShut (es.shutdown)              *)
(* Ghost variables state C20 in terms of real-time order of calls and returns:           *)
(*   must[e]    subscribers that were stably subscribed (Subscribe returned, no           *)
(*              Unsubscribe/Remove/Shutdown called since) when Publish(e) was called and  *)
(*              stayed so until it returned: e must reach them exactly once;              *)
(*   mustnot[e] subscribers that were stably unsubscribed / shut down when Publish(e) was *)
(*              called: e must never reach them.                                          *)
EXTENDS Integers, Sequences, FiniteSets, TLC

CONSTANTS Pubs, NPub, RankOf,        \* publisher threads, events per publisher, [Pubs -> 1..9]
          Subs, InitSubscribed,      \* subscribers (all added and active initially), those subscribed initially
          Drainers, DrainOf, NIter,  \* drainer threads, [Drainers -> Subs], Iterator calls per drainer
          Ctls, KOps,                \* controller threads, operations per controller
          Defects                    \* subset of {"LengthWrap", "SubscribeSplit"}
                                     \* "LengthWrap": Length() returns uint64(len) even when len < 0 (the code as found;
                                     \*   Iterator then panics in make(chan, n))
                                     \* "SubscribeSplit" (a seeded mutant, kept as documentation): Subscribe looks the
                                     \*   topic's subscriber map up under the read lock (KSubTopics) and inserts under the
                                     \*   write lock in a second step (KSubInsert), re-checking only the "topic missing"
                                     \*   case; if the last other subscriber unsubscribes in between, Unsubscribe deletes
                                     \*   the empty map from b.topics and the insert goes into the orphaned map

Threads == Pubs \cup Drainers \cup Ctls
Id(p, k) == RankOf[p] * 10 + k
Events == {Id(p, k) : p \in Pubs, k \in 1..NPub}
UOps == {"unsub", "rm", "shutdown"}

VARIABLES topics,   \* SUBSET Subs: b.topics[topic]
          selfT,    \* [Subs -> BOOLEAN]: sub.topics[topic]
          active,   \* [Subs -> BOOLEAN]
          q, qlen,  \* [Subs -> Seq(Events)], [Subs -> Int]
          pc,       \* [Threads -> STRING]
          pk,       \* [Pubs -> 1..NPub+1]
          snap,     \* [Pubs -> Seq(Subs)]: rest of the publisher's snapshot slice
          n, got, iters,   \* drainer locals: remaining count, collected messages, Iterator calls done
          kop, ks, kops, kflag,  \* controller: current op / subscriber, ops done, "a conflicting op overlapped"
          must, mustnot, inflight, pubdone,   \* ghost, per event
          stableSub, stableUnsub, dead,        \* ghost, per subscriber
          delivered,  \* ghost: [Subs -> Seq(Events)] Iterator results in return order
          tgen,       \* identity of the map object b.topics[topic] (counts its deletions; only with SubscribeSplit)
          kgen,       \* [Ctls -> Int] map object a Subscribe looked up (0 = topic was missing, -1 = none)
          panicked,   \* Iterator would panic (make(chan, n) with n < 0)
          lastRes,    \* result of the last returned Iterator (output only)
          last

vars == <<topics, selfT, active, q, qlen, pc, pk, snap, n, got, iters, kop, ks, kops, kflag,
          must, mustnot, inflight, pubdone, stableSub, stableUnsub, dead, delivered, tgen, kgen, panicked, lastRes, last>>

Init ==
  /\ topics = InitSubscribed
  /\ selfT = [s \in Subs |-> s \in InitSubscribed]
  /\ active = [s \in Subs |-> TRUE]
  /\ q = [s \in Subs |-> <<>>] /\ qlen = [s \in Subs |-> 0]
  /\ pc = [t \in Threads |-> "idle"]
  /\ pk = [p \in Pubs |-> 1] /\ snap = [p \in Pubs |-> <<>>]
  /\ n = [d \in Drainers |-> 0] /\ got = [d \in Drainers |-> <<>>] /\ iters = [d \in Drainers |-> 0]
  /\ kop = [k \in Ctls |-> ""] /\ ks = [k \in Ctls |-> ""] /\ kops = [k \in Ctls |-> 0] /\ kflag = [k \in Ctls |-> FALSE]
  /\ must = [e \in Events |-> {}] /\ mustnot = [e \in Events |-> {}] /\ inflight = {} /\ pubdone = {}
  /\ stableSub = [s \in Subs |-> s \in InitSubscribed]
  /\ stableUnsub = [s \in Subs |-> s \notin InitSubscribed]
  /\ dead = [s \in Subs |-> FALSE]
  /\ delivered = [s \in Subs |-> <<>>]
  /\ tgen = 1 /\ kgen = [k \in Ctls |-> -1]
  /\ panicked = FALSE /\ lastRes = <<>> /\ last = "init"

Goto(t, l) == pc' = [pc EXCEPT ![t] = l]
Perms(S) == {f \in [1..Cardinality(S) -> S] : \A i, j \in 1..Cardinality(S) : i # j => f[i] # f[j]}

\* ------------------------------------------------------------------ publisher
Ev(p) == Id(p, pk[p])

PCall(p) ==
  /\ pc[p] = "idle" /\ pk[p] <= NPub
  /\ must' = [must EXCEPT ![Ev(p)] = {s \in Subs : stableSub[s]}]
  /\ mustnot' = [mustnot EXCEPT ![Ev(p)] = {s \in Subs : stableUnsub[s] \/ dead[s]}]
  /\ inflight' = inflight \cup {Ev(p)}
  /\ Goto(p, "snap") /\ last' = p \o ":PCall"
  /\ UNCHANGED <<tgen, kgen, topics, selfT, active, q, qlen, pk, snap, n, got, iters, kop, ks, kops, kflag, pubdone,
                 stableSub, stableUnsub, dead, delivered, panicked, lastRes>>

\* Publish returns
PRet(p) == /\ pubdone' = pubdone \cup {Ev(p)}
           /\ inflight' = inflight \ {Ev(p)}
           /\ pk' = [pk EXCEPT ![p] = @ + 1]
           /\ Goto(p, IF pk[p] = NPub THEN "done" ELSE "idle")
PStay(p, l) == Goto(p, l) /\ UNCHANGED <<pubdone, inflight, pk>>

PSnap(p) ==
  /\ pc[p] = "snap" /\ last' = p \o ":PSnap"
  /\ IF topics = {}
     THEN PRet(p) /\ UNCHANGED snap
     ELSE /\ \E f \in Perms(topics) : snap' = [snap EXCEPT ![p] = f]     \* Go map iteration order
          /\ PStay(p, "act")
  /\ UNCHANGED <<tgen, kgen, topics, selfT, active, q, qlen, n, got, iters, kop, ks, kops, kflag, must, mustnot,
                 stableSub, stableUnsub, dead, delivered, panicked, lastRes>>

\* move on to the next subscriber of the snapshot, or return
PNextSub(p) == /\ snap' = [snap EXCEPT ![p] = Tail(@)]
               /\ IF Len(snap[p]) = 1 THEN PRet(p) ELSE PStay(p, "act")

PActive(p) ==
  /\ pc[p] = "act" /\ last' = p \o ":PActive"
  /\ IF active[Head(snap[p])] THEN PStay(p, "sig") /\ UNCHANGED snap ELSE PNextSub(p)
  /\ UNCHANGED <<tgen, kgen, topics, selfT, active, q, qlen, n, got, iters, kop, ks, kops, kflag, must, mustnot,
                 stableSub, stableUnsub, dead, delivered, panicked, lastRes>>

PSig(p) ==
  /\ pc[p] = "sig" /\ last' = p \o ":PSig"
  /\ IF active[Head(snap[p])] THEN PStay(p, "link") /\ UNCHANGED snap ELSE PNextSub(p)
  /\ UNCHANGED <<tgen, kgen, topics, selfT, active, q, qlen, n, got, iters, kop, ks, kops, kflag, must, mustnot,
                 stableSub, stableUnsub, dead, delivered, panicked, lastRes>>

PLink(p) ==
  /\ pc[p] = "link" /\ last' = p \o ":PLink"
  /\ q' = [q EXCEPT ![Head(snap[p])] = Append(@, Ev(p))]
  /\ PStay(p, "cnt")
  /\ UNCHANGED <<tgen, kgen, topics, selfT, active, qlen, snap, n, got, iters, kop, ks, kops, kflag, must, mustnot,
                 stableSub, stableUnsub, dead, delivered, panicked, lastRes>>

PCnt(p) ==
  /\ pc[p] = "cnt" /\ last' = p \o ":PCnt"
  /\ qlen' = [qlen EXCEPT ![Head(snap[p])] = @ + 1]
  /\ PNextSub(p)
  /\ UNCHANGED <<tgen, kgen, topics, selfT, active, q, n, got, iters, kop, ks, kops, kflag, must, mustnot,
                 stableSub, stableUnsub, dead, delivered, panicked, lastRes>>

\* ------------------------------------------------------------------ drainer (Iterator)
IRet(d, res) == /\ delivered' = [delivered EXCEPT ![DrainOf[d]] = @ \o res]
                /\ lastRes' = res
                /\ iters' = [iters EXCEPT ![d] = @ + 1]
                /\ got' = [got EXCEPT ![d] = <<>>]
                /\ Goto(d, IF iters[d] + 1 = NIter THEN "done" ELSE "idle")

ICall(d) ==
  /\ pc[d] = "idle" /\ iters[d] < NIter
  /\ Goto(d, "ilen") /\ last' = d \o ":ICall"
  /\ UNCHANGED <<tgen, kgen, topics, selfT, active, q, qlen, pk, snap, n, got, iters, kop, ks, kops, kflag, must, mustnot, inflight,
                 pubdone, stableSub, stableUnsub, dead, delivered, panicked, lastRes>>

ILen(d) ==
  /\ pc[d] = "ilen" /\ last' = d \o ":ILen"
  /\ n' = [n EXCEPT ![d] = qlen[DrainOf[d]]]
  /\ panicked' = (panicked \/ ("LengthWrap" \in Defects /\ qlen[DrainOf[d]] < 0))
  /\ IF qlen[DrainOf[d]] <= 0
     THEN IRet(d, <<>>)
     ELSE Goto(d, "ideq") /\ UNCHANGED <<delivered, lastRes, iters, got>>
  /\ UNCHANGED <<tgen, kgen, topics, selfT, active, q, qlen, pk, snap, kop, ks, kops, kflag, must, mustnot, inflight,
                 pubdone, stableSub, stableUnsub, dead>>

IDeq(d) ==
  /\ pc[d] = "ideq" /\ last' = d \o ":IDeq"
  /\ LET s == DrainOf[d] IN
     IF q[s] = <<>>
     THEN IRet(d, got[d]) /\ UNCHANGED q                       \* Dequeue returned nil: break
     ELSE /\ got' = [got EXCEPT ![d] = Append(@, Head(q[s]))]
          /\ q' = [q EXCEPT ![s] = Tail(@)]
          /\ Goto(d, "idec") /\ UNCHANGED <<delivered, lastRes, iters>>
  /\ UNCHANGED <<tgen, kgen, topics, selfT, active, qlen, pk, snap, n, kop, ks, kops, kflag, must, mustnot, inflight,
                 pubdone, stableSub, stableUnsub, dead, panicked>>

IDec(d) ==
  /\ pc[d] = "idec" /\ last' = d \o ":IDec"
  /\ qlen' = [qlen EXCEPT ![DrainOf[d]] = @ - 1]
  /\ n' = [n EXCEPT ![d] = @ - 1]
  /\ IF n[d] = 1 THEN IRet(d, got[d]) ELSE Goto(d, "ideq") /\ UNCHANGED <<delivered, lastRes, iters, got>>
  /\ UNCHANGED <<tgen, kgen, topics, selfT, active, q, pk, snap, kop, ks, kops, kflag, must, mustnot, inflight,
                 pubdone, stableSub, stableUnsub, dead, panicked>>

\* ------------------------------------------------------------------ controller
InSub(k, s) == kop[k] = "sub" /\ ks[k] = s /\ pc[k] \notin {"idle", "done"}
InU(k, s) == kop[k] \in UOps /\ ks[k] = s /\ pc[k] \notin {"idle", "done"}

KBegin(k, op, s, l) ==
  /\ pc[k] = "idle" /\ kops[k] < KOps
  /\ kop' = [kop EXCEPT ![k] = op] /\ ks' = [ks EXCEPT ![k] = s]
  /\ Goto(k, l)

\* an operation of the controller returns
KRet(k) ==
  /\ kops' = [kops EXCEPT ![k] = @ + 1]
  /\ Goto(k, IF kops[k] + 1 = KOps THEN "done" ELSE "idle")
  /\ LET s == ks[k] IN
     IF kop[k] = "sub"
     THEN /\ stableSub' = [stableSub EXCEPT ![s] = (~kflag[k]) /\ active[s] /\ (pc[k] \in {"sub.topics", "sub.insert"})]
          /\ UNCHANGED <<stableUnsub, dead>>
     ELSE /\ stableUnsub' = [stableUnsub EXCEPT ![s] = ~kflag[k]]
          /\ dead' = [dead EXCEPT ![s] = @ \/ kop[k] \in {"rm", "shutdown"}]
          /\ UNCHANGED stableSub

KSubscribe(k, s) ==
  /\ KBegin(k, "sub", s, "sub.active") /\ last' = k \o ":KSubscribe"
  /\ stableUnsub' = [stableUnsub EXCEPT ![s] = FALSE]
  \* a Publish in flight now overlaps this Subscribe: it may or may not reach s
  /\ mustnot' = [e \in Events |-> IF e \in inflight /\ ~dead[s] THEN mustnot[e] \ {s} ELSE mustnot[e]]
  /\ kflag' = [k2 \in Ctls |-> IF k2 = k THEN \E k3 \in Ctls \ {k} : InU(k3, s)
                               ELSE IF InU(k2, s) THEN TRUE ELSE kflag[k2]]
  /\ UNCHANGED <<tgen, kgen, topics, selfT, active, q, qlen, pk, snap, n, got, iters, kops, must, inflight, pubdone,
                 stableSub, dead, delivered, panicked, lastRes>>

\* Unsubscribe / RemoveSubscriber / Shutdown are called
KUCall(k, op, s, l) ==
  /\ KBegin(k, op, s, l)
  /\ stableSub' = [stableSub EXCEPT ![s] = FALSE]
  /\ must' = [e \in Events |-> IF e \in inflight THEN must[e] \ {s} ELSE must[e]]
  /\ kflag' = [k2 \in Ctls |-> IF k2 = k THEN \E k3 \in Ctls \ {k} : InSub(k3, s)
                               ELSE IF InSub(k2, s) THEN TRUE ELSE kflag[k2]]
  /\ UNCHANGED <<tgen, kgen, topics, selfT, active, q, qlen, pk, snap, n, got, iters, kops, mustnot, inflight, pubdone,
                 stableUnsub, dead, delivered, panicked, lastRes>>

KUnsubscribe(k, s) == KUCall(k, "unsub", s, "unsub.self") /\ last' = k \o ":KUnsubscribe"
KRemove(k, s) == KUCall(k, "rm", s, "rm.topics") /\ last' = k \o ":KRemove"
KShutdown(k, s) == KUCall(k, "shutdown", s, "shutdown") /\ last' = k \o ":KShutdown"

KStep(k) == UNCHANGED <<kop, ks, kflag, q, qlen, pk, snap, n, got, iters, must, mustnot, inflight, pubdone,
                        delivered, panicked, lastRes>>
KStay == UNCHANGED <<kops, stableSub, stableUnsub, dead>>

KSubActive(k) ==
  /\ pc[k] = "sub.active" /\ last' = k \o ":KSubActive"
  /\ IF active[ks[k]] THEN Goto(k, "sub.self") /\ KStay ELSE KRet(k)
  /\ KStep(k) /\ UNCHANGED <<tgen, kgen, topics, selfT, active>>

KSubSelf(k) ==
  /\ pc[k] = "sub.self" /\ last' = k \o ":KSubSelf"
  /\ selfT' = [selfT EXCEPT ![ks[k]] = TRUE]
  /\ Goto(k, "sub.topics") /\ KStay
  /\ KStep(k) /\ UNCHANGED <<tgen, kgen, topics, active>>

Split == "SubscribeSplit" \in Defects

KSubTopics(k) ==
  /\ pc[k] = "sub.topics" /\ last' = k \o ":KSubTopics"
  /\ IF Split
     THEN /\ kgen' = [kgen EXCEPT ![k] = IF topics = {} THEN 0 ELSE tgen]   \* subs, ok := b.topics[topic] under RLock
          /\ Goto(k, "sub.insert") /\ KStay /\ UNCHANGED topics
     ELSE /\ topics' = topics \cup {ks[k]} /\ KRet(k) /\ UNCHANGED kgen
  /\ KStep(k) /\ UNCHANGED <<tgen, selfT, active>>

\* only with SubscribeSplit: the insert under the write lock (no hook in the real mutant: reachable only by real concurrency)
KSubInsert(k) ==
  /\ pc[k] = "sub.insert" /\ last' = k \o ":KSubInsert"
  /\ topics' = IF kgen[k] = 0 \/ (kgen[k] = tgen /\ topics # {})
               THEN topics \cup {ks[k]}      \* topic was missing (re-checked, created) or the map is still the live one
               ELSE topics                     \* the map looked up has been deleted meanwhile: insert into the orphan
  /\ kgen' = [kgen EXCEPT ![k] = -1]
  /\ KRet(k)
  /\ KStep(k) /\ UNCHANGED <<tgen, selfT, active>>

KUnsubSelf(k) ==
  /\ pc[k] = "unsub.self" /\ last' = k \o ":KUnsubSelf"
  /\ selfT' = [selfT EXCEPT ![ks[k]] = FALSE]
  /\ Goto(k, "unsub.topics") /\ KStay
  /\ KStep(k) /\ UNCHANGED <<tgen, kgen, topics, active>>

KUnsubTopics(k) ==
  /\ pc[k] = "unsub.topics" /\ last' = k \o ":KUnsubTopics"
  /\ topics' = topics \ {ks[k]}
  \* if len(subs) == 0 { delete(b.topics, topic) }: the next Subscribe creates a new map object
  /\ tgen' = IF Split /\ topics # {} /\ topics \ {ks[k]} = {} THEN tgen + 1 ELSE tgen
  /\ IF kop[k] = "rm" THEN Goto(k, "rm.delete") /\ KStay ELSE KRet(k)
  /\ KStep(k) /\ UNCHANGED <<kgen, selfT, active>>

KRmTopics(k) ==
  /\ pc[k] = "rm.topics" /\ last' = k \o ":KRmTopics"
  /\ Goto(k, IF selfT[ks[k]] THEN "unsub.self" ELSE "rm.delete") /\ KStay
  /\ KStep(k) /\ UNCHANGED <<tgen, kgen, topics, selfT, active>>

KRmDelete(k) ==
  /\ pc[k] = "rm.delete" /\ last' = k \o ":KRmDelete"
  /\ Goto(k, "shutdown") /\ KStay
  /\ KStep(k) /\ UNCHANGED <<tgen, kgen, topics, selfT, active>>

KShut(k) ==
  /\ pc[k] = "shutdown" /\ last' = k \o ":KShut"
  /\ active' = [active EXCEPT ![ks[k]] = FALSE]
  /\ KRet(k)
  /\ KStep(k) /\ UNCHANGED <<tgen, kgen, topics, selfT>>

Next ==
  \/ \E p \in Pubs : PCall(p) \/ PSnap(p) \/ PActive(p) \/ PSig(p) \/ PLink(p) \/ PCnt(p)
  \/ \E d \in Drainers : ICall(d) \/ ILen(d) \/ IDeq(d) \/ IDec(d)
  \/ \E k \in Ctls : \/ \E s \in Subs : KSubscribe(k, s) \/ KUnsubscribe(k, s) \/ KRemove(k, s) \/ KShutdown(k, s)
                     \/ KSubActive(k) \/ KSubSelf(k) \/ KSubTopics(k) \/ KSubInsert(k) \/ KUnsubSelf(k) \/ KUnsubTopics(k)
                     \/ KRmTopics(k) \/ KRmDelete(k) \/ KShut(k)

Spec == Init /\ [][Next]_vars

\* ------------------------------------------------------------------ properties (C20)
CountIn(sq, e) == Cardinality({i \in 1..Len(sq) : sq[i] = e})
DrainersOf(s) == {d \in Drainers : DrainOf[d] = s}
RECURSIVE SumGot(_, _)
SumGot(D, e) == IF D = {} THEN 0 ELSE LET d == CHOOSE x \in D : TRUE IN CountIn(got[d], e) + SumGot(D \ {d}, e)
Count(e, s) == CountIn(q[s], e) + CountIn(delivered[s], e) + SumGot(DrainersOf(s), e)

AtMostOnce == \A e \in Events, s \in Subs : Count(e, s) <= 1
NeverAfterUnsub == \A e \in Events, s \in Subs : s \in mustnot[e] => Count(e, s) = 0
NoLoss == \A e \in pubdone, s \in Subs : s \in must[e] => Count(e, s) = 1

Ordered(sq) == \A i, j \in 1..Len(sq) : (i < j /\ sq[i] \div 10 = sq[j] \div 10) => sq[i] < sq[j]
\* publish order per publisher: in the queue, in every Iterator result, and (one drainer) across results
PublishOrder == /\ \A s \in Subs : Ordered(q[s])
                /\ \A d \in Drainers : Ordered(got[d])
                /\ \A s \in Subs : Cardinality(DrainersOf(s)) <= 1 =>
                      Ordered(delivered[s] \o (IF DrainersOf(s) = {} THEN <<>> ELSE got[CHOOSE d \in DrainersOf(s) : TRUE]) \o q[s])

Quiescent == \A t \in Threads : pc[t] \in {"idle", "done"}
\* nothing in flight: Length() is exact, so one more Iterator returns everything that is buffered
LenExact == Quiescent => \A s \in Subs : qlen[s] = Len(q[s])
NoPanic == ~panicked
\* single drainer: the length counter never exceeds what can be dequeued, so Iterator never meets nil
LenSafe == \A s \in Subs : Cardinality(DrainersOf(s)) <= 1 => qlen[s] >= 0
=============================================================================
