---- MODULE MC_Stream ----
EXTENDS Stream
View == <<topics, selfT, active, q, qlen, pc, pk, snap, n, got, iters, kop, ks, kops, kflag,
          must, mustnot, inflight, pubdone, stableSub, stableUnsub, dead, delivered, tgen, kgen, panicked, lastRes>>
Ranks == [p \in Pubs |-> IF p = "p1" THEN 1 ELSE IF p = "p2" THEN 2 ELSE 3]
\* drainers d1, d2 drain s1; d3 drains s2
DrainMap == [d \in Drainers |-> IF d = "d3" THEN "s2" ELSE "s1"]
====
