SPECIFICATION GSpec
CONSTANTS
  Enqueuers = {"p1", "p2", "p3"}
  Dequeuers = {"c1", "c2"}
  NMsgs = 2
  NDeq = 3
  NNodes = 7
  Defects = {}
  PoolPolicy = "oneP"
  RankOf <- Ranks
  Depth = 70
CONSTRAINT Emit
CHECK_DEADLOCK FALSE
