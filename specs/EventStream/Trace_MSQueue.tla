---------------------------- MODULE Trace_MSQueue ----------------------------
(* Conformance of the REAL queue.Queue with MSQueue.tla: every line of the recorded      *)
(* step-wise replay names the model action the puppet scheduler let the real thread      *)
(* perform and carries the projection of the real queue after the step (head, tail, len, *)
(* next pointer and value of every node the harness can see, nodes numbered in           *)
(* allocation order).  The line is accepted iff the model can take that action and       *)
(* arrives at the same projection.  Rejection = drift between model and code.            *)
EXTENDS MSQueue, Json

Trace == ndJsonDeserialize("trace.ndjson")
VARIABLE l
Ranks == [p \in Enqueuers |-> IF p = "p1" THEN 1 ELSE IF p = "p2" THEN 2 ELSE 3]

Reset == /\ nxt' = [n \in Nodes |-> 0] /\ val' = [n \in Nodes |-> 0]
         /\ head' = 1 /\ tail' = 1 /\ len' = 0 /\ fresh' = 2
         /\ ppriv' = 0 /\ pshared' = <<>>
         /\ pc' = [t \in Threads |-> "idle"]
         /\ node' = [t \in Threads |-> 0] /\ lt' = [t \in Threads |-> 0] /\ ln' = [t \in Threads |-> 0]
         /\ lv' = [t \in Threads |-> 0]
         /\ pk' = [p \in Enqueuers |-> 1] /\ dops' = [c \in Dequeuers |-> 0]
         /\ absq' = <<>> /\ expect' = [c \in Dequeuers |-> 0]
         /\ completed' = {} /\ returned' = <<>> /\ lastRes' = 0 /\ last' = "init"

Act(a, t) ==
  CASE a = "ECall" -> ECall(t)     [] a = "ELoadTail" -> ELoadTail(t) [] a = "ELoadNext" -> ELoadNext(t)
    [] a = "EHelp" -> EHelp(t)     [] a = "ELink" -> ELink(t)         [] a = "ESwing" -> ESwing(t)
    [] a = "EInc" -> EInc(t)       [] a = "DCall" -> DCall(t)         [] a = "DLoadHead" -> DLoadHead(t)
    [] a = "DLoadNext" -> DLoadNext(t) [] a = "DCas" -> DCas(t)       [] a = "DReadV" -> DReadV(t)
    [] a = "DRelV" -> DRelV(t)     [] a = "DRelNext" -> DRelNext(t)   [] a = "DRelPut" -> DRelPut(t)
    [] a = "DDec" -> DDec(t)

Matches(e) ==
  /\ head' = e.head /\ tail' = e.tail /\ len' = e.len
  /\ \A i \in 1..Len(e.nxt) : i \in Nodes /\ (e.nxt[i] >= 0 => nxt'[i] = e.nxt[i])
  /\ \A i \in 1..Len(e.val) : e.val[i] >= 0 => val'[i] = e.val[i]

TStep ==
  /\ l <= Len(Trace)
  /\ l' = l + 1
  /\ LET e == Trace[l] IN
     IF e.a = "New" THEN Reset ELSE e.t \in Threads /\ Act(e.a, e.t) /\ Matches(e)

TSpec == Init /\ l = 1 /\ [][TStep]_<<vars, l>>
==============================================================================
