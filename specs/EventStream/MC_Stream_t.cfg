SPECIFICATION Spec
CONSTANTS
  Pubs = {"p1", "p2"}
  NPub = 2
  RankOf <- Ranks
  Subs = {"s1"}
  InitSubscribed = {"s1"}
  Drainers = {"d1"}
  DrainOf <- DrainMap
  NIter = 2
  Ctls = {"k1"}
  KOps = 2
  Defects = {}
VIEW View
INVARIANTS AtMostOnce NeverAfterUnsub NoLoss PublishOrder LenExact NoPanic LenSafe
CHECK_DEADLOCK FALSE
