SPECIFICATION Spec
CONSTANTS
  Pubs = {"p1"}
  NPub = 1
  RankOf <- Ranks
  Subs = {"s1", "s2"}
  InitSubscribed = {"s2"}
  Drainers = {"d1"}
  DrainOf <- DrainMap
  NIter = 1
  Ctls = {"k1", "k2"}
  KOps = 1
  Defects = {"SubscribeSplit"}
VIEW View
INVARIANTS AtMostOnce NeverAfterUnsub NoLoss PublishOrder LenExact NoPanic LenSafe
CHECK_DEADLOCK FALSE
