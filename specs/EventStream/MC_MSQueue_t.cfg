SPECIFICATION Spec
CONSTANTS
  Enqueuers = {"p1", "p2"}
  Dequeuers = {"c1", "c2"}
  NMsgs = 2
  NDeq = 2
  NNodes = 5
  Defects = {}
  PoolPolicy = "oneP"
  RankOf <- Ranks
VIEW View
INVARIANTS ChainIsAbs ValueOK NoDup QuiescentExact OneList
PROPERTIES EmptyOK
CHECK_DEADLOCK FALSE
