SPECIFICATION Spec
CONSTANTS
  Enqueuers = {"p1", "p2"}
  Dequeuers = {"c1"}
  NMsgs = 1
  NDeq = 2
  NNodes = 4
  Defects = {"PoolReuse"}
  PoolPolicy = "oneP"
  RankOf <- Ranks
VIEW View
INVARIANTS ValueOK NoDup QuiescentExact
PROPERTIES EmptyOK
CHECK_DEADLOCK FALSE
