----------------------------- MODULE StreamMon -----------------------------
(* Property monitor for C20 on recorded call/return histories of the REAL EventsStream.  *)
(* It knows nothing about the implementation; it states the contract in terms of the     *)
(* real-time order of calls and returns of the public operations:                        *)
(*   - an event whose Publish was called while subscriber s was stably subscribed        *)
(*     (Subscribe(s) had returned; no Unsubscribe / RemoveSubscriber / Shutdown of s was *)
(*     called before the Publish returned) is returned by Iterator(s) exactly once       *)
(*     (checked when the history ends: every history ends with a quiescent Iterator on   *)
(*     every subscriber);                                                                *)
(*   - no event is returned twice; nothing that was never published is returned;         *)
(*   - an event whose Publish was called after Unsubscribe/Remove/Shutdown of s had      *)
(*     returned (and no later Subscribe(s) had been called) is never returned to s;      *)
(*   - events of one publisher appear in publish order within every Iterator result and, *)
(*     when Iterator calls on s never overlapped, across results;                        *)
(*   - Iterator does not panic.                                                          *)
(* Lines: {ev:"New", subs, init} | {ev:"call"|"ret", t, op, e, s, res, panic},           *)
(* op = pub | iter | sub | unsub | rm | shutdown.  Every line is consumed; a violation   *)
(* is printed as <<"MISMATCH", line, kind, event, subscriber>>.                          *)
EXTENDS Integers, Sequences, FiniteSets, TLC, Json

CONSTANT SubsU    \* universe of subscriber names

Trace == ndJsonDeserialize("trace.ndjson")

VARIABLES l, ssub, sunsub, dead, infl, mustP, mustnotP, done, called, deliv, kin, iin, ovl
vars == <<l, ssub, sunsub, dead, infl, mustP, mustnotP, done, called, deliv, kin, iin, ovl>>

UOps == {"unsub", "rm", "shutdown"}
SeqSet(sq) == {sq[i] : i \in 1..Len(sq)}
Ordered(sq) == \A i, j \in 1..Len(sq) : (i < j /\ sq[i] \div 10 = sq[j] \div 10) => sq[i] < sq[j]
NoDupSeq(sq) == \A i, j \in 1..Len(sq) : i # j => sq[i] # sq[j]

Init == /\ l = 1 /\ ssub = {} /\ sunsub = {} /\ dead = {} /\ infl = {} /\ mustP = {} /\ mustnotP = {}
        /\ done = {} /\ called = {} /\ deliv = [s \in SubsU |-> <<>>] /\ kin = {} /\ iin = {} /\ ovl = {}

Report(kind, e, s) == PrintT(<<"MISMATCH", l, kind, e, s>>)
\* evaluate all reports of a set of <<kind, e, s>> triples (PrintT is TRUE)
ReportAll(S) == \A x \in S : Report(x[1], x[2], x[3])

EndChecks == ReportAll({<<"lost", p[1], p[2]>> : p \in {pp \in mustP : pp[1] \in done /\ pp[1] \notin SeqSet(deliv[pp[2]])}})

IterChecks(s, res, pan) ==
  /\ IF pan THEN Report("panic", 0, s) ELSE TRUE
  /\ ReportAll({<<"alien", res[i], s>> : i \in {j \in 1..Len(res) : res[j] \notin called}})
  /\ ReportAll({<<"dup", res[i], s>> : i \in {j \in 1..Len(res) : res[j] \in SeqSet(deliv[s])}})
  /\ IF NoDupSeq(res) THEN TRUE ELSE Report("dup-in-result", 0, s)
  /\ ReportAll({<<"after-unsubscribe", res[i], s>> : i \in {j \in 1..Len(res) : <<res[j], s>> \in mustnotP}})
  /\ IF Ordered(res) THEN TRUE ELSE Report("order-in-result", 0, s)
  /\ IF s \notin ovl /\ Ordered(res) /\ ~Ordered(deliv[s] \o res) THEN Report("order-across-results", 0, s) ELSE TRUE

Step ==
  /\ l <= Len(Trace)
  /\ l' = l + 1
  /\ LET e == Trace[l] IN
     CASE e.ev = "New" ->
            /\ EndChecks
            /\ ssub' = SeqSet(e.init) /\ sunsub' = SeqSet(e.subs) \ SeqSet(e.init) /\ dead' = {}
            /\ infl' = {} /\ mustP' = {} /\ mustnotP' = {} /\ done' = {} /\ called' = {}
            /\ deliv' = [s \in SubsU |-> <<>>] /\ kin' = {} /\ iin' = {} /\ ovl' = {}
       [] e.ev = "call" /\ e.op = "pub" ->
            /\ mustP' = mustP \cup {<<e.e, s>> : s \in ssub}
            /\ mustnotP' = mustnotP \cup {<<e.e, s>> : s \in sunsub \cup dead}
            /\ infl' = infl \cup {<<e.t, e.e>>} /\ called' = called \cup {e.e}
            /\ UNCHANGED <<ssub, sunsub, dead, done, deliv, kin, iin, ovl>>
       [] e.ev = "ret" /\ e.op = "pub" ->
            /\ done' = done \cup {p[2] : p \in {pp \in infl : pp[1] = e.t}}
            /\ infl' = {pp \in infl : pp[1] # e.t}
            /\ UNCHANGED <<ssub, sunsub, dead, mustP, mustnotP, called, deliv, kin, iin, ovl>>
       [] e.ev = "call" /\ e.op = "sub" ->
            /\ sunsub' = sunsub \ {e.s}
            /\ mustnotP' = IF e.s \in dead THEN mustnotP
                           ELSE {pp \in mustnotP : ~(pp[2] = e.s /\ \E f \in infl : f[2] = pp[1])}
            /\ kin' = {IF k.s = e.s /\ k.op \in UOps THEN [k EXCEPT !.flag = TRUE] ELSE k : k \in kin}
                      \cup {[t |-> e.t, op |-> "sub", s |-> e.s, flag |-> \E k \in kin : k.s = e.s /\ k.op \in UOps]}
            /\ UNCHANGED <<ssub, dead, infl, mustP, done, called, deliv, iin, ovl>>
       [] e.ev = "ret" /\ e.op = "sub" ->
            /\ LET k == CHOOSE x \in kin : x.t = e.t IN
               /\ ssub' = IF ~k.flag /\ k.s \notin dead THEN ssub \cup {k.s} ELSE ssub
               /\ kin' = kin \ {k}
            /\ UNCHANGED <<sunsub, dead, infl, mustP, mustnotP, done, called, deliv, iin, ovl>>
       [] e.ev = "call" /\ e.op \in UOps ->
            /\ ssub' = ssub \ {e.s}
            /\ mustP' = {pp \in mustP : ~(pp[2] = e.s /\ \E f \in infl : f[2] = pp[1])}
            /\ kin' = {IF k.s = e.s /\ k.op = "sub" THEN [k EXCEPT !.flag = TRUE] ELSE k : k \in kin}
                      \cup {[t |-> e.t, op |-> e.op, s |-> e.s, flag |-> \E k \in kin : k.s = e.s /\ k.op = "sub"]}
            /\ UNCHANGED <<sunsub, dead, infl, mustnotP, done, called, deliv, iin, ovl>>
       [] e.ev = "ret" /\ e.op \in UOps ->
            /\ LET k == CHOOSE x \in kin : x.t = e.t IN
               /\ sunsub' = IF ~k.flag THEN sunsub \cup {k.s} ELSE sunsub
               /\ dead' = IF k.op \in {"rm", "shutdown"} THEN dead \cup {k.s} ELSE dead
               /\ kin' = kin \ {k}
            /\ UNCHANGED <<ssub, infl, mustP, mustnotP, done, called, deliv, iin, ovl>>
       [] e.ev = "call" /\ e.op = "iter" ->
            /\ ovl' = IF \E i \in iin : i.s = e.s THEN ovl \cup {e.s} ELSE ovl
            /\ iin' = iin \cup {[t |-> e.t, s |-> e.s]}
            /\ UNCHANGED <<ssub, sunsub, dead, infl, mustP, mustnotP, done, called, deliv, kin>>
       [] e.ev = "ret" /\ e.op = "iter" ->
            /\ LET i == CHOOSE x \in iin : x.t = e.t IN
               /\ IterChecks(i.s, e.res, e.panic)
               /\ deliv' = [deliv EXCEPT ![i.s] = @ \o e.res]
               /\ iin' = iin \ {i}
            /\ UNCHANGED <<ssub, sunsub, dead, infl, mustP, mustnotP, done, called, kin, ovl>>

Spec == Init /\ [][Step]_vars
=============================================================================
