SPECIFICATION Spec
CONSTANTS
  SubsU = {"s1", "s2", "s3"}
CHECK_DEADLOCK FALSE
