---- MODULE Gen_MSQueue ----
(* Behaviour generator for larger bounds than the dumped state graphs: TLC -simulate   *)
(* random walks of MSQueue.tla; every step records the action ("thread:action"), the    *)
(* locals of all threads and the result of the last Dequeue.  A walk is printed when it *)
(* reaches Depth steps or when every thread is done; the printed walks are replayed on  *)
(* the real queue.Queue exactly like the edge-cover walks.                              *)
EXTENDS MSQueue, Json
CONSTANTS Depth
VARIABLE hist
Ranks == [p \in Enqueuers |-> IF p = "p1" THEN 1 ELSE IF p = "p2" THEN 2 ELSE 3]
GInit == Init /\ hist = <<>>
GNext == Next /\ hist' = Append(hist, [l |-> last', node |-> node', lt |-> lt', ln |-> ln', res |-> lastRes', pc |-> pc'])
GSpec == GInit /\ [][GNext]_<<vars, hist>>
AllDone == \A t \in Threads : pc[t] = "done"
Emit == (Len(hist) < Depth /\ ~AllDone) \/ (PrintT(<<"BEHAVIOUR", ToJson(hist)>>) /\ FALSE)
====
