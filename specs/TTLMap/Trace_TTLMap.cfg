SPECIFICATION TSpec
CONSTANTS
  Keys = {"a", "b", "c"}
  Vals = {1, 2}
  TTL = 2
CHECK_DEADLOCK FALSE
INVARIANTS Refinement WellFormed
