SPECIFICATION Spec
CONSTANTS
  Keys = {"a", "b", "c"}
  TTL = 2
CHECK_DEADLOCK FALSE
