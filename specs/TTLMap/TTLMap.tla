------------------------------ MODULE TTLMap ------------------------------
(* Transcription of internal/xsync/ttlmap.go (TTLMap: items index, append-only   *)
(* order slice, head offset, evict, maybeCompact fast/slow path) next to the     *)
(* abstract "map with per-key expiry" `abs`.  Property C48 is the refinement     *)
(* invariant: what Get would answer equals the abstract map, in every state.     *)
(* Indices: Go is 0-based; here slot i (1-based) is Go index i-1; `head` keeps   *)
(* Go's value (number of slots in the dead prefix); items[k] = 0 means unmapped. *)
EXTENDS Integers, Sequences, FiniteSets, TLC

CONSTANTS Keys,      \* set of keys (strings)
          Vals,      \* set of values (positive integers); 0 is "absent"
          TTL        \* time-to-live in ticks (> 0)

VARIABLES items,     \* [Keys -> Nat]   slot of the key's live mapping, 0 = none
          order,     \* Seq([key, val, exp])
          head,      \* Nat
          now,       \* fake clock
          abs,       \* [Keys -> [val : Vals \cup {0}, exp : Int]]  abstract map (val 0 = absent)
          last       \* record describing the last operation and its result (output only)

vars == <<items, order, head, now, abs, last>>
core == <<items, order, head, now, abs>>

NoEntry == [val |-> 0, exp |-> 0]

Init == /\ items = [k \in Keys |-> 0]
        /\ order = <<>>
        /\ head = 0
        /\ now = 0
        /\ abs = [k \in Keys |-> NoEntry]
        /\ last = [op |-> "Init", k |-> "", v |-> 0, res |-> 0]

\* ---- what the implementation / the abstraction answer ------------------------
Lookup(it, ord, t, k) == IF it[k] # 0 /\ t < ord[it[k]].exp THEN ord[it[k]].val ELSE 0
AbsGet(a, t, k)       == IF a[k].val # 0 /\ t < a[k].exp THEN a[k].val ELSE 0
NMapped(it)           == Cardinality({k \in Keys : it[k] # 0})

\* ---- evict(now): advance head past expired slots, unmapping slots that are still
\* the live mapping of their key
RECURSIVE Evict(_, _, _, _)
Evict(it, ord, h, t) ==
  IF h < Len(ord) /\ ~(t < ord[h + 1].exp)
  THEN LET e == ord[h + 1]
           it2 == IF it[e.key] = h + 1 THEN [it EXCEPT ![e.key] = 0] ELSE it
       IN Evict(it2, ord, h + 1, t)
  ELSE <<it, h>>

\* ---- maybeCompact
RECURSIVE Filter(_, _, _, _)
Filter(it, ord, i, acc) ==   \* slow path: keep slots i..Len(ord) that are still mapped here
  IF i > Len(ord) THEN acc
  ELSE Filter(it, ord, i + 1, IF it[ord[i].key] = i THEN Append(acc, ord[i]) ELSE acc)

RECURSIVE Reindex(_, _, _)
Reindex(it, ord, i) ==       \* for i := range order { items[order[i].key] = i }
  IF i > Len(ord) THEN it ELSE Reindex([it EXCEPT ![ord[i].key] = i], ord, i + 1)

Compact(it, ord, h) ==
  IF h = 0 \/ h < (Len(ord) \div 2) THEN <<it, ord, h>>
  ELSE LET neword == IF NMapped(it) = Len(ord) - h
                     THEN SubSeq(ord, h + 1, Len(ord))          \* fast path
                     ELSE Filter(it, ord, h + 1, <<>>)          \* slow path
       IN <<Reindex(it, neword, 1), neword, 0>>

\* ---- operations ---------------------------------------------------------------
Set(k, v) ==
  LET exp  == now + TTL
      it1  == IF items[k] # 0 THEN items ELSE [items EXCEPT ![k] = Len(order) + 1]
      ord1 == IF items[k] # 0
              THEN [order EXCEPT ![items[k]] = [key |-> k, val |-> v, exp |-> exp]]
              ELSE Append(order, [key |-> k, val |-> v, exp |-> exp])
      ev   == Evict(it1, ord1, head, now)
      cp   == Compact(ev[1], ord1, ev[2])
  IN /\ items' = cp[1]
     /\ order' = cp[2]
     /\ head'  = cp[3]
     /\ abs'   = [abs EXCEPT ![k] = [val |-> v, exp |-> now + TTL]]
     /\ last'  = [op |-> "Set", k |-> k, v |-> v, res |-> 0]
     /\ UNCHANGED now

Get(k) ==
  LET r == Lookup(items, order, now, k)
  IN /\ items' = IF items[k] # 0 /\ r = 0 THEN [items EXCEPT ![k] = 0] ELSE items
     /\ last'  = [op |-> "Get", k |-> k, v |-> 0, res |-> r]
     /\ UNCHANGED <<order, head, now, abs>>

Delete(k) ==
  /\ items' = [items EXCEPT ![k] = 0]
  /\ abs'   = [abs EXCEPT ![k] = NoEntry]
  /\ last'  = [op |-> "Delete", k |-> k, v |-> 0, res |-> 0]
  /\ UNCHANGED <<order, head, now>>

Reset ==
  /\ items' = [k \in Keys |-> 0]
  /\ order' = <<>>
  /\ head'  = 0
  /\ abs'   = [k \in Keys |-> NoEntry]
  /\ last'  = [op |-> "Reset", k |-> "", v |-> 0, res |-> 0]
  /\ UNCHANGED now

LenOp ==
  /\ last' = [op |-> "Len", k |-> "", v |-> 0, res |-> NMapped(items)]
  /\ UNCHANGED core

ActiveLen ==
  LET live == {k \in Keys : Lookup(items, order, now, k) # 0}
  IN /\ items' = [k \in Keys |-> IF k \in live THEN items[k] ELSE 0]
     /\ last'  = [op |-> "ActiveLen", k |-> "", v |-> 0, res |-> Cardinality(live)]
     /\ UNCHANGED <<order, head, now, abs>>

Tick ==
  /\ now' = now + 1
  /\ last' = [op |-> "Tick", k |-> "", v |-> 0, res |-> 0]
  /\ UNCHANGED <<items, order, head, abs>>

Next == \/ \E k \in Keys, v \in Vals : Set(k, v)
        \/ \E k \in Keys : Get(k) \/ Delete(k)
        \/ Reset \/ LenOp \/ ActiveLen \/ Tick

Spec == Init /\ [][Next]_vars

\* ---- properties ---------------------------------------------------------------
\* C48: Get answers exactly like a map with per-key expiry.
Refinement == \A k \in Keys : Lookup(items, order, now, k) = AbsGet(abs, now, k)

\* the live count reported by ActiveLen is the abstract live count (action property:
\* `last` is output-only and excluded from the VIEW of exhaustive configs)
ActiveCount == [][last'.op = "ActiveLen" => last'.res = Cardinality({k \in Keys : AbsGet(abs, now, k) # 0})]_vars

WellFormed == /\ head <= Len(order)
              /\ \A k \in Keys : items[k] # 0 =>
                    /\ items[k] > head /\ items[k] <= Len(order)
                    /\ order[items[k]].key = k

\* the footprint stays bounded: after a Set the dead prefix is less than half the slice
Bounded == [][last'.op = "Set" => (head' = 0 \/ head' < (Len(order') \div 2))]_vars
=============================================================================
