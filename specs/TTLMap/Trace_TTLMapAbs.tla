---- MODULE Trace_TTLMapAbs ----
(* Property monitor for C48 on recorded executions of the REAL TTLMap.  It knows     *)
(* nothing about the implementation: it tracks only the abstract map with expiry     *)
(* and checks every logged Get / ActiveLen result against it.  Every line is         *)
(* consumed; a mismatch is printed as <<"MISMATCH", line, expected, got>>.           *)
EXTENDS Integers, Sequences, FiniteSets, TLC, Json
CONSTANTS Keys, TTL
Trace == ndJsonDeserialize("trace.ndjson")
VARIABLES l, now, abs
NoEntry == [val |-> 0, exp |-> 0]
AbsGet(a, t, k) == IF a[k].val # 0 /\ t < a[k].exp THEN a[k].val ELSE 0
Init == l = 1 /\ now = 0 /\ abs = [k \in Keys |-> NoEntry]
Report(e, exp) == IF e.res = exp THEN TRUE ELSE PrintT(<<"MISMATCH", l, e.op, exp, e.res>>)
Step ==
  /\ l <= Len(Trace)
  /\ l' = l + 1
  /\ LET e == Trace[l] IN
     CASE e.op = "New"    -> now' = 0 /\ abs' = [k \in Keys |-> NoEntry]
       [] e.op = "Set"    -> abs' = [abs EXCEPT ![e.k] = [val |-> e.v, exp |-> now + TTL]] /\ UNCHANGED now
       [] e.op = "Delete" -> abs' = [abs EXCEPT ![e.k] = NoEntry] /\ UNCHANGED now
       [] e.op = "Reset"  -> abs' = [k \in Keys |-> NoEntry] /\ UNCHANGED now
       [] e.op = "Tick"   -> now' = now + 1 /\ UNCHANGED abs
       [] e.op = "Get"    -> Report(e, AbsGet(abs, now, e.k)) /\ UNCHANGED <<now, abs>>
       [] e.op = "ActiveLen" -> Report(e, Cardinality({k \in Keys : AbsGet(abs, now, k) # 0})) /\ UNCHANGED <<now, abs>>
       [] OTHER           -> UNCHANGED <<now, abs>>
Spec == Init /\ [][Step]_<<l, now, abs>>
====
