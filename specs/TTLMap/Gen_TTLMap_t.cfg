SPECIFICATION GSpec
CONSTANTS
  Keys = {"a", "b"}
  Vals = {1, 2}
  TTL = 2
  Depth = 5
CONSTRAINT Emit
