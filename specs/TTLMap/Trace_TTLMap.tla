---- MODULE Trace_TTLMap ----
(* Conformance: the recorded execution of the real TTLMap must be a behaviour of the *)
(* transcription, step by step, including results and the projected internal shape   *)
(* (head, len(order), len(items), slot of every key).  A rejection (TLC stops before *)
(* the last line) is conformance drift, reported separately from property verdicts.  *)
EXTENDS TTLMap, Json
Trace == ndJsonDeserialize("trace.ndjson")
VARIABLE l
Matches(e) == /\ last'.res = e.res
              /\ head' = e.head
              /\ Len(order') = e.olen
              /\ NMapped(items') = e.ilen
              /\ \A k \in Keys : items'[k] = e.slots[k]
TNew == /\ items' = [k \in Keys |-> 0] /\ order' = <<>> /\ head' = 0 /\ now' = 0
        /\ abs' = [k \in Keys |-> NoEntry]
        /\ last' = [op |-> "Init", k |-> "", v |-> 0, res |-> 0]
TStep ==
  /\ l <= Len(Trace)
  /\ l' = l + 1
  /\ LET e == Trace[l] IN
     \/ e.op = "New" /\ TNew
     \/ e.op = "Set" /\ Set(e.k, e.v) /\ Matches(e)
     \/ e.op = "Get" /\ Get(e.k) /\ Matches(e)
     \/ e.op = "Delete" /\ Delete(e.k) /\ Matches(e)
     \/ e.op = "Reset" /\ Reset /\ Matches(e)
     \/ e.op = "Len" /\ LenOp /\ Matches(e)
     \/ e.op = "ActiveLen" /\ ActiveLen /\ Matches(e)
     \/ e.op = "Tick" /\ Tick /\ Matches(e)
TInit == Init /\ l = 1
TSpec == TInit /\ [][TStep]_<<vars, l>>
====
