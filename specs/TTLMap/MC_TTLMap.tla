---- MODULE MC_TTLMap ----
EXTENDS TTLMap
CONSTANTS MaxNow, MaxOrder
Bound == now <= MaxNow /\ Len(order) <= MaxOrder
View == core
====
