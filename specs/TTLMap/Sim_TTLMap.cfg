SPECIFICATION GSpec
CONSTANTS
  Keys = {"a", "b", "c"}
  Vals = {1, 2}
  TTL = 2
  Depth = 14
CONSTRAINT Emit
