SPECIFICATION Spec
CONSTANTS
  Keys = {"a", "b"}
  Vals = {1, 2}
  TTL = 2
  MaxNow = 4
  MaxOrder = 4
CONSTRAINT Bound
VIEW View
INVARIANTS Refinement WellFormed
PROPERTIES Bounded ActiveCount
