SPECIFICATION GSpec
CONSTANTS
  Keys = {"a", "b"}
  Vals = {1, 2}
  TTL = 2
  Depth = 4
CONSTRAINT Emit
