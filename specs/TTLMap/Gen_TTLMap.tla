---- MODULE Gen_TTLMap ----
(* Behaviour generator: carries the operation history and prints it as JSON when a   *)
(* walk reaches Depth (exhaustive BFS: every history of that length; -simulate:      *)
(* random walks).  The printed histories are replayed on the real TTLMap.            *)
EXTENDS TTLMap, Json
CONSTANTS Depth
VARIABLE hist
GInit == Init /\ hist = <<>>
GNext == Next /\ hist' = Append(hist, last')
GSpec == GInit /\ [][GNext]_<<vars, hist>>
Emit == (Len(hist) < Depth) \/ (PrintT(<<"BEHAVIOUR", ToJson(hist)>>) /\ FALSE)
====
