SPECIFICATION GSpec
CONSTANTS
  Cap = 2
  MaxId = 12
  Defects = {}
  Depth = 14
CONSTRAINT Emit
