SPECIFICATION GSpec
CONSTANTS
  Cap = 2
  MaxId = 12
  Kinds = {"S", "N", "Q", "A"}
  BatchSizes = {1, 2, 3}
  Defects = {}
  Depth = 14
CONSTRAINT Emit
