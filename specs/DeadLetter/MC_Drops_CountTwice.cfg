SPECIFICATION Spec
CONSTANTS
  Cap = 2
  MaxId = 4
  Defects = {"CountTwice"}
VIEW View
INVARIANTS Accounting CountMatches Bounded
