---- MODULE MC_Drops ----
EXTENDS Drops
View == core
====
