SPECIFICATION TSpec
CONSTANTS
  Cap = 2
  MaxId = 40
  Kinds = {"S", "N", "Q", "A"}
  BatchSizes = {1, 2, 3}
  Defects = {}
CHECK_DEADLOCK FALSE
INVARIANTS Accounting CountMatches BatchSenders
