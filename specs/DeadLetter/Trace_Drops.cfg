SPECIFICATION TSpec
CONSTANTS
  Cap = 2
  MaxId = 40
  Defects = {}
CHECK_DEADLOCK FALSE
INVARIANTS Accounting CountMatches
