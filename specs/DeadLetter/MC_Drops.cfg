SPECIFICATION Spec
CONSTANTS
  Cap = 2
  MaxId = 5
  Defects = {}
VIEW View
INVARIANTS Accounting CountMatches Bounded
