SPECIFICATION Spec
CONSTANTS
  Cap = 2
  MaxId = 4
  Defects = {}
VIEW View
INVARIANTS Accounting CountMatches Bounded
