------------------------------ MODULE Mon_Drops ------------------------------
(* Property monitor for C18 on recorded executions of a REAL actor system.  It knows  *)
(* nothing about mailboxes or capacities, only the contract: every message the runtime *)
(* accepted ends up handled or as exactly one published dead letter that carries the   *)
(* original message id, sender and receiver, and the reported counts equal the number   *)
(* of dead letters published.  Events:                                                  *)
(*   New                         history separator                                      *)
(*   accept (id, snd, rcv)       the runtime took message id (Tell returned nil, an     *)
(*                               inbound remote tell was dispatched, member of a failed *)
(*                               outbound batch)                                        *)
(*   reject (id)                 Tell returned an error to the caller                   *)
(*   handled (id)                the target's handler completed the message             *)
(*   accept carries k = tell | ask | req (ctx.Request: AsyncRequest envelope) | remote  *)
(*   | batch (member of a failed outbound batch; members have different senders)          *)
(*   deadt (id)                  the dead letter an Ask files when it gives up (reason     *)
(*                               "request timed out"): counted, but not a drop             *)
(*   dead (id, snd, rcv)         a Deadletter event arrived at the event-stream         *)
(*                               subscriber (id read from the carried message)          *)
(*   count (id = total since New, n = count reported for the target, -1 = not asked)    *)
(*                               at quiescence                                          *)
(*   End (id = 1 quiescent)                                                              *)
(* Accounting is done at count / End so that the order in which concurrent events were  *)
(* written does not matter.  Mismatches: <<"MISMATCH", "C18", line, what, id>>.          *)
EXTENDS Integers, Sequences, FiniteSets, TLC, Json

Trace == ndJsonDeserialize("trace.ndjson")

VARIABLES l, acc, handled, deads, tdeads
vars == <<l, acc, handled, deads, tdeads>>

Init == l = 1 /\ acc = {} /\ handled = <<>> /\ deads = <<>> /\ tdeads = <<>>

Bad(what, id) == PrintT(<<"MISMATCH", "C18", l, what, id>>)
Check(cond, what, id) == IF cond THEN TRUE ELSE Bad(what, id)
NDead(id) == Cardinality({i \in 1..Len(deads) : deads[i].id = id})
NHandled(id) == Cardinality({i \in 1..Len(handled) : handled[i] = id})
AccIds == {a.id : a \in acc}

Step ==
  /\ l <= Len(Trace)
  /\ l' = l + 1
  /\ LET e == Trace[l] IN
     CASE e.ev = "New" -> acc' = {} /\ handled' = <<>> /\ deads' = <<>> /\ tdeads' = <<>>
       [] e.ev = "accept" -> acc' = acc \cup {[id |-> e.id, snd |-> e.snd, rcv |-> e.rcv, k |-> e.k]} /\ UNCHANGED <<handled, deads, tdeads>>
       [] e.ev = "handled" -> handled' = Append(handled, e.id) /\ UNCHANGED <<acc, deads, tdeads>>
       [] e.ev = "dead" -> deads' = Append(deads, [id |-> e.id, snd |-> e.snd, rcv |-> e.rcv]) /\ UNCHANGED <<acc, handled, tdeads>>
       [] e.ev = "deadt" -> tdeads' = Append(tdeads, e.id) /\ UNCHANGED <<acc, handled, deads>>
       [] e.ev = "count" ->
            /\ Check(e.id = Len(deads) + Len(tdeads), "the system's dead-letter count differs from the number of dead letters published", e.id - Len(deads) - Len(tdeads))
            /\ Check(e.n = -1 \/ e.n = Cardinality({i \in 1..Len(deads) : deads[i].rcv = "T"}),
                     "the target's dead-letter count differs from the number of dead letters published for it", e.n)
            /\ UNCHANGED <<acc, handled, deads, tdeads>>
       [] e.ev = "End" ->
            /\ \A a \in acc :
                 /\ Check(e.id # 1 \/ NDead(a.id) + NHandled(a.id) >= 1, "an accepted message was neither handled nor published as a dead letter", a.id)
                 /\ Check(NDead(a.id) <= 1, "a message was published as a dead letter more than once", a.id)
                 /\ Check(NDead(a.id) = 0 \/ NHandled(a.id) = 0, "a message was both handled and published as a dead letter", a.id)
                 /\ Check(NHandled(a.id) <= 1, "a message was handled twice", a.id)
            /\ \A i \in 1..Len(deads) :
                 /\ Check(deads[i].id \in AccIds, "a dead letter carries a message the runtime never accepted", deads[i].id)
                 /\ Check(deads[i].id \notin AccIds \/ \E a \in acc : a.id = deads[i].id /\ a.snd = deads[i].snd /\ a.rcv = deads[i].rcv,
                          "a dead letter does not carry the original sender and receiver", deads[i].id)
            /\ \A i \in 1..Len(tdeads) :
                 /\ Check(\E a \in acc : a.id = tdeads[i] /\ a.k = "ask", "a time-out dead letter for a message that was not sent with Ask", tdeads[i])
                 /\ Check(Cardinality({j \in 1..Len(tdeads) : tdeads[j] = tdeads[i]}) = 1, "an Ask filed its time-out dead letter more than once", tdeads[i])
            /\ UNCHANGED <<acc, handled, deads, tdeads>>
       [] OTHER -> UNCHANGED <<acc, handled, deads, tdeads>>

Spec == Init /\ [][Step]_vars
=============================================================================
