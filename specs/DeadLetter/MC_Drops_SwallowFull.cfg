SPECIFICATION Spec
CONSTANTS
  Cap = 2
  MaxId = 4
  Defects = {"SwallowFull"}
VIEW View
INVARIANTS Accounting CountMatches Bounded
