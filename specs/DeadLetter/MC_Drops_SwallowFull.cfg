SPECIFICATION Spec
CONSTANTS
  Cap = 2
  MaxId = 4
  Kinds = {"N", "Q"}
  BatchSizes = {2}
  Defects = {"SwallowFull"}
VIEW View
INVARIANTS Accounting CountMatches Bounded BatchSenders
