SPECIFICATION Spec
CONSTANTS
  Cap = 2
  MaxId = 4
  Defects = {"DoubleUnhandled"}
VIEW View
INVARIANTS Accounting CountMatches Bounded
