SPECIFICATION Spec
CONSTANTS
  Cap = 2
  MaxId = 6
  Kinds = {"S", "N", "Q", "A"}
  BatchSizes = {1, 2, 3}
  Defects = {}
VIEW View
INVARIANTS Accounting CountMatches Bounded BatchSenders
