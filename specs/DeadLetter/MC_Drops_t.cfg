SPECIFICATION Spec
CONSTANTS
  Cap = 2
  MaxId = 8
  Defects = {}
VIEW View
INVARIANTS Accounting CountMatches Bounded
