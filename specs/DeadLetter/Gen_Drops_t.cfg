SPECIFICATION GSpec
CONSTANTS
  Cap = 2
  MaxId = 8
  Defects = {}
  Depth = 5
CONSTRAINT Emit
