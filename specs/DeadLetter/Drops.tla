------------------------------- MODULE Drops -------------------------------
(* What goakt does with a message it has accepted but cannot deliver                 *)
(* (actor/pid.go doReceive / handleReceivedError / toDeadletter, ReceiveContext.     *)
(* Unhandled, actor/remote_server.go deliverRemoteTellMessage / enqueueCoalesced-    *)
(* Failure / drainCoalescedFailures / deadLetterRemoteMessage, actor/dead_letter.go).*)
(*                                                                                   *)
(* One target actor "T" with a NonBlockingBoundedMailbox of capacity Cap and a       *)
(* handler the harness holds (so the mailbox fills up), local senders "S" (an actor, *)
(* PID.Tell) and "N" (no sender, actor.Tell), the remote sender "R" (inbound remote  *)
(* tells to "T" or to the address "M" nobody owns), failed outbound batches (remote  *)
(* receiver "X").  The target is an eager consumer; the dead-letter actor is an      *)
(* eager consumer too (every SendDeadletter is processed before the next step), so   *)
(* `dl` is the sequence of published dead letters.                                   *)
EXTENDS Integers, Sequences, FiniteSets, TLC

CONSTANTS Cap, MaxId, Defects,
          Kinds,       \* kinds of local delivery used: "S" PID.Tell from an actor, "N" actor.Tell (no sender), "Q" ctx.Request from
                       \* the actor Q (the message travels in an AsyncRequest envelope), "A" actor.Ask (no sender)
          BatchSizes   \* sizes of failed outbound batches; member i comes from sender "R" (i odd) or "R2" (i even): the send
                       \* coalescer batches per destination, not per sender

VARIABLES life,      \* "running" | "stopped"
          mb,        \* messages waiting in T's mailbox: Seq([id, snd, unh])
          cur,       \* message inside the handler ([id |-> 0 ..] = none)
          nid,       \* ids used so far
          accepted,  \* ids the runtime accepted for delivery
          handled,   \* ids whose handler completed without Unhandled
          dl,        \* published dead letters: Seq([id, snd, rcv])
          count,     \* the dead-letter actor's total counter
          perT,      \* its per-receiver counter for T
          last       \* description of the last step (output only)

vars == <<life, mb, cur, nid, accepted, handled, dl, count, perT, last>>
core == <<life, mb, cur, nid, accepted, handled, dl, count, perT>>

None == [id |-> 0, snd |-> "", unh |-> FALSE]

Init == /\ life = "running" /\ mb = <<>> /\ cur = None /\ nid = 0 /\ accepted = {} /\ handled = {}
        /\ dl = <<>> /\ count = 0 /\ perT = 0
        /\ last = [op |-> "Init", id |-> 0, n |-> 0, snd |-> "", rcv |-> "", unh |-> FALSE, ok |-> TRUE]

\* a dead letter reaches the dead-letter actor: counter, per-receiver counter, publication
Dead(letters) ==
  /\ dl' = dl \o letters
  /\ count' = IF "CountTwice" \in Defects THEN count + 2 * Len(letters) ELSE count + Len(letters)
  /\ perT' = perT + Cardinality({i \in 1..Len(letters) : letters[i].rcv = "T"})
NoDead == UNCHANGED <<dl, count, perT>>

\* doReceive on T: eager consumer => an idle actor takes the message at once
Deliver(m) ==
  IF cur.id = 0 /\ mb = <<>>
  THEN cur' = m /\ UNCHANGED mb /\ NoDead
  ELSE IF Len(mb) < Cap
       THEN mb' = Append(mb, m) /\ UNCHANGED cur /\ NoDead
       ELSE /\ UNCHANGED <<mb, cur>>
            /\ IF "SwallowFull" \in Defects THEN NoDead ELSE Dead(<<[id |-> m.id, snd |-> m.snd, rcv |-> "T", pos |-> 0]>>)

\* the sender a dead letter must carry for a delivery of kind k
SndOf(k) == IF k = "A" THEN "N" ELSE k

Tell(snd, unh) ==
  /\ nid < MaxId /\ nid' = nid + 1
  /\ IF life = "running"
     THEN /\ accepted' = accepted \cup {nid + 1}
          /\ Deliver([id |-> nid + 1, snd |-> SndOf(snd), unh |-> unh])
     ELSE UNCHANGED <<accepted, mb, cur, dl, count, perT>>            \* ErrDead to the caller
  /\ last' = [op |-> "Tell", id |-> nid + 1, n |-> 1, snd |-> snd, rcv |-> "T", unh |-> unh, ok |-> life = "running"]
  /\ UNCHANGED <<life, handled>>

RemoteTell(rcv, unh) ==
  /\ nid < MaxId /\ nid' = nid + 1
  /\ accepted' = accepted \cup {nid + 1}
  /\ IF rcv = "T" /\ life = "running"
     THEN Deliver([id |-> nid + 1, snd |-> "R", unh |-> unh])
     ELSE /\ Dead(<<[id |-> nid + 1, snd |-> "R", rcv |-> rcv, pos |-> 0]>>) /\ UNCHANGED <<mb, cur>>
  /\ last' = [op |-> "RemoteTell", id |-> nid + 1, n |-> 1, snd |-> "R", rcv |-> rcv, unh |-> unh, ok |-> TRUE]
  /\ UNCHANGED <<life, handled>>

Batch(n) ==
  /\ nid + n <= MaxId /\ nid' = nid + n
  /\ accepted' = accepted \cup (nid + 1)..(nid + n)
  /\ Dead([i \in 1..n |-> [id |-> nid + i, snd |-> (IF "BatchFirstSender" \in Defects \/ i % 2 = 1 THEN "R" ELSE "R2"), rcv |-> "X", pos |-> i]])
  /\ last' = [op |-> "Batch", id |-> nid + 1, n |-> n, snd |-> "R", rcv |-> "X", unh |-> FALSE, ok |-> TRUE]
  /\ UNCHANGED <<life, mb, cur, handled>>

\* the handler returns; an Unhandled() call inside it publishes the message as a dead letter
Finish ==
  /\ cur.id # 0
  /\ IF cur.unh
     THEN /\ (IF "DoubleUnhandled" \in Defects
              THEN Dead(<<[id |-> cur.id, snd |-> cur.snd, rcv |-> "T", pos |-> 0], [id |-> cur.id, snd |-> cur.snd, rcv |-> "T", pos |-> 0]>>)
              ELSE Dead(<<[id |-> cur.id, snd |-> cur.snd, rcv |-> "T", pos |-> 0]>>))
          /\ UNCHANGED handled
     ELSE handled' = handled \cup {cur.id} /\ NoDead
  /\ IF mb # <<>> THEN cur' = Head(mb) /\ mb' = Tail(mb) ELSE cur' = None /\ UNCHANGED mb
  /\ last' = [op |-> "Finish", id |-> cur.id, n |-> 0, snd |-> cur.snd, rcv |-> "T", unh |-> cur.unh, ok |-> TRUE]
  /\ UNCHANGED <<life, nid, accepted>>

Stop ==
  /\ life = "running" /\ cur.id = 0
  /\ life' = "stopped"
  /\ last' = [op |-> "Stop", id |-> 0, n |-> 0, snd |-> "", rcv |-> "", unh |-> FALSE, ok |-> TRUE]
  /\ UNCHANGED <<mb, cur, nid, accepted, handled, dl, count, perT>>

\* ActorSystem.Metric().DeadlettersCount() and PID.Metric().DeadlettersCount() of T (while it runs)
Query ==
  /\ last' = [op |-> "Query", id |-> count, n |-> (IF life = "running" THEN perT ELSE -1), snd |-> "", rcv |-> "", unh |-> FALSE, ok |-> TRUE]
  /\ UNCHANGED core

Next == \/ \E snd \in Kinds, unh \in BOOLEAN : Tell(snd, unh)
        \/ \E rcv \in {"T", "M"}, unh \in BOOLEAN : RemoteTell(rcv, unh)
        \/ \E n \in BatchSizes : Batch(n)
        \/ Finish \/ Stop \/ Query

Spec == Init /\ [][Next]_vars

\* ---- C18
DeadIds == {dl[i].id : i \in 1..Len(dl)}
Pending == {mb[i].id : i \in 1..Len(mb)} \cup (IF cur.id # 0 THEN {cur.id} ELSE {})
\* every accepted message is pending, handled or dead-lettered - exactly one of them, dead letters exactly once
Accounting == /\ accepted = Pending \cup handled \cup DeadIds
              /\ Pending \cap handled = {} /\ Pending \cap DeadIds = {} /\ handled \cap DeadIds = {}
              /\ \A i, j \in 1..Len(dl) : i # j => dl[i].id # dl[j].id
\* every member of a failed batch is published with ITS sender
BatchSenders == \A i \in 1..Len(dl) : dl[i].pos > 0 => dl[i].snd = (IF dl[i].pos % 2 = 1 THEN "R" ELSE "R2")
CountMatches == count = Len(dl) /\ perT = Cardinality({i \in 1..Len(dl) : dl[i].rcv = "T"})
Bounded == Len(mb) <= Cap
=============================================================================
