----------------------------- MODULE Trace_Drops -----------------------------
(* Conformance: the recorded replay on the real actor system must be a behaviour of    *)
(* Drops.tla step by step: which messages were dead-lettered (in publication order,    *)
(* with sender and receiver), which were handled, the target's mailbox length, the     *)
(* message inside the handler and the reported counts.  Rejection = drift.             *)
EXTENDS Drops, Json
Trace == ndJsonDeserialize("trace.ndjson")
VARIABLE l
Matches(e) ==
  /\ Len(dl') = Len(e.dl)
  /\ \A i \in 1..Len(e.dl) : dl'[i].id = e.dl[i][1] /\ dl'[i].snd = e.dl[i][2] /\ dl'[i].rcv = e.dl[i][3]
  /\ handled' = {e.handled[i] : i \in 1..Len(e.handled)}
  /\ Len(mb') = e.mlen /\ cur'.id = e.cur
  /\ (e.op = "Tell" => last'.ok = (e.ok = 1))
  /\ (e.op = "Query" => last'.id = e.total /\ last'.n = e.pert)
TNew == /\ life' = "running" /\ mb' = <<>> /\ cur' = None /\ nid' = 0 /\ accepted' = {} /\ handled' = {}
        /\ dl' = <<>> /\ count' = 0 /\ perT' = 0
        /\ last' = [op |-> "Init", id |-> 0, n |-> 0, snd |-> "", rcv |-> "", unh |-> FALSE, ok |-> TRUE]
TStep ==
  /\ l <= Len(Trace)
  /\ l' = l + 1
  /\ LET e == Trace[l] IN
     IF e.ev = "New" THEN TNew
     ELSE IF e.ev # "step" THEN UNCHANGED vars
     ELSE /\ \/ e.op = "Tell" /\ Tell(e.snd, e.unh = 1)
             \/ e.op = "RemoteTell" /\ RemoteTell(e.rcv, e.unh = 1)
             \/ e.op = "Batch" /\ Batch(e.n)
             \/ e.op = "Finish" /\ Finish
             \/ e.op = "Stop" /\ Stop
             \/ e.op = "Query" /\ Query
          /\ Matches(e)
TInit == Init /\ l = 1
TSpec == TInit /\ [][TStep]_<<vars, l>>
=============================================================================
