---- MODULE Gen_Drops ----
(* Behaviour generator: BFS = every operation history of length Depth, -simulate = random walks. *)
EXTENDS Drops, Json
CONSTANTS Depth
VARIABLE hist
GInit == Init /\ hist = <<>>
GNext == Next /\ hist' = Append(hist, last')
GSpec == GInit /\ [][GNext]_<<vars, hist>>
Emit == (Len(hist) < Depth) \/ (PrintT(<<"BEHAVIOUR", ToJson(hist)>>) /\ FALSE)
====
