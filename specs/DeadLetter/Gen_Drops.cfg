SPECIFICATION GSpec
CONSTANTS
  Cap = 2
  MaxId = 8
  Kinds = {"N", "Q", "A"}
  BatchSizes = {3}
  Defects = {}
  Depth = 4
CONSTRAINT Emit
