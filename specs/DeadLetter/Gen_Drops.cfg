SPECIFICATION GSpec
CONSTANTS
  Cap = 2
  MaxId = 8
  Defects = {}
  Depth = 4
CONSTRAINT Emit
