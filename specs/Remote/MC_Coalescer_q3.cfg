SPECIFICATION Spec
CONSTANTS
  Callers = {"p1"}
  NMsgs = 6
  B = 1
  MaxFail = 1
  MaxCancel = 1
  Defects = {}
  RankOf <- Ranks
INVARIANTS AtMostOnce PerCallerFIFO OnlyAccepted Conservation BatchBound NoSilentDrop NoSilentDropQ LockDiscipline
PROPERTIES NoSendAfterStop
CHECK_DEADLOCK FALSE
