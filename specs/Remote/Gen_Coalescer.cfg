SPECIFICATION GSpec
CONSTANTS
  Callers = {"p1", "p2", "p3"}
  NMsgs = 3
  B = 2
  MaxFail = 2
  MaxCancel = 2
  Defects = {}
  RankOf <- Ranks
  Depth = 90
CONSTRAINT Emit
CHECK_DEADLOCK FALSE
