SPECIFICATION Spec
CONSTANTS
  Callers = {"c1", "c2"}
  NEx = 2
  Batch = {1, 2}
  MaxIdle = 1
  MaxConns = 2
  MaxShort = 1
  Defects = {}
  RankOf <- Ranks

VIEW View
CHECK_DEADLOCK FALSE
