SPECIFICATION MSpec
CONSTANTS
  Callers = {"p1", "p2", "p3"}
  NMsgs = 2
  B = 3
  MaxFail = 1
  MaxCancel = 0
  Defects = {}
  MDefects = {}
  RankOf <- Ranks
INVARIANTS MdRestored
CHECK_DEADLOCK FALSE
