--------------------------- MODULE MetaCoalescer ---------------------------
(* C29 — Coalescer.tla extended with per-message context metadata.  RemoteTell snapshots the   *)
(* propagator's headers into RemoteMessage.Metadata at submit time (here: the header value is  *)
(* the caller-unique message id), batches mix callers, and the receiver restores the context   *)
(* per message (actor/remote_server.go messageMetadata) before dispatching it.                  *)
(* `rmd` lists, parallel to `delivered`, the header value the receiver restored for each        *)
(* delivered message.  MDefects: "BatchMd" = the receiver applies ONE metadata map (that of the *)
(* first message) to the whole batch — the request-level shortcut a coalesced batch must not    *)
(* take.                                                                                        *)
EXTENDS Coalescer
CONSTANT MDefects
VARIABLE rmd
mvars == <<vars, rmd>>
Ranks == [p \in Callers |-> IF p = "p1" THEN 1 ELSE IF p = "p2" THEN 2 ELSE 3]
Injected(m) == m          \* the propagator writes the message id carried by the caller's context
MInit == Init /\ rmd = <<>>
MNext == /\ Next
         /\ rmd' = IF delivered' # delivered
                   THEN rmd \o [i \in 1..Len(batch) |-> IF "BatchMd" \in MDefects THEN Injected(batch[1]) ELSE Injected(batch[i])]
                   ELSE rmd
MSpec == MInit /\ [][MNext]_mvars
\* C29: restored(m) = injected(m) for every delivered message, whatever the batching
MdRestored == Len(rmd) = Len(delivered) /\ \A i \in 1..Len(delivered) : rmd[i] = Injected(delivered[i])
\* vacuity guard: some batch really mixes callers (used with expect-violation)
NoMixedBatch == \A i, j \in 1..Len(batch) : batch[i] \div 1000 = batch[j] \div 1000
=============================================================================
