---- MODULE Mon_Coalescer ----
(* Property monitor for C27 (and the wire leg of C29) on recorded executions of the REAL *)
(* send coalescer.  It knows only the contract: RemoteTell results (acc / rej), batches   *)
(* that reached the receiver (dlv, with the per-message metadata seen on the wire) and    *)
(* batches handed to the error handler (dead).  At the end of every history (End: Close   *)
(* has returned and all callers have returned) each accepted message must have exactly    *)
(* one fate; a batch the receiver handled but whose reply it dropped (dlv with br =         *)
(* "lostreply") is legitimately delivered AND dead-lettered, but still delivered only ONCE. *)
(* Message ids are stream*1000 + sequence number (stream = one sending goroutine *)
(* to one receiver); order is checked per stream.  Every line is consumed; deviations are   *)
(* printed:                                                                                *)
(*   <<"MISMATCH", line, kind, id, detail>>  kind = lost | dup | order | phantom | md      *)
(* `lost` carries "late" when the message was accepted after the close had begun (the     *)
(* witness class of finding LateSubmit) and "early" otherwise.                             *)
EXTENDS Integers, Sequences, FiniteSets, TLC, Json
Trace == ndJsonDeserialize("trace.ndjson")
VARIABLES l, acc, late, rej, dlv, dead, closing, ambig
vars == <<l, acc, late, rej, dlv, dead, closing, ambig>>
Init == l = 1 /\ acc = {} /\ late = {} /\ rej = {} /\ dlv = {} /\ dead = {} /\ closing = FALSE /\ ambig = {}
Ids(s) == {s[i] : i \in 1..Len(s)}
Rep(cond, kind, id, detail) == IF cond THEN TRUE ELSE PrintT(<<"MISMATCH", l, kind, id, detail>>)
Step ==
  /\ l <= Len(Trace)
  /\ l' = l + 1
  /\ LET e == Trace[l] IN
     CASE e.op = "New" ->
            acc' = {} /\ late' = {} /\ rej' = {} /\ dlv' = {} /\ dead' = {} /\ closing' = FALSE /\ ambig' = {}
       [] e.op = "acc" ->
            /\ acc' = acc \cup {e.id}
            /\ late' = IF closing THEN late \cup {e.id} ELSE late
            /\ UNCHANGED <<rej, dlv, dead, closing, ambig>>
       [] e.op = "rej" ->
            /\ rej' = rej \cup {e.id} /\ UNCHANGED <<acc, late, dlv, dead, closing, ambig>>
       [] e.op \in {"XClose", "xclose"} ->
            /\ closing' = TRUE /\ UNCHANGED <<acc, late, rej, dlv, dead, ambig>>
       [] e.op = "dlv" ->
            /\ \A i \in 1..Len(e.ids) :
                 /\ Rep(e.ids[i] > 0, "garbled", e.ids[i], "payload not decodable")
                 /\ Rep(e.ids[i] \notin dlv, "dup", e.ids[i], "delivered again")
                 /\ Rep(e.ids[i] \notin dead, "dup", e.ids[i], "delivered after it was dead-lettered")
                 /\ Rep(\A d \in dlv : d \div 1000 = e.ids[i] \div 1000 => d < e.ids[i], "order", e.ids[i], "after a later message of its caller")
                 /\ Rep(\A j \in 1..(i - 1) : e.ids[j] \div 1000 = e.ids[i] \div 1000 => e.ids[j] < e.ids[i], "order", e.ids[i], "batch order")
                 /\ Rep(\A j \in 1..(i - 1) : e.ids[j] # e.ids[i], "dup", e.ids[i], "twice in one batch")
                 /\ Rep(e.mds[i] = e.ids[i], "md", e.ids[i], e.mds[i])
            /\ dlv' = dlv \cup Ids(e.ids)
            /\ ambig' = IF e.br = "lostreply" THEN ambig \cup Ids(e.ids) ELSE ambig   \* the receiver drops the reply
            /\ UNCHANGED <<acc, late, rej, dead, closing>>
       [] e.op = "dead" ->
            /\ \A i \in 1..Len(e.ids) :
                 /\ Rep(e.ids[i] \notin dead, "dup", e.ids[i], "dead-lettered again")
                 /\ Rep(e.ids[i] \in dlv => e.ids[i] \in ambig, "dup", e.ids[i], "delivered and dead-lettered although the reply was not lost")
                 /\ Rep(\A j \in 1..(i - 1) : e.ids[j] # e.ids[i], "dup", e.ids[i], "twice in one failed batch")
            /\ dead' = dead \cup Ids(e.ids) /\ UNCHANGED <<acc, late, rej, dlv, closing, ambig>>
       [] e.op = "End" ->
            /\ \A id \in acc \ (dlv \cup dead) : Rep(FALSE, "lost", id, IF id \in late THEN "late" ELSE "early")
            /\ \A id \in (dlv \cup dead) \ acc : Rep(FALSE, "phantom", id, IF id \in rej THEN "rejected" ELSE "unknown")
            /\ PrintT(<<"HISTORY", l, Cardinality(acc), Cardinality(dlv), Cardinality(dead), Cardinality(rej)>>)
            /\ UNCHANGED <<acc, late, rej, dlv, dead, closing, ambig>>
       [] e.op = "Stuck" ->
            /\ PrintT(<<"STUCK", l>>) /\ UNCHANGED <<acc, late, rej, dlv, dead, closing, ambig>>
       [] OTHER -> UNCHANGED <<acc, late, rej, dlv, dead, closing, ambig>>
Spec == Init /\ [][Step]_vars
====
