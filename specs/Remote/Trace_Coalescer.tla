---- MODULE Trace_Coalescer ----
(* Conformance: the step lines of a puppet replay (action, thread, observed branch,       *)
(* channel length after the step, ids seen by the receiver / the error handler) must be    *)
(* a behaviour of Coalescer.tla, step by step.  After a "Free" line the run is no longer   *)
(* step-controlled and lines are skipped until the next "New".  A rejection (TLC stops     *)
(* before the last line) is conformance drift, not a property verdict.                     *)
EXTENDS Coalescer, Json
Trace == ndJsonDeserialize("trace.ndjson")
Ranks == [p \in Callers |-> IF p = "p1" THEN 1 ELSE IF p = "p2" THEN 2 ELSE 3]
VARIABLES l, free, obs
StepOps == {"Call", "SEnter", "Cancel", "SCheck", "SFast", "SSlow", "WSelect", "WDrain", "WFlush", "XClose", "XStop", "XWait"}
Reset == /\ ch' = <<>> /\ done' = FALSE /\ stop' = FALSE /\ readers' = {}
         /\ pc' = [p \in Callers |-> "idle"] /\ k' = [p \in Callers |-> 1]
         /\ cancelled' = [p \in Callers |-> FALSE] /\ ncancel' = 0
         /\ accepted' = {} /\ rejected' = {}
         /\ wpc' = "select" /\ batch' = <<>> /\ closing' = FALSE
         /\ delivered' = <<>> /\ dead' = <<>> /\ nfail' = 0 /\ ambig' = {} /\ xpc' = "idle"
Q(e) == Len(ch') = e.q
TStep ==
  /\ l <= Len(Trace)
  /\ l' = l + 1
  /\ LET e == Trace[l] IN
     \/ e.op = "New" /\ Reset /\ free' = FALSE /\ obs' = <<>>
     \/ e.op = "Free" /\ free' = TRUE /\ UNCHANGED <<vars, obs>>
     \/ e.op \in {"acc", "rej"} /\ obs' = <<e.id>> /\ UNCHANGED <<vars, free>>
     \/ e.op \in {"dlv", "dead"} /\ obs' = e.ids /\ UNCHANGED <<vars, free>>
     \/ e.op \in {"End", "Stuck", "xclose"} /\ UNCHANGED <<vars, free, obs>>
     \/ e.op \in StepOps /\ free /\ UNCHANGED <<vars, free, obs>>
     \/ /\ e.op \in StepOps /\ ~free /\ UNCHANGED <<free, obs>>
        /\ \/ e.op = "Call" /\ Call(e.t) /\ Q(e)
           \/ e.op = "SEnter" /\ SEnter(e.t) /\ Q(e)
           \/ e.op = "Cancel" /\ Cancel(e.t) /\ Q(e)
           \/ e.op = "SCheck" /\ SCheck(e.t, e.br) /\ Q(e)
           \/ e.op = "SFast" /\ SFast(e.t, e.br) /\ Q(e) /\ (e.br = "send" => obs = <<Id(e.t, k[e.t])>>)
           \/ e.op = "SSlow" /\ SSlow(e.t, e.br) /\ Q(e) /\ (e.br = "send" => obs = <<Id(e.t, k[e.t])>>)
           \/ e.op = "WSelect" /\ WSelect(e.br) /\ Q(e)
           \/ e.op = "WDrain" /\ WDrain(e.br) /\ Q(e)
           \/ e.op = "WFlush" /\ WFlush(e.br) /\ Q(e) /\ obs = batch
           \/ e.op = "XClose" /\ XClose /\ Q(e)
           \/ e.op = "XStop" /\ XStop /\ Q(e)
           \/ e.op = "XWait" /\ XWait /\ Q(e)
TInit == Init /\ l = 1 /\ free = FALSE /\ obs = <<>>
TSpec == TInit /\ [][TStep]_<<vars, l, free, obs>>
====
