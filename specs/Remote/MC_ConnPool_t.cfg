SPECIFICATION Spec
CONSTANTS
  Callers = {"c1", "c2", "c3"}
  NEx = 2
  Batch = {1, 2}
  MaxIdle = 2
  MaxConns = 3
  MaxShort = 2
  Defects = {}
  RankOf <- Ranks
VIEW View
INVARIANTS PoolClean Exclusive NotPooledInUse IdleBound
PROPERTIES OwnReply OwnPrefix
CHECK_DEADLOCK FALSE
