SPECIFICATION Spec
CONSTANTS
  Callers = {"c1", "c2"}
  NEx = 2
  Batch = {1, 2}
  MaxIdle = 1
  MaxConns = 3
  MaxShort = 1
  Defects = {"PutOnTimeout"}
  RankOf <- Ranks
VIEW View
INVARIANTS PoolClean Exclusive NotPooledInUse IdleBound
PROPERTIES OwnReply OwnPrefix
CHECK_DEADLOCK FALSE
