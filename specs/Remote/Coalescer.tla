----------------------------- MODULE Coalescer -----------------------------
(* internal/remoteclient/coalescer.go — the per-destination send coalescer behind    *)
(* RemoteTell (C27), one action per atomic step between verifhook points:            *)
(*   callers   Call(p)        RemoteTell up to submit's first select                 *)
(*             SCheck(p,br)   select { <-done: return closed ; default }             *)
(*             SFast(p,br)    select { in <- msg: return nil ; default }             *)
(*             SSlow(p,br)    select { in <- msg | <-ctx.Done() | <-done }  (blocks) *)
(*             Cancel(p)      the caller's context is cancelled while it is blocked  *)
(*   writer    WSelect(br)    select { <-done | m := <-in }                 (blocks) *)
(*             WDrain(br)     drainReady: one non-blocking receive, at most B        *)
(*             WFlush(ok)     SendProto of the batch; failure -> error handler       *)
(*             (return / wg.Done happens with the step that decides to leave)        *)
(*   closer    XClose         closeOnce: close(done)                                 *)
(*             XWait          wg.Wait() returns                                      *)
(* A Go select with several ready cases picks any of them: the branch is a parameter *)
(* of the action.  Channel `in` has capacity 4*B as in newCoalescer.                 *)
(* Deviations of the code from the repaired design are branches named in Defects:    *)
(*   "SingleDrain"  on close the writer drains ONE batch (<= B) and exits            *)
(*   "LateSubmit"   submit's sends are not atomic with its done check: a message is  *)
(*                  enqueued (and accepted) after done was closed                    *)
EXTENDS Integers, Sequences, FiniteSets, TLC

CONSTANTS Callers,    \* set of caller names (strings)
          NMsgs,      \* messages per caller
          B,          \* maxBatch
          MaxFail,    \* failing flushes allowed
          MaxCancel,  \* context cancellations allowed
          Defects,
          RankOf      \* [Callers -> 1..9]

Cap == 4 * B
Id(p, i) == RankOf[p] * 1000 + i       \* stream (caller) = id \div 1000

VARIABLES ch,         \* Seq(id): channel `in`
          done,       \* BOOLEAN: channel `done` closed
          pc,         \* [Callers -> {"idle","check","fast","slow","finished"}]
          k,          \* [Callers -> 1..NMsgs+1] index of the caller's current / next message
          cancelled,  \* [Callers -> BOOLEAN] ctx of the current call is cancelled
          ncancel,    \* cancellations so far
          accepted,   \* ids whose RemoteTell returned nil
          rejected,   \* ids whose RemoteTell returned an error
          wpc,        \* "select" | "drain" | "flush" | "exited"
          batch,      \* Seq(id): writer's batch
          closing,    \* writer took the done branch
          delivered,  \* Seq(id): messages of successfully flushed batches, in order
          dead,       \* Seq(id): messages handed to the error handler
          nfail,      \* failing flushes so far
          xpc         \* closer: "idle" | "wait" | "closed"

vars == <<ch, done, pc, k, cancelled, ncancel, accepted, rejected, wpc, batch, closing, delivered, dead, nfail, xpc>>

Init == /\ ch = <<>> /\ done = FALSE
        /\ pc = [p \in Callers |-> "idle"] /\ k = [p \in Callers |-> 1]
        /\ cancelled = [p \in Callers |-> FALSE] /\ ncancel = 0
        /\ accepted = {} /\ rejected = {}
        /\ wpc = "select" /\ batch = <<>> /\ closing = FALSE
        /\ delivered = <<>> /\ dead = <<>> /\ nfail = 0
        /\ xpc = "idle"

\* ---- callers ----------------------------------------------------------------------
Return(p) == /\ pc' = [pc EXCEPT ![p] = IF k[p] = NMsgs THEN "finished" ELSE "idle"]
             /\ k' = [k EXCEPT ![p] = @ + 1]
             /\ cancelled' = [cancelled EXCEPT ![p] = FALSE]
Accept(p) == /\ ch' = Append(ch, Id(p, k[p]))
             /\ accepted' = accepted \cup {Id(p, k[p])}
             /\ Return(p) /\ UNCHANGED rejected
Reject(p) == /\ rejected' = rejected \cup {Id(p, k[p])}
             /\ Return(p) /\ UNCHANGED <<ch, accepted>>
\* repaired design: no send once done is closed (check and send are one atomic step)
SendOpen == ~done \/ "LateSubmit" \in Defects
Writer == <<wpc, batch, closing, delivered, dead, nfail>>

\* a call that starts after Close has returned is outside the contract ("after calling Close, the client should
\* not be used for new requests": the client would silently build a new coalescer); calls racing with Close are in
Call(p) == /\ pc[p] = "idle" /\ k[p] <= NMsgs /\ xpc # "closed"
           /\ pc' = [pc EXCEPT ![p] = "check"]
           /\ UNCHANGED <<ch, done, k, cancelled, ncancel, accepted, rejected, Writer, xpc>>

SCheck(p, br) ==
  /\ pc[p] = "check"
  /\ \/ br = "closed" /\ done /\ Reject(p)
     \/ br = "next" /\ ~done /\ pc' = [pc EXCEPT ![p] = "fast"]
        /\ UNCHANGED <<ch, k, cancelled, accepted, rejected>>
  /\ UNCHANGED <<done, ncancel, Writer, xpc>>

SFast(p, br) ==
  /\ pc[p] = "fast"
  /\ \/ br = "send" /\ Len(ch) < Cap /\ SendOpen /\ Accept(p)
     \/ br = "closed" /\ ~SendOpen /\ Reject(p)
     \/ br = "next" /\ Len(ch) >= Cap /\ SendOpen /\ pc' = [pc EXCEPT ![p] = "slow"]
        /\ UNCHANGED <<ch, k, cancelled, accepted, rejected>>
  /\ UNCHANGED <<done, ncancel, Writer, xpc>>

SSlow(p, br) ==
  /\ pc[p] = "slow"
  /\ \/ br = "send" /\ Len(ch) < Cap /\ SendOpen /\ Accept(p)
     \/ br = "ctx" /\ cancelled[p] /\ Reject(p)
     \/ br = "closed" /\ done /\ Reject(p)
  /\ UNCHANGED <<done, ncancel, Writer, xpc>>

Cancel(p) == /\ pc[p] = "slow" /\ ~cancelled[p] /\ ncancel < MaxCancel
             /\ cancelled' = [cancelled EXCEPT ![p] = TRUE] /\ ncancel' = ncancel + 1
             /\ UNCHANGED <<ch, done, pc, k, accepted, rejected, Writer, xpc>>

\* ---- writer goroutine ----------------------------------------------------------------
CallerVars == <<pc, k, cancelled, ncancel, accepted, rejected>>
\* where the writer goes once drainReady is over with batch b
AfterDrain(b) == IF b # <<>> THEN "flush"
                 ELSE IF closing' THEN "exited" ELSE "select"

WSelect(br) ==
  /\ wpc = "select"
  /\ \/ /\ br = "in" /\ ch # <<>>
        /\ batch' = <<Head(ch)>> /\ ch' = Tail(ch) /\ closing' = closing
        /\ wpc' = IF B > 1 THEN "drain" ELSE "flush"
     \/ /\ br = "done" /\ done
        /\ closing' = TRUE /\ wpc' = "drain"
        /\ UNCHANGED <<ch, batch>>
  /\ UNCHANGED <<done, CallerVars, delivered, dead, nfail, xpc>>

WDrain(br) ==
  /\ wpc = "drain"            \* Len(batch) < B here
  /\ closing' = closing
  /\ \/ /\ br = "recv" /\ ch # <<>>
        /\ batch' = Append(batch, Head(ch)) /\ ch' = Tail(ch)
        /\ wpc' = IF Len(batch') < B THEN "drain" ELSE AfterDrain(batch')
     \/ /\ br = "empty" /\ ch = <<>>
        /\ wpc' = AfterDrain(batch)
        /\ UNCHANGED <<ch, batch>>
  /\ UNCHANGED <<done, CallerVars, delivered, dead, nfail, xpc>>

WFlush(ok) ==
  /\ wpc = "flush"
  /\ IF ok THEN delivered' = delivered \o batch /\ UNCHANGED <<dead, nfail>>
           ELSE nfail < MaxFail /\ nfail' = nfail + 1 /\ dead' = dead \o batch /\ UNCHANGED delivered
  /\ batch' = <<>>
  /\ wpc' = IF ~closing THEN "select"
            ELSE IF "SingleDrain" \in Defects \/ Len(ch) = 0 THEN "exited"
            ELSE "drain"                        \* repaired: for len(c.in) > 0 { drainReady(); flush() }
  /\ UNCHANGED <<ch, done, CallerVars, closing, xpc>>

\* ---- close ----------------------------------------------------------------------------
XClose == /\ xpc = "idle" /\ xpc' = "wait" /\ done' = TRUE
          /\ UNCHANGED <<ch, CallerVars, Writer>>
XWait == /\ xpc = "wait" /\ wpc = "exited" /\ xpc' = "closed"
         /\ UNCHANGED <<ch, done, CallerVars, Writer>>

Next == \/ \E p \in Callers : \/ Call(p) \/ Cancel(p)
                              \/ \E br \in {"closed", "next"} : SCheck(p, br)
                              \/ \E br \in {"send", "closed", "next"} : SFast(p, br)
                              \/ \E br \in {"send", "ctx", "closed"} : SSlow(p, br)
        \/ \E br \in {"in", "done"} : WSelect(br)
        \/ \E br \in {"recv", "empty"} : WDrain(br)
        \/ \E ok \in BOOLEAN : WFlush(ok)
        \/ XClose \/ XWait

Spec == Init /\ [][Next]_vars
FairSpec == Spec /\ WF_vars(Next)

\* ---- properties -------------------------------------------------------------------------
Ids(s) == {s[i] : i \in 1..Len(s)}
NoDup(s) == \A i, j \in 1..Len(s) : i # j => s[i] # s[j]
Quiescent == xpc = "closed" /\ \A p \in Callers : pc[p] \in {"idle", "finished"}

\* each message at most once, and never both delivered and dead-lettered
AtMostOnce == NoDup(delivered \o dead)
\* messages of one caller are delivered in send order
PerCallerFIFO == \A i, j \in 1..Len(delivered) :
                    (i < j /\ delivered[i] \div 1000 = delivered[j] \div 1000) => delivered[i] < delivered[j]
\* only accepted messages reach the receiver or the error handler
OnlyAccepted == Ids(delivered) \cup Ids(dead) \subseteq accepted /\ accepted \cap rejected = {}
\* every accepted message is somewhere (sanity of the transcription)
Conservation == accepted = Ids(ch) \cup Ids(batch) \cup Ids(delivered) \cup Ids(dead)
\* C27: none dropped silently — once close has returned every accepted message has its fate
NoSilentDrop == (xpc = "closed") => accepted \subseteq (Ids(delivered) \cup Ids(dead))
\* the stronger form at full quiescence (late submitters have returned too)
NoSilentDropQ == Quiescent => accepted = Ids(delivered) \cup Ids(dead)
\* the writer's batch never exceeds maxBatch
BatchBound == Len(batch) <= B /\ Len(ch) <= Cap
\* liveness: every run becomes quiescent (nobody stays blocked for ever)
Terminates == <>[]Quiescent
=============================================================================
