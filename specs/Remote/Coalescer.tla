----------------------------- MODULE Coalescer -----------------------------
(* internal/remoteclient/coalescer.go — the per-destination send coalescer behind    *)
(* RemoteTell (C27), one action per atomic step between verifhook points:            *)
(*   callers   Call(p)        RemoteTell up to submit                                *)
(*             SEnter(p)      inflight.RLock()        (released when submit returns) *)
(*             SCheck(p,br)   select { <-done: return closed ; default }             *)
(*             SFast(p,br)    select { in <- msg: return nil ; default }             *)
(*             SSlow(p,br)    select { in <- msg | <-ctx.Done() | <-done }  (blocks) *)
(*             Cancel(p)      the caller's context is cancelled while it is blocked  *)
(*   writer    WSelect(br)    select { <-stop | m := <-in }                 (blocks) *)
(*             WDrain(br)     drainReady: one non-blocking receive, at most B        *)
(*             WFlush(o)      SendProto of the batch: "ok" | "fail" (not delivered,  *)
(*                            error handler gets the batch) | "lost" (the receiver   *)
(*                            handled the batch but the reply never arrives: the     *)
(*                            batch is delivered AND handed to the error handler)    *)
(*             (return / wg.Done happens with the step that decides to leave)        *)
(*   closer    XClose         closeOnce: close(done)                                 *)
(*             XStop          inflight.Lock(); close(stop); Unlock()        (blocks) *)
(*             XWait          wg.Wait() returns                                      *)
(* A Go select with several ready cases picks any of them: the branch is a parameter *)
(* of the action.  Channel `in` has capacity 4*B as in newCoalescer.                 *)
(* Deviations of the code from the repaired design are branches named in Defects:    *)
(*   "SingleDrain"  on close the writer drains ONE batch (<= B) and exits            *)
(*   "ResendOnError" the flush is repeated after a transport error: a batch whose     *)
(*                  reply was lost reaches the receiver twice                        *)
(*   "LateSubmit"   close does not wait for submits in flight (no inflight lock, the *)
(*                  writer stops on done): a submit that passed its done check       *)
(*                  enqueues its message after the writer's final drain              *)
EXTENDS Integers, Sequences, FiniteSets, TLC

CONSTANTS Callers,    \* set of caller names (strings)
          NMsgs,      \* messages per caller
          B,          \* maxBatch
          MaxFail,    \* failing flushes allowed
          MaxCancel,  \* context cancellations allowed
          Defects,
          RankOf      \* [Callers -> 1..9]

Cap == 4 * B
Id(p, i) == RankOf[p] * 1000 + i       \* stream (caller) = id \div 1000

VARIABLES ch,         \* Seq(id): channel `in`
          done,       \* BOOLEAN: channel `done` closed
          stop,       \* BOOLEAN: channel `stop` closed
          readers,    \* callers holding the inflight lock in shared mode
          pc,         \* [Callers -> {"idle","enter","check","fast","slow","finished"}]
          k,          \* [Callers -> 1..NMsgs+1] index of the caller's current / next message
          cancelled,  \* [Callers -> BOOLEAN] ctx of the current call is cancelled
          ncancel,    \* cancellations so far
          accepted,   \* ids whose RemoteTell returned nil
          rejected,   \* ids whose RemoteTell returned an error
          wpc,        \* "select" | "drain" | "flush" | "exited"
          batch,      \* Seq(id): writer's batch
          closing,    \* writer took the done branch
          delivered,  \* Seq(id): messages of successfully flushed batches, in order
          dead,       \* Seq(id): messages handed to the error handler
          nfail,      \* failing flushes so far
          ambig,      \* ids of batches whose reply was lost (delivered and reported as failed: inherent to an RPC)
          xpc         \* closer: "idle" | "lock" | "wait" | "closed"

vars == <<ch, done, stop, readers, pc, k, cancelled, ncancel, accepted, rejected, wpc, batch, closing, delivered, dead, nfail, ambig, xpc>>

Init == /\ ch = <<>> /\ done = FALSE /\ stop = FALSE /\ readers = {}
        /\ pc = [p \in Callers |-> "idle"] /\ k = [p \in Callers |-> 1]
        /\ cancelled = [p \in Callers |-> FALSE] /\ ncancel = 0
        /\ accepted = {} /\ rejected = {}
        /\ wpc = "select" /\ batch = <<>> /\ closing = FALSE
        /\ delivered = <<>> /\ dead = <<>> /\ nfail = 0 /\ ambig = {}
        /\ xpc = "idle"

\* ---- callers ----------------------------------------------------------------------
Return(p) == /\ pc' = [pc EXCEPT ![p] = IF k[p] = NMsgs THEN "finished" ELSE "idle"]
             /\ k' = [k EXCEPT ![p] = @ + 1]
             /\ cancelled' = [cancelled EXCEPT ![p] = FALSE]
             /\ readers' = readers \ {p}                      \* deferred RUnlock
Accept(p) == /\ ch' = Append(ch, Id(p, k[p]))
             /\ accepted' = accepted \cup {Id(p, k[p])}
             /\ Return(p) /\ UNCHANGED rejected
Reject(p) == /\ rejected' = rejected \cup {Id(p, k[p])}
             /\ Return(p) /\ UNCHANGED <<ch, accepted>>
Writer == <<wpc, batch, closing, delivered, dead, nfail, ambig>>

\* a call that starts after Close has returned is outside the contract ("after calling Close, the client should
\* not be used for new requests": the client would silently build a new coalescer); calls racing with Close are in
Call(p) == /\ pc[p] = "idle" /\ k[p] <= NMsgs /\ xpc # "closed"
           /\ pc' = [pc EXCEPT ![p] = "enter"]
           /\ UNCHANGED <<ch, done, stop, readers, k, cancelled, ncancel, accepted, rejected, Writer, xpc>>

\* RLock never waits here: the closer asks for the exclusive lock and gets it in one step (XStop)
SEnter(p) == /\ pc[p] = "enter"
             /\ pc' = [pc EXCEPT ![p] = "check"] /\ readers' = readers \cup {p}
             /\ UNCHANGED <<ch, done, stop, k, cancelled, ncancel, accepted, rejected, Writer, xpc>>

SCheck(p, br) ==
  /\ pc[p] = "check"
  /\ \/ br = "closed" /\ done /\ Reject(p)
     \/ br = "next" /\ ~done /\ pc' = [pc EXCEPT ![p] = "fast"]
        /\ UNCHANGED <<ch, k, cancelled, accepted, rejected, readers>>
  /\ UNCHANGED <<done, stop, ncancel, Writer, xpc>>

SFast(p, br) ==
  /\ pc[p] = "fast"
  /\ \/ br = "send" /\ Len(ch) < Cap /\ Accept(p)
     \/ br = "next" /\ Len(ch) >= Cap /\ pc' = [pc EXCEPT ![p] = "slow"]
        /\ UNCHANGED <<ch, k, cancelled, accepted, rejected, readers>>
  /\ UNCHANGED <<done, stop, ncancel, Writer, xpc>>

SSlow(p, br) ==
  /\ pc[p] = "slow"
  /\ \/ br = "send" /\ Len(ch) < Cap /\ Accept(p)
     \/ br = "ctx" /\ cancelled[p] /\ Reject(p)
     \/ br = "closed" /\ done /\ Reject(p)
  /\ UNCHANGED <<done, stop, ncancel, Writer, xpc>>

Cancel(p) == /\ pc[p] = "slow" /\ ~cancelled[p] /\ ncancel < MaxCancel
             /\ cancelled' = [cancelled EXCEPT ![p] = TRUE] /\ ncancel' = ncancel + 1
             /\ UNCHANGED <<ch, done, stop, readers, pc, k, accepted, rejected, Writer, xpc>>

\* ---- writer goroutine ----------------------------------------------------------------
CallerVars == <<pc, k, cancelled, ncancel, accepted, rejected>>
\* where the writer goes once drainReady is over with batch b
AfterDrain(b) == IF b # <<>> THEN "flush"
                 ELSE IF closing' THEN "exited" ELSE "select"

WSelect(br) ==
  /\ wpc = "select"
  /\ \/ /\ br = "in" /\ ch # <<>>
        /\ batch' = <<Head(ch)>> /\ ch' = Tail(ch) /\ closing' = closing
        /\ wpc' = IF B > 1 THEN "drain" ELSE "flush"
     \/ /\ br = "done" /\ stop
        /\ closing' = TRUE /\ wpc' = "drain"
        /\ UNCHANGED <<ch, batch>>
  /\ UNCHANGED <<done, stop, readers, CallerVars, delivered, dead, nfail, ambig, xpc>>

WDrain(br) ==
  /\ wpc = "drain"            \* Len(batch) < B here
  /\ closing' = closing
  /\ \/ /\ br = "recv" /\ ch # <<>>
        /\ batch' = Append(batch, Head(ch)) /\ ch' = Tail(ch)
        /\ wpc' = IF Len(batch') < B THEN "drain" ELSE AfterDrain(batch')
     \/ /\ br = "empty" /\ ch = <<>>
        /\ wpc' = AfterDrain(batch)
        /\ UNCHANGED <<ch, batch>>
  /\ UNCHANGED <<done, stop, readers, CallerVars, delivered, dead, nfail, ambig, xpc>>

WFlush(o) ==
  /\ wpc = "flush"
  /\ CASE o = "ok"   -> delivered' = delivered \o batch /\ UNCHANGED <<dead, nfail, ambig>>
       [] o = "fail" -> nfail < MaxFail /\ nfail' = nfail + 1 /\ dead' = dead \o batch /\ UNCHANGED <<delivered, ambig>>
       [] o = "lost" -> /\ nfail < MaxFail /\ nfail' = nfail + 1
                        /\ delivered' = IF "ResendOnError" \in Defects THEN delivered \o batch \o batch   \* retried blindly
                                                                          ELSE delivered \o batch           \* sent exactly ONCE
                        /\ dead' = dead \o batch
                        /\ ambig' = ambig \cup {batch[i] : i \in 1..Len(batch)}
  /\ batch' = <<>>
  /\ wpc' = IF ~closing THEN "select"
            ELSE IF "SingleDrain" \in Defects \/ Len(ch) = 0 THEN "exited"
            ELSE "drain"                        \* repaired: for len(c.in) > 0 { drainReady(); flush() }
  /\ UNCHANGED <<ch, done, stop, readers, CallerVars, closing, xpc>>

\* ---- close ----------------------------------------------------------------------------
XClose == /\ xpc = "idle" /\ xpc' = "lock" /\ done' = TRUE
          /\ UNCHANGED <<ch, stop, readers, CallerVars, Writer>>
\* the exclusive lock is granted once no submit is in flight; the writer is told to stop under it
XStop == /\ xpc = "lock" /\ (readers = {} \/ "LateSubmit" \in Defects)
         /\ xpc' = "wait" /\ stop' = TRUE
         /\ UNCHANGED <<ch, done, readers, CallerVars, Writer>>
XWait == /\ xpc = "wait" /\ wpc = "exited" /\ xpc' = "closed"
         /\ UNCHANGED <<ch, done, stop, readers, CallerVars, Writer>>

Next == \/ \E p \in Callers : \/ Call(p) \/ SEnter(p) \/ Cancel(p)
                              \/ \E br \in {"closed", "next"} : SCheck(p, br)
                              \/ \E br \in {"send", "next"} : SFast(p, br)
                              \/ \E br \in {"send", "ctx", "closed"} : SSlow(p, br)
        \/ \E br \in {"in", "done"} : WSelect(br)
        \/ \E br \in {"recv", "empty"} : WDrain(br)
        \/ \E o \in {"ok", "fail", "lost"} : WFlush(o)
        \/ XClose \/ XStop \/ XWait

Spec == Init /\ [][Next]_vars
FairSpec == Spec /\ WF_vars(Next)

\* ---- properties -------------------------------------------------------------------------
Ids(s) == {s[i] : i \in 1..Len(s)}
NoDup(s) == \A i, j \in 1..Len(s) : i # j => s[i] # s[j]
Quiescent == xpc = "closed" /\ \A p \in Callers : pc[p] \in {"idle", "finished"}

\* each message at most once, and never both delivered and dead-lettered
AtMostOnce == /\ NoDup(delivered) /\ NoDup(dead)
              /\ \A i \in 1..Len(delivered), j \in 1..Len(dead) : delivered[i] = dead[j] => delivered[i] \in ambig
\* messages of one caller are delivered in send order
PerCallerFIFO == \A i, j \in 1..Len(delivered) :
                    (i < j /\ delivered[i] \div 1000 = delivered[j] \div 1000) => delivered[i] < delivered[j]
\* only accepted messages reach the receiver or the error handler
OnlyAccepted == Ids(delivered) \cup Ids(dead) \subseteq accepted /\ accepted \cap rejected = {}
\* every accepted message is somewhere (sanity of the transcription)
Conservation == accepted = Ids(ch) \cup Ids(batch) \cup Ids(delivered) \cup Ids(dead)
\* C27: none dropped silently — once close has returned every accepted message has its fate
NoSilentDrop == (xpc = "closed") => accepted \subseteq (Ids(delivered) \cup Ids(dead))
\* the stronger form at full quiescence (late submitters have returned too)
NoSilentDropQ == Quiescent => accepted = Ids(delivered) \cup Ids(dead)
\* the lock discipline: whoever is past SEnter holds the shared lock, and the writer is not told to stop while
\* the closer still waits for the lock
LockDiscipline == /\ \A p \in Callers : (pc[p] \in {"check", "fast", "slow"}) <=> (p \in readers)
                  /\ (xpc \in {"idle", "lock"}) => ~stop
\* nothing enters the channel once the writer was told to stop (what the run loop's final drain relies on)
NoSendAfterStop == [][stop => Len(ch') <= Len(ch)]_vars
\* the writer's batch never exceeds maxBatch
BatchBound == Len(batch) <= B /\ Len(ch) <= Cap
\* liveness: every run becomes quiescent (nobody stays blocked for ever)
Terminates == <>[]Quiescent
=============================================================================
