SPECIFICATION Spec
CONSTANTS
  Callers = {"c1", "c2", "c3"}
  NEx = 1
  Batch = {1, 2}
  MaxIdle = 1
  MaxConns = 3
  MaxShort = 1
  Defects = {}
  RankOf <- Ranks

VIEW View
CHECK_DEADLOCK FALSE
