---- MODULE Gen_Coalescer ----
(* Behaviour generator for -simulate: carries the (action, arguments) history of a walk *)
(* and prints it when the walk ends (no successor) or reaches Depth.                     *)
EXTENDS Coalescer, Json
CONSTANTS Depth
VARIABLE hist
Ranks == [p \in Callers |-> IF p = "p1" THEN 1 ELSE IF p = "p2" THEN 2 ELSE 3]
H(a, args) == hist' = Append(hist, [a |-> a, args |-> args])
GInit == Init /\ hist = <<>>
GNext ==
  \/ \E p \in Callers :
       \/ Call(p) /\ H("Call", <<p>>)
       \/ SEnter(p) /\ H("SEnter", <<p>>)
       \/ Cancel(p) /\ H("Cancel", <<p>>)
       \/ \E br \in {"closed", "next"} : SCheck(p, br) /\ H("SCheck", <<p, br>>)
       \/ \E br \in {"send", "next"} : SFast(p, br) /\ H("SFast", <<p, br>>)
       \/ \E br \in {"send", "ctx", "closed"} : SSlow(p, br) /\ H("SSlow", <<p, br>>)
  \/ \E br \in {"in", "done"} : WSelect(br) /\ H("WSelect", <<br>>)
  \/ \E br \in {"recv", "empty"} : WDrain(br) /\ H("WDrain", <<br>>)
  \/ \E o \in {"ok", "fail", "lost"} : WFlush(o) /\ H("WFlush", <<o>>)
  \/ XClose /\ H("XClose", <<>>)
  \/ XStop /\ H("XStop", <<>>)
  \/ XWait /\ H("XWait", <<>>)
  \/ (Quiescent /\ Len(hist) < Depth /\ PrintT(<<"BEHAVIOUR", ToJson(hist)>>) /\ hist' = hist \o [i \in 1..Depth |-> [a |-> "pad", args |-> <<>>]] /\ UNCHANGED vars)
GSpec == GInit /\ [][GNext]_<<vars, hist>>
Emit == Len(hist) < Depth
====
