SPECIFICATION TSpec
CONSTANTS
  Callers = {"p1", "p2", "p3"}
  NMsgs = 9
  B = 1
  MaxFail = 99
  MaxCancel = 99
  Defects = {}
  RankOf <- Ranks
CHECK_DEADLOCK FALSE
INVARIANTS AtMostOnce PerCallerFIFO OnlyAccepted Conservation BatchBound
