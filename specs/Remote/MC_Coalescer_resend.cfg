SPECIFICATION Spec
CONSTANTS
  Callers = {"p1", "p2"}
  NMsgs = 2
  B = 1
  MaxFail = 1
  MaxCancel = 0
  Defects = {"ResendOnError"}
  RankOf <- Ranks
INVARIANTS AtMostOnce PerCallerFIFO OnlyAccepted Conservation BatchBound NoSilentDrop
CHECK_DEADLOCK FALSE
