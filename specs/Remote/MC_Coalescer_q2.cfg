SPECIFICATION Spec
CONSTANTS
  Callers = {"p1", "p2"}
  NMsgs = 2
  B = 2
  MaxFail = 1
  MaxCancel = 1
  Defects = {}
  RankOf <- Ranks
INVARIANTS AtMostOnce PerCallerFIFO OnlyAccepted Conservation BatchBound NoSilentDrop NoSilentDropQ LockDiscipline
PROPERTIES NoSendAfterStop
CHECK_DEADLOCK FALSE
