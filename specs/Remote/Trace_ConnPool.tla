---- MODULE Trace_ConnPool ----
(* Conformance: a replayed walk on the real inet.Client must be a behaviour of ConnPool.tla,    *)
(* step by step: the connection each exchange got (numbered in dial order as seen by the        *)
(* server), the request each server reply answers, and what the caller was handed.              *)
EXTENDS ConnPool, Json
Trace == ndJsonDeserialize("trace.ndjson")
Ranks == [c \in Callers |-> IF c = "c1" THEN 1 ELSE IF c = "c2" THEN 2 ELSE IF c = "c3" THEN 3 ELSE 4]
VARIABLES l, free
Reset == /\ idle' = <<>> /\ nconn' = 0
         /\ open' = [x \in Conns |-> FALSE]
         /\ pend' = [x \in Conns |-> <<>>] /\ stream' = [x \in Conns |-> <<>>]
         /\ pc' = [c \in Callers |-> "idle"] /\ ex' = [c \in Callers |-> 1]
         /\ cur' = [c \in Callers |-> 0] /\ short' = [c \in Callers |-> FALSE]
         /\ want' = [c \in Callers |-> <<>>] /\ got' = [c \in Callers |-> <<>>]
         /\ res' = [c |-> "", want |-> <<>>, got |-> <<>>, err |-> FALSE] /\ nshort' = 0
StepOps == {"Start", "Reply", "Timeout"}
TStep ==
  /\ l <= Len(Trace)
  /\ l' = l + 1
  /\ LET e == Trace[l] IN
     \/ e.op = "New" /\ Reset /\ free' = FALSE
     \/ e.op = "Free" /\ free' = TRUE /\ UNCHANGED vars
     \/ e.op \in {"End", "Stuck", "Result"} /\ UNCHANGED <<vars, free>>
     \/ e.op \in StepOps /\ free /\ UNCHANGED <<vars, free>>
     \/ /\ e.op \in StepOps /\ ~free /\ UNCHANGED free
        /\ \/ e.op = "Start" /\ Start(e.c, e.sh = 1, e.n) /\ cur'[e.c] = e.x /\ want'[e.c] = e.want
           \/ e.op = "Reply" /\ Reply(e.x) /\ Head(pend[e.x]) = e.req
                             /\ (e.fin = 1 => (res'.c = e.c /\ res'.got = e.got /\ e.err = "" /\ pc'[e.c] # "wait"))
                             /\ (e.fin = 0 => \E c \in Callers : pc'[c] = "wait" /\ cur'[c] = e.x)
           \/ e.op = "Timeout" /\ Timeout(e.c) /\ e.err # ""
TInit == Init /\ l = 1 /\ free = FALSE
TSpec == TInit /\ [][TStep]_<<vars, l, free>>
====
