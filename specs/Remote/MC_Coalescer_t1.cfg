SPECIFICATION Spec
CONSTANTS
  Callers = {"p1", "p2"}
  NMsgs = 3
  B = 1
  MaxFail = 2
  MaxCancel = 1
  Defects = {}
  RankOf <- Ranks
INVARIANTS AtMostOnce PerCallerFIFO OnlyAccepted Conservation BatchBound NoSilentDrop NoSilentDropQ LockDiscipline
PROPERTIES NoSendAfterStop
CHECK_DEADLOCK FALSE
