---- MODULE MC_Coalescer ----
EXTENDS Coalescer
Ranks == [p \in Callers |-> IF p = "p1" THEN 1 ELSE IF p = "p2" THEN 2 ELSE 3]
====
