---- MODULE Mon_ConnPool ----
(* Property monitor for C28 on recorded executions of the REAL pooled client (inet.Client      *)
(* SendProto / SendBatchProto, remoteclient RemoteAsk / RemoteBatchAsk).  It knows only the     *)
(* contract: an exchange that returns without error returns exactly the replies to its own      *)
(* requests, in request order (the echo receivers answer request id i with reply id i).         *)
(* Lines with op Read(fin=1) / Timeout / Result carry want, got, err.  Deviations are printed:  *)
(*   <<"MISMATCH", line, caller, want, got>>                                                    *)
EXTENDS Integers, Sequences, TLC, Json
Trace == ndJsonDeserialize("trace.ndjson")
VARIABLES l, nres, nok
Init == l = 1 /\ nres = 0 /\ nok = 0
IsResult(e) == (e.op = "Read" /\ e.fin = 1) \/ e.op \in {"Timeout", "Result"}
Step ==
  /\ l <= Len(Trace)
  /\ l' = l + 1
  /\ LET e == Trace[l] IN
     IF IsResult(e)
     THEN /\ (IF e.err # "" \/ e.got = e.want THEN TRUE ELSE PrintT(<<"MISMATCH", l, e.c, e.want, e.got>>))
          /\ nres' = nres + 1
          /\ nok' = IF e.err = "" THEN nok + 1 ELSE nok
     ELSE IF e.op = "End"
     THEN PrintT(<<"HISTORY", l, nres, nok>>) /\ nres' = 0 /\ nok' = 0
     ELSE IF e.op = "Stuck"
     THEN PrintT(<<"STUCK", l>>) /\ nres' = 0 /\ nok' = 0
     ELSE IF e.op = "New" THEN nres' = 0 /\ nok' = 0
     ELSE UNCHANGED <<nres, nok>>
Spec == Init /\ [][Step]_<<l, nres, nok>>
====
