---- MODULE Mon_ConnPool ----
(* Property monitor for C28 on recorded executions of the REAL pooled client (inet.Client      *)
(* SendProto / SendBatchProto, and Ask / BatchAsk between two real actor systems).  It knows    *)
(* only the contract: an exchange that returns without error returns exactly the replies to     *)
(* its own requests, in request order (the echo receivers answer request id i with reply i).    *)
(* Lines with op Reply(fin=1) / Timeout / Result carry want, got, err.  Deviations are printed: *)
(*   <<"MISMATCH", line, caller, want, got>>                                                    *)
(* C29 for asks: "inj" lines (req = message id, x = id put into the caller's context) and       *)
(* "recv" lines (req = message id, x = id found in ReceiveContext.Context() at the receiver):   *)
(*   <<"MDMISMATCH", line, message id, restored>>                                               *)
EXTENDS Integers, Sequences, TLC, Json
Trace == ndJsonDeserialize("trace.ndjson")
VARIABLES l, nres, nok, inj
Init == l = 1 /\ nres = 0 /\ nok = 0 /\ inj = {}
IsResult(e) == (e.op = "Reply" /\ e.fin = 1) \/ e.op \in {"Timeout", "Result"}
Step ==
  /\ l <= Len(Trace)
  /\ l' = l + 1
  /\ LET e == Trace[l] IN
     IF IsResult(e)
     THEN /\ (IF e.err # "" \/ e.got = e.want THEN TRUE ELSE PrintT(<<"MISMATCH", l, e.c, e.want, e.got>>))
          /\ nres' = nres + 1
          /\ nok' = IF e.err = "" THEN nok + 1 ELSE nok
          /\ UNCHANGED inj
     ELSE IF e.op = "inj" THEN inj' = inj \cup {<<e.req, e.x>>} /\ UNCHANGED <<nres, nok>>
     ELSE IF e.op = "recv"
     THEN /\ (IF <<e.req, e.x>> \in inj THEN TRUE ELSE PrintT(<<"MDMISMATCH", l, e.req, e.x>>))
          /\ UNCHANGED <<nres, nok, inj>>
     ELSE IF e.op = "End"
     THEN PrintT(<<"HISTORY", l, nres, nok>>) /\ nres' = 0 /\ nok' = 0 /\ UNCHANGED inj
     ELSE IF e.op = "Stuck"
     THEN PrintT(<<"STUCK", l>>) /\ nres' = 0 /\ nok' = 0 /\ UNCHANGED inj
     ELSE IF e.op = "New" THEN nres' = 0 /\ nok' = 0 /\ UNCHANGED inj   \* a slow receiver may log a recv one round late
     ELSE UNCHANGED <<nres, nok, inj>>
Spec == Init /\ [][Step]_<<l, nres, nok, inj>>
====
