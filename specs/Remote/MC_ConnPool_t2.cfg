SPECIFICATION Spec
CONSTANTS
  Callers = {"c1", "c2", "c3", "c4"}
  NEx = 2
  Batch = {1, 2, 3}
  MaxIdle = 2
  MaxConns = 4
  MaxShort = 2
  Defects = {}
  RankOf <- Ranks
VIEW View
INVARIANTS PoolClean Exclusive NotPooledInUse IdleBound
PROPERTIES OwnReply OwnPrefix
CHECK_DEADLOCK FALSE
