SPECIFICATION FairSpec
CONSTANTS
  Callers = {"p1", "p2"}
  NMsgs = 3
  B = 1
  MaxFail = 1
  MaxCancel = 1
  Defects = {}
  RankOf <- Ranks
PROPERTIES Terminates
CHECK_DEADLOCK FALSE
