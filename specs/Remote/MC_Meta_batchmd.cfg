SPECIFICATION MSpec
CONSTANTS
  Callers = {"p1", "p2"}
  NMsgs = 2
  B = 2
  MaxFail = 1
  MaxCancel = 0
  Defects = {}
  MDefects = {"BatchMd"}
  RankOf <- Ranks
INVARIANTS MdRestored
CHECK_DEADLOCK FALSE
