------------------------------ MODULE ConnPool ------------------------------
(* internal/net/client.go — the pooled TCP client behind RemoteAsk / RemoteBatchAsk      *)
(* (C28).  One exchange = Get (pop the LIFO idle stack or dial), write n request frames, *)
(* read n response frames, then Put (push, or close when the stack is full) — or        *)
(* Discard on any error / read time-out.  The server answers the frames of a connection  *)
(* in order (internal/net/proto_server.go handleConn).  A connection is a FIFO byte      *)
(* stream: whoever reads it gets the oldest unread reply.                                *)
(*   Start(c, sh, n)    caller c begins an exchange of n requests (n = 1: SendProto,     *)
(*                      n > 1: SendBatchProto) with a short (sh) or generous deadline     *)
(*   ServerReply(x)     the server answers the oldest unanswered request of connection x  *)
(*   Read(c)            c reads one reply; after the n-th: Put, return                    *)
(*   Timeout(c)         c's deadline passes while it waits: Discard, return an error      *)
(* Defects: "PutOnTimeout" (the connection goes back to the pool after a read time-out)  *)
EXTENDS Integers, Sequences, FiniteSets, TLC

CONSTANTS Callers,    \* set of caller names
          NEx,        \* exchanges per caller
          Batch,      \* set of exchange sizes, e.g. {1, 2}
          MaxIdle,    \* capacity of the idle stack
          MaxConns,   \* bound on dialled connections
          MaxShort,   \* bound on exchanges with a short deadline
          Defects,
          RankOf

Conns == 1..MaxConns
Req(c, e, i) == RankOf[c] * 100 + e * 10 + i

VARIABLES idle,     \* Seq(Conns): idle stack, top = last element
          nconn,    \* connections dialled so far (ids 1..nconn, in dial order)
          open,     \* [Conns -> BOOLEAN]
          pend,     \* [Conns -> Seq(request)]  written, not yet answered
          stream,   \* [Conns -> Seq(reply)]    answered, not yet read
          pc,       \* [Callers -> "idle" | "wait" | "done"]
          ex,       \* [Callers -> 1..NEx+1]  current exchange number
          cur,      \* [Callers -> Conns \cup {0}]
          short,    \* [Callers -> BOOLEAN]
          want,     \* [Callers -> Seq(request)] requests of the current exchange
          got,      \* [Callers -> Seq(reply)]  replies read so far
          res,      \* result of the exchange that returned last: [c, want, got, err] (output only)
          nshort

vars == <<idle, nconn, open, pend, stream, pc, ex, cur, short, want, got, res, nshort>>

Init == /\ idle = <<>> /\ nconn = 0
        /\ open = [x \in Conns |-> FALSE]
        /\ pend = [x \in Conns |-> <<>>] /\ stream = [x \in Conns |-> <<>>]
        /\ pc = [c \in Callers |-> "idle"] /\ ex = [c \in Callers |-> 1]
        /\ cur = [c \in Callers |-> 0] /\ short = [c \in Callers |-> FALSE]
        /\ want = [c \in Callers |-> <<>>] /\ got = [c \in Callers |-> <<>>]
        /\ res = [c |-> "", want |-> <<>>, got |-> <<>>, err |-> FALSE] /\ nshort = 0

Finish(c) == /\ pc' = [pc EXCEPT ![c] = IF ex[c] = NEx THEN "done" ELSE "idle"]
             /\ ex' = [ex EXCEPT ![c] = @ + 1]
             /\ cur' = [cur EXCEPT ![c] = 0]
             /\ want' = [want EXCEPT ![c] = <<>>] /\ got' = [got EXCEPT ![c] = <<>>]
             /\ short' = [short EXCEPT ![c] = FALSE]

\* Put: push when there is room, otherwise close
PutIdle(x)  == IF Len(idle) < MaxIdle THEN Append(idle, x) ELSE idle
PutOpen(x)  == IF Len(idle) < MaxIdle THEN open ELSE [open EXCEPT ![x] = FALSE]

Start(c, sh, n) ==
  /\ pc[c] = "idle" /\ ex[c] <= NEx
  /\ sh => nshort < MaxShort
  /\ LET reuse == idle # <<>>
         x == IF reuse THEN idle[Len(idle)] ELSE nconn + 1
         reqs == [i \in 1..n |-> Req(c, ex[c], i)]
     IN /\ reuse \/ nconn < MaxConns
        /\ idle' = IF reuse THEN SubSeq(idle, 1, Len(idle) - 1) ELSE idle
        /\ nconn' = IF reuse THEN nconn ELSE nconn + 1
        /\ open' = [open EXCEPT ![x] = TRUE]
        /\ pend' = [pend EXCEPT ![x] = @ \o reqs]
        /\ cur' = [cur EXCEPT ![c] = x]
        /\ want' = [want EXCEPT ![c] = reqs]
  /\ got' = [got EXCEPT ![c] = <<>>]
  /\ short' = [short EXCEPT ![c] = sh]
  /\ nshort' = IF sh THEN nshort + 1 ELSE nshort
  /\ pc' = [pc EXCEPT ![c] = "wait"]
  /\ UNCHANGED <<stream, ex, res>>

\* the caller that is waiting for request r on connection x (if any)
Waiter(x, r) == {c \in Callers : pc[c] = "wait" /\ cur[c] = x /\ \E i \in 1..Len(want[c]) : want[c][i] = r}

\* a short-deadline caller never gets its LAST reply in time (it is the one that times out)
ServerReply(x) ==
  /\ pend[x] # <<>>
  /\ LET r == Head(pend[x]) IN
     /\ \A c \in Waiter(x, r) : short[c] => r # want[c][Len(want[c])]
     /\ stream' = IF open[x] THEN [stream EXCEPT ![x] = Append(@, r)] ELSE stream   \* closed: the write fails
  /\ pend' = [pend EXCEPT ![x] = Tail(@)]
  /\ UNCHANGED <<idle, nconn, open, pc, ex, cur, short, want, got, res, nshort>>

Read(c) ==
  /\ pc[c] = "wait" /\ stream[cur[c]] # <<>>
  /\ LET x == cur[c]
         g == Append(got[c], Head(stream[x]))
     IN /\ stream' = [stream EXCEPT ![x] = Tail(@)]
        /\ IF Len(g) = Len(want[c])
           THEN /\ res' = [c |-> c, want |-> want[c], got |-> g, err |-> FALSE]
                /\ idle' = PutIdle(x) /\ open' = PutOpen(x)
                /\ Finish(c)
           ELSE /\ got' = [got EXCEPT ![c] = g]
                /\ UNCHANGED <<res, idle, open, pc, ex, cur, want, short>>
  /\ UNCHANGED <<nconn, pend, nshort>>

Timeout(c) ==
  /\ pc[c] = "wait" /\ short[c] /\ stream[cur[c]] = <<>>
  /\ res' = [c |-> c, want |-> want[c], got |-> got[c], err |-> TRUE]
  /\ IF "PutOnTimeout" \in Defects
     THEN idle' = PutIdle(cur[c]) /\ open' = PutOpen(cur[c]) /\ UNCHANGED pend
     ELSE /\ idle' = idle /\ open' = [open EXCEPT ![cur[c]] = FALSE]        \* Discard
          /\ pend' = [pend EXCEPT ![cur[c]] = <<>>]    \* the server still answers them: into a closed socket
  /\ Finish(c)
  /\ UNCHANGED <<nconn, stream, nshort>>

Next == \/ \E c \in Callers : \/ \E sh \in BOOLEAN, n \in Batch : Start(c, sh, n)
                              \/ Read(c) \/ Timeout(c)
        \/ \E x \in Conns : ServerReply(x)

Spec == Init /\ [][Next]_vars

\* ---- properties --------------------------------------------------------------------------
InIdle(x) == \E i \in 1..Len(idle) : idle[i] = x
\* a pooled connection has no unanswered request and no unread reply
PoolClean == \A x \in Conns : InIdle(x) => open[x] /\ pend[x] = <<>> /\ stream[x] = <<>>
\* C28: every exchange that returns without error returns the replies to its own requests, in request order
OwnReply == [][res'.err \/ res'.got = res'.want]_vars
\* whatever an exchange read, even one that failed later, were replies to its own requests, in order
OwnPrefix == [][res'.got = SubSeq(res'.want, 1, Len(res'.got))]_vars
\* a connection is used by one exchange at a time and is not pooled while in use
Exclusive == \A c, d \in Callers : (c # d /\ pc[c] = "wait" /\ pc[d] = "wait") => cur[c] # cur[d]
NotPooledInUse == \A c \in Callers : pc[c] = "wait" => ~InIdle(cur[c])
IdleBound == Len(idle) <= MaxIdle
=============================================================================
