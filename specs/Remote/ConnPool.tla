------------------------------ MODULE ConnPool ------------------------------
(* internal/net/client.go — the pooled TCP client behind RemoteAsk / RemoteBatchAsk      *)
(* (C28).  One exchange = Get (pop the LIFO idle stack or dial), write n request frames, *)
(* read n response frames, then Put (push, or close when the stack is full) — or        *)
(* Discard on any error / read time-out.  The server answers the frames of a connection  *)
(* in order (internal/net/proto_server.go handleConn).  A connection is a FIFO byte      *)
(* stream: whoever reads it gets the oldest unread reply.                                *)
(*   Start(c, sh, n)    caller c begins an exchange of n requests (n = 1: SendProto,     *)
(*                      n > 1: SendBatchProto) with a short (sh) or generous deadline     *)
(*   Reply(x)           the server answers the oldest unanswered request of connection x; *)
(*                      the caller blocked on x reads it (after the n-th: Put, return)    *)
(*   Read(c)            c reads a reply that was already waiting on its connection        *)
(*   Timeout(c)         c's deadline passes while it waits: Discard, return an error      *)
(* Defects: "PutOnTimeout" (the connection goes back to the pool after a read time-out)  *)
EXTENDS Integers, Sequences, FiniteSets, TLC

CONSTANTS Callers,    \* set of caller names
          NEx,        \* exchanges per caller
          Batch,      \* set of exchange sizes, e.g. {1, 2}
          MaxIdle,    \* capacity of the idle stack
          MaxConns,   \* bound on dialled connections
          MaxShort,   \* bound on exchanges with a short deadline
          Defects,
          RankOf

Conns == 1..MaxConns
Req(c, e, i) == RankOf[c] * 100 + e * 10 + i

VARIABLES idle,     \* Seq(Conns): idle stack, top = last element
          nconn,    \* connections dialled so far (ids 1..nconn, in dial order)
          open,     \* [Conns -> BOOLEAN]
          pend,     \* [Conns -> Seq(request)]  written, not yet answered
          stream,   \* [Conns -> Seq(reply)]    answered, not yet read
          pc,       \* [Callers -> "idle" | "wait" | "done"]
          ex,       \* [Callers -> 1..NEx+1]  current exchange number
          cur,      \* [Callers -> Conns \cup {0}]
          short,    \* [Callers -> BOOLEAN]
          want,     \* [Callers -> Seq(request)] requests of the current exchange
          got,      \* [Callers -> Seq(reply)]  replies read so far
          res,      \* result of the exchange that returned last: [c, want, got, err] (output only)
          nshort

vars == <<idle, nconn, open, pend, stream, pc, ex, cur, short, want, got, res, nshort>>

Init == /\ idle = <<>> /\ nconn = 0
        /\ open = [x \in Conns |-> FALSE]
        /\ pend = [x \in Conns |-> <<>>] /\ stream = [x \in Conns |-> <<>>]
        /\ pc = [c \in Callers |-> "idle"] /\ ex = [c \in Callers |-> 1]
        /\ cur = [c \in Callers |-> 0] /\ short = [c \in Callers |-> FALSE]
        /\ want = [c \in Callers |-> <<>>] /\ got = [c \in Callers |-> <<>>]
        /\ res = [c |-> "", want |-> <<>>, got |-> <<>>, err |-> FALSE] /\ nshort = 0

Finish(c) == /\ pc' = [pc EXCEPT ![c] = IF ex[c] = NEx THEN "done" ELSE "idle"]
             /\ ex' = [ex EXCEPT ![c] = @ + 1]
             /\ cur' = [cur EXCEPT ![c] = 0]
             /\ want' = [want EXCEPT ![c] = <<>>] /\ got' = [got EXCEPT ![c] = <<>>]
             /\ short' = [short EXCEPT ![c] = FALSE]

\* Put: push when there is room, otherwise close
PutIdle(x)  == IF Len(idle) < MaxIdle THEN Append(idle, x) ELSE idle
PutOpen(x)  == IF Len(idle) < MaxIdle THEN open ELSE [open EXCEPT ![x] = FALSE]

Start(c, sh, n) ==
  /\ pc[c] = "idle" /\ ex[c] <= NEx
  /\ sh => nshort < MaxShort
  /\ LET reuse == idle # <<>>
         x == IF reuse THEN idle[Len(idle)] ELSE nconn + 1
         reqs == [i \in 1..n |-> Req(c, ex[c], i)]
     IN /\ reuse \/ nconn < MaxConns
        /\ idle' = IF reuse THEN SubSeq(idle, 1, Len(idle) - 1) ELSE idle
        /\ nconn' = IF reuse THEN nconn ELSE nconn + 1
        /\ open' = [open EXCEPT ![x] = TRUE]
        /\ pend' = [pend EXCEPT ![x] = @ \o reqs]
        /\ cur' = [cur EXCEPT ![c] = x]
        /\ want' = [want EXCEPT ![c] = reqs]
  /\ got' = [got EXCEPT ![c] = <<>>]
  /\ short' = [short EXCEPT ![c] = sh]
  /\ nshort' = IF sh THEN nshort + 1 ELSE nshort
  /\ pc' = [pc EXCEPT ![c] = "wait"]
  /\ UNCHANGED <<stream, ex, res>>

\* the caller that is waiting for request r on connection x (if any)
Waiter(x, r) == {c \in Callers : pc[c] = "wait" /\ cur[c] = x /\ \E i \in 1..Len(want[c]) : want[c][i] = r}

\* the callers blocked in a read on connection x (at most one, see Exclusive)
Readers(x) == {c \in Callers : pc[c] = "wait" /\ cur[c] = x}

\* c takes reply r off its connection; after the last one of the exchange: Put and return
Take(c, r) ==
  LET x == cur[c]
      g == Append(got[c], r)
  IN IF Len(g) = Len(want[c])
     THEN /\ res' = [c |-> c, want |-> want[c], got |-> g, err |-> FALSE]
          /\ idle' = PutIdle(x) /\ open' = PutOpen(x)
          /\ Finish(c)
     ELSE /\ got' = [got EXCEPT ![c] = g]
          /\ UNCHANGED <<res, idle, open, pc, ex, cur, want, short>>

\* The server answers the oldest unanswered request of connection x.  A caller blocked in a read on x gets
\* the reply in the same step (it cannot be held back from outside); otherwise the reply stays in the stream.
\* A short-deadline caller never gets its LAST reply in time (it is the one that times out).
Reply(x) ==
  /\ pend[x] # <<>>
  /\ LET r == Head(pend[x]) IN
     /\ \A c \in Readers(x) : (short[c] /\ r \in {want[c][i] : i \in 1..Len(want[c])}) => r # want[c][Len(want[c])]
     /\ IF open[x] /\ Readers(x) # {} /\ stream[x] = <<>>
        THEN /\ Take(CHOOSE c \in Readers(x) : TRUE, r) /\ UNCHANGED stream
        ELSE /\ stream' = IF open[x] THEN [stream EXCEPT ![x] = Append(@, r)] ELSE stream   \* closed: the write fails
             /\ UNCHANGED <<idle, open, pc, ex, cur, short, want, got, res>>
  /\ pend' = [pend EXCEPT ![x] = Tail(@)]
  /\ UNCHANGED <<nconn, nshort>>

\* c finds an unread reply on its connection (only possible when a connection was pooled uncleanly)
Read(c) ==
  /\ pc[c] = "wait" /\ stream[cur[c]] # <<>>
  /\ stream' = [stream EXCEPT ![cur[c]] = Tail(@)]
  /\ Take(c, Head(stream[cur[c]]))
  /\ UNCHANGED <<nconn, pend, nshort>>

Timeout(c) ==
  /\ pc[c] = "wait" /\ short[c] /\ stream[cur[c]] = <<>>
  /\ res' = [c |-> c, want |-> want[c], got |-> got[c], err |-> TRUE]
  /\ IF "PutOnTimeout" \in Defects
     THEN idle' = PutIdle(cur[c]) /\ open' = PutOpen(cur[c]) /\ UNCHANGED pend
     ELSE /\ idle' = idle /\ open' = [open EXCEPT ![cur[c]] = FALSE]        \* Discard
          /\ pend' = [pend EXCEPT ![cur[c]] = <<>>]    \* the server still answers them: into a closed socket
  /\ Finish(c)
  /\ UNCHANGED <<nconn, stream, nshort>>

Next == \/ \E c \in Callers : \/ \E sh \in BOOLEAN, n \in Batch : Start(c, sh, n)
                              \/ Read(c) \/ Timeout(c)
        \/ \E x \in Conns : Reply(x)

Spec == Init /\ [][Next]_vars

\* ---- properties --------------------------------------------------------------------------
InIdle(x) == \E i \in 1..Len(idle) : idle[i] = x
\* a pooled connection has no unanswered request and no unread reply
PoolClean == \A x \in Conns : InIdle(x) => open[x] /\ pend[x] = <<>> /\ stream[x] = <<>>
\* C28: every exchange that returns without error returns the replies to its own requests, in request order
OwnReply == [][res'.err \/ res'.got = res'.want]_vars
\* whatever an exchange read, even one that failed later, were replies to its own requests, in order
OwnPrefix == [][res'.got = SubSeq(res'.want, 1, Len(res'.got))]_vars
\* a connection is used by one exchange at a time and is not pooled while in use
Exclusive == \A c, d \in Callers : (c # d /\ pc[c] = "wait" /\ pc[d] = "wait") => cur[c] # cur[d]
NotPooledInUse == \A c \in Callers : pc[c] = "wait" => ~InIdle(cur[c])
IdleBound == Len(idle) <= MaxIdle
=============================================================================
