SPECIFICATION TSpec
CONSTANTS
  Callers = {"c1", "c2", "c3", "c4"}
  NEx = 9
  Batch = {1, 2, 3}
  MaxIdle = 1
  MaxConns = 8
  MaxShort = 99
  Defects = {}
  RankOf <- Ranks
CHECK_DEADLOCK FALSE
INVARIANTS PoolClean Exclusive NotPooledInUse IdleBound
