---- MODULE MC_ConnPool ----
EXTENDS ConnPool
Ranks == [c \in Callers |-> IF c = "c1" THEN 1 ELSE IF c = "c2" THEN 2 ELSE IF c = "c3" THEN 3 ELSE 4]
View == <<idle, nconn, open, pend, stream, pc, ex, cur, short, want, got, nshort>>
====
