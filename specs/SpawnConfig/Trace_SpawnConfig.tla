---- MODULE Trace_SpawnConfig ----
(* Conformance for C37: for the configuration of every recorded line the transcription   *)
(* (SpawnConfig.tla) must predict what the local PID runs with (ConfigPID), the record    *)
(* that went over the wire (ToSerialize, relocation path) and what the copy runs with     *)
(* (WireSpawnOptions / RemoteSpawnHandler).  A difference is drift, printed as            *)
(* <<"DRIFT", line, what>>; it is not a property verdict.                                 *)
EXTENDS SpawnConfig, Json
Trace == ndJsonDeserialize("trace.ndjson")
VARIABLE l

Rep(tag, cond) == IF cond THEN TRUE ELSE PrintT(<<"DRIFT", l, tag>>)
Pairs(f) == {<<t, f[t]>> : t \in DOMAIN f}

ObsMatches(p, o) ==
  /\ o.sup.set /\ o.sup.strategy = p.sup.strategy
  /\ o.sup.maxRetries = p.sup.maxRetries /\ o.sup.timeout = p.sup.timeout
  /\ o.sup.initial = p.sup.initial /\ o.sup.maxDelay = p.sup.maxDelay /\ o.sup.reset = p.sup.reset
  /\ Range(o.sup.rules) = Pairs(p.sup.rules)
  /\ o.pass = p.pass
  /\ o.msgCountFast = (p.pass.kind = "MessagesCountBased")
  /\ IF p.reent = Absent THEN ~o.reent.set
     ELSE o.reent.set /\ o.reent.mode = p.reent.mode /\ o.reent.max = p.reent.max
  /\ o.stash = p.stash
  /\ o.role = p.role
  /\ Range(o.deps) = p.deps
  /\ o.initTimeout = p.initTimeout
  /\ o.relocatable = p.relocatable

WireMatches(w, v) ==
  /\ v.relocatable = w.relocatable
  /\ v.pass = w.pass
  /\ Range(v.deps) = w.deps
  /\ v.enable_stash = w.enable_stash
  /\ v.role = w.role
  /\ v.supervisor.set /\ v.supervisor.strategy = w.supervisor.strategy
  /\ v.supervisor.max_retries = w.supervisor.max_retries
  /\ v.supervisor.timeoutSet /\ v.supervisor.timeout = w.supervisor.timeout
  /\ v.supervisor.any = w.supervisor.any
  /\ Range(v.supervisor.directives) = Pairs(w.supervisor.directives)
  /\ IF w.reentrancy = Absent THEN ~v.reentrancy.set
     ELSE v.reentrancy.set /\ v.reentrancy.mode = w.reentrancy.mode /\ v.reentrancy.max_in_flight = w.reentrancy.max_in_flight
  /\ v.init_timeout = w.init_timeout

Conf(e) ==
  LET o == OptionsOf(e.cfg) IN
  /\ Rep("local", ObsMatches(IF e.path = "child" THEN LocalChild(o) ELSE Local(o), e.local))
  /\ e.err = "" =>
       CASE e.path = "relocate" -> /\ Rep("wire", WireMatches(ToSerialize(Local(o)), e.wire))
                                   /\ Rep("relocated", ObsMatches(Relocated(o), e.copy))
         [] e.path = "remote"   -> Rep("remote", ObsMatches(Remote(o), e.copy))
         [] e.path = "child"    -> Rep("child", ObsMatches(RemoteChild(o), e.copy))

Init == l = 1
Step == /\ l <= Len(Trace)
        /\ l' = l + 1
        /\ Conf(Trace[l])
Spec == Init /\ [][Step]_l
====
