---- MODULE Trace_SpawnConfigAbs ----
(* Property monitor for C37 on recorded executions of the REAL goakt code.  It knows      *)
(* nothing about the codec: a line carries what the locally spawned PID runs with         *)
(* ("local") and what its copy runs with after the configuration travelled over the wire  *)
(* ("copy": relocated through toSerialize/wireSpawnOptions, or spawned remotely through   *)
(* RemoteSpawn/remoteSpawnHandler).  The relation is the identity on every observable     *)
(* component.  Every line is consumed; a differing component is printed as                *)
(* <<"MISMATCH", line, component>>.                                                       *)
EXTENDS Integers, Sequences, TLC, Json
Trace == ndJsonDeserialize("trace.ndjson")
VARIABLE l

Rep(tag, cond) == IF cond THEN TRUE ELSE PrintT(<<"MISMATCH", l, tag>>)
Range(s) == {s[i] : i \in 1..Len(s)}

Check(e) ==
  /\ Rep("error", e.err = "")
  /\ e.err = "" =>
     LET a == e.local
         b == e.copy IN
     /\ Rep("sup.strategy", b.sup.set = a.sup.set /\ b.sup.strategy = a.sup.strategy)
     /\ Rep("sup.retry", b.sup.maxRetries = a.sup.maxRetries /\ b.sup.timeout = a.sup.timeout)
     /\ Rep("sup.backoff", b.sup.initial = a.sup.initial /\ b.sup.maxDelay = a.sup.maxDelay /\ b.sup.reset = a.sup.reset)
     /\ Rep("sup.directives", Range(b.sup.rules) = Range(a.sup.rules))
     /\ Rep("passivation", b.pass = a.pass /\ b.msgCountFast = a.msgCountFast)
     /\ Rep("reentrancy", b.reent = a.reent)
     /\ Rep("stash", b.stash = a.stash)
     /\ Rep("role", b.role = a.role)
     /\ Rep("dependencies", Range(b.depsPayload) = Range(a.depsPayload))
     /\ Rep("initTimeout", b.initTimeout = a.initTimeout /\ b.effInit = a.effInit)
     /\ Rep("relocatable", b.relocatable = a.relocatable)

Init == l = 1
Step == /\ l <= Len(Trace)
        /\ l' = l + 1
        /\ Check(Trace[l])
Spec == Init /\ [][Step]_l
====
