---- MODULE MC_SpawnConfig ----
(* Domains for Gen_SpawnConfig.  Q_* = quick tier, T_* = thorough tier.                    *)
EXTENDS Gen_SpawnConfig

NoSup == [set |-> FALSE, strategy |-> "OneForOne", rules |-> [kind |-> "default", d |-> "Stop", m |-> <<>>],
          retry |-> NoRetry, backoff |-> NoBackoff]
Sup(st, rules, retry, backoff) == [set |-> TRUE, strategy |-> st, rules |-> rules, retry |-> retry, backoff |-> backoff]
RDefault  == [kind |-> "default", d |-> "Stop", m |-> <<>>]
RAny(d)   == [kind |-> "any", d |-> d, m |-> <<>>]
RTyped(m) == [kind |-> "typed", d |-> "Stop", m |-> m]
Retry(n, t)      == [set |-> TRUE, max |-> n, timeout |-> t]
Backoff(i, m, r) == [set |-> TRUE, initial |-> i, max |-> m, reset |-> r]

Q_Rules   == {RAny("Resume"),
              RTyped(<< <<"ErrA", "Resume">>, <<"ErrB", "Escalate">>, <<"PanicError", "Restart">> >>)}
Q_Retries == {NoRetry, Retry(3, 1000), Retry(0, 500)}
Q_Backoff == {NoBackoff, Backoff(100, 1000, 5000)}
Q_Sup     == {NoSup} \cup {Sup(st, r, rt, b) : st \in Strategies, r \in Q_Rules, rt \in Q_Retries, b \in Q_Backoff}
Q_Pass    == {NoPass, TimeBased(30000), CountBased(10), LongLived}
NoReent   == [set |-> FALSE, mode |-> "Off", max |-> 0]
Reent(m, n) == [set |-> TRUE, mode |-> m, max |-> n]
Q_Reent   == {NoReent, Reent("AllowAll", 0), Reent("StashNonReentrant", 4)}
Q_Role    == {[set |-> FALSE, v |-> ""], [set |-> TRUE, v |-> "payments"]}
Q_Deps    == {<<>>, <<"d1", "d2">>}
Q_Init    == {0, 3000}

T_Rules   == Q_Rules \cup {RDefault, RAny("Escalate"), RTyped(<< <<"PanicNilError", "Stop">>, <<"ErrB", "Stop">> >>)}
T_Retries == Q_Retries \cup {Retry(2, 0)}
T_Backoff == Q_Backoff \cup {Backoff(200, 100, 0)}      \* normalised by WithExponentialBackoff to 200/200/200
T_Sup     == {NoSup} \cup {Sup(st, r, rt, b) : st \in Strategies, r \in T_Rules, rt \in T_Retries, b \in T_Backoff}
T_Pass    == {NoPass, TimeBased(3600000), CountBased(1000000), LongLived}   \* never due while a case runs
T_Reent   == {NoReent, Reent("Off", 3), Reent("AllowAll", 7)}
T_Role    == Q_Role \cup {[set |-> TRUE, v |-> ""]}
T_Deps    == {<<>>, <<"d1">>}
T_Init    == {0, 60000}
====
