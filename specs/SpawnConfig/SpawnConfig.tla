---- MODULE SpawnConfig ----
(* C37 -- spawn configuration survives the wire.                                          *)
(*                                                                                        *)
(* The configuration domain is a product of small sets; the operators below are shaped    *)
(* like the goakt code that carries a configuration from one node to another:             *)
(*   NewSupervisor / WithRetry / WithExponentialBackoff / WithAnyErrorDirective           *)
(*                                   supervisor/supervisor.go                              *)
(*   ConfigPID                       actor/actor_system.go configPID (options -> PID)      *)
(*   Encode*/Decode*                 internal/codec/codec.go                               *)
(*   ToSerialize                     actor/pid.go toSerialize       (relocation: encode)   *)
(*   WireSpawnOptions                actor/spawn.go wireSpawnOptions (relocation: decode)  *)
(*   RemoteSpawnRequest              internal/remoteclient RemoteSpawn (remote: encode)    *)
(*   RemoteSpawnHandler              actor/remote_server.go remoteSpawnHandler (decode)    *)
(*   ChildPID, RemoteSpawnChild*     actor/pid.go buildChildOptions / spawnChildRemote,    *)
(*                                   actor/remote_server.go remoteSpawnChildHandler        *)
(* Durations are milliseconds; -1 is the supervisor's "no retry window" sentinel (-1ns).   *)
(*                                                                                        *)
(* Defects = {} is the repaired design.  "BackoffNotOnWire" \in Defects is the code as    *)
(* found: SupervisorSpec has no field for the exponential backoff of a supervisor, so     *)
(* EncodeSupervisor drops it and the copy restarts without backoff.                       *)
EXTENDS Integers, Sequences, FiniteSets, TLC

CONSTANTS Defects

None == "none"                 \* absent string-valued field (role, any-error directive)
Absent == [absent |-> TRUE]    \* absent record-valued field (supervisor, reentrancy)
NoPass == [kind |-> "none", ms |-> 0, n |-> 0]   \* nil passivation strategy
Directives == {"Stop", "Resume", "Restart", "Escalate"}
Strategies == {"OneForOne", "OneForAll"}
Modes      == {"Off", "AllowAll", "StashNonReentrant"}
AnyError   == "AnyError"
DefaultRules == [t \in {"PanicError", "PanicNilError"} |-> IF t = "PanicError" THEN "Stop" ELSE "Restart"]
DefaultPassivationMs == 120000

(* ------------------------------------------------------------------ supervisor -------- *)
NoRetry   == [set |-> FALSE, max |-> 0, timeout |-> 0]
NoBackoff == [set |-> FALSE, initial |-> 0, max |-> 0, reset |-> 0]
(* rules choice: [kind |-> "default"] | [kind |-> "any", d |-> dir] | [kind |-> "typed", m |-> function] *)

(* supervisor.NewSupervisor(WithStrategy, WithDirective.., WithRetry, WithExponentialBackoff, WithAnyErrorDirective) *)
NewSupervisor(strategy, rules, retry, backoff) ==
  LET boff == IF ~backoff.set \/ backoff.initial <= 0 THEN [initial |-> 0, max |-> 0, reset |-> 0]
              ELSE LET mx == IF backoff.max < backoff.initial THEN backoff.initial ELSE backoff.max IN
                   [initial |-> backoff.initial, max |-> mx, reset |-> IF backoff.reset <= 0 THEN mx ELSE backoff.reset]
  IN [strategy   |-> strategy,
      maxRetries |-> IF retry.set THEN retry.max ELSE 0,
      timeout    |-> IF retry.set THEN retry.timeout ELSE -1,
      initial    |-> boff.initial, maxDelay |-> boff.max, reset |-> boff.reset,
      rules      |-> CASE rules.kind = "any"   -> (AnyError :> rules.d)
                       [] rules.kind = "typed" -> rules.m @@ DefaultRules
                       [] OTHER                -> DefaultRules]
DefaultSupervisor == NewSupervisor("OneForOne", [kind |-> "default"], NoRetry, NoBackoff)

(* codec.EncodeSupervisor *)
EncodeSupervisor(s) ==
  [strategy |-> s.strategy, max_retries |-> s.maxRetries, timeout |-> s.timeout,
   any |-> IF AnyError \in DOMAIN s.rules THEN s.rules[AnyError] ELSE None,
   directives |-> IF AnyError \in DOMAIN s.rules THEN <<>> ELSE s.rules,
   backoff |-> IF "BackoffNotOnWire" \in Defects THEN [initial |-> 0, max |-> 0, reset |-> 0]
               ELSE [initial |-> s.initial, max |-> s.maxDelay, reset |-> s.reset]]
(* codec.DecodeSupervisor: the timeout field is always present on the wire (durationpb.New), so WithRetry is always applied *)
DecodeSupervisor(w) ==
  NewSupervisor(w.strategy,
                IF w.any # None THEN [kind |-> "any", d |-> w.any] ELSE [kind |-> "typed", m |-> w.directives],
                [set |-> TRUE, max |-> w.max_retries, timeout |-> w.timeout],
                [set |-> TRUE, initial |-> w.backoff.initial, max |-> w.backoff.max, reset |-> w.backoff.reset])

(* ------------------------------------------------------------------ passivation ------- *)
(* NoPass (nil) | TimeBased | MessagesCountBased | LongLived, as uniform records *)
TimeBased(ms) == [kind |-> "TimeBased", ms |-> ms, n |-> 0]
CountBased(n) == [kind |-> "MessagesCountBased", ms |-> 0, n |-> n]
LongLived     == [kind |-> "LongLived", ms |-> 0, n |-> 0]
EncodePassivation(p) == p      \* one wire arm per strategy kind, nil for nil
DecodePassivation(w) == w

(* ------------------------------------------------------------------ reentrancy -------- *)
Reentrancy(mode, max) == [mode |-> mode, max |-> IF max <= 0 THEN 0 ELSE max]   \* reentrancy.New + WithMaxInFlight
EncodeReentrancy(r) == [mode |-> r.mode, max_in_flight |-> IF r.max <= 0 THEN 0 ELSE r.max]
DecodeReentrancy(w) == Reentrancy(w.mode, w.max_in_flight)

(* ------------------------------------------------------------------ options and PID ---- *)
(* spawn options: sup = Absent | supervisor; pass = NoPass | strategy; reent = Absent | reentrancy; *)
(* role = None | string (possibly ""); deps = set of dependency ids; initTimeout = 0 (unset) | ms *)
Options(sup, pass, reent, stash, role, deps, initTimeout, relocatable) ==
  [sup |-> sup, pass |-> pass, reent |-> reent, stash |-> stash, role |-> role, deps |-> deps,
   initTimeout |-> IF initTimeout > 0 THEN initTimeout ELSE 0, relocatable |-> relocatable]

(* actorSystem.configPID: what the PID ends up with *)
ConfigPID(o) ==
  [sup   |-> IF o.sup = Absent THEN DefaultSupervisor ELSE o.sup,
   pass  |-> IF o.pass = NoPass THEN TimeBased(DefaultPassivationMs) ELSE o.pass,
   reent |-> o.reent,
   stash |-> o.stash,
   role  |-> IF o.role = None \/ o.role = "" THEN None ELSE o.role,
   deps  |-> o.deps,
   initTimeout |-> o.initTimeout,
   relocatable |-> o.relocatable]

(* PID.toSerialize: the record published for an actor (the supervisor is always explicit) *)
ToSerialize(pid) ==
  [relocatable |-> pid.relocatable,
   pass        |-> EncodePassivation(pid.pass),
   deps        |-> pid.deps,
   enable_stash |-> pid.stash,
   role        |-> IF pid.role = None THEN "" ELSE pid.role,
   supervisor  |-> EncodeSupervisor(pid.sup),
   reentrancy  |-> IF pid.reent = Absent THEN Absent ELSE EncodeReentrancy(pid.reent),
   init_timeout |-> pid.initTimeout]     \* 0 = field absent

(* actorSystem.wireSpawnOptions: relocatable is not carried (only relocatable actors are recreated) *)
WireSpawnOptions(w) ==
  Options(IF w.supervisor = Absent THEN Absent ELSE DecodeSupervisor(w.supervisor),
          DecodePassivation(w.pass),
          IF w.reentrancy = Absent THEN Absent ELSE DecodeReentrancy(w.reentrancy),
          w.enable_stash,
          IF w.role # "" THEN w.role ELSE None,
          w.deps,
          w.init_timeout,
          TRUE)

(* remoteclient.RemoteSpawn: built from the spawn options, not from a PID *)
RemoteSpawnRequest(o) ==
  [relocatable |-> o.relocatable,
   pass        |-> EncodePassivation(o.pass),
   deps        |-> o.deps,
   enable_stash |-> o.stash,
   role        |-> IF o.role = None THEN "" ELSE o.role,
   supervisor  |-> IF o.sup = Absent THEN Absent ELSE EncodeSupervisor(o.sup),
   reentrancy  |-> IF o.reent = Absent THEN Absent ELSE EncodeReentrancy(o.reent),
   init_timeout |-> IF o.initTimeout > 0 THEN o.initTimeout ELSE 0]

(* actorSystem.remoteSpawnHandler (non-singleton branch) *)
RemoteSpawnHandler(w) ==
  Options(IF w.supervisor = Absent THEN Absent ELSE DecodeSupervisor(w.supervisor),
          DecodePassivation(w.pass),
          IF w.reentrancy = Absent THEN Absent ELSE DecodeReentrancy(w.reentrancy),
          w.enable_stash,
          IF w.role # "" THEN w.role ELSE None,
          w.deps,
          w.init_timeout,
          w.relocatable)

(* ------------------------------------------------------------------ remote child spawn -- *)
(* PID.buildChildOptions + newPID: what a CHILD ends up with (role and reentrancy are not   *)
(* applied to children, children are never relocatable; newPID supplies the defaults)       *)
ChildPID(o) ==
  [sup   |-> IF o.sup = Absent THEN DefaultSupervisor ELSE o.sup,
   pass  |-> IF o.pass = NoPass THEN TimeBased(DefaultPassivationMs) ELSE o.pass,
   reent |-> Absent,
   stash |-> o.stash,
   role  |-> None,
   deps  |-> o.deps,
   initTimeout |-> o.initTimeout,
   relocatable |-> FALSE]

(* PID.spawnChildRemote + remoteclient.RemoteSpawnChild: the config is cloned with relocation disabled; no role field *)
RemoteSpawnChildRequest(o) ==
  [relocatable |-> FALSE,
   pass        |-> EncodePassivation(o.pass),
   deps        |-> o.deps,
   enable_stash |-> o.stash,
   supervisor  |-> IF o.sup = Absent THEN Absent ELSE EncodeSupervisor(o.sup),
   reentrancy  |-> IF o.reent = Absent THEN Absent ELSE EncodeReentrancy(o.reent),
   init_timeout |-> IF o.initTimeout > 0 THEN o.initTimeout ELSE 0]

(* actorSystem.remoteSpawnChildHandler -> parent.SpawnChild *)
RemoteSpawnChildHandler(w) ==
  Options(IF w.supervisor = Absent THEN Absent ELSE DecodeSupervisor(w.supervisor),
          DecodePassivation(w.pass),
          IF w.reentrancy = Absent THEN Absent ELSE DecodeReentrancy(w.reentrancy),
          w.enable_stash,
          None,
          w.deps,
          w.init_timeout,
          w.relocatable)

(* ------------------------------------------------------------------ user configuration *)
(* a configuration as the user writes it (uniform records, JSON friendly):                *)
(*  sup   = [set, strategy, rules |-> [kind, d, m (sequence of <<type, directive>>)], retry, backoff] *)
(*  pass  = [kind |-> "none" | "TimeBased" | "MessagesCountBased" | "LongLived", ms, n]    *)
(*  reent = [set, mode, max];  role = [set, v];  deps = sequence of ids                    *)
Range(s) == {s[i] : i \in 1..Len(s)}
RulesOf(r) == CASE r.kind = "any"   -> [kind |-> "any", d |-> r.d]
                [] r.kind = "typed" -> [kind |-> "typed", m |-> [t \in {p[1] : p \in Range(r.m)} |-> (CHOOSE p \in Range(r.m) : p[1] = t)[2]]]
                [] OTHER            -> [kind |-> "default"]
OptionsOf(cfg) ==
  Options(IF cfg.sup.set THEN NewSupervisor(cfg.sup.strategy, RulesOf(cfg.sup.rules), cfg.sup.retry, cfg.sup.backoff) ELSE Absent,
          cfg.pass,
          IF cfg.reent.set THEN Reentrancy(cfg.reent.mode, cfg.reent.max) ELSE Absent,
          cfg.stash,
          IF cfg.role.set THEN cfg.role.v ELSE None,
          Range(cfg.deps),
          cfg.initTimeout,
          cfg.relocatable)

(* ------------------------------------------------------------------ the property ------ *)
Local(o)     == ConfigPID(o)
Relocated(o) == ConfigPID(WireSpawnOptions(ToSerialize(ConfigPID(o))))
Remote(o)    == ConfigPID(RemoteSpawnHandler(RemoteSpawnRequest(o)))
SurvivesRelocation(o)  == o.relocatable => Relocated(o) = Local(o)
SurvivesRemoteSpawn(o) == Remote(o) = Local(o)
LocalChild(o)  == ChildPID(o)
RemoteChild(o) == ChildPID(RemoteSpawnChildHandler(RemoteSpawnChildRequest(o)))
SurvivesRemoteChildSpawn(o) == RemoteChild(o) = LocalChild(o)
====
