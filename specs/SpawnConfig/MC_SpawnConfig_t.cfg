SPECIFICATION Spec
CONSTANTS
  Defects = {}
  SupChoices <- T_Sup
  PassChoices <- T_Pass
  ReentChoices <- T_Reent
  StashChoices = {TRUE, FALSE}
  RoleChoices <- T_Role
  DepChoices <- T_Deps
  InitChoices <- T_Init
  RelocChoices = {TRUE, FALSE}
CONSTRAINT Emit
INVARIANTS InvRelocation InvRemoteSpawn InvRemoteChild
CHECK_DEADLOCK FALSE
