SPECIFICATION Spec
CONSTANTS
  Defects = {}
  SupChoices <- Q_Sup
  PassChoices <- Q_Pass
  ReentChoices <- Q_Reent
  StashChoices = {TRUE, FALSE}
  RoleChoices <- Q_Role
  DepChoices <- Q_Deps
  InitChoices <- Q_Init
  RelocChoices = {TRUE, FALSE}
CONSTRAINT Emit
INVARIANTS InvRelocation InvRemoteSpawn InvRemoteChild
CHECK_DEADLOCK FALSE
