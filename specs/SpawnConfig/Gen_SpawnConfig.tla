---- MODULE Gen_SpawnConfig ----
(* Case generator and design-level check for C37: TLC enumerates the product of the       *)
(* configuration choices, checks on its transcription that the configuration survives     *)
(* both wire paths, and prints every configuration as JSON for the Go driver, which       *)
(* spawns real actors with it.                                                            *)
EXTENDS SpawnConfig, Json
CONSTANTS SupChoices, PassChoices, ReentChoices, StashChoices, RoleChoices, DepChoices, InitChoices, RelocChoices

VARIABLE c

Seed == [seed |-> TRUE]
Init == c = Seed
Pick == /\ c = Seed
        /\ \E sup \in SupChoices, pass \in PassChoices, reent \in ReentChoices, stash \in StashChoices,
              role \in RoleChoices, deps \in DepChoices, it \in InitChoices, reloc \in RelocChoices :
             c' = [sup |-> sup, pass |-> pass, reent |-> reent, stash |-> stash, role |-> role, deps |-> deps,
                   initTimeout |-> it, relocatable |-> reloc]
Next == Pick
Spec == Init /\ [][Next]_c

Emit == IF c = Seed THEN TRUE ELSE PrintT(<<"CASE", ToJson(c)>>)

InvRelocation  == c # Seed => SurvivesRelocation(OptionsOf(c))
InvRemoteSpawn == c # Seed => SurvivesRemoteSpawn(OptionsOf(c))
InvRemoteChild == c # Seed => SurvivesRemoteChildSpawn(OptionsOf(c))
====
