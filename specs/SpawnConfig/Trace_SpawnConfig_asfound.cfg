SPECIFICATION Spec
CONSTANTS
  Defects = {"BackoffNotOnWire"}
CHECK_DEADLOCK FALSE
