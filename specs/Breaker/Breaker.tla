------------------------------ MODULE Breaker ------------------------------
(* Transcription of /repo/breaker (breaker.go, bucket.go, state.go, options.go)   *)
(* with a fake clock.  Concrete part: state, openUntil, the rolling window as the *)
(* real ring (buf[0..NB-1] of {succ, fail, start}, cursor, lastUpdate, lazy       *)
(* advanceLocked / hardResetLocked), the half-open semaphore (len(semCh)).        *)
(* Abstract part (`aw`): the contract of a bucketed rolling window, without ring, *)
(* modulo or lazy resets: time is cut into buckets of BD ticks from an epoch, the *)
(* window is the latest NB buckets, the epoch realigns when the window is reset   *)
(* or when nothing was observed for a whole window.  C47 is stated on `aw`.       *)
(*                                                                                *)
(* Atomicity: Execute is split where the user function runs.  Begin(c) is         *)
(* ctx check + tryAcquire (+ toHalfOpen) up to the entry of fn; End(c, out) is    *)
(* the return of fn + record (+ toOpen / toClosed) + release.  The driver holds   *)
(* fn, so exactly these two segments interleave between callers on the real code. *)
(* With SplitAcquire = TRUE there is one more interleaving point, inside           *)
(* tryAcquire: between the test `clock() < openUntil` having failed and            *)
(* toHalfOpen() (hook "breaker.acquire.expired"): Begin parks the caller there     *)
(* (pc = "exp") and Resume(c) performs toHalfOpen + the select.                    *)
(* With SplitTransition = TRUE the opening transition of record() is two steps,    *)
(* as in the code: EndMid(c, out) = add + threshold decision + transitionTo(Open)  *)
(* up to its clock read (b.mu held, nothing stored yet: pc = "mid"), Finish(c) =   *)
(* openUntil.Store, state.Store, unlock, release.  While a caller is in the        *)
(* middle, steps of others that would block on b.mu are not generated (an End that *)
(* needs a transition, a stale Resume); everything else interleaves: in particular *)
(* a Begin of another caller reads the OLD state, so the rule "no admission while  *)
(* open and before openUntil" is exposed to the order of the two stores.           *)
(* Defects = {} is the repaired design (test and transition are one atomic step);  *)
(*   "StaleHalfOpen"  the code as it is: a resumed caller runs transitionTo(       *)
(*                    HalfOpen) on whatever the state is by then, although its     *)
(*                    test of openUntil is stale.                                  *)
EXTENDS Integers, Sequences, FiniteSets, TLC

CONSTANTS NB,        \* number of buckets (options.buckets)
          BD,        \* bucket duration in ticks (window / buckets)
          MinReq,    \* options.minRequests
          RateNum,   \* options.failureRate = RateNum / RateDen
          RateDen,
          OpenTO,    \* options.openTimeout in ticks
          HalfMax,   \* options.halfOpenMaxCalls = cap(semCh)
          Callers,   \* logical caller threads
          Outcomes,  \* subset of {"ok","fail","cancel","deadline","panic"}
          SplitAcquire, \* BOOLEAN: model the interleaving point inside tryAcquire
          SplitTransition, \* BOOLEAN: model transitionTo(Open) as two steps (clock read under b.mu | stores)
          Defects    \* subset of {"StaleHalfOpen"}

VARIABLES state,      \* "closed" | "open" | "halfopen"
          openUntil,  \* tick at which Open ends
          win,        \* [buf : [0..NB-1 -> [succ, fail, start]], cursor, lu]
          sem,        \* len(semCh)
          now,        \* fake clock (ticks)
          pc,         \* [Callers -> {"idle","exp","in"}]  "in" = inside the user function, "exp" = parked before toHalfOpen
          tok,        \* [Callers -> BOOLEAN]         holds a half-open token
          aw,         \* abstract window [ep, cur, cnt]
          last        \* last operation and its result (output only)

vars == <<state, openUntil, win, sem, now, pc, tok, aw, last>>
core == <<state, openUntil, win, sem, now, pc, tok, aw>>

\* ------------------------------------------------------------------ bucket.go
Bucket0(t) == [succ |-> 0, fail |-> 0, start |-> t]

\* hardResetLocked(now)
HardReset(t) == [buf |-> [i \in 0..NB-1 |-> Bucket0(t)], cursor |-> 0, lu |-> t]

\* the loop `for range steps` of advanceLocked
RECURSIVE Rotate(_, _)
Rotate(w, k) ==
  IF k = 0 THEN w
  ELSE LET c  == (w.cursor + 1) % NB
           lu == w.lu + BD
       IN Rotate([buf |-> [w.buf EXCEPT ![c] = Bucket0(lu)], cursor |-> c, lu |-> lu], k - 1)

\* advanceLocked(now)
Advance(w, t) ==
  LET elapsed == t - w.lu IN
  IF elapsed < BD THEN w
  ELSE LET steps == elapsed \div BD IN
       IF steps >= NB THEN HardReset(t) ELSE Rotate(w, steps)

RECURSIVE SumF(_, _, _)
SumF(buf, i, f) == IF i = NB THEN 0 ELSE (IF f = "succ" THEN buf[i].succ ELSE buf[i].fail) + SumF(buf, i + 1, f)
\* totalsLocked
Succ(w) == SumF(w.buf, 0, "succ")
Fail(w) == SumF(w.buf, 0, "fail")

\* add(now, success) (the returned totals are Succ/Fail of the result)
Add(w, t, ok) ==
  LET a == Advance(w, t) IN
  IF ok THEN [a EXCEPT !.buf[a.cursor].succ = @ + 1]
        ELSE [a EXCEPT !.buf[a.cursor].fail = @ + 1]

\* ------------------------------------------------------- the abstract window
Zero == [succ |-> 0, fail |-> 0]
AReset(t) == [ep |-> t, cur |-> 0, cnt |-> [j \in (1 - NB)..0 |-> Zero]]
AIdx(a, t) == (t - a.ep) \div BD
\* look at the window at time t: slide to the bucket containing t, or realign
AObserve(a, t) ==
  LET i == AIdx(a, t) IN
  IF i - a.cur >= NB THEN AReset(t)
  ELSE [ep |-> a.ep, cur |-> i,
        cnt |-> [j \in (i - NB + 1)..i |-> IF j \in DOMAIN a.cnt THEN a.cnt[j] ELSE Zero]]
AAdd(a, t, ok) ==
  LET o == AObserve(a, t) IN
  IF ok THEN [o EXCEPT !.cnt[o.cur].succ = @ + 1] ELSE [o EXCEPT !.cnt[o.cur].fail = @ + 1]
RECURSIVE ASum(_, _, _, _)
ASum(cnt, j, hi, f) == IF j > hi THEN 0 ELSE (IF f = "succ" THEN cnt[j].succ ELSE cnt[j].fail) + ASum(cnt, j + 1, hi, f)
ASucc(a) == ASum(a.cnt, a.cur - NB + 1, a.cur, "succ")
AFail(a) == ASum(a.cnt, a.cur - NB + 1, a.cur, "fail")

\* the threshold rule of record()
Enough(s, f)  == s + f >= MinReq
Tripped(s, f) == Enough(s, f) /\ f * RateDen >= RateNum * (s + f)

\* ------------------------------------------------------------------ Init
Init == /\ state = "closed"
        /\ openUntil = 0
        /\ win = HardReset(0)
        /\ sem = 0
        /\ now = 0
        /\ pc = [c \in Callers |-> "idle"]
        /\ tok = [c \in Callers |-> FALSE]
        /\ aw = AReset(0)
        /\ last = [op |-> "Init", c |-> "", out |-> "", res |-> "", a |-> 0, b |-> 0]

\* ------------------------------------------------------------------ Execute
\* nobody is in the middle of a transition (holding b.mu)
NoMid == \A c \in Callers : pc[c] # "mid"

\* the select on semCh in tryAcquire
Select(c) ==
  IF sem < HalfMax
  THEN /\ sem' = sem + 1
       /\ tok' = [tok EXCEPT ![c] = TRUE]
       /\ pc'  = [pc EXCEPT ![c] = "in"]
       /\ last' = [op |-> "Begin", c |-> c, out |-> "", res |-> "admitted", a |-> 0, b |-> 0]
  ELSE /\ UNCHANGED <<sem, tok>>
       /\ pc'  = [pc EXCEPT ![c] = "idle"]
       /\ last' = [op |-> "Begin", c |-> c, out |-> "", res |-> "rejected", a |-> 0, b |-> 0]

\* ctx.Err() == nil, tryAcquire up to the entry of fn, as one atomic step
BeginBody(c) ==
  CASE state = "closed" ->
         /\ pc' = [pc EXCEPT ![c] = "in"]
         /\ last' = [op |-> "Begin", c |-> c, out |-> "", res |-> "admitted", a |-> 0, b |-> 0]
         /\ UNCHANGED <<state, openUntil, win, sem, tok, aw>>
    [] state = "open" /\ now < openUntil ->
         /\ pc' = [pc EXCEPT ![c] = "idle"]
         /\ last' = [op |-> "Begin", c |-> c, out |-> "", res |-> "rejected", a |-> 0, b |-> 0]
         /\ UNCHANGED <<state, openUntil, win, sem, tok, aw>>
    [] state = "open" /\ ~(now < openUntil) ->
         \* toHalfOpen: transitionTo(HalfOpen) resets the window, then the select
         /\ state' = "halfopen"
         /\ win' = HardReset(now)
         /\ aw' = AReset(now)
         /\ Select(c)
         /\ UNCHANGED openUntil
    [] state = "halfopen" ->
         /\ Select(c)
         /\ UNCHANGED <<state, openUntil, win, aw>>

\* Execute up to the entry of fn (or, with SplitAcquire, up to the hook before toHalfOpen)
Begin(c) ==
  /\ pc[c] = "idle"
  /\ IF SplitAcquire /\ state = "open" /\ ~(now < openUntil)
     THEN /\ pc' = [pc EXCEPT ![c] = "exp"]
          /\ last' = [op |-> "Park", c |-> c, out |-> "", res |-> "", a |-> 0, b |-> 0]
          /\ UNCHANGED <<state, openUntil, win, sem, tok, aw>>
     ELSE BeginBody(c)
  /\ UNCHANGED now

\* the caller parked before toHalfOpen continues: toHalfOpen() and the select
Resume(c) ==
  /\ pc[c] = "exp"
  /\ NoMid
  /\ IF "StaleHalfOpen" \in Defects
     THEN \* transitionTo(HalfOpen) as written: only "already half-open" stops it
          /\ IF state # "halfopen"
             THEN state' = "halfopen" /\ win' = HardReset(now) /\ aw' = AReset(now)
             ELSE UNCHANGED <<state, win, aw>>
          /\ Select(c)
          /\ UNCHANGED openUntil
     ELSE BeginBody(c)      \* repaired: the admission is decided on the state as it is now
  /\ UNCHANGED now

\* Execute with a context that is already done: nothing is touched
Pre(c) ==
  /\ pc[c] = "idle"
  /\ last' = [op |-> "Pre", c |-> c, out |-> "", res |-> "ctxdone", a |-> 0, b |-> 0]
  /\ UNCHANGED core

Records(out) == out # "cancel"      \* ctx.Err() == context.Canceled: neither trips nor heals

\* fn returns with outcome `out`; record(); deferred release()
\* what record() decides after the add: "open" (toOpen), "close" (toClosed) or "none"
Decision(w1) ==
  LET s == Succ(w1)
      f == Fail(w1)
  IN IF ~Enough(s, f) THEN "none"
     ELSE IF f * RateDen >= RateNum * (s + f) THEN "open"
     ELSE IF state = "halfopen" THEN "close" ELSE "none"

End(c, out) ==
  /\ pc[c] = "in"
  /\ pc' = [pc EXCEPT ![c] = "idle"]
  /\ IF tok[c] THEN sem' = sem - 1 /\ tok' = [tok EXCEPT ![c] = FALSE] ELSE UNCHANGED <<sem, tok>>
  /\ last' = [op |-> "End", c |-> c, out |-> out, res |-> "", a |-> 0, b |-> 0]
  /\ IF ~Records(out) THEN UNCHANGED <<state, openUntil, win, aw>>
     ELSE LET w1 == Add(win, now, out = "ok")
              a1 == AAdd(aw, now, out = "ok")
              d  == Decision(w1)
          IN \* a transition needs b.mu: not while another caller is in the middle of one (with SplitTransition the
             \* opening transition can also be taken in two steps, EndMid + Finish)
             /\ (d # "none" => NoMid)
             /\ CASE d = "none" -> win' = w1 /\ aw' = a1 /\ UNCHANGED <<state, openUntil>>
                  [] d = "open" ->
                       \* toOpen: no-op when already open (openUntil is not extended)
                       /\ win' = w1 /\ aw' = a1
                       /\ IF state = "open" THEN UNCHANGED <<state, openUntil>>
                          ELSE state' = "open" /\ openUntil' = now + OpenTO
                  [] d = "close" ->
                       \* toClosed: the window is reset after the add
                       /\ state' = "closed" /\ win' = HardReset(now) /\ aw' = AReset(now)
                       /\ UNCHANGED openUntil
  /\ UNCHANGED now

\* record() up to the clock read inside transitionTo(Open): the outcome is in the window, b.mu is held,
\* neither openUntil nor the state is stored yet
EndMid(c, out) ==
  /\ SplitTransition /\ NoMid
  /\ pc[c] = "in" /\ Records(out)
  /\ LET w1 == Add(win, now, out = "ok") IN
     /\ Decision(w1) = "open" /\ state # "open"
     /\ win' = w1 /\ aw' = AAdd(aw, now, out = "ok")
  /\ pc' = [pc EXCEPT ![c] = "mid"]
  /\ last' = [op |-> "EndMid", c |-> c, out |-> out, res |-> "", a |-> 0, b |-> 0]
  /\ UNCHANGED <<state, openUntil, sem, tok, now>>

\* openUntil.Store(clock + openTimeout); state.Store(Open); unlock; deferred release()
Finish(c) ==
  /\ pc[c] = "mid"
  /\ state' = "open" /\ openUntil' = now + OpenTO
  /\ pc' = [pc EXCEPT ![c] = "idle"]
  /\ IF tok[c] THEN sem' = sem - 1 /\ tok' = [tok EXCEPT ![c] = FALSE] ELSE UNCHANGED <<sem, tok>>
  /\ last' = [op |-> "EndFin", c |-> c, out |-> "", res |-> "", a |-> 0, b |-> 0]
  /\ UNCHANGED <<win, aw, now>>

\* Metrics(): snapshot() advances the window as a side effect
MetricsOp ==
  /\ win' = Advance(win, now)
  /\ aw'  = AObserve(aw, now)
  /\ last' = [op |-> "Metrics", c |-> "", out |-> "", res |-> state, a |-> Succ(win'), b |-> Fail(win')]
  /\ UNCHANGED <<state, openUntil, sem, now, pc, tok>>

Tick ==
  /\ now' = now + 1
  /\ last' = [op |-> "Tick", c |-> "", out |-> "", res |-> "", a |-> 0, b |-> 0]
  /\ UNCHANGED <<state, openUntil, win, sem, pc, tok, aw>>

Next == \/ \E c \in Callers : Begin(c) \/ Pre(c) \/ Resume(c)
        \/ \E c \in Callers, o \in Outcomes : End(c, o) \/ EndMid(c, o)
        \/ \E c \in Callers : Finish(c)
        \/ MetricsOp \/ Tick

Spec == Init /\ [][Next]_vars

\* ------------------------------------------------------------------ properties
States == {"closed", "open", "halfopen"}

TypeOK == /\ state \in States
          /\ win.cursor \in 0..NB-1
          /\ sem \in 0..HalfMax
          /\ \A c \in Callers : pc[c] \in {"idle", "exp", "in", "mid"} /\ (tok[c] => pc[c] \in {"in", "mid"})

\* C47(c): the semaphore counts exactly the callers holding a token, never more than HalfMax
SemInv == sem = Cardinality({c \in Callers : tok[c]}) /\ sem <= HalfMax

\* the ring implements the abstract bucketed window: same totals now, and bucket by bucket
RingRefines ==
  LET w == Advance(win, now)
      a == AObserve(aw, now)
  IN /\ Succ(w) = ASucc(a) /\ Fail(w) = AFail(a)
     /\ \A k \in 0..NB-1 :
          LET b == w.buf[(w.cursor + NB - k) % NB] IN
          b.succ = a.cnt[a.cur - k].succ /\ b.fail = a.cnt[a.cur - k].fail
     /\ w.lu = a.ep + a.cur * BD

\* C47(a): a recorded outcome opens the breaker exactly when the abstract windowed totals
\* (after the outcome) reach the threshold with at least MinReq samples; it closes a
\* half-open breaker exactly when there are enough samples below the threshold;
\* anything else leaves the state alone.
RecordRule ==
  [][(last'.op = "End") =>
        IF ~Records(last'.out) THEN state' = state
        ELSE LET a1 == AAdd(aw, now, last'.out = "ok")
                 s == ASucc(a1)
                 f == AFail(a1)
             IN /\ (state' = "open" /\ state # "open") <=> (Tripped(s, f) /\ state # "open")
                /\ (state' = "closed" /\ state # "closed") <=> (state = "halfopen" /\ Enough(s, f) /\ ~Tripped(s, f))
                /\ (state' # state /\ state' = "open") => openUntil' = now + OpenTO
                /\ state' = state => openUntil' = openUntil]_vars

\* C47(b): while open and before openUntil every call is rejected and nothing changes;
\* the first call at/after openUntil moves to half-open with a fresh window
OpenRule ==
  [][(last'.op = "Begin" /\ state = "open") =>
        IF now < openUntil THEN /\ last'.res = "rejected" /\ state' = "open" /\ UNCHANGED <<win, sem, tok, openUntil>>
                                /\ pc' = [pc EXCEPT ![last'.c] = "idle"]
        ELSE state' = "halfopen" /\ ASucc(aw') + AFail(aw') = 0]_vars

\* C47(c): in half-open (including the transition) a call is admitted iff a token is free
ProbeRule ==
  [][(last'.op = "Begin" /\ state' = "halfopen") =>
        (last'.res = "admitted" <=> Cardinality({c \in Callers : tok[c]}) < HalfMax)]_vars

\* closed admits everything; only Begin/End change the state; states change only along the machine
ClosedRule == [][(last'.op = "Begin" /\ state = "closed") => last'.res = "admitted" /\ state' = "closed"]_vars
Machine == [][state' # state =>
                 \/ state = "closed"   /\ state' = "open"     /\ last'.op \in {"End", "EndFin"}
                 \/ state = "open"     /\ state' = "halfopen" /\ last'.op = "Begin"
                 \/ state = "halfopen" /\ state' \in {"open", "closed"} /\ last'.op \in {"End", "EndFin"}]_vars
\* the two halves of the opening transition: the first changes neither the state nor the deadline
MidRule == [][/\ (last'.op = "EndMid" => state' = state /\ openUntil' = openUntil)
              /\ (last'.op = "EndFin" => state' = "open" /\ openUntil' = now + OpenTO)]_vars
=============================================================================
