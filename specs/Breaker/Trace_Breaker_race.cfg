SPECIFICATION TSpec
CONSTANTS
  NB = 2
  BD = 2
  MinReq = 2
  RateNum = 1
  RateDen = 2
  OpenTO = 2
  HalfMax = 1
  Callers = {"c1", "c2", "c3"}
  Outcomes = {"ok", "fail", "cancel", "deadline", "panic"}
  SplitAcquire = TRUE
  SplitTransition = TRUE
  Defects = {"StaleHalfOpen"}
CHECK_DEADLOCK FALSE
INVARIANTS TypeOK SemInv RingRefines
