SPECIFICATION ESpec
CONSTANTS
  NB = 2
  BD = 2
  MinReq = 2
  RateNum = 1
  RateDen = 2
  OpenTO = 2
  HalfMax = 1
  Callers = {"c1"}
  Outcomes = {"ok", "fail"}
  SplitAcquire = TRUE
  SplitTransition = FALSE
  Defects = {"StaleHalfOpen"}
  MaxNow = 9
  MaxCount = 2
  Depth = 0
CONSTRAINT Bound
VIEW GView
