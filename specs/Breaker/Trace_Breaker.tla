---- MODULE Trace_Breaker ----
(* Conformance: the recorded execution of the real breaker must be a behaviour of the *)
(* transcription, step by step, including results and the projected internal state    *)
(* (state, openUntil, len(semCh), the ring: cursor, lastUpdate, every bucket).        *)
(* A rejection (TLC stops before the last line) is conformance drift, not a verdict.  *)
EXTENDS Breaker, Json
Trace == ndJsonDeserialize("trace.ndjson")
VARIABLE l
Shape(e) == /\ state' = e.st
            /\ openUntil' = e.ou
            /\ sem' = e.sem
            /\ now' = e.t
            /\ win'.cursor = e.cur
            /\ win'.lu = e.lu
            /\ \A i \in 0..NB-1 : /\ win'.buf[i].succ  = e.bk[3 * i + 1]
                                  /\ win'.buf[i].fail  = e.bk[3 * i + 2]
                                  /\ win'.buf[i].start = e.bk[3 * i + 3]
TNew == /\ state' = "closed" /\ openUntil' = 0 /\ win' = HardReset(0) /\ sem' = 0 /\ now' = 0
        /\ pc' = [c \in Callers |-> "idle"] /\ tok' = [c \in Callers |-> FALSE] /\ aw' = AReset(0)
        /\ last' = [op |-> "Init", c |-> "", out |-> "", res |-> "", a |-> 0, b |-> 0]
TStep ==
  /\ l <= Len(Trace)
  /\ l' = l + 1
  /\ LET e == Trace[l] IN
     \/ e.op = "New" /\ TNew
     \/ e.op = "Begin" /\ (Begin(e.c) \/ Resume(e.c)) /\ last'.op = "Begin" /\ last'.res = e.res /\ Shape(e)
     \/ e.op = "Park" /\ Begin(e.c) /\ last'.op = "Park" /\ Shape(e)
     \/ e.op = "Pre" /\ Pre(e.c) /\ last'.res = e.res /\ Shape(e)
     \/ e.op = "End" /\ End(e.c, e.out) /\ Shape(e)
     \/ e.op = "EndMid" /\ EndMid(e.c, e.out) /\ Shape(e)
     \/ e.op = "EndFin" /\ Finish(e.c) /\ Shape(e)
     \/ e.op = "Metrics" /\ MetricsOp /\ last'.a = e.a /\ last'.b = e.b /\ last'.res = e.mst /\ Shape(e)
     \/ e.op = "Tick" /\ Tick /\ Shape(e)
TInit == Init /\ l = 1
TSpec == TInit /\ [][TStep]_<<vars, l>>
====
