---- MODULE Gen_Breaker ----
(* Behaviour generators.  `hist` carries the operation records.                     *)
(* ESpec (exhaustive BFS, VIEW = core): every transition of the bounded state graph *)
(*   is printed once, as (a shortest history to its source state) + the operation:  *)
(*   transition cover of the whole bounded model, including deep states.            *)
(* GSpec + CONSTRAINT EmitT (-simulate -depth Depth+1): random walks of length      *)
(*   Depth, printed once when they reach that length.                               *)
EXTENDS Breaker, Json
CONSTANTS MaxNow, MaxCount, Depth
VARIABLE hist
Bound == now <= MaxNow /\ Succ(win) + Fail(win) <= MaxCount
GView == core
GInit == Init /\ hist = <<>>
\* compact encoding of an operation record: "B:c1:admitted" "K:c1" "P:c1" "E:c1:ok" "T" "M"
Enc(r) == CASE r.op = "Begin"   -> "B:" \o r.c \o ":" \o r.res
            [] r.op = "Park"    -> "K:" \o r.c
            [] r.op = "Pre"     -> "P:" \o r.c
            [] r.op = "End"     -> "E:" \o r.c \o ":" \o r.out
            [] r.op = "EndMid"  -> "X:" \o r.c \o ":" \o r.out
            [] r.op = "EndFin"  -> "F:" \o r.c
            [] r.op = "Tick"    -> "T"
            [] r.op = "Metrics" -> "M"
GNext == Next /\ hist' = Append(hist, Enc(last'))
GSpec == GInit /\ [][GNext]_<<vars, hist>>
ENext == GNext /\ PrintT(<<"BEHAVIOUR", ToJson(hist')>>)
ESpec == GInit /\ [][ENext]_<<vars, hist>>
EmitT == (Len(hist) # Depth) \/ PrintT(<<"BEHAVIOUR", ToJson(hist)>>)
====
