---- MODULE MC_Breaker ----
(* Exhaustive configurations of the breaker transcription: bounded clock and     *)
(* bounded number of samples in the window; `last` is output-only (VIEW).        *)
EXTENDS Breaker
CONSTANTS MaxNow, MaxCount
Bound == now <= MaxNow /\ Succ(win) + Fail(win) <= MaxCount
View == core
====
