SPECIFICATION ESpec
CONSTANTS
  NB = 3
  BD = 2
  MinReq = 3
  RateNum = 2
  RateDen = 3
  OpenTO = 3
  HalfMax = 2
  Callers = {"c1", "c2", "c3"}
  Outcomes = {"ok", "fail", "cancel"}
  SplitAcquire = FALSE
  SplitTransition = FALSE
  Defects = {}
  MaxNow = 7
  MaxCount = 3
  Depth = 0
CONSTRAINT Bound
VIEW GView
