SPECIFICATION GSpec
CONSTANTS
  NB = 3
  BD = 2
  MinReq = 3
  RateNum = 2
  RateDen = 3
  OpenTO = 3
  HalfMax = 2
  Callers = {"c1", "c2", "c3"}
  Outcomes = {"ok", "fail", "cancel", "deadline", "panic"}
  SplitAcquire = FALSE
  SplitTransition = FALSE
  Defects = {}
  MaxNow = 0
  MaxCount = 0
  Depth = 40
CONSTRAINT EmitT
