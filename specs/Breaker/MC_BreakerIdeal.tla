---- MODULE MC_BreakerIdeal ----
(* Window accuracy: the bucketed totals the breaker decides on are sandwiched between  *)
(* two ideal sliding windows over the recorded outcomes since the last window reset:   *)
(*   #{outcomes newer than W - BD}  <=  succ + fail  <=  #{outcomes newer than W}      *)
(* (W = NB * BD).  `evs` is a ghost: the outcomes recorded since the last reset that   *)
(* are younger than W, with their exact times.                                         *)
EXTENDS Breaker
CONSTANTS MaxNow, MaxCount
VARIABLE evs
W == NB * BD
Prune(s, t) == SelectSeq(s, LAMBDA e : e.t > t - W)
IInit == Init /\ evs = <<>>
INext == /\ Next
         /\ evs' = IF last'.op = "End" /\ Records(last'.out)
                   THEN IF state = "halfopen" /\ state' = "closed" THEN <<>>
                        ELSE Append(Prune(evs, now), [t |-> now, ok |-> last'.out = "ok"])
                   ELSE IF last'.op = "Begin" /\ state = "open" /\ state' = "halfopen" THEN <<>>
                   ELSE Prune(evs, now')
ISpec == IInit /\ [][INext]_<<vars, evs>>
Bound == now <= MaxNow /\ Succ(win) + Fail(win) <= MaxCount
IView == <<core, evs>>
Count(s, P(_)) == Len(SelectSeq(s, P))
Sandwich ==
  LET w   == Advance(win, now)
      tot == Succ(w) + Fail(w)
  IN /\ Count(evs, LAMBDA e : e.t >= now - W + BD) <= tot
     /\ tot <= Count(evs, LAMBDA e : e.t > now - W)
\* and the failures / successes separately
SandwichFail ==
  LET w == Advance(win, now)
  IN /\ Count(evs, LAMBDA e : ~e.ok /\ e.t >= now - W + BD) <= Fail(w)
     /\ Fail(w) <= Count(evs, LAMBDA e : ~e.ok /\ e.t > now - W)
====
