SPECIFICATION Spec
CONSTANTS
  NB = 3
  BD = 2
  MinReq = 3
  RateNum = 2
  RateDen = 3
  OpenTO = 3
  HalfMax = 2
CHECK_DEADLOCK FALSE
