SPECIFICATION Spec
CONSTANTS
  NB = 4
  BD = 1
  MinReq = 2
  RateNum = 1
  RateDen = 2
  OpenTO = 2
  HalfMax = 1
CHECK_DEADLOCK FALSE
