SPECIFICATION Spec
CONSTANTS
  NB = 3
  BD = 2
  MinReq = 3
  RateNum = 2
  RateDen = 3
  OpenTO = 3
  HalfMax = 2
  Callers = {"c1", "c2", "c3"}
  Outcomes = {"ok", "fail", "cancel"}
  SplitAcquire = FALSE
  SplitTransition = FALSE
  Defects = {}
  MaxNow = 9
  MaxCount = 4
CONSTRAINT Bound
VIEW View
INVARIANTS TypeOK SemInv RingRefines
PROPERTIES RecordRule OpenRule ProbeRule ClosedRule Machine
