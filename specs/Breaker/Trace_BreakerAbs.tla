---- MODULE Trace_BreakerAbs ----
(* Property monitor for C47 on recorded executions of the REAL breaker.  It knows only *)
(* the contract: the three states, the threshold rule over an abstract bucketed window *)
(* (epoch + the latest NB buckets; no ring, no cursor, no lazy reset), the open         *)
(* deadline, and the set of callers holding a half-open token.  Every line is consumed; *)
(* a deviation is printed as <<"MISMATCH", line, what, expected, got>>.                 *)
EXTENDS Integers, Sequences, FiniteSets, TLC, Json
CONSTANTS NB, BD, MinReq, RateNum, RateDen, OpenTO, HalfMax
Trace == ndJsonDeserialize("trace.ndjson")
VARIABLES l, now, mst, mou, aw, holders, lf, ls
mvars == <<now, mst, mou, aw, holders, lf, ls>>

Zero == [succ |-> 0, fail |-> 0]
AReset(t) == [ep |-> t, cur |-> 0, cnt |-> [j \in (1 - NB)..0 |-> Zero]]
AObserve(a, t) ==
  LET i == (t - a.ep) \div BD IN
  IF i - a.cur >= NB THEN AReset(t)
  ELSE [ep |-> a.ep, cur |-> i,
        cnt |-> [j \in (i - NB + 1)..i |-> IF j \in DOMAIN a.cnt THEN a.cnt[j] ELSE Zero]]
AAdd(a, t, ok) ==
  LET o == AObserve(a, t) IN
  IF ok THEN [o EXCEPT !.cnt[o.cur].succ = @ + 1] ELSE [o EXCEPT !.cnt[o.cur].fail = @ + 1]
RECURSIVE ASum(_, _, _, _)
ASum(cnt, j, hi, f) == IF j > hi THEN 0 ELSE (IF f = "succ" THEN cnt[j].succ ELSE cnt[j].fail) + ASum(cnt, j + 1, hi, f)
ASucc(a) == ASum(a.cnt, a.cur - NB + 1, a.cur, "succ")
AFail(a) == ASum(a.cnt, a.cur - NB + 1, a.cur, "fail")
Enough(s, f)  == s + f >= MinReq
Tripped(s, f) == Enough(s, f) /\ f * RateDen >= RateNum * (s + f)

Init == /\ l = 1 /\ now = 0 /\ mst = "closed" /\ mou = 0 /\ aw = AReset(0) /\ holders = {} /\ lf = -1 /\ ls = -1

Report(what, exp, got) == IF exp = got THEN TRUE ELSE PrintT(<<"MISMATCH", l, what, exp, got>>)

\* what Execute must hand back for a call that did not succeed: the fallback's answer when one was given
FailVal(e) == IF e.fb THEN "fb:" \o e.c ELSE ""

BeginStep(e) ==
  LET free   == Cardinality(holders) < HalfMax
      toHalf == mst = "open" /\ ~(now < mou)
      st2    == IF toHalf THEN "halfopen" ELSE mst
      exp    == IF mst = "closed" THEN "admitted"
                ELSE IF mst = "open" /\ now < mou THEN "rejected"
                ELSE IF free THEN "admitted" ELSE "rejected"
  IN /\ Report("begin.res", exp, e.res)
     /\ Report("begin.state", st2, e.st)
     /\ IF e.res = "rejected"
        THEN /\ Report("begin.err", "open", e.err)
             /\ Report("begin.fallback", e.fb, e.fbc)
             /\ Report("begin.val", FailVal(e), e.val)
             /\ Report("begin.fberr", IF e.fbc THEN e.err ELSE "", e.fberr)
        ELSE TRUE
     /\ mst' = st2
     /\ aw' = IF toHalf THEN AReset(now) ELSE aw
     /\ holders' = IF e.res = "admitted" /\ st2 = "halfopen" THEN holders \cup {e.c} ELSE holders
     /\ UNCHANGED <<now, mou, lf, ls>>

EndStep(e) ==
  LET records == e.out # "cancel"
      ok  == e.out = "ok"
      a1  == AAdd(aw, now, ok)
      s   == ASucc(a1)
      f   == AFail(a1)
      st2 == IF ~records THEN mst
             ELSE IF Tripped(s, f) THEN "open"
             ELSE IF mst = "halfopen" /\ Enough(s, f) THEN "closed"
             ELSE mst
  IN /\ Report("end.state", st2, e.st)
     /\ Report("end.err", IF ok THEN "nil" ELSE e.out, e.err)
     /\ Report("end.fallback", e.fb /\ ~ok, e.fbc)
     /\ Report("end.val", IF ok THEN "v:" \o e.c ELSE FailVal(e), e.val)
     /\ Report("end.errstate", IF e.out = "panic" THEN mst ELSE "", e.est)
     /\ Report("end.fberr", IF e.fbc THEN e.err ELSE "", e.fberr)
     /\ mst' = st2
     /\ mou' = IF st2 = "open" /\ mst # "open" THEN now + OpenTO ELSE mou
     /\ aw'  = IF ~records THEN aw ELSE IF st2 = "closed" /\ mst = "halfopen" THEN AReset(now) ELSE a1
     /\ holders' = holders \ {e.c}
     /\ lf' = IF records /\ ~ok THEN now ELSE lf
     /\ ls' = IF ok THEN now ELSE ls
     /\ UNCHANGED now

\* first half of an opening transition (the driver parked the caller at the clock read inside transitionTo(Open)):
\* the outcome is recorded, the breaker must still show its old state
EndMidStep(e) ==
  LET ok == e.out = "ok"
      a1 == AAdd(aw, now, ok)
  IN /\ Report("endmid.state", mst, e.st)
     /\ Report("endmid.trips", TRUE, Tripped(ASucc(a1), AFail(a1)) /\ mst # "open")
     /\ aw' = a1
     /\ lf' = IF ~ok THEN now ELSE lf
     /\ ls' = IF ok THEN now ELSE ls
     /\ UNCHANGED <<now, mst, mou, holders>>

\* second half: the deadline and the state are stored, the call returns
EndFinStep(e) ==
  LET ok == e.out = "ok" IN
  /\ Report("end.state", "open", e.st)
  /\ Report("end.err", IF ok THEN "nil" ELSE e.out, e.err)
  /\ Report("end.fallback", e.fb /\ ~ok, e.fbc)
  /\ Report("end.val", IF ok THEN "v:" \o e.c ELSE FailVal(e), e.val)
  /\ Report("end.fberr", IF e.fbc THEN e.err ELSE "", e.fberr)
  /\ mst' = "open"
  /\ mou' = IF mst # "open" THEN now + OpenTO ELSE mou
  /\ holders' = holders \ {e.c}
  /\ UNCHANGED <<now, aw, lf, ls>>

MetricsStep(e) ==
  LET o == AObserve(aw, now)
      s == ASucc(o)
      f == AFail(o)
  IN /\ Report("metrics.succ", s, e.a)
     /\ Report("metrics.fail", f, e.b)
     /\ Report("metrics.total", s + f, e.tot)
     /\ Report("metrics.rate", IF s + f = 0 THEN 0 ELSE (f * 1000000) \div (s + f), e.ppm)
     /\ Report("metrics.state", mst, e.mst)
     /\ Report("metrics.lastFailure", lf, e.lf)
     /\ Report("metrics.lastSuccess", ls, e.ls)
     /\ Report("metrics.windowEnd", now, e.we)
     /\ Report("metrics.windowStart", now - NB * BD, e.ws)
     /\ Report("metrics.window", NB * BD, e.wlen)
     /\ Report("state", mst, e.st)
     /\ aw' = o
     /\ UNCHANGED <<now, mst, mou, holders, lf, ls>>

PreStep(e) ==
  /\ Report("pre.res", "ctxdone", e.res)
  /\ Report("pre.err", "ctxdone", e.err)
  /\ Report("pre.errstate", mst, e.est)
  /\ Report("pre.fallback", e.fb, e.fbc)
  /\ Report("pre.val", FailVal(e), e.val)
  /\ Report("pre.fberr", IF e.fbc THEN e.err ELSE "", e.fberr)
  /\ Report("state", mst, e.st)
  /\ UNCHANGED mvars

Step ==
  /\ l <= Len(Trace)
  /\ l' = l + 1
  /\ LET e == Trace[l] IN
     CASE e.op = "New"     -> /\ now' = 0 /\ mst' = "closed" /\ mou' = 0 /\ aw' = AReset(0)
                              /\ holders' = {} /\ lf' = -1 /\ ls' = -1
       [] e.op = "Tick"    -> /\ now' = now + 1 /\ Report("clock", now + 1, e.t) /\ Report("state", mst, e.st)
                              /\ UNCHANGED <<mst, mou, aw, holders, lf, ls>>
       [] e.op = "Begin"   -> BeginStep(e)
       [] e.op = "End"     -> EndStep(e)
       [] e.op = "EndMid"  -> EndMidStep(e)
       [] e.op = "EndFin"  -> EndFinStep(e)
       [] e.op = "Metrics" -> MetricsStep(e)
       [] e.op = "Pre"     -> PreStep(e)
       [] OTHER            -> UNCHANGED mvars
Spec == Init /\ [][Step]_<<l, mvars>>
====
