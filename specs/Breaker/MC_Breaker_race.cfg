SPECIFICATION Spec
CONSTANTS
  NB = 2
  BD = 2
  MinReq = 2
  RateNum = 1
  RateDen = 2
  OpenTO = 2
  HalfMax = 1
  Callers = {"c1", "c2"}
  Outcomes = {"ok", "fail", "cancel"}
  SplitAcquire = TRUE
  SplitTransition = TRUE
  Defects = {}
  MaxNow = 7
  MaxCount = 3
CONSTRAINT Bound
VIEW View
INVARIANTS TypeOK SemInv RingRefines
PROPERTIES MidRule RecordRule OpenRule ProbeRule ClosedRule Machine
