SPECIFICATION Spec
CONSTANTS
  Keys = {"a", "b", "c", "d"}
CHECK_DEADLOCK FALSE
