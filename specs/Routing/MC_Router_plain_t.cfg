SPECIFICATION Spec
CONSTANTS
  MaxPool = 4
  Strategies = {"rr", "fanout", "random"}
  Keys = {"-"}
  Pools = {1, 2, 3, 4}
  Presets = {0, 1, 2, 3, 4, 5, 6, 7, 8, 9, 10, 11, 12, 13, 14, 15}
  Hi = 4
  Lo = 4
  VN = 1
  H = 1
  VTabs <- NoVTab
  KTabs <- NoKTab
  Defects = {}
INVARIANTS TypeOK AliveInMap
PROPERTIES NoDrop RoundRobin FanOut Sticky
