---- MODULE MC_Router ----
EXTENDS Router
NoVTab  == {[r \in Routees |-> [i \in 1..VN |-> 0]]}
NoKTab  == {[k \in Keys \ {"-"} |-> 0]}
AllVTab == [Routees -> [1..VN -> 0..(H - 1)]]
AllKTab == [Keys \ {"-"} -> 0..(H - 1)]
====
