---- MODULE Trace_Router ----
(* Conformance: the recorded execution of the real router must be a behaviour of the *)
(* transcription at the real counter width (Hi = Lo = 65536), step by step: routee    *)
(* map, running routees, round-robin counter, router up/down, the set of receivers    *)
(* and (hash strategy, table hasher) the ring owner of every key.  A rejection is     *)
(* conformance drift, reported separately from property verdicts.                     *)
EXTENDS Router, Json
Trace == ndJsonDeserialize("trace.ndjson")
VARIABLES l, skip   \* skip: the current behaviour uses the default (xxh3) hasher - not computable here, monitor only
SetOf(s) == {s[i] : i \in DOMAIN s}
NoVTab == {[r \in Routees |-> [i \in 1..VN |-> 0]]}
NoKTab == {[k \in Keys \ {"-"} |-> 0]}
Matches(e) == /\ map' = SetOf(e.map)
              /\ alive' = SetOf(e.alive)
              /\ ctr' = [hi |-> e.hi, lo |-> e.lo]
              /\ up' = e.up
              /\ last'.to = SetOf(e.to) /\ Len(e.to) = Cardinality(last'.to)
              /\ strat' = "hash" => \A k \in DOMAIN kh' : Lookup(ring', kh'[k]) = e.owner[k]
TNew(e) == /\ strat' = e.strategy
           /\ map' = 0..(e.r - 1) /\ alive' = 0..(e.r - 1)
           /\ ctr' = Back(e.d)
           /\ vh' = [r \in Routees |-> IF ToString(r) \in DOMAIN e.vh THEN e.vh[ToString(r)] ELSE [i \in 1..VN |-> 0]]
           /\ kh' = [k \in (DOMAIN e.kh) \ {"none"} |-> e.kh[k]]
           /\ ring' = IF e.strategy = "hash" THEN OwnerMin(map', vh') ELSE <<>>
           /\ up' = TRUE /\ rrPrev' = NoPrev /\ own' = [k \in Keys |-> NoPrev]
           /\ last' = Op("Init", e.r, "-", e.d, {}, {}, "")
           /\ Matches(e)
Body(e) ==
     \/ e.op = "Send" /\ Send(e.key) /\ Matches(e)
     \/ e.op = "Die" /\ Die(e.r) /\ Matches(e)
     \/ e.op = "Fail" /\ Fail(e.r) /\ Matches(e)
     \/ e.op = "Adjust" /\ e.d > 0 /\ ScaleUp(e.d) /\ Matches(e)
     \/ e.op = "Adjust" /\ e.d < 0 /\ ScaleDown(0 - e.d) /\ Matches(e)
     \/ e.op = "GetRoutees" /\ GetRoutees /\ Matches(e)
     \/ e.op = "End" /\ UNCHANGED vars
TStep ==
  /\ l <= Len(Trace)
  /\ l' = l + 1
  /\ LET e == Trace[l] IN
     \/ e.op = "New" /\ e.hasher # "default" /\ TNew(e) /\ skip' = FALSE
     \/ e.op = "New" /\ e.hasher = "default" /\ skip' = TRUE /\ UNCHANGED vars
     \/ e.op # "New" /\ skip /\ UNCHANGED <<vars, skip>>
     \/ e.op # "New" /\ ~skip /\ UNCHANGED skip /\ Body(e)
TInit == Init /\ l = 1 /\ skip = FALSE
TSpec == TInit /\ [][TStep]_<<vars, l, skip>>
====
