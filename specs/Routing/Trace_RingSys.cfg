SPECIFICATION TSpec
CONSTANTS
  Members = {0, 1, 2, 3}
  Keys = {"a", "b", "c", "d"}
  VN = 2
  H = 8
  VTabs <- NoTab
  KTabs <- NoKTab
  Defects = {}
CHECK_DEADLOCK FALSE
