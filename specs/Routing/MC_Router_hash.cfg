SPECIFICATION Spec
CONSTANTS
  MaxPool = 3
  Strategies = {"hash"}
  Keys = {"a"}
  Pools = {3}
  Presets = {0}
  Hi = 2
  Lo = 4
  VN = 1
  H = 3
  VTabs <- AllVTab
  KTabs <- AllKTab
  Defects = {}
INVARIANTS TypeOK AliveInMap
PROPERTIES NoDrop RoundRobin FanOut Sticky
