SPECIFICATION Spec
CONSTANTS
  Nodes = {"n1", "n2", "n3"}
  Weights = {0}
  Kinds = {"rr"}
  Presets = {0, 1, 2, 3, 4, 5, 6, 7}
  Hi = 2
  Lo = 4
  SetLists <- AllLists
  Defects = {}
INVARIANTS TypeOK
PROPERTIES PicksConfigured Cyclic
