SPECIFICATION GSpec
CONSTANTS
  MaxPool = 13
  Strategies = {"rr"}
  Keys = {"-"}
  Pools = {9, 10, 11, 12}
  Presets = {0, 2}
  Hi = 65536
  Lo = 65536
  VN = 2
  H = 8
  VTabs <- NoVTab
  KTabs <- NoKTab
  Defects = {}
  Depth = 5
  MaxChurn = 99
  MinAlive = 0
  GenOps = {"Send", "Adjust"}
  MaxDelta = 1
CONSTRAINT Emit
