SPECIFICATION GSpec
CONSTANTS
  MaxPool = 4
  Strategies = {"rr", "fanout", "random", "hash"}
  Keys = {"a", "b", "-"}
  Pools = {2, 3, 4}
  Presets = {0, 1, 2, 3}
  Hi = 65536
  Lo = 65536
  VN = 2
  H = 8
  VTabs <- GenVTabs
  KTabs <- GenKTabs
  Defects = {}
  Depth = 5
  MaxChurn = 99
  MinAlive = 0
CONSTRAINT Emit
