---- MODULE Trace_Balancer ----
(* Conformance: the recorded execution of the real balancers must be a behaviour of *)
(* the transcription at the real counter width (Hi = Lo = 65536), step by step,     *)
(* including results, the round-robin counter and LeastLoad's in-place order.       *)
(* A rejection is conformance drift, reported separately from property verdicts.    *)
EXTENDS Balancer, Json
Trace == ndJsonDeserialize("trace.ndjson")
VARIABLE l
Matches(e) == /\ last'.res = e.res
              /\ rrNext' = [hi |-> e.hi, lo |-> e.lo]
              /\ llNodes' = e.order
TNew(e) == /\ rrNodes' = <<>> /\ rndNodes' = <<>> /\ llNodes' = <<>> /\ rrPrev' = ""
           /\ weight' = [n \in Nodes |-> 0]
           /\ rrNext' = Back(e.w) /\ last' = Op("Init", <<>>, "", e.w, "")
TStep ==
  /\ l <= Len(Trace)
  /\ l' = l + 1
  /\ LET e == Trace[l] IN
     \/ e.op = "New" /\ TNew(e)
     \/ e.op = "RRSet" /\ RRSet(e.nodes) /\ Matches(e)
     \/ e.op = "RRNext" /\ RRNext /\ Matches(e)
     \/ e.op = "RndSet" /\ RndSet(e.nodes) /\ Matches(e)
     \/ e.op = "RndNext" /\ RndNext /\ Matches(e)
     \/ e.op = "LLSet" /\ LLSet(e.nodes) /\ Matches(e)
     \/ e.op = "LLNext" /\ LLNext /\ Matches(e)
     \/ e.op = "Weight" /\ weight' = [weight EXCEPT ![e.node] = e.w]
                        /\ last' = Op("Weight", <<>>, e.node, e.w, "")
                        /\ UNCHANGED <<rrNodes, rrNext, rrPrev, rndNodes, llNodes>>
TInit == Init /\ l = 1
TSpec == TInit /\ [][TStep]_<<vars, l>>
====
