SPECIFICATION Spec
CONSTANTS
  Members = {0, 1, 2}
  Keys = {"a"}
  VN = 2
  H = 3
  VTabs <- AllVTab
  KTabs <- AllKTab
  Defects = {}
PROPERTIES LookupStable
