SPECIFICATION Spec
CONSTANTS
  MaxPool = 3
  Strategies = {"rr", "fanout", "random"}
  Keys = {"-"}
  Pools = {1, 2, 3}
  Presets = {0, 1, 2, 3, 4, 5, 6, 7}
  Hi = 2
  Lo = 4
  VN = 1
  H = 1
  VTabs <- NoVTab
  KTabs <- NoKTab
  Defects = {}
INVARIANTS TypeOK AliveInMap
PROPERTIES NoDrop RoundRobin FanOut Sticky
