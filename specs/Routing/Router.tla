------------------------------- MODULE Router -------------------------------
(* Transcription of the router actor (actor/router.go): one action per message   *)
(* the router handles (it is an actor: handlers are atomic w.r.t. its own state) *)
(* plus the routees' own life cycle.  Routees are numbered 0..MaxPool-1 (routee  *)
(* i is the child named <router>Routee<i>).  Property C21:                       *)
(*   round-robin  consecutive routed messages go to cyclically successive live   *)
(*                routees of the fixed numbering (a fresh router starts at 0),   *)
(*                across the uint32 wrap, none dropped                           *)
(*   fan-out      every live routee gets every message exactly once              *)
(*   hash         equal keys -> same routee while membership is unchanged;       *)
(*                removing routees only moves the keys they owned                *)
(*                                                                               *)
(* Defects (deviations of the shipped code from the repaired design):            *)
(*  "WrapIndex"   routees[(int(n)-1) % len]: index -1 (panic in the handler, the *)
(*                message is dropped) when the uint32 counter wraps to 0, and    *)
(*                a broken cycle at the wrap when len does not divide 2^32       *)
(*  "MapOrder"    availableRoutees lists the routees in Go map iteration order,  *)
(*                freshly drawn for every message                                *)
(*  "DeadRoutee"  availableRoutees deletes a stopped routee from the map but     *)
(*                still appends it to the list (and leaves the hash ring alone)  *)
(*  "RingTie"     see Ring.tla                                                   *)
EXTENDS Word, Ring, TLC

CONSTANTS MaxPool,    \* routee indices are 0..MaxPool-1
          Strategies, \* the strategies explored: subset of {"rr", "random", "fanout", "hash"}
          Keys,       \* routing keys of messages; "-" = no key (hash strategy: random fallback)
          Pools,      \* initial pool sizes
          Presets,    \* the round-robin counter starts at 2^W - k, k \in Presets
          VTabs,      \* candidate tables [0..MaxPool-1 -> [1..VN -> 0..H-1]] (points of routee r)
          KTabs,      \* candidate tables [Keys \ {"-"} -> 0..H-1]
          Defects

Routees == 0..(MaxPool - 1)

VARIABLES strat,      \* router.routingStrategy (fixed per behaviour)
          map,        \* keys of router.routeesMap (as routee indices)
          alive,      \* routees that are running
          ctr,        \* router.roundRobinNext
          ring,       \* owner function of router.ring (point -> routee)
          up,         \* the router is running
          vh, kh,     \* hash tables (fixed per behaviour)
          rrPrev,     \* history: target of the previous round-robin message and the live set then
          own,        \* history: per key, target of the previous keyed message and the live set then
          last        \* last operation and its observable outcome

vars  == <<strat, map, alive, ctr, ring, up, vh, kh, rrPrev, own, last>>
NoPrev == [r |-> -1, live |-> {}]
Op(o, r, k, d, to, lost, res) == [op |-> o, r |-> r, key |-> k, d |-> d, to |-> to, lost |-> lost, res |-> res]

Rebuilt(S) == IF strat # "hash" THEN {<<>>}
              ELSE IF "RingTie" \in Defects THEN {OwnerLast(o, vh) : o \in SeqsOf(S)}
              ELSE {OwnerMin(S, vh)}

Init == /\ strat \in Strategies
        /\ \E n \in Pools : map = 0..(n - 1) /\ alive = 0..(n - 1)
        /\ \E k \in Presets : ctr = Back(k) /\ last = Op("Init", Cardinality(map), "-", k, {}, {}, "")
        /\ vh \in VTabs /\ kh \in KTabs
        /\ ring \in Rebuilt(map)
        /\ up = TRUE /\ rrPrev = NoPrev /\ own = [k \in Keys |-> NoPrev]

\* ---- availableRoutees: prune the map, list the routees -------------------------------
Dead       == map \ alive
Pruned     == map \ Dead
Listed     == IF "DeadRoutee" \in Defects THEN map ELSE Pruned       \* what the list contains
Lists      == IF "MapOrder" \in Defects THEN SeqsOf(Listed) ELSE {Sorted(Listed)}
\* the ring after availableRoutees (the repaired design rebuilds it when something was pruned)
RingAfterPrune == IF Dead # {} /\ "DeadRoutee" \notin Defects THEN Rebuilt(Pruned) ELSE {ring}

\* ---- Broadcast ------------------------------------------------------------------------
\* the message is told to routee t: delivered if t runs, otherwise Tell fails with ErrDead (dropped)
Deliver(o, k, t, c) ==
  /\ ctr' = c
  /\ last' = Op(o, -1, k, 0, IF t \in alive THEN {t} ELSE {}, IF t \in alive THEN {} ELSE {t}, "ok")

SendRR(k, list) ==
  LET n == Len(list) IN
  IF "WrapIndex" \in Defects THEN
     LET c == Inc(ctr)
         i == GoSignedIdx(c, n)
     IN IF i < 0 THEN ctr' = c /\ last' = Op("Send", -1, k, 0, {}, {}, "panic")
        ELSE Deliver("Send", k, list[i + 1], c)
  ELSE LET i == ModN(ctr, n) IN Deliver("Send", k, list[i + 1], Small(i + 1))

SendRandom(k, list) == \E i \in 1..Len(list) : Deliver("Send", k, list[i], ctr)

SendFanOut(k, list) ==
  /\ ctr' = ctr
  /\ last' = Op("Send", -1, k, 0, {list[i] : i \in 1..Len(list)} \cap alive,
                {list[i] : i \in 1..Len(list)} \ alive, "ok")

SendHash(k, list, rg) ==
  IF k = "-" THEN SendRandom(k, list)
  ELSE LET id == Lookup(rg, kh[k]) IN
       IF id \in Pruned /\ id \in alive THEN Deliver("Send", k, id, ctr)
       ELSE SendRandom(k, list)

Send(k) ==
  /\ up
  /\ map' = Pruned
  /\ \E rg \in RingAfterPrune :
       /\ ring' = rg
       /\ IF Listed = {}
          THEN /\ up' = FALSE /\ ctr' = ctr                       \* handleNoRoutees: dead letter + shutdown
               /\ last' = Op("Send", -1, k, 0, {}, {}, "noroutees")
          ELSE /\ up' = up
               /\ \E list \in Lists :
                    CASE strat = "rr"     -> SendRR(k, list)
                      [] strat = "random" -> SendRandom(k, list)
                      [] strat = "fanout" -> SendFanOut(k, list)
                      [] strat = "hash"   -> SendHash(k, list, rg)
  /\ rrPrev' = IF strat = "rr" /\ Cardinality(last'.to) = 1 THEN [r |-> Min(last'.to), live |-> alive] ELSE NoPrev
  /\ own' = IF k = "-" \/ strat # "hash" THEN own
            ELSE [own EXCEPT ![k] = IF Cardinality(last'.to) = 1 THEN [r |-> Min(last'.to), live |-> alive] ELSE NoPrev]
  /\ UNCHANGED <<strat, alive, vh, kh>>

\* ---- routee life cycle ------------------------------------------------------------------
\* a routee stops on its own (PoisonPill / ctx.Shutdown / external Shutdown): the router is not told
Die(r) ==
  /\ r \in alive
  /\ alive' = alive \ {r}
  /\ last' = Op("Die", r, "-", 0, {}, {}, "")
  /\ UNCHANGED <<strat, map, ctr, ring, up, vh, kh, rrPrev, own>>

\* a routee panics: its supervisor escalates, the router gets a PanicSignal and (default directive)
\* stops the routee, deletes it from the map and rebuilds the ring
Fail(r) ==
  /\ up /\ r \in alive /\ r \in map
  /\ alive' = alive \ {r}
  /\ map' = map \ {r}
  /\ ring' \in Rebuilt(map')
  /\ last' = Op("Fail", r, "-", 0, {}, {}, "")
  /\ UNCHANGED <<strat, ctr, up, vh, kh, rrPrev, own>>

\* ---- AdjustRouterPoolSize ---------------------------------------------------------------
\* scaleUp: spawn the children named by the indices len(map) .. len(map)+d-1 (a running child of
\* that name is reused as is)
ScaleUp(d) ==
  /\ up /\ d > 0 /\ Cardinality(map) + d <= MaxPool
  /\ LET new == Cardinality(map)..(Cardinality(map) + d - 1) IN
     /\ map' = map \cup new
     /\ alive' = alive \cup new
     /\ ring' \in Rebuilt(map')
  /\ last' = Op("Adjust", -1, "-", d, {}, {}, "")
  /\ UNCHANGED <<strat, ctr, up, vh, kh, rrPrev, own>>

\* scaleDown: availableRoutees, then stop and delete the first d routees of that list
ScaleDown(d) ==
  /\ up /\ d > 0
  /\ IF Listed = {}
     THEN map' = Pruned /\ ring' \in RingAfterPrune /\ alive' = alive
     ELSE \E list \in Lists :
            LET gone == {list[i] : i \in 1..(IF d > Len(list) THEN Len(list) ELSE d)} IN
            /\ map' = Pruned \ gone
            /\ alive' = alive \ gone
            /\ ring' \in Rebuilt(map')
  /\ last' = Op("Adjust", -1, "-", 0 - d, {}, {}, "")
  /\ UNCHANGED <<strat, ctr, up, vh, kh, rrPrev, own>>

\* GetRoutees: availableRoutees (with its pruning side effect); the reply lists `Listed`
GetRoutees ==
  /\ up
  /\ map' = Pruned
  /\ ring' \in RingAfterPrune
  /\ last' = Op("GetRoutees", -1, "-", 0, Listed, {}, "")
  /\ UNCHANGED <<strat, alive, ctr, up, vh, kh, rrPrev, own>>

Next == \/ \E k \in Keys : Send(k)
        \/ \E r \in Routees : Die(r) \/ Fail(r)
        \/ \E d \in 1..MaxPool : ScaleUp(d) \/ ScaleDown(d)
        \/ GetRoutees

Spec == Init /\ [][Next]_vars

\* ---- C21 --------------------------------------------------------------------------------
\* `alive` is the live membership (alive \subseteq map is an invariant); a Send does not change it.
IsSend     == last'.op = "Send"
Succ(S, x) == IF \E y \in S : y > x THEN Min({y \in S : y > x}) ELSE Min(S)
AliveInMap == alive \subseteq map

\* nothing is dropped while a routee is alive; nothing goes to a stopped routee
NoDrop == [][(IsSend /\ up /\ alive # {}) =>
               /\ last'.res = "ok" /\ last'.lost = {}
               /\ last'.to # {} /\ last'.to \subseteq alive]_vars

\* round-robin: exactly one target; it is the successor (in the fixed numbering) of the previous
\* target while the live set is unchanged; a fresh router (counter 0) starts with the first routee
RoundRobin == [][(IsSend /\ strat = "rr" /\ up /\ alive # {}) =>
                   /\ Cardinality(last'.to) = 1
                   /\ (rrPrev.r # -1 /\ rrPrev.live = alive) => last'.to = {Succ(alive, rrPrev.r)}
                   /\ (IsZero(ctr) /\ rrPrev.r = -1) => last'.to = {Min(alive)}]_vars

\* fan-out: every live routee, nobody else
FanOut == [][(IsSend /\ strat = "fanout" /\ up) => last'.to = alive]_vars

\* consistent hash: a key stays with its previous routee as long as that routee is alive and no
\* routee was added since (covers "unchanged membership" and "removal only moves owned keys")
Sticky == [][(IsSend /\ strat = "hash" /\ up /\ last'.key # "-") =>
               LET p == own[last'.key] IN
               (p.r # -1 /\ p.r \in alive /\ alive \subseteq p.live) => last'.to = {p.r}]_vars

TypeOK == /\ map \subseteq Routees /\ alive \subseteq Routees /\ ctr \in Words /\ up \in BOOLEAN
=============================================================================
