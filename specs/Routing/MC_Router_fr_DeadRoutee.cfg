SPECIFICATION Spec
CONSTANTS
  MaxPool = 3
  Strategies = {"fanout"}
  Keys = {"-"}
  Pools = {1, 2, 3}
  Presets = {0}
  Hi = 2
  Lo = 4
  VN = 1
  H = 1
  VTabs <- NoVTab
  KTabs <- NoKTab
  Defects = {"DeadRoutee"}
INVARIANTS TypeOK AliveInMap
PROPERTIES NoDrop RoundRobin FanOut Sticky
