SPECIFICATION Spec
CONSTANTS
  MaxPool = 3
  Strategy = "hash"
  Keys = {"a", "b", "-"}
  Pools = {3}
  Presets = {0}
  Hi = 2
  Lo = 4
  VN = 1
  H = 4
  VTabs <- AllVTab
  KTabs <- AllKTab
  Defects = {"RingTie"}
INVARIANTS TypeOK AliveInMap
PROPERTIES NoDrop RoundRobin FanOut Sticky
