---- MODULE Trace_BalancerMon ----
(* Property monitor for C22 on recorded executions of the REAL client balancers.    *)
(* It knows nothing about counters: it tracks the configured node list of each      *)
(* balancer and the node round-robin returned last, and checks every logged Next:   *)
(*   range   the result is one of the configured nodes (a panic is logged as         *)
(*           "panic:<text>" and is therefore out of range)                          *)
(*   cyclic  round-robin: the result is the list successor of the previous result    *)
(*           (between two Sets)                                                      *)
(* Every line is consumed; a failure prints <<"MISMATCH", line, op, kind, got, want>>.*)
EXTENDS Integers, Sequences, FiniteSets, TLC, Json
Trace == ndJsonDeserialize("trace.ndjson")
VARIABLES l, cfg, prev
Range(s) == {s[i] : i \in DOMAIN s}
Succ(s, x) == LET i == CHOOSE j \in DOMAIN s : s[j] = x IN s[(i % Len(s)) + 1]
Kind(op) == CASE op \in {"RRSet", "RRNext"} -> "rr" [] op \in {"RndSet", "RndNext"} -> "rnd" [] OTHER -> "ll"
Init == l = 1 /\ cfg = [k \in {"rr", "rnd", "ll"} |-> <<>>] /\ prev = ""
Report(ok, e, kind, want) == IF ok THEN TRUE ELSE PrintT(<<"MISMATCH", l, e.op, kind, e.res, want>>)
Step ==
  /\ l <= Len(Trace)
  /\ l' = l + 1
  /\ LET e == Trace[l] IN
     CASE e.op = "New" -> cfg' = [k \in {"rr", "rnd", "ll"} |-> <<>>] /\ prev' = ""
       [] e.op \in {"RRSet", "RndSet", "LLSet"} ->
            /\ cfg' = [cfg EXCEPT ![Kind(e.op)] = e.nodes]
            /\ prev' = IF e.op = "RRSet" THEN "" ELSE prev
       [] e.op \in {"RndNext", "LLNext"} ->
            /\ Report(e.res \in Range(cfg[Kind(e.op)]), e, "range", "")
            /\ UNCHANGED <<cfg, prev>>
       [] e.op = "RRNext" ->
            LET inr == e.res \in Range(cfg["rr"]) IN
            /\ Report(inr, e, "range", "")
            /\ (inr /\ prev # "") => Report(e.res = Succ(cfg["rr"], prev), e, "cyclic", Succ(cfg["rr"], prev))
            /\ prev' = IF inr THEN e.res ELSE ""
            /\ UNCHANGED cfg
       [] OTHER -> UNCHANGED <<cfg, prev>>
Spec == Init /\ [][Step]_<<l, cfg, prev>>
====
