SPECIFICATION Spec
CONSTANTS
  Nodes = {"n1", "n2", "n3", "n4"}
  Weights = {0}
  Kinds = {"rr"}
  Presets = {0, 1, 2, 3, 4, 5, 6, 7, 8, 9, 10, 11, 12, 13, 14, 15}
  Hi = 4
  Lo = 4
  SetLists <- AllLists
  Defects = {}
INVARIANTS TypeOK
PROPERTIES PicksConfigured Cyclic
