---- MODULE Gen_Router ----
(* Behaviour generator for the router: the history starts with an Init record       *)
(* (strategy, pool size, counter preset, hash tables) followed by every `last`.     *)
(* Generation runs at the real counter width (Hi = Lo = 65536), counter preset just  *)
(* below the wrap.  Shape constraints keep the enumeration useful: GetRoutees and    *)
(* pool adjustments are not repeated back to back.                                   *)
EXTENDS Router, Json
CONSTANTS Depth, MaxChurn, MinAlive,
          GenOps,     \* operations the generator may use (subset of {"Send","Die","Fail","Adjust","GetRoutees"})
          MaxDelta    \* largest |d| of a pool adjustment
VARIABLES hist, churn
Tab(n, v) == [r \in Routees |-> [i \in 1..VN |-> v[r * VN + i]]]
\* a few virtual-node tables (MaxPool = 4, VN = 2, H = 8): spread, collisions between members,
\* collision inside a member, everything on one point
GenVTabs == {Tab(4, <<1, 5, 3, 7, 0, 4, 2, 6>>), Tab(4, <<1, 5, 1, 6, 3, 5, 3, 6>>),
             Tab(4, <<2, 2, 2, 4, 4, 4, 0, 2>>), Tab(4, <<3, 3, 3, 3, 3, 3, 3, 3>>)}
GenKTabs == {[k \in Keys \ {"-"} |-> CASE k = "a" -> 0 [] k = "b" -> 3 [] OTHER -> 6],
             [k \in Keys \ {"-"} |-> CASE k = "a" -> 2 [] k = "b" -> 2 [] OTHER -> 7]}
NoVTab   == {[r \in Routees |-> [i \in 1..VN |-> 0]]}
NoKTab   == {[k \in Keys \ {"-"} |-> 0]}
InitRec  == [op |-> "Init", strategy |-> strat, pool |-> Cardinality(map), preset |-> last.d, vn |-> VN,
             vh |-> vh, kh |-> IF Keys \ {"-"} = {} THEN [none |-> 0] ELSE kh, hasher |-> "table"]
Quiet(o) == o \in {"GetRoutees", "Adjust"}
\* only the hash strategy uses tables and keys: one table and the key "-" for the others
FirstOf(S) == CHOOSE x \in S : TRUE
GInit == /\ Init /\ hist = <<InitRec>> /\ churn = 0
         /\ strat # "hash" => (vh = FirstOf(VTabs) /\ kh = FirstOf(KTabs))
         /\ strat # "rr" => IsZero(ctr)
GNext == /\ Next /\ ~(Quiet(last.op) /\ Quiet(last'.op))
         /\ strat # "hash" => last'.key = "-"
         /\ last'.op \in GenOps
         /\ (last'.d <= MaxDelta /\ 0 - last'.d <= MaxDelta)
         /\ hist' = Append(hist, last')
         /\ churn' = IF last'.op = "Send" THEN churn ELSE churn + 1
         /\ churn' <= MaxChurn
         /\ (Cardinality(alive') >= MinAlive \/ Len(hist') >= Depth - 1)
GSpec == GInit /\ [][GNext]_<<vars, hist, churn>>
\* print the history when it reaches Depth, or earlier when the router has shut down
Emit == (Len(hist) < Depth /\ (up \/ Len(hist) < 3)) \/ (PrintT(<<"BEHAVIOUR", ToJson(hist)>>) /\ FALSE)
====
