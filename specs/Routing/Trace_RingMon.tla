---- MODULE Trace_RingMon ----
(* Monitor for the ring-level part of C21 on recorded executions of the REAL            *)
(* consistentHashRing (table hasher and default xxh3 hasher): a lookup returns a        *)
(* member ("member"), and a key stays with its previous owner as long as that owner is  *)
(* still a member and no member was added since ("stable": equal keys -> same routee    *)
(* under unchanged membership; removal only moves the removed member's keys).           *)
EXTENDS Integers, Sequences, FiniteSets, TLC, Json
CONSTANTS Keys
Trace == ndJsonDeserialize("trace.ndjson")
VARIABLES l, cur, own
SetOf(s) == {s[i] : i \in DOMAIN s}
NoPrev == [r |-> -1, members |-> {}]
Init == l = 1 /\ cur = {} /\ own = [k \in Keys |-> NoPrev]
Report(ok, e, kind, want) == IF ok THEN TRUE ELSE PrintT(<<"MISMATCH", l, e.op, kind, ToString(e.res), ToString(want)>>)
Step ==
  /\ l <= Len(Trace)
  /\ l' = l + 1
  /\ LET e == Trace[l] IN
     CASE e.op = "New" -> cur' = {} /\ own' = [k \in Keys |-> NoPrev]
       [] e.op = "RSet" -> cur' = SetOf(e.members) /\ UNCHANGED own
       [] e.op = "RLookup" ->
            LET p == own[e.key] IN
            /\ Report(IF cur = {} THEN e.res = -1 ELSE e.res \in cur, e, "member", cur)
            /\ (p.r # -1 /\ p.r \in cur /\ cur \subseteq p.members) => Report(e.res = p.r, e, "stable", p.r)
            /\ own' = [own EXCEPT ![e.key] = [r |-> e.res, members |-> cur]]
            /\ UNCHANGED cur
       [] OTHER -> UNCHANGED <<cur, own>>
Spec == Init /\ [][Step]_<<l, cur, own>>
====
