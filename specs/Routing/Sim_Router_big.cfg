SPECIFICATION GSpec
CONSTANTS
  MaxPool = 13
  Strategies = {"rr", "fanout", "random"}
  Keys = {"-"}
  Pools = {9, 10, 11, 12}
  Presets = {0, 1, 2, 3}
  Hi = 65536
  Lo = 65536
  VN = 2
  H = 8
  VTabs <- NoVTab
  KTabs <- NoKTab
  Defects = {}
  Depth = 30
  MaxChurn = 5
  MinAlive = 8
  GenOps = {"Send", "Die", "Fail", "Adjust", "GetRoutees"}
  MaxDelta = 1
CONSTRAINT Emit
