SPECIFICATION GSpec
CONSTANTS
  Nodes = {"n1", "n2", "n3"}
  Weights = {0, 1, 2}
  Kinds = {"ll"}
  Presets = {0}
  Hi = 65536
  Lo = 65536
  SetLists <- GenLists3
  Defects = {}
  Depth = 5
CONSTRAINT Emit
