------------------------------ MODULE RingSys ------------------------------
(* The consistent hash ring driven directly: set(members in some order) and     *)
(* lookup(key).  Used to generate behaviours for the real consistentHashRing     *)
(* and to validate its traces; the ring-level part of C21 is LookupStable.       *)
EXTENDS Ring, TLC
CONSTANTS Members,   \* member indices
          Keys,
          VTabs, KTabs,
          Defects
VARIABLES vh, kh, cur, ring, own, last
rvars == <<vh, kh, cur, ring, own, last>>
NoPrev == [r |-> -1, members |-> {}]
ROp(o, ms, k, r) == [op |-> o, members |-> ms, key |-> k, res |-> r]
SetOf(s) == {s[i] : i \in DOMAIN s}

RingOf(order) == IF "RingTie" \in Defects THEN OwnerLast(order, vh) ELSE OwnerMin(SetOf(order), vh)

Init == /\ vh \in VTabs /\ kh \in KTabs
        /\ cur = {} /\ ring = <<>> /\ own = [k \in Keys |-> NoPrev]
        /\ last = ROp("Init", <<>>, "", -1)

RSet(order) == /\ cur' = SetOf(order)
               /\ ring' = RingOf(order)
               /\ last' = ROp("RSet", order, "", -1)
               /\ UNCHANGED <<vh, kh, own>>

RLookup(k) == LET r == Lookup(ring, kh[k]) IN
              /\ last' = ROp("RLookup", <<>>, k, r)
              /\ own' = [own EXCEPT ![k] = [r |-> r, members |-> cur]]
              /\ UNCHANGED <<vh, kh, cur, ring>>

Next == \/ \E S \in SUBSET Members : \E o \in SeqsOf(S) : RSet(o)
        \/ \E k \in Keys : RLookup(k)
Spec == Init /\ [][Next]_rvars

\* a key stays with its previous owner as long as that owner is a member and no member was added
LookupStable == [][last'.op = "RLookup" =>
                     LET p == own[last'.key] IN
                     /\ (cur = {}) <=> (last'.res = -1)
                     /\ cur # {} => last'.res \in cur
                     /\ (p.r # -1 /\ p.r \in cur /\ cur \subseteq p.members) => last'.res = p.r]_rvars

\* every ring `set` can build for the member set S (one per order as shipped, a single one when repaired)
RingsOf(S) == IF "RingTie" \in Defects THEN {OwnerLast(o, vh) : o \in SeqsOf(S)} ELSE {OwnerMin(S, vh)}

\* static form, for every table: ownership is monotone under removal and independent of the order
Monotone == \A S \in SUBSET Members :
              LET RS == RingsOf(S) IN
              \A T \in SUBSET S :
                 LET RT == RingsOf(T) IN
                 \A h \in 0..(H - 1) : \A rs \in RS : \A rt \in RT :
                    LET a == Lookup(rs, h) IN a \in T => Lookup(rt, h) = a
=============================================================================
