------------------------------ MODULE Balancer ------------------------------
(* Transcription of the cluster client's balancers (client/round_robin.go,      *)
(* client/random.go, client/least_load.go).  Property C22: whatever the number  *)
(* of previous calls (the round-robin counter is a wrapping uint32) Next returns*)
(* one of the configured nodes, and round-robin visits them in cyclic order.    *)
(*                                                                              *)
(* Defects (deviations of the code from the repaired design, see docs):         *)
(*   "WrapIndex"  RoundRobin.Next as shipped: n := AddUint32(&next,1);          *)
(*                nodes[(int(n)-1) % len] - index -1 (panic) when n wraps to 0  *)
(*   "WrapOrder"  the obvious repair  nodes[(n-1) % uint32(len)]  on the free-  *)
(*                running counter: no panic, but the cycle breaks at the wrap   *)
(*                when len does not divide 2^32                                 *)
(*   {}           the index is kept reduced modulo len (counter never wraps)    *)
EXTENDS Word, Sequences, FiniteSets, TLC

CONSTANTS Nodes,      \* node names (strings)
          Weights,    \* possible node weights (naturals)
          Kinds,      \* subset of {"rr","rnd","ll"}: the balancers exercised
          Presets,    \* set of k: the round-robin counter starts at 2^W - k
          SetLists,   \* the node lists Set is called with (MC: every duplicate-free list)
          Defects

VARIABLES rrNodes, rrNext,   \* RoundRobin.nodes, RoundRobin.next
          rrPrev,            \* history: last node returned by RoundRobin since the last Set ("" = none)
          rndNodes,          \* Random.nodes
          llNodes,           \* LeastLoad.nodes (sorted in place by Next)
          weight,            \* Node.weight
          last               \* last operation and its result

vars == <<rrNodes, rrNext, rrPrev, rndNodes, llNodes, weight, last>>

Range(s) == {s[i] : i \in DOMAIN s}
NodeLists == {s \in UNION {[1..k -> Nodes] : k \in 1..Cardinality(Nodes)} :
                 \A i, j \in DOMAIN s : i # j => s[i] # s[j]}
Op(o, ns, n, w, r) == [op |-> o, nodes |-> ns, node |-> n, w |-> w, res |-> r]

Init == /\ rrNodes = <<>> /\ rndNodes = <<>> /\ llNodes = <<>>
        /\ rrPrev = ""
        /\ weight = [n \in Nodes |-> 0]
        /\ \E k \in Presets : rrNext = Back(k) /\ last = Op("Init", <<>>, "", k, "")

\* ---- RoundRobin ----------------------------------------------------------------
RRSet(s) == /\ "rr" \in Kinds
            /\ rrNodes' = s /\ rrPrev' = ""
            /\ last' = Op("RRSet", s, "", 0, "")
            /\ UNCHANGED <<rrNext, rndNodes, llNodes, weight>>

RRNext ==
  /\ "rr" \in Kinds /\ Len(rrNodes) > 0
  /\ LET n == Len(rrNodes) IN
     IF "WrapIndex" \in Defects THEN
        LET c == Inc(rrNext)
            i == GoSignedIdx(c, n)
            r == IF i < 0 THEN "panic" ELSE rrNodes[i + 1]
        IN rrNext' = c /\ rrPrev' = r /\ last' = Op("RRNext", <<>>, "", 0, r)
     ELSE IF "WrapOrder" \in Defects THEN
        LET c == Inc(rrNext)
            r == rrNodes[ModN(Dec(c), n) + 1]
        IN rrNext' = c /\ rrPrev' = r /\ last' = Op("RRNext", <<>>, "", 0, r)
     ELSE
        LET i == ModN(rrNext, n)
            r == rrNodes[i + 1]
        IN rrNext' = Small(i + 1) /\ rrPrev' = r /\ last' = Op("RRNext", <<>>, "", 0, r)
  /\ UNCHANGED <<rrNodes, rndNodes, llNodes, weight>>

\* ---- Random ----------------------------------------------------------------------
RndSet(s) == /\ "rnd" \in Kinds
             /\ rndNodes' = s
             /\ last' = Op("RndSet", s, "", 0, "")
             /\ UNCHANGED <<rrNodes, rrNext, rrPrev, llNodes, weight>>

RndNext == /\ "rnd" \in Kinds /\ Len(rndNodes) > 0
           /\ \E i \in 1..Len(rndNodes) : last' = Op("RndNext", <<>>, "", 0, rndNodes[i])
           /\ UNCHANGED <<rrNodes, rrNext, rrPrev, rndNodes, llNodes, weight>>

\* ---- LeastLoad -------------------------------------------------------------------
\* slices.SortStableFunc by weight = insertion sort that never passes an equal element
RECURSIVE Insert(_, _, _)
Insert(s, x, w) == IF s = <<>> THEN <<x>>
                   ELSE IF w[s[Len(s)]] <= w[x] THEN Append(s, x)
                   ELSE Append(Insert(SubSeq(s, 1, Len(s) - 1), x, w), s[Len(s)])
RECURSIVE StableSort(_, _)
StableSort(s, w) == IF s = <<>> THEN <<>>
                    ELSE Insert(StableSort(SubSeq(s, 1, Len(s) - 1), w), s[Len(s)], w)

LLSet(s) == /\ "ll" \in Kinds
            /\ llNodes' = s
            /\ last' = Op("LLSet", s, "", 0, "")
            /\ UNCHANGED <<rrNodes, rrNext, rrPrev, rndNodes, weight>>

LLNext == /\ "ll" \in Kinds /\ Len(llNodes) > 0
          /\ llNodes' = StableSort(llNodes, weight)
          /\ last' = Op("LLNext", <<>>, "", 0, llNodes'[1])
          /\ UNCHANGED <<rrNodes, rrNext, rrPrev, rndNodes, weight>>

SetWeight(n, w) == /\ "ll" \in Kinds
                   /\ weight[n] # w
                   /\ weight' = [weight EXCEPT ![n] = w]
                   /\ last' = Op("Weight", <<>>, n, w, "")
                   /\ UNCHANGED <<rrNodes, rrNext, rrPrev, rndNodes, llNodes>>

Next == \/ \E s \in SetLists : RRSet(s) \/ RndSet(s) \/ LLSet(s)
        \/ RRNext \/ RndNext \/ LLNext
        \/ \E n \in Nodes, w \in Weights : SetWeight(n, w)

Spec == Init /\ [][Next]_vars

\* ---- C22 -------------------------------------------------------------------------
Configured(op) == CASE op = "RRNext" -> Range(rrNodes) [] op = "RndNext" -> Range(rndNodes)
                    [] op = "LLNext" -> Range(llNodes) [] OTHER -> {}
\* every Next returns a configured node (no panic, no foreign node)
PicksConfigured == [][last'.op \in {"RRNext", "RndNext", "LLNext"} => last'.res \in Configured(last'.op)]_vars

Succ(s, x) == LET i == CHOOSE j \in DOMAIN s : s[j] = x IN s[(i % Len(s)) + 1]
\* round-robin is cyclic: between two Sets each result is the list successor of the previous one
Cyclic == [][(last'.op = "RRNext" /\ rrPrev # "" /\ rrPrev \in Range(rrNodes))
                => last'.res = Succ(rrNodes, rrPrev)]_vars

\* strategy (beyond C22): least-load returns a node of minimal weight, the first such in pool order
LeastLoaded == [][last'.op = "LLNext" =>
                    /\ \A n \in Range(llNodes) : weight[last'.res] <= weight[n]
                    /\ Range(llNodes') = Range(llNodes)]_vars

TypeOK == /\ rrNext \in Words
          /\ Range(rrNodes) \subseteq Nodes /\ Range(rndNodes) \subseteq Nodes /\ Range(llNodes) \subseteq Nodes
=============================================================================
