SPECIFICATION GSpec
CONSTANTS
  Nodes = {"n1", "n2", "n3", "n4"}
  Weights = {0, 1, 2}
  Kinds = {"rr", "rnd", "ll"}
  Presets = {0, 1, 2, 3, 4, 5}
  Hi = 65536
  Lo = 65536
  SetLists <- GenLists
  Defects = {}
  Depth = 40
CONSTRAINT Emit
