---- MODULE Trace_RouterMon ----
(* Property monitor for C21 on recorded executions of a REAL router actor with        *)
(* recording routees.  It knows nothing about counters, maps or rings: it uses only    *)
(* what is observable - which routees are running (logged after every operation) and   *)
(* which routees received each routed message (e.to, with multiplicity) - and checks   *)
(* every Send while at least one routee is running:                                    *)
(*   drop / dup / dead   exactly one delivery, to a running routee (rr, random, hash)  *)
(*   fanout              every running routee exactly once, nobody else                *)
(*   cyclic              round-robin: successor (fixed numbering) of the previous      *)
(*                       target while the set of running routees is unchanged          *)
(*   first               a fresh round-robin router starts with its first routee       *)
(*   sticky              hash: the key stays with its previous routee while that       *)
(*                       routee runs and no routee was added (unchanged membership,    *)
(*                       and removal only moves the removed routee's keys)             *)
(*   count               at the end, every routee received exactly the deliveries      *)
(*                       seen so far (no late duplicates)                              *)
(* Every line is consumed; a failure prints <<"MISMATCH", line, op, kind, got, want>>. *)
EXTENDS Integers, Sequences, FiniteSets, TLC, Json
CONSTANTS Keys, MaxPool
Trace == ndJsonDeserialize("trace.ndjson")
VARIABLES l, strat, live, prev, own, cnt, fresh
mvars == <<l, strat, live, prev, own, cnt, fresh>>
Routees == 0..(MaxPool - 1)
SetOf(s) == {s[i] : i \in DOMAIN s}
Min(S) == CHOOSE x \in S : \A y \in S : x <= y
Succ(S, x) == IF \E y \in S : y > x THEN Min({y \in S : y > x}) ELSE Min(S)
Times(s, x) == Cardinality({i \in DOMAIN s : s[i] = x})
NoPrev == [r |-> -1, live |-> {}]
Init == /\ l = 1 /\ strat = "" /\ live = {} /\ prev = NoPrev /\ own = [k \in Keys |-> NoPrev]
        /\ cnt = [r \in Routees |-> 0] /\ fresh = FALSE
Report(ok, e, kind, want) == IF ok THEN TRUE ELSE PrintT(<<"MISMATCH", l, e.op, kind, ToString(e.to), ToString(want)>>)

CheckSend(e) ==
  LET to == e.to
      one == Len(to) = 1 /\ to[1] \in live
  IN IF live = {} THEN Report(to = <<>>, e, "dead", {})
     ELSE IF strat = "fanout"
     THEN Report(SetOf(to) = live /\ Len(to) = Cardinality(live), e, "fanout", live)
     ELSE /\ Report(Len(to) >= 1, e, "drop", live)
          /\ Report(Len(to) <= 1, e, "dup", live)
          /\ Report(SetOf(to) \subseteq live, e, "dead", live)
          /\ (one /\ strat = "rr" /\ prev.r # -1 /\ prev.live = live)
                => Report(to[1] = Succ(live, prev.r), e, "cyclic", Succ(live, prev.r))
          /\ (one /\ strat = "rr" /\ fresh) => Report(to[1] = Min(live), e, "first", Min(live))
          /\ (one /\ strat = "hash" /\ e.key # "-")
                => LET p == own[e.key] IN
                   (p.r # -1 /\ p.r \in live /\ live \subseteq p.live) => Report(to[1] = p.r, e, "sticky", p.r)

Step ==
  /\ l <= Len(Trace)
  /\ l' = l + 1
  /\ LET e == Trace[l] IN
     CASE e.op = "New" ->
            /\ strat' = e.strategy /\ live' = SetOf(e.alive) /\ prev' = NoPrev
            /\ own' = [k \in Keys |-> NoPrev] /\ cnt' = [r \in Routees |-> 0]
            /\ fresh' = (e.d = 0)
       [] e.op = "Send" ->
            /\ CheckSend(e)
            /\ LET one == Len(e.to) = 1 /\ e.to[1] \in live IN
               /\ prev' = IF one THEN [r |-> e.to[1], live |-> live] ELSE NoPrev
               /\ own' = IF e.key = "-" THEN own
                         ELSE [own EXCEPT ![e.key] = IF one THEN [r |-> e.to[1], live |-> live] ELSE NoPrev]
            /\ cnt' = [r \in Routees |-> cnt[r] + Times(e.to, r)]
            /\ fresh' = FALSE
            /\ live' = SetOf(e.alive)
            /\ UNCHANGED strat
       [] e.op = "End" ->
            /\ Report(\A r \in Routees : e.counts[r + 1] = cnt[r], [e EXCEPT !.to = e.counts], "count", cnt)
            /\ UNCHANGED <<strat, live, prev, own, cnt, fresh>>
       [] OTHER -> live' = SetOf(e.alive) /\ UNCHANGED <<strat, prev, own, cnt, fresh>>
Spec == Init /\ [][Step]_mvars
====
