------------------------------- MODULE Word -------------------------------
(* A fixed-width unsigned counter (Go uint32) that TLC can handle at its real   *)
(* width: a value is the pair [hi, lo] standing for hi*Lo + lo, modulus Hi*Lo.  *)
(* Design-level configurations use a small width (e.g. Hi=2, Lo=4: 3 bits) so   *)
(* that TLC walks through every counter value and the wrap; trace validation of *)
(* the real code uses Hi = Lo = 65536 (uint32) - no intermediate value exceeds  *)
(* TLC's 32-bit integers.                                                       *)
EXTENDS Integers
CONSTANTS Hi, Lo

Words   == [hi : 0..(Hi - 1), lo : 0..(Lo - 1)]
Zero    == [hi |-> 0, lo |-> 0]
IsZero(c) == c.hi = 0 /\ c.lo = 0
Inc(c)  == IF c.lo + 1 < Lo THEN [hi |-> c.hi, lo |-> c.lo + 1]
                            ELSE [hi |-> (c.hi + 1) % Hi, lo |-> 0]
Dec(c)  == IF c.lo > 0 THEN [hi |-> c.hi, lo |-> c.lo - 1]
                       ELSE [hi |-> (c.hi + Hi - 1) % Hi, lo |-> Lo - 1]
\* value mod n (n > 0), computed limb-wise
ModN(c, n) == (((c.hi % n) * (Lo % n)) + c.lo) % n
\* the word of a small natural k (k < Hi*Lo)
Small(k) == [hi |-> (k \div Lo) % Hi, lo |-> k % Lo]
\* 2^W - k for 0 <= k < Hi*Lo (k = 0 gives 0)
Back(k) == IF k = 0 THEN Zero
           ELSE [hi |-> Hi - 1 - ((k - 1) \div Lo), lo |-> Lo - 1 - ((k - 1) % Lo)]

\* Go, 64-bit int:  (int(c) - 1) % n   with truncated remainder.  For c = 0 the
\* dividend is -1 and the result is -(1 % n): -1 for n > 1, 0 for n = 1.
GoSignedIdx(c, n) == IF IsZero(c) THEN (IF n = 1 THEN 0 ELSE -1) ELSE ModN(Dec(c), n)
=============================================================================
