---- MODULE MC_Balancer ----
EXTENDS Balancer
AllLists == NodeLists
====
