SPECIFICATION GSpec
CONSTANTS
  Members = {0, 1, 2}
  Keys = {"a", "b"}
  VN = 2
  H = 8
  VTabs <- GenVTabs
  KTabs <- GenKTabs
  Defects = {}
  Depth = 6
CONSTRAINT Emit
