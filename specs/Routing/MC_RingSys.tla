---- MODULE MC_RingSys ----
EXTENDS RingSys
AllVTab == [Members -> [1..VN -> 0..(H - 1)]]
OneKTab == {[k \in Keys |-> 0]}
AllKTab == [Keys -> 0..(H - 1)]
\* static check: only the initial states (one per table) are examined
Stutter == UNCHANGED rvars
StaticSpec == Init /\ [][Stutter]_rvars
====
