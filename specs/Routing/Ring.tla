-------------------------------- MODULE Ring --------------------------------
(* The router's consistent hash ring (actor/router.go consistentHashRing) over a *)
(* small hash space: every member m is placed at the points vh[m][i], i < VN;    *)
(* `set` writes ring[point] = member for the members in the order it is given    *)
(* them (the router passes them in Go map iteration order) - on a collision of   *)
(* two members' points the LAST writer owns the point; `lookup` returns the owner*)
(* of the first point >= hash(key), wrapping to the smallest point.              *)
(*   "RingTie" \in Defects   as shipped: last writer wins, so the owner of a      *)
(*                           shared point depends on the order of `members`       *)
(*   otherwise               the smallest member owns a shared point              *)
EXTENDS Integers, Sequences, FiniteSets

CONSTANTS VN,        \* virtual nodes per member
          H          \* hash space 0..H-1

Min(S) == CHOOSE x \in S : \A y \in S : x <= y
Max(S) == CHOOSE x \in S : \A y \in S : y <= x
Points(vh, m) == {vh[m][i] : i \in 1..VN}

\* owner function (point -> member) after set(order), last writer wins
OwnerLast(order, vh) ==
  LET pts == UNION {Points(vh, order[j]) : j \in DOMAIN order}
  IN [p \in pts |-> order[Max({j \in DOMAIN order : p \in Points(vh, order[j])})]]
\* owner function with a deterministic tie-break (smallest member)
OwnerMin(S, vh) ==
  LET pts == UNION {Points(vh, m) : m \in S}
  IN [p \in pts |-> Min({m \in S : p \in Points(vh, m)})]

\* lookup(h): -1 on the empty ring
Lookup(owner, h) ==
  IF DOMAIN owner = {} THEN -1
  ELSE LET ge == {p \in DOMAIN owner : p >= h}
       IN owner[IF ge = {} THEN Min(DOMAIN owner) ELSE Min(ge)]

RECURSIVE SeqsOf(_)
SeqsOf(S) == IF S = {} THEN {<<>>}
             ELSE UNION {{<<x>> \o s : s \in SeqsOf(S \ {x})} : x \in S}
\* ascending sequence of a set of integers
RECURSIVE Sorted(_)
Sorted(S) == IF S = {} THEN <<>> ELSE <<Min(S)>> \o Sorted(S \ {Min(S)})
=============================================================================
