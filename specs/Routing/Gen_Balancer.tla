---- MODULE Gen_Balancer ----
(* Behaviour generator for the balancers: carries the operation history (starting   *)
(* with the Init record = counter preset) and prints it when a walk reaches Depth.   *)
(* Generation runs at the real counter width (Hi = Lo = 65536) with presets just     *)
(* below the wrap, so the printed results are exact predictions for the real code.   *)
(* Shape constraint: a Set is never directly followed by another Set.                *)
EXTENDS Balancer, Json
CONSTANTS Depth
VARIABLE hist
GenLists == {<<"n1">>, <<"n2", "n1">>, <<"n1", "n2", "n3">>, <<"n3", "n1", "n4", "n2">>, <<"n4", "n3", "n2", "n1">>}
GenLists3 == {<<"n2">>, <<"n1", "n2">>, <<"n3", "n1", "n2">>}
IsSet(o) == o \in {"RRSet", "RndSet", "LLSet"}
GInit == Init /\ hist = <<last>>
GNext == Next /\ ~(IsSet(last.op) /\ IsSet(last'.op)) /\ hist' = Append(hist, last')
GSpec == GInit /\ [][GNext]_<<vars, hist>>
Emit == (Len(hist) < Depth) \/ (PrintT(<<"BEHAVIOUR", ToJson(hist)>>) /\ FALSE)
====
