SPECIFICATION GSpec
CONSTANTS
  MaxPool = 4
  Strategies = {"rr", "fanout", "random", "hash"}
  Keys = {"a", "b", "c", "-"}
  Pools = {1, 2, 3, 4}
  Presets = {0, 1, 2, 3, 4, 5, 6}
  Hi = 65536
  Lo = 65536
  VN = 2
  H = 8
  VTabs <- GenVTabs
  KTabs <- GenKTabs
  Defects = {}
  Depth = 30
  MaxChurn = 6
  MinAlive = 1
  GenOps = {"Send", "Die", "Fail", "Adjust", "GetRoutees"}
  MaxDelta = 99
CONSTRAINT Emit
