SPECIFICATION StaticSpec
CONSTANTS
  Members = {0, 1, 2}
  Keys = {"a"}
  VN = 2
  H = 5
  VTabs <- AllVTab
  KTabs <- OneKTab
  Defects = {}
INVARIANTS Monotone
