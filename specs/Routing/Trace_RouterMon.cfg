SPECIFICATION Spec
CONSTANTS
  Keys = {"a", "b", "c", "-"}
  MaxPool = 16
CHECK_DEADLOCK FALSE
