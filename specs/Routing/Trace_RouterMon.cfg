SPECIFICATION Spec
CONSTANTS
  Keys = {"a", "b", "c", "-"}
  MaxPool = 6
CHECK_DEADLOCK FALSE
