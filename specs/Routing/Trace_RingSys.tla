---- MODULE Trace_RingSys ----
(* Conformance of the real consistentHashRing (table hasher) with Ring.tla: every       *)
(* lookup result and the number of points must be what the transcription computes.       *)
EXTENDS RingSys, Json
Trace == ndJsonDeserialize("trace.ndjson")
VARIABLES l, skip   \* skip: behaviour with the default (xxh3) hasher - monitor only
NoTab == {[m \in Members |-> [i \in 1..VN |-> 0]]}
NoKTab == {[k \in Keys |-> 0]}
TStep ==
  /\ l <= Len(Trace)
  /\ l' = l + 1
  /\ LET e == Trace[l] IN
     \/ e.op = "New" /\ e.hasher = "default" /\ skip' = TRUE /\ UNCHANGED rvars
     \/ e.op # "New" /\ skip /\ UNCHANGED <<rvars, skip>>
     \/ /\ e.op = "New" /\ e.hasher # "default" /\ skip' = FALSE
        /\ vh' = [m \in Members |-> IF ToString(m) \in DOMAIN e.vh THEN e.vh[ToString(m)] ELSE [i \in 1..VN |-> 0]] /\ kh' = [k \in DOMAIN e.kh |-> e.kh[k]]
        /\ cur' = {} /\ ring' = <<>> /\ own' = [k \in Keys |-> NoPrev] /\ last' = ROp("Init", <<>>, "", -1)
     \/ e.op = "RSet" /\ ~skip /\ UNCHANGED skip /\ RSet(e.members) /\ e.len = Len(e.members) * VN
     \/ e.op = "RLookup" /\ ~skip /\ UNCHANGED skip /\ RLookup(e.key) /\ last'.res = e.res
TInit == Init /\ l = 1 /\ skip = FALSE
TSpec == TInit /\ [][TStep]_<<rvars, l, skip>>
====
