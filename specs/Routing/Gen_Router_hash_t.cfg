SPECIFICATION GSpec
CONSTANTS
  MaxPool = 4
  Strategies = {"hash"}
  Keys = {"a", "b", "-"}
  Pools = {3, 4}
  Presets = {0}
  Hi = 65536
  Lo = 65536
  VN = 2
  H = 8
  VTabs <- GenVTabs
  KTabs <- GenKTabs
  Defects = {}
  Depth = 4
  MaxChurn = 99
  MinAlive = 0
  GenOps = {"Send", "Die", "Fail", "Adjust", "GetRoutees"}
  MaxDelta = 99
CONSTRAINT Emit
