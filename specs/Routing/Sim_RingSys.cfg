SPECIFICATION GSpec
CONSTANTS
  Members = {0, 1, 2, 3}
  Keys = {"a", "b", "c", "d"}
  VN = 2
  H = 8
  VTabs <- GenVTabs
  KTabs <- GenKTabs
  Defects = {}
  Depth = 25
CONSTRAINT Emit
