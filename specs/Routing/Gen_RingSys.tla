---- MODULE Gen_RingSys ----
(* Behaviour generator for the consistent hash ring: Init record (tables) followed by *)
(* every `last`; a set is never directly followed by another set.                      *)
EXTENDS RingSys, Json
CONSTANTS Depth
VARIABLE hist
Tab(v) == [m \in Members |-> [i \in 1..VN |-> v[m * VN + i]]]
GenVTabs == {Tab(<<1, 5, 3, 7, 0, 4, 2, 6>>), Tab(<<1, 5, 1, 6, 3, 5, 3, 6>>), Tab(<<2, 2, 2, 4, 4, 4, 0, 2>>)}
GenKTabs == {[k \in Keys |-> CASE k = "a" -> 0 [] k = "b" -> 3 [] k = "c" -> 5 [] OTHER -> 7]}
InitRec == [op |-> "Init", vn |-> VN, vh |-> vh, kh |-> kh, hasher |-> "table"]
GInit == Init /\ hist = <<InitRec>>
GNext == Next /\ ~(last.op = "RSet" /\ last'.op = "RSet") /\ hist' = Append(hist, last')
GSpec == GInit /\ [][GNext]_<<rvars, hist>>
Emit == (Len(hist) < Depth) \/ (PrintT(<<"BEHAVIOUR", ToJson(hist)>>) /\ FALSE)
====
