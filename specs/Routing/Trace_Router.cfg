SPECIFICATION TSpec
CONSTANTS
  MaxPool = 16
  Strategies = {"rr"}
  Keys = {"a", "b", "c", "-"}
  Pools = {1}
  Presets = {0}
  Hi = 65536
  Lo = 65536
  VN = 2
  H = 8
  VTabs <- NoVTab
  KTabs <- NoKTab
  Defects = {}
CHECK_DEADLOCK FALSE
