SPECIFICATION Spec
CONSTANTS
  Nodes = {"n1", "n2", "n3", "n4"}
  Weights = {0, 1, 2}
  Kinds = {"ll"}
  Presets = {0}
  Hi = 2
  Lo = 4
  SetLists <- AllLists
  Defects = {}
INVARIANTS TypeOK
PROPERTIES PicksConfigured LeastLoaded
