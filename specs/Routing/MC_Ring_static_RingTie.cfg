SPECIFICATION StaticSpec
CONSTANTS
  Members = {0, 1, 2}
  Keys = {"a"}
  VN = 2
  H = 3
  VTabs <- AllVTab
  KTabs <- OneKTab
  Defects = {"RingTie"}
INVARIANTS Monotone
