SPECIFICATION Spec
CONSTANTS
  Defects = {}
  Bases <- Q_Bases
  Contexts <- Q_Contexts
  U32Classes <- C_U32
  U16Classes <- C_U16
  NameClasses <- C_Name
  Pairs = FALSE
  CutDevs = FALSE
CONSTRAINT Emit
INVARIANTS InvRoundTrip InvRejects InvEnd InvConsume InvAlloc
CHECK_DEADLOCK FALSE
