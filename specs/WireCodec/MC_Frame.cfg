SPECIFICATION Spec
CONSTANTS
  Defects = {}
  Bases <- Q_Bases
  Contexts <- Q_Contexts
  CtxOk <- Q_CtxOk
  U32Classes <- C_U32
  U16Classes <- C_U16
  NameClasses <- C_Name
  Pairs = FALSE
  CutInCtx = FALSE
  CutDevs = FALSE
CONSTRAINT Emit
INVARIANTS InvRoundTrip InvRejects InvEnd InvConsume InvAlloc
CHECK_DEADLOCK FALSE
