SPECIFICATION Spec
CONSTANTS
  Defects = {"MetaSlack"}
  HeapBase = 65536
  HeapPerByte = 6
  HeapPerHint = 64
CHECK_DEADLOCK FALSE
