SPECIFICATION Spec
CONSTANTS
  Defects = {"CountPresize"}
  Bases <- Tiny_Bases
  Contexts <- Tiny_Contexts
  CtxOk <- All_CtxOk
  U32Classes <- C_U32
  U16Classes <- C_U16
  NameClasses <- C_Name
  Pairs = FALSE
  CutInCtx = TRUE
  CutDevs = FALSE
INVARIANTS InvAlloc
CHECK_DEADLOCK FALSE
