SPECIFICATION Spec
CONSTANTS
  Defects = {}
  Bases <- Tiny_Bases
  Contexts <- Tiny_Contexts
  CtxOk <- All_CtxOk
  U32Classes <- C_U32
  U16Classes <- C_U16
  NameClasses <- C_Name
  Pairs = FALSE
  CutInCtx = TRUE
  CutDevs = FALSE
CONSTRAINT Emit
INVARIANTS InvRoundTrip InvRejects InvEnd InvConsume InvAlloc
CHECK_DEADLOCK FALSE
