---- MODULE MC_Frame ----
(* Domains for Gen_Frame. The catalogue (real type names and protobuf payloads of the chosen    *)
(* internalpb messages, frame limit, deadline encodings) is produced by the driver              *)
(* (`wirecodec catalogue <max>`) and read from catalogue.json.                                  *)
EXTENDS Gen_Frame

L(m) == [fmt |-> "legacy", msg |-> m, md |-> FALSE, hd |-> <<>>, dl |-> "none", slack |-> 0, dev |-> <<>>]
M0(m) == [fmt |-> "meta", msg |-> m, md |-> FALSE, hd |-> <<>>, dl |-> "none", slack |-> 0, dev |-> <<>>]
M(m, hd, dl) == [fmt |-> "meta", msg |-> m, md |-> TRUE, hd |-> hd, dl |-> dl, slack |-> 0, dev |-> <<>>]

NL == L("small")
NM == M("nested", <<<<2, 3>>>>, "future")

Tiny_Bases == {L("small"), M("small", <<<<1, 2>>>>, "future")}
Tiny_Contexts == {<< <<>>, <<>> >>, << <<NL>>, <<NM>> >>}

Q_Shapes == { <<<<>>, "none">>, <<<<>>, "future">>, <<<<<<1, 1>>>>, "none">>, <<<<<<3, 0>>>>, "past">>,
              <<<<<<2, 5>>, <<4, 1>>>>, "future">> }
Q_Bases == {L(m) : m \in {"empty", "small", "nested", "bigL_m1", "bigL_0", "bigL_p1"}}
           \cup {M0(m) : m \in {"empty", "small"}}
           \cup {M(m, s[1], s[2]) : m \in {"small", "nested"}, s \in Q_Shapes}
           \cup {M("empty", <<>>, "none"), M("empty", <<<<2, 5>>, <<4, 1>>>>, "past")}
           \cup {M(m, <<>>, "none") : m \in {"bigM_m1", "bigM_0", "bigM_p1"}}
           \cup {M("small", <<<<65535, 1>>>>, "none"), M("small", <<<<0, 65535>>>>, "future")}
(* quick: alone, and second of three -- a legacy subject after a legacy frame (so that the legacy-only  *)
(* entry point reaches it), a metadata subject after a metadata frame                                 *)
Q_Contexts == {<< <<>>, <<>> >>, << <<NM>>, <<NL>> >>, << <<NL>>, <<NM>> >>}
Q_CtxOk(f, x) == x[1] = <<>> \/ (f.fmt = "legacy" /\ x[1] = <<NL>>) \/ (f.fmt = "meta" /\ x[1] = <<NM>>)
All_CtxOk(f, x) == TRUE

T_Shapes == Q_Shapes \cup { <<<<<<0, 0>>>>, "none">>, <<<<<<5, 5>>, <<5, 0>>>>, "none">>, <<<<<<1, 1>>, <<2, 2>>>>, "past">> }
T_Bases == Q_Bases \cup {M0("nested")} \cup {M(m, s[1], s[2]) : m \in {"empty", "small", "nested"}, s \in T_Shapes}
           \cup {M("nested", <<<<65535, 65535>>>>, "future"), M("empty", <<<<1, 1>>, <<65535, 0>>>>, "none")}
T_Contexts == Q_Contexts \cup {<< <<NL>>, <<>> >>, << <<>>, <<NM>> >>, << <<NL, NM>>, <<>> >>}

C_U32 == {"m1", "p1", "zero", "c7", "c8", "c11", "c12", "maxm1", "max", "maxp1", "huge"}
C_U16 == {"m1", "p1", "zero", "ffff"}
C_Name == {"c255", "c256"}
====
