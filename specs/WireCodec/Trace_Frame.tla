---- MODULE Trace_Frame ----
(* Monitor for C23: judges every recorded execution of the REAL decoders against Frame.tla.      *)
(* One trace line = one case run through the four decode entry points (ser, serm, cli, srv):     *)
(*   kind "dec"   bytes built by the TLA+ encoder from the abstract case (claims vs layout, cut)  *)
(*   kind "rt"    the same well-formed case encoded by the REAL encoder (round trip)              *)
(*   kind "fuzz"  seeded random bytes / byte flips (sampling): robustness clause only             *)
(* For dec / rt the abstract case is re-encoded and decoded by the model; the real run must show  *)
(*   panic     no panic                                                                           *)
(*   accept    the same frames accepted, in order, with the same type, message, headers, deadline *)
(*             class (up to the first payload region the idealised parser oracle cannot judge)     *)
(*   end       clean end of stream vs error            consumed  bytes taken from the reader       *)
(*   bufreq    the frame-buffer requests (size passed to the frame pool), each <= the frame limit  *)
(*   heap      bytes allocated <= HeapBase + HeapPerByte*len + 2*sum(bufreq) + HeapPerHint*hint    *)
(* Every line is consumed; a failed clause is printed as <<"MISMATCH", line, entry, clause>>.     *)
EXTENDS Frame
CONSTANTS HeapBase, HeapPerByte, HeapPerHint
Trace == ndJsonDeserialize("trace.ndjson")
VARIABLE l

Rep(en, tag, cond) == IF cond THEN TRUE ELSE PrintT(<<"MISMATCH", l, en, tag>>)
RECURSIVE Sum(_)
Sum(s) == IF s = <<>> THEN 0 ELSE Head(s) + Sum(Tail(s))
RealAcc(a) == [name |-> a.name, msg |-> a.msg, md |-> a.md, hdrs |-> {a.hdrs[i] : i \in 1..Len(a.hdrs)}, dl |-> a.dl]
RealAccs(rr) == [i \in 1..Len(rr.acc) |-> RealAcc(rr.acc[i])]

Robust(en, rr, len, hint) ==
  /\ Rep(en, "panic", rr.end # "panic")
  /\ Rep(en, "alloc", \A k \in 1..Len(rr.bufreq) : rr.bufreq[k] <= MaxFrame)
  /\ (\A k \in 1..Len(rr.bufreq) : rr.bufreq[k] <= MaxFrame) =>      \* (else "alloc" has failed; avoids 32-bit overflow)
       Rep(en, "heap", rr.heap <= HeapBase + HeapPerByte * len + 2 * Sum(rr.bufreq) + HeapPerHint * hint)

Judge(en, rr, dd, len) ==
  LET ra == RealAccs(rr)  n == Len(dd.acc)
      more == dd.free /\ Len(ra) > n /\ SubSeq(ra, 1, n) = dd.acc IN
  /\ Robust(en, rr, len, dd.hint)
  /\ rr.end # "panic" =>
       IF more THEN Rep(en, "bufreq", Len(rr.bufreq) >= Len(dd.bufreq) /\ SubSeq(rr.bufreq, 1, Len(dd.bufreq)) = dd.bufreq)
       ELSE /\ Rep(en, "accept", ra = dd.acc)
            /\ Rep(en, "end", en = "srv" \/ rr.end = dd.end)
            /\ Rep(en, "consumed", en = "srv" \/ rr.consumed = dd.consumed)
            /\ Rep(en, "bufreq", rr.bufreq = dd.bufreq)

CheckCase(e) == \E T \in {MkStream(EncodeAll(e.c.frames), e.c.cut)} :
  /\ \A en \in Entries : Judge(en, e.r[en], Decode(T, en), e.len)
  /\ Rep("all", "len", e.len = T.avail)
  /\ e.kind = "rt" => IF e.enc = "same" THEN TRUE ELSE PrintT(<<"DRIFT", l, e.enc>>)
CheckFuzz(e) == \A en \in Entries : Robust(en, e.r[en], e.len, e.len \div 4)

Init == l = 1
Step == /\ l <= Len(Trace)
        /\ l' = l + 1
        /\ LET e == Trace[l] IN IF e.kind = "fuzz" THEN CheckFuzz(e) ELSE CheckCase(e)
Spec == Init /\ [][Step]_l
====
