---- MODULE Gen_Frame ----
(* Case generator and design-level check for C23.                                               *)
(* A case = a concatenation of 1..3 abstract frames (one subject frame between fixed well-formed*)
(* neighbours), the subject being a base frame with                                             *)
(*   - no deviation                                     ("wf"; also run through the REAL encoder)*)
(*   - one length field claiming a deviation class      (kind "dev")                            *)
(*   - two deviating fields, one of them the total      (kind "dev2", thorough, subject alone)  *)
(*   - slack bytes after the deadline                   (kind "slack")                          *)
(*   - the stream cut at every field boundary of the subject and boundary +-1  (kind "cut")     *)
(* TLC evaluates the decoder of Frame.tla for every entry point on every case (theorems below)  *)
(* and prints the case with its bytes (chunk list) as JSON for the Go driver.                   *)
EXTENDS Frame
CONSTANTS Bases,        \* set of base frames (no deviation)
          Contexts,     \* set of <<frames before, frames after>>
          CtxOk(_, _),  \* which contexts a base frame is put into
          U32Classes, U16Classes, NameClasses,
          Pairs,        \* BOOLEAN: also two-field deviations
          CutDevs,      \* BOOLEAN: also cut the deviating frames at their end -1
          CutInCtx      \* BOOLEAN: cut the subject also when it has neighbours (else only when alone)

VARIABLES c, dec
NoCase == [kind |-> "seed", frames |-> <<>>, pos |-> 0, cut |-> -1, wf |-> FALSE]

ClassesOf(fld) == IF fld \in {"total", "metaLen"} THEN U32Classes
                  ELSE IF fld = "nameLen" THEN U32Classes \cup NameClasses ELSE U16Classes
DevOk(f, fld, cls) == /\ (cls = "m1" => Actual(f, fld) > 0)
                      /\ ClassVal(cls, Actual(f, fld)) # Actual(f, fld)
Dev1(f) == {<<[f |-> fld, c |-> cls]>> : fld \in Fields(f), cls \in U32Classes \cup U16Classes \cup NameClasses}
Devs1(f) == {x \in Dev1(f) : x[1].c \in ClassesOf(x[1].f) /\ DevOk(f, x[1].f, x[1].c)}
Devs2(f) == {d1 \o d2 : d1 \in {x \in Devs1(f) : x[1].f = "total"}, d2 \in {x \in Devs1(f) : x[1].f # "total"}}

RECURSIVE PieceEnds(_, _)
PieceEnds(ps, acc) == IF ps = <<>> THEN {} ELSE {acc + Head(ps).n} \cup PieceEnds(Tail(ps), acc + Head(ps).n)
Cuts(f) == {b + k : b \in PieceEnds(Encode(f), 0) \cup {0}, k \in {-1, 0, 1}} \cap 0..(TotalLen(f) - 1)

Mk(kind, pre, f, post, cut) ==
  [kind |-> kind, frames |-> pre \o <<f>> \o post, pos |-> Len(pre) + 1,
   cut |-> IF cut < 0 THEN -1 ELSE StartOf(pre \o <<f>>, Len(pre) + 1) + cut,
   wf |-> kind = "wf"]

SOf(cc) == MkStream(EncodeAll(cc.frames), cc.cut)
DecOf(T) == [en \in Entries |-> [Decode(T, en) EXCEPT !.oob = FALSE] @@ [avail |-> T.avail, len |-> T.len]]
NoDec == [en \in Entries |-> Out(<<>>, "", 0, <<>>, FALSE, FALSE, 0) @@ [avail |-> 0, len |-> 0]]

Init == c = NoCase /\ dec = NoDec
(* \E over a singleton binds a VALUE (a LET would be re-evaluated at every use) *)
Set(cc0) == \E cc \in {cc0} : \E T \in {SOf(cc)} : c' = cc /\ dec' = DecOf(T)
(* seed -> one "base" state per (base frame, context) -> its cases: lets TLC's workers share the decoding *)
PickBase == /\ c.kind = "seed"
            /\ \E f \in Bases, x \in Contexts : CtxOk(f, x) /\ c' = Mk("base", x[1], f, x[2], -1) /\ dec' = NoDec
Pick == /\ c.kind = "base"
        /\ LET f == c.frames[c.pos]
               pre == SubSeq(c.frames, 1, c.pos - 1)
               post == SubSeq(c.frames, c.pos + 1, Len(c.frames)) IN
             \/ Set(Mk("wf", pre, f, post, -1))
             \/ \E dv \in Devs1(f) : Set(Mk("dev", pre, [f EXCEPT !.dev = dv], post, -1))
             \/ Pairs /\ Len(c.frames) = 1 /\ \E dv \in Devs2(f) : Set(Mk("dev2", pre, [f EXCEPT !.dev = dv], post, -1))
             \/ f.fmt = "meta" /\ f.md /\ Set(Mk("slack", pre, [f EXCEPT !.slack = 1], post, -1))
             \/ (CutInCtx \/ Len(c.frames) = 1) /\ \E k \in Cuts(f) : Set(Mk("cut", pre, f, post, k))
             \/ CutDevs /\ Len(c.frames) = 1 /\ \E dv \in Devs1(f) : Set(Mk("devcut", pre, [f EXCEPT !.dev = dv], post, TotalLen(f) - 1))
Next == PickBase \/ Pick
Spec == Init /\ [][Next]_<<c, dec>>

Case == [c |-> c, chunks |-> SOf(c).ch, cut |-> c.cut]
Emit == IF c.kind \in {"seed", "base"} THEN TRUE ELSE PrintT(<<"CASE", ToJson(Case)>>)

(* ---- theorems on the model decoder (dec[en] = its result for entry point en on this case) ---- *)
Avail == dec["cli"].avail
G(en) == GoodPrefix(c.frames, en, Avail, 1)
EndOf(g) == IF g = 0 THEN 0 ELSE StartOf(c.frames, g) + TotalLen(c.frames[g])
Live == c.kind \notin {"seed", "base"}
(* every well-formed, completely present leading frame is accepted and decodes to its message, in order *)
InvRoundTrip == Live => \A en \in Entries : LET g == G(en) IN
                  /\ Len(dec[en].acc) >= g
                  /\ \A i \in 1..g : dec[en].acc[i] = MessageOf(c.frames[i])
(* nothing else is accepted: accept iff well-formed *)
InvRejects == Live => \A en \in Entries : Len(dec[en].acc) <= G(en)
(* the stream ends cleanly iff the bytes present are exactly the accepted frames *)
InvEnd == Live => \A en \in Entries :
            /\ dec[en].end \in {"eof", "err"}
            /\ (dec[en].end = "eof") <=> (Avail = EndOf(G(en)))
            /\ dec[en].end = "eof" => dec[en].consumed = Avail
(* a reject does not consume beyond the claimed length of the rejected frame *)
InvConsume == Live => LET r == dec["cli"]  j == Len(r.acc) + 1 IN
                (r.end = "err" /\ j <= Len(c.frames)) =>
                   LET st == StartOf(c.frames, j)  tl == Claim(c.frames[j], "total") IN
                   r.consumed <= Min(Avail, st + (IF tl < 8 \/ tl > MaxFrame THEN 4 ELSE tl))
(* allocation: no buffer beyond the frame limit, no header map beyond what the section can hold *)
InvAlloc == Live => \A en \in Entries :
              /\ \A k \in 1..Len(dec[en].bufreq) : dec[en].bufreq[k] <= MaxFrame
              /\ 4 * dec[en].hint + 10 <= MaxFrame
              /\ en \in {"ser", "serm"} => dec[en].bufreq = <<>>
====
