SPECIFICATION Spec
CONSTANTS
  Defects = {}
  Bases <- T_Bases
  Contexts <- T_Contexts
  CtxOk <- All_CtxOk
  U32Classes <- C_U32
  U16Classes <- C_U16
  NameClasses <- C_Name
  Pairs = TRUE
  CutInCtx = TRUE
  CutDevs = TRUE
CONSTRAINT Emit
INVARIANTS InvRoundTrip InvRejects InvEnd InvConsume InvAlloc
CHECK_DEADLOCK FALSE
