---- MODULE Frame ----
(* C23 -- wire frames of goakt's proto-over-TCP transport (internal/net).                      *)
(*                                                                                              *)
(* Part 1  byte strings as chunk lists (explicit bytes or a run v^n), so that 64 KiB keys and   *)
(*         256 KiB payloads cost nothing and every length field can still be read at ANY offset *)
(*         (claims that disagree with the layout make the decoder read misaligned fields).      *)
(* Part 2  the frame GRAMMAR as an encoder over ABSTRACT frames: message shape, metadata        *)
(*         (headers with actual key / value lengths, deadline class, slack bytes) and, per      *)
(*         length field, the value the frame CLAIMS (deviation classes) versus the layout.      *)
(* Part 3  the DECODER, one operator per step of the Go code, same order of checks:             *)
(*           ReadFrame   readProtoFrame / handleConn: length prefix, <8, >max, allocate, body   *)
(*           Legacy      ProtoSerializer.UnmarshalBinary                                        *)
(*           Meta        ProtoSerializer.UnmarshalBinaryWithMetadata                            *)
(*           MetaSection Metadata.UnmarshalBinary (count, per header klen/key/vlen/val, deadline)*)
(*           DetectCli   Client.unmarshalProtoResponse      DetectSrv  handleConn's detection   *)
(*           Stream      the loop of each entry point over a concatenation                      *)
(*         Every byte read goes through Byte/Region, which assert that the offset is inside the *)
(*         bytes that are really there (S.avail): an out-of-range read of the MODEL stops TLC.  *)
(*         Every frame-buffer request is listed in bufreq, the header-map size hint in hint.    *)
(* Part 4  well-formedness of an abstract case and the theorems (checked by TLC in Gen_Frame).  *)
(*                                                                                              *)
(* Two environment oracles are idealised: the protobuf registry (a name region is a known type  *)
(* iff it is byte-equal to a catalogue name) and the protobuf parser (a payload region parses   *)
(* iff it is byte-equal to the payload of a catalogue message of that type, or is empty); a     *)
(* decode that asked the parser about any other region is marked `free` and the monitor does    *)
(* not judge beyond that point.                                                                 *)
(*                                                                                              *)
(* Defects = {} is the strict design.  Named deviations of the code as found:                   *)
(*   "MetaSlack"     Metadata.UnmarshalBinary ignores bytes after the deadline                  *)
(*   "CountPresize"  Metadata.UnmarshalBinary sizes the header map by the claimed count before  *)
(*                   checking that the section can hold that many headers                       *)
(* Model-only mutant (used to show the allocation theorem bites): "NoMaxCheck".                 *)
EXTENDS Integers, Sequences, FiniteSets, TLC, Json
CONSTANTS Defects

(* The catalogue [max, future, past, msgs: Seq([id, tname, name, pay, plen])]: frame limit, the    *)
(* two deadline encodings, and the real type names / protobuf payloads (run-length form) of the    *)
(* chosen internalpb messages. Written by the driver (`wirecodec catalogue <max>`); a definition,   *)
(* not a CONSTANT, because TLC re-reads the file on every reference to a substituted constant.      *)
Cat == JsonDeserialize("catalogue.json")

MaxFrame == Cat.max
Huge == 536870912          \* stands for every u32 >= 2^29 (TLC integers are 32 bit); written as 0xFFFFFFFF
Min(a, b) == IF a < b THEN a ELSE b
Max(a, b) == IF a > b THEN a ELSE b

(* ------------------------------------------------------------------ Part 1: byte strings *)
X(b)    == [b |-> b, v |-> 0, n |-> Len(b)]
R(v, n) == [b |-> <<>>, v |-> v, n |-> n]
Fill(v, n) == IF n <= 8 THEN X([i \in 1..n |-> v]) ELSE R(v, n)

RECURSIVE Norm(_)
Norm(ps) == IF ps = <<>> THEN <<>>
            ELSE LET h == Head(ps)  t == Norm(Tail(ps)) IN
                 IF h.n = 0 THEN t
                 ELSE IF t # <<>> /\ h.b # <<>> /\ Head(t).b # <<>>
                      THEN <<X(h.b \o Head(t).b)>> \o Tail(t)
                      ELSE <<h>> \o t
RECURSIVE Ends(_, _)
Ends(ch, acc) == IF ch = <<>> THEN <<>> ELSE <<acc + Head(ch).n>> \o Ends(Tail(ch), acc + Head(ch).n)

MkStream(pieces, cut) ==
  LET ch == Norm(pieces)
      en == Ends(ch, 0)
      ln == IF en = <<>> THEN 0 ELSE en[Len(en)]
  IN [ch |-> ch, en |-> en, len |-> ln, avail |-> IF cut < 0 THEN ln ELSE Min(cut, ln)]

ChunkOf(S, o) == CHOOSE i \in 1..Len(S.ch) : o < S.en[i] /\ (i = 1 \/ S.en[i-1] <= o)
Byte(S, o) == IF o < 0 \/ o >= S.avail THEN Assert(FALSE, <<"out-of-range read at", o, S.avail>>) ELSE
              LET i == ChunkOf(S, o)  c == S.ch[i] IN
              IF c.b # <<>> THEN c.b[o - (S.en[i] - c.n) + 1] ELSE c.v

(* run-length form of the region [a, b) -- how decoded keys, values and payloads are compared *)
RECURSIVE Merge(_)
Merge(rs) == IF Len(rs) < 2 THEN rs
             ELSE LET t == Merge(Tail(rs)) IN
                  IF Head(rs)[1] = Head(t)[1] THEN <<<<Head(rs)[1], Head(rs)[2] + Head(t)[2]>>>> \o Tail(t)
                  ELSE <<Head(rs)>> \o t
RECURSIVE Cat2(_)
Cat2(ss) == IF ss = <<>> THEN <<>> ELSE Head(ss) \o Cat2(Tail(ss))
Region(S, a, b) ==
  IF a >= b THEN <<>> ELSE IF a < 0 \/ b > S.avail THEN Assert(FALSE, <<"out-of-range slice", a, b, S.avail>>) ELSE
  LET i0 == ChunkOf(S, a)  i1 == ChunkOf(S, b - 1)
      part(i) == LET c == S.ch[i]  s == S.en[i] - c.n
                     lo == Max(a, s)  hi == Min(b, S.en[i]) IN
                 IF c.b # <<>> THEN [k \in 1..(hi - lo) |-> <<c.b[lo - s + k], 1>>]
                 ELSE <<<<c.v, hi - lo>>>>
  IN Merge(Cat2([k \in 1..(i1 - i0 + 1) |-> part(i0 + k - 1)]))
RunsOf(bs) == Merge([k \in 1..Len(bs) |-> <<bs[k], 1>>])
PayRuns(m) == Merge([k \in 1..Len(m.pay) |-> <<m.pay[k][1], m.pay[k][2]>>])

(* ------------------------------------------------------------------ Part 2: grammar / encoder *)
U32B(x) == IF x >= Huge THEN <<255, 255, 255, 255>>
           ELSE <<x \div 16777216, (x \div 65536) % 256, (x \div 256) % 256, x % 256>>
U16B(x) == <<(x \div 256) % 256, x % 256>>
KeyByte(i) == <<107, 113, 120>>[((i - 1) % 3) + 1]      \* 'k' 'q' 'x'
ValByte(i) == <<118, 119, 121>>[((i - 1) % 3) + 1]      \* 'v' 'w' 'y'
DeadlineBytes(dl) == CASE dl = "future" -> Cat.future [] dl = "past" -> Cat.past [] OTHER -> <<0,0,0,0,0,0,0,0>>

MsgOf(f) == Cat.msgs[CHOOSE j \in 1..Len(Cat.msgs) : Cat.msgs[j].id = f.msg]
NameLen(f) == Len(MsgOf(f).name)
RECURSIVE HdrBytes(_)
HdrBytes(hd) == IF hd = <<>> THEN 0 ELSE 4 + Head(hd)[1] + Head(hd)[2] + HdrBytes(Tail(hd))
MetaLen(f)  == IF f.fmt = "meta" /\ f.md THEN 2 + HdrBytes(f.hd) + 8 + f.slack ELSE 0
TotalLen(f) == IF f.fmt = "legacy" THEN 8 + NameLen(f) + MsgOf(f).plen
               ELSE 12 + NameLen(f) + MetaLen(f) + MsgOf(f).plen

(* the value a length field has in the layout, and the value the frame claims *)
Actual(f, fld) == CASE fld = "total"   -> TotalLen(f)
                    [] fld = "nameLen" -> NameLen(f)
                    [] fld = "metaLen" -> MetaLen(f)
                    [] fld = "count"   -> Len(f.hd)
                    [] fld = "k1" -> f.hd[1][1] [] fld = "v1" -> f.hd[1][2]
                    [] fld = "k2" -> f.hd[2][1] [] fld = "v2" -> f.hd[2][2]
ClassVal(cls, act) == CASE cls = "m1" -> act - 1 [] cls = "p1" -> act + 1 [] cls = "zero" -> 0
                        [] cls = "c7" -> 7 [] cls = "c8" -> 8 [] cls = "c11" -> 11 [] cls = "c12" -> 12
                        [] cls = "c255" -> 255 [] cls = "c256" -> 256
                        [] cls = "maxm1" -> MaxFrame - 1 [] cls = "max" -> MaxFrame [] cls = "maxp1" -> MaxFrame + 1
                        [] cls = "ffff" -> 65535 [] cls = "huge" -> Huge
Claim(f, fld) == LET ds == {i \in 1..Len(f.dev) : f.dev[i].f = fld} IN
                 IF ds = {} THEN Actual(f, fld) ELSE ClassVal(f.dev[CHOOSE i \in ds : TRUE].c, Actual(f, fld))
Fields(f) == {"total", "nameLen"} \cup (IF f.fmt = "meta" THEN {"metaLen"} ELSE {})
             \cup (IF f.fmt = "meta" /\ f.md THEN {"count"} \cup (IF Len(f.hd) >= 1 THEN {"k1", "v1"} ELSE {})
                                                       \cup (IF Len(f.hd) >= 2 THEN {"k2", "v2"} ELSE {}) ELSE {})
Honest(f) == \A fld \in Fields(f) : Claim(f, fld) = Actual(f, fld)

PayPieces(f) == [k \in 1..Len(MsgOf(f).pay) |-> Fill(MsgOf(f).pay[k][1], MsgOf(f).pay[k][2])]
HdrPieces(f, i) == LET ks == IF i = 1 THEN "k1" ELSE "k2"  vs == IF i = 1 THEN "v1" ELSE "v2" IN
                   << X(U16B(Claim(f, ks))), Fill(KeyByte(i), f.hd[i][1]),
                      X(U16B(Claim(f, vs))), Fill(ValByte(i), f.hd[i][2]) >>
MetaPieces(f) == IF ~(f.fmt = "meta" /\ f.md) THEN <<>>
                 ELSE <<X(U16B(Claim(f, "count")))>> \o Cat2([i \in 1..Len(f.hd) |-> HdrPieces(f, i)])
                      \o <<X(DeadlineBytes(f.dl)), Fill(0, f.slack)>>
Encode(f) == IF f.fmt = "legacy"
             THEN <<X(U32B(Claim(f, "total"))), X(U32B(Claim(f, "nameLen"))), X(MsgOf(f).name)>> \o PayPieces(f)
             ELSE <<X(U32B(Claim(f, "total"))), X(U32B(Claim(f, "nameLen"))), X(U32B(Claim(f, "metaLen"))), X(MsgOf(f).name)>>
                  \o MetaPieces(f) \o PayPieces(f)
EncodeAll(fs) == Cat2([i \in 1..Len(fs) |-> Encode(fs[i])])
RECURSIVE StartOf(_, _)
StartOf(fs, i) == IF i = 1 THEN 0 ELSE StartOf(fs, i - 1) + TotalLen(fs[i - 1])

(* ------------------------------------------------------------------ Part 3: decoder *)
(* guarded reads: lim is the end of the region the code has checked to be present *)
U16(S, o) == Byte(S, o) * 256 + Byte(S, o + 1)
U32(S, o) == IF Byte(S, o) >= 32 THEN Huge
             ELSE Byte(S, o) * 16777216 + Byte(S, o + 1) * 65536 + Byte(S, o + 2) * 256 + Byte(S, o + 3)

(* decode result of one frame; `oob` is kept for the record shape only: out-of-range reads of the model are
   asserted in Byte / Region and stop TLC *)
Rej(free, oob, hint) == [ok |-> FALSE, free |-> free, oob |-> oob, hint |-> hint, f |-> <<>>]
Acc(fr, hint)        == [ok |-> TRUE,  free |-> FALSE, oob |-> FALSE, hint |-> hint, f |-> <<fr>>]

(* registry oracle, idealised: the region names a type iff it equals a catalogue name *)
TNames == {Cat.msgs[j].tname : j \in 1..Len(Cat.msgs)}
TNameRuns == [t \in TNames |-> RunsOf(Cat.msgs[CHOOSE j \in 1..Len(Cat.msgs) : Cat.msgs[j].tname = t].name)]
TNameLen  == [t \in TNames |-> Len(Cat.msgs[CHOOSE j \in 1..Len(Cat.msgs) : Cat.msgs[j].tname = t].name)]
PayRunsOf == [j \in 1..Len(Cat.msgs) |-> PayRuns(Cat.msgs[j])]
NameIdx(S, a, nl) == IF \A t \in TNames : TNameLen[t] # nl THEN {}
                     ELSE LET rg == Region(S, a, a + nl) IN {t \in TNames : TNameLen[t] = nl /\ rg = TNameRuns[t]}
(* parser oracle, idealised *)
PayIdx(S, a, b, tname) == LET js == {j \in 1..Len(Cat.msgs) : Cat.msgs[j].tname = tname /\ Cat.msgs[j].plen = b - a} IN
                          IF js = {} THEN {} ELSE LET rg == Region(S, a, b) IN {j \in js : rg = PayRunsOf[j]}

(* proto.Unmarshal(data[a:b]) into a new message of the named type *)
Payload(S, a, b, tname, md, hint) ==
  LET js == PayIdx(S, a, b, tname) IN
  IF js # {} THEN Acc([name |-> tname, msg |-> Cat.msgs[CHOOSE j \in js : TRUE].id, md |-> md.present, hdrs |-> md.hdrs, dl |-> md.dl], hint)
  ELSE IF a = b THEN Acc([name |-> tname, msg |-> "other", md |-> md.present, hdrs |-> md.hdrs, dl |-> md.dl], hint)
  ELSE Rej(TRUE, FALSE, hint)
NoMD == [present |-> FALSE, hdrs |-> {}, dl |-> "none"]

(* Metadata.UnmarshalBinary(data[s:e]) *)
DlClass(S, p) == LET r == Region(S, p, p + 8) IN
                 IF r = RunsOf(Cat.future) THEN "future" ELSE IF r = RunsOf(Cat.past) THEN "past"
                 ELSE IF r = <<<<0, 8>>>> THEN "none" ELSE "other"
RECURSIVE MetaHeaders(_, _, _, _, _)
(* returns [ok, p, hdrs] after reading `left` headers from position p *)
MetaHeaders(S, p, e, left, hdrs) ==
  IF left = 0 THEN [ok |-> TRUE, p |-> p, hdrs |-> hdrs]
  ELSE IF p + 2 > e THEN [ok |-> FALSE, p |-> p, hdrs |-> hdrs]
  ELSE LET kl == U16(S, p) IN
       IF p + 2 + kl > e THEN [ok |-> FALSE, p |-> p, hdrs |-> hdrs]
       ELSE LET q == p + 2 + kl IN
            IF q + 2 > e THEN [ok |-> FALSE, p |-> p, hdrs |-> hdrs]
            ELSE LET vl == U16(S, q) IN
                 IF q + 2 + vl > e THEN [ok |-> FALSE, p |-> p, hdrs |-> hdrs]
                 ELSE LET k == Region(S, p + 2, q)  v == Region(S, q + 2, q + 2 + vl) IN
                      MetaHeaders(S, q + 2 + vl, e, left - 1, {h \in hdrs : h[1] # k} \cup {<<k, v>>})
MapHint(count, len) == IF "CountPresize" \in Defects THEN count ELSE Min(count, (len - 10) \div 4)
MetaSection(S, s, e) ==
  IF e - s < 10 THEN [ok |-> FALSE, hint |-> 0, md |-> NoMD]
  ELSE LET count == U16(S, s)
           hint == MapHint(count, e - s)
           h == IF hint < count THEN [ok |-> FALSE, p |-> s, hdrs |-> {}] ELSE MetaHeaders(S, s + 2, e, count, {}) IN
       IF ~h.ok THEN [ok |-> FALSE, hint |-> hint, md |-> NoMD]
       ELSE IF (IF "MetaSlack" \in Defects THEN h.p + 8 > e ELSE h.p + 8 # e) THEN [ok |-> FALSE, hint |-> hint, md |-> NoMD]
       ELSE [ok |-> TRUE, hint |-> hint, md |-> [present |-> TRUE, hdrs |-> h.hdrs, dl |-> DlClass(S, h.p)]]

(* ProtoSerializer.UnmarshalBinary(data), data = [pos, pos+dlen) *)
Legacy(S, pos, dlen) ==
  IF dlen < 8 THEN Rej(FALSE, FALSE, 0)
  ELSE LET ml == U32(S, pos) IN
  IF dlen < ml \/ ml < 8 THEN Rej(FALSE, FALSE, 0)
  ELSE LET nl == U32(S, pos + 4) IN
  IF 8 + nl > ml THEN Rej(FALSE, FALSE, 0)
  ELSE LET js == NameIdx(S, pos + 8, nl) IN
  IF js = {} THEN Rej(FALSE, FALSE, 0)
  ELSE Payload(S, pos + 8 + nl, pos + ml, CHOOSE t \in js : TRUE, NoMD, 0)

(* ProtoSerializer.UnmarshalBinaryWithMetadata(data) *)
Meta(S, pos, dlen) ==
  IF dlen < 12 THEN Rej(FALSE, FALSE, 0)
  ELSE LET ml == U32(S, pos) IN
  IF dlen < ml \/ ml < 12 THEN Rej(FALSE, FALSE, 0)
  ELSE LET nl == U32(S, pos + 4)  mlen == U32(S, pos + 8) IN
  IF 12 + nl + mlen > ml THEN Rej(FALSE, FALSE, 0)
  ELSE LET js == NameIdx(S, pos + 12, nl) IN
  IF js = {} THEN [Rej(FALSE, FALSE, 0) EXCEPT !.f = <<"type">>]
  ELSE LET tn == CHOOSE t \in js : TRUE
           ms == pos + 12 + nl
           m  == IF mlen > 0 THEN MetaSection(S, ms, ms + mlen) ELSE [ok |-> TRUE, hint |-> 0, md |-> NoMD] IN
       IF ~m.ok THEN [Rej(FALSE, FALSE, m.hint) EXCEPT !.f = <<"meta">>]
       ELSE LET r == Payload(S, ms + mlen, pos + ml, tn, m.md, m.hint) IN
            IF r.ok THEN r ELSE [r EXCEPT !.f = <<"proto">>]
(* the error class of a rejected Meta: "len" (ErrInvalidMessageLength) or type / meta / proto *)
MetaErr(r) == IF r.ok THEN "" ELSE IF r.f = <<>> THEN "len" ELSE r.f[1]
Clean(r) == IF r.ok THEN r ELSE [r EXCEPT !.f = <<>>]
Join(r1, r2) == [r2 EXCEPT !.free = r1.free \/ r2.free, !.oob = r1.oob \/ r2.oob, !.hint = Max(r1.hint, r2.hint)]

(* Client.unmarshalProtoResponse(frame) *)
DetectCli(S, pos, dlen) ==
  IF dlen < 12 THEN Legacy(S, pos, dlen)
  ELSE LET tl == U32(S, pos)  nl == U32(S, pos + 4)  pm == U32(S, pos + 8) IN
       IF nl > 0 /\ nl < 256 /\ 12 + nl + pm <= tl
       THEN LET r == Meta(S, pos, dlen) IN IF r.ok THEN r ELSE Join(Clean(r), Legacy(S, pos, dlen))
       ELSE Legacy(S, pos, dlen)
(* handleConn: metadata format first, legacy only after ErrInvalidMessageLength *)
DetectSrv(S, pos, dlen) ==
  IF dlen >= 12
  THEN LET r == Meta(S, pos, dlen) IN
       IF MetaErr(r) = "len" THEN Join(Clean(r), Legacy(S, pos, dlen)) ELSE Clean(r)
  ELSE Legacy(S, pos, dlen)

(* readProtoFrame / the head of handleConn's loop at stream position pos *)
ReadFrame(S, pos) ==
  IF S.avail - pos < 4 THEN [st |-> IF S.avail = pos THEN "eof" ELSE "err", consumed |-> S.avail, req |-> <<>>, len |-> 0]
  ELSE LET tl == U32(S, pos) IN
  IF tl < 8 THEN [st |-> "err", consumed |-> pos + 4, req |-> <<>>, len |-> 0]
  ELSE IF tl > MaxFrame /\ "NoMaxCheck" \notin Defects THEN [st |-> "err", consumed |-> pos + 4, req |-> <<>>, len |-> 0]
  ELSE IF S.avail - pos < tl THEN [st |-> "err", consumed |-> S.avail, req |-> <<tl>>, len |-> 0]
  ELSE [st |-> "frame", consumed |-> pos + tl, req |-> <<tl>>, len |-> tl]

Entries == {"ser", "serm", "cli", "srv"}
Out(acc, end, consumed, req, free, oob, hint) ==
  [acc |-> acc, end |-> end, consumed |-> consumed, bufreq |-> req, free |-> free, oob |-> oob, hint |-> hint]

RECURSIVE Stream(_, _, _, _)
(* o = what has been decoded so far; the loop of entry point en continues at pos *)
Stream(S, en, pos, o) ==
  IF en \in {"ser", "serm"}
  THEN IF pos >= S.avail THEN [o EXCEPT !.end = "eof", !.consumed = pos]
       ELSE LET r == IF en = "ser" THEN Legacy(S, pos, S.avail - pos) ELSE Clean(Meta(S, pos, S.avail - pos))
                o2 == [o EXCEPT !.free = @ \/ r.free, !.oob = @ \/ r.oob, !.hint = Max(@, r.hint), !.consumed = pos] IN
            IF ~r.ok THEN [o2 EXCEPT !.end = "err"]
            ELSE Stream(S, en, pos + U32(S, pos), [o2 EXCEPT !.acc = @ \o r.f])
  ELSE LET fr == ReadFrame(S, pos)
           o1 == [o EXCEPT !.consumed = fr.consumed, !.bufreq = @ \o fr.req] IN
       IF fr.st # "frame" THEN [o1 EXCEPT !.end = fr.st]
       ELSE LET r == IF en = "cli" THEN DetectCli(S, pos, fr.len) ELSE DetectSrv(S, pos, fr.len)
                o2 == [o1 EXCEPT !.free = @ \/ r.free, !.oob = @ \/ r.oob, !.hint = Max(@, r.hint)] IN
            IF ~r.ok THEN [o2 EXCEPT !.end = "err"]
            ELSE Stream(S, en, pos + fr.len, [o2 EXCEPT !.acc = @ \o r.f])
Decode(S, en) == Stream(S, en, 0, Out(<<>>, "", 0, <<>>, FALSE, FALSE, 0))

(* ------------------------------------------------------------------ Part 4: well-formedness, theorems *)
(* the message an abstract frame stands for *)
HdrSet(f) == IF f.fmt = "meta" /\ f.md
             THEN {<<Merge(<<<<KeyByte(i), f.hd[i][1]>>>>), Merge(<<<<ValByte(i), f.hd[i][2]>>>>)>> : i \in 1..Len(f.hd)} ELSE {}
Z(rs) == IF rs # <<>> /\ rs[1][2] = 0 THEN <<>> ELSE rs
HdrSetN(f) == {<<Z(h[1]), Z(h[2])>> : h \in HdrSet(f)}
MessageOf(f) == [name |-> MsgOf(f).tname, msg |-> MsgOf(f).id, md |-> f.fmt = "meta" /\ f.md,
                 hdrs |-> HdrSetN(f), dl |-> IF f.fmt = "meta" /\ f.md THEN f.dl ELSE "none"]
(* which frames an entry point is meant to understand *)
Speaks(en, f) == CASE en = "ser" -> f.fmt = "legacy" [] en = "serm" -> f.fmt = "meta" [] OTHER -> TRUE
Limited(en) == en \in {"cli", "srv"}
WellFormedFrame(f, en) ==
  /\ Honest(f) /\ Speaks(en, f)
  /\ (f.slack = 0 \/ "MetaSlack" \in Defects)
  /\ Limited(en) => TotalLen(f) <= MaxFrame
(* number of leading frames that are well-formed and completely present *)
RECURSIVE GoodPrefix(_, _, _, _)
GoodPrefix(fs, en, avail, i) ==
  IF i > Len(fs) THEN 0
  ELSE IF WellFormedFrame(fs[i], en) /\ StartOf(fs, i) + TotalLen(fs[i]) <= avail THEN 1 + GoodPrefix(fs, en, avail, i + 1)
  ELSE 0
====
