SPECIFICATION Spec
CONSTANTS
  Producers = {"p1", "p2"}
  NMsgs <- Msgs21
  Budget = 2
  MaxTurns = 4
  Restarts = 0
  Stops = 0
  Pills = 0
  Defects = {"StopRace"}
  RankOf <- Ranks
VIEW View
INVARIANTS SingleHandler SingleOwner OwnerIsProcessing NoDuplicate HandledWereSent PerProducerFIFO NoStrand
CHECK_DEADLOCK FALSE
