SPECIFICATION FairSpec
CONSTANTS
  Producers = {"p1", "p2"}
  NMsgs <- Msgs21
  Budget = 2
  MaxTurns = 7
  Restarts = 0
  Stops = 0
  Pills = 0
  Defects = {"StopRace"}
  RankOf <- Ranks
INVARIANTS TokensSuffice
PROPERTIES EventuallyDrained
CHECK_DEADLOCK FALSE
