SPECIFICATION Spec
CONSTANTS
  Producers = {"p1", "p2"}
  NMsgs <- Msgs21
  Budget = 2
  MaxTurns = 4
  Restarts = 1
  Stops = 0
  Pills = 0
  Defects = {"StopRace"}
  RankOf <- Ranks
VIEW View
INVARIANTS SingleHandler SingleOwner NoDuplicate HandledWereSent PerProducerFIFO NoStrand
CHECK_DEADLOCK FALSE
