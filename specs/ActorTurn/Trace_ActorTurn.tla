--------------------------- MODULE Trace_ActorTurn ---------------------------
(* Conformance (code -> spec): the gate-by-gate executions that the random-schedule    *)
(* explorer drives on the REAL actor system must be behaviours of ActorTurn.tla.        *)
(* A "step" line says which logical thread was released from which hook point (and      *)
(* which mailbox the hook belongs to); the action of ActorTurn with that thread and     *)
(* that hook must be enabled, and TLC follows it.  Dispatcher workers are adopted in    *)
(* arrival order, so worker names are bound to turn tokens by TLC (`bind`).  Other      *)
(* lines (handler / lifecycle events) are skipped here - TurnMonitor.tla judges them.   *)
(* <<"CONF", line>> is printed at every history boundary that is reached; a history in  *)
(* which some step has no matching enabled action is a drift (not a verdict).           *)
EXTENDS ActorTurn, Json

Trace == ndJsonDeserialize("trace.ndjson")
VARIABLES l, bind,         \* bind: set of <<worker-name, token>>
          skipping         \* the rest of this history is not comparable (a released thread blocked inside the
                           \* code, so steps overlapped: the explorer logs such steps as "concurrent")

tvars == <<vars, l, bind, skipping>>

Bound(t) == \E b \in bind : b[1] = t
TokenOf(t) == (CHOOSE b \in bind : b[1] = t)[2]
FreeTokens == {k \in Turns : tpc[k] = "take" /\ ~\E b \in bind : b[2] = k}

ProducerStep(p, at) ==
  CASE at = "call" -> Call(p)
    [] at = "mpsc.enq.swap" -> Swap(p)
    [] at = "mpsc.enq.link" -> Link(p)
    [] at = "ds.ts.load" -> PTSLoad(p)
    [] at = "ds.ts.cas" -> PTSCas(p)
    [] at = "turn.push" -> Push(p)
    [] OTHER -> FALSE

TurnStep(k, at, on) ==
  CASE at = "ds.take.cas" -> Take(k)
    [] at = "mpsc.deq" /\ on = "system" -> DeqSys(k)
    [] at = "mpsc.deq" /\ on = "user" -> DeqUser(k)
    [] at = "h.enter" -> Enter(k)
    [] at = "h.exit" -> Exit(k)
    [] at = "ds.reset" -> FinReset(k)
    [] at = "mpsc.isempty" /\ on = "user" -> FinEmptyU(k)
    [] at = "mpsc.isempty" /\ on = "system" -> FinEmptyS(k)
    [] at = "ds.ts.load" -> TTSLoad(k)
    [] at = "ds.ts.cas" -> TTSCas(k)
    [] at = "ds.yield" -> Yield(k)
    [] at = "turn.resched" -> Resched(k)
    [] at = "stop.lock" -> TLock(k)
    [] at = "ps.enter" -> TPsEnter(k)
    [] at = "ps.exit" -> TPsExit(k)
    [] OTHER -> FALSE

RestartStep(at) ==
  CASE at = "rcall" -> RCall
    [] at = "stop.lock" -> RLock
    [] at = "ps.enter" -> RPsEnter
    [] at = "ps.exit" -> RPsExit
    [] at = "restart.wait" -> RWait
    [] at = "restart.init" -> RInit
    [] at = "ds.reset" -> RReset
    [] at = "mpsc.enq.swap" -> RPostStart
    [] at = "mpsc.enq.link" -> RPSLink
    [] at = "ds.ts.load" -> RTSLoad
    [] at = "ds.ts.cas" -> RTSCas
    [] at = "turn.push" -> RPush
    [] OTHER -> FALSE

StopStep(at) ==
  CASE at = "scall" -> SCall
    [] at = "stop.lock" -> SLock
    [] at = "ps.enter" -> SPsEnter
    [] at = "ps.exit" -> SPsExit
    [] OTHER -> FALSE

KillStep(at) ==
  CASE at = "kcall" -> KCall
    [] at = "mpsc.enq.swap" -> KSwap
    [] at = "mpsc.enq.link" -> KLink
    [] at = "ds.ts.load" -> KTSLoad
    [] at = "ds.ts.cas" -> KTSCas
    [] at = "turn.push" -> KPush
    [] OTHER -> FALSE

TNew == /\ sched' = "Idle" /\ mbox' = <<>> /\ sys' = <<>> /\ life' = "running"
        /\ ppc' = [p \in Producers |-> "idle"] /\ pk' = [p \in Producers |-> 1]
        /\ tpc' = [k \in Turns |-> "none"] /\ titer' = [k \in Turns |-> 0] /\ tcur' = [k \in Turns |-> 0]
        /\ nturn' = 0 /\ rpc' = "idle" /\ rleft' = Restarts
        /\ inHandler' = {} /\ owners' = {} /\ sent' = <<>> /\ handled' = <<>> /\ swallowed' = {} /\ last' = "init"
        /\ spc' = (IF Stops > 0 THEN "idle" ELSE "done") /\ kpc' = (IF Pills > 0 THEN "idle" ELSE "done")
        /\ psStarted' = FALSE /\ inPS' = "" /\ psRuns' = 0 /\ lockHeld' = ""
        /\ bind' = {} /\ skipping' = FALSE

TStep ==
  /\ l <= Len(Trace)
  /\ l' = l + 1
  /\ LET e == Trace[l] IN
     CASE e.ev = "New" -> PrintT(<<"CONF", l>>) /\ TNew
       [] e.ev = "concurrent" -> skipping' = TRUE /\ UNCHANGED <<vars, bind>>
       [] e.ev = "step" /\ skipping -> UNCHANGED <<vars, bind, skipping>>
       [] e.ev = "step" ->
            /\ UNCHANGED skipping
            /\ IF e.t \in Producers THEN ProducerStep(e.t, e.at) /\ UNCHANGED bind
                 ELSE IF e.t = "r" THEN RestartStep(e.at) /\ UNCHANGED bind
                 ELSE IF e.t = "s" THEN StopStep(e.at) /\ UNCHANGED bind
                 ELSE IF e.t = "k" THEN KillStep(e.at) /\ UNCHANGED bind
                 ELSE IF Bound(e.t) THEN TurnStep(TokenOf(e.t), e.at, e.on) /\ UNCHANGED bind
                 ELSE \E k \in FreeTokens : TurnStep(k, e.at, e.on) /\ bind' = bind \cup {<<e.t, k>>}
       [] OTHER -> UNCHANGED <<vars, bind, skipping>>

TInit == Init /\ l = 1 /\ bind = {} /\ skipping = FALSE
TSpec == TInit /\ [][TStep]_tvars
=============================================================================
