SPECIFICATION Spec
CONSTANTS
  Producers = {"p1"}
  NMsgs <- Msgs2
  Budget = 2
  MaxTurns = 4
  Restarts = 1
  Defects = {}
  RankOf <- Ranks
VIEW View
CHECK_DEADLOCK FALSE
