SPECIFICATION Spec
CONSTANTS
  Producers = {"p1"}
  NMsgs <- Msgs2
  Budget = 2
  MaxTurns = 5
  Restarts = 1
  Defects = {}
  RankOf <- Ranks
VIEW View
INVARIANTS SingleHandler SingleOwner NoDuplicate HandledWereSent PerProducerFIFO NoStrand
CHECK_DEADLOCK FALSE
