SPECIFICATION Spec
CONSTANTS
  Producers = {"p1"}
  NMsgs <- Msgs1
  Budget = 2
  MaxTurns = 4
  Restarts = 1
  Defects = {"LateReset"}
  RankOf <- Ranks
VIEW View
CHECK_DEADLOCK FALSE
