SPECIFICATION Spec
CONSTANTS
  Producers = {"p1"}
  NMsgs <- Msgs1
  Budget = 2
  MaxTurns = 4
  Restarts = 1
  Stops = 0
  Pills = 0
  Defects = {"LateReset", "StopRace"}
  RankOf <- Ranks
VIEW View
CHECK_DEADLOCK FALSE
