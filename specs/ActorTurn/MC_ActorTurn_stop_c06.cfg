SPECIFICATION Spec
CONSTANTS
  Producers = {"p1"}
  NMsgs <- Msgs2
  Budget = 2
  MaxTurns = 4
  Restarts = 0
  Stops = 1
  Pills = 0
  Defects = {"StopRace"}
  RankOf <- Ranks
VIEW View
INVARIANTS SingleHandler SingleOwner NoDuplicate HandledWereSent PerProducerFIFO PostStopAtMostOnce NoReceiveDuringPostStop
PROPERTIES NoReceiveAfterPostStop
CHECK_DEADLOCK FALSE
