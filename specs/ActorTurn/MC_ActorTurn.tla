---- MODULE MC_ActorTurn ----
EXTENDS ActorTurn
View == <<sched, mbox, sys, life, ppc, pk, tpc, titer, tcur, nturn, rpc, rleft, inHandler, owners, sent, handled, swallowed, spc, kpc, psStarted, inPS, psRuns, lockHeld>>
Ranks == [p \in Producers |-> IF p = "p1" THEN 1 ELSE IF p = "p2" THEN 2 ELSE 3]
Msgs21 == [p \in Producers |-> IF p = "p1" THEN 2 ELSE 1]
Msgs22 == [p \in Producers |-> 2]
Msgs2 == [p \in Producers |-> 2]
Msgs1 == [p \in Producers |-> 1]
====
