---- MODULE MC_Trace_ActorTurn ----
EXTENDS Trace_ActorTurn
Ranks == [p \in Producers |-> IF p = "p1" THEN 1 ELSE IF p = "p2" THEN 2 ELSE 3]
Msgs3 == [p \in Producers |-> 3]
Msgs2 == [p \in Producers |-> 2]
====
