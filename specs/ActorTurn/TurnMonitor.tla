---------------------------- MODULE TurnMonitor ----------------------------
(* Property monitors for C01, C02, C03 and C06 on recorded executions of a REAL      *)
(* goakt actor.  Events (one trace line each):                                        *)
(*   New                       a fresh actor (history separator)                      *)
(*   prestart / psenter / psexit   lifecycle callbacks of the test actor (g = goroutine)*)
(*   enter / exit  (id, g)     the message handler starts / returns                   *)
(*   begin / release (t)       a dispatcher worker took / gives up the actor's turn   *)
(*   tellret (id, g = 1 ok)    a Tell returned                                        *)
(*   restartcall / restartret, stopcall / stopret                                     *)
(*   End (id = 1 if the actor went idle with empty mailboxes)                         *)
(* Every line is consumed; violations are printed as <<"MISMATCH", prop, line, what>>. *)
EXTENDS Integers, Sequences, FiniteSets, TLC, Json

Trace == ndJsonDeserialize("trace.ndjson")

VARIABLES l,
          inH,        \* set of <<id, g>> currently inside the handler
          owners,     \* set of worker names holding the turn
          accepted,   \* ids whose Tell returned nil
          handled,    \* Seq of ids in handler-exit order
          started,    \* ids whose handler has started
          disturbed,  \* a restart or stop was requested in this history
          inPS,       \* goroutine currently inside PostStop, or 0
          psCount,    \* PostStop runs in the current incarnation
          psStarted,  \* PostStop has started in the current incarnation
          preStarted  \* PreStart completed for the current incarnation

vars == <<l, inH, owners, accepted, handled, started, disturbed, inPS, psCount, psStarted, preStarted>>

Fresh == /\ inH' = {} /\ owners' = {} /\ accepted' = {} /\ handled' = <<>> /\ started' = {} /\ disturbed' = FALSE
         /\ inPS' = 0 /\ psCount' = 0 /\ psStarted' = FALSE /\ preStarted' = FALSE

Init == /\ l = 1 /\ inH = {} /\ owners = {} /\ accepted = {} /\ handled = <<>> /\ started = {} /\ disturbed = FALSE
        /\ inPS = 0 /\ psCount = 0 /\ psStarted = FALSE /\ preStarted = FALSE

Bad(prop, what) == PrintT(<<"MISMATCH", prop, l, what>>)
Check(cond, prop, what) == IF cond THEN TRUE ELSE Bad(prop, what)
Ids(s) == {s[i] : i \in 1..Len(s)}
LastOf(rank) == LET idx == {i \in 1..Len(handled) : handled[i] \div 10 = rank}
                IN IF idx = {} THEN 0 ELSE handled[CHOOSE i \in idx : \A j \in idx : j <= i]

Step ==
  /\ l <= Len(Trace)
  /\ l' = l + 1
  /\ LET e == Trace[l] IN
     CASE e.ev = "New" -> Fresh
       [] e.ev = "prestart" ->
            /\ Check(\A x \in inH : x[2] = e.g, "C06", "PreStart runs on one goroutine while Receive runs on another")
            /\ preStarted' = TRUE /\ psStarted' = FALSE /\ psCount' = 0      \* a new incarnation begins
            /\ UNCHANGED <<inH, owners, accepted, handled, started, disturbed, inPS>>
       [] e.ev = "enter" ->
            /\ Check(inH = {}, "C01", "handler entered while another invocation is in progress")
            /\ Check(e.id \notin started, "C02", "message handed to the handler twice")
            /\ Check(preStarted, "C06", "Receive before PreStart completed")
            /\ Check(~psStarted, "C06", "Receive started after PostStop had started")
            /\ inH' = inH \cup {<<e.id, e.g>>} /\ started' = started \cup {e.id}
            /\ UNCHANGED <<owners, accepted, handled, disturbed, inPS, psCount, psStarted, preStarted>>
       [] e.ev = "exit" ->
            /\ Check(LastOf(e.id \div 10) < e.id, "C03", "messages of one sender handled out of send order")
            /\ inH' = {x \in inH : x[1] # e.id} /\ handled' = Append(handled, e.id)
            /\ UNCHANGED <<owners, accepted, started, disturbed, inPS, psCount, psStarted, preStarted>>
       [] e.ev = "begin" ->
            /\ Check(owners = {}, "C01", "two dispatcher workers own the actor's turn at once")
            /\ owners' = owners \cup {e.t}
            /\ UNCHANGED <<inH, accepted, handled, started, disturbed, inPS, psCount, psStarted, preStarted>>
       [] e.ev = "release" ->
            /\ owners' = owners \ {e.t}
            /\ UNCHANGED <<inH, accepted, handled, started, disturbed, inPS, psCount, psStarted, preStarted>>
       [] e.ev = "tellret" ->
            /\ accepted' = IF e.g = 1 THEN accepted \cup {e.id} ELSE accepted
            /\ UNCHANGED <<inH, owners, handled, started, disturbed, inPS, psCount, psStarted, preStarted>>
       [] e.ev \in {"restartcall", "stopcall", "pillcall"} ->
            /\ disturbed' = TRUE
            /\ UNCHANGED <<inH, owners, accepted, handled, started, inPS, psCount, psStarted, preStarted>>
       [] e.ev = "psenter" ->
            /\ Check(psCount = 0, "C06", "PostStop ran twice for one incarnation")
            /\ Check(\A x \in inH : x[2] = e.g, "C06", "PostStop runs on one goroutine while Receive runs on another")
            /\ inPS' = e.g /\ psCount' = psCount + 1 /\ psStarted' = TRUE
            /\ UNCHANGED <<inH, owners, accepted, handled, started, disturbed, preStarted>>
       [] e.ev = "psexit" ->
            /\ inPS' = 0
            /\ UNCHANGED <<inH, owners, accepted, handled, started, disturbed, psCount, psStarted, preStarted>>
       [] e.ev = "End" ->
            \* C02: the actor stayed running (no stop / restart requested): every accepted message was handled
            /\ Check(disturbed \/ accepted \subseteq Ids(handled), "C02", "accepted message never handled although the actor stayed running")
            /\ Check(disturbed \/ e.id = 1, "C02", "actor did not drain: pending message but never scheduled (lost wake-up)")
            /\ UNCHANGED <<inH, owners, accepted, handled, started, disturbed, inPS, psCount, psStarted, preStarted>>
       [] OTHER -> UNCHANGED <<inH, owners, accepted, handled, started, disturbed, inPS, psCount, psStarted, preStarted>>

Spec == Init /\ [][Step]_vars
=============================================================================
