----------------------------- MODULE ActorTurn -----------------------------
(* The per-actor scheduling machine of goakt's dispatcher (actor/pid.go doReceive,   *)
(* runTurn, finishOrReclaim; actor/dispatch_state.go) together with the default      *)
(* mailbox (actor/unbounded_mailbox.go) at atomic-step granularity.                  *)
(*                                                                                   *)
(* Threads: producers (Tell), "turn tokens" (one per push of the actor onto the      *)
(* ready queue: the dispatcher worker that takes that entry), and optionally a       *)
(* restarter (PID.Restart from outside).  Every action is one verifhook gate:        *)
(*   producer p: Call, Swap (mpsc.enq.swap), Link (mpsc.enq.link), TSLoad            *)
(*               (ds.ts.load), TSCas (ds.ts.cas), Push (turn.push)                   *)
(*   turn k:     Take (ds.take.cas), DeqSys / DeqUser (mpsc.deq), Enter / Exit (the  *)
(*               test actor's handler), FinReset (ds.reset), FinEmptyU / FinEmptyS   *)
(*               (mpsc.isempty), TSLoad, TSCas, Take (reclaim), Yield (ds.yield),    *)
(*               Resched (turn.resched)                                              *)
(*   restarter:  RStop (Shutdown incl. PostStop), RWait (restart.wait: spin until    *)
(*               not Processing), RInit (restart.init: PreStart, running again),     *)
(*               RReset (ds.reset: the LATE schedState.reset()), RPostStart          *)
EXTENDS Integers, Sequences, FiniteSets, TLC

CONSTANTS Producers, RankOf, NMsgs, Budget, MaxTurns,
          Restarts,    \* number of external Restart calls (0 or 1)
          Stops,       \* number of external Shutdown calls (Stop/Kill/parent stop/passivation path) (0 or 1)
          Pills,       \* number of PoisonPill messages sent (0 or 1)
          Defects      \* "LateReset": restartSubtree forces Idle AFTER the actor is live again (fixed in /repo)
                       \* "StopRace": an external Shutdown neither waits for the in-flight turn nor removes the
                       \*             handler before PostStop (the code as it is)

VARIABLES sched,       \* "Idle" | "Sched" | "Proc"
          mbox,        \* Seq([id, linked])  user mailbox in SWAP order
          sys,         \* Seq of system messages (PostStart); enqueue is one step here
          life,        \* "running" | "stopping" (Shutdown begun, handler still installed) | "stopped"
          ppc, pk,     \* producers
          tpc, titer, tcur,   \* turn tokens 1..MaxTurns: pc, loop iterations used, message in hand
          nturn,       \* tokens spawned so far
          rpc, rleft,  \* restarter
          spc, kpc,    \* external stopper, PoisonPill sender
          psStarted,   \* PostStop has started for the current incarnation
          inPS,        \* thread currently inside PostStop ("" = none)
          psRuns,      \* PostStop executions of the current incarnation
          lockHeld,    \* holder of pid.stopLocker: "" | "s" | "r" | "t"
          inHandler,   \* set of turn tokens inside the message handler
          owners,      \* set of turn tokens that hold the actor (Processing)
          sent, handled, swallowed, last

lc == <<spc, kpc, psStarted, inPS, psRuns, lockHeld>>     \* lifecycle / stop-path variables
vars == <<sched, mbox, sys, life, ppc, pk, tpc, titer, tcur, nturn, rpc, rleft, inHandler, owners, sent, handled, swallowed, spc, kpc, psStarted, inPS, psRuns, lockHeld, last>>

Turns == 1..MaxTurns
StopRace == "StopRace" \in Defects
Id(p, k) == RankOf[p] * 10 + k

Init == /\ sched = "Idle" /\ mbox = <<>> /\ sys = <<>> /\ life = "running"
        /\ ppc = [p \in Producers |-> "idle"] /\ pk = [p \in Producers |-> 1]
        /\ tpc = [k \in Turns |-> "none"] /\ titer = [k \in Turns |-> 0] /\ tcur = [k \in Turns |-> 0]
        /\ nturn = 0 /\ rpc = "idle" /\ rleft = Restarts
        /\ inHandler = {} /\ owners = {} /\ sent = <<>> /\ handled = <<>> /\ swallowed = {} /\ last = "init"
        /\ spc = (IF Stops > 0 THEN "idle" ELSE "done") /\ kpc = (IF Pills > 0 THEN "idle" ELSE "done")
        /\ psStarted = FALSE /\ inPS = "" /\ psRuns = 0 /\ lockHeld = ""

Spawn == /\ nturn < MaxTurns
         /\ nturn' = nturn + 1
         /\ tpc' = [tpc EXCEPT ![nturn + 1] = "take"]
SpawnWith(tp) == /\ nturn < MaxTurns
                 /\ nturn' = nturn + 1
                 /\ tpc' = [tp EXCEPT ![nturn + 1] = "take"]

\* ---------------------------------------------------------------- producers (Tell)
PDone(p) == /\ pk' = [pk EXCEPT ![p] = @ + 1]
            /\ ppc' = [ppc EXCEPT ![p] = IF pk[p] = NMsgs[p] THEN "done" ELSE "idle"]

\* Tell checks IsRunning first: while the actor is stopped (restart window) the call fails with ErrDead
Call(p) == /\ ppc[p] = "idle" /\ pk[p] <= NMsgs[p] /\ last' = "Call"
           /\ IF life = "running" THEN ppc' = [ppc EXCEPT ![p] = "swap"] /\ UNCHANGED pk ELSE PDone(p)
           /\ UNCHANGED <<lc, sched, mbox, sys, life, tpc, titer, tcur, nturn, rpc, rleft, inHandler, owners, sent, handled, swallowed>>

Swap(p) == /\ ppc[p] = "swap"
           /\ mbox' = Append(mbox, [id |-> Id(p, pk[p]), linked |-> FALSE])
           /\ sent' = Append(sent, Id(p, pk[p]))
           /\ ppc' = [ppc EXCEPT ![p] = "link"] /\ last' = "Swap"
           /\ UNCHANGED <<lc, sched, sys, life, pk, tpc, titer, tcur, nturn, rpc, rleft, inHandler, owners, handled, swallowed>>

Link(p) == /\ ppc[p] = "link"
           /\ mbox' = [i \in 1..Len(mbox) |-> IF mbox[i].id = Id(p, pk[p]) THEN [mbox[i] EXCEPT !.linked = TRUE] ELSE mbox[i]]
           /\ ppc' = [ppc EXCEPT ![p] = "tsload"] /\ last' = "Link"
           /\ UNCHANGED <<lc, sched, sys, life, pk, tpc, titer, tcur, nturn, rpc, rleft, inHandler, owners, sent, handled, swallowed>>

PTSLoad(p) == /\ ppc[p] = "tsload" /\ last' = "TSLoad"
              /\ IF sched = "Idle" THEN ppc' = [ppc EXCEPT ![p] = "tscas"] /\ UNCHANGED pk ELSE PDone(p)
              /\ UNCHANGED <<lc, sched, mbox, sys, life, tpc, titer, tcur, nturn, rpc, rleft, inHandler, owners, sent, handled, swallowed>>

PTSCas(p) == /\ ppc[p] = "tscas" /\ last' = "TSCas"
             /\ IF sched = "Idle" THEN sched' = "Sched" /\ ppc' = [ppc EXCEPT ![p] = "push"] /\ UNCHANGED pk
                                  ELSE UNCHANGED sched /\ PDone(p)
             /\ UNCHANGED <<lc, mbox, sys, life, tpc, titer, tcur, nturn, rpc, rleft, inHandler, owners, sent, handled, swallowed>>

Push(p) == /\ ppc[p] = "push" /\ last' = "Push"
           /\ Spawn /\ PDone(p)
           /\ UNCHANGED <<lc, sched, mbox, sys, life, titer, tcur, rpc, rleft, inHandler, owners, sent, handled, swallowed>>

\* ---------------------------------------------------------------- turn tokens (dispatcher workers)
TGo(k, l) == tpc' = [tpc EXCEPT ![k] = l]
\* one loop iteration of runTurn is finished: continue or yield
NextIter(k) == IF titer[k] + 1 >= Budget THEN "yield" ELSE "deqsys"

Take(k) == /\ tpc[k] \in {"take", "retake"} /\ last' = "Take"
           /\ IF sched = "Sched"
              THEN /\ sched' = "Proc" /\ owners' = owners \cup {k}
                   /\ IF tpc[k] = "take" THEN TGo(k, "deqsys") /\ UNCHANGED titer
                                         ELSE TGo(k, NextIter(k)) /\ titer' = [titer EXCEPT ![k] = @ + 1]
              ELSE /\ TGo(k, "end") /\ UNCHANGED <<lc, sched, owners, titer>>
           /\ UNCHANGED <<lc, mbox, sys, life, ppc, pk, tcur, nturn, rpc, rleft, inHandler, sent, handled, swallowed>>

\* system messages are handled inside the runtime (PostStart is delivered to the handler too, but
\* the test actor ignores it); modelled as consumed in one step
DeqSys(k) == /\ tpc[k] = "deqsys" /\ last' = "DeqSys"
             /\ IF sys # <<>> /\ sys[1].linked
                THEN sys' = Tail(sys) /\ TGo(k, "tlock")        \* PoisonPill: pid.Shutdown on the worker's own goroutine
                ELSE TGo(k, "dequser") /\ UNCHANGED sys
             /\ UNCHANGED <<lc, sched, mbox, life, ppc, pk, titer, tcur, nturn, rpc, rleft, inHandler, owners, sent, handled, swallowed>>

DeqUser(k) == /\ tpc[k] = "dequser" /\ last' = "DeqUser"
              /\ IF mbox # <<>> /\ mbox[1].linked
                 THEN /\ mbox' = Tail(mbox)
                      /\ IF (IF StopRace THEN life # "stopped" ELSE life = "running") /\ mbox[1].id # 0
                         THEN /\ tcur' = [tcur EXCEPT ![k] = mbox[1].id] /\ TGo(k, "enter") /\ UNCHANGED <<lc, swallowed, titer>>
                         ELSE \* behaviour stack is empty while stopped: the message is dropped without a handler call
                              \* (PostStart, id 0, reaches the handler but the test actor ignores it: no gate inside)
                              /\ swallowed' = swallowed \cup ({mbox[1].id} \ {0}) /\ TGo(k, NextIter(k))
                              /\ titer' = [titer EXCEPT ![k] = @ + 1] /\ UNCHANGED tcur
                 ELSE /\ TGo(k, "finreset") /\ UNCHANGED <<lc, mbox, tcur, swallowed, titer>>
              /\ UNCHANGED <<lc, sched, sys, life, ppc, pk, nturn, rpc, rleft, inHandler, owners, sent, handled>>

Enter(k) == /\ tpc[k] = "enter" /\ last' = "Enter"
            /\ (StopRace \/ inPS = "")
            /\ inHandler' = inHandler \cup {k} /\ TGo(k, "exit")
            /\ UNCHANGED <<lc, sched, mbox, sys, life, ppc, pk, titer, tcur, nturn, rpc, rleft, owners, sent, handled, swallowed>>

Exit(k) == /\ tpc[k] = "exit" /\ last' = "Exit"
           /\ inHandler' = inHandler \ {k}
           /\ handled' = Append(handled, tcur[k])
           /\ titer' = [titer EXCEPT ![k] = @ + 1]
           /\ TGo(k, NextIter(k))
           /\ UNCHANGED <<lc, sched, mbox, sys, life, ppc, pk, tcur, nturn, rpc, rleft, owners, sent, swallowed>>

FinReset(k) == /\ tpc[k] = "finreset" /\ last' = "FinReset"
               /\ sched' = "Idle" /\ owners' = owners \ {k} /\ TGo(k, "finemptyu")
               /\ UNCHANGED <<lc, mbox, sys, life, ppc, pk, titer, tcur, nturn, rpc, rleft, inHandler, sent, handled, swallowed>>

FinEmptyU(k) == /\ tpc[k] = "finemptyu" /\ last' = "FinEmptyU"
                /\ TGo(k, IF mbox # <<>> /\ mbox[1].linked THEN "tsload" ELSE "finemptys")
                /\ UNCHANGED <<lc, sched, mbox, sys, life, ppc, pk, titer, tcur, nturn, rpc, rleft, inHandler, owners, sent, handled, swallowed>>

FinEmptyS(k) == /\ tpc[k] = "finemptys" /\ last' = "FinEmptyS"
                /\ TGo(k, IF sys # <<>> /\ sys[1].linked THEN "tsload" ELSE "end")
                /\ UNCHANGED <<lc, sched, mbox, sys, life, ppc, pk, titer, tcur, nturn, rpc, rleft, inHandler, owners, sent, handled, swallowed>>

TTSLoad(k) == /\ tpc[k] = "tsload" /\ last' = "TSLoad"
              /\ TGo(k, IF sched = "Idle" THEN "tscas" ELSE "end")
              /\ UNCHANGED <<lc, sched, mbox, sys, life, ppc, pk, titer, tcur, nturn, rpc, rleft, inHandler, owners, sent, handled, swallowed>>

TTSCas(k) == /\ tpc[k] = "tscas" /\ last' = "TSCas"
             /\ IF sched = "Idle" THEN sched' = "Sched" /\ TGo(k, "retake") ELSE UNCHANGED sched /\ TGo(k, "end")
             /\ UNCHANGED <<lc, mbox, sys, life, ppc, pk, titer, tcur, nturn, rpc, rleft, inHandler, owners, sent, handled, swallowed>>

Yield(k) == /\ tpc[k] = "yield" /\ last' = "Yield"
            /\ sched' = "Sched" /\ owners' = owners \ {k} /\ TGo(k, "resched")
            /\ UNCHANGED <<lc, mbox, sys, life, ppc, pk, titer, tcur, nturn, rpc, rleft, inHandler, sent, handled, swallowed>>

Resched(k) == /\ tpc[k] = "resched" /\ last' = "Resched"
              /\ SpawnWith([tpc EXCEPT ![k] = "end"])
              /\ UNCHANGED <<lc, sched, mbox, sys, life, ppc, pk, titer, tcur, rpc, rleft, inHandler, owners, sent, handled, swallowed>>

\* ---------------------------------------------------------------- restarter (PID.Restart from outside)
RGo(l) == rpc' = l
\* Restart -> Shutdown: stopLocker, state := stopping (Tell now fails), ... up to the PostStop call
RCall == /\ rpc = "idle" /\ rleft > 0 /\ life = "running"
         /\ RGo("lock") /\ rleft' = rleft - 1 /\ last' = "RCall"
         /\ UNCHANGED <<lc, sched, mbox, sys, life, ppc, pk, tpc, titer, tcur, nturn, inHandler, owners, sent, handled, swallowed>>

\* PostStop runs on the CALLER's goroutine (gates ps.enter / ps.exit of the test actor), then
\* running := false and pid.reset() clears the behaviour stack
\* stopLocker.Lock(); if still running: state := stopping (Tell now fails) ... up to the PostStop call
RLock == /\ rpc = "lock" /\ lockHeld = "" /\ last' = "RLock"
         /\ IF life = "running" THEN lockHeld' = "r" /\ life' = "stopping" /\ RGo("stop")
                             ELSE UNCHANGED <<lockHeld, life>> /\ RGo("wait")
         /\ UNCHANGED <<sched, mbox, sys, ppc, pk, tpc, titer, tcur, nturn, rleft, inHandler, owners, sent, handled, swallowed, spc, kpc, psStarted, inPS, psRuns>>
RPsEnter == /\ rpc = "stop" /\ RGo("psexit") /\ last' = "RPsEnter"
            /\ (StopRace \/ inHandler = {})
            /\ psStarted' = TRUE /\ inPS' = "r" /\ psRuns' = psRuns + 1
            /\ UNCHANGED <<sched, mbox, sys, life, ppc, pk, tpc, titer, tcur, nturn, rleft, inHandler, owners, sent, handled, swallowed, spc, kpc, lockHeld>>
RPsExit == /\ rpc = "psexit" /\ RGo("wait") /\ last' = "RPsExit"
           /\ life' = "stopped" /\ inPS' = "" /\ lockHeld' = ""
           /\ UNCHANGED <<sched, mbox, sys, ppc, pk, tpc, titer, tcur, nturn, rleft, inHandler, owners, sent, handled, swallowed, spc, kpc, psStarted, psRuns>>

\* for schedState.Load() == Processing { Gosched }
RWait == /\ rpc = "wait" /\ sched # "Proc" /\ RGo("init") /\ last' = "RWait"
         /\ UNCHANGED <<lc, sched, mbox, sys, life, ppc, pk, tpc, titer, tcur, nturn, rleft, inHandler, owners, sent, handled, swallowed>>

\* resetBehavior + init: PreStart ran, the actor is running and tell-able again
RInit == /\ rpc = "init" /\ last' = "RInit"
         /\ life' = "running" /\ psStarted' = FALSE /\ psRuns' = 0      \* a new incarnation
         /\ RGo(IF "LateReset" \in Defects THEN "reset" ELSE "poststart")
         /\ UNCHANGED <<spc, kpc, inPS, lockHeld, sched, mbox, sys, ppc, pk, tpc, titer, tcur, nturn, rleft, inHandler, owners, sent, handled, swallowed>>

\* pid.schedState.reset() after the actor (and its subtree) is live again
RReset == /\ rpc = "reset" /\ last' = "RReset"
          /\ sched' = "Idle" /\ RGo("poststart")
          /\ UNCHANGED <<lc, mbox, sys, life, ppc, pk, tpc, titer, tcur, nturn, rleft, inHandler, owners, sent, handled, swallowed>>

\* fireSystemMessage(PostStart): PostStart is NOT a control message, it travels through the USER mailbox
\* (id 0; the test actor's handler ignores it), then TrySchedule / push
RPostStart == /\ rpc = "poststart" /\ last' = "RPostStart"
              /\ mbox' = Append(mbox, [id |-> 0, linked |-> FALSE]) /\ RGo("pslink")
              /\ UNCHANGED <<lc, sched, sys, life, ppc, pk, tpc, titer, tcur, nturn, rleft, inHandler, owners, sent, handled, swallowed>>
RPSLink == /\ rpc = "pslink" /\ last' = "RPSLink"
           /\ mbox' = [i \in 1..Len(mbox) |-> IF mbox[i].id = 0 THEN [mbox[i] EXCEPT !.linked = TRUE] ELSE mbox[i]]
           /\ RGo("tsload")
           /\ UNCHANGED <<lc, sched, sys, life, ppc, pk, tpc, titer, tcur, nturn, rleft, inHandler, owners, sent, handled, swallowed>>
RTSLoad == /\ rpc = "tsload" /\ last' = "TSLoad"
           /\ RGo(IF sched = "Idle" THEN "tscas" ELSE "idle")
           /\ UNCHANGED <<lc, sched, mbox, sys, life, ppc, pk, tpc, titer, tcur, nturn, rleft, inHandler, owners, sent, handled, swallowed>>
RTSCas == /\ rpc = "tscas" /\ last' = "TSCas"
          /\ IF sched = "Idle" THEN sched' = "Sched" /\ RGo("push") ELSE UNCHANGED sched /\ RGo("idle")
          /\ UNCHANGED <<lc, mbox, sys, life, ppc, pk, tpc, titer, tcur, nturn, rleft, inHandler, owners, sent, handled, swallowed>>
RPush == /\ rpc = "push" /\ last' = "Push"
         /\ Spawn /\ RGo("idle")
         /\ UNCHANGED <<lc, sched, mbox, sys, life, ppc, pk, titer, tcur, rleft, inHandler, owners, sent, handled, swallowed>>

\* ---------------------------------------------------------------- external Shutdown (Stop / Kill / parent / passivation)
\* Shutdown: stopLocker, state := stopping, free watchees/children ... up to the PostStop call
SCall == /\ spc = "idle" /\ last' = "SCall" /\ spc' = "lock"
         /\ UNCHANGED <<sched, mbox, sys, life, ppc, pk, tpc, titer, tcur, nturn, rpc, rleft, inHandler, owners, sent, handled, swallowed, kpc, psStarted, inPS, psRuns, lockHeld>>
SLock == /\ spc = "lock" /\ lockHeld = "" /\ last' = "SLock"
         /\ IF life = "running" THEN lockHeld' = "s" /\ life' = "stopping" /\ spc' = "psenter"
                             ELSE UNCHANGED <<lockHeld, life>> /\ spc' = "done"
         /\ UNCHANGED <<sched, mbox, sys, ppc, pk, tpc, titer, tcur, nturn, rpc, rleft, inHandler, owners, sent, handled, swallowed, kpc, psStarted, inPS, psRuns>>
\* the repaired design would wait here until no worker is inside the handler
SPsEnter == /\ spc = "psenter" /\ last' = "SPsEnter"
            /\ (StopRace \/ inHandler = {})
            /\ spc' = "psexit" /\ psStarted' = TRUE /\ inPS' = "s" /\ psRuns' = psRuns + 1
            /\ UNCHANGED <<sched, mbox, sys, life, ppc, pk, tpc, titer, tcur, nturn, rpc, rleft, inHandler, owners, sent, handled, swallowed, kpc, lockHeld>>
SPsExit == /\ spc = "psexit" /\ last' = "SPsExit"
           /\ spc' = "done" /\ life' = "stopped" /\ inPS' = "" /\ lockHeld' = ""
           /\ UNCHANGED <<sched, mbox, sys, ppc, pk, tpc, titer, tcur, nturn, rpc, rleft, inHandler, owners, sent, handled, swallowed, kpc, psStarted, psRuns>>

\* ---------------------------------------------------------------- PoisonPill: a control message through the SYSTEM mailbox
KCall == /\ kpc = "idle" /\ last' = "KCall"
         /\ kpc' = (IF life = "running" THEN "swap" ELSE "done")
         /\ UNCHANGED <<sched, mbox, sys, life, ppc, pk, tpc, titer, tcur, nturn, rpc, rleft, inHandler, owners, sent, handled, swallowed, spc, psStarted, inPS, psRuns, lockHeld>>
KSwap == /\ kpc = "swap" /\ last' = "KSwap" /\ kpc' = "link"
         /\ sys' = Append(sys, [m |-> "pill", linked |-> FALSE])
         /\ UNCHANGED <<sched, mbox, life, ppc, pk, tpc, titer, tcur, nturn, rpc, rleft, inHandler, owners, sent, handled, swallowed, spc, psStarted, inPS, psRuns, lockHeld>>
KLink == /\ kpc = "link" /\ last' = "KLink" /\ kpc' = "tsload"
         /\ sys' = [i \in 1..Len(sys) |-> [sys[i] EXCEPT !.linked = TRUE]]
         /\ UNCHANGED <<sched, mbox, life, ppc, pk, tpc, titer, tcur, nturn, rpc, rleft, inHandler, owners, sent, handled, swallowed, spc, psStarted, inPS, psRuns, lockHeld>>
KTSLoad == /\ kpc = "tsload" /\ last' = "KTSLoad" /\ kpc' = (IF sched = "Idle" THEN "tscas" ELSE "done")
           /\ UNCHANGED <<sched, mbox, sys, life, ppc, pk, tpc, titer, tcur, nturn, rpc, rleft, inHandler, owners, sent, handled, swallowed, spc, psStarted, inPS, psRuns, lockHeld>>
KTSCas == /\ kpc = "tscas" /\ last' = "KTSCas"
          /\ IF sched = "Idle" THEN sched' = "Sched" /\ kpc' = "push" ELSE UNCHANGED sched /\ kpc' = "done"
          /\ UNCHANGED <<mbox, sys, life, ppc, pk, tpc, titer, tcur, nturn, rpc, rleft, inHandler, owners, sent, handled, swallowed, spc, psStarted, inPS, psRuns, lockHeld>>
KPush == /\ kpc = "push" /\ last' = "KPush" /\ kpc' = "done" /\ Spawn
         /\ UNCHANGED <<sched, mbox, sys, life, ppc, pk, titer, tcur, rpc, rleft, inHandler, owners, sent, handled, swallowed, spc, psStarted, inPS, psRuns, lockHeld>>

\* the turn that dequeued the pill runs Shutdown itself: PostStop on the worker, inside the turn
TLock(k) == /\ tpc[k] = "tlock" /\ lockHeld = "" /\ last' = "TLock"
            /\ IF life = "running" THEN lockHeld' = "t" /\ life' = "stopping" /\ TGo(k, "tpsenter") /\ UNCHANGED titer
                                ELSE UNCHANGED <<lockHeld, life>> /\ TGo(k, NextIter(k)) /\ titer' = [titer EXCEPT ![k] = @ + 1]
            /\ UNCHANGED <<sched, mbox, sys, ppc, pk, tcur, nturn, rpc, rleft, inHandler, owners, sent, handled, swallowed, spc, kpc, psStarted, inPS, psRuns>>
TPsEnter(k) == /\ tpc[k] = "tpsenter" /\ last' = "TPsEnter" /\ TGo(k, "tpsexit")
               /\ psStarted' = TRUE /\ inPS' = "t" /\ psRuns' = psRuns + 1
               /\ UNCHANGED <<sched, mbox, sys, life, ppc, pk, titer, tcur, nturn, rpc, rleft, inHandler, owners, sent, handled, swallowed, spc, kpc, lockHeld>>
TPsExit(k) == /\ tpc[k] = "tpsexit" /\ last' = "TPsExit"
              /\ life' = "stopped" /\ inPS' = "" /\ lockHeld' = ""
              /\ TGo(k, NextIter(k)) /\ titer' = [titer EXCEPT ![k] = @ + 1]
              /\ UNCHANGED <<sched, mbox, sys, ppc, pk, tcur, nturn, rpc, rleft, inHandler, owners, sent, handled, swallowed, spc, kpc, psStarted, psRuns>>

Next == \/ \E p \in Producers : Call(p) \/ Swap(p) \/ Link(p) \/ PTSLoad(p) \/ PTSCas(p) \/ Push(p)
        \/ \E k \in Turns : Take(k) \/ DeqSys(k) \/ DeqUser(k) \/ Enter(k) \/ Exit(k) \/ FinReset(k) \/ FinEmptyU(k)
                            \/ FinEmptyS(k) \/ TTSLoad(k) \/ TTSCas(k) \/ Yield(k) \/ Resched(k) \/ TLock(k) \/ TPsEnter(k) \/ TPsExit(k)
        \/ SCall \/ SLock \/ SPsEnter \/ SPsExit \/ KCall \/ KSwap \/ KLink \/ KTSLoad \/ KTSCas \/ KPush
        \/ RCall \/ RLock \/ RPsEnter \/ RPsExit \/ RWait \/ RInit \/ RReset \/ RPostStart \/ RPSLink \/ RTSLoad \/ RTSCas \/ RPush

Spec == Init /\ [][Next]_vars
Fairness == /\ \A p \in Producers : WF_vars(Call(p) \/ Swap(p) \/ Link(p) \/ PTSLoad(p) \/ PTSCas(p) \/ Push(p))
            /\ \A k \in Turns : WF_vars(Take(k) \/ DeqSys(k) \/ DeqUser(k) \/ Enter(k) \/ Exit(k) \/ FinReset(k) \/ FinEmptyU(k)
                                         \/ FinEmptyS(k) \/ TTSLoad(k) \/ TTSCas(k) \/ Yield(k) \/ Resched(k))
            /\ WF_vars(RLock \/ RPsEnter \/ RPsExit \/ RWait \/ RInit \/ RReset \/ RPostStart \/ RPSLink \/ RTSLoad \/ RTSCas \/ RPush)
FairSpec == Spec /\ Fairness

\* ---------------------------------------------------------------- properties
Ids(s) == {s[i] : i \in 1..Len(s)}
\* C01
SingleHandler == Cardinality(inHandler) <= 1
SingleOwner == Cardinality(owners) <= 1
OwnerIsProcessing == owners # {} => sched = "Proc"     \* holds only without LateReset
\* C06
PostStopAtMostOnce == psRuns <= 1
NoReceiveDuringPostStop == ~(inPS \in {"s", "r"} /\ inHandler # {})       \* PostStop on one goroutine, Receive on another
NoReceiveAfterPostStop == [][ (\E k \in Turns : tpc[k] = "enter" /\ tpc'[k] = "exit") => ~psStarted ]_vars
\* C02 (safety part)
NoDuplicate == \A i, j \in 1..Len(handled) : i # j => handled[i] # handled[j]
HandledWereSent == Ids(handled) \subseteq Ids(sent)
\* C03
PerProducerFIFO == \A i, j \in 1..Len(handled) :
     (i < j /\ handled[i] \div 10 = handled[j] \div 10) => handled[i] < handled[j]
\* C02 no lost wake-up: when nothing can move any more (tokens left to spawn), nothing is stranded
Terminal == ~ENABLED Next
NoStrand == (Terminal /\ nturn < MaxTurns) => (mbox = <<>> /\ Ids(sent) = Ids(handled) \cup swallowed)
\* token bound is a modelling bound, not a property: checked separately so bounds can be raised
TokensSuffice == nturn < MaxTurns
\* C02 liveness (under FairSpec): every sent message is eventually handled (or swallowed by a restart)
AllDone == /\ \A p \in Producers : ppc[p] = "done"
           /\ Ids(sent) = Ids(handled) \cup swallowed
EventuallyDrained == <>[]AllDone
=============================================================================
