SPECIFICATION TSpec
CONSTANTS
  Producers = {"p1", "p2"}
  NMsgs <- Msgs3
  Budget = 2
  MaxTurns = 16
  Restarts = 0
  Stops = 0
  Pills = 0
  Defects = {"StopRace"}
  RankOf <- Ranks
CHECK_DEADLOCK FALSE
