------------------------------ MODULE Gen_Sem ------------------------------
(* Case generator for C45 / C46: TLC enumerates (Mode "linear" / "junction": every case of a    *)
(* finite family) or draws (Mode "rlinear" / "rjunction": NRandom seeded random cases, deeper    *)
(* and longer) the cases that harness/cmd/streams executes on the real stream package.  Every    *)
(* initial state is one case; it is printed as <<"CASE", json>> by the CONSTRAINT Emit.          *)
EXTENDS Sem, Json

CONSTANTS Mode,        \* "linear" | "junction" | "rlinear" | "rjunction"
          Stages,      \* vocabulary of the exhaustive linear family / of all random families
          InputsKind,  \* "q" | "t": which input set the exhaustive linear family uses
          MaxDepth,    \* pipeline depth of the exhaustive linear family
          SubStages,   \* stages used (depth <= 1) inside junction sources in the exhaustive junction family
          PostStages,  \* stages used (depth <= 1) after a junction / in a fan-out branch
          NRandom, RDepth, RLen, RVals

VARIABLE c

InputsQ == {<<>>, <<3>>, <<1, 2>>, <<2, 2, 3>>, <<3, 1, 2, 2>>, <<1, 2, 3, 4, 5>>}
InputsT == UNION {[1..k -> {1, 2, 3}] : k \in 0..3} \cup {<<3, 1, 2, 2>>, <<2, 2, 2, 2>>, <<1, 2, 3, 4, 5>>, <<4, 3, 3, 2, 1>>}
Inputs == IF InputsKind = "q" THEN InputsQ ELSE InputsT

SeqsUpTo(S, d) == UNION {[1..k -> S] : k \in 0..d}
Pipes(S, d) == {p \in SeqsUpTo(S, d) : WellFormed(p)}
Case(j, srcs, post, branches) == [j |-> j, srcs |-> srcs, post |-> post, branches |-> branches]
Src(inp, p) == [inp |-> inp, p |-> p]

\* ---- exhaustive linear family -----------------------------------------------------------
LinearCases == {Case("Linear", <<Src(inp, p)>>, <<>>, << <<>> >>) : p \in Pipes(Stages, MaxDepth), inp \in Inputs}

\* ---- exhaustive junction family ---------------------------------------------------------
\* source i carries the values 10*i+1, 10*i+2, ... so that provenance is visible in the outputs
Tagged(i, len) == [k \in 1..len |-> 10 * i + k]
FanInSub == {p \in Pipes(SubStages, 1) : NoErr(p) /\ ~HasPar(p)}
PostFor(j) == IF j \in {"Merge", "MergePref"} THEN {p \in Pipes(PostStages, 1) : AllElementwise(p) /\ NoErr(p)}
              ELSE Pipes(PostStages, 1)
FanIn2 == {Case(j, <<Src(Tagged(0, l1), p1), Src(Tagged(1, l2), <<>>)>>, post, << <<>> >>) :
             j \in {"Merge", "Concat", "Zip"}, l1 \in 0..3, l2 \in 0..2, p1 \in FanInSub, post \in {<<>>, <<"Inc">>}}
          \cup UNION {{Case(j, <<Src(Tagged(0, l1), <<>>), Src(Tagged(1, l2), <<>>)>>, post, << <<>> >>) :
                         l1 \in 0..3, l2 \in 0..3, post \in PostFor(j)} : j \in {"Concat", "Zip", "Combine", "MergePref"}}
FanIn3 == {Case(j, <<Src(Tagged(0, l1), <<>>), Src(Tagged(1, l2), p2), Src(Tagged(2, l3), <<>>)>>, <<>>, << <<>> >>) :
             j \in {"Merge", "Concat", "Zip"}, l1 \in 0..2, l2 \in 0..2, l3 \in 0..2, p2 \in {<<>>, <<"Dup">>, <<"Buf1">>}}
FanOutSrc == {<<>>, <<1>>, <<1, 2>>, <<1, 2, 3>>, <<2, 1, 2, 3>>, <<1, 2, 3, 4, 5>>}
FanOutSub == Pipes(SubStages, 1)
\* branch pipelines of depth <= 1, plus a failing pair that stage fusion turns into ONE fusedFlowActor
\* (regression guard of the fixed finding FusedErrorNoCancel: the sibling branches must still complete)
BranchFor(sp) == {b \in Pipes(PostStages, 1) \cup {<<"Err3", "Inc">>} : WellFormed(sp \o b)}
FanOutCases ==
  {Case("Balance", <<Src(inp, sp)>>, <<>>, [b \in 1..n |-> <<>>]) : inp \in FanOutSrc, sp \in FanOutSub, n \in 2..3}
  \cup UNION {{Case(j, <<Src(inp, sp)>>, <<>>, [b \in 1..n |-> IF b = 1 THEN b1 ELSE <<>>]) : b1 \in BranchFor(sp)} :
                j \in {"Broadcast", "Partition"}, inp \in FanOutSrc, sp \in FanOutSub, n \in 2..3}
JunctionCases == FanIn2 \cup FanIn3 \cup FanOutCases

\* ---- random families (seeded through TLC's -seed) -----------------------------------------
RSeq(S, lo, hi) == [k \in 1..RandomElement(lo..hi) |-> RandomElement(S)]
RInput(off) == [k \in 1..RandomElement(0..RLen) |-> off + RandomElement(RVals)]
RLinear(i) == Case("Linear", <<Src(RInput(0), RSeq(Stages, 1, RDepth))>>, <<>>, << <<>> >>)
RJunction(i) ==
  LET j == RandomElement({"Merge", "MergePref", "Concat", "Zip", "Combine", "Broadcast", "Balance", "Partition"})
      n == IF j = "Combine" THEN 2 ELSE RandomElement(2..3)
  IN IF j \in {"Merge", "MergePref", "Concat", "Zip", "Combine"}
     THEN Case(j, [s \in 1..n |-> Src(RInput(10 * (s - 1)), RSeq(Stages, 0, 2))], RSeq(Stages, 0, 2), << <<>> >>)
     ELSE Case(j, <<Src(RInput(0), RSeq(Stages, 0, 2))>>, <<>>,
               [b \in 1..n |-> IF j = "Balance" THEN <<>> ELSE RSeq(Stages, 0, 2)])
OKCase(x) ==
  CASE x.j = "Linear" -> WellFormed(x.srcs[1].p)
    [] FanIn(x) -> /\ \A s \in 1..Len(x.srcs) : NoErr(x.srcs[s].p) /\ ~HasPar(x.srcs[s].p) /\ ~HasOverlap(x.srcs[s].p)
                   /\ WellFormed(x.post) /\ ~HasOverlap(x.post)
                   /\ (x.j \in {"Merge", "MergePref"} => AllElementwise(x.post) /\ NoErr(x.post))
    [] OTHER -> \A b \in 1..Len(x.branches) : WellFormed(x.srcs[1].p \o x.branches[b]) /\ ~HasOverlap(x.srcs[1].p) /\ ~HasOverlap(x.branches[b])

Cases == CASE Mode = "linear" -> LinearCases
           [] Mode = "junction" -> JunctionCases
           [] Mode = "rlinear" -> {x \in {RLinear(i) : i \in 1..NRandom} : OKCase(x)}
           [] OTHER -> {x \in {RJunction(i) : i \in 1..NRandom} : OKCase(x)}

Init == c \in Cases
Next == UNCHANGED c
Emit == PrintT(<<"CASE", ToJson(c)>>)
=============================================================================
