INIT Init
CHECK_DEADLOCK FALSE
NEXT Next
CONSTANTS
  Stages = {"Inc", "Even", "Err3", "Dup", "Rep", "Sum", "Dedup", "BSum2", "BFlat2", "OPar2", "Par2", "Dbl", "Split"}
  Vals = {1, 2, 3}
  MaxLen = 3
  DP = 2
  DQ = 1
INVARIANTS Deterministic Compositional DefectsOnlyAdd AcceptsIdeal RejectsLoss RejectsDup RejectsSwap RejectsNoCompletion RejectsWrongError FanInOK FanOutOK
