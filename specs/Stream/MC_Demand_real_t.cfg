SPECIFICATION LiveSpec
CONSTANTS
  Defects = {"BatchNoDemand", "DoubleComplete"}
  StageSet = {"Inc", "Even", "Dup", "Rep", "Err3", "BSum2"}
  MaxK = 2
  InsKind = "t"
CHECK_DEADLOCK FALSE
INVARIANTS NoEmitWithoutDemand Conservation SinkTerminalOnce CompleteOncePerLink CompletedCorrectly ErrorCorrectly BufBound NoStuck
PROPERTIES Terminates
