INIT Init
NEXT Next
CONSTRAINT Emit
CONSTANTS
  Mode = "rlinear"
  Stages = {"Inc", "Dbl", "Even", "Odd", "Err2", "Err3", "Err4", "Dup", "Rep", "Split", "Sum", "Dedup", "BSum2", "BSum3", "BFlat2", "BFlat3", "Buf1", "Buf2", "OPar1", "OPar2", "OPar3", "Par2", "Par3", "FMC", "FMM2"}
  InputsKind = "q"
  MaxDepth = 0
  SubStages = {}
  PostStages = {}
  NRandom = 9000
  RDepth = 5
  RLen = 6
  RVals = {1, 2, 3, 4}
