------------------------------ MODULE MC_Sem ------------------------------
(* Design-level obligations on Sem itself, checked exhaustively by TLC over pipelines p (depth  *)
(* <= DP), q (depth <= DQ) and input lists xs: the semantics is a function (one result per       *)
(* pipeline without defect branches), it is compositional, the defect branches only ADD          *)
(* behaviours, and the judge used on real executions accepts exactly the semantics' own result:  *)
(* it rejects a lost, a duplicated and (for ordered pipelines) a reordered element, a missing    *)
(* completion and a wrong error.  Junction judges: sanity on Concat / Merge / Zip / Balance.     *)
EXTENDS Sem
CONSTANTS Stages, Vals, MaxLen, DP, DQ
VARIABLE s

SeqsUpTo(S, d) == UNION {[1..k -> S] : k \in 0..d}
Pipes(d) == {p \in SeqsUpTo(Stages, d) : WellFormed(p)}
Lists == SeqsUpTo(Vals, MaxLen)
\* two levels so that TLC's workers share the enumeration: one initial state per p, its successors
\* are all (p, q, xs)
Init == s \in [p : Pipes(DP), q : {<<>>}, xs : {<<>>}, lvl : {0}]
Next == s.lvl = 0 /\ s' \in [p : {s.p}, q : Pipes(DQ), xs : Lists, lvl : {1}]

ErrCode(e) == IF e.errs = {} THEN 0 ELSE MinOf(e.errs)
LinCase(p, xs) == [j |-> "Linear", srcs |-> <<[inp |-> xs, p |-> p]>>, post |-> <<>>, branches |-> << <<>> >>]
Res(out, err) == [outs |-> <<out>>, errs |-> <<err>>, done |-> <<1>>]
E == Run(s.p, s.xs)
C == LinCase(s.p, s.xs)

Deterministic == Cardinality(Outs(s.p, s.xs, {}, {})) = 1
Compositional == (E.errs = {} /\ WellFormed(s.p \o s.q)) => Run(s.p \o s.q, s.xs) = Run(s.q, E.els)
DefectsOnlyAdd == Outs(s.p, s.xs, {}, {}) \subseteq Outs(s.p, s.xs, {}, {"BatchNoDemand"})
AcceptsIdeal == Verdict(C, Res(E.els, ErrCode(E))) = "ok"
RejectsLoss == (E.errs = {} /\ E.els # <<>>) => Verdict(C, Res(SubSeq(E.els, 1, Len(E.els) - 1), 0)) # "ok"
RejectsDup == E.els # <<>> => Verdict(C, Res(E.els \o <<E.els[Len(E.els)]>>, ErrCode(E))) # "ok"
RejectsSwap == (~HasPar(s.p) /\ Len(E.els) >= 2 /\ E.els[1] # E.els[2])
                  => Verdict(C, Res(<<E.els[2], E.els[1]>> \o SubSeq(E.els, 3, Len(E.els)), ErrCode(E))) # "ok"
RejectsNoCompletion == Verdict(C, [Res(E.els, ErrCode(E)) EXCEPT !.done = <<0>>]) = "stall"
RejectsWrongError == Verdict(C, Res(E.els, IF E.errs = {} THEN 3 ELSE 0)) # "ok"
                     /\ Verdict(C, Res(E.els, -1)) # "ok"

\* junction judges on the two lists L1 = Run(p, xs).els and L2 = Run(q, tagged xs).els
T == [i \in 1..Len(s.xs) |-> 10 + s.xs[i]]
FanInOK == (NoErr(s.p) /\ NoErr(s.q) /\ ~HasPar(s.p) /\ ~HasPar(s.q)) =>
  LET L1 == E.els
      L2 == Run(s.q, T).els
      JC(j) == [j |-> j, srcs |-> <<[inp |-> s.xs, p |-> s.p], [inp |-> T, p |-> s.q]>>, post |-> <<>>, branches |-> << <<>> >>]
      m == IF Len(L1) < Len(L2) THEN Len(L1) ELSE Len(L2)
  IN /\ Verdict(JC("Concat"), Res(L1 \o L2, 0)) = "ok"
     /\ Verdict(JC("Merge"), Res(L1 \o L2, 0)) = "ok"
     /\ Verdict(JC("Merge"), Res(L2 \o L1, 0)) = "ok"
     /\ (L2 # <<>> /\ L1 # <<>> /\ L1 \o L2 # L2 \o L1) => Verdict(JC("Concat"), Res(L2 \o L1, 0)) # "ok"
     /\ (Len(L1) >= 2 /\ L1[1] # L1[2] /\ \A i \in 1..Len(L2) : L2[i] \notin SeqRange(L1))
           => Verdict(JC("Merge"), Res(<<L1[2], L1[1]>> \o SubSeq(L1, 3, Len(L1)) \o L2, 0)) # "ok"
     /\ Verdict(JC("Zip"), Res([k \in 1..m |-> 100 * L1[k] + L2[k]], 0)) = "ok"
     /\ (m >= 1) => Verdict(JC("Zip"), Res([k \in 1..(m - 1) |-> 100 * L1[k] + L2[k]], 0)) # "ok"
FanOutOK == (~HasPar(s.p)) =>
  LET L == E.els
      FC(j) == [j |-> j, srcs |-> <<[inp |-> s.xs, p |-> s.p]>>, post |-> <<>>, branches |-> << <<>>, <<>> >>]
      ev == SelectSeq(L, LAMBDA v : v % 2 = 0)
      od == SelectSeq(L, LAMBDA v : v % 2 = 1)
      er == ErrCode(E)
      R2(a, b) == [outs |-> <<a, b>>, errs |-> <<er, er>>, done |-> <<1, 1>>]
  IN /\ Verdict(FC("Broadcast"), R2(L, L)) = "ok"
     /\ Verdict(FC("Partition"), R2(ev, od)) = "ok"
     /\ Verdict(FC("Balance"), R2(ev, od)) = "ok"
     /\ Verdict(FC("Balance"), R2(L, <<>>)) = "ok"
     /\ (L # <<>>) => /\ (E.errs = {} => Verdict(FC("Broadcast"), R2(L, Tail(L))) # "ok")
                      /\ (E.errs = {} => Verdict(FC("Balance"), R2(Tail(L), <<>>)) # "ok")
                      /\ Verdict(FC("Balance"), R2(L, <<L[1]>>)) # "ok"
     /\ (od # <<>>) => Verdict(FC("Partition"), R2(ev \o <<od[1]>>, Tail(od))) # "ok"
=============================================================================
