INIT Init
CHECK_DEADLOCK FALSE
NEXT Next
CONSTANTS
  Stages = {"Inc", "Even", "Err3", "Dup", "BSum2", "Par2"}
  Vals = {1, 2, 3}
  MaxLen = 2
  DP = 2
  DQ = 1
INVARIANTS Deterministic Compositional DefectsOnlyAdd AcceptsIdeal RejectsLoss RejectsDup RejectsSwap RejectsNoCompletion RejectsWrongError FanInOK FanOutOK
