INIT Init
NEXT Next
CONSTRAINT Emit
CONSTANTS
  Mode = "junction"
  Stages = {}
  InputsKind = "q"
  MaxDepth = 0
  SubStages = {"Inc", "Even", "Dup", "Err3", "Buf1", "OPar2", "Par2", "BSum2"}
  PostStages = {"Inc", "Dup", "Sum", "Err3", "BSum2"}
  NRandom = 0
  RDepth = 0
  RLen = 0
  RVals = {1}
