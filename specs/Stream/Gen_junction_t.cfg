INIT Init
NEXT Next
CONSTRAINT Emit
CONSTANTS
  Mode = "junction"
  Stages = {}
  InputsKind = "q"
  MaxDepth = 0
  SubStages = {"Inc", "Even", "Dup", "Rep", "Err3", "Sum", "Dedup", "Buf1", "Buf2", "OPar2", "Par2", "BSum2", "BFlat2", "Split"}
  PostStages = {"Inc", "Dbl", "Even", "Dup", "Rep", "Sum", "Dedup", "Err3", "BSum2", "Buf1", "OPar2", "Par2"}
  NRandom = 0
  RDepth = 0
  RLen = 0
  RVals = {1}
