SPECIFICATION LiveSpec
CONSTANTS
  Defects = {}
  StageSet = {"Dup", "Err3", "BSum2"}
  MaxK = 3
  InsKind = "q"
CHECK_DEADLOCK FALSE
INVARIANTS NoEmitWithoutDemand Conservation SinkTerminalOnce CompleteOncePerLink CompletedCorrectly ErrorCorrectly BufBound NoStuck
PROPERTIES Terminates
