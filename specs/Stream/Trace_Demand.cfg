SPECIFICATION TSpec
CONSTANTS
  Defects = {"BatchNoDemand", "DoubleComplete"}
CHECK_DEADLOCK FALSE
INVARIANTS NoEmitWithoutDemand Conservation SinkTerminalOnce ErrorCorrectly
