------------------------------- MODULE Sem -------------------------------
(* List semantics of goakt's stream package (properties C45 / C46).                  *)
(*                                                                                    *)
(* A *stage* is a name of the fixed vocabulary shared with harness/cmd/streams        *)
(* (function `via`); every name stands for one concrete use of the real API on        *)
(* int64 elements:                                                                    *)
(*   Inc  Map(x+1)            Dbl  Map(2x)             Even/Odd  Filter               *)
(*   ErrV TryMap failing at value V (V = 2,3,4)        Dup  FlatMap(x -> x,x)         *)
(*   Rep  FlatMap(x -> x mod 3 copies of x)            Split Map(x -> [x,x+10]);Flatten *)
(*   Sum  Scan(0,+)           Dedup Deduplicate        BufN Buffer(N)                 *)
(*   BSumN  Batch(N, never);Map(chunk -> 1000*len+sum) BFlatN Batch(N, never);Flatten  *)
(*   OParN OrderedParallelMap(N, x+1)                  ParN ParallelMap(N, x+1)       *)
(*   FMC  FlatMapConcat(x -> Of(x, x+10))              FMM2 FlatMapMerge(2, x -> Of(x, x+10)) *)
(* A *pipeline* is a sequence of stages; a *case* is a junction kind, its source      *)
(* pipelines with their inputs, the stages after a fan-in (post) and the per-branch   *)
(* stages of a fan-out.  `Verdict` judges what the sinks of a real execution of the   *)
(* case observed.                                                                     *)
(*                                                                                    *)
(* Deviations of the real code that were reproduced are named branches: the           *)
(* semantics is evaluated for a set D of defect names; D = {} is the contract.        *)
(*   "BatchNoDemand": batchFlowActor.flush does nothing without downstream demand:    *)
(*        the window keeps growing (chunks larger than N) and what is still in the    *)
(*        window when upstream completes is lost.                                     *)
(*   "BalanceDrop": balanceHubActor drops an element when no branch has demand        *)
(*        (reachable when the hub's upstream ignores demand: ParallelMap).            *)
(*   "ConcatOverlap": FlatMapConcat relies on its upstream honouring its demand of    *)
(*        one element at a time; directly behind (Ordered)ParallelMap or a fused      *)
(*        Map/Filter run, which push, several sub-sources run at once and their       *)
(*        outputs are reordered.                                                      *)
EXTENDS Integers, Sequences, FiniteSets, TLC

\* ------------------------------------------------------------------ helpers
RECURSIVE Flat(_)
Flat(ss) == IF ss = <<>> THEN <<>> ELSE Head(ss) \o Flat(Tail(ss))

RECURSIVE SumSeq(_)
SumSeq(xs) == IF xs = <<>> THEN 0 ELSE Head(xs) + SumSeq(Tail(xs))

SeqRange(xs) == {xs[i] : i \in 1..Len(xs)}
Count(xs, v) == Cardinality({i \in 1..Len(xs) : xs[i] = v})
IsPrefix(a, b) == Len(a) <= Len(b) /\ SubSeq(b, 1, Len(a)) = a
SameBag(a, b) == Len(a) = Len(b) /\ \A v \in SeqRange(a) \cup SeqRange(b) : Count(a, v) = Count(b, v)
SubBag(a, b) == \A v \in SeqRange(a) : Count(a, v) <= Count(b, v)

RECURSIVE IsSubseq(_, _)
IsSubseq(a, b) == IF a = <<>> THEN TRUE
                  ELSE IF b = <<>> THEN FALSE
                  ELSE IF Head(a) = Head(b) THEN IsSubseq(Tail(a), Tail(b))
                  ELSE IsSubseq(a, Tail(b))

\* out is an interleaving of the sequences ls[1..n] (every ls[i] in its own order)
RECURSIVE Interleaving(_, _)
Interleaving(out, ls) ==
  IF out = <<>> THEN \A i \in 1..Len(ls) : ls[i] = <<>>
  ELSE \E i \in 1..Len(ls) : /\ ls[i] # <<>>
                             /\ Head(ls[i]) = Head(out)
                             /\ Interleaving(Tail(out), [ls EXCEPT ![i] = Tail(ls[i])])

MinOf(S) == CHOOSE m \in S : \A x \in S : m <= x

\* ------------------------------------------------------------------ vocabulary
ErrOf(s) == CASE s = "Err2" -> 2 [] s = "Err3" -> 3 [] s = "Err4" -> 4 [] OTHER -> 0
BatchN(s) == CASE s \in {"BSum2", "BFlat2"} -> 2 [] s \in {"BSum3", "BFlat3"} -> 3 [] OTHER -> 0
IsBSum(s) == s \in {"BSum2", "BSum3"}
IsPar(s) == s \in {"Par2", "Par3"}
Unordered(s) == IsPar(s) \/ s = "FMM2"           \* the stage emits in completion order
IsOPar(s) == s \in {"OPar1", "OPar2", "OPar3"}
IsBuf(s) == s \in {"Buf1", "Buf2"}
\* stages whose output is the concatenation of per-element outputs (no state, no position)
Elementwise(s) == s \in {"Inc", "Dbl", "Even", "Odd", "Dup", "Rep", "Split", "FMC", "FMM2"} \/ IsPar(s) \/ IsOPar(s) \/ IsBuf(s)
\* stages that may follow an unordered stage without making the expected bag ambiguous
OrderInsensitive(s) == Elementwise(s) \/ s \in {"BFlat2", "BFlat3"}
HasPar(p) == \E i \in 1..Len(p) : Unordered(p[i])
HasBatch(p) == \E i \in 1..Len(p) : BatchN(p[i]) # 0
IgnoresDemand(p) == \E i \in 1..Len(p) : IsPar(p[i]) \/ IsOPar(p[i])
\* FlatMapConcat directly behind a stage ACTOR that pushes without demand (defect ConcatOverlap):
\* parallelMapActor, or a fusedFlowActor (>= 2 adjacent Map/TryMap/Filter actors when fusion is on; the last
\* actor of BSumN is a Map)
Fusable(s) == s \in {"Inc", "Dbl", "Even", "Odd", "Err2", "Err3", "Err4"}
OverlapAt(p, j) == /\ j >= 2 /\ p[j] = "FMC"
                   /\ \/ IsPar(p[j - 1]) \/ IsOPar(p[j - 1])
                      \/ j >= 3 /\ Fusable(p[j - 1]) /\ (Fusable(p[j - 2]) \/ IsBSum(p[j - 2]))
HasOverlap(p) == \E j \in 1..Len(p) : OverlapAt(p, j)

Each(s, x) ==
  CASE s = "Inc" -> <<x + 1>>
    [] s = "Dbl" -> <<2 * x>>
    [] s = "Even" -> IF x % 2 = 0 THEN <<x>> ELSE <<>>
    [] s = "Odd" -> IF x % 2 = 1 THEN <<x>> ELSE <<>>
    [] s = "Dup" -> <<x, x>>
    [] s = "Rep" -> [i \in 1..(x % 3) |-> x]
    [] s \in {"Split", "FMC", "FMM2"} -> <<x, x + 10>>
    [] IsPar(s) \/ IsOPar(s) -> <<x + 1>>
    [] OTHER -> <<x>>                       \* Buffer

RECURSIVE RunSum(_, _)
RunSum(xs, acc) == IF xs = <<>> THEN <<>> ELSE <<acc + Head(xs)>> \o RunSum(Tail(xs), acc + Head(xs))

RECURSIVE DedupSeq(_)
DedupSeq(xs) == IF Len(xs) <= 1 THEN xs
                ELSE IF xs[1] = xs[2] THEN DedupSeq(Tail(xs))
                ELSE <<xs[1]>> \o DedupSeq(Tail(xs))

RECURSIVE Chunks(_, _)
Chunks(xs, n) == IF Len(xs) <= n THEN (IF xs = <<>> THEN <<>> ELSE <<xs>>)
                 ELSE <<SubSeq(xs, 1, n)>> \o Chunks(SubSeq(xs, n + 1, Len(xs)), n)

\* the chunkings batchFlowActor can produce when flush meets no demand (defect BatchNoDemand): every
\* emitted chunk except a final completion flush has at least n elements, what remains may be lost
RECURSIVE ChunksD(_, _)
ChunksD(xs, n) ==
  {<<>>} \cup (IF xs = <<>> THEN {} ELSE {<<xs>>})
         \cup UNION {{<<SubSeq(xs, 1, k)>> \o rest : rest \in ChunksD(SubSeq(xs, k + 1, Len(xs)), n)} : k \in n..(Len(xs) - 1)}

EncChunks(s, cs) == IF IsBSum(s) THEN [i \in 1..Len(cs) |-> 1000 * Len(cs[i]) + SumSeq(cs[i])] ELSE Flat(cs)

\* a stage applied to a complete list (no failing element)
Pure(s, xs) ==
  CASE s = "Sum" -> RunSum(xs, 0)
    [] s = "Dedup" -> DedupSeq(xs)
    [] BatchN(s) # 0 -> EncChunks(s, Chunks(xs, BatchN(s)))
    [] OTHER -> Flat([i \in 1..Len(xs) |-> Each(s, xs[i])])

FirstIdx(xs, v) == IF v \in SeqRange(xs) THEN MinOf({i \in 1..Len(xs) : xs[i] = v}) ELSE 0

\* results of one stage on the list xs: [els, err]; err = 0: no failure, else the value it failed at
\* (the elements before the failing one are processed, then the stream ends with the error)
StageOuts(s, xs, D) ==
  IF ErrOf(s) # 0
  THEN LET k == FirstIdx(xs, ErrOf(s))
       IN IF k = 0 THEN {[els |-> xs, err |-> 0]} ELSE {[els |-> SubSeq(xs, 1, k - 1), err |-> ErrOf(s)]}
  ELSE IF BatchN(s) # 0 /\ "BatchNoDemand" \in D
  THEN {[els |-> EncChunks(s, cs), err |-> 0] : cs \in ChunksD(xs, BatchN(s))}
  ELSE {[els |-> Pure(s, xs), err |-> 0]}

\* results of a pipeline: [els, errs]: els = what a sink can receive at most; errs = the errors the
\* stream may end with (each stage sees its upstream's output truncated at the upstream's failure; which
\* of several failing stages wins depends on demand timing, every one of them is "that error")
RECURSIVE Outs(_, _, _, _)
Outs(p, xs, errs, D) ==
  IF p = <<>> THEN {[els |-> xs, errs |-> errs]}
  ELSE UNION {Outs(Tail(p), r.els, IF r.err = 0 THEN errs ELSE errs \cup {r.err}, D) : r \in StageOuts(Head(p), xs, D)}

\* the contract for deterministic pipelines (used by the algebraic sanity checks)
Run(p, xs) == CHOOSE e \in Outs(p, xs, {}, {}) : TRUE

\* what one sink observed (out, err) against one expectation e; un: order is not determined;
\* lossy: a batch stage works on an unordered stream under defect BatchNoDemand: the window it loses
\* at completion is not a suffix of the canonical order, any sub-bag can remain
SinkOK(e, un, out, err) ==
  IF e.errs = {}
  THEN err = 0 /\ (IF un THEN SameBag(out, e.els) ELSE out = e.els)
  ELSE err \in e.errs /\ (IF un THEN SubBag(out, e.els) ELSE IsPrefix(out, e.els))
SinkOKD(e, un, out, err, p, D) ==
  IF un /\ "BatchNoDemand" \in D /\ HasBatch(p)
  THEN (IF e.errs = {} THEN err = 0 ELSE err \in e.errs) /\ SubBag(out, e.els)
  ELSE SinkOK(e, un, out, err)

\* ------------------------------------------------------------------ cases
NSrc(c) == Len(c.srcs)
NBranch(c) == Len(c.branches)
FanIn(c) == c.j \in {"Merge", "MergePref", "Concat", "Zip", "Combine"}
FanOut(c) == c.j \in {"Broadcast", "Balance", "Partition"}

RECURSIVE EncTuple(_, _)
EncTuple(t, acc) == IF t = <<>> THEN acc ELSE EncTuple(Tail(t), acc * 100 + Head(t))

ZipOf(ls) == LET m == MinOf({Len(ls[i]) : i \in 1..Len(ls)})
             IN [k \in 1..m |-> EncTuple([i \in 1..Len(ls) |-> ls[i][k]], 0)]

\* choices of one result per source pipeline (singletons unless a defect branch is enabled): the product
\* of the per-source result sets, built directly
RECURSIVE ProdSeq(_)
ProdSeq(sets) == IF sets = <<>> THEN {<<>>}
                 ELSE {<<x>> \o rest : x \in Head(sets), rest \in ProdSeq(Tail(sets))}
SrcChoices(c, D) ==
  ProdSeq([i \in 1..NSrc(c) |-> {e.els : e \in Outs(c.srcs[i].p, c.srcs[i].inp, {}, D)}])

JudgeLinear(c, r, D) ==
  LET p == c.srcs[1].p \o c.post \o c.branches[1]
      un == HasPar(p) \/ ("ConcatOverlap" \in D /\ HasOverlap(p))
  IN \E e \in Outs(p, c.srcs[1].inp, {}, D) : SinkOKD(e, un, r.outs[1], r.errs[1], p, D)

JudgeFanIn(c, r, D) ==
  LET q == c.post \o c.branches[1]
      out == r.outs[1]
  IN \E ls \in SrcChoices(c, D) :
       CASE c.j \in {"Merge", "MergePref"} ->
              \* q is elementwise (generator constraint): it commutes with the interleaving
              LET ms == [i \in 1..Len(ls) |-> Run(q, ls[i]).els]
              IN r.errs[1] = 0 /\ (IF HasPar(q) THEN SameBag(out, Flat(ms)) ELSE Interleaving(out, ms))
         [] c.j = "Concat" -> \E e \in Outs(q, Flat(ls), {}, D) : SinkOKD(e, HasPar(q), out, r.errs[1], q, D)
         [] OTHER -> \E e \in Outs(q, ZipOf(ls), {}, D) : SinkOKD(e, HasPar(q), out, r.errs[1], q, D)   \* Zip, Combine

SumLen(outs) == SumSeq([b \in 1..Len(outs) |-> Len(outs[b])])

JudgeFanOut(c, r, D) ==
  LET sp == c.srcs[1].p
      n == NBranch(c)
      un0 == HasPar(sp)
  IN \E L \in Outs(sp, c.srcs[1].inp, {}, D) :
       CASE c.j = "Broadcast" ->
              \A b \in 1..n : \E e \in Outs(c.branches[b], L.els, L.errs, D) :
                 SinkOKD(e, un0 \/ HasPar(c.branches[b]), r.outs[b], r.errs[b], sp \o c.branches[b], D)
         [] c.j = "Partition" ->
              \A b \in 1..n : \E e \in Outs(c.branches[b], SelectSeq(L.els, LAMBDA v : v % n = b - 1), L.errs, D) :
                 SinkOKD(e, un0 \/ HasPar(c.branches[b]), r.outs[b], r.errs[b], sp \o c.branches[b], D)
         [] OTHER ->   \* Balance: every element to exactly one branch, order kept inside a branch
              IF "BalanceDrop" \in D /\ IgnoresDemand(sp)
              THEN /\ \A b \in 1..n : (IF L.errs = {} THEN r.errs[b] = 0 ELSE r.errs[b] \in L.errs)
                   /\ \A b \in 1..n : un0 \/ IsSubseq(r.outs[b], L.els)
                   /\ SubBag(Flat(r.outs), L.els)
              ELSE IF L.errs = {}
              THEN /\ \A b \in 1..n : r.errs[b] = 0
                   /\ IF un0 /\ "BatchNoDemand" \in D /\ HasBatch(sp) THEN SubBag(Flat(r.outs), L.els)
                      ELSE IF un0 THEN SameBag(Flat(r.outs), L.els) ELSE Interleaving(L.els, r.outs)
              ELSE /\ \A b \in 1..n : r.errs[b] \in L.errs
                   /\ SumLen(r.outs) <= Len(L.els)
                   /\ IF un0 THEN SubBag(Flat(r.outs), L.els)
                      ELSE Interleaving(SubSeq(L.els, 1, SumLen(r.outs)), r.outs)

Judge(c, r, D) == IF FanIn(c) THEN JudgeFanIn(c, r, D)
                  ELSE IF FanOut(c) THEN JudgeFanOut(c, r, D)
                  ELSE JudgeLinear(c, r, D)

\* "ok" | "stall" (some sink never completed) | the smallest set of defect branches that explains it
\* (names joined by "+") | "mismatch"
DefectSets == << <<"BatchNoDemand", {"BatchNoDemand"}>>, <<"BalanceDrop", {"BalanceDrop"}>>, <<"ConcatOverlap", {"ConcatOverlap"}>>,
                 <<"BatchNoDemand+BalanceDrop", {"BatchNoDemand", "BalanceDrop"}>>,
                 <<"BatchNoDemand+ConcatOverlap", {"BatchNoDemand", "ConcatOverlap"}>>,
                 <<"BalanceDrop+ConcatOverlap", {"BalanceDrop", "ConcatOverlap"}>>,
                 <<"BatchNoDemand+BalanceDrop+ConcatOverlap", {"BatchNoDemand", "BalanceDrop", "ConcatOverlap"}>> >>
Verdict(c, r) ==
  IF \E b \in 1..Len(r.done) : r.done[b] # 1 THEN "stall"
  ELSE IF Judge(c, r, {}) THEN "ok"
  ELSE LET hits == {k \in 1..Len(DefectSets) : Judge(c, r, DefectSets[k][2])}
       IN IF hits = {} THEN "mismatch" ELSE DefectSets[MinOf(hits)][1]

\* ------------------------------------------------------------------ generator-side well-formedness
\* after an unordered stage only order-insensitive, non-failing stages (keeps the expected bag unique)
WellFormed(p) == \A i \in 1..Len(p) : (Unordered(p[i]) \/ OverlapAt(p, i)) => \A j \in (i + 1)..Len(p) : OrderInsensitive(p[j]) /\ ErrOf(p[j]) = 0
NoErr(p) == \A i \in 1..Len(p) : ErrOf(p[i]) = 0
AllElementwise(p) == \A i \in 1..Len(p) : Elementwise(p[i])
=============================================================================
