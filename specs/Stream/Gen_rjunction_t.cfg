INIT Init
NEXT Next
CONSTRAINT Emit
CONSTANTS
  Mode = "rjunction"
  Stages = {"Inc", "Dbl", "Even", "Odd", "Err3", "Dup", "Rep", "Split", "Sum", "Dedup", "BSum2", "BFlat2", "Buf1", "Buf2", "OPar2", "Par2", "FMC", "FMM2"}
  InputsKind = "q"
  MaxDepth = 0
  SubStages = {}
  PostStages = {}
  NRandom = 12000
  RDepth = 2
  RLen = 5
  RVals = {1, 2, 3, 4}
