----------------------------- MODULE MC_Demand -----------------------------
(* Exhaustive exploration of Demand over a family of chains: every sequence of at most MaxK      *)
(* stage kinds of StageSet, every input of Ins, every demand window of Windows.                  *)
EXTENDS Demand
CONSTANTS StageSet, MaxK, InsKind
SeqsUpTo(S, d) == UNION {[1..k -> S] : k \in 0..d}
Windows == {<<1, 0>>, <<2, 0>>, <<2, 1>>, <<3, 1>>}
Ins == IF InsKind = "q" THEN {<<1, 2, 3, 4>>}
       ELSE {<<>>, <<3>>, <<2, 3, 4>>, <<1, 2, 3, 4, 5>>}
\* flow stages and the sink use the window w; a batch stage keeps a window larger than its batch size
Configs == {[kinds |-> ks, inp |-> in,
             w |-> [i \in 1..(Len(ks) + 1) |-> IF i <= Len(ks) /\ BatchN(ks[i]) # 0 THEN [d |-> 4, r |-> 1] ELSE [d |-> w[1], r |-> w[2]]]] :
              ks \in SeqsUpTo(StageSet, MaxK), in \in Ins, w \in Windows}
Init == \E c \in Configs : InitFor(c)
Spec == Init /\ [][Next]_vars
LiveSpec == Init /\ [][Next]_vars /\ Fair
\* the only states without successor are those in which the sink has stopped
NoStuck == (ENABLED Next) \/ ~alive[K + 1]
=============================================================================
