------------------------------ MODULE Demand ------------------------------
(* The demand / credit protocol of a materialized LINEAR stream: a chain of stage actors        *)
(*      node 0 = pullSourceActor (stream.Of)   nodes 1..K = flow stages   node K+1 = sinkActor   *)
(* transcribed from stream/stage_source.go (produce), stream/stage_flow.go (flowActor.Receive,   *)
(* tryFlushOutput, maybeRequestUpstream; batchFlowActor.Receive, flush, maybeRequestUpstream)    *)
(* and stream/stage_sink.go (sinkActor.Receive).  One action = one message handled by one actor  *)
(* (the actor's Receive runs to completion on its own state; the messages it Tells are appended  *)
(* to per-link FIFO channels: dn[l] carries node l -> node l+1, up[l] carries node l+1 -> l).    *)
(* An actor's mailbox merges its two neighbours' messages in arrival order; per-sender order is  *)
(* FIFO, cross-sender order is arbitrary: exactly "take the head of either inbound channel".     *)
(* A Tell to a stopped actor is dropped (PID.Tell returns ErrDead).                              *)
(*                                                                                              *)
(* Stage kinds are names of Sem's vocabulary: stateless flowActor stages (Inc, Dbl, Even, Odd,   *)
(* Dup, Rep, ErrV, Id) and the batch actor BSum2/BSum3 (the batch actor alone, emitting the      *)
(* chunk encoded as 1000*len+sum; maxWait is infinite: the timer never fires).                   *)
(*                                                                                              *)
(* Defects (named deviations of the real code from the intended design):                         *)
(*  "BatchNoDemand"  batchFlowActor.flush returns without doing anything when downstreamDemand   *)
(*                   is 0: the window grows past the batch size, and on streamComplete the       *)
(*                   window is dropped and completion is propagated (elements lost).  Without    *)
(*                   the defect the batch stage flushes when demand arrives and defers           *)
(*                   completion until its window is drained.                                     *)
(*  "DoubleComplete" flowActor's streamComplete handler sends streamComplete downstream twice    *)
(*                   when its buffer is empty (once in tryFlushOutput, once in the handler).     *)
(*                   Harmless for every receiver (it has stopped, or is already completing).     *)
EXTENDS Sem

CONSTANT Defects

VARIABLES cfg,        \* [kinds : Seq(stage name) (nodes 1..K), inp : Seq(Int), w : Seq([d, r]) (demand window of nodes 1..K+1)]
          next,       \* source: index of the next input element
          alive,      \* [0..K+1 -> BOOLEAN]
          credit,     \* [1..K+1 -> Int]  upstreamCredit (flow/batch), credit (sink)
          demand,     \* [1..K -> Int]    downstreamDemand
          buf,        \* [1..K -> Seq]    outputBuf (flow) / window (batch)
          cpl,        \* [1..K -> BOOLEAN] completing
          dn, up,     \* [0..K -> Seq(message)]
          got,        \* what the sink consumed
          term,       \* terminal signals the sink handled: sequence of "cmp" / "err"
          sentEl, reqd, sentCmp   \* [0..K -> Nat] history counters per link

vars == <<cfg, next, alive, credit, demand, buf, cpl, dn, up, got, term, sentEl, reqd, sentCmp>>

K == Len(cfg.kinds)
Kind(i) == cfg.kinds[i]
IsBatch(i) == BatchN(Kind(i)) # 0
Win(i) == cfg.w[i].d       \* InitialDemand of node i
Thr(i) == cfg.w[i].r       \* RefillThreshold of node i

Msg(t, v) == [t |-> t, v |-> v]
El(v) == Msg("el", v)
Cmp == Msg("cmp", 0)
ErrM == Msg("err", 0)
Req(n) == Msg("req", n)
Cancel == Msg("cancel", 0)
Els(vs) == [k \in 1..Len(vs) |-> El(vs[k])]
MinI(a, b) == IF a < b THEN a ELSE b
NumT(ms, t) == Cardinality({k \in 1..Len(ms) : ms[k].t = t})
SumReq(ms) == SumSeq([k \in 1..Len(ms) |-> IF ms[k].t = "req" THEN ms[k].v ELSE 0])

InitRec(c) ==
  LET k == Len(c.kinds)
      sd == c.w[k + 1].d
  IN [cfg |-> c, next |-> 1,
      alive |-> [i \in 0..(k + 1) |-> TRUE],
      credit |-> [i \in 1..(k + 1) |-> IF i = k + 1 THEN sd ELSE 0],
      demand |-> [i \in 1..k |-> 0],
      buf |-> [i \in 1..k |-> <<>>],
      cpl |-> [i \in 1..k |-> FALSE],
      dn |-> [l \in 0..k |-> <<>>],
      up |-> [l \in 0..k |-> IF l = k THEN <<Req(sd)>> ELSE <<>>],   \* the sink's stageWire: Request(InitialDemand)
      got |-> <<>>, term |-> <<>>,
      sentEl |-> [l \in 0..k |-> 0],
      reqd |-> [l \in 0..k |-> IF l = k THEN sd ELSE 0],
      sentCmp |-> [l \in 0..k |-> 0]]
InitFor(c) == LET r == InitRec(c) IN
  /\ cfg = r.cfg /\ next = r.next /\ alive = r.alive /\ credit = r.credit /\ demand = r.demand
  /\ buf = r.buf /\ cpl = r.cpl /\ dn = r.dn /\ up = r.up /\ got = r.got /\ term = r.term
  /\ sentEl = r.sentEl /\ reqd = r.reqd /\ sentCmp = r.sentCmp

\* ---- the effect of one handled message: new local state + messages told down / up ---------
\* st = [cr, dm, bf, cp, al]; result adds sd (told to node i+1) and su (told to node i-1)
Out(st, sd, su) == [cr |-> st.cr, dm |-> st.dm, bf |-> st.bf, cp |-> st.cp, al |-> st.al, sd |-> sd, su |-> su]
Dead(st) == [st EXCEPT !.al = FALSE]

\* flowActor: tryFlushOutput followed by maybeRequestUpstream
FlowFlushReq(i, st) ==
  LET k == MinI(st.dm, Len(st.bf))
      els == Els(SubSeq(st.bf, 1, k))
      s2 == [st EXCEPT !.bf = SubSeq(st.bf, k + 1, Len(st.bf)), !.dm = st.dm - k]
      avail == Win(i) - s2.cr - Len(s2.bf)
  IN IF s2.cp /\ s2.bf = <<>> THEN Out(Dead(s2), els \o <<Cmp>>, <<>>)
     ELSE IF ~s2.cp /\ avail > 0 /\ s2.cr <= Thr(i) THEN Out([s2 EXCEPT !.cr = s2.cr + avail], els, <<Req(avail)>>)
     ELSE Out(s2, els, <<>>)

FlowH(i, st, m) ==
  CASE m.t = "req" -> FlowFlushReq(i, [st EXCEPT !.dm = st.dm + m.v])
    [] m.t = "el" -> IF ErrOf(Kind(i)) # 0 /\ ErrOf(Kind(i)) = m.v
                     THEN Out(Dead(st), <<ErrM>>, <<Cancel>>)                         \* FailFast
                     ELSE FlowFlushReq(i, [st EXCEPT !.cr = st.cr - 1, !.bf = st.bf \o Each(Kind(i), m.v)])
    [] m.t = "cmp" -> LET k == MinI(st.dm, Len(st.bf))
                          els == Els(SubSeq(st.bf, 1, k))
                          s2 == [st EXCEPT !.bf = SubSeq(st.bf, k + 1, Len(st.bf)), !.dm = st.dm - k, !.cp = TRUE]
                      IN IF s2.bf = <<>>
                         THEN Out(Dead(s2), els \o (IF "DoubleComplete" \in Defects THEN <<Cmp, Cmp>> ELSE <<Cmp>>), <<>>)
                         ELSE Out(s2, els, <<>>)
    [] m.t = "err" -> Out(Dead(st), <<m>>, <<>>)
    [] OTHER -> Out(Dead(st), <<>>, <<Cancel>>)                                        \* cancel

\* batchFlowActor
EncB(w) == 1000 * Len(w) + SumSeq(w)
BatchReq(i, st) ==        \* maybeRequestUpstream
  LET avail == Win(i) - st.cr - Len(st.bf)
  IN IF avail > 0 /\ st.cr <= Thr(i) THEN [st EXCEPT !.cr = st.cr + avail, !.su = <<Req(avail)>>] ELSE st
\* repaired flush: chunks of at most N while there is demand and a full chunk (or, completing, anything) is buffered
RECURSIVE BatchDrain(_, _)
BatchDrain(n, st) ==
  IF st.dm > 0 /\ (Len(st.bf) >= n \/ (st.cp /\ st.bf # <<>>))
  THEN LET k == MinI(n, Len(st.bf))
       IN BatchDrain(n, [st EXCEPT !.sd = st.sd \o <<El(EncB(SubSeq(st.bf, 1, k)))>>, !.bf = SubSeq(st.bf, k + 1, Len(st.bf)), !.dm = st.dm - 1])
  ELSE st
BatchH(i, st0, m) ==
  LET n == BatchN(Kind(i))
      st == Out(st0, <<>>, <<>>)
      real == "BatchNoDemand" \in Defects
      \* real flush(): no demand => no-op; otherwise the whole window as ONE element
      flushR(s) == IF s.dm <= 0 THEN s ELSE [s EXCEPT !.sd = s.sd \o <<El(EncB(s.bf))>>, !.bf = <<>>, !.dm = s.dm - 1]
  IN CASE m.t = "req" ->
            IF real THEN BatchReq(i, [st EXCEPT !.dm = st.dm + m.v])
            ELSE LET s2 == BatchDrain(n, [st EXCEPT !.dm = st.dm + m.v])
                 IN IF s2.cp /\ s2.bf = <<>> THEN [Dead(s2) EXCEPT !.sd = s2.sd \o <<Cmp>>] ELSE BatchReq(i, s2)
       [] m.t = "el" ->
            LET s1 == [st EXCEPT !.cr = st.cr - 1, !.bf = st.bf \o <<m.v>>]
            IN IF real THEN BatchReq(i, IF Len(s1.bf) >= n THEN flushR(s1) ELSE s1)
               ELSE BatchReq(i, BatchDrain(n, s1))
       [] m.t = "cmp" ->
            IF real THEN LET s1 == IF st.bf # <<>> THEN flushR(st) ELSE st
                         IN [Dead(s1) EXCEPT !.sd = s1.sd \o <<Cmp>>, !.bf = <<>>]       \* what is still in the window is gone
            ELSE LET s2 == BatchDrain(n, [st EXCEPT !.cp = TRUE])
                 IN IF s2.bf = <<>> THEN [Dead(s2) EXCEPT !.sd = s2.sd \o <<Cmp>>] ELSE s2
       [] m.t = "err" -> [Dead(st) EXCEPT !.sd = <<m>>]
       [] OTHER -> [Dead(st) EXCEPT !.su = <<Cancel>>]

\* ---- applying a result to the global state ------------------------------------------------
\* node i (1..K) handled the head of inbound channel `fromUp` (TRUE: dn[i-1], FALSE: up[i])
Apply(i, fromUp, r) ==
  LET sd == IF alive[i + 1] THEN r.sd ELSE <<>>          \* Tell to a stopped actor is dropped
      su == IF alive[i - 1] THEN r.su ELSE <<>>
  IN /\ credit' = [credit EXCEPT ![i] = r.cr]
     /\ demand' = [demand EXCEPT ![i] = r.dm]
     /\ buf' = [buf EXCEPT ![i] = r.bf]
     /\ cpl' = [cpl EXCEPT ![i] = r.cp]
     /\ alive' = [alive EXCEPT ![i] = r.al]
     /\ dn' = IF fromUp THEN [dn EXCEPT ![i - 1] = Tail(@), ![i] = @ \o sd] ELSE [dn EXCEPT ![i] = @ \o sd]
     /\ up' = IF fromUp THEN [up EXCEPT ![i - 1] = @ \o su] ELSE [up EXCEPT ![i] = Tail(@), ![i - 1] = @ \o su]
     /\ sentEl' = [sentEl EXCEPT ![i] = @ + NumT(r.sd, "el")]
     /\ sentCmp' = [sentCmp EXCEPT ![i] = @ + NumT(r.sd, "cmp")]
     /\ reqd' = [reqd EXCEPT ![i - 1] = @ + SumReq(r.su)]

StageRecv(i, fromUp) ==
  /\ i \in 1..K /\ alive[i]
  /\ (IF fromUp THEN dn[i - 1] ELSE up[i]) # <<>>
  /\ LET m == IF fromUp THEN Head(dn[i - 1]) ELSE Head(up[i])
         st == [cr |-> credit[i], dm |-> demand[i], bf |-> buf[i], cp |-> cpl[i], al |-> TRUE]
     IN Apply(i, fromUp, IF IsBatch(i) THEN BatchH(i, st, m) ELSE FlowH(i, st, m))
  /\ UNCHANGED <<cfg, next, got, term>>

\* pullSourceActor (stream.Of): produce(n)
SourceRecv ==
  /\ alive[0] /\ up[0] # <<>>
  /\ LET m == Head(up[0])
         rem == Len(cfg.inp) - next + 1
         take == IF m.t = "req" THEN MinI(m.v, rem) ELSE 0
         done == m.t # "req" \/ rem - take <= 0          \* cancel, or pullFn reports no more elements
         out == Els(SubSeq(cfg.inp, next, next + take - 1)) \o (IF done THEN <<Cmp>> ELSE <<>>)
     IN /\ next' = next + take
        /\ alive' = [alive EXCEPT ![0] = ~done]
        /\ up' = [up EXCEPT ![0] = Tail(@)]
        /\ dn' = [dn EXCEPT ![0] = IF alive[1] THEN @ \o out ELSE @]
        /\ sentEl' = [sentEl EXCEPT ![0] = @ + take]
        /\ sentCmp' = [sentCmp EXCEPT ![0] = @ + (IF done THEN 1 ELSE 0)]
  /\ UNCHANGED <<cfg, credit, demand, buf, cpl, got, term, reqd>>

\* sinkActor
SinkRecv ==
  /\ alive[K + 1] /\ dn[K] # <<>>
  /\ LET m == Head(dn[K])
         c1 == credit[K + 1] - 1
         sw == cfg.w[K + 1]
         refill == sw.d - c1
     IN /\ dn' = [dn EXCEPT ![K] = Tail(@)]
        /\ CASE m.t = "el" ->
                  /\ got' = Append(got, m.v)
                  /\ credit' = [credit EXCEPT ![K + 1] = IF c1 <= sw.r THEN c1 + refill ELSE c1]
                  /\ up' = [up EXCEPT ![K] = IF c1 <= sw.r /\ alive[K] THEN Append(@, Req(refill)) ELSE @]
                  /\ reqd' = [reqd EXCEPT ![K] = IF c1 <= sw.r THEN @ + refill ELSE @]
                  /\ UNCHANGED <<alive, term>>
             [] m.t = "cmp" ->
                  /\ term' = Append(term, "cmp")
                  /\ alive' = [alive EXCEPT ![K + 1] = FALSE]
                  /\ UNCHANGED <<got, credit, up, reqd>>
             [] OTHER ->                                   \* streamError: cancel upstream, stop
                  /\ term' = Append(term, "err")
                  /\ alive' = [alive EXCEPT ![K + 1] = FALSE]
                  /\ up' = [up EXCEPT ![K] = IF alive[K] THEN Append(@, Cancel) ELSE @]
                  /\ UNCHANGED <<got, credit, reqd>>
  /\ UNCHANGED <<cfg, next, demand, buf, cpl, sentEl, sentCmp>>

Next == SourceRecv \/ SinkRecv \/ \E i \in 1..K : StageRecv(i, TRUE) \/ StageRecv(i, FALSE)

Fair == WF_vars(SourceRecv) /\ WF_vars(SinkRecv) /\ \A i \in 1..4 : WF_vars(StageRecv(i, TRUE)) /\ WF_vars(StageRecv(i, FALSE))

\* ---- properties ---------------------------------------------------------------------------
Expected == Run(cfg.kinds, cfg.inp)         \* Sem: the list semantics of the chain

\* no element is emitted on a link without demand having been signalled on it
NoEmitWithoutDemand == \A l \in 0..K : sentEl[l] <= reqd[l]
\* nothing is lost, duplicated or reordered between the stages: the sink sees a prefix of the semantics
\* (under the real code's BatchNoDemand branch the batch stage may emit oversized chunks: any of Sem's
\* defective chunkings is then admissible; without the defect this is the contract itself)
Conservation == \E e \in Outs(cfg.kinds, cfg.inp, {}, Defects \cap {"BatchNoDemand"}) : IsPrefix(got, e.els)
\* the sink handles at most one terminal signal; each link carries at most one completion
SinkTerminalOnce == Len(term) <= 1
CompleteOncePerLink == "DoubleComplete" \in Defects \/ \A l \in 0..K : sentCmp[l] <= 1
\* a normally completed stream delivered everything; an error ends a stream exactly when the semantics says so
CompletedCorrectly == term = <<"cmp">> => (got = Expected.els /\ Expected.errs = {})
ErrorCorrectly == term = <<"err">> => Expected.errs # {}
\* buffers stay within the demand window (times the largest fan-out of a stage, 2)
BufBound == \A i \in 1..K : Len(buf[i]) <= 2 * Win(i) /\ credit[i] <= Win(i)
\* the stream terminates (no deadlock of the credit protocol)
Terminates == <>(~alive[K + 1])
=============================================================================
