---------------------------- MODULE Trace_Demand ----------------------------
(* Conformance of the REAL stage actors with Demand: trace.ndjson holds, per executed linear     *)
(* pipeline, a "New" line (the chain: kind and demand window of every stage ACTOR, the input)    *)
(* followed by one "Recv" line per message a stage actor handled, recorded at the verifhook      *)
(* "stream.recv" call site at the top of its Receive: node index, message (kind, n / value) and  *)
(* the actor's state BEFORE handling it (credit, demand, buffered count, completing).            *)
(* Each line must be the corresponding Demand action: the message must be the head of the        *)
(* inbound channel the model predicts, and the logged pre-state must equal the model's state.    *)
(* TLC stops at the first line that is not; the invariants are evaluated along the real trace.   *)
EXTENDS Demand, Json
Trace == ndJsonDeserialize("trace.ndjson")
VARIABLE l

MsgT(e) == CASE e.msg = "req" -> Req(e.n) [] e.msg = "el" -> El(e.val) [] e.msg = "complete" -> Cmp
             [] e.msg = "error" -> ErrM [] OTHER -> Cancel
FromUp(e) == e.msg \in {"el", "complete", "error"}

Reset(c) == LET r == InitRec(c) IN
  /\ cfg' = r.cfg /\ next' = r.next /\ alive' = r.alive /\ credit' = r.credit /\ demand' = r.demand
  /\ buf' = r.buf /\ cpl' = r.cpl /\ dn' = r.dn /\ up' = r.up /\ got' = r.got /\ term' = r.term
  /\ sentEl' = r.sentEl /\ reqd' = r.reqd /\ sentCmp' = r.sentCmp

Recv(e) ==
  LET i == e.node IN
  IF e.msg = "wire" THEN UNCHANGED vars
  ELSE IF e.kind = "source" THEN i = 0 /\ up[0] # <<>> /\ Head(up[0]) = MsgT(e) /\ SourceRecv
  ELSE IF e.kind = "sink" THEN /\ i = K + 1 /\ dn[K] # <<>> /\ Head(dn[K]) = MsgT(e)
                               /\ credit[K + 1] = e.credit
                               /\ SinkRecv
  ELSE /\ i \in 1..K
       /\ (IF FromUp(e) THEN dn[i - 1] ELSE up[i]) # <<>>
       /\ (IF FromUp(e) THEN Head(dn[i - 1]) ELSE Head(up[i])) = MsgT(e)
       /\ credit[i] = e.credit /\ demand[i] = e.demand /\ Len(buf[i]) = e.buf
       /\ (e.kind = "flow" => cpl[i] = (e.cpl = 1))
       /\ (e.kind = "batch") = IsBatch(i)
       /\ StageRecv(i, FromUp(e))

TStep == /\ l <= Len(Trace)
         /\ l' = l + 1
         /\ LET e == Trace[l] IN
            IF e.op = "New" THEN Reset([kinds |-> e.kinds, inp |-> e.inp, w |-> e.w]) ELSE Recv(e)
TInit == l = 1 /\ InitFor([kinds |-> <<>>, inp |-> <<>>, w |-> <<[d |-> 1, r |-> 0]>>])
TSpec == TInit /\ [][TStep]_<<vars, l>>
=============================================================================
