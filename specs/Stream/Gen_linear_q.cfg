INIT Init
NEXT Next
CONSTRAINT Emit
CONSTANTS
  Mode = "linear"
  Stages = {"Inc", "Dbl", "Even", "Err3", "Dup", "Rep", "Split", "Sum", "Dedup", "BSum2", "BSum3", "BFlat2", "Buf1", "Buf2", "OPar2", "Par2"}
  InputsKind = "q"
  MaxDepth = 2
  SubStages = {}
  PostStages = {}
  NRandom = 0
  RDepth = 0
  RLen = 0
  RVals = {1}
