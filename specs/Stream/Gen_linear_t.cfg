INIT Init
NEXT Next
CONSTRAINT Emit
CONSTANTS
  Mode = "linear"
  Stages = {"Inc", "Even", "Err3", "Dup", "Rep", "Split", "Sum", "Dedup", "BSum2", "BFlat2", "Buf1", "OPar2", "Par2"}
  InputsKind = "q"
  MaxDepth = 3
  SubStages = {}
  PostStages = {}
  NRandom = 0
  RDepth = 0
  RLen = 0
  RVals = {1}
