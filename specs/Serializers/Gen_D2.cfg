SPECIFICATION GSpec
CONSTANTS
  Defects = {}
  RegKeys = {"PM", "CP", "CT", "IA", "IB"}
  RegSers = {"CBOR", "JSON", "U1", "U2"}
  MaxRegs = 2
  Depth = 2
CONSTRAINT EmitAll
