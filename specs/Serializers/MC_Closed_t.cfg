SPECIFICATION Spec
CONSTANTS
  Defects = {}
  RegKeys = {"PM", "CP", "CT", "IA", "IB", "CE1", "NIL"}
  RegSers = {"CBOR", "U1"}
  MaxRegs = 3
INVARIANTS ClosedFormOK
CHECK_DEADLOCK FALSE
