---- MODULE Dispatch ----
(* C25 -- serializer registration / dispatch state machine of goakt remoting and the            *)
(* self-describing envelope, shaped like the code:                                              *)
(*   remote/option.go  WithSerializers / WithSerializables / WithJSONSerializables              *)
(*                     (Config.serializers : map[reflect.Type]Serializer, default PM -> Proto)  *)
(*   remote/config.go  Config.Serializer(msg)        (range over that map)                      *)
(*   internal/remoteclient/config.go ClientSerializerOptions(cfg) (range over that map,          *)
(*                     skipping the proto.Message key)                                           *)
(*   actor/actor_system.go setupRemoting             (built-in entries, then the forwarded ones)*)
(*   internal/remoteclient/client.go NewClient / WithClientSerializers / resolveSerializer      *)
(*   internal/remoteclient/serializer_dispatch.go    (receive side: proto fast path by frame    *)
(*                     type name, then every entry in order, first successful decode wins)      *)
(*   internal/types/global.go  RegisterSerializerType (process-global, case-insensitive names)  *)
(*                                                                                              *)
(* Deviations of the real code from the documented contract are named branches guarded by      *)
(* Defects; Defects = {} is the repaired design.                                                *)
EXTENDS DispatchOps
CONSTANTS Defects,   \* subset of AllDefects
          RegKeys,   \* keys the Register action may use (subset of UserKeys)
          RegSers,   \* serializers the Register action may use (subset of UserSers)
          MaxRegs    \* bound on the registration history


(* ---- the state machine --------------------------------------------------------------------------- *)
VARIABLES api, regs, built, sndE, rcvE, last
vars == <<api, regs, built, sndE, rcvE, last>>
Init == /\ api \in {"config", "client"} /\ regs = <<>> /\ built = FALSE /\ sndE = <<>> /\ rcvE = <<>>
        /\ last = [op |-> "Init"]
Register(k, s) ==
  /\ ~built /\ Len(regs) < MaxRegs
  /\ regs' = Append(regs, [k |-> k, s |-> s])
  /\ last' = [op |-> "Reg", api |-> api, k |-> k, s |-> s]
  /\ UNCHANGED <<api, built, sndE, rcvE>>
(* the two nodes build their clients independently from the same configuration *)
Build ==
  /\ ~built /\ built' = TRUE
  /\ sndE' \in EntriesSet(api, regs, Defects)
  /\ rcvE' \in EntriesSet(api, regs, Defects)
  /\ last' = [op |-> "Build"]
  /\ UNCHANGED <<api, regs>>
RegNext == \E k \in RegKeys, s \in RegSers : Register(k, s)
Next == RegNext \/ Build
Spec == Init /\ [][Next]_vars

(* ---- the property C25 (structure part), checked on built states ----------------------------------- *)
G == GregAfter(regs)
Ideal(kind) == Resolve(CHOOSE e \in EntriesSet(api, regs, {}) : TRUE, kind, {})
SndChoice(kind) == Resolve(sndE, kind, Defects)
(* P1 the serializer chosen is the one registered for the type (deterministic documented rule) *)
ChosenByType == built => \A kind \in Kinds : SndChoice(kind) = Ideal(kind)
(* P2 precedence stated without reference to Resolve: a concrete registration beats interfaces *)
ConcreteFirst == built => \A kind \in Kinds \ {"mNil"} :
   (\E i \in DOMAIN sndE : Concrete(sndE[i].k) /\ sndE[i].k \in Matches(kind))
      => \E i \in DOMAIN sndE : Concrete(sndE[i].k) /\ sndE[i].k \in Matches(kind) /\ SndChoice(kind) = sndE[i].s
(* P3 unsupported => error, never a panic, never bytes *)
NoPanic == built => \A kind \in Kinds : SndChoice(kind) # "panic"
(* P4 sender and receiver agree: what is encoded is decoded by the same codec into the same type *)
Agreement == built => \A kind \in Kinds :
   LET s == SndChoice(kind) IN
   CanEncode(s, kind, G) =>
      /\ Decode(rcvE, Frame(s, kind), G, Defects) = s
      /\ DecodedKind(s, Frame(s, kind), G, Defects) = kind
(* P5 a user override of the proto.Message default is honoured on the config API *)
ProtoOverride == (built /\ api = "config" /\ "PM" \in RegdKeys(regs)) => SndChoice("mProto") = CMap(regs, "PM")
C25 == ChosenByType /\ ConcreteFirst /\ NoPanic /\ Agreement /\ ProtoOverride

(* the defect sets the monitor evaluates first (repaired, single defects, everything, the usual pair) *)
ClosedFormQuick == \A kind \in Kinds :
                   \A D \in {{}} \cup {{d} : d \in SenderDefects} \cup {SenderDefects, {"MapOrderDispatch", "FirstMatchShadowsConcrete"}} :
                   ClosedOutcomes(api, regs, kind, D) = SndOutcomes(api, regs, kind, D)
ClosedFormOK == \A kind \in Kinds : \A D \in SUBSET SenderDefects :
                   ClosedOutcomes(api, regs, kind, D) = SndOutcomes(api, regs, kind, D)
====
