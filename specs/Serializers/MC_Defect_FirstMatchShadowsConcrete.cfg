SPECIFICATION Spec
CONSTANTS
  Defects = {"FirstMatchShadowsConcrete"}
  RegKeys = {"PM", "CP", "CT", "IA", "IB", "CE1", "CE2", "CI", "NIL"}
  RegSers = {"Proto", "CBOR", "JSON", "U1", "U2"}
  MaxRegs = 2
INVARIANTS C25
CHECK_DEADLOCK FALSE
