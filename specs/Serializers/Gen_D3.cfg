SPECIFICATION GSpec
CONSTANTS
  Defects = {}
  RegKeys = {"PM", "CP", "CT", "IA", "IB"}
  RegSers = {"CBOR", "JSON", "U1", "U2"}
  MaxRegs = 3
  Depth = 3
CONSTRAINT EmitAll
