---- MODULE Gen_Dispatch ----
(* Behaviour generator: every registration history of length Depth (BFS) or random ones        *)
(* (-simulate), printed as JSON and replayed on the real registration / dispatch code.         *)
EXTENDS Dispatch, Json
CONSTANTS Depth
VARIABLE hist
GInit == Init /\ hist = <<>>
GNext == RegNext /\ hist' = Append(hist, last')
GSpec == GInit /\ [][GNext]_<<vars, hist>>
Emit == (Len(hist) < Depth) \/ (PrintT(<<"BEHAVIOUR", ToJson(hist)>>) /\ FALSE)
(* BFS: every history of length 1 .. Depth (each state is reached by exactly one path) *)
EmitAll == IF Len(hist) = 0 THEN TRUE ELSE PrintT(<<"BEHAVIOUR", ToJson(hist)>>) /\ Len(hist) < Depth
====
