SPECIFICATION Spec
CONSTANTS
  Defects = {}
  RegKeys = {"PM", "CT", "IA", "IB", "NIL"}
  RegSers = {"U1"}
  MaxRegs = 4
INVARIANTS ClosedFormOK
CHECK_DEADLOCK FALSE
