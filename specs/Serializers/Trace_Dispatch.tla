---- MODULE Trace_Dispatch ----
(* Monitor for C25 on recorded executions of the REAL registration / dispatch code.              *)
(* It replays the recorded registrations into the contract of Dispatch.tla and judges every     *)
(* recorded send:                                                                                *)
(*   MISMATCH  the real result is outside everything Dispatch.tla allows, even with every       *)
(*             recorded (known) defect switched on          -> VIOLATION                         *)
(*   KNOWN     the real result differs from the repaired design (Defects = {}) and is exactly   *)
(*             what the named defect branch(es) of Dispatch.tla produce -> known finding         *)
(*   DRIFT     the logged entries / choices differ from the transcription of the code           *)
(*             (conformance; not a verdict)                                                      *)
(* Every line is consumed.                                                                       *)
EXTENDS DispatchOps, Json
CONSTANTS CodeDefects   \* the defect branches the code under test still has (conformance transcription only)
Trace == ndJsonDeserialize("trace.ndjson")
VARIABLES l, tapi, tregs, tsnd, trcv,
          tc      \* per build: what the contract expects for every kind (computed once at the Build line)
tvars == <<l, tapi, tregs, tsnd, trcv, tc>>

TInit == l = 1 /\ tapi = "config" /\ tregs = <<>> /\ tsnd = <<>> /\ trcv = <<>> /\ tc = <<>>

Ent(x) == [i \in DOMAIN x |-> [k |-> x[i][1], s |-> x[i][2]]]
Say(tag, a, b, c, d) == PrintT(<<tag, l, a, b, c, d>>)

(* smallest explanation of a sender-side choice by defect branches of Dispatch.tla *)
Single(kind, got)   == {D \in {{d} : d \in SenderDefects} : got \in ClosedOutcomes(tapi, tregs, kind, D)}
Explains(kind, got) == IF Single(kind, got) # {} THEN Single(kind, got)
                       ELSE {D \in SUBSET SenderDefects : got \in ClosedOutcomes(tapi, tregs, kind, D)}
Smallest(S) == CHOOSE D \in S : \A E \in S : Cardinality(D) <= Cardinality(E)

(* --- Config.Serializer(msg): the same documented rule over the configuration alone ------------- *)
CfgKeys(kind) == Matches(kind) \cap (RegdKeys(tregs) \cup {"PM"})
CfgSer(k) == IF k \in RegdKeys(tregs) THEN CMap(tregs, k) ELSE "Proto"
CfgIdeal(kind) ==
  LET conc == {k \in CfgKeys(kind) : Concrete(k)}
      ifs  == {k \in CfgKeys(kind) \ {"PM"} : ~Concrete(k)}
  IN IF kind = "mNil" \/ CfgKeys(kind) = {} THEN "none"
     ELSE IF conc # {} THEN CfgSer(CHOOSE k \in conc : TRUE)
     ELSE IF ifs = {} THEN CfgSer("PM")
     ELSE IF "PM" \in CfgKeys(kind) /\ "PM" \notin RegdKeys(tregs) THEN "Proto"     \* default registered first
     ELSE CfgSer(CHOOSE k \in ifs : \A k2 \in ifs : FirstPos(tregs, k) <= FirstPos(tregs, k2))
JudgeCfg(e) ==
  IF tapi # "config" THEN TRUE
  ELSE IF e.cfgPanic THEN
       (IF "NIL" \in RegdKeys(tregs) THEN Say("KNOWN", "NilKeyPanics", e.kind, "Config.Serializer", "panic")
        ELSE Say("MISMATCH", "cfg-panic", e.kind, "Config.Serializer panicked", ""))
  ELSE IF e.cfg = tc.cfg[e.kind] THEN TRUE
  ELSE IF e.cfg \in {CfgSer(k) : k \in CfgKeys(e.kind)} THEN Say("KNOWN", "MapOrderDispatch", e.kind, "Config.Serializer", e.cfg)
  ELSE Say("MISMATCH", "cfg-choice", e.kind, tc.cfg[e.kind], e.cfg)

(* --- the send path ------------------------------------------------------------------------------ *)
JudgeSend(e) ==
  LET kind == e.kind
      got  == IF e.sndPanic THEN "panic" ELSE e.snd
      g    == tc.g
      ideal == tc.ideal[kind]
      ex   == Explains(kind, got)
      collide == kind \in {"mEvt1", "mEvt2"} /\ got \in {"CBOR", "JSON"}
                 /\ NameOwner(g, kind, {"TypeNameCollision"}) # NameOwner(g, kind, {})
  IN
  (* 1. the serializer chosen is the one registered for the type *)
  /\ IF got \in ideal THEN TRUE
     ELSE IF ex # {} THEN Say("KNOWN", Smallest(ex), kind, "sender chose", got)
     ELSE Say("MISMATCH", "choice", kind, ideal, got)
  (* 2. unsupported -> error, supported -> bytes *)
  /\ IF e.enc = CanEncode(got, kind, g) THEN TRUE
     ELSE IF e.enc THEN Say("MISMATCH", "bytes-for-unsupported", kind, got, e.cls)
     ELSE Say("MISMATCH", "error-for-supported", kind, got, e.cls)
  (* 3. the receiver decodes with the same codec into an equal message *)
  /\ IF ~e.enc THEN TRUE
     ELSE IF e.rcvPanic THEN Say("MISMATCH", "receiver-panic", kind, got, e.cls)
     ELSE IF e.dec /\ e.rcv = got /\ e.eq THEN TRUE
     ELSE IF collide /\ (~e.dec \/ ~e.eq) THEN Say("KNOWN", "TypeNameCollision", kind, got, e.rcvType)
     ELSE IF e.dec /\ e.rcv = got /\ got = "CBOR" /\ e.cls = "timens" THEN Say("KNOWN", "CBORTimePrecision", kind, got, e.cls)
     ELSE IF e.dec /\ kind = "mInt" /\ {e.rcv, got} = {"CBOR", "JSON"} THEN Say("KNOWN", "EnvelopeCodecAmbiguity", kind, got, e.rcv)
     ELSE IF ~e.dec THEN Say("MISMATCH", "decode-failed", kind, got, e.cls)
     ELSE IF e.rcv # got THEN Say("MISMATCH", "decoded-by-other-codec", kind, got, e.rcv)
     ELSE Say("MISMATCH", "round-trip-differs", kind, got, e.cls)
  /\ JudgeCfg(e)

(* --- conformance with the transcription of the code (drift only) -------------------------------- *)
ConfBuild(e) ==
  /\ IF Ent(e.snd) \in EntriesSet(tapi, tregs, CodeDefects) THEN TRUE ELSE Say("DRIFT", "snd-entries", "", "", "")
  /\ IF Ent(e.rcv) \in EntriesSet(tapi, tregs, CodeDefects) THEN TRUE ELSE Say("DRIFT", "rcv-entries", "", "", "")
ConfSend(e) ==
  LET got == IF e.sndPanic THEN "panic" ELSE e.snd
      g == tc.g
  IN
  /\ IF got = Resolve(tsnd, e.kind, CodeDefects) THEN TRUE ELSE Say("DRIFT", "resolve", e.kind, Resolve(tsnd, e.kind, CodeDefects), got)
  /\ IF ~e.enc \/ e.rcvPanic \/ (e.kind \in {"mEvt1", "mEvt2"} /\ ~e.dec) \/ e.kind = "mInt" THEN TRUE   \* colliding names: decode may also fail; primitives: value dependent
     ELSE IF e.rcv = Decode(trcv, Frame(got, e.kind), g, CodeDefects) THEN TRUE
     ELSE Say("DRIFT", "decode", e.kind, Decode(trcv, Frame(got, e.kind), g, CodeDefects), e.rcv)

Step ==
  /\ l <= Len(Trace)
  /\ l' = l + 1
  /\ LET e == Trace[l] IN
     CASE e.op = "New"   -> tapi' = e.api /\ tregs' = <<>> /\ tsnd' = <<>> /\ trcv' = <<>> /\ tc' = <<>>
       [] e.op = "Reg"   -> /\ tregs' = Append(tregs, [k |-> e.k, s |-> e.s])
                            /\ (IF e.panic THEN Say("MISMATCH", "register-panic", e.k, e.s, "") ELSE TRUE)
                            /\ UNCHANGED <<tapi, tsnd, trcv, tc>>
       [] e.op = "Build" -> IF e.panic
                            THEN Say("MISMATCH", "build-panic", e.what, "", "") /\ UNCHANGED <<tapi, tregs, tsnd, trcv, tc>>
                            ELSE /\ tsnd' = Ent(e.snd) /\ trcv' = Ent(e.rcv)
                                 /\ tc' = [g |-> GregAfter(tregs),
                                           ideal |-> [kind \in Kinds |-> ClosedOutcomes(tapi, tregs, kind, {})],
                                           cfg |-> [kind \in Kinds |-> CfgIdeal(kind)]]
                                 /\ ConfBuild(e)
                                 /\ UNCHANGED <<tapi, tregs>>
       [] e.op = "Send"  -> JudgeSend(e) /\ ConfSend(e) /\ UNCHANGED <<tapi, tregs, tsnd, trcv, tc>>
       [] OTHER          -> UNCHANGED <<tapi, tregs, tsnd, trcv, tc>>
TSpec == TInit /\ [][Step]_tvars
====
