---- MODULE DispatchOps ----
(* Pure operators of the C25 dispatch model (no variables): keys, kinds, the registry built from a   *)
(* registration history, the sender lookup, the codecs and the receive-side dispatcher.  Shared by   *)
(* Dispatch.tla (state machine + properties) and Trace_Dispatch.tla (monitor of real executions).    *)
EXTENDS Integers, Sequences, FiniteSets, TLC

AllDefects == {"MapOrderDispatch", "FirstMatchShadowsConcrete", "ProtoOverrideDropped", "NilKeyPanics",
               "TypeNameCollision", "EnvelopeCodecAmbiguity"}
(* the defects that change the sender-side choice (the other two act on the receive side only) *)
SenderDefects == AllDefects \ {"TypeNameCollision", "EnvelopeCodecAmbiguity"}

(* ---- registration keys ---------------------------------------------------------------------- *)
(* PM = interface proto.Message, CP = a concrete proto message type, CT = a concrete struct     *)
(* type, IA / IB = user interfaces, CE1 / CE2 = two concrete struct types whose lower-cased     *)
(* type names are equal, CI = the built-in type int (primitives are pre-registered in the     *)
(* types registry), NIL = a nil message passed as the key.                                      *)
UserKeys  == {"PM", "CP", "CT", "IA", "IB", "CE1", "CE2", "CI", "NIL"}
IfaceKeys == {"PM", "IA", "IB"}
Concrete(k) == k \notin IfaceKeys /\ k # "NIL"
UserSers  == {"Proto", "CBOR", "JSON", "U1", "U2"}
UsesRegistry(s) == s \in {"CBOR", "JSON"}

(* built-in entries of actorSystem.setupRemoting, in order (after the default PM entry of NewClient) *)
Internal == << [k |-> "KPoison", s |-> "Poison"], [k |-> "KTerm", s |-> "Term"], [k |-> "KAReq", s |-> "AReq"],
               [k |-> "KAResp", s |-> "AResp"], [k |-> "KDeliv", s |-> "Deliv"], [k |-> "KDeliv", s |-> "Deliv"],
               [k |-> "KDeliv", s |-> "Deliv"], [k |-> "KDeliv", s |-> "Deliv"], [k |-> "KDeliv", s |-> "Deliv"] >>
DefaultPM == [k |-> "PM", s |-> "Proto"]

(* ---- message kinds and the static "dynamic type matches key" relation ------------------------ *)
Kinds == {"mProto", "mCP", "mT", "mA", "mAB", "mNone", "mEvt1", "mEvt2", "mInt", "mPoison", "mTerm", "mDeliv", "mNil"}
Matches(kind) ==
  CASE kind = "mProto"  -> {"PM"}
    [] kind = "mCP"     -> {"CP", "PM"}
    [] kind = "mT"      -> {"CT", "IA", "IB"}
    [] kind = "mA"      -> {"IA"}
    [] kind = "mAB"     -> {"IA", "IB"}
    [] kind = "mEvt1"   -> {"CE1"}
    [] kind = "mEvt2"   -> {"CE2"}
    [] kind = "mInt"    -> {"CI"}
    [] kind = "mPoison" -> {"KPoison"}
    [] kind = "mTerm"   -> {"KTerm"}
    [] kind = "mDeliv"  -> {"KDeliv"}
    [] OTHER            -> {}
ProtoKinds == {"mProto", "mCP"}

(* ---- helpers on registration histories -------------------------------------------------------- *)
Range(f) == {f[i] : i \in DOMAIN f}
RegdKeys(rs) == {rs[i].k : i \in DOMAIN rs}
FirstPos(rs, k) == CHOOSE i \in DOMAIN rs : rs[i].k = k /\ \A j \in DOMAIN rs : rs[j].k = k => i <= j
LastPos(rs, k)  == CHOOSE i \in DOMAIN rs : rs[i].k = k /\ \A j \in DOMAIN rs : rs[j].k = k => j <= i
(* Config.serializers after the options ran: map assignment, the last registration of a key wins *)
CMap(rs, k) == rs[LastPos(rs, k)].s
(* sequences enumerating a finite set in every order *)
Perms(S) == {f \in [1 .. Cardinality(S) -> S] : \A i, j \in DOMAIN f : i # j => f[i] # f[j]}
(* the keys of a history in order of first registration *)
KeyOrder(rs) == LET firsts == SelectSeq([i \in DOMAIN rs |-> [i |-> i, k |-> rs[i].k]],
                                        LAMBDA e : FirstPos(rs, e.k) = e.i)
                IN [i \in DOMAIN firsts |-> firsts[i].k]

(* ---- the global types registry (internal/types.GlobalRegistry): name -> type -------------------- *)
(* gT : MsgT registered;  gE : which of the colliding types owns the name "evt" ("none"/"CE1"/"CE2") *)
GregAfter(rs) ==
  LET regE == SelectSeq(rs, LAMBDA r : r.k \in {"CE1", "CE2"} /\ UsesRegistry(r.s))
  IN [gT |-> \E i \in DOMAIN rs : rs[i].k = "CT" /\ UsesRegistry(rs[i].s),
      gE |-> IF regE = <<>> THEN "none" ELSE regE[Len(regE)].k]
(* repaired design: names are unique per type, so each type owns its own name *)
NameOwner(g, kind, D) ==
  IF kind \in {"mEvt1", "mEvt2"} THEN
     IF "TypeNameCollision" \in D THEN g.gE
     ELSE IF g.gE = "none" THEN "none" ELSE IF kind = "mEvt1" THEN "CE1" ELSE "CE2"
  ELSE "none"

(* ---- Build: the frozen entries slice of a client ------------------------------------------------ *)
(* a nil key is "silently ignored" in the repaired design (as a nil serializer is)                 *)
Usable(rs, D) == IF "NilKeyPanics" \in D THEN rs ELSE SelectSeq(rs, LAMBDA r : r.k # "NIL")
(* api = "client": NewClient(WithClientSerializers...) : default entry, then appended in order     *)
ClientEntries(rs, D) == <<DefaultPM>> \o Usable(rs, D)
(* api = "config": setupRemoting : default, built-ins, then ClientSerializerOptions(cfg)           *)
ConfigEntriesSet(rs0, D) ==
  LET rs   == Usable(rs0, D)
      keys == RegdKeys(rs) \ {"PM"}
      pm   == IF "PM" \in RegdKeys(rs) /\ "ProtoOverrideDropped" \notin D THEN [k |-> "PM", s |-> CMap(rs, "PM")] ELSE DefaultPM
      ord  == SelectSeq(KeyOrder(rs), LAMBDA k : k # "PM")
      tail(p) == [i \in DOMAIN p |-> [k |-> p[i], s |-> CMap(rs, p[i])]]
  IN IF "MapOrderDispatch" \in D
     THEN {<<pm>> \o Internal \o tail(p) : p \in Perms(keys)}     \* range over a Go map: any order
     ELSE {<<pm>> \o Internal \o tail(ord)}                        \* registration order
EntriesSet(api, rs, D) == IF api = "client" THEN {ClientEntries(rs, D)} ELSE ConfigEntriesSet(rs, D)

(* ---- sender side: client.resolveSerializer ------------------------------------------------------- *)
Hits(es, kind)  == {i \in DOMAIN es : es[i].k \in Matches(kind)}
Min(S) == CHOOSE x \in S : \A y \in S : x <= y
(* the code: first entry in slice order that matches; an entry with a nil type panics when reached *)
ResolveFirst(es, kind) ==
  LET stop == Hits(es, kind) \cup {i \in DOMAIN es : es[i].k = "NIL"}
  IN IF stop = {} THEN "none" ELSE IF es[Min(stop)].k = "NIL" THEN "panic" ELSE es[Min(stop)].s
(* the documented rule: 1. exact concrete type  2. first registered interface the message implements *)
ResolveDoc(es, kind) ==
  LET conc == {i \in Hits(es, kind) : Concrete(es[i].k)}
  IN IF conc # {} THEN es[Min(conc)].s ELSE IF Hits(es, kind) # {} THEN es[Min(Hits(es, kind))].s ELSE "none"
Resolve(es, kind, D) ==
  IF kind = "mNil" THEN "dispatch"
  ELSE IF "FirstMatchShadowsConcrete" \in D \/ \E i \in DOMAIN es : es[i].k = "NIL" THEN ResolveFirst(es, kind)
  ELSE ResolveDoc(es, kind)

(* ---- codecs: who can encode what, and the wire format -------------------------------------------- *)
CanEncode(s, kind, g) ==
  CASE s = "Proto"            -> kind \in ProtoKinds
    [] s \in {"CBOR", "JSON"} -> (kind = "mT" /\ g.gT) \/ (kind \in {"mEvt1", "mEvt2"} /\ g.gE # "none") \/ kind = "mInt"
    [] s \in {"U1", "U2"}     -> kind \in {"mT", "mA", "mAB", "mNone", "mProto", "mCP"}
    [] s = "Poison"           -> kind = "mPoison"
    [] s = "Term"             -> kind = "mTerm"
    [] s = "Deliv"            -> kind = "mDeliv"
    [] OTHER                  -> FALSE      \* none, panic, dispatch(nil), AReq, AResp
(* the envelope: the format is the serializer's own (formats are pairwise disjoint: ASSUMED for      *)
(* CBOR vs JSON payloads, which share the frame layout and the types registry; sampled on real code) *)
Frame(s, kind) == [fmt |-> s, kind |-> kind]

(* ---- receiver side: serializerDispatch.Deserialize ------------------------------------------------ *)
(* CBOR and JSON share the frame layout and the types registry; only the payload syntax tells them  *)
(* apart.  For struct payloads the syntaxes are disjoint; for a primitive they are not (the JSON text *)
(* "5" is the CBOR integer -22, the CBOR byte for -20 is the JSON text "3"): the other codec MAY      *)
(* accept such a frame (EnvelopeCodecAmbiguity; in the repaired design the envelope names the codec). *)
Accepts(s, f, g, D) ==
  /\ \/ s = f.fmt
     \/ "EnvelopeCodecAmbiguity" \in D /\ f.kind = "mInt" /\ {s, f.fmt} = {"CBOR", "JSON"}
  /\ (s \in {"CBOR", "JSON"} /\ f.kind \in {"mEvt1", "mEvt2"}) => NameOwner(g, f.kind, D) # "none"
Decode(es, f, g, D) ==
  LET acc == {i \in DOMAIN es : Accepts(es[i].s, f, g, D)}
  IN IF f.fmt = "Proto" /\ \E i \in DOMAIN es : es[i].s = "Proto" THEN "Proto"    \* type-name fast path
     ELSE IF acc = {} THEN "none" ELSE es[Min(acc)].s
(* the dynamic type the receiver hands to the actor *)
DecodedKind(s, f, g, D) ==
  IF s \in {"CBOR", "JSON"} /\ f.kind \in {"mEvt1", "mEvt2"}
  THEN (IF NameOwner(g, f.kind, D) = "CE1" THEN "mEvt1" ELSE "mEvt2")
  ELSE f.kind

(* ---- closed forms used by the trace monitor (checked against the permutation semantics) ----------- *)
(* the set of serializers the sender may choose under defect set D                                     *)
SndOutcomes(a, rs, kind, D) == {Resolve(e, kind, D) : e \in EntriesSet(a, rs, D)}
ClosedOutcomes(a, rs0, kind, D) ==
  IF a = "client" \/ "MapOrderDispatch" \notin D \/ kind = "mNil" THEN SndOutcomes(a, rs0, kind, D)
  ELSE LET rs   == Usable(rs0, D)
           pmS  == IF "PM" \in RegdKeys(rs) /\ "ProtoOverrideDropped" \notin D THEN CMap(rs, "PM") ELSE "Proto"
           ks   == (RegdKeys(rs) \ {"PM"}) \cap Matches(kind)
           nil  == "NIL" \in RegdKeys(rs)
           first == "FirstMatchShadowsConcrete" \in D \/ nil
           conc == {k \in ks : Concrete(k)}
       IN IF first /\ "PM" \in Matches(kind) THEN {pmS}                  \* the default entry is always first
          ELSE IF Matches(kind) \cap {"KPoison", "KTerm", "KDeliv"} # {} THEN SndOutcomes(a, <<>>, kind, D)
          ELSE IF first THEN {CMap(rs, k) : k \in ks} \cup (IF nil THEN {"panic"} ELSE {})
                                                   \cup (IF ks = {} /\ ~nil THEN {"none"} ELSE {})
          ELSE IF conc # {} THEN {CMap(rs, k) : k \in conc}
          ELSE IF "PM" \in Matches(kind) THEN {pmS}
          ELSE IF ks # {} THEN {CMap(rs, k) : k \in ks} ELSE {"none"}
====
