SPECIFICATION TSpec
CONSTANTS
  CodeDefects = {"MapOrderDispatch", "ProtoOverrideDropped", "TypeNameCollision"}
CHECK_DEADLOCK FALSE
