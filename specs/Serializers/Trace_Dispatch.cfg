SPECIFICATION TSpec
CONSTANTS
  CodeDefects = {"MapOrderDispatch", "ProtoOverrideDropped", "TypeNameCollision", "EnvelopeCodecAmbiguity"}
CHECK_DEADLOCK FALSE
