SPECIFICATION TSpec
CHECK_DEADLOCK FALSE
