SPECIFICATION GSpec
CONSTANTS
  Defects = {}
  RegKeys = {"PM", "CP", "CT", "IA", "IB", "CE1", "CE2", "CI", "NIL"}
  RegSers = {"Proto", "CBOR", "JSON", "U1", "U2"}
  MaxRegs = 5
  Depth = 5
CONSTRAINT Emit
