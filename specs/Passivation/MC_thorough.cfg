SPECIFICATION Spec
CONSTANTS
  Scenarios <- Thorough
  MaxTurns = 5
  Defects = {}
INVARIANTS PostStopOnce NeverLongLived PassivatedStops HeapConsistent
PROPERTIES IdleAtDecision FlagsAtDecision CountAtDecision
CHECK_DEADLOCK FALSE
