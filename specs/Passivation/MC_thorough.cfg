SPECIFICATION Spec
CONSTANTS
  Scenarios <- Thorough
  MaxTurns = 5
  Defects = {}
INVARIANTS PostStopOnce NeverLongLived PassivatedStops
PROPERTIES IdleAtDecision FlagsAtDecision CountAtDecision
CHECK_DEADLOCK FALSE
