SPECIFICATION Spec
CONSTANTS
  Scenarios <- Thorough
  MaxTurns = 5
  Defects = {"StaleTurnClock", "StaleCountTrigger"}
CHECK_DEADLOCK FALSE
