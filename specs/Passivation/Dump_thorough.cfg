SPECIFICATION Spec
CONSTANTS
  Scenarios <- Medium
  MaxTurns = 5
  Defects = {"StaleTurnClock", "StaleCountTrigger"}
CHECK_DEADLOCK FALSE
