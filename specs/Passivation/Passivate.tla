------------------------------ MODULE Passivate ------------------------------
(* Passivation of ONE goakt actor: actor/passivation_manager.go (deadline heap, run loop,  *)
(* trigger: pop under mu, UNLOCK, passivate, re-lock; Touch; Register / Unregister /       *)
(* Pause / Resume; message-count entries with baseline / pending / enqueued and the        *)
(* trigger channel) and actor/pid.go (markActivity with Touch coalescing, recordProcessed- *)
(* Message, tryPassivation guard sequence + stopLocker, pause/resumePassivation, suspend,  *)
(* doReinstate with the skip-next flag, Shutdown) over a discrete clock.                   *)
(*                                                                                         *)
(* Every action is the piece of real code between two verifhook gates of one goroutine:    *)
(*   producer p / controller c   Tell(msg) is one step (enqueue + TrySchedule + push)      *)
(*   worker token k   Take (ds.take.cas), Ctl (pv.ctl: Pause/ResumePassivation message),   *)
(*                    Enter / Exit (the test actor's handler gates h.enter / h.exit)       *)
(*   manager m        MFire (timer -> pm.trigger), MTrigger (-> pm.pop), MGuards (->       *)
(*                    pv.lock), MLock (-> pv.locked), MDecide (-> ps.enter), MPsEnter,     *)
(*                    MPsExit (-> pm.relock), MRelock (-> pm.trigger.end or pm.pop again); *)
(*                    count strategy: MRecv (-> pm.msg), MMsgCheck (-> pm.msg.go),         *)
(*                    MMsgRelock                                                           *)
(*   stopper x        XCall, XLock (stop.lock), XPsEnter, XPsExit   (external Shutdown)    *)
(*   supervision u    UCheck (sup.work), USuspend (pv.suspend)                             *)
(*   reinstater r     RReinstate  (parent.Reinstate(child) -> doReinstate, one step)       *)
(*   clock            Tick                                                                 *)
(* A worker's step runs on to its next gate, so the stamp of a message (markActivity +     *)
(* recordProcessedMessage) belongs to the step that ENDS at h.enter.                       *)
EXTENDS Integers, Sequences, FiniteSets, TLC

CONSTANTS Scenarios,  \* set of scenario records, one is chosen initially (variable sc, never changes):
                      \*   T        time-based timeout in ticks        maxnow   clock bound
                      \*   strategy "time" | "count" | "long"          n        MessagesCountBasedStrategy threshold
                      \*   msgs     Seq of message kinds the producer tells: "m" | "boom" (handler reports an error -> suspend)
                      \*   ctls     Seq of control messages the controller tells: "pause" | "resume"
                      \*   stops    external Shutdown calls (0 / 1)    reinstates  parent.Reinstate calls (0 / 1)
          MaxTurns,   \* worker tokens
          Defects     \* "NoRecheck":      tryPassivation re-checks nothing but skip-next after taking stopLocker
                      \* "StaleTurnClock": activity is stamped with the turn's start time, not the handling time
                      \* "StaleCountTrigger": a count trigger queued before a re-registration still passivates
                      \* "DoublePush":     trigger() pushes the refused entry again although a Resume / Register has already
                      \*                   put it back while the mutex was released (two copies in the heap, one shared index)
                      \* "HotRearm":       trigger() re-queues a refused entry with a deadline that may be due at once (and
                      \*                   pops it again immediately; the manager spins while the refusal lasts)

VARIABLES sc, now,
          st,         \* the actor's + its manager entry's state (record, see InitSt)
          usr, sys,   \* user mailbox (Seq of [id, kind]), system mailbox (Seq of "pause"/"resume")
          sched,      \* "Idle" | "Sched" | "Proc"
          tpc, tmsg, tnow, nturn,     \* worker tokens: pc, message in hand, turn clock, tokens spawned
          mpc, mvia, mgen, mres,      \* manager: pc, "time"/"count" path, generation of the entry in hand, passivate() result
          lock,       \* holder of pid.stopLocker: "" | "m" | "x"
          ppc, cpc, xpc, upc, rpc,    \* producer index, controller index, stopper pc, supervision pc, reinstater pc
          psRuns, inH, inPS

vars == <<sc, now, st, usr, sys, sched, tpc, tmsg, tnow, nturn, mpc, mvia, mgen, mres, lock, ppc, cpc, xpc, upc, rpc, psRuns, inH, inPS>>

Turns == 1..MaxTurns
NoRecheck == "NoRecheck" \in Defects
StaleClock == "StaleTurnClock" \in Defects
StaleTrigger == "StaleCountTrigger" \in Defects
HotRearm == "HotRearm" \in Defects
DoublePush == "DoublePush" \in Defects
TimeS == sc.strategy = "time"
CountS == sc.strategy = "count"
NoMsg == [id |-> 0, kind |-> "none"]

\* state after Spawn + PostStart handled at tick 0: registered; PostStart counted (processed = 1, baseline = 0 + 1)
InitSt(c) == [running |-> TRUE, stopping |-> FALSE, suspended |-> FALSE, pflag |-> FALSE, skip |-> FALSE, passivating |-> FALSE,
           hasB |-> TRUE, lastAct |-> 0, lastTouch |-> 0, processed |-> 1,
           reg |-> c.strategy # "long", gen |-> 1, inHeap |-> c.strategy = "time", copies |-> (IF c.strategy = "time" THEN 1 ELSE 0), deadline |-> c.T, epaused |-> FALSE,
           pending |-> FALSE, enqueued |-> FALSE, base |-> 1, trig |-> <<>>,
           lastHandled |-> 0, hsr |-> 0, ok |-> FALSE]

Init == /\ sc \in Scenarios /\ now = 0 /\ st = InitSt(sc) /\ usr = <<>> /\ sys = <<>> /\ sched = "Idle"
        /\ tpc = [k \in Turns |-> "none"] /\ tmsg = [k \in Turns |-> NoMsg] /\ tnow = [k \in Turns |-> 0] /\ nturn = 0
        /\ mpc = "idle" /\ mvia = "time" /\ mgen = 0 /\ mres = FALSE /\ lock = ""
        /\ ppc = 1 /\ cpc = 1 /\ xpc = (IF sc.stops > 0 THEN "idle" ELSE "done") /\ upc = "none"
        /\ rpc = (IF sc.reinstates > 0 THEN "idle" ELSE "done")
        /\ psRuns = 0 /\ inH = {} /\ inPS = ""

\* ---------------------------------------------------------------- effects on st (sequential pieces of real code)
\* passivationEntry.refreshDeadline
Refresh(s) == IF s.lastAct < 0 THEN now + sc.T ELSE s.lastAct + sc.T

\* pid.startPassivation -> passivationManager.Register
RegisterEff(s) ==
  IF sc.strategy = "long" THEN s
  ELSE LET g == IF s.reg THEN s.gen ELSE s.gen + 1 IN
       LET c0 == IF s.reg /\ s.inHeap THEN s.copies - 1 ELSE s.copies IN     \* an existing entry is first taken off the heap
       IF TimeS
       THEN [s EXCEPT !.reg = TRUE, !.gen = g, !.epaused = FALSE, !.pending = FALSE, !.enqueued = FALSE,
                      !.inHeap = TRUE, !.copies = c0 + 1, !.deadline = Refresh(s)]
       ELSE [s EXCEPT !.reg = TRUE, !.gen = g, !.epaused = FALSE, !.pending = FALSE, !.enqueued = FALSE,
                      !.inHeap = FALSE, !.copies = c0, !.base = s.processed + 1, !.hsr = 0]

\* heap.Remove only when the entry knows its position (index >= 0); a copy it does not know about stays behind
UnregisterEff(s) == [s EXCEPT !.reg = FALSE, !.inHeap = FALSE, !.copies = IF s.inHeap THEN @ - 1 ELSE @]

\* pid.pausePassivation: manager.Pause then the pid flag
PauseEff(s) == LET s1 == IF s.reg /\ ~s.epaused THEN [s EXCEPT !.epaused = TRUE, !.inHeap = FALSE,
                                                                  !.copies = IF s.inHeap THEN @ - 1 ELSE @] ELSE s
               IN [s1 EXCEPT !.pflag = TRUE]

\* passivationManager.Resume (result in .ok)
ResumeMgr(s) ==
  IF ~s.reg THEN [s EXCEPT !.ok = FALSE]
  ELSE IF ~s.epaused THEN [s EXCEPT !.ok = TRUE]
  ELSE IF TimeS THEN [s EXCEPT !.ok = TRUE, !.epaused = FALSE, !.deadline = Refresh(s), !.inHeap = TRUE, !.copies = @ + 1]
  ELSE IF s.pending /\ ~s.enqueued
       THEN [s EXCEPT !.ok = TRUE, !.epaused = FALSE, !.enqueued = TRUE, !.trig = Append(@, s.gen)]
       ELSE [s EXCEPT !.ok = TRUE, !.epaused = FALSE]

\* pid.resumePassivation
ResumeEff(s) ==
  IF s.pflag THEN LET s1 == ResumeMgr([s EXCEPT !.pflag = FALSE]) IN IF s1.ok THEN s1 ELSE RegisterEff(s1)
  ELSE RegisterEff(s)

\* passivationManager.Touch
TouchEff(s) == IF s.reg /\ ~s.epaused /\ TimeS /\ s.inHeap THEN [s EXCEPT !.deadline = Refresh(s)] ELSE s

\* pid.markActivity(at): Touch coalesced to one per 100 ms = 1 tick
MarkEff(s, at) == LET s1 == [s EXCEPT !.lastAct = at] IN
                  IF at - s.lastTouch >= 1 THEN TouchEff([s1 EXCEPT !.lastTouch = at]) ELSE s1

\* pid.recordProcessedMessage -> passivationManager.MessageProcessed
CountEff(s) ==
  LET s1 == [s EXCEPT !.processed = @ + 1, !.hsr = @ + 1] IN
  IF CountS /\ s1.reg /\ s1.processed >= s1.base + sc.n
  THEN LET s2 == [s1 EXCEPT !.pending = TRUE] IN
       IF ~s2.epaused /\ ~s2.enqueued THEN [s2 EXCEPT !.enqueued = TRUE, !.trig = Append(@, s2.gen)] ELSE s2
  ELSE s1

\* handleReceived up to the behaviour call: the message counts as handled from here on
HandleEff(s, at) == [CountEff(MarkEff(s, at)) EXCEPT !.lastHandled = now]

\* pid.suspend
SuspendEff(s) == PauseEff([s EXCEPT !.suspended = TRUE])

\* pid.doReinstate
ReinstateEff(s) == ResumeEff(MarkEff([s EXCEPT !.suspended = FALSE, !.skip = TRUE], now))

\* doStop's deferred part: running := false, pid.reset()
StopEff(s) == [s EXCEPT !.running = FALSE, !.stopping = FALSE, !.suspended = FALSE, !.pflag = FALSE, !.skip = FALSE,
                        !.passivating = FALSE, !.hasB = FALSE, !.lastAct = -1, !.processed = 0]

CanReceive(s) == s.running /\ ~s.stopping /\ ~s.passivating /\ ~s.suspended     \* PID.IsRunning

\* ---------------------------------------------------------------- worker tokens
Spawn(tp) == /\ nturn < MaxTurns /\ nturn' = nturn + 1 /\ tpc' = [tp EXCEPT ![nturn + 1] = "take"]

\* the turn loop from its top to the next gate: system messages first, then one user message
Adv(s, sq, uq, at) ==
  IF sq # <<>> THEN [st |-> s, sys |-> Tail(sq), usr |-> uq, pc |-> "ctl", msg |-> [id |-> 0, kind |-> Head(sq)], sched |-> "Proc"]
  ELSE IF uq # <<>> THEN
         IF s.hasB THEN [st |-> HandleEff(s, at), sys |-> sq, usr |-> Tail(uq), pc |-> "enter", msg |-> Head(uq), sched |-> "Proc"]
         ELSE [st |-> s, sys |-> sq, usr |-> <<>>, pc |-> "end", msg |-> NoMsg, sched |-> "Idle"]   \* no behaviour left: swallowed
  ELSE [st |-> s, sys |-> sq, usr |-> uq, pc |-> "end", msg |-> NoMsg, sched |-> "Idle"]

Stamp(k, t) == IF StaleClock THEN t ELSE now
Commit(k, r) == /\ st' = r.st /\ sys' = r.sys /\ usr' = r.usr /\ sched' = r.sched
                /\ tpc' = [tpc EXCEPT ![k] = r.pc] /\ tmsg' = [tmsg EXCEPT ![k] = r.msg]

Take(k) == /\ tpc[k] = "take"
           /\ IF sched = "Sched"
              THEN /\ tnow' = [tnow EXCEPT ![k] = now] /\ Commit(k, Adv(st, sys, usr, now))
              ELSE /\ tpc' = [tpc EXCEPT ![k] = "end"] /\ UNCHANGED <<st, sys, usr, sched, tmsg, tnow>>
           /\ UNCHANGED <<sc, now, nturn, mpc, mvia, mgen, mres, lock, ppc, cpc, xpc, upc, rpc, psRuns, inH, inPS>>

Ctl(k) == /\ tpc[k] = "ctl"
          /\ LET s1 == IF tmsg[k].kind = "pause" THEN PauseEff(st) ELSE ResumeEff(st)
             IN Commit(k, Adv(s1, sys, usr, Stamp(k, tnow[k])))
          /\ UNCHANGED <<sc, now, tnow, nturn, mpc, mvia, mgen, mres, lock, ppc, cpc, xpc, upc, rpc, psRuns, inH, inPS>>

Enter(k) == /\ tpc[k] = "enter"
            /\ tpc' = [tpc EXCEPT ![k] = "exit"] /\ inH' = inH \cup {k}
            /\ UNCHANGED <<sc, now, st, usr, sys, sched, tmsg, tnow, nturn, mpc, mvia, mgen, mres, lock, ppc, cpc, xpc, upc, rpc, psRuns, inPS>>

\* handler returns; "boom": ctx.Err(..) -> recovery -> the failure is queued for the supervision consumer
Exit(k) == /\ tpc[k] = "exit"
           /\ inH' = inH \ {k}
           /\ upc' = (IF tmsg[k].kind = "boom" /\ upc = "none" THEN "work" ELSE upc)
           /\ Commit(k, Adv(st, sys, usr, Stamp(k, tnow[k])))
           /\ UNCHANGED <<sc, now, tnow, nturn, mpc, mvia, mgen, mres, lock, ppc, cpc, xpc, rpc, psRuns, inPS>>

\* ---------------------------------------------------------------- producer / controller: actor.Tell
Tell(q, m, isCtl) ==
  IF CanReceive(st)
  THEN /\ IF isCtl THEN sys' = Append(sys, m.kind) /\ UNCHANGED usr ELSE usr' = Append(usr, m) /\ UNCHANGED sys
       /\ IF sched = "Idle" THEN sched' = "Sched" /\ Spawn(tpc) ELSE UNCHANGED <<sched, tpc, nturn>>
  ELSE UNCHANGED <<usr, sys, sched, tpc, nturn>>

PTell == /\ ppc <= Len(sc.msgs) /\ ppc' = ppc + 1
         /\ Tell("p", [id |-> ppc, kind |-> sc.msgs[ppc]], FALSE)
         /\ UNCHANGED <<sc, now, st, tmsg, tnow, mpc, mvia, mgen, mres, lock, cpc, xpc, upc, rpc, psRuns, inH, inPS>>

CTell == /\ cpc <= Len(sc.ctls) /\ cpc' = cpc + 1
         /\ Tell("c", [id |-> 0, kind |-> sc.ctls[cpc]], TRUE)
         /\ UNCHANGED <<sc, now, st, tmsg, tnow, mpc, mvia, mgen, mres, lock, ppc, xpc, upc, rpc, psRuns, inH, inPS>>

\* ---------------------------------------------------------------- the passivation manager goroutine
MU == <<sc, now, usr, sys, sched, tpc, tmsg, tnow, nturn, ppc, cpc, xpc, upc, rpc, inH>>     \* untouched by manager steps

\* run(): nextEntry found the entry due (or the timer fired) -> trigger(entry)
MFire == /\ mpc = "idle" /\ TimeS /\ st.reg /\ st.copies > 0 /\ ~st.epaused /\ now >= st.deadline
         /\ mpc' = "trig" /\ mgen' = st.gen
         /\ UNCHANGED <<MU, st, mvia, mres, lock, psRuns, inPS>>

\* trigger(): under mu: still the head, still due -> Pop, unlock
MTrigger == /\ mpc = "trig"
            /\ IF st.reg /\ st.gen = mgen /\ st.copies > 0 /\ st.deadline <= now
               THEN st' = [st EXCEPT !.inHeap = FALSE, !.copies = @ - 1] /\ mpc' = "popped" /\ mvia' = "time"
               ELSE mpc' = "idle" /\ UNCHANGED <<st, mvia>>
            /\ UNCHANGED <<MU, mgen, mres, lock, psRuns, inPS>>

Back == IF mvia = "time" THEN "relock" ELSE "msgrelock"

\* passivate -> tryPassivation up to the stopLocker
MGuards == /\ mpc \in {"popped", "msggo"}
           /\ IF st.skip THEN st' = [st EXCEPT !.skip = FALSE] /\ mpc' = Back /\ mres' = FALSE
              ELSE IF st.stopping \/ st.suspended \/ st.pflag THEN mpc' = Back /\ mres' = FALSE /\ UNCHANGED st
              ELSE st' = [st EXCEPT !.passivating = TRUE] /\ mpc' = "prelock" /\ UNCHANGED mres
           /\ UNCHANGED <<MU, mvia, mgen, lock, psRuns, inPS>>

IdleOK(s) == s.lastAct >= 0 /\ now - s.lastAct >= sc.T       \* a zero stamp = just (re)started = active now
StillFine(s) == /\ s.running /\ ~s.stopping /\ ~s.suspended /\ ~s.pflag /\ (TimeS => IdleOK(s))
                /\ (CountS /\ ~StaleTrigger => s.reg /\ s.processed >= s.base + sc.n)

\* stopLocker.Lock(); skip-next again; (repaired design: every guard and the idle time again) -> the decision
MLock == /\ mpc = "prelock" /\ lock = ""
         /\ IF st.skip \/ (~NoRecheck /\ ~StillFine(st))
            THEN /\ st' = (IF ~st.skip /\ ~st.running THEN UnregisterEff([st EXCEPT !.passivating = FALSE])     \* stopped meanwhile: forget it
                                                     ELSE [st EXCEPT !.skip = FALSE, !.passivating = FALSE])
                 /\ mpc' = Back /\ mres' = FALSE /\ UNCHANGED lock
            ELSE lock' = "m" /\ mpc' = "locked" /\ UNCHANGED <<st, mres>>
         /\ UNCHANGED <<MU, mvia, mgen, psRuns, inPS>>

\* unregisterPassivation; doStop ... up to the PostStop call
MDecide == /\ mpc = "locked" /\ mpc' = "psenter" /\ st' = UnregisterEff(st)
           /\ UNCHANGED <<MU, mvia, mgen, mres, lock, psRuns, inPS>>
MPsEnter == /\ mpc = "psenter" /\ mpc' = "psexit" /\ psRuns' = psRuns + 1 /\ inPS' = "m"
            /\ UNCHANGED <<MU, st, mvia, mgen, mres, lock>>
MPsExit == /\ mpc = "psexit" /\ mpc' = Back /\ mres' = TRUE /\ inPS' = "" /\ lock' = "" /\ st' = StopEff(st)
           /\ UNCHANGED <<MU, mvia, mgen, psRuns>>

\* trigger(): re-lock mu; entry gone / passivated / paused -> return; else refresh + push and loop
MRelock == /\ mpc = "relock"
           /\ IF ~st.reg \/ st.gen # mgen THEN mpc' = "idle" /\ UNCHANGED st
              ELSE IF mres THEN mpc' = "idle" /\ st' = UnregisterEff(st)
              ELSE IF st.epaused THEN mpc' = "idle" /\ UNCHANGED st
              ELSE LET d == Refresh(st)
                       \* already back in the heap (Pause + Resume, Register while the mutex was released): Fix, do not Push
                       n == IF st.inHeap /\ ~DoublePush THEN st.copies ELSE st.copies + 1 IN
                   IF d <= now /\ HotRearm THEN st' = [st EXCEPT !.deadline = d, !.inHeap = FALSE, !.copies = n - 1] /\ mpc' = "popped"
                   ELSE st' = [st EXCEPT !.deadline = (IF d <= now THEN now + sc.T ELSE d), !.inHeap = TRUE, !.copies = n] /\ mpc' = "idle"
           /\ UNCHANGED <<MU, mvia, mgen, mres, lock, psRuns, inPS>>

\* message-count path: run() receives an entry from messageTriggers -> processMessageEntry
MRecv == /\ mpc = "idle" /\ st.trig # <<>>
         /\ mgen' = Head(st.trig) /\ st' = [st EXCEPT !.trig = Tail(@)] /\ mpc' = "msgentry"
         /\ UNCHANGED <<MU, mvia, mres, lock, psRuns, inPS>>
MMsgCheck == /\ mpc = "msgentry"
             /\ IF ~st.reg \/ st.gen # mgen THEN mpc' = "idle" /\ UNCHANGED <<st, mvia>>
                ELSE IF st.epaused THEN mpc' = "idle" /\ st' = [st EXCEPT !.enqueued = FALSE] /\ UNCHANGED mvia
                ELSE IF ~StaleTrigger /\ ~st.pending THEN mpc' = "idle" /\ st' = [st EXCEPT !.enqueued = FALSE] /\ UNCHANGED mvia
                ELSE mpc' = "msggo" /\ mvia' = "count" /\ UNCHANGED st
             /\ UNCHANGED <<MU, mgen, mres, lock, psRuns, inPS>>
MMsgRelock == /\ mpc = "msgrelock" /\ mpc' = "idle"
              /\ IF ~st.reg \/ st.gen # mgen THEN UNCHANGED st
                 ELSE IF mres THEN st' = [UnregisterEff(st) EXCEPT !.pending = FALSE, !.enqueued = FALSE]
                 ELSE IF st.epaused THEN st' = [st EXCEPT !.enqueued = FALSE]
                 ELSE IF st.pending THEN st' = [st EXCEPT !.enqueued = TRUE, !.trig = Append(@, st.gen)]
                 ELSE st' = [st EXCEPT !.enqueued = FALSE]
              /\ UNCHANGED <<MU, mvia, mgen, mres, lock, psRuns, inPS>>

\* ---------------------------------------------------------------- external Shutdown
XU == <<sc, now, usr, sys, sched, tpc, tmsg, tnow, nturn, mpc, mvia, mgen, mres, ppc, cpc, upc, rpc, inH>>
XCall == /\ xpc = "idle" /\ xpc' = "lock" /\ UNCHANGED <<XU, st, lock, psRuns, inPS>>
XLock == /\ xpc = "lock" /\ lock = ""
         /\ IF st.running THEN lock' = "x" /\ xpc' = "psenter" /\ st' = UnregisterEff([st EXCEPT !.stopping = TRUE])
                          ELSE xpc' = "done" /\ UNCHANGED <<lock, st>>
         /\ UNCHANGED <<XU, psRuns, inPS>>
XPsEnter == /\ xpc = "psenter" /\ xpc' = "psexit" /\ psRuns' = psRuns + 1 /\ inPS' = "x" /\ UNCHANGED <<XU, st, lock>>
XPsExit == /\ xpc = "psexit" /\ xpc' = "done" /\ inPS' = "" /\ lock' = "" /\ st' = StopEff(st) /\ UNCHANGED <<XU, psRuns>>

\* ---------------------------------------------------------------- supervision consumer: failure -> suspend
UU == <<sc, now, usr, sys, sched, tpc, tmsg, tnow, nturn, mpc, mvia, mgen, mres, lock, ppc, cpc, xpc, rpc, psRuns, inH, inPS>>
UCheck == /\ upc = "work" /\ upc' = (IF CanReceive(st) THEN "suspend" ELSE "done") /\ UNCHANGED <<UU, st>>
USuspend == /\ upc = "suspend" /\ upc' = "done" /\ st' = SuspendEff(st) /\ UNCHANGED UU

\* ---------------------------------------------------------------- parent.Reinstate(child)
RReinstate == /\ rpc = "idle" /\ rpc' = "done"
              \* Reinstate looks the child up with ActorOf, which does not find a stopping / passivating actor
              /\ st' = (IF st.suspended /\ ~st.stopping /\ ~st.passivating THEN ReinstateEff(st) ELSE st)
              /\ UNCHANGED <<sc, now, usr, sys, sched, tpc, tmsg, tnow, nturn, mpc, mvia, mgen, mres, lock, ppc, cpc, xpc, upc, psRuns, inH, inPS>>

\* ---------------------------------------------------------------- clock
\* assumption: no time passes between the stamp of a message and the entry into the user's handler (adjacent statements)
Tick == /\ now < sc.maxnow /\ \A k \in Turns : tpc[k] # "enter"
        /\ now' = now + 1
        /\ UNCHANGED <<sc, st, usr, sys, sched, tpc, tmsg, tnow, nturn, mpc, mvia, mgen, mres, lock, ppc, cpc, xpc, upc, rpc, psRuns, inH, inPS>>

Next == \/ PTell \/ CTell \/ Tick
        \/ \E k \in Turns : Take(k) \/ Ctl(k) \/ Enter(k) \/ Exit(k)
        \/ MFire \/ MTrigger \/ MGuards \/ MLock \/ MDecide \/ MPsEnter \/ MPsExit \/ MRelock
        \/ MRecv \/ MMsgCheck \/ MMsgRelock
        \/ XCall \/ XLock \/ XPsEnter \/ XPsExit
        \/ UCheck \/ USuspend \/ RReinstate

Spec == Init /\ [][Next]_vars
MNext == MFire \/ MTrigger \/ MGuards \/ MLock \/ MDecide \/ MPsEnter \/ MPsExit \/ MRelock \/ MRecv \/ MMsgCheck \/ MMsgRelock
XNext == XLock \/ XPsEnter \/ XPsExit
FairSpec == Spec /\ WF_vars(MNext) /\ WF_vars(XNext)

\* ---------------------------------------------------------------- properties (C12)
Decision == mpc = "prelock" /\ mpc' = "locked"           \* the moment the passivation becomes irrevocable
\* idle for >= T since the last handled message
IdleAtDecision == [][Decision => (TimeS => now - st.lastHandled >= sc.T)]_vars
\* never while paused / suspended / stopping / already stopped
FlagsAtDecision == [][Decision => (st.running /\ ~st.stopping /\ ~st.suspended /\ ~st.pflag)]_vars
\* count strategy: only after N messages handled since the registration
CountAtDecision == [][Decision => (CountS => st.hsr >= sc.n)]_vars
PostStopOnce == psRuns <= 1
NeverLongLived == sc.strategy = "long" => mpc = "idle"
PassivatedStops == (mpc \in {"relock", "msgrelock"} /\ mres) => ~st.running
TokensSuffice == nturn < MaxTurns
\* the deadline heap holds the entry exactly when the entry knows its position (a stray copy makes nextEntry panic on
\* heap.Remove(queue, -1) as soon as the entry is paused)
HeapConsistent == st.copies = (IF st.inHeap THEN 1 ELSE 0)
\* the manager goroutine serves every actor of the system: it must always come back to its run loop (no spinning on one entry)
ManagerSettles == []<>(mpc = "idle")
=============================================================================
