---------------------------- MODULE PassMonitor ----------------------------
(* C12 monitor: judges recorded executions of REAL goakt actors against the observable     *)
(* passivation contract only (no knowledge of the manager's data structures).              *)
(* Events (one trace line each; t = wall-clock ms since the history's epoch):               *)
(*   New       a = timeout T in ms, b = slack in ms, s = strategy, id = N (count strategy)  *)
(*   enter     id (0 = PostStart), t = when Receive was entered, a = the runtime's stamp    *)
(*   exit      id, t                                                                        *)
(*   tellstart / tell   a Tell of message id (0 = control message, s = "pause" / "resume")   *)
(*             starts / returned (a = 1: accepted)                                          *)
(*   reinstate the parent's Reinstate returned                                              *)
(*   restartret  PID.Restart returned (a new incarnation)                                   *)
(*   register  the actor was (re-)registered with the passivation manager                   *)
(*   pop       the manager took the actor off its schedule (witness classification only)    *)
(*   decision  tryPassivation holds stopLocker and goes on to stop the actor;               *)
(*             a = flags at that moment: 1 running, 2 stopping, 4 suspended, 8 paused       *)
(*   psenter / psexit   PostStop                                                            *)
(*   End       a = 1 if the actor is still running, b = PostStop runs                       *)
(* Violations are printed as <<"MISMATCH", "C12", line, what>>.                             *)
EXTENDS Integers, Sequences, FiniteSets, TLC, Json

Trace == ndJsonDeserialize("trace.ndjson")

VARIABLES l, tms, slack, strat, nmax,
          lastEnter,   \* latest handler entry so far (ms), -1 = none
          count,       \* user messages handled since the last registration
          decT,        \* time of the passivation decision, -1 = none
          decCount,    \* user messages whose handler had been entered by then (since the registration)
          pauseSt,     \* 0 not paused, 1 a PausePassivation was accepted, 2 ... and a message told after it has reached its
                       \* handler (system messages are served first: the pause has been processed); any resume / reinstate
                       \* attempt or re-registration clears it
          afterPause,  \* ids of messages whose Tell started after the pause had been accepted
          psCount

vars == <<l, tms, slack, strat, nmax, lastEnter, count, decT, decCount, pauseSt, afterPause, psCount>>

Init == l = 1 /\ tms = 0 /\ slack = 0 /\ strat = "" /\ nmax = 0 /\ lastEnter = -1 /\ count = 0 /\ decT = -1 /\ decCount = 0 /\ pauseSt = 0 /\ afterPause = {} /\ psCount = 0

Check(cond, what) == IF cond THEN TRUE ELSE PrintT(<<"MISMATCH", "C12", l, what>>)
Max(a, b) == IF a > b THEN a ELSE b
cfg == <<tms, slack, strat, nmax>>

Step ==
  /\ l <= Len(Trace)
  /\ l' = l + 1
  /\ LET e == Trace[l] IN
     CASE e.ev = "New" ->
            /\ tms' = e.a /\ slack' = e.b /\ strat' = e.s /\ nmax' = e.id
            /\ lastEnter' = -1 /\ count' = 0 /\ decT' = -1 /\ decCount' = 0 /\ pauseSt' = 0 /\ afterPause' = {} /\ psCount' = 0
       [] e.ev = "enter" ->
            \* a handler that had been entered before the decision but is logged after it
            /\ Check(~(strat = "time" /\ decT > e.t /\ decT - e.t < tms - slack),
                     "passivated although a message was handled within the last T")
            /\ lastEnter' = Max(lastEnter, e.t)
            /\ count' = IF e.id = 0 THEN count ELSE count + 1
            \* entered before the decision, logged after it: it counts for the decision
            /\ decCount' = IF e.id # 0 /\ decT >= e.t THEN decCount + 1 ELSE decCount
            /\ pauseSt' = IF pauseSt = 1 /\ e.id \in afterPause THEN 2 ELSE pauseSt
            /\ UNCHANGED <<cfg, decT, afterPause, psCount>>
       [] e.ev = "register" ->
            /\ count' = 0 /\ pauseSt' = 0 /\ afterPause' = {}
            /\ UNCHANGED <<cfg, lastEnter, decT, decCount, psCount>>
       [] e.ev = "tellstart" ->
            /\ pauseSt' = IF e.s = "resume" THEN 0 ELSE pauseSt
            /\ afterPause' = IF e.s = "resume" THEN {} ELSE IF pauseSt >= 1 /\ e.id # 0 THEN afterPause \cup {e.id} ELSE afterPause
            /\ UNCHANGED <<cfg, lastEnter, count, decT, decCount, psCount>>
       [] e.ev = "tell" /\ e.s = "pause" ->
            /\ pauseSt' = IF e.a = 1 /\ pauseSt = 0 THEN 1 ELSE pauseSt
            /\ UNCHANGED <<cfg, lastEnter, count, decT, decCount, afterPause, psCount>>
       [] e.ev = "restartret" ->       \* a new incarnation: PostStop may run once more (End counts the last incarnation only)
            /\ psCount' = 0 /\ pauseSt' = 0 /\ afterPause' = {}
            /\ UNCHANGED <<cfg, lastEnter, count, decT, decCount>>
       [] e.ev = "reinstate" ->
            /\ pauseSt' = 0 /\ afterPause' = {}
            /\ UNCHANGED <<cfg, lastEnter, count, decT, decCount, psCount>>
       [] e.ev = "decision" ->
            /\ Check(strat # "long", "a long-lived actor was passivated")
            /\ Check(strat # "time" \/ lastEnter < 0 \/ lastEnter > e.t \/ e.t - lastEnter >= tms - slack,
                     "passivated although a message was handled within the last T")
            /\ Check(e.a = 1, "passivation decided while paused / suspended / stopping / not running")
            /\ Check(pauseSt # 2, "passivated although a PausePassivation had been processed and no ResumePassivation sent")
            /\ decT' = e.t /\ decCount' = count       \* judged at End, when every handler entry has been logged
            /\ UNCHANGED <<cfg, lastEnter, count, pauseSt, afterPause, psCount>>
       [] e.ev = "psenter" ->
            /\ Check(psCount = 0, "PostStop ran twice")
            /\ psCount' = psCount + 1
            /\ UNCHANGED <<cfg, lastEnter, count, decT, decCount, pauseSt, afterPause>>
       [] e.ev = "End" ->
            /\ Check(decT < 0 \/ e.a = 0, "passivated actor is still running")
            /\ Check(decT < 0 \/ e.b = 1, "PostStop of a passivated actor did not run exactly once")
            /\ Check(decT < 0 \/ strat # "count" \/ decCount >= nmax,
                     "message-count strategy passivated before N messages since registration")
            /\ UNCHANGED <<cfg, lastEnter, count, decT, decCount, pauseSt, afterPause, psCount>>
       [] OTHER -> UNCHANGED <<cfg, lastEnter, count, decT, decCount, pauseSt, afterPause, psCount>>

Spec == Init /\ [][Step]_vars
=============================================================================
