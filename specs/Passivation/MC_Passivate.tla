---- MODULE MC_Passivate ----
EXTENDS Passivate
Sc(t, mx, s, nn, m, c, stp, re) == [T |-> t, maxnow |-> mx, strategy |-> s, n |-> nn, msgs |-> m, ctls |-> c, stops |-> stp, reinstates |-> re]
\* quick tier: one scenario per mechanism
time_q   == Sc(3, 5, "time", 2, <<"m", "m">>, <<>>, 1, 0)
ctl_q    == Sc(3, 5, "time", 2, <<"m">>, <<"pause", "resume">>, 0, 0)
susp_q   == Sc(3, 5, "time", 2, <<"boom", "m">>, <<>>, 0, 1)
count_q  == Sc(3, 2, "count", 2, <<"m", "m", "m">>, <<"pause">>, 0, 0)
countr_q == Sc(3, 2, "count", 1, <<"m", "m">>, <<"resume">>, 0, 0)
long_q   == Sc(3, 4, "long", 2, <<"m">>, <<"pause">>, 1, 0)
Quick == {time_q, ctl_q, susp_q, count_q, countr_q, long_q}
\* thorough tier: longer clocks, more traffic, the mechanisms combined
time_t   == Sc(3, 7, "time", 2, <<"m", "m", "m">>, <<>>, 1, 0)
ctl_t    == Sc(3, 7, "time", 2, <<"m", "m">>, <<"pause", "resume">>, 1, 0)
susp_t   == Sc(3, 7, "time", 2, <<"boom", "m">>, <<"resume">>, 1, 1)
count_t  == Sc(3, 3, "count", 2, <<"m", "m", "m">>, <<"pause", "resume">>, 1, 0)
Thorough == {time_t, ctl_t, susp_t, count_t}
\* thorough tier, replayed: mechanisms combined, still small enough to dump the state graph
MedA == Sc(3, 5, "time", 2, <<"m", "m">>, <<"pause", "resume">>, 0, 0)
MedB == Sc(3, 5, "time", 2, <<"boom">>, <<"resume">>, 0, 1)
MedC == Sc(3, 2, "count", 2, <<"m", "m", "m">>, <<"pause", "resume">>, 0, 0)
Medium == {MedA, MedB, MedC}
\* the smallest scenarios that exhibit each defect of the code as it is
StaleOnly == {Sc(3, 5, "time", 2, <<"m", "m">>, <<>>, 0, 0)}
TimeOnly == {time_q}
CountROnly == {countr_q}
\* a suspended actor whose entry is re-armed by a ResumePassivation message: the manager is refused for as long as the suspension lasts
SuspResume == {Sc(3, 5, "time", 2, <<"boom">>, <<"resume">>, 0, 0)}
\* regression witnesses: the model of the code BEFORE the tryPassivation fix (Defects includes NoRecheck)
PreFix == {time_q, ctl_q, susp_q}
====
