SPECIFICATION Spec
CONSTANTS
  Scenarios <- CountROnly
  MaxTurns = 4
  Defects = {"StaleCountTrigger"}
INVARIANTS PostStopOnce NeverLongLived PassivatedStops
PROPERTIES IdleAtDecision FlagsAtDecision CountAtDecision
CHECK_DEADLOCK FALSE
