SPECIFICATION Spec
CONSTANTS
  Scenarios <- PreFix
  MaxTurns = 4
  Defects = {"NoRecheck", "HotRearm", "DoublePush", "StaleTurnClock", "StaleCountTrigger"}
CHECK_DEADLOCK FALSE
