SPECIFICATION Spec
CONSTANTS
  Scenarios <- StaleOnly
  MaxTurns = 4
  Defects = {"StaleTurnClock"}
INVARIANTS PostStopOnce NeverLongLived PassivatedStops
PROPERTIES IdleAtDecision FlagsAtDecision CountAtDecision
CHECK_DEADLOCK FALSE
