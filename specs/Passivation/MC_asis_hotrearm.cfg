SPECIFICATION FairSpec
CONSTANTS
  Scenarios <- SuspResume
  MaxTurns = 4
  Defects = {"HotRearm"}
PROPERTIES ManagerSettles
CHECK_DEADLOCK FALSE
