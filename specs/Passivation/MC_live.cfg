SPECIFICATION FairSpec
CONSTANTS
  Scenarios <- Quick
  MaxTurns = 4
  Defects = {}
PROPERTIES ManagerSettles
CHECK_DEADLOCK FALSE
