SPECIFICATION Spec
CONSTANTS
  Scenarios <- PreFix
  MaxTurns = 4
  Defects = {"DoublePush"}
INVARIANTS HeapConsistent
CHECK_DEADLOCK FALSE
