SPECIFICATION Spec
CONSTANTS
  Scenarios <- TimeOnly
  MaxTurns = 4
  Defects = {"NoRecheck"}
INVARIANTS PostStopOnce NeverLongLived PassivatedStops
PROPERTIES IdleAtDecision FlagsAtDecision CountAtDecision
CHECK_DEADLOCK FALSE
