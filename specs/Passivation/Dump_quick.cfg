SPECIFICATION Spec
CONSTANTS
  Scenarios <- Quick
  MaxTurns = 4
  Defects = {"StaleTurnClock", "StaleCountTrigger"}
CHECK_DEADLOCK FALSE
