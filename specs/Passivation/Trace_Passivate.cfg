SPECIFICATION TraceSpec
CONSTANTS
  Scenarios <- AnyScenario
  MaxTurns = 5
  Defects = {"StaleTurnClock", "StaleCountTrigger"}
CHECK_DEADLOCK FALSE
