SPECIFICATION Spec
CONSTANTS
  Scenarios <- Quick
  MaxTurns = 4
  Defects = {}
INVARIANTS PostStopOnce NeverLongLived PassivatedStops HeapConsistent
PROPERTIES IdleAtDecision FlagsAtDecision CountAtDecision
CHECK_DEADLOCK FALSE
