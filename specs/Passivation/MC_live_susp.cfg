SPECIFICATION FairSpec
CONSTANTS
  Scenarios <- SuspResume
  MaxTurns = 4
  Defects = {}
PROPERTIES ManagerSettles
CHECK_DEADLOCK FALSE
