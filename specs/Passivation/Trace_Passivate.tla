--------------------------- MODULE Trace_Passivate ---------------------------
(* Conformance: the sequence of (action, projected real state) lines logged by the puppet  *)
(* replay must be a behaviour of Passivate.tla (constants of the walk's configuration).    *)
(* A line no action explains is reported as <<"DRIFT", line, action>> and the rest of that *)
(* walk is skipped.                                                                        *)
EXTENDS Passivate, Json

Conf == ndJsonDeserialize("conf.ndjson")

VARIABLES l, skipping
tvars == <<vars, l, skipping>>

SchedNo == [Idle |-> 0, Sched |-> 1, Proc |-> 2]
\* placeholder for the initial state only: every walk starts with a "New" line that installs its own scenario
AnyScenario == {[T |-> 1, maxnow |-> 0, strategy |-> "long", n |-> 1, msgs |-> <<>>, ctls |-> <<>>, stops |-> 0, reinstates |-> 0]}

Match(p) == /\ st'.running = p.running /\ st'.stopping = p.stopping /\ st'.suspended = p.suspended
            /\ st'.pflag = p.pflag /\ st'.skip = p.skip /\ st'.passivating = p.passivating
            /\ st'.reg = p.reg
            /\ (st'.reg => (st'.inHeap = p.inHeap /\ st'.copies = p.copies /\ st'.epaused = p.epaused
                             /\ st'.pending = p.pending /\ st'.enqueued = p.enqueued))
            /\ (st'.reg /\ TimeS => st'.deadline = p.deadline)
            /\ (st'.reg /\ CountS => st'.base = p.base)
            /\ st'.lastAct = p.lastAct
            /\ st'.processed = p.processed
            /\ SchedNo[sched'] = p.sched

Act(e) == CASE e.a = "Tick" -> Tick
            [] e.a = "PTell" -> PTell
            [] e.a = "CTell" -> CTell
            [] e.a = "Take" -> Take(e.k)
            [] e.a = "Ctl" -> Ctl(e.k)
            [] e.a = "Enter" -> Enter(e.k)
            [] e.a = "Exit" -> Exit(e.k)
            [] e.a = "MFire" -> MFire
            [] e.a = "MTrigger" -> MTrigger
            [] e.a = "MGuards" -> MGuards
            [] e.a = "MLock" -> MLock
            [] e.a = "MDecide" -> MDecide
            [] e.a = "MPsEnter" -> MPsEnter
            [] e.a = "MPsExit" -> MPsExit
            [] e.a = "MRelock" -> MRelock
            [] e.a = "MRecv" -> MRecv
            [] e.a = "MMsgCheck" -> MMsgCheck
            [] e.a = "MMsgRelock" -> MMsgRelock
            [] e.a = "XCall" -> XCall
            [] e.a = "XLock" -> XLock
            [] e.a = "XPsEnter" -> XPsEnter
            [] e.a = "XPsExit" -> XPsExit
            [] e.a = "UCheck" -> UCheck
            [] e.a = "USuspend" -> USuspend
            [] e.a = "RReinstate" -> RReinstate
            [] OTHER -> FALSE

\* the "New" line of a walk carries its scenario
ScOf(p) == [T |-> p.T, maxnow |-> p.maxnow, strategy |-> p.strategy, n |-> p.N, msgs |-> p.msgs, ctls |-> p.ctls,
            stops |-> p.stops, reinstates |-> p.reinstates]
Reset(c) == /\ sc' = c /\ now' = 0 /\ st' = InitSt(c) /\ usr' = <<>> /\ sys' = <<>> /\ sched' = "Idle"
            /\ tpc' = [k \in Turns |-> "none"] /\ tmsg' = [k \in Turns |-> NoMsg] /\ tnow' = [k \in Turns |-> 0] /\ nturn' = 0
            /\ mpc' = "idle" /\ mvia' = "time" /\ mgen' = 0 /\ mres' = FALSE /\ lock' = ""
            /\ ppc' = 1 /\ cpc' = 1 /\ xpc' = (IF c.stops > 0 THEN "idle" ELSE "done") /\ upc' = "none"
            /\ rpc' = (IF c.reinstates > 0 THEN "idle" ELSE "done")
            /\ psRuns' = 0 /\ inH' = {} /\ inPS' = ""

TraceInit == Init /\ l = 1 /\ skipping = FALSE

TraceNext ==
  /\ l <= Len(Conf)
  /\ l' = l + 1
  /\ LET e == Conf[l] IN
     IF e.a = "New" THEN Reset(ScOf(e.p)) /\ skipping' = FALSE
     ELSE IF skipping \/ e.a = "Drift" THEN UNCHANGED vars /\ skipping' = TRUE
     ELSE \/ Act(e) /\ Match(e.p) /\ skipping' = FALSE
          \/ /\ ~ENABLED (Act(e) /\ Match(e.p))
             /\ PrintT(<<"DRIFT", l, e.a>>)
             /\ UNCHANGED vars /\ skipping' = TRUE

TraceSpec == TraceInit /\ [][TraceNext]_tvars
=============================================================================
