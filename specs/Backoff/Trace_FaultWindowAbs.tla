---- MODULE Trace_FaultWindowAbs ----
(* Property monitor (C08, second sentence) on recorded executions of the REAL       *)
(* recordFault: it keeps only the clock, the time of the latest fault and the       *)
(* expected count, and checks every returned count.                                 *)
EXTENDS Integers, Sequences, TLC, Json
Trace == ndJsonDeserialize("trace.ndjson")
VARIABLES l, now, lastAt, cnt
Init == l = 1 /\ now = 0 /\ lastAt = -1 /\ cnt = 0
Report(what, exp, got) == IF exp = got THEN TRUE ELSE PrintT(<<"MISMATCH", l, what, exp, got>>)
Step ==
  /\ l <= Len(Trace)
  /\ l' = l + 1
  /\ LET e == Trace[l] IN
     CASE e.op = "New"    -> now' = 0 /\ lastAt' = -1 /\ cnt' = 0
       [] e.op = "Tick"   -> now' = now + 1 /\ Report("tick.count", cnt, e.cnt) /\ UNCHANGED <<lastAt, cnt>>
       [] e.op = "Record" ->
            \* elapsed real time is (now - lastAt) + 1/2 ticks
            LET older == e.w > 0 /\ lastAt >= 0 /\ now - lastAt >= e.w
                exp   == IF older THEN 1 ELSE cnt + 1
            IN /\ Report("record.count", exp, e.res)
               /\ Report("record.stored", exp, e.cnt)
               /\ cnt' = exp /\ lastAt' = now /\ UNCHANGED now
       [] OTHER -> UNCHANGED <<now, lastAt, cnt>>
Spec == Init /\ [][Step]_<<l, now, lastAt, cnt>>
====
