---- MODULE Gen_FaultWindow ----
(* every history of length Depth (BFS) / random walks (-simulate) over {R:<w>, T} *)
EXTENDS FaultWindow, Json
CONSTANTS Depth
VARIABLE hist
Enc(r) == IF r.op = "Tick" THEN "T" ELSE "R:" \o ToString(r.w)
GInit == Init /\ hist = <<>>
GNext == Next /\ hist' = Append(hist, Enc(last'))
GSpec == GInit /\ [][GNext]_<<vars, hist>>
Emit == (Len(hist) < Depth) \/ (PrintT(<<"BEHAVIOUR", ToJson(hist)>>) /\ FALSE)
====
