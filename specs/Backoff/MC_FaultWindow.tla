---- MODULE MC_FaultWindow ----
EXTENDS FaultWindow
CONSTANTS MaxNow, MaxCount
Bound == now <= MaxNow /\ count <= MaxCount
View == core
====
