---------------------------- MODULE FaultWindow ----------------------------
(* Transcription of PID.recordFault (actor/pid.go): the consecutive-fault        *)
(* counter with its reset window, over a discrete clock.                         *)
(*   count     consecutiveFaults                                                 *)
(*   has, age  lastFaultAtNano > 0, and the whole ticks elapsed since that fault *)
(* Faults never happen exactly on a window boundary: the real elapsed time is    *)
(* age + 1/2 ticks (the driver ages the stored timestamp by half a tick right    *)
(* after every fault), so "older than w ticks" is  age + 1/2 > w  <=>  age >= w. *)
(* Next to it the abstract reading `hist` (absolute fault times) on which the    *)
(* second sentence of C08 is stated.                                             *)
EXTENDS Integers, Sequences, TLC

CONSTANTS Windows,   \* reset windows (ticks) a call may pass; <= 0 means "never reset"
          MaxAge     \* ages saturate here (> every window)

VARIABLES count, has, age,
          now, lastAt, run,    \* abstract: clock, time of the latest fault (-1 = none), length of the current run
          last                 \* output only

\* the window set used by the committed configurations (cfg files cannot write negative numbers)
StdWindows == {-1, 0, 1, 2, 3}

vars == <<count, has, age, now, lastAt, run, last>>
core == <<count, has, age, now, lastAt, run>>

Init == /\ count = 0 /\ has = FALSE /\ age = 0
        /\ now = 0 /\ lastAt = -1 /\ run = 0
        /\ last = [op |-> "Init", w |-> 0, res |-> 0]

\* recordFault(window)
Record(w) ==
  LET stale == w > 0 /\ has /\ age >= w                 \* window > 0 && last > 0 && now-last > window
      c1    == IF stale THEN 0 ELSE count               \* consecutiveFaults.Store(0)
      \* abstract: the previous fault is older than a positive window -> the run restarts
      older == w > 0 /\ lastAt >= 0 /\ now - lastAt >= w
  IN /\ count' = c1 + 1                                 \* consecutiveFaults.Inc()
     /\ has' = TRUE /\ age' = 0                         \* lastFaultAtNano.Store(now)
     /\ run' = IF older THEN 1 ELSE run + 1
     /\ lastAt' = now
     /\ last' = [op |-> "Record", w |-> w, res |-> count']
     /\ UNCHANGED now

Tick == /\ age' = IF has /\ age < MaxAge THEN age + 1 ELSE age
        /\ now' = now + 1
        /\ last' = [op |-> "Tick", w |-> 0, res |-> 0]
        /\ UNCHANGED <<count, has, lastAt, run>>

Next == (\E w \in Windows : Record(w)) \/ Tick
Spec == Init /\ [][Next]_vars

\* C08: the counter restarts from one when the previous fault is older than a positive
\* reset window, and otherwise counts consecutive faults
CountIsRun == count = run
Restarts == [][(last'.op = "Record") =>
                 IF last'.w > 0 /\ lastAt >= 0 /\ now - lastAt >= last'.w
                 THEN last'.res = 1 ELSE last'.res = count + 1]_vars
NeverResetsWithoutWindow == [][(last'.op = "Record" /\ last'.w <= 0) => count' = count + 1]_vars
=============================================================================
