SPECIFICATION GSpec
CONSTANTS
  Windows <- StdWindows
  MaxAge = 4
  Depth = 16
CONSTRAINT Emit
