---------------------------- MODULE Trace_Backoff ----------------------------
(* Judging recorded evaluations of the REAL code (Apalache, --length=0).            *)
(* Backoff_Recs.tla is generated per run: Recs is the set of records                *)
(*   [n, i, m, ra      the vector                                                   *)
(*    r, r1            backoffDelay(n, i, m), backoffDelay(n+1, i, m)               *)
(*    si, sm, sra      what NewSupervisor(WithExponentialBackoff(i, m, ra)) stores  *)
(*    rc, rc1          backoffDelay(n, si, sm), backoffDelay(n+1, si, sm)]          *)
(* The state variable v ranges over the table, so a counterexample IS the offending *)
(* record.                                                                          *)
(* Conf*  conformance: the recorded values are what the transcription computes      *)
(*        (with Defects as configured) - a failure is drift, not a verdict.         *)
(* Mon*   the property monitor: the formulas of C08 on the recorded outputs; they   *)
(*        do not mention Backoff() at all.                                          *)
EXTENDS Backoff, Backoff_Recs

VARIABLE
  \* @type: { n: Int, i: Int, m: Int, ra: Int, r: Int, r1: Int, si: Int, sm: Int, sra: Int, rc: Int, rc1: Int };
  v

Init == v \in Recs
Next == UNCHANGED v

\* @type: Int => Int;
Succ1(n) == IF n < MaxI64 THEN n + 1 ELSE n

ConfDelay == 
             /\ v.r  = Backoff(v.n, v.i, v.m)
             /\ v.r1 = Backoff(Succ1(v.n), v.i, v.m)
ConfOption == LET s == Normalize(v.i, v.m, v.ra)
              IN /\ v.si = s.i /\ v.sm = s.m /\ v.sra = s.ra
                 /\ v.rc  = Backoff(v.n, s.i, s.m)
                 /\ v.rc1 = Backoff(Succ1(v.n), s.i, s.m)

MonNonNeg   == NonNeg(v.n, v.i, v.m, v.r) /\ NonNeg(Succ1(v.n), v.i, v.m, v.r1)
MonCapped   == Capped(v.n, v.i, v.m, v.r) /\ Capped(Succ1(v.n), v.i, v.m, v.r1)
MonExact    == Exact(v.n, v.i, v.m, v.r) /\ Exact(Succ1(v.n), v.i, v.m, v.r1)
MonDisabled == Disabled(v.n, v.i, v.m, v.r) /\ Disabled(Succ1(v.n), v.i, v.m, v.r1)
MonMonotone == Monotone(v.m, v.r, v.r1)
\* through the supervisor option, for ANY requested (i, m, ra)
MonOption   == 
               /\ v.si >= 0 /\ v.sm >= v.si
               /\ (v.i <= 0 => (v.si = 0 /\ v.sm = 0 /\ v.sra = 0))        \* option ignored: backoff stays disabled
               /\ (v.i > 0 => (v.si = v.i /\ v.sra > 0 /\ (v.m >= v.i => v.sm = v.m)))
MonComposed == 
               /\ 0 <= v.rc /\ v.rc <= v.sm /\ v.rc <= v.rc1 /\ v.rc1 <= v.sm
               /\ (v.si = 0 => (v.rc = 0 /\ v.rc1 = 0))                   \* zero when backoff is disabled
               /\ ((v.si > 0 /\ v.n >= 1) => (v.rc >= v.si /\ v.rc = Ideal(v.n, v.si, v.sm)))
               /\ ((v.si > 0 /\ Succ1(v.n) >= 1) => v.rc1 = Ideal(Succ1(v.n), v.si, v.sm))

\* Apalache splits a top-level conjunction into several verification conditions; the wrappers keep one condition per
\* named formula so that "state invariant k violated" in the log identifies it
\* @type: Bool => Bool;
Whole(p) == IF p THEN TRUE ELSE FALSE
JMonNonNeg   == Whole(MonNonNeg)
JMonCapped   == Whole(MonCapped)
JMonExact    == Whole(MonExact)
JMonDisabled == Whole(MonDisabled)
JMonMonotone == Whole(MonMonotone)
JMonOption   == Whole(MonOption)
JMonComposed == Whole(MonComposed)
JConfDelay   == Whole(ConfDelay)
JConfOption  == Whole(ConfOption)

\* the transcription the recorded values are compared with (Conf*): the code as it is now
CInit_code == Defects = {}
=============================================================================
