SPECIFICATION TSpec
CONSTANTS
  Windows <- StdWindows
  MaxAge = 4
CHECK_DEADLOCK FALSE
INVARIANTS CountIsRun
