SPECIFICATION Spec
CONSTANTS
  Windows <- StdWindows
  MaxAge = 4
  MaxNow = 8
  MaxCount = 6
CONSTRAINT Bound
VIEW View
INVARIANTS CountIsRun
PROPERTIES Restarts NeverResetsWithoutWindow
