---------------------------- MODULE Backoff_Recs ----------------------------
(* Placeholder with the shape of the generated module: the check overwrites it  *)
(* with the records of the run (definitions of 20 records each).               *)
EXTENDS Integers
\* @type: Set({ n: Int, i: Int, m: Int, ra: Int, r: Int, r1: Int, si: Int, sm: Int, sra: Int, rc: Int, rc1: Int });
R0 == {
  [n |-> 1, i |-> 1, m |-> 1, ra |-> 0, r |-> 1, r1 |-> 1, si |-> 1, sm |-> 1, sra |-> 1, rc |-> 1, rc1 |-> 1]
}

\* @type: Set({ n: Int, i: Int, m: Int, ra: Int, r: Int, r1: Int, si: Int, sm: Int, sra: Int, rc: Int, rc1: Int });
R1 == {
  [n |-> 2, i |-> 1, m |-> 1, ra |-> 0, r |-> 1, r1 |-> 1, si |-> 1, sm |-> 1, sra |-> 1, rc |-> 1, rc1 |-> 1]
}
\* @type: Set({ n: Int, i: Int, m: Int, ra: Int, r: Int, r1: Int, si: Int, sm: Int, sra: Int, rc: Int, rc1: Int });
Recs == R0 \cup R1
=============================================================================
