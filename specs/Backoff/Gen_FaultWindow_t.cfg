SPECIFICATION GSpec
CONSTANTS
  Windows <- StdWindows
  MaxAge = 4
  Depth = 7
CONSTRAINT Emit
