SPECIFICATION GSpec
CONSTANTS
  Windows <- StdWindows
  MaxAge = 4
  Depth = 5
CONSTRAINT Emit
