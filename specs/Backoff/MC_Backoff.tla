---------------------------- MODULE MC_Backoff ----------------------------
(* Symbolic check (Apalache, --length=0): n, i, m, ra range over ALL of int64;       *)
(* the invariants are the formulas of C08 applied to the transcription.              *)
EXTENDS Backoff

VARIABLES
  \* @type: Int;
  n,
  \* @type: Int;
  i,
  \* @type: Int;
  m,
  \* @type: Int;
  ra

Init == /\ n \in Int /\ i \in Int /\ m \in Int /\ ra \in Int
        /\ In64(n) /\ In64(i) /\ In64(m) /\ In64(ra)
Next == UNCHANGED <<n, i, m, ra>>

N1 == IF n < MaxI64 THEN n + 1 ELSE n

InvNonNeg   == NonNeg(n, i, m, Backoff(n, i, m))
InvCapped   == Capped(n, i, m, Backoff(n, i, m))
InvExact    == Exact(n, i, m, Backoff(n, i, m))
InvDisabled == Disabled(n, i, m, Backoff(n, i, m))
InvMonotone == Monotone(m, Backoff(n, i, m), Backoff(N1, i, m))
InvRange    == In64(Backoff(n, i, m))
\* never below the initial delay once enabled (what "DoubleWrap" breaks most visibly)
InvFloor    == (i > 0 /\ n >= 1 /\ m >= i) => Backoff(n, i, m) >= i
\* WithExponentialBackoff hands backoffDelay either (0, 0) or 0 < initial <= maximum, with a positive reset window;
\* together with the invariants above (which hold for ALL i, m >= 0) this gives, for any requested (i, m):
\* 0 <= delay <= maximum, delay >= initial once enabled, exact, monotone
InvNormalize == LET s == Normalize(i, m, ra) IN
                /\ s.i >= 0 /\ s.m >= s.i
                /\ (i <= 0 => (s.i = 0 /\ s.m = 0 /\ s.ra = 0))
                /\ (i > 0 => (s.i = i /\ s.ra > 0 /\ (m >= i => s.m = m)))
                /\ In64(s.i) /\ In64(s.m) /\ In64(s.ra)

\* constant instances
CInit_fixed  == Defects = {}
CInit_asis   == Defects = {"DoubleWrap", "Cap62"}
CInit_dwrap  == Defects = {"DoubleWrap"}
CInit_cap62  == Defects = {"Cap62"}
=============================================================================
