---- MODULE Trace_FaultWindow ----
(* Conformance of recorded recordFault executions with the transcription (returned  *)
(* count, stored counter, whether a latest-fault timestamp is stored).              *)
EXTENDS FaultWindow, Json
Trace == ndJsonDeserialize("trace.ndjson")
VARIABLE l
TStep ==
  /\ l <= Len(Trace)
  /\ l' = l + 1
  /\ LET e == Trace[l] IN
     \/ e.op = "New" /\ count' = 0 /\ has' = FALSE /\ age' = 0 /\ now' = 0 /\ lastAt' = -1 /\ run' = 0
                     /\ last' = [op |-> "Init", w |-> 0, res |-> 0]
     \/ e.op = "Record" /\ Record(e.w) /\ last'.res = e.res /\ count' = e.cnt /\ has' = e.has
     \/ e.op = "Tick" /\ Tick /\ count' = e.cnt /\ has' = e.has
TInit == Init /\ l = 1
TSpec == TInit /\ [][TStep]_<<vars, l>>
====
