------------------------------ MODULE Backoff ------------------------------
(* Transcription of the restart backoff arithmetic of goakt, typed for Apalache:       *)
(*   actor/pid.go            backoffDelay(faults, initialDelay, maxDelay)               *)
(*   supervisor/supervisor.go WithExponentialBackoff(initialDelay, maxDelay, resetAfter) *)
(*   actor/pid.go            the choice of the reset window in handleRestartDirective   *)
(* time.Duration / int64 arithmetic is made explicit: `<<` is multiplication by a       *)
(* literal power of two followed by two's-complement wrap-around (Wrap64), `>>` is      *)
(* floor division.  Powers are literal CASE tables (Apalache 0.58 cannot encode 2^k     *)
(* with a variable k, and a literal multiplier keeps the SMT problem linear).           *)
(* TLC cannot be used here: its integers are 32-bit.                                    *)
(*                                                                                      *)
(* Defects = {} is the repaired arithmetic; the named branches are the deviations found *)
(* in the code as it was:                                                               *)
(*   "DoubleWrap"  shift first, then test `delay <= 0 || delay > maxDelay`: a product   *)
(*                 that wraps past 2^64 can come back as a small positive value         *)
(*   "Cap62"       `shift >= 62` returns maxDelay although 1ns << 62 is representable   *)
EXTENDS Integers

CONSTANT
  \* @type: Set(Str);
  Defects

MinI64 == -9223372036854775808
MaxI64 == 9223372036854775807
Two64  == 18446744073709551616

\* @type: Int => Bool;
In64(x) == MinI64 <= x /\ x <= MaxI64

\* two's-complement interpretation of the low 64 bits of x
\* @type: Int => Int;
Wrap64(x) == LET r == x % Two64 IN IF r > MaxI64 THEN r - Two64 ELSE r

\* x * 2^k for 0 <= k <= 62 (unbounded integers)
\* @type: (Int, Int) => Int;
MulPow2(x, k) ==
  CASE k = 0 -> x
       [] k = 1 -> x * 2
       [] k = 2 -> x * 4
       [] k = 3 -> x * 8
       [] k = 4 -> x * 16
       [] k = 5 -> x * 32
       [] k = 6 -> x * 64
       [] k = 7 -> x * 128
       [] k = 8 -> x * 256
       [] k = 9 -> x * 512
       [] k = 10 -> x * 1024
       [] k = 11 -> x * 2048
       [] k = 12 -> x * 4096
       [] k = 13 -> x * 8192
       [] k = 14 -> x * 16384
       [] k = 15 -> x * 32768
       [] k = 16 -> x * 65536
       [] k = 17 -> x * 131072
       [] k = 18 -> x * 262144
       [] k = 19 -> x * 524288
       [] k = 20 -> x * 1048576
       [] k = 21 -> x * 2097152
       [] k = 22 -> x * 4194304
       [] k = 23 -> x * 8388608
       [] k = 24 -> x * 16777216
       [] k = 25 -> x * 33554432
       [] k = 26 -> x * 67108864
       [] k = 27 -> x * 134217728
       [] k = 28 -> x * 268435456
       [] k = 29 -> x * 536870912
       [] k = 30 -> x * 1073741824
       [] k = 31 -> x * 2147483648
       [] k = 32 -> x * 4294967296
       [] k = 33 -> x * 8589934592
       [] k = 34 -> x * 17179869184
       [] k = 35 -> x * 34359738368
       [] k = 36 -> x * 68719476736
       [] k = 37 -> x * 137438953472
       [] k = 38 -> x * 274877906944
       [] k = 39 -> x * 549755813888
       [] k = 40 -> x * 1099511627776
       [] k = 41 -> x * 2199023255552
       [] k = 42 -> x * 4398046511104
       [] k = 43 -> x * 8796093022208
       [] k = 44 -> x * 17592186044416
       [] k = 45 -> x * 35184372088832
       [] k = 46 -> x * 70368744177664
       [] k = 47 -> x * 140737488355328
       [] k = 48 -> x * 281474976710656
       [] k = 49 -> x * 562949953421312
       [] k = 50 -> x * 1125899906842624
       [] k = 51 -> x * 2251799813685248
       [] k = 52 -> x * 4503599627370496
       [] k = 53 -> x * 9007199254740992
       [] k = 54 -> x * 18014398509481984
       [] k = 55 -> x * 36028797018963968
       [] k = 56 -> x * 72057594037927936
       [] k = 57 -> x * 144115188075855872
       [] k = 58 -> x * 288230376151711744
       [] k = 59 -> x * 576460752303423488
       [] k = 60 -> x * 1152921504606846976
       [] k = 61 -> x * 2305843009213693952
       [] k = 62 -> x * 4611686018427387904
       [] OTHER -> 0

\* x >> k for 0 <= k <= 62 (arithmetic shift = floor division)
\* @type: (Int, Int) => Int;
Shr(x, k) ==
  CASE k = 0 -> x
       [] k = 1 -> x \div 2
       [] k = 2 -> x \div 4
       [] k = 3 -> x \div 8
       [] k = 4 -> x \div 16
       [] k = 5 -> x \div 32
       [] k = 6 -> x \div 64
       [] k = 7 -> x \div 128
       [] k = 8 -> x \div 256
       [] k = 9 -> x \div 512
       [] k = 10 -> x \div 1024
       [] k = 11 -> x \div 2048
       [] k = 12 -> x \div 4096
       [] k = 13 -> x \div 8192
       [] k = 14 -> x \div 16384
       [] k = 15 -> x \div 32768
       [] k = 16 -> x \div 65536
       [] k = 17 -> x \div 131072
       [] k = 18 -> x \div 262144
       [] k = 19 -> x \div 524288
       [] k = 20 -> x \div 1048576
       [] k = 21 -> x \div 2097152
       [] k = 22 -> x \div 4194304
       [] k = 23 -> x \div 8388608
       [] k = 24 -> x \div 16777216
       [] k = 25 -> x \div 33554432
       [] k = 26 -> x \div 67108864
       [] k = 27 -> x \div 134217728
       [] k = 28 -> x \div 268435456
       [] k = 29 -> x \div 536870912
       [] k = 30 -> x \div 1073741824
       [] k = 31 -> x \div 2147483648
       [] k = 32 -> x \div 4294967296
       [] k = 33 -> x \div 8589934592
       [] k = 34 -> x \div 17179869184
       [] k = 35 -> x \div 34359738368
       [] k = 36 -> x \div 68719476736
       [] k = 37 -> x \div 137438953472
       [] k = 38 -> x \div 274877906944
       [] k = 39 -> x \div 549755813888
       [] k = 40 -> x \div 1099511627776
       [] k = 41 -> x \div 2199023255552
       [] k = 42 -> x \div 4398046511104
       [] k = 43 -> x \div 8796093022208
       [] k = 44 -> x \div 17592186044416
       [] k = 45 -> x \div 35184372088832
       [] k = 46 -> x \div 70368744177664
       [] k = 47 -> x \div 140737488355328
       [] k = 48 -> x \div 281474976710656
       [] k = 49 -> x \div 562949953421312
       [] k = 50 -> x \div 1125899906842624
       [] k = 51 -> x \div 2251799813685248
       [] k = 52 -> x \div 4503599627370496
       [] k = 53 -> x \div 9007199254740992
       [] k = 54 -> x \div 18014398509481984
       [] k = 55 -> x \div 36028797018963968
       [] k = 56 -> x \div 72057594037927936
       [] k = 57 -> x \div 144115188075855872
       [] k = 58 -> x \div 288230376151711744
       [] k = 59 -> x \div 576460752303423488
       [] k = 60 -> x \div 1152921504606846976
       [] k = 61 -> x \div 2305843009213693952
       [] k = 62 -> x \div 4611686018427387904
       [] OTHER -> 0

\* x << k on int64
\* @type: (Int, Int) => Int;
Shl(x, k) == Wrap64(MulPow2(x, k))

\* @type: (Int, Int) => Int;
Min(a, b) == IF a <= b THEN a ELSE b

\* ---------------------------------------------------------------- backoffDelay
\* @type: (Int, Int, Int) => Int;
Backoff(n, i, m) ==
  IF i <= 0 \/ n < 1 THEN 0
  ELSE LET shift == n - 1
           cap   == IF "Cap62" \in Defects THEN 62 ELSE 63
       IN IF shift >= cap THEN m
          ELSE IF "DoubleWrap" \in Defects
          THEN LET d == Shl(i, shift) IN IF d <= 0 \/ d > m THEN m ELSE d
          ELSE \* i << shift overflows or exceeds m exactly when i > m >> shift
               IF i > Shr(m, shift) THEN m ELSE Shl(i, shift)

\* the mathematical value min(i * 2^(n-1), m) for i > 0, n >= 1, m in int64:
\* from 2^63 on the product exceeds every int64 m
\* @type: (Int, Int, Int) => Int;
Ideal(n, i, m) == IF n - 1 >= 63 THEN m ELSE Min(MulPow2(i, n - 1), m)

\* ---------------------------------------------------------------- WithExponentialBackoff
\* the supervisor starts with initialDelay = maxDelay = backoffResetAfter = 0 (backoff disabled)
\* @type: (Int, Int, Int) => { i: Int, m: Int, ra: Int };
Normalize(i, m, ra) ==
  IF i <= 0 THEN [i |-> 0, m |-> 0, ra |-> 0]
  ELSE LET m2 == IF m < i THEN i ELSE m
       IN [i |-> i, m |-> m2, ra |-> IF ra <= 0 THEN m2 ELSE ra]

\* handleRestartDirective: backoff's resetAfter when configured, otherwise the WithRetry timeout
\* @type: (Int, Int) => Int;
EffWindow(ra, timeout) == IF ra <= 0 THEN timeout ELSE ra

\* ---------------------------------------------------------------- C08, first sentence
\* for m >= 0 (WithExponentialBackoff guarantees m >= i > 0 whenever backoff is enabled)
\* @type: (Int, Int, Int, Int) => Bool;
NonNeg(n, i, m, r)   == m >= 0 => r >= 0
\* @type: (Int, Int, Int, Int) => Bool;
Capped(n, i, m, r)   == m >= 0 => r <= m
\* @type: (Int, Int, Int, Int) => Bool;
Exact(n, i, m, r)    == (i > 0 /\ n >= 1 /\ m >= 0) => r = Ideal(n, i, m)
\* @type: (Int, Int, Int, Int) => Bool;
Disabled(n, i, m, r) == (i <= 0 \/ n < 1) => r = 0
\* r1 is the delay for n + 1 faults
\* @type: (Int, Int, Int) => Bool;
Monotone(m, r, r1)   == m >= 0 => r <= r1
=============================================================================
