---- MODULE MC_Mpsc ----
EXTENDS Mpsc
View == <<chain, ppc, pk, cpc, cops, completed, dequeued, lastRes>>
Ranks == [p \in Producers |-> IF p = "p1" THEN 1 ELSE IF p = "p2" THEN 2 ELSE 3]
====
