SPECIFICATION Spec
CONSTANTS
  Producers = {"p1", "p2"}
  NMsgs = 2
  COps = 4
  Defects = {}
  RankOf <- Ranks
VIEW View
INVARIANTS NoLossNoDup PerProducerFIFO
PROPERTIES NeverEmptyWhileCompleted
CHECK_DEADLOCK FALSE
