SPECIFICATION Spec
CONSTANTS
  Producers = {"p1", "p2"}
  NMsgs = 1
  COps = 3
  Defects = {}
  RankOf <- Ranks
  SenderOf <- SharedSenders
VIEW View
CHECK_DEADLOCK FALSE
