------------------------------- MODULE Fair -------------------------------
(* actor/unbounded_fair_mailbox.go at atomic-step granularity.                        *)
(* Per sender key: an inner UnboundedMailbox (Mpsc chain: SWAP then link), a `pending` *)
(* counter and an `active` flag; the active-senders list is a second Mpsc list.        *)
(* Several producers may share one sender key (goroutines telling with NoSender).      *)
(* Action names = verifhook points (see harness/cmd/mailbox):                          *)
(*  producer: Call, ISwap (mpsc.enq.swap), ILink (mpsc.enq.link; also length++),       *)
(*            Pend (fair.enq.pending: pending++), ActLoad (fair.enq.actload),          *)
(*            Cas (fair.enq.cas), ASwap / ALink (fair.act.swap / fair.act.link)        *)
(*  consumer: CallDeq, D0 (fair.deq: pop active list), DInner (mpsc.deq on the inner   *)
(*            queue), DDeact (fair.deq.deactivate), DRecheck (mpsc.isempty, repaired   *)
(*            code only), DPend (fair.deq.pending), FStore (fair.fin.store),           *)
(*            FRecheck (fair.fin.recheck), ASwap / ALink, CallEmpty, Empty             *)
(* Defects (the code before the fix had both): "StrandP" = activation only when        *)
(* pending = 1; "StrandC" = no re-check after clearing `active` in the drained branch. *)
EXTENDS Integers, Sequences, FiniteSets, TLC

CONSTANTS Producers, SenderOf, RankOf, NMsgs, COps, Defects

Senders == {SenderOf[p] : p \in Producers}
Threads == Producers \cup {"c"}

VARIABLES chain,     \* [Senders -> Seq([id, linked])]   inner queues in SWAP order
          pending,   \* [Senders -> Int]
          active,    \* [Senders -> BOOLEAN]
          alist,     \* Seq([snd, linked])  active-senders list in SWAP order
          length,    \* the mailbox's approximate length counter
          pc,        \* [Threads -> STRING]
          pk,        \* [Producers -> Nat]
          cur,       \* sender the consumer is serving
          cmsg,      \* message id the consumer is about to return (0 = nil)
          rem,       \* consumer-local `remaining`
          ppend,     \* [Producers -> Int] producer-local result of pending++
          cops, dequeued, completed, lastRes, last

vars == <<chain, pending, active, alist, length, pc, pk, cur, cmsg, rem, ppend, cops, dequeued, completed, lastRes, last>>

Id(p, k) == RankOf[p] * 10 + k
StrandP == "StrandP" \in Defects   \* producer activates only when pending = 1
StrandC == "StrandC" \in Defects   \* consumer does not re-check after clearing `active` in the drained branch

Init == /\ chain = [s \in Senders |-> <<>>]
        /\ pending = [s \in Senders |-> 0]
        /\ active = [s \in Senders |-> FALSE]
        /\ alist = <<>> /\ length = 0
        /\ pc = [t \in Threads |-> "idle"]
        /\ pk = [p \in Producers |-> 1]
        /\ cur = "" /\ cmsg = 0 /\ rem = 0
        /\ ppend = [p \in Producers |-> 0]
        /\ cops = 0 /\ dequeued = <<>> /\ completed = {} /\ lastRes = 0 /\ last = "init"

Goto(t, l) == pc' = [pc EXCEPT ![t] = l]
SetLinked(seq, pred(_)) == [i \in 1..Len(seq) |-> IF pred(seq[i]) THEN [seq[i] EXCEPT !.linked = TRUE] ELSE seq[i]]

\* ------------------------------------------------------------------ producer
Call(p) == /\ pc[p] = "idle" /\ pk[p] <= NMsgs /\ Goto(p, "iswap") /\ last' = p \o ":Call"
           /\ UNCHANGED <<chain, pending, active, alist, length, pk, cur, cmsg, rem, ppend, cops, dequeued, completed, lastRes>>

ISwap(p) == LET s == SenderOf[p] IN
  /\ pc[p] = "iswap"
  /\ chain' = [chain EXCEPT ![s] = Append(@, [id |-> Id(p, pk[p]), linked |-> FALSE])]
  /\ Goto(p, "ilink") /\ last' = p \o ":ISwap"
  /\ UNCHANGED <<pending, active, alist, length, pk, cur, cmsg, rem, ppend, cops, dequeued, completed, lastRes>>

ILink(p) == LET s == SenderOf[p] id == Id(p, pk[p]) IN
  /\ pc[p] = "ilink"
  /\ chain' = [chain EXCEPT ![s] = SetLinked(@, LAMBDA e : e.id = id)]
  /\ length' = length + 1
  /\ Goto(p, "pend") /\ last' = p \o ":ILink"
  /\ UNCHANGED <<pending, active, alist, pk, cur, cmsg, rem, ppend, cops, dequeued, completed, lastRes>>

Pend(p) == LET s == SenderOf[p] IN
  /\ pc[p] = "pend"
  /\ pending' = [pending EXCEPT ![s] = @ + 1]
  /\ ppend' = [ppend EXCEPT ![p] = pending[s] + 1]
  /\ Goto(p, "actload") /\ last' = p \o ":Pend"
  /\ UNCHANGED <<chain, active, alist, length, pk, cur, cmsg, rem, cops, dequeued, completed, lastRes>>

Finish(p) == /\ completed' = completed \cup {Id(p, pk[p])}
             /\ pk' = [pk EXCEPT ![p] = @ + 1]
             /\ Goto(p, IF pk[p] = NMsgs THEN "done" ELSE "idle")

\* if pending == 1 || !sq.active.Load()       (before the fix: if pending == 1)
ActLoad(p) == LET s == SenderOf[p] IN
  /\ pc[p] = "actload" /\ last' = p \o ":ActLoad"
  /\ IF ppend[p] = 1 \/ (~StrandP /\ ~active[s])
     THEN Goto(p, "cas") /\ UNCHANGED <<completed, pk>>
     ELSE Finish(p)
  /\ UNCHANGED <<chain, pending, active, alist, length, cur, cmsg, rem, ppend, cops, dequeued, lastRes>>

Cas(p) == LET s == SenderOf[p] IN
  /\ pc[p] = "cas" /\ last' = p \o ":Cas"
  /\ IF ~active[s]
     THEN active' = [active EXCEPT ![s] = TRUE] /\ Goto(p, "aswap") /\ UNCHANGED <<completed, pk>>
     ELSE UNCHANGED active /\ Finish(p)
  /\ UNCHANGED <<chain, pending, alist, length, cur, cmsg, rem, ppend, cops, dequeued, lastRes>>

\* active-senders list enqueue, used by producers and by the consumer (re-activation)
ASwap(t) == LET s == IF t = "c" THEN cur ELSE SenderOf[t] IN
  /\ pc[t] = "aswap" /\ last' = t \o ":ASwap"
  /\ alist' = Append(alist, [snd |-> s, linked |-> FALSE, by |-> t])
  /\ Goto(t, "alink")
  /\ UNCHANGED <<chain, pending, active, length, pk, cur, cmsg, rem, ppend, cops, dequeued, completed, lastRes>>

CRet(r) == /\ lastRes' = r /\ cops' = cops + 1 /\ Goto("c", "idle")
           /\ dequeued' = IF r > 0 THEN Append(dequeued, r) ELSE dequeued

ALink(t) ==
  /\ pc[t] = "alink" /\ last' = t \o ":ALink"
  /\ alist' = SetLinked(alist, LAMBDA e : e.by = t /\ ~e.linked)
  /\ IF t = "c" THEN CRet(cmsg) /\ UNCHANGED <<completed, pk>>
                ELSE Finish(t) /\ UNCHANGED <<lastRes, cops, dequeued>>
  /\ UNCHANGED <<chain, pending, active, length, cur, cmsg, rem, ppend>>

\* ------------------------------------------------------------------ consumer
CallDeq == /\ pc["c"] = "idle" /\ cops < COps /\ Goto("c", "d0") /\ last' = "c:CallDeq"
           /\ UNCHANGED <<chain, pending, active, alist, length, pk, cur, cmsg, rem, ppend, cops, dequeued, completed, lastRes>>

D0 == /\ pc["c"] = "d0" /\ last' = "c:D0"
      /\ IF alist # <<>> /\ alist[1].linked
         THEN /\ cur' = alist[1].snd /\ alist' = Tail(alist) /\ Goto("c", "dinner")
              /\ UNCHANGED <<lastRes, cops, dequeued>>
         ELSE /\ CRet(0) /\ UNCHANGED <<cur, alist>>
      /\ UNCHANGED <<chain, pending, active, length, pk, cmsg, rem, ppend, completed>>

DInner == /\ pc["c"] = "dinner" /\ last' = "c:DInner"
          /\ IF chain[cur] # <<>> /\ chain[cur][1].linked
             THEN /\ cmsg' = chain[cur][1].id
                  /\ chain' = [chain EXCEPT ![cur] = Tail(@)]
                  /\ length' = length - 1
                  /\ Goto("c", "dpend")
             ELSE /\ cmsg' = 0 /\ Goto("c", "ddeact") /\ UNCHANGED <<chain, length>>
          /\ UNCHANGED <<pending, active, alist, pk, cur, rem, ppend, cops, dequeued, completed, lastRes>>

DDeact == /\ pc["c"] = "ddeact" /\ last' = "c:DDeact"
          /\ active' = [active EXCEPT ![cur] = FALSE]
          /\ IF StrandC THEN CRet(0) ELSE Goto("c", "drecheck") /\ UNCHANGED <<lastRes, cops, dequeued>>
          /\ UNCHANGED <<chain, pending, alist, length, pk, cur, cmsg, rem, ppend, completed>>

\* repaired code: if !sq.mailbox.IsEmpty() && sq.active.CompareAndSwap(false, true) { enqueue }
DRecheck == /\ pc["c"] = "drecheck" /\ last' = "c:DRecheck"
            /\ IF chain[cur] # <<>> /\ chain[cur][1].linked /\ ~active[cur]
               THEN active' = [active EXCEPT ![cur] = TRUE] /\ Goto("c", "aswap") /\ UNCHANGED <<lastRes, cops, dequeued>>
               ELSE CRet(0) /\ UNCHANGED active
            /\ UNCHANGED <<chain, pending, alist, length, pk, cur, cmsg, rem, ppend, completed>>

DPend == /\ pc["c"] = "dpend" /\ last' = "c:DPend"
         /\ LET r == pending[cur] - 1 IN
            /\ rem' = r
            /\ pending' = [pending EXCEPT ![cur] = IF r < 0 THEN 0 ELSE r]   \* remaining < 0: StoreInt64(&pending, 0)
            /\ Goto("c", IF r > 0 THEN "aswap" ELSE "fstore")
         /\ UNCHANGED <<chain, active, alist, length, pk, cur, cmsg, ppend, cops, dequeued, completed, lastRes>>

FStore == /\ pc["c"] = "fstore" /\ last' = "c:FStore"
          /\ active' = [active EXCEPT ![cur] = FALSE]
          /\ Goto("c", "frecheck")
          /\ UNCHANGED <<chain, pending, alist, length, pk, cur, cmsg, rem, ppend, cops, dequeued, completed, lastRes>>

FRecheck == /\ pc["c"] = "frecheck" /\ last' = "c:FRecheck"
            /\ IF pending[cur] > 0 /\ ~active[cur]
               THEN active' = [active EXCEPT ![cur] = TRUE] /\ Goto("c", "aswap") /\ UNCHANGED <<lastRes, cops, dequeued>>
               ELSE CRet(cmsg) /\ UNCHANGED active
            /\ UNCHANGED <<chain, pending, alist, length, pk, cur, cmsg, rem, ppend, completed>>

CallEmpty == /\ pc["c"] = "idle" /\ cops < COps /\ Goto("c", "empty") /\ last' = "c:CallEmpty"
             /\ UNCHANGED <<chain, pending, active, alist, length, pk, cur, cmsg, rem, ppend, cops, dequeued, completed, lastRes>>

Empty == /\ pc["c"] = "empty" /\ last' = "c:Empty"
         /\ CRet(IF length = 0 THEN -1 ELSE -2)
         /\ UNCHANGED <<chain, pending, active, alist, length, pk, cur, cmsg, rem, ppend, completed>>

Next == \/ \E p \in Producers : Call(p) \/ ISwap(p) \/ ILink(p) \/ Pend(p) \/ ActLoad(p) \/ Cas(p)
        \/ \E t \in Threads : ASwap(t) \/ ALink(t)
        \/ CallDeq \/ D0 \/ DInner \/ DDeact \/ DRecheck \/ DPend \/ FStore \/ FRecheck \/ CallEmpty \/ Empty

Spec == Init /\ [][Next]_vars

\* ------------------------------------------------------------------ properties
Ids(s) == {s[i] : i \in 1..Len(s)}
AllChained == UNION {{chain[s][i].id : i \in 1..Len(chain[s])} : s \in Senders}
Quiescent == \A t \in Threads : pc[t] \in {"idle", "done"}
ProducersDone == \A p \in Producers : pc[p] = "done"

Held == IF pc["c"] \notin {"idle", "d0", "dinner", "empty"} /\ cmsg > 0 THEN {cmsg} ELSE {}   \* popped, not yet returned
NoLossNoDup == /\ \A i, j \in 1..Len(dequeued) : i # j => dequeued[i] # dequeued[j]
               /\ Ids(dequeued) \cap AllChained = {}
               /\ completed \subseteq (Ids(dequeued) \cup AllChained \cup Held)

PerProducerFIFO == \A i, j \in 1..Len(dequeued) :
     (i < j /\ dequeued[i] \div 10 = dequeued[j] \div 10) => dequeued[i] < dequeued[j]

\* C02/C04: no stranded sub-queue. Whenever nothing is in flight, a sender that holds
\* messages is on the active list, so the next Dequeue calls will reach them.
NoStrand == Quiescent => \A s \in Senders : chain[s] # <<>> => \E i \in 1..Len(alist) : alist[i].snd = s

\* a sender is never on the active list twice
NoDoubleActive == \A i, j \in 1..Len(alist) : i # j => alist[i].snd # alist[j].snd
=============================================================================
