---- MODULE MC_Fair ----
EXTENDS Fair
View == <<chain, pending, active, alist, length, pc, pk, cur, cmsg, rem, ppend, cops, dequeued, completed, lastRes>>
Ranks == [p \in Producers |-> IF p = "p1" THEN 1 ELSE IF p = "p2" THEN 2 ELSE 3]
SharedSenders == [p \in Producers |-> IF p = "p3" THEN "s2" ELSE "s1"]
====
