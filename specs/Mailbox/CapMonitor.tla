----------------------------- MODULE CapMonitor -----------------------------
(* C04, capacity clause: "bounded variants never hold more than their capacity".       *)
(* On a call/return history of a real bounded mailbox with its single consumer: when an *)
(* Enqueue returns success, (successful Enqueues returned so far) - (messages returned  *)
(* by Dequeue so far) - (1 if a Dequeue is in flight) is a lower bound of what the      *)
(* mailbox holds; it must not exceed the documented capacity.                           *)
EXTENDS Integers, Sequences, TLC, Json
CONSTANT Cap
Trace == ndJsonDeserialize("trace.ndjson")
VARIABLES l, succ, deqItems, inflight
Init == l = 1 /\ succ = 0 /\ deqItems = 0 /\ inflight = 0
Step == /\ l <= Len(Trace) /\ l' = l + 1
        /\ LET e == Trace[l] IN
           CASE e.ev = "New" -> succ' = 0 /\ deqItems' = 0 /\ inflight' = 0
             [] e.ev = "call" /\ e.op = "deq" -> inflight' = 1 /\ UNCHANGED <<succ, deqItems>>
             [] e.ev = "ret" /\ e.op = "deq" ->
                  /\ inflight' = 0 /\ deqItems' = deqItems + (IF e.res # 0 THEN 1 ELSE 0) /\ UNCHANGED succ
             [] e.ev = "ret" /\ e.op = "enq" /\ e.res = 1 ->
                  /\ succ' = succ + 1 /\ UNCHANGED <<deqItems, inflight>>
                  /\ IF succ + 1 - deqItems - inflight <= Cap THEN TRUE
                     ELSE PrintT(<<"MISMATCH", l, succ + 1 - deqItems - inflight, Cap>>)
             [] OTHER -> UNCHANGED <<succ, deqItems, inflight>>
Spec == Init /\ [][Step]_<<l, succ, deqItems, inflight>>
=============================================================================
