----------------------------- MODULE CapMonitor -----------------------------
(* C04, capacity clause: "bounded variants never hold more than their capacity".       *)
(* On a call/return history of a real bounded mailbox: when an Enqueue returns success, *)
(* the number of successful Enqueues returned so far minus the number of Dequeue calls  *)
(* STARTED so far (each can have removed at most one message) is a lower bound of what  *)
(* the mailbox holds; it must not exceed the documented capacity.  In the fill phase    *)
(* of the "_fill" stress runs no Dequeue has started, so the bound is exact.            *)
EXTENDS Integers, Sequences, TLC, Json
CONSTANT Cap
Trace == ndJsonDeserialize("trace.ndjson")
VARIABLES l, succ, deqStarted
Init == l = 1 /\ succ = 0 /\ deqStarted = 0
Step == /\ l <= Len(Trace) /\ l' = l + 1
        /\ LET e == Trace[l] IN
           CASE e.ev = "New" -> succ' = 0 /\ deqStarted' = 0
             [] e.ev = "call" /\ e.op = "deq" -> deqStarted' = deqStarted + 1 /\ UNCHANGED succ
             [] e.ev = "ret" /\ e.op = "enq" /\ e.res = 1 ->
                  /\ succ' = succ + 1 /\ UNCHANGED deqStarted
                  /\ IF succ + 1 - deqStarted <= Cap THEN TRUE
                     ELSE PrintT(<<"MISMATCH", l, succ + 1 - deqStarted, Cap>>)
             [] OTHER -> UNCHANGED <<succ, deqStarted>>
Spec == Init /\ [][Step]_<<l, succ, deqStarted>>
=============================================================================
