SPECIFICATION Spec
CONSTANTS
  Producers = {"p1", "p2", "p3"}
  NMsgs = 2
  COps = 3
  Defects = {}
  RankOf <- Ranks
  SenderOf <- SharedSenders
VIEW View
INVARIANTS NoLossNoDup PerProducerFIFO NoStrand NoDoubleActive
CHECK_DEADLOCK FALSE
