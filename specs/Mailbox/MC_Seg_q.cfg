SPECIFICATION Spec
CONSTANTS
  Producers = {"p1", "p2"}
  NMsgs <- MsgsB
  RankOf <- Ranks
  SegSize = 2
  MaxSeg = 4
  COps = 4
  Defects = {}
INVARIANTS NoLoss NoDup PerProducerFIFO
PROPERTIES NotWedged
CHECK_DEADLOCK FALSE
