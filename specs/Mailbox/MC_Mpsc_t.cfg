SPECIFICATION Spec
CONSTANTS
  Producers = {"p1", "p2", "p3"}
  NMsgs = 2
  COps = 5
  Defects = {}
  RankOf <- Ranks
VIEW View
INVARIANTS NoLossNoDup PerProducerFIFO
PROPERTIES NeverEmptyWhileCompleted
CHECK_DEADLOCK FALSE
