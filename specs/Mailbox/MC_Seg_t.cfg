SPECIFICATION Spec
CONSTANTS
  Producers = {"p1", "p2", "p3"}
  NMsgs <- MsgsB
  RankOf <- Ranks
  SegSize = 2
  MaxSeg = 5
  COps = 6
  Defects = {}
INVARIANTS NoLoss NoDup PerProducerFIFO
PROPERTIES NotWedged
CHECK_DEADLOCK FALSE
