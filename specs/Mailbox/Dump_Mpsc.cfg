SPECIFICATION Spec
CONSTANTS
  Producers = {"p1", "p2"}
  NMsgs = 2
  COps = 3
  Defects = {"TransientEmpty"}
  RankOf <- Ranks
CHECK_DEADLOCK FALSE
