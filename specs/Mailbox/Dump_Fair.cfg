SPECIFICATION Spec
CONSTANTS
  Producers = {"p1", "p2"}
  NMsgs = 2
  COps = 2
  Defects = {}
  RankOf <- Ranks
  SenderOf <- SharedSenders
VIEW View
CHECK_DEADLOCK FALSE
