------------------------------ MODULE LinQueue ------------------------------
(* Property monitor for C04 (and the queue part of C03): is a recorded call/return   *)
(* history of a REAL Mailbox linearizable to its documented sequential queue?         *)
(* The trace holds lines {ev: "call"|"ret", t: thread, op: "enq"|"deq"|"empty",       *)
(* id, snd, prio, res} in the order they were logged ("New" separates histories).     *)
(* TLC searches for a linearization: each pending operation takes effect in one       *)
(* silent Lin step somewhere between its call and its return (just-in-time: only      *)
(* when the next line is a return), and the return must carry the result computed     *)
(* at that point.  `used` records relaxations of the documented contract that the     *)
(* linearization needed; a history end reached with used = {} is strictly             *)
(* linearizable.  At every history end <<"END", line, used>> is printed.              *)
EXTENDS Integers, Sequences, FiniteSets, TLC, Json

CONSTANTS Kind,    \* "fifo" | "fair" | "prio" | "stableprio"
          Cap,     \* capacity (0 = unbounded)
          Relax    \* relaxations the search may use: subset of {"TransientEmpty", "InflightFull"}

Trace == ndJsonDeserialize("trace.ndjson")

VARIABLES l,       \* next trace line
          q,       \* abstract queue: Seq([id, snd, prio]) in linearization (arrival) order
          pend,    \* set of pending operations [t, op, id, snd, prio, lin, res]
          used     \* relaxations used so far in this history

vars == <<l, q, pend, used>>

Init == l = 1 /\ q = <<>> /\ pend = {} /\ used = {}

Remove(s, i) == SubSeq(s, 1, i - 1) \o SubSeq(s, i + 1, Len(s))

\* which queue positions may a dequeue return, by documented order (lower prio value first)
Eligible ==
  CASE Kind = "fifo" -> {1}
    [] Kind = "fair" -> {i \in 1..Len(q) : \A j \in 1..(i - 1) : q[j].snd # q[i].snd}
    [] Kind = "prio" -> {i \in 1..Len(q) : \A j \in 1..Len(q) : q[i].prio <= q[j].prio}
    [] Kind = "stableprio" -> {i \in 1..Len(q) : /\ \A j \in 1..Len(q) : q[i].prio <= q[j].prio
                                                  /\ \A k \in 1..(i - 1) : q[k].prio # q[i].prio}

InflightEnq(p) == {o \in pend : o.op = "enq" /\ o.t # p.t}

NextIsRet == l <= Len(Trace) /\ Trace[l].ev = "ret"

Done(p, r) == pend' = (pend \ {p}) \cup {[p EXCEPT !.lin = TRUE, !.res = r]}

Lin(p) ==
  /\ NextIsRet /\ ~p.lin
  /\ UNCHANGED l
  /\ CASE p.op = "enq" ->
            \/ /\ (Cap = 0 \/ Len(q) < Cap)
               /\ q' = Append(q, [id |-> p.id, snd |-> p.snd, prio |-> p.prio])
               /\ Done(p, 1) /\ UNCHANGED used
            \/ /\ Cap > 0 /\ Len(q) >= Cap
               /\ Done(p, 0) /\ UNCHANGED <<q, used>>
            \/ /\ Cap > 0 /\ Len(q) < Cap /\ "InflightFull" \in Relax
               /\ Len(q) + Cardinality(InflightEnq(p)) >= Cap
               /\ Done(p, 0) /\ used' = used \cup {"InflightFull"} /\ UNCHANGED q
       [] p.op = "deq" ->
            \/ /\ q = <<>> /\ Done(p, 0) /\ UNCHANGED <<q, used>>
            \/ /\ q # <<>>
               /\ \E i \in Eligible : q' = Remove(q, i) /\ Done(p, q[i].id)
               /\ UNCHANGED used
            \/ /\ q # <<>> /\ "TransientEmpty" \in Relax /\ InflightEnq(p) # {}
               /\ Done(p, 0) /\ used' = used \cup {"TransientEmpty"} /\ UNCHANGED q
       [] p.op = "empty" ->
            \/ /\ Done(p, IF q = <<>> THEN 1 ELSE 0) /\ UNCHANGED <<q, used>>
            \/ /\ q # <<>> /\ "TransientEmpty" \in Relax /\ InflightEnq(p) # {}
               /\ Done(p, 1) /\ used' = used \cup {"TransientEmpty"} /\ UNCHANGED q

Line ==
  /\ l <= Len(Trace)
  /\ l' = l + 1
  /\ LET e == Trace[l] IN
     CASE e.ev = "call" ->
            /\ pend' = pend \cup {[t |-> e.t, op |-> e.op, id |-> e.id, snd |-> e.snd, prio |-> e.prio,
                                   lin |-> FALSE, res |-> 0]}
            /\ UNCHANGED <<q, used>>
       [] e.ev = "ret" ->
            /\ \E p \in pend : p.t = e.t /\ p.lin /\ p.res = e.res /\ pend' = pend \ {p}
            /\ UNCHANGED <<q, used>>
       [] e.ev = "New" ->
            /\ PrintT(<<"END", l, used>>)
            /\ q' = <<>> /\ pend' = {} /\ used' = {}

Next == Line \/ \E p \in pend : Lin(p)
Spec == Init /\ [][Next]_vars
=============================================================================
