SPECIFICATION Spec
CONSTANTS
  Producers = {"p1", "p2", "p3"}
  NMsgs <- MsgsA
  RankOf <- Ranks
  SegSize = 2
  MaxSeg = 6
  COps = 7
  Defects = {"Recycle", "ClearNext"}
INVARIANTS NoLoss NoDup PerProducerFIFO
PROPERTIES NotWedged
CHECK_DEADLOCK FALSE
