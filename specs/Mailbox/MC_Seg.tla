---- MODULE MC_Seg ----
EXTENDS Seg
Ranks == [p \in Producers |-> IF p = "p1" THEN 1 ELSE IF p = "p2" THEN 2 ELSE 3]
MsgsA == [p \in Producers |-> IF p = "p1" THEN 1 ELSE IF p = "p2" THEN 3 ELSE 2]
MsgsB == [p \in Producers |-> IF p = "p1" THEN 1 ELSE 2]
====
