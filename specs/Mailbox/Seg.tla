-------------------------------- MODULE Seg --------------------------------
(* actor/unbounded_segmented_mailbox.go: MPSC queue of fixed-size array segments.     *)
(* Producer steps = verifhook points:                                                 *)
(*   Load  (seg.enq.reserve: tail := m.tail.Load())                                   *)
(*   Add   (seg.enq.add:     idx := tail.writeIdx.Add(1) - 1)                         *)
(*   Store (seg.enq.store:   tail.data[idx].Store(value))            -- idx < SegSize *)
(*   Next / NewGet / NewReset1 (writeIdx := 0; seg.new.reset) / NewReset2 (rest of    *)
(*   the reset incl. the data wipe) / CasNext / CasTail               -- segment full *)
(* The single consumer's Dequeue is one step.                                         *)
(* Defect "Recycle" = the code before the fix: a drained segment is returned to       *)
(* segmentPool and handed out again by newSegment while a producer may still hold it  *)
(* from a stale tail load.  Defect "ClearNext" = the consumer clears the retired      *)
(* head's next pointer: a producer that still sees the retired segment as tail (the   *)
(* appender's tail CAS is pending) finds next = nil, appends a second successor and   *)
(* swings tail onto a chain the consumer can never reach.                             *)
EXTENDS Integers, Sequences, FiniteSets, TLC

CONSTANTS Producers, NMsgs, RankOf, SegSize, MaxSeg, COps, Defects

Segs == 1..MaxSeg
VARIABLES widx, didx, nxt, data,      \* per segment
          head, tail, pool, fresh,     \* pool: Seq of segment ids (LIFO), fresh: next never-used id
          pc, pk, tl, ix, ns,          \* per producer: pc, message index, loaded tail, reserved idx, new segment
          cops, dequeued, completed, lastRes

vars == <<widx, didx, nxt, data, head, tail, pool, fresh, pc, pk, tl, ix, ns, cops, dequeued, completed, lastRes>>
Id(p, k) == RankOf[p] * 10 + k
Recycle == "Recycle" \in Defects
ClearNext == "ClearNext" \in Defects   \* the consumer stores nil into the retired head's next pointer
Empty == [i \in 0..(SegSize - 1) |-> 0]

Init == /\ widx = [s \in Segs |-> 0] /\ didx = [s \in Segs |-> 0] /\ nxt = [s \in Segs |-> 0]
        /\ data = [s \in Segs |-> Empty]
        /\ head = 1 /\ tail = 1 /\ pool = <<>> /\ fresh = 2
        /\ pc = [p \in Producers |-> "idle"] /\ pk = [p \in Producers |-> 1]
        /\ tl = [p \in Producers |-> 0] /\ ix = [p \in Producers |-> 0] /\ ns = [p \in Producers |-> 0]
        /\ cops = 0 /\ dequeued = <<>> /\ completed = {} /\ lastRes = 0

Go(p, l) == pc' = [pc EXCEPT ![p] = l]

Call(p) == /\ pc[p] = "idle" /\ pk[p] <= NMsgs[p] /\ Go(p, "load")
           /\ UNCHANGED <<widx, didx, nxt, data, head, tail, pool, fresh, pk, tl, ix, ns, cops, dequeued, completed, lastRes>>
Load(p) == /\ pc[p] = "load" /\ tl' = [tl EXCEPT ![p] = tail] /\ Go(p, "add")
           /\ UNCHANGED <<widx, didx, nxt, data, head, tail, pool, fresh, pk, ix, ns, cops, dequeued, completed, lastRes>>
Add(p) == /\ pc[p] = "add"
          /\ ix' = [ix EXCEPT ![p] = widx[tl[p]]]
          /\ widx' = [widx EXCEPT ![tl[p]] = @ + 1]
          /\ Go(p, IF widx[tl[p]] < SegSize THEN "store" ELSE "next")
          /\ UNCHANGED <<didx, nxt, data, head, tail, pool, fresh, pk, tl, ns, cops, dequeued, completed, lastRes>>
Store(p) == /\ pc[p] = "store"
            /\ data' = [data EXCEPT ![tl[p]][ix[p]] = Id(p, pk[p])]
            /\ completed' = completed \cup {Id(p, pk[p])}
            /\ pk' = [pk EXCEPT ![p] = @ + 1]
            /\ Go(p, IF pk[p] = NMsgs[p] THEN "done" ELSE "idle")
            /\ UNCHANGED <<widx, didx, nxt, head, tail, pool, fresh, tl, ix, ns, cops, dequeued, lastRes>>
Next_(p) == /\ pc[p] = "next"
            /\ IF nxt[tl[p]] = 0 THEN Go(p, "newget") /\ UNCHANGED tail
               ELSE /\ tail' = (IF tail = tl[p] THEN nxt[tl[p]] ELSE tail) /\ Go(p, "load")   \* help move the tail
            /\ UNCHANGED <<widx, didx, nxt, data, head, pool, fresh, pk, tl, ix, ns, cops, dequeued, completed, lastRes>>
NewGet(p) == /\ pc[p] = "newget"
             /\ IF pool # <<>>
                THEN ns' = [ns EXCEPT ![p] = pool[Len(pool)]] /\ pool' = SubSeq(pool, 1, Len(pool) - 1) /\ UNCHANGED fresh
                ELSE fresh <= MaxSeg /\ ns' = [ns EXCEPT ![p] = fresh] /\ fresh' = fresh + 1 /\ UNCHANGED pool
             /\ Go(p, "newreset1")
             /\ UNCHANGED <<widx, didx, nxt, data, head, tail, pk, tl, ix, cops, dequeued, completed, lastRes>>
NewReset1(p) == /\ pc[p] = "newreset1" /\ widx' = [widx EXCEPT ![ns[p]] = 0] /\ Go(p, "newreset2")
                /\ UNCHANGED <<didx, nxt, data, head, tail, pool, fresh, pk, tl, ix, ns, cops, dequeued, completed, lastRes>>
NewReset2(p) == /\ pc[p] = "newreset2"
                /\ didx' = [didx EXCEPT ![ns[p]] = 0] /\ nxt' = [nxt EXCEPT ![ns[p]] = 0]
                /\ data' = [data EXCEPT ![ns[p]] = Empty] /\ Go(p, "casnext")
                /\ UNCHANGED <<widx, head, tail, pool, fresh, pk, tl, ix, ns, cops, dequeued, completed, lastRes>>
CasNext(p) == /\ pc[p] = "casnext"
              /\ IF nxt[tl[p]] = 0 THEN nxt' = [nxt EXCEPT ![tl[p]] = ns[p]] /\ Go(p, "castail")
                                   ELSE UNCHANGED nxt /\ Go(p, "load")
              /\ UNCHANGED <<widx, didx, data, head, tail, pool, fresh, pk, tl, ix, ns, cops, dequeued, completed, lastRes>>
CasTail(p) == /\ pc[p] = "castail"
              /\ tail' = (IF tail = tl[p] THEN ns[p] ELSE tail) /\ Go(p, "load")
              /\ UNCHANGED <<widx, didx, nxt, data, head, pool, fresh, pk, tl, ix, ns, cops, dequeued, completed, lastRes>>

Min(a, b) == IF a < b THEN a ELSE b
\* Dequeue: walk from head; returns <<result, head', didx', data', nxt', pool'>>
RECURSIVE DeqFrom(_, _, _, _, _)
DeqFrom(s, dx, dt, nx, pl) ==
  LET enq == Min(widx[s], SegSize) IN
  IF dx[s] < enq
  THEN IF dt[s][dx[s]] = 0 THEN <<0, s, dx, dt, nx, pl>>                     \* not yet published: treat as empty
       ELSE <<dt[s][dx[s]], s, [dx EXCEPT ![s] = @ + 1], [dt EXCEPT ![s][dx[s]] = 0], nx, pl>>
  ELSE IF nx[s] = 0 THEN <<0, s, dx, dt, nx, pl>>
       ELSE DeqFrom(nx[s], dx, dt, IF ClearNext THEN [nx EXCEPT ![s] = 0] ELSE nx, IF Recycle THEN Append(pl, s) ELSE pl)

Deq == /\ cops < COps
       /\ LET r == DeqFrom(head, didx, data, nxt, pool) IN
          /\ lastRes' = r[1] /\ head' = r[2] /\ didx' = r[3] /\ data' = r[4] /\ nxt' = r[5] /\ pool' = r[6]
          /\ dequeued' = IF r[1] # 0 THEN Append(dequeued, r[1]) ELSE dequeued
       /\ cops' = cops + 1
       /\ UNCHANGED <<widx, tail, fresh, pc, pk, tl, ix, ns, completed>>

Next == \/ \E p \in Producers : Call(p) \/ Load(p) \/ Add(p) \/ Store(p) \/ Next_(p) \/ NewGet(p) \/ NewReset1(p)
                                \/ NewReset2(p) \/ CasNext(p) \/ CasTail(p)
        \/ Deq
Spec == Init /\ [][Next]_vars

Ids(s) == {s[i] : i \in 1..Len(s)}
Stored == UNION {{data[s][i] : i \in 0..(SegSize - 1)} : s \in Segs} \ {0}
\* every completed enqueue is either dequeued or still stored in some slot (never erased)
NoLoss == completed \subseteq (Ids(dequeued) \cup Stored)
NoDup == \A i, j \in 1..Len(dequeued) : i # j => dequeued[i] # dequeued[j]
PerProducerFIFO == \A i, j \in 1..Len(dequeued) :
     (i < j /\ dequeued[i] \div 10 = dequeued[j] \div 10) => dequeued[i] < dequeued[j]
\* the consumer is never wedged: when all producers are done, a Dequeue on a non-drained mailbox returns a message
AllDone == \A p \in Producers : pc[p] = "done"
NotWedged == [][ (AllDone /\ cops' = cops + 1 /\ completed # Ids(dequeued)) => lastRes' # 0 ]_vars
=============================================================================
