SPECIFICATION Spec
CONSTANTS
  Kind = "fifo"
  Cap = 0
  Relax = {"TransientEmpty"}
CHECK_DEADLOCK FALSE
