------------------------------- MODULE Mpsc -------------------------------
(* actor/unbounded_mailbox.go — the default mailbox: Vyukov-style intrusive MPSC     *)
(* list.  Actions are the atomic steps between verifhook points:                     *)
(*   Call(p)   producer enters Enqueue (value.next := nil is private)                *)
(*   Swap(p)   prev := SWAP(tail, node)            -- hook mpsc.enq.swap             *)
(*   Link(p)   prev.next := node ; return          -- hook mpsc.enq.link             *)
(*   CallC / Deq / Empty: the single consumer's Dequeue / IsEmpty are one atomic     *)
(*   step each (head is consumer-private, the only racy read is head.next).          *)
(* `chain` is the list after the sentinel in SWAP order; chain[i].linked says the    *)
(* predecessor's next pointer to node i has been stored.  The linearization point of *)
(* Enqueue is the SWAP, so the abstract queue is the id sequence of `chain`.         *)
EXTENDS Integers, Sequences, FiniteSets, TLC

CONSTANTS Producers,   \* set of producer names (strings)
          NMsgs,       \* messages per producer
          COps,        \* number of consumer operations
          Defects      \* subset of {"TransientEmpty"}: deviations of the code as it is

VARIABLES chain,       \* Seq([id, linked])
          ppc,         \* [Producers -> {"idle","swap","link","done"}]
          pk,          \* [Producers -> 1..NMsgs+1]  next message index
          cpc,         \* consumer pc: "idle" | "deq" | "empty" | "done"
          cops,        \* consumer operations performed
          completed,   \* ids whose Enqueue returned
          dequeued,    \* Seq of ids returned by Dequeue
          lastRes,     \* result of the consumer's last operation (id, 0 = nil, -1 = empty TRUE, -2 = empty FALSE)
          last         \* "thread:action" of the last step (output only)

vars == <<chain, ppc, pk, cpc, cops, completed, dequeued, lastRes, last>>

\* message ids: producer rank * 10 + k ; ranks are given by the constant RankOf
CONSTANT RankOf     \* [Producers -> 1..9]
Id(p, k) == RankOf[p] * 10 + k

Init == /\ chain = <<>>
        /\ ppc = [p \in Producers |-> "idle"]
        /\ pk = [p \in Producers |-> 1]
        /\ cpc = "idle" /\ cops = 0
        /\ completed = {} /\ dequeued = <<>> /\ lastRes = 0
        /\ last = "init"

Call(p) == /\ ppc[p] = "idle" /\ pk[p] <= NMsgs
           /\ ppc' = [ppc EXCEPT ![p] = "swap"]
           /\ last' = p \o ":call"
           /\ UNCHANGED <<chain, pk, cpc, cops, completed, dequeued, lastRes>>

Swap(p) == /\ ppc[p] = "swap"
           /\ chain' = Append(chain, [id |-> Id(p, pk[p]), linked |-> FALSE])
           /\ ppc' = [ppc EXCEPT ![p] = "link"]
           /\ last' = p \o ":swap"
           /\ UNCHANGED <<pk, cpc, cops, completed, dequeued, lastRes>>

Pos(id) == CHOOSE i \in 1..Len(chain) : chain[i].id = id

Link(p) == /\ ppc[p] = "link"
           /\ LET id == Id(p, pk[p]) IN
              /\ chain' = IF \E i \in 1..Len(chain) : chain[i].id = id
                          THEN [chain EXCEPT ![Pos(id)].linked = TRUE]
                          ELSE chain   \* unreachable: a node cannot be dequeued before it is linked
              /\ completed' = completed \cup {id}
           /\ pk' = [pk EXCEPT ![p] = @ + 1]
           /\ ppc' = [ppc EXCEPT ![p] = IF pk[p] = NMsgs THEN "done" ELSE "idle"]
           /\ last' = p \o ":link"
           /\ UNCHANGED <<cpc, cops, dequeued, lastRes>>

CallDeq == /\ cpc = "idle" /\ cops < COps
           /\ cpc' = "deq" /\ last' = "c:calldeq"
           /\ UNCHANGED <<chain, ppc, pk, cops, completed, dequeued, lastRes>>

CallEmpty == /\ cpc = "idle" /\ cops < COps
             /\ cpc' = "empty" /\ last' = "c:callempty"
             /\ UNCHANGED <<chain, ppc, pk, cops, completed, dequeued, lastRes>>

HeadLinked == chain # <<>> /\ chain[1].linked

\* the code: next := head.next ; if next == nil return nil
Deq == /\ cpc = "deq"
       /\ \/ /\ HeadLinked
             /\ dequeued' = Append(dequeued, chain[1].id)
             /\ lastRes' = chain[1].id
             /\ chain' = Tail(chain)
          \/ /\ chain = <<>>
             /\ lastRes' = 0 /\ UNCHANGED <<chain, dequeued>>
          \/ /\ chain # <<>> /\ ~chain[1].linked        \* SWAP done, link not yet stored
             /\ "TransientEmpty" \in Defects            \* as-is code reports "empty" here
             /\ lastRes' = 0 /\ UNCHANGED <<chain, dequeued>>
       /\ cpc' = "idle" /\ cops' = cops + 1 /\ last' = "c:deq"
       /\ UNCHANGED <<ppc, pk, completed>>

Empty == /\ cpc = "empty"
         /\ \/ HeadLinked /\ lastRes' = -2
            \/ chain = <<>> /\ lastRes' = -1
            \/ chain # <<>> /\ ~chain[1].linked /\ "TransientEmpty" \in Defects /\ lastRes' = -1
         /\ cpc' = "idle" /\ cops' = cops + 1 /\ last' = "c:empty"
         /\ UNCHANGED <<chain, ppc, pk, completed, dequeued>>

Next == \/ \E p \in Producers : Call(p) \/ Swap(p) \/ Link(p)
        \/ CallDeq \/ CallEmpty \/ Deq \/ Empty

Spec == Init /\ [][Next]_vars

\* ---- properties -----------------------------------------------------------------
Ids(s) == {s[i] : i \in 1..Len(s)}
ChainIds == {chain[i].id : i \in 1..Len(chain)}

\* every swapped message is either still chained or was dequeued, exactly once
NoLossNoDup == /\ \A i, j \in 1..Len(dequeued) : i # j => dequeued[i] # dequeued[j]
               /\ Ids(dequeued) \cap ChainIds = {}
               /\ completed \subseteq (Ids(dequeued) \cup ChainIds)

\* per-producer FIFO of the dequeue order
PerProducerFIFO ==
  \A i, j \in 1..Len(dequeued) :
     (i < j /\ dequeued[i] \div 10 = dequeued[j] \div 10) => dequeued[i] < dequeued[j]

\* strict C04 clause: "never reports empty while a completed enqueue has not been dequeued"
NeverEmptyWhileCompleted ==
  [][ (last' \in {"c:deq", "c:empty"} /\ lastRes' \in {0, -1}) => (completed \ Ids(dequeued)) = {} ]_vars

\* a node that can be dequeued has been linked (sanity of the transcription)
LinkSanity == \A i \in 1..Len(chain) : chain[i].linked => TRUE
=============================================================================
