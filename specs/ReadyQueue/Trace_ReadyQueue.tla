-------------------------- MODULE Trace_ReadyQueue --------------------------
(* Conformance: re-executes ReadyQueue.tla along the step log of a puppet replay on    *)
(* the REAL ready queue.  Each line names the action and the thread and carries the    *)
(* projection of the real object read after the step: g = global ring content, l =     *)
(* local ring contents, gc = globalCount, la = sizeAtomic per ring, pk = parked, cl =   *)
(* closed, wk = workers the model expects to have been signalled.  A line that the     *)
(* spec cannot follow is drift (reported, never a verdict).                            *)
(* Signalled workers leave cond.Wait on their own in the real run (before the model's  *)
(* Wake step), so the fields a Wake changes (global ring content, parked) are compared *)
(* only in states without signalled workers.                                           *)
EXTENDS MC_ReadyQueue, Json

Trace == ndJsonDeserialize("trace.ndjson")
VARIABLE l
tvars == <<vars, l>>

TInit == l = 1 /\ Init

ResetAll ==
  /\ lbuf' = [w \in Workers |-> [s \in 1..LCap |-> 0]]
  /\ lhead' = [w \in Workers |-> 0] /\ ltail' = [w \in Workers |-> 0] /\ lsize' = [w \in Workers |-> 0]
  /\ lsa' = [w \in Workers |-> 0] /\ lmu' = [w \in Workers |-> ""]
  /\ gbuf' = [s \in 1..GCap0 |-> 0] /\ ghead' = 0 /\ gtail' = 0 /\ gsize' = 0 /\ gcount' = 0
  /\ pmu' = "" /\ parked' = 0 /\ closed' = FALSE /\ waitq' = <<>> /\ woken' = {}
  /\ pc' = [t \in Threads |-> "idle"]
  /\ item' = [t \in Threads |-> 0]
  /\ vic' = [w \in Workers |-> 0]
  /\ pk' = [p \in Pushers |-> 1]
  /\ lk' = [w \in Workers |-> 0]
  /\ issued' = {} /\ taken' = {} /\ dups' = {}

Act(a, t) ==
  CASE a = "TakeCall" -> TakeCall(t) [] a = "LPopProbe" -> LPopProbe(t) [] a = "LPopLock" -> LPopLock(t)
    [] a = "LPopStore" -> LPopStore(t) [] a = "GPopProbe" -> GPopProbe(t) [] a = "GPopLock" -> GPopLock(t)
    [] a = "GPopStore" -> GPopStore(t) [] a = "StealProbe" -> StealProbe(t) [] a = "StealLock1" -> StealLock1(t)
    [] a = "StealLock2" -> StealLock2(t) [] a = "StealStore1" -> StealStore1(t) [] a = "StealStore2" -> StealStore2(t)
    [] a = "ParkLock" -> ParkLock(t) [] a = "ParkStore" -> ParkStore(t) [] a = "ParkWait" -> ParkWait(t)
    [] a = "Wake" -> Wake(t) [] a = "LPushCall" -> LPushCall(t) [] a = "LPushLock" -> LPushLock(t)
    [] a = "LPushStore" -> LPushStore(t) [] a = "PushCall" -> PushCall(t) [] a = "PushLock" -> PushLock(t)
    [] a = "PushStore" -> PushStore(t) [] a = "CloseCall" -> CloseCall [] a = "CloseLock" -> CloseLock
    [] OTHER -> FALSE

SeqOf(f, n) == [i \in 1..n |-> f[i]]
Match(e) ==
  /\ closed' = e.cl
  /\ gcount' = e.gc
  /\ \A w \in Workers : lsa'[w] = e.la[WIdx(w)]
  /\ \A w \in Workers : /\ lsize'[w] = Len(e.l[WIdx(w)])
                        /\ \A i \in 1..lsize'[w] : lbuf'[w][((lhead'[w] + i - 1) % LCap) + 1] = e.l[WIdx(w)][i]
  /\ woken' = {w \in Workers : \E i \in 1..Len(e.wk) : e.wk[i] = w}
  /\ (woken' = {}) => /\ parked' = e.pk
                      /\ gsize' = Len(e.g)
                      /\ \A i \in 1..gsize' : gbuf'[((ghead' + i - 1) % Len(gbuf')) + 1] = e.g[i]

TNext ==
  /\ l <= Len(Trace)
  /\ l' = l + 1
  /\ LET e == Trace[l] IN
     IF e.a = "New" THEN ResetAll
     ELSE IF e.a = "Drift" THEN UNCHANGED vars
     ELSE Act(e.a, e.t) /\ Match(e)

TSpec == TInit /\ [][TNext]_tvars
=============================================================================
