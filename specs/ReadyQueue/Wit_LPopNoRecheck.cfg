SPECIFICATION Spec
CONSTANTS
  WorkerSeq <- W2
  PusherSeq <- P1
  NPush = 1
  LPushOf <- L20
  LCap = 2
  GCap0 = 2
  DoClose = TRUE
  Handoff = TRUE
  SignalFIFO = TRUE
  Defects = {"LPopNoRecheck"}
INVARIANTS NotHidden
CHECK_DEADLOCK FALSE
