---------------------------- MODULE Trace_RQMon ----------------------------
(* Property monitor for C05 on recorded executions of the REAL ready queue.  It knows  *)
(* nothing about rings, locks or condition variables, only the contract:               *)
(*   - every tag handed to push / pushLocal ("issue") is returned by exactly one take  *)
(*     ("take"), or is still queued when the queue is closed and is then returned      *)
(*     exactly once by draining ("drain"); nothing else is ever returned               *)
(*   - take reports "closed" ("exit") only after close was called                      *)
(*   - when nothing is running any more and the queue is open ("quiesce": ws = workers *)
(*     blocked inside take, n = the queue's parked counter, g / ls = global / local    *)
(*     ring lengths, run = threads that neither finished nor block inside take), no    *)
(*     worker sleeps while work is queued, nobody is stuck, and parked counts exactly  *)
(*     the sleeping workers                                                            *)
(*   - when no operation is in flight but some worker is inside its turn ("rest",    *)
(*     puppet replays only), no worker sleeps while the GLOBAL ring holds work         *)
(*   - no operation of the queue panics ("panic")                                      *)
(*   - after close every worker leaves take ("joined": ws = workers that did not)      *)
(* Every line is consumed; violations are printed as <<"MISMATCH", line, kind, x>>.    *)
EXTENDS Integers, Sequences, FiniteSets, TLC, Json

Trace == ndJsonDeserialize("trace.ndjson")

VARIABLES l, issued, taken, drained, closeCalled, bad

vars == <<l, issued, taken, drained, closeCalled, bad>>

Init == l = 1 /\ issued = {} /\ taken = {} /\ drained = {} /\ closeCalled = FALSE /\ bad = FALSE

Rng(s) == {s[i] : i \in 1..Len(s)}
Report(kind, x) == PrintT(<<"MISMATCH", l, kind, x>>)
\* a history in which threads were stuck cannot be drained; do not report its items as lost on top
Check(ok, kind, x) == IF ok THEN bad' = bad ELSE Report(kind, x) /\ bad' = TRUE

EndChecks == IF bad THEN TRUE
             ELSE IF issued = taken \cup drained THEN TRUE
             ELSE Report("lost", issued \ (taken \cup drained))

Step ==
  /\ l <= Len(Trace)
  /\ l' = l + 1
  /\ LET e == Trace[l] IN
     CASE e.ev = "New" \/ e.ev = "End" ->
            /\ (l = 1 \/ EndChecks)
            /\ issued' = {} /\ taken' = {} /\ drained' = {} /\ closeCalled' = FALSE /\ bad' = FALSE
       [] e.ev = "issue" ->
            /\ issued' = issued \cup {e.id}
            /\ Check(e.id \notin issued, "harness-reissued", e.id)
            /\ UNCHANGED <<taken, drained, closeCalled>>
       [] e.ev = "take" ->
            /\ taken' = taken \cup {e.id}
            /\ Check(e.id \in issued /\ e.id \notin taken /\ e.id \notin drained,
                     IF e.id \notin issued THEN "phantom" ELSE "duplicate", e.id)
            /\ UNCHANGED <<issued, drained, closeCalled>>
       [] e.ev = "drain" ->
            /\ drained' = drained \cup {e.id}
            /\ Check(e.id \in issued /\ e.id \notin taken /\ e.id \notin drained,
                     IF e.id \notin issued THEN "phantom" ELSE "duplicate", e.id)
            /\ UNCHANGED <<issued, taken, closeCalled>>
       [] e.ev = "exit" ->
            /\ Check(closeCalled, "exit-before-close", e.t)
            /\ UNCHANGED <<issued, taken, drained, closeCalled>>
       [] e.ev = "close" ->
            /\ closeCalled' = TRUE /\ UNCHANGED <<issued, taken, drained, bad>>
       [] e.ev = "quiesce" ->
            /\ LET queued == e.g > 0 \/ \E i \in 1..Len(e.ls) : e.ls[i] > 0 IN
               IF e.run # <<>> THEN Check(FALSE, "stuck", e.run)
               ELSE IF closeCalled THEN Check(e.ws = <<>>, "blocked-after-close", e.ws)
               ELSE IF e.ws # <<>> /\ queued THEN Check(FALSE, "parked-with-work", <<e.ws, e.g, e.ls>>)
               ELSE Check(e.n = Len(e.ws), "parked-count", <<e.n, e.ws>>)
            /\ UNCHANGED <<issued, taken, drained, closeCalled>>
       [] e.ev = "rest" ->
            /\ IF e.ws # <<>> /\ e.g > 0 /\ ~closeCalled THEN Check(FALSE, "parked-with-global-work", <<e.ws, e.g>>)
               ELSE Check(closeCalled \/ e.n = Len(e.ws), "parked-count", <<e.n, e.ws>>)
            /\ UNCHANGED <<issued, taken, drained, closeCalled>>
       [] e.ev = "panic" ->
            /\ Check(FALSE, "panic", <<e.t, e.run>>)
            /\ UNCHANGED <<issued, taken, drained, closeCalled>>
       [] e.ev = "joined" ->
            /\ Check(e.ws = <<>>, "not-exited-after-close", e.ws)
            /\ UNCHANGED <<issued, taken, drained, closeCalled>>
       [] OTHER -> UNCHANGED <<issued, taken, drained, closeCalled, bad>>

Spec == Init /\ [][Step]_vars
=============================================================================
