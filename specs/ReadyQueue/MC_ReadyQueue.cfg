SPECIFICATION Spec
CONSTANTS
  WorkerSeq <- W2
  PusherSeq <- P1
  NPush = 1
  LPushOf <- L10
  LCap = 2
  GCap0 = 2
  DoClose = TRUE
  Handoff = FALSE
  SignalFIFO = FALSE
  Defects = {}
INVARIANTS Conservation RingOK MirrorOK ParkedOK ClosedNoWaiters NoStuck NoSleepWhileGlobalWork NotHidden ThiefEmpty
PROPERTIES GlobalFIFO
CHECK_DEADLOCK TRUE
