SPECIFICATION Spec
CONSTANTS
  WorkerSeq <- W2
  PusherSeq <- P0
  NPush = 1
  LPushOf <- L40
  LCap = 2
  GCap0 = 1
  DoClose = FALSE
  Handoff = FALSE
  SignalFIFO = FALSE
  Defects = {}
INVARIANTS Conservation RingOK MirrorOK ParkedOK ClosedNoWaiters NoStuck NoSleepWhileGlobalWork NotHidden ThiefEmpty
PROPERTIES GlobalFIFO
CHECK_DEADLOCK TRUE
