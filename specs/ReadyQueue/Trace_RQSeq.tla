---------------------------- MODULE Trace_RQSeq ----------------------------
(* Conformance of the REAL ready queue (real ring capacities) with RQSeq.tla on the    *)
(* operation log of sequential macro-operation replays: every take must return the     *)
(* tags the model returns, in the same order (FIFO of both ring kinds, across spill,   *)
(* grow and stealHalf), and ring lengths / global capacity must agree after each       *)
(* operation.  A rejected line is drift (ordering is not part of C05; loss and         *)
(* duplication are decided by Trace_RQMon on the event log of the same run).           *)
EXTENDS RQSeq, Json

Trace == ndJsonDeserialize("trace.ndjson")
VARIABLE l
TInit == l = 1 /\ Init

SameShape(e) == /\ Len(glob') = e.gl /\ gcap' = e.gcap
                /\ \A w \in W : Len(loc'[w]) = e.ll[w + 1]

TNext ==
  /\ l <= Len(Trace)
  /\ l' = l + 1
  /\ LET e == Trace[l] IN
     CASE e.op = "New" -> /\ loc' = [w \in W |-> <<>>] /\ glob' = <<>> /\ gcap' = GCap0 /\ closed' = FALSE
                          /\ nextId' = 1 /\ hist' = <<>>
       [] e.op = "push" -> Push(Len(e.ids)) /\ e.ids = Fresh(Len(e.ids)) /\ SameShape(e)
       [] e.op = "lpush" -> LPush(e.w, Len(e.ids)) /\ e.ids = Fresh(Len(e.ids)) /\ SameShape(e)
       [] e.op = "take" ->
            IF e.exit THEN TakeClosed(e.w) /\ e.ids = <<>> /\ SameShape(e)
            ELSE /\ Take(e.w, e.n) /\ SameShape(e)
                 /\ e.ids = TakeMany([loc |-> loc, glob |-> glob], e.w, e.n).ids
       [] e.op = "close" -> Close /\ SameShape(e)
       [] OTHER -> FALSE

TSpec == TInit /\ [][TNext]_<<vars, l>>
=============================================================================
