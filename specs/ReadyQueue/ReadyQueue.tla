----------------------------- MODULE ReadyQueue -----------------------------
(* actor/ready_queue.go (+ worker.go / dispatcher.go call sites) at atomic-step        *)
(* granularity.  One local ring per worker (mutex lmu[w], lock-free mirror lsa[w] =    *)
(* sizeAtomic), one global ring that doubles on overflow (mutex pmu = parkMu, lock-    *)
(* free mirror gcount = globalCount), the parked counter and the condition variable    *)
(* (waitq = goroutines inside cond.Wait, woken = signalled goroutines that still have  *)
(* to re-acquire parkMu inside cond.Wait), closed.                                     *)
(*                                                                                     *)
(* Granularity.  Data guarded by a mutex is invisible to other threads, so a critical  *)
(* section is cut only where something becomes visible: at the Lock (it can block), at *)
(* the atomic Store of the lock-free mirror, and at the Unlock (merged with the Store  *)
(* step because nothing else happens in between).  Every action below is the code      *)
(* between two verifhook points; the action name <-> hook point table:                 *)
(*   TakeCall/LPushCall/PushCall/CloseCall   driver-side call of take / pushLocal /    *)
(*                                           push / close                              *)
(*   LPopProbe  rq.lpop.probe   popFront: sizeAtomic.Load                              *)
(*   LPopLock   rq.lpop.lock    popFront: mu.Lock, size==0 check, ring pop             *)
(*   LPopStore  rq.lpop.store   popFront: sizeAtomic.Store, Unlock, return             *)
(*   GPopProbe  rq.gpop.probe   popGlobal: globalCount.Load                            *)
(*   GPopLock   rq.gpop.lock    popGlobal: parkMu.Lock, global.pop                     *)
(*   GPopStore  rq.gpop.store   popGlobal: globalCount.Store, Unlock, return           *)
(*   StealProbe rq.steal.probe  trySteal: victim.sizeAtomic.Load (one per victim)      *)
(*   StealLock1 rq.steal.lock1  stealHalf: first.mu.Lock                               *)
(*   StealLock2 rq.steal.lock2  stealHalf: second.mu.Lock, size==0 check, transfer     *)
(*   StealStore1 rq.steal.store1  q.sizeAtomic.Store                                   *)
(*   StealStore2 rq.steal.store2  dst.sizeAtomic.Store, both Unlocks, return           *)
(*   ParkLock   rq.park.lock    parkAndTake: parkMu.Lock + first loop iteration        *)
(*   ParkStore  rq.park.store   parkAndTake: globalCount.Store, Unlock, return         *)
(*   ParkWait   rq.park.wait    cond.Wait: enqueue on the condvar, Unlock, sleep       *)
(*   Wake       (runtime)       cond.Wait re-acquires parkMu, parked--, next iteration *)
(*   LPushLock  rq.lpush.lock   pushBack: mu.Lock, full check, ring write              *)
(*   LPushStore rq.lpush.store  pushBack: sizeAtomic.Store, Unlock                     *)
(*   PushLock   rq.push.lock    push: parkMu.Lock, global.push (grow)                  *)
(*   PushStore  rq.push.store   push: globalCount.Store, Signal if parked>0, Unlock    *)
(*   CloseLock  rq.close.lock   close: Lock, closed=true, Broadcast, Unlock            *)
(*                                                                                     *)
(* Handoff = TRUE restricts the model to schedules in which a signalled waiter         *)
(* re-acquires parkMu before anybody else (the only schedules the puppet scheduler can *)
(* reproduce: the re-acquisition happens inside the Go runtime and cannot be gated);   *)
(* the exhaustive checks use Handoff = FALSE.  SignalFIFO = TRUE makes Signal wake the *)
(* longest waiter (what Go's notifyList does), FALSE any waiter.                       *)
(*                                                                                     *)
(* Defects (design-level mutation: each must break an invariant):                      *)
(*   "NoSignal"       push does not signal a parked worker                             *)
(*   "StealNoAdvance" stealHalf copies the extra items without removing them           *)
(*   "ParkedLeak"     parked is not decremented after a wake-up                        *)
(*   "ParkNoRecheck"  parkAndTake waits without re-checking global.size under parkMu   *)
(*   "LockQFirst"     stealHalf locks victim then thief instead of the address order   *)
(*   "SignalOnFirstOnly" push signals only on the empty -> non-empty transition of the *)
(*                    global ring (a burst of two pushes wakes one of two sleepers)    *)
(*   "LPopNoRecheck"  popFront trusts the lock-free probe and does not re-check        *)
(*                    size == 0 under the mutex (a thief may have emptied the ring)    *)
EXTENDS Integers, Sequences, FiniteSets, TLC

CONSTANTS WorkerSeq,   \* <<"w0","w1",...>> worker names in worker-id order
          PusherSeq,   \* <<"p1",...>> external producers (dispatcher.schedule callers)
          NPush,       \* pushes per external producer
          LPushOf,     \* <<n0,n1,...>> pushLocal calls of each worker (worker.reschedule)
          LCap,        \* localQueueCap
          GCap0,       \* globalQueueInitialCap
          DoClose,     \* BOOLEAN: a closer thread calls close once
          Handoff, SignalFIFO, Defects

NW == Len(WorkerSeq)
Workers == {WorkerSeq[i] : i \in 1..NW}
Pushers == {PusherSeq[i] : i \in 1..Len(PusherSeq)}
Threads == Workers \cup Pushers \cup {"c"}
WIdxF == [w \in Workers |-> CHOOSE i \in 1..NW : WorkerSeq[i] = w]      \* constant tables (TLC evaluates them once)
PIdxF == [p \in Pushers |-> CHOOSE i \in 1..Len(PusherSeq) : PusherSeq[i] = p]
WIdx(w) == WIdxF[w]                                        \* worker id + 1
PIdx(p) == PIdxF[p]
PId(p, k) == PIdx(p) * 10 + k                              \* tags of externally pushed items
LId(w, k) == 100 + (WIdx(w) - 1) * 10 + k                  \* tags of locally pushed items
Victim(w, i) == WorkerSeq[((WIdx(w) - 1 + i) % NW) + 1]   \* rq.locals[(workerID+i)%n]
Def(d) == d \in Defects

VARIABLES lbuf, lhead, ltail, lsize,   \* [Workers -> ...] local rings (slot s is lbuf[w][s+1])
          lsa,                         \* [Workers -> Nat]  sizeAtomic
          lmu,                         \* [Workers -> owner thread or ""]
          gbuf, ghead, gtail, gsize,   \* global ring (slot s is gbuf[s+1]; Len(gbuf) = capacity)
          gcount,                      \* globalCount
          pmu,                         \* owner of parkMu or ""
          parked, closed,
          waitq,                       \* Seq(Workers): inside cond.Wait, not yet signalled
          woken,                       \* set of Workers: signalled, have to re-acquire parkMu
          pc,                          \* [Threads -> label]
          item,                        \* [Threads -> tag in flight (0 = none)]
          vic,                         \* [Workers -> steal loop index i]
          pk,                          \* [Pushers -> next k]
          lk,                          \* [Workers -> pushLocal calls made]
          issued, taken, dups          \* ghost: tags handed to push/pushLocal; returned by take; returned twice

vars == <<lbuf, lhead, ltail, lsize, lsa, lmu, gbuf, ghead, gtail, gsize, gcount, pmu, parked, closed,
          waitq, woken, pc, item, vic, pk, lk, issued, taken, dups>>
localv == <<lbuf, lhead, ltail, lsize>>
globalv == <<gbuf, ghead, gtail, gsize>>
ghostv == <<issued, taken, dups>>

Init == /\ lbuf = [w \in Workers |-> [s \in 1..LCap |-> 0]]
        /\ lhead = [w \in Workers |-> 0] /\ ltail = [w \in Workers |-> 0] /\ lsize = [w \in Workers |-> 0]
        /\ lsa = [w \in Workers |-> 0] /\ lmu = [w \in Workers |-> ""]
        /\ gbuf = [s \in 1..GCap0 |-> 0] /\ ghead = 0 /\ gtail = 0 /\ gsize = 0 /\ gcount = 0
        /\ pmu = "" /\ parked = 0 /\ closed = FALSE /\ waitq = <<>> /\ woken = {}
        /\ pc = [t \in Threads |-> "idle"]
        /\ item = [t \in Threads |-> 0]
        /\ vic = [w \in Workers |-> 0]
        /\ pk = [p \in Pushers |-> 1]
        /\ lk = [w \in Workers |-> 0]
        /\ issued = {} /\ taken = {} /\ dups = {}

Goto(t, l) == pc' = [pc EXCEPT ![t] = l]
\* parkMu can be taken by a thread calling Lock (Handoff: not while a signalled waiter is about to take it)
PmuFree == pmu = "" /\ (Handoff => woken = {})

\* ------------------------------------------------------------------ ring helpers
LSeq(w) == [i \in 1..lsize[w] |-> lbuf[w][((lhead[w] + i - 1) % LCap) + 1]]     \* local ring content, FIFO order
GCap == Len(gbuf)
GSeq == [i \in 1..gsize |-> gbuf[((ghead + i - 1) % GCap) + 1]]                 \* global ring content, FIFO order

\* globalQueue.push incl. grow
GlobalPush(id) ==
  LET grown == gsize = GCap
      buf0 == IF grown THEN [s \in 1..(2 * GCap) |-> IF s <= gsize THEN gbuf[((ghead + s - 1) % GCap) + 1] ELSE 0] ELSE gbuf
      head0 == IF grown THEN 0 ELSE ghead
      tail0 == IF grown THEN gsize ELSE gtail
  IN /\ gbuf' = [buf0 EXCEPT ![tail0 + 1] = id]
     /\ ghead' = head0
     /\ gtail' = (tail0 + 1) % Len(buf0)
     /\ gsize' = gsize + 1

\* globalQueue.pop of a non-empty ring into item[t]
GlobalPop(t) ==
  /\ item' = [item EXCEPT ![t] = gbuf[ghead + 1]]
  /\ gbuf' = [gbuf EXCEPT ![ghead + 1] = 0]
  /\ ghead' = (ghead + 1) % GCap
  /\ gsize' = gsize - 1
  /\ UNCHANGED gtail

\* take returns tag id to worker w
TakeRet(w, id) ==
  /\ taken' = taken \cup {id}
  /\ dups' = IF id \in taken THEN dups \cup {id} ELSE dups
  /\ item' = [item EXCEPT ![w] = 0]
  /\ Goto(w, "idle")
  /\ UNCHANGED issued

\* ------------------------------------------------------------------ take: own local ring
TakeCall(w) == /\ pc[w] = "idle" /\ Goto(w, "lprobe")
               /\ UNCHANGED <<localv, lsa, lmu, globalv, gcount, pmu, parked, closed, waitq, woken, item, vic, pk, lk, ghostv>>

LPopProbe(w) == /\ pc[w] = "lprobe"
                /\ Goto(w, IF lsa[w] = 0 THEN "gprobe" ELSE "llock")
                /\ UNCHANGED <<localv, lsa, lmu, globalv, gcount, pmu, parked, closed, waitq, woken, item, vic, pk, lk, ghostv>>

LPopLock(w) ==
  /\ pc[w] = "llock" /\ lmu[w] = ""
  /\ IF lsize[w] = 0 /\ ~Def("LPopNoRecheck")
     THEN /\ Goto(w, "gprobe") /\ UNCHANGED <<localv, lmu, item>>
     ELSE /\ lmu' = [lmu EXCEPT ![w] = w]
          /\ item' = [item EXCEPT ![w] = lbuf[w][lhead[w] + 1]]
          /\ lbuf' = [lbuf EXCEPT ![w][lhead[w] + 1] = 0]
          /\ lhead' = [lhead EXCEPT ![w] = (@ + 1) % LCap]
          /\ lsize' = [lsize EXCEPT ![w] = @ - 1]
          /\ UNCHANGED ltail
          /\ Goto(w, "lstore")
  /\ UNCHANGED <<lsa, globalv, gcount, pmu, parked, closed, waitq, woken, vic, pk, lk, ghostv>>

LPopStore(w) ==
  /\ pc[w] = "lstore"
  /\ lsa' = [lsa EXCEPT ![w] = lsize[w]]
  /\ lmu' = [lmu EXCEPT ![w] = ""]
  /\ IF item[w] = 0       \* only with LPopNoRecheck: an empty slot was popped, popFront returns nil, take goes on
     THEN Goto(w, "gprobe") /\ UNCHANGED <<item, ghostv>>
     ELSE TakeRet(w, item[w])
  /\ UNCHANGED <<localv, globalv, gcount, pmu, parked, closed, waitq, woken, vic, pk, lk>>

\* ------------------------------------------------------------------ take: global ring
StealStart(w) == IF NW = 1 THEN "plock" ELSE "sprobe"

GPopProbe(w) ==
  /\ pc[w] = "gprobe"
  /\ IF gcount = 0 THEN Goto(w, StealStart(w)) /\ vic' = [vic EXCEPT ![w] = 1]
                   ELSE Goto(w, "glock") /\ UNCHANGED vic
  /\ UNCHANGED <<localv, lsa, lmu, globalv, gcount, pmu, parked, closed, waitq, woken, item, pk, lk, ghostv>>

GPopLock(w) ==
  /\ pc[w] = "glock" /\ PmuFree
  /\ IF gsize = 0
     THEN /\ Goto(w, StealStart(w)) /\ vic' = [vic EXCEPT ![w] = 1] /\ UNCHANGED <<globalv, pmu, item>>
     ELSE /\ pmu' = w /\ GlobalPop(w) /\ Goto(w, "gstore") /\ UNCHANGED vic
  /\ UNCHANGED <<localv, lsa, lmu, gcount, parked, closed, waitq, woken, pk, lk, ghostv>>

GPopStore(w) ==
  /\ pc[w] = "gstore"
  /\ gcount' = gsize /\ pmu' = ""
  /\ TakeRet(w, item[w])
  /\ UNCHANGED <<localv, lsa, lmu, globalv, parked, closed, waitq, woken, vic, pk, lk>>

\* ------------------------------------------------------------------ take: steal
NextVictim(w) == IF vic[w] + 1 > NW - 1
                 THEN Goto(w, "plock") /\ UNCHANGED vic
                 ELSE Goto(w, "sprobe") /\ vic' = [vic EXCEPT ![w] = @ + 1]

StealProbe(w) ==
  /\ pc[w] = "sprobe"
  /\ IF lsa[Victim(w, vic[w])] = 0 THEN NextVictim(w) ELSE Goto(w, "slock1") /\ UNCHANGED vic
  /\ UNCHANGED <<localv, lsa, lmu, globalv, gcount, pmu, parked, closed, waitq, woken, item, pk, lk, ghostv>>

\* lockOrder: by address; the harness sorts the local rings so that address order = worker-id order
LockFirst(v, w) == IF Def("LockQFirst") THEN v ELSE IF WIdx(v) < WIdx(w) THEN v ELSE w
LockSecond(v, w) == IF LockFirst(v, w) = v THEN w ELSE v

StealLock1(w) ==
  LET v == Victim(w, vic[w]) f == LockFirst(v, w) IN
  /\ pc[w] = "slock1" /\ lmu[f] = ""
  /\ lmu' = [lmu EXCEPT ![f] = w]
  /\ Goto(w, "slock2")
  /\ UNCHANGED <<localv, lsa, globalv, gcount, pmu, parked, closed, waitq, woken, item, vic, pk, lk, ghostv>>

Min(a, b) == IF a < b THEN a ELSE b

StealLock2(w) ==
  LET v == Victim(w, vic[w]) f == LockFirst(v, w) s == LockSecond(v, w) IN
  /\ pc[w] = "slock2" /\ lmu[s] = ""
  /\ IF lsize[v] = 0
     THEN /\ lmu' = [lmu EXCEPT ![f] = ""]                  \* deferred unlocks, nothing stolen
          /\ NextVictim(w)
          /\ UNCHANGED <<localv, item>>
     ELSE LET n == lsize[v]
              stolen == (n + 1) \div 2
              m == Min(stolen - 1, LCap - lsize[w])          \* extra items moved into the thief's ring
              src(j) == ((lhead[v] + j) % LCap) + 1           \* j = 0 is the returned head
              dst(j) == ((ltail[w] + j - 1) % LCap) + 1
          IN /\ lmu' = [lmu EXCEPT ![s] = w]
             /\ item' = [item EXCEPT ![w] = lbuf[v][src(0)]]
             /\ lbuf' = [lbuf EXCEPT
                    ![v] = [x \in 1..LCap |-> IF \E j \in 0..m : x = src(j) /\ (j = 0 \/ ~Def("StealNoAdvance")) THEN 0 ELSE lbuf[v][x]],
                    ![w] = [x \in 1..LCap |-> IF \E j \in 1..m : x = dst(j)
                                               THEN lbuf[v][src(CHOOSE j \in 1..m : x = dst(j))] ELSE lbuf[w][x]]]
             /\ lhead' = [lhead EXCEPT ![v] = IF Def("StealNoAdvance") THEN (@ + 1) % LCap ELSE (@ + 1 + m) % LCap]
             /\ lsize' = [lsize EXCEPT ![v] = IF Def("StealNoAdvance") THEN n - 1 ELSE n - 1 - m, ![w] = @ + m]
             /\ ltail' = [ltail EXCEPT ![w] = (@ + m) % LCap]
             /\ Goto(w, "sstore1") /\ UNCHANGED vic
  /\ UNCHANGED <<lsa, globalv, gcount, pmu, parked, closed, waitq, woken, pk, lk, ghostv>>

StealStore1(w) ==
  LET v == Victim(w, vic[w]) IN
  /\ pc[w] = "sstore1"
  /\ lsa' = [lsa EXCEPT ![v] = lsize[v]]
  /\ Goto(w, "sstore2")
  /\ UNCHANGED <<localv, lmu, globalv, gcount, pmu, parked, closed, waitq, woken, item, vic, pk, lk, ghostv>>

StealStore2(w) ==
  LET v == Victim(w, vic[w]) IN
  /\ pc[w] = "sstore2"
  /\ lsa' = [lsa EXCEPT ![w] = lsize[w]]
  /\ lmu' = [lmu EXCEPT ![v] = "", ![w] = ""]
  /\ TakeRet(w, item[w])
  /\ UNCHANGED <<localv, globalv, gcount, pmu, parked, closed, waitq, woken, vic, pk, lk>>

\* ------------------------------------------------------------------ take: park
\* one iteration of parkAndTake's loop, entered holding parkMu with `parked` = p0
ParkEval(w, p0) ==
  IF closed
  THEN /\ parked' = p0 /\ pmu' = "" /\ Goto(w, "exited") /\ UNCHANGED <<globalv, item>>
  ELSE IF gsize > 0 /\ ~Def("ParkNoRecheck")
  THEN /\ parked' = p0 /\ pmu' = w /\ GlobalPop(w) /\ Goto(w, "pstore")
  ELSE /\ parked' = p0 + 1 /\ pmu' = w /\ Goto(w, "pwait") /\ UNCHANGED <<globalv, item>>

ParkLock(w) ==
  /\ pc[w] = "plock" /\ PmuFree
  /\ ParkEval(w, parked)
  /\ UNCHANGED <<localv, lsa, lmu, gcount, closed, waitq, woken, vic, pk, lk, ghostv>>

ParkStore(w) ==
  /\ pc[w] = "pstore"
  /\ gcount' = gsize /\ pmu' = ""
  /\ TakeRet(w, item[w])
  /\ UNCHANGED <<localv, lsa, lmu, globalv, parked, closed, waitq, woken, vic, pk, lk>>

ParkWait(w) ==
  /\ pc[w] = "pwait"
  /\ waitq' = Append(waitq, w) /\ pmu' = ""
  /\ Goto(w, "waiting")
  /\ UNCHANGED <<localv, lsa, lmu, globalv, gcount, parked, closed, woken, item, vic, pk, lk, ghostv>>

Wake(w) ==
  /\ pc[w] = "waiting" /\ w \in woken /\ pmu = ""
  /\ woken' = woken \ {w}
  /\ ParkEval(w, IF Def("ParkedLeak") THEN parked ELSE parked - 1)
  /\ UNCHANGED <<localv, lsa, lmu, gcount, closed, waitq, vic, pk, lk, ghostv>>

\* ------------------------------------------------------------------ pushLocal (owner only) and push
LPushCall(w) ==
  /\ pc[w] = "idle" /\ lk[w] < LPushOf[WIdx(w)]
  /\ item' = [item EXCEPT ![w] = LId(w, lk[w] + 1)]
  /\ issued' = issued \cup {LId(w, lk[w] + 1)}
  /\ lk' = [lk EXCEPT ![w] = @ + 1]
  /\ Goto(w, "lpushlock")
  /\ UNCHANGED <<localv, lsa, lmu, globalv, gcount, pmu, parked, closed, waitq, woken, vic, pk, taken, dups>>

LPushLock(w) ==
  /\ pc[w] = "lpushlock" /\ lmu[w] = ""
  /\ IF lsize[w] = LCap
     THEN /\ Goto(w, "pushlock") /\ UNCHANGED <<localv, lmu, item>>        \* full: spill into the global ring
     ELSE /\ lmu' = [lmu EXCEPT ![w] = w]
          /\ lbuf' = [lbuf EXCEPT ![w][ltail[w] + 1] = item[w]]
          /\ ltail' = [ltail EXCEPT ![w] = (@ + 1) % LCap]
          /\ lsize' = [lsize EXCEPT ![w] = @ + 1]
          /\ item' = [item EXCEPT ![w] = 0]
          /\ UNCHANGED lhead
          /\ Goto(w, "lpushstore")
  /\ UNCHANGED <<lsa, globalv, gcount, pmu, parked, closed, waitq, woken, vic, pk, lk, ghostv>>

LPushStore(w) ==
  /\ pc[w] = "lpushstore"
  /\ lsa' = [lsa EXCEPT ![w] = lsize[w]]
  /\ lmu' = [lmu EXCEPT ![w] = ""]
  /\ Goto(w, "idle")
  /\ UNCHANGED <<localv, globalv, gcount, pmu, parked, closed, waitq, woken, item, vic, pk, lk, ghostv>>

PushCall(p) ==
  /\ p \in Pushers /\ pc[p] = "idle" /\ pk[p] <= NPush
  /\ item' = [item EXCEPT ![p] = PId(p, pk[p])]
  /\ issued' = issued \cup {PId(p, pk[p])}
  /\ pk' = [pk EXCEPT ![p] = @ + 1]
  /\ Goto(p, "pushlock")
  /\ UNCHANGED <<localv, lsa, lmu, globalv, gcount, pmu, parked, closed, waitq, woken, vic, lk, taken, dups>>

PushLock(t) ==
  /\ pc[t] = "pushlock" /\ PmuFree
  /\ pmu' = t
  /\ GlobalPush(item[t])
  /\ item' = [item EXCEPT ![t] = 0]
  /\ Goto(t, "pushstore")
  /\ UNCHANGED <<localv, lsa, lmu, gcount, parked, closed, waitq, woken, vic, pk, lk, ghostv>>

PushStore(t) ==
  /\ pc[t] = "pushstore"
  /\ gcount' = gsize /\ pmu' = ""
  /\ IF parked > 0 /\ waitq # <<>> /\ ~Def("NoSignal") /\ (Def("SignalOnFirstOnly") => gsize = 1)
     THEN \E i \in (IF SignalFIFO THEN {1} ELSE 1..Len(waitq)) :
             /\ woken' = woken \cup {waitq[i]}
             /\ waitq' = [j \in 1..(Len(waitq) - 1) |-> IF j < i THEN waitq[j] ELSE waitq[j + 1]]
     ELSE UNCHANGED <<waitq, woken>>
  /\ Goto(t, IF t \in Workers THEN "idle" ELSE IF pk[t] > NPush THEN "done" ELSE "idle")
  /\ UNCHANGED <<localv, lsa, lmu, globalv, parked, closed, item, vic, pk, lk, ghostv>>

\* ------------------------------------------------------------------ close
CloseCall ==
  /\ DoClose /\ pc["c"] = "idle" /\ Goto("c", "closelock")
  /\ UNCHANGED <<localv, lsa, lmu, globalv, gcount, pmu, parked, closed, waitq, woken, item, vic, pk, lk, ghostv>>

CloseLock ==
  /\ pc["c"] = "closelock" /\ PmuFree
  /\ closed' = TRUE
  /\ woken' = woken \cup {waitq[i] : i \in 1..Len(waitq)}
  /\ waitq' = <<>>
  /\ Goto("c", "done")
  /\ UNCHANGED <<localv, lsa, lmu, globalv, gcount, pmu, parked, item, vic, pk, lk, ghostv>>

\* ------------------------------------------------------------------ next-state relation
WorkerNext(w) == \/ TakeCall(w) \/ LPopProbe(w) \/ LPopLock(w) \/ LPopStore(w)
                 \/ GPopProbe(w) \/ GPopLock(w) \/ GPopStore(w)
                 \/ StealProbe(w) \/ StealLock1(w) \/ StealLock2(w) \/ StealStore1(w) \/ StealStore2(w)
                 \/ ParkLock(w) \/ ParkStore(w) \/ ParkWait(w) \/ Wake(w)
                 \/ LPushCall(w) \/ LPushLock(w) \/ LPushStore(w) \/ PushLock(w) \/ PushStore(w)
PusherNext(p) == PushCall(p) \/ PushLock(p) \/ PushStore(p)
CloserNext == CloseCall \/ CloseLock

\* legitimate final states: everything handed out, workers asleep on an empty queue or gone after close
Terminal ==
  /\ \A p \in Pushers : pc[p] = "done"
  /\ pc["c"] = (IF DoClose THEN "done" ELSE "idle")
  /\ \A w \in Workers : pc[w] = "exited" \/ (pc[w] = "waiting" /\ w \notin woken)
Done == Terminal /\ UNCHANGED vars

Next == (\E w \in Workers : WorkerNext(w)) \/ (\E p \in Pushers : PusherNext(p)) \/ CloserNext \/ Done

Spec == Init /\ [][Next]_vars

\* worker turns end and threads are scheduled: weak fairness per thread (all behaviours are finite up to
\* stuttering, so a Lock that is enabled at the end stays enabled)
Fairness == /\ \A w \in Workers : WF_vars(WorkerNext(w))
            /\ \A p \in Pushers : WF_vars(PushLock(p) \/ PushStore(p))
            /\ WF_vars(CloseLock)
LiveSpec == Spec /\ Fairness

\* ------------------------------------------------------------------ properties
Range(s) == {s[i] : i \in 1..Len(s)}
Occ(id) == Cardinality({<<w, x>> \in Workers \X (1..LCap) : lbuf[w][x] = id})
           + Cardinality({x \in 1..GCap : gbuf[x] = id})
           + Cardinality({t \in Threads : item[t] = id})
           + (IF id \in taken THEN 1 ELSE 0)
AllIds == {PId(p, k) : p \in Pushers, k \in 1..NPush} \cup UNION {{LId(w, k) : k \in 1..LPushOf[WIdx(w)]} : w \in Workers}

\* C05 conservation: every tag handed to push / pushLocal is in exactly one place (a ring, in flight inside one
\* operation, or returned by exactly one take); nothing else is anywhere
Conservation == /\ dups = {}
                /\ \A id \in AllIds : Occ(id) = (IF id \in issued THEN 1 ELSE 0)

\* ring bookkeeping
RingOK == /\ \A w \in Workers : /\ lsize[w] \in 0..LCap
                                /\ ltail[w] = (lhead[w] + lsize[w]) % LCap
                                /\ \A x \in 1..LCap : (lbuf[w][x] # 0) <=> (\E i \in 1..lsize[w] : x = ((lhead[w] + i - 1) % LCap) + 1)
          /\ gsize \in 0..GCap /\ gtail = (ghead + gsize) % GCap
          /\ \A x \in 1..GCap : (gbuf[x] # 0) <=> (\E i \in 1..gsize : x = ((ghead + i - 1) % GCap) + 1)

\* the lock-free mirrors are exact whenever the guarding mutex is free
MirrorOK == /\ pmu = "" => gcount = gsize
            /\ \A w \in Workers : lmu[w] = "" => lsa[w] = lsize[w]

\* `parked` counts exactly the workers between parked++ and parked--
ParkedOK == parked = Len(waitq) + Cardinality(woken) + Cardinality({w \in Workers : pc[w] = "pwait"})

\* close wakes everybody and nobody can go to sleep afterwards
ClosedNoWaiters == closed => waitq = <<>>

\* C05 "no worker stays parked while work is queued" (safety form): when no operation is in flight and the
\* queue is open, sleeping workers imply that every ring is empty
Quiet == /\ pmu = "" /\ \A p \in Pushers : pc[p] \in {"idle", "done"}
         /\ pc["c"] \in {"idle", "done"}
         /\ \A w \in Workers : pc[w] = "exited" \/ (pc[w] = "waiting" /\ w \notin woken)
NoStuck == (Quiet /\ ~closed) => (gsize = 0 /\ \A w \in Workers : lsize[w] = 0)

\* stronger, for the global ring only: whenever no operation is in flight (workers may be inside their turn),
\* a worker sleeping on the condition variable implies an empty global ring - push wakes a sleeper at once.
\* (Work in the LOCAL ring of a busy worker does not wake sleepers: pushLocal never signals, by design.)
AtRest == /\ pmu = "" /\ woken = {}
          /\ \A p \in Pushers : pc[p] \in {"idle", "done"}
          /\ pc["c"] \in {"idle", "done"}
          /\ \A w \in Workers : pc[w] \in {"idle", "waiting", "exited"}
NoSleepWhileGlobalWork == (AtRest /\ waitq # <<>>) => gsize = 0

\* a ring never hides an item behind a zero length (what LPopNoRecheck leads to: size -1, then a push makes it 0)
NotHidden == \A w \in Workers : (lmu[w] = "" /\ lsize[w] = 0) => \A x \in 1..LCap : lbuf[w][x] = 0

\* the owner is the only producer of its ring, so a thief's ring is empty while it steals (this is why the
\* `dst.size == localQueueCap` break in stealHalf is unreachable and steals cannot deadlock under owner-only
\* pushLocal)
ThiefEmpty == \A w \in Workers : pc[w] \in {"sprobe", "slock1", "slock2"} => lsize[w] = 0

\* FIFO of the global ring across grow: its content only changes by Append / Tail
GlobalFIFO == [][\/ GSeq' = GSeq
                 \/ \E id \in AllIds : GSeq' = Append(GSeq, id)
                 \/ (GSeq # <<>> /\ GSeq' = Tail(GSeq))]_vars

\* liveness (LiveSpec): queued work is eventually taken unless the queue is closed; close makes every worker exit
EventuallyTaken == \A id \in AllIds : (id \in issued) ~> (id \in taken \/ closed)
CloseExits == closed ~> (\A w \in Workers : pc[w] = "exited")
=============================================================================
