SPECIFICATION TSpec
CONSTANTS
  WorkerSeq <- W2
  PusherSeq <- P1
  NPush = 1
  LPushOf <- L10
  LCap = 2
  GCap0 = 2
  DoClose = TRUE
  Handoff = TRUE
  SignalFIFO = TRUE
  Defects = {}
CHECK_DEADLOCK FALSE
