SPECIFICATION TSpec
CONSTANTS
  NW = 3
  LCap = 256
  GCap0 = 64
  Sizes = {1}
  MaxItems = 100000
CHECK_DEADLOCK FALSE
