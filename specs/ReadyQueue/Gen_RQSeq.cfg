SPECIFICATION Spec
CONSTANTS
  NW = 3
  LCap = 256
  GCap0 = 64
  Sizes = {1, 2, 63, 65, 129, 257}
  MaxItems = 1200
  D = 12
CONSTRAINT Emit
INVARIANT NoDupQueued
CHECK_DEADLOCK FALSE
