SPECIFICATION Spec
CONSTANTS
  WorkerSeq <- W2
  PusherSeq <- P1
  NPush = 2
  LPushOf <- L00
  LCap = 2
  GCap0 = 2
  DoClose = FALSE
  Handoff = FALSE
  SignalFIFO = TRUE
  Defects = {"SignalOnFirstOnly"}
INVARIANTS NoSleepWhileGlobalWork
CHECK_DEADLOCK FALSE
