SPECIFICATION Spec
CONSTANTS
  WorkerSeq <- W2
  PusherSeq <- P0
  NPush = 1
  LPushOf <- L30
  LCap = 3
  GCap0 = 2
  DoClose = FALSE
  Handoff = FALSE
  SignalFIFO = FALSE
  Defects = {"StealNoAdvance"}
INVARIANTS Conservation RingOK MirrorOK ParkedOK ClosedNoWaiters NoStuck NoSleepWhileGlobalWork NotHidden ThiefEmpty
PROPERTIES GlobalFIFO
CHECK_DEADLOCK TRUE
