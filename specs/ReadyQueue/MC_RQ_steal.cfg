SPECIFICATION Spec
CONSTANTS
  WorkerSeq <- W3
  PusherSeq <- P0
  NPush = 1
  LPushOf <- L300
  LCap = 3
  GCap0 = 2
  DoClose = TRUE
  Handoff = FALSE
  SignalFIFO = FALSE
  Defects = {}
INVARIANTS Conservation RingOK MirrorOK ParkedOK ClosedNoWaiters NoStuck NoSleepWhileGlobalWork NotHidden ThiefEmpty
PROPERTIES GlobalFIFO
CHECK_DEADLOCK TRUE
