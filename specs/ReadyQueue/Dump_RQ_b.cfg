SPECIFICATION Spec
CONSTANTS
  WorkerSeq <- W3
  PusherSeq <- P1
  NPush = 1
  LPushOf <- L100
  LCap = 2
  GCap0 = 2
  DoClose = TRUE
  Handoff = TRUE
  SignalFIFO = TRUE
  Defects = {}
CHECK_DEADLOCK FALSE
