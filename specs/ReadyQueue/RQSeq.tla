------------------------------- MODULE RQSeq -------------------------------
(* actor/ready_queue.go at OPERATION granularity (each push / pushLocal / take / close  *)
(* runs alone), with the real ring capacities, so that local-ring overflow (spill),     *)
(* global-ring growth and multi-item steals can be executed on the real code.  Rings    *)
(* are kept as FIFO sequences plus the ring head position (needed to exercise grow      *)
(* with a wrapped ring); macro operations push / take many items at once.               *)
(* It is the sequential reading of ReadyQueue.tla: take = own ring, then global ring,   *)
(* then stealHalf from the first non-empty sibling in rotated order, then exit if       *)
(* closed (a take that would block is not generated).                                   *)
EXTENDS Integers, Sequences, FiniteSets, TLC

CONSTANTS NW,        \* workers 0..NW-1
          LCap,      \* localQueueCap
          GCap0,     \* globalQueueInitialCap
          Sizes,     \* macro sizes offered to push / pushLocal / take
          MaxItems   \* bound on the number of tags issued per behaviour

VARIABLES loc,       \* [0..NW-1 -> Seq(tag)]
          glob,      \* Seq(tag)
          gcap,      \* capacity of the global ring
          closed,
          nextId,    \* next fresh tag
          hist       \* operations so far (generator output)

vars == <<loc, glob, gcap, closed, nextId, hist>>
W == 0..(NW - 1)

Init == /\ loc = [w \in W |-> <<>>] /\ glob = <<>> /\ gcap = GCap0 /\ closed = FALSE /\ nextId = 1 /\ hist = <<>>

Fresh(n) == [i \in 1..n |-> nextId + i - 1]
RECURSIVE Grow(_, _)
Grow(c, n) == IF n <= c THEN c ELSE Grow(2 * c, n)

\* state after pushing the tags `ids` (in order) onto the global ring
PushG(g, c, ids) == [g |-> g \o ids, c |-> Grow(c, Len(g) + Len(ids))]

\* pushLocal of ids in order: fill the ring, spill the rest to the global ring
LPushRes(l, g, c, ids) ==
  LET room == LCap - Len(l)
      k == IF Len(ids) <= room THEN Len(ids) ELSE room
  IN [l |-> l \o SubSeq(ids, 1, k), gc |-> PushG(g, c, SubSeq(ids, k + 1, Len(ids)))]

\* one take by worker w on state s = [loc, glob]: result [loc, glob, id] (id = 0: nothing to take)
FirstVictim(s, w) == LET c == {i \in 1..(NW - 1) : s.loc[(w + i) % NW] # <<>>} IN
                     IF c = {} THEN -1 ELSE (w + (CHOOSE i \in c : \A j \in c : i <= j)) % NW
TakeOne(s, w) ==
  IF s.loc[w] # <<>> THEN [loc |-> [s.loc EXCEPT ![w] = Tail(@)], glob |-> s.glob, id |-> Head(s.loc[w])]
  ELSE IF s.glob # <<>> THEN [loc |-> s.loc, glob |-> Tail(s.glob), id |-> Head(s.glob)]
  ELSE LET v == FirstVictim(s, w) IN
       IF v < 0 THEN [loc |-> s.loc, glob |-> s.glob, id |-> 0]
       ELSE LET n == Len(s.loc[v]) stolen == (n + 1) \div 2 IN
            [loc |-> [s.loc EXCEPT ![v] = SubSeq(@, stolen + 1, n), ![w] = SubSeq(s.loc[v], 2, stolen)],
             glob |-> s.glob, id |-> Head(s.loc[v])]

RECURSIVE TakeMany(_, _, _)
\* n takes in a row: result [loc, glob, ids]
TakeMany(s, w, n) ==
  IF n = 0 THEN [loc |-> s.loc, glob |-> s.glob, ids |-> <<>>]
  ELSE LET r == TakeOne(s, w) IN
       IF r.id = 0 THEN [loc |-> s.loc, glob |-> s.glob, ids |-> <<>>]
       ELSE LET rest == TakeMany([loc |-> r.loc, glob |-> r.glob], w, n - 1) IN
            [loc |-> rest.loc, glob |-> rest.glob, ids |-> <<r.id>> \o rest.ids]

Total == Len(glob) + Len(loc[0]) + (IF NW > 1 THEN Len(loc[1]) ELSE 0) + (IF NW > 2 THEN Len(loc[2]) ELSE 0)

Push(n) ==
  /\ nextId + n - 1 <= MaxItems
  /\ LET r == PushG(glob, gcap, Fresh(n)) IN glob' = r.g /\ gcap' = r.c
  /\ nextId' = nextId + n
  /\ hist' = Append(hist, [op |-> "push", w |-> 0, n |-> n])
  /\ UNCHANGED <<loc, closed>>

LPush(w, n) ==
  /\ nextId + n - 1 <= MaxItems
  /\ LET r == LPushRes(loc[w], glob, gcap, Fresh(n)) IN
     loc' = [loc EXCEPT ![w] = r.l] /\ glob' = r.gc.g /\ gcap' = r.gc.c
  /\ nextId' = nextId + n
  /\ hist' = Append(hist, [op |-> "lpush", w |-> w, n |-> n])
  /\ UNCHANGED closed

\* n takes by w; generated only when all n find an item (no blocking), or one take after close on an empty queue
Take(w, n) ==
  /\ n <= Total
  /\ LET r == TakeMany([loc |-> loc, glob |-> glob], w, n) IN loc' = r.loc /\ glob' = r.glob
  /\ hist' = Append(hist, [op |-> "take", w |-> w, n |-> n])
  /\ UNCHANGED <<gcap, closed, nextId>>

TakeClosed(w) ==
  /\ closed /\ Total = 0
  /\ hist' = Append(hist, [op |-> "take", w |-> w, n |-> 1])
  /\ UNCHANGED <<loc, glob, gcap, closed, nextId>>

Close == /\ ~closed /\ closed' = TRUE /\ hist' = Append(hist, [op |-> "close", w |-> 0, n |-> 0])
         /\ UNCHANGED <<loc, glob, gcap, nextId>>

Next == \/ \E n \in Sizes : Push(n) \/ \E w \in W : LPush(w, n) \/ Take(w, n)
        \/ \E w \in W : TakeClosed(w)
        \/ Close
Spec == Init /\ [][Next]_vars

\* design obligations of the operation-level reading
Rng(s) == {s[i] : i \in 1..Len(s)}
NoDupQueued == /\ \A w \in W : Len(loc[w]) <= LCap /\ Cardinality(Rng(loc[w])) = Len(loc[w])
               /\ Cardinality(Rng(glob)) = Len(glob) /\ Len(glob) <= gcap
               /\ \A w \in W : Rng(loc[w]) \cap Rng(glob) = {}
               /\ \A v, w \in W : v # w => Rng(loc[v]) \cap Rng(loc[w]) = {}
=============================================================================
