---- MODULE Gen_RQSeq ----
(* Behaviour generator: prints the operation history of every walk at depth D. *)
EXTENDS RQSeq, Json
CONSTANT D
Emit == (Len(hist) < D) \/ (PrintT(<<"BEHAVIOUR", ToJson(hist)>>) /\ FALSE)
====
