SPECIFICATION TraceSpec
CONSTANTS
  Names <- S_child2_Names
  NameSeq <- S_child2_Seq
  ParentOf <- S_child2_Par
  Init <- S_child2_Init
  InitWatch <- S_child2_Watch
  Prog <- S_child2_Prog
  After <- S_child2_After
  MaxInc = 2
  MaxPerm = 1
  Defects <- AllDefects
INVARIANTS TreeWF TerminatedAtMostOnce
CHECK_DEADLOCK FALSE
