SPECIFICATION TraceSpec
CONSTANTS
  Names <- S_sysstop_Names
  NameSeq <- S_sysstop_Seq
  ParentOf <- S_sysstop_Par
  Init <- S_sysstop_Init
  InitWatch <- S_sysstop_Watch
  Prog <- S_sysstop_Prog
  After <- S_sysstop_After
  MaxInc = 1
  MaxPerm = 1
  Defects <- AllDefects
INVARIANTS TreeWF TerminatedAtMostOnce
CHECK_DEADLOCK FALSE
