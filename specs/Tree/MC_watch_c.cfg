SPECIFICATION Spec
CONSTANTS
  Names <- S_watch_Names
  NameSeq <- S_watch_Seq
  ParentOf <- S_watch_Par
  Init <- S_watch_Init
  InitWatch <- S_watch_Watch
  Prog <- S_watch_Prog
  After <- S_watch_After
  MaxInc = 1
  MaxPerm = 2
  Defects <- AllDefects
VIEW View
INVARIANTS TreeWF PostStopOnce AtMostOneRunning TerminatedAtMostOnce TerminatedDelivered SpawnReturnsLive CounterSettles ChildrenFirst StopIsComplete ResolvesLiveOnly LiveAreRegistered NoStaleNode ParentsLive SystemStopComplete
CHECK_DEADLOCK FALSE
