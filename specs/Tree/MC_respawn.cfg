SPECIFICATION Spec
CONSTANTS
  Names <- S_respawn_Names
  NameSeq <- S_respawn_Seq
  ParentOf <- S_respawn_Par
  Init <- S_respawn_Init
  InitWatch <- S_respawn_Watch
  Prog <- S_respawn_Prog
  After <- S_respawn_After
  MaxInc = 2
  MaxPerm = 1
  Defects = {}
VIEW View
INVARIANTS TreeWF PostStopOnce AtMostOneRunning TerminatedAtMostOnce TerminatedDelivered SpawnReturnsLive CounterSettles ChildrenFirst StopIsComplete ResolvesLiveOnly LiveAreRegistered NoStaleNode ParentsLive SystemStopComplete
CHECK_DEADLOCK FALSE
