SPECIFICATION TraceSpec
CONSTANTS
  Names <- S_spawn3_Names
  NameSeq <- S_spawn3_Seq
  ParentOf <- S_spawn3_Par
  Init <- S_spawn3_Init
  InitWatch <- S_spawn3_Watch
  Prog <- S_spawn3_Prog
  After <- S_spawn3_After
  MaxInc = 2
  MaxPerm = 1
  Defects <- AllDefects
INVARIANTS TreeWF TerminatedAtMostOnce
CHECK_DEADLOCK FALSE
