SPECIFICATION Spec
CONSTANTS
  Names <- S_sysstop2_Names
  NameSeq <- S_sysstop2_Seq
  ParentOf <- S_sysstop2_Par
  Init <- S_sysstop2_Init
  InitWatch <- S_sysstop2_Watch
  Prog <- S_sysstop2_Prog
  After <- S_sysstop2_After
  MaxInc = 1
  MaxPerm = 1
  Defects = {}
VIEW View
INVARIANTS TreeWF PostStopOnce AtMostOneRunning TerminatedAtMostOnce TerminatedDelivered SpawnReturnsLive CounterSettles ChildrenFirst StopIsComplete ResolvesLiveOnly LiveAreRegistered NoStaleNode ParentsLive SystemStopComplete
CHECK_DEADLOCK FALSE
