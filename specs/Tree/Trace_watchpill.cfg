SPECIFICATION TraceSpec
CONSTANTS
  Names <- S_watchpill_Names
  NameSeq <- S_watchpill_Seq
  ParentOf <- S_watchpill_Par
  Init <- S_watchpill_Init
  InitWatch <- S_watchpill_Watch
  Prog <- S_watchpill_Prog
  After <- S_watchpill_After
  MaxInc = 1
  MaxPerm = 1
  Defects <- AllDefects
INVARIANTS TreeWF TerminatedAtMostOnce
CHECK_DEADLOCK FALSE
