SPECIFICATION Spec
CONSTANTS
  Names <- S_wrestart_Names
  NameSeq <- S_wrestart_Seq
  ParentOf <- S_wrestart_Par
  Init <- S_wrestart_Init
  InitWatch <- S_wrestart_Watch
  Prog <- S_wrestart_Prog
  After <- S_wrestart_After
  MaxInc = 1
  MaxPerm = 1
  Defects <- AllDefects
VIEW View
INVARIANTS TreeWF PostStopOnce AtMostOneRunning TerminatedAtMostOnce TerminatedDelivered SpawnReturnsLive CounterSettles ChildrenFirst StopIsComplete ResolvesLiveOnly LiveAreRegistered NoStaleNode ParentsLive SystemStopComplete
CHECK_DEADLOCK FALSE
