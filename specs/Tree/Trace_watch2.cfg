SPECIFICATION TraceSpec
CONSTANTS
  Names <- S_watch2_Names
  NameSeq <- S_watch2_Seq
  ParentOf <- S_watch2_Par
  Init <- S_watch2_Init
  InitWatch <- S_watch2_Watch
  Prog <- S_watch2_Prog
  After <- S_watch2_After
  MaxInc = 1
  MaxPerm = 2
  Defects <- AllDefects
INVARIANTS TreeWF TerminatedAtMostOnce
CHECK_DEADLOCK FALSE
