SPECIFICATION Spec
CONSTANTS
  Names <- S_watchpill_Names
  NameSeq <- S_watchpill_Seq
  ParentOf <- S_watchpill_Par
  Init <- S_watchpill_Init
  InitWatch <- S_watchpill_Watch
  Prog <- S_watchpill_Prog
  After <- S_watchpill_After
  MaxInc = 1
  MaxPerm = 1
  Defects <- AllDefects
VIEW View
INVARIANTS TreeWF PostStopOnce AtMostOneRunning TerminatedAtMostOnce TerminatedDelivered SpawnReturnsLive CounterSettles ChildrenFirst StopIsComplete ResolvesLiveOnly LiveAreRegistered NoStaleNode ParentsLive SystemStopComplete
CHECK_DEADLOCK FALSE
