---------------------------- MODULE Trace_Tree ----------------------------
(* Conformance of recorded replays with Tree.tla: every "step" line of the trace (one      *)
(* model action executed on the real actor system by harness/cmd/tree) must be a step of   *)
(* Tree!Next with that label whose successor state agrees with what was projected from     *)
(* the real system after the step: the tree (registered nodes, the instance each holds,    *)
(* children, watchers, watchees), the lifecycle flags of every PID and the actor counter.  *)
(* A rejected trace is "drift" (reported in the evidence), never a verdict.                *)
EXTENDS MC_Tree, Json

Trace == ndJsonDeserialize("trace.ndjson")
VARIABLE l
tvars == <<vars, l>>

SeqSet(s) == {s[j] : j \in 1..Len(s)}
StopperActs == {"StLock", "StWees", "StUnwee", "StFcKids", "BrUnw", "BrRemDesc", "StJoin", "StPsEnter", "StPsExit", "StWers", "StFwTell", "StFwUn"}
LabelOf(e) == IF e.a \in StopperActs
              THEN (IF Len(e.args) = 3 THEN <<e.a, <<e.args[1], e.args[2]>>, e.args[3]>> ELSE <<e.a, <<e.args[1], e.args[2]>>>>)
              ELSE IF Len(e.args) = 0 THEN <<e.a>> ELSE <<e.a, e.args[1]>>

NamesOf(S) == {p[1] : p \in S}
\* the logged projection agrees with the (primed) model state
Agrees(e) ==
  /\ counter' = e.c
  /\ \A n \in Names \cup {U} :
        LET hit == {j \in 1..Len(e.d) : e.d[j].n = n} IN
        IF node'[n].reg
        THEN /\ hit # {}
             /\ LET x == e.d[CHOOSE j \in hit : TRUE] IN
                /\ x.i = node'[n].pid[2]
                /\ SeqSet(x.ch) = node'[n].desc
                /\ SeqSet(x.wers) = NamesOf(node'[n].wers)
                /\ SeqSet(x.wees) = NamesOf(node'[n].wees)
        ELSE hit = {}
  /\ \A j \in 1..Len(e.ps) : pst'[<<e.ps[j].n, e.ps[j].i>>] = e.ps[j].s
  /\ \A p \in TestPids : (pst'[p] # "none") => \E j \in 1..Len(e.ps) : e.ps[j].n = p[1] /\ e.ps[j].i = p[2]

TraceInit == Init0 /\ l = 1

TraceNext ==
  /\ l <= Len(Trace)
  /\ l' = l + 1
  /\ LET e == Trace[l] IN
     IF e.ev = "New" THEN Reset
     ELSE IF e.ev = "step" THEN Next /\ last' = LabelOf(e) /\ (IF e.x = "dead" THEN TRUE ELSE Agrees(e))   \* "dead": the system has stopped, nothing to project
     ELSE UNCHANGED vars

TraceSpec == TraceInit /\ [][TraceNext]_tvars
=============================================================================
