SPECIFICATION TraceSpec
CONSTANTS
  Names <- S_overlap_Names
  NameSeq <- S_overlap_Seq
  ParentOf <- S_overlap_Par
  Init <- S_overlap_Init
  InitWatch <- S_overlap_Watch
  Prog <- S_overlap_Prog
  After <- S_overlap_After
  MaxInc = 1
  MaxPerm = 1
  Defects <- AllDefects
INVARIANTS TreeWF TerminatedAtMostOnce
CHECK_DEADLOCK FALSE
