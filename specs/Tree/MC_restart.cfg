SPECIFICATION Spec
CONSTANTS
  Names <- S_restart_Names
  NameSeq <- S_restart_Seq
  ParentOf <- S_restart_Par
  Init <- S_restart_Init
  InitWatch <- S_restart_Watch
  Prog <- S_restart_Prog
  After <- S_restart_After
  MaxInc = 1
  MaxPerm = 1
  Defects = {}
VIEW View
INVARIANTS TreeWF PostStopOnce AtMostOneRunning TerminatedAtMostOnce TerminatedDelivered SpawnReturnsLive CounterSettles ChildrenFirst StopIsComplete ResolvesLiveOnly LiveAreRegistered NoStaleNode ParentsLive SystemStopComplete
CHECK_DEADLOCK FALSE
