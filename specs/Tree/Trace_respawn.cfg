SPECIFICATION TraceSpec
CONSTANTS
  Names <- S_respawn_Names
  NameSeq <- S_respawn_Seq
  ParentOf <- S_respawn_Par
  Init <- S_respawn_Init
  InitWatch <- S_respawn_Watch
  Prog <- S_respawn_Prog
  After <- S_respawn_After
  MaxInc = 2
  MaxPerm = 1
  Defects <- AllDefects
INVARIANTS TreeWF TerminatedAtMostOnce
CHECK_DEADLOCK FALSE
