---------------------------- MODULE TreeMonitor ----------------------------
(* Property monitors for C09, C10, C11 and C17 on recorded executions of a REAL goakt     *)
(* actor system (harness/cmd/tree).  It knows nothing about how goakt implements the tree: *)
(* only the observable contract.  One trace line per event:                               *)
(*   New      a fresh history (names, parent: the static shape; c = NumActors before)      *)
(*   Start    the initial actors are up                                                   *)
(*   prestart / psenter / psexit (n, i, k)   lifecycle callbacks of instance i of name n,  *)
(*                                           k-th incarnation                              *)
(*   term (n, i, w)       instance i of n received Terminated(w)                           *)
(*   henter / hexit       the message handler of a test actor                              *)
(*   call / ret (t, op, n, w, ok, i, run)   an operation of harness thread t               *)
(*   mut (d)              the tree after a mutation, projected under the tree lock          *)
(*   End (ok, c, d, run)  quiescence: NumActors, the tree                                  *)
(* Every line is consumed; violations are printed as <<"MISMATCH", prop, line, what>>.     *)
EXTENDS Integers, Sequences, FiniteSets, TLC, Json

Trace == ndJsonDeserialize("trace.ndjson")

VARIABLES l,
          names, par, base,
          ist,       \* [<<n, i>> -> [alive, k, psn]]   instances seen so far
          lastd,     \* the tree as of the last mutation
          open,      \* [thread -> [op, n, w, seen, dead]]  operation in progress
          retStopped,\* instances whose Stop has returned
          tc,        \* [<<w, wi, a>> -> Terminated(a) received by instance wi of w]
          pscount,   \* [name -> PostStop executions]
          watching, unw, unwAtPs, owed,
          sysret,
          gst        \* [grain -> "active" | "off"]

vars == <<l, names, par, base, ist, lastd, open, retStopped, tc, pscount, watching, unw, unwAtPs, owed, sysret, gst>>

Bad(prop, what) == PrintT(<<"MISMATCH", prop, l, what>>)
Check(cond, prop, what) == IF cond THEN TRUE ELSE Bad(prop, what)
SeqSet(s) == {s[j] : j \in 1..Len(s)}
Get(f, x, dflt) == IF x \in DOMAIN f THEN f[x] ELSE dflt
Upd(f, x, v) == [y \in DOMAIN f \cup {x} |-> IF y = x THEN v ELSE f[y]]

Keys == DOMAIN ist
Alive(key) == key \in Keys /\ ist[key].alive
AliveOf(n) == {key \in Keys : key[1] = n /\ ist[key].alive}
RECURSIVE IsAnc(_, _)
IsAnc(a, m) == IF m \notin DOMAIN par THEN FALSE ELSE IF par[m] = a THEN TRUE ELSE IF par[m] = "u" THEN FALSE ELSE IsAnc(a, par[m])
DescOf(n) == {m \in names : IsAnc(n, m)}
RegAs(d, key) == \E j \in 1..Len(d) : d[j].n = key[1] /\ d[j].i = key[2]
\* alive instances of descendants of n that the tree (as of its last mutation) holds
AliveRegDesc(n) == {key \in Keys : key[1] \in DescOf(n) /\ ist[key].alive /\ RegAs(lastd, key)}

Init == /\ l = 1 /\ names = {} /\ par = <<>> /\ base = 0 /\ ist = <<>> /\ lastd = <<>> /\ open = <<>>
        /\ retStopped = {} /\ tc = <<>> /\ pscount = <<>> /\ watching = {} /\ unw = {} /\ unwAtPs = <<>> /\ owed = {} /\ sysret = FALSE /\ gst = <<>>

SpawnOps == {"spawn", "spawnfn", "spawnchild"}

NodeNames(d) == {d[j].n : j \in 1..Len(d)}
Nd(d, n) == d[CHOOSE j \in 1..Len(d) : d[j].n = n]
Known(d, x) == x \in NodeNames(d) \/ x \in {"dw", "r"}
NodeOK(d, j) ==
  /\ \A c \in SeqSet(d[j].ch) : (c \in NodeNames(d) /\ Nd(d, c).par = d[j].n)
  /\ \A x \in SeqSet(d[j].wers) : (Known(d, x) /\ (x \in NodeNames(d) => d[j].n \in SeqSet(Nd(d, x).wees)))
  /\ \A y \in SeqSet(d[j].wees) : (Known(d, y) /\ (y \in NodeNames(d) => d[j].n \in SeqSet(Nd(d, y).wers)))
  /\ ((d[j].par \in NodeNames(d) /\ d[j].par # "r") => d[j].n \in SeqSet(Nd(d, d[j].par).ch))

\* ---------------------------------------------------------------- the checks, per event
Checks(e) ==
  CASE e.ev = "prestart" ->
         Check(AliveOf(e.n) \ {<<e.n, e.i>>} = {}, "C11", "two actors with the same name are alive at once")
    [] e.ev = "psenter" ->
         /\ Check(Get(ist, <<e.n, e.i>>, [psn |-> 0]).psn = 0, "C17", "PostStop ran twice for one incarnation")
         /\ Check(AliveRegDesc(e.n) = {}, "C09", "PostStop of an actor began while a registered descendant was still alive")
    [] e.ev = "term" ->
         /\ Check(Get(tc, <<e.n, e.i, e.w>>, 0) + 1 <= Get(pscount, e.w, 0), "C10", "more Terminated messages than terminations of the watched actor")
         /\ Check(e.n \notin Get(unwAtPs, e.w, {}), "C10", "Terminated delivered to a watcher whose UnWatch had returned before the termination")
    [] e.ev = "henter" ->
         Check(e.run = 0, "C17", "a message handler was entered after ActorSystem.Stop returned")
    [] e.ev = "ret" /\ e.ok = 1 /\ e.op \in SpawnOps ->
         /\ Check(e.i # 0, "C11", "Spawn returned a PID that no PreStart belongs to")
         /\ Check(e.i = 0 \/ <<e.n, e.i>> \in open[e.t].seen, "C11", "Spawn returned a PID that was not running at any time during the call")
    [] e.ev = "ret" /\ e.ok = 1 /\ e.op = "stop" ->
         Check(AliveRegDesc(e.n) = {}, "C09", "Stop returned while a registered descendant was still alive")
    [] e.ev = "ret" /\ e.ok = 1 /\ e.op = "actorof" ->
         Check(<<e.n, e.i>> \notin open[e.t].dead, "C09", "ActorOf resolved an actor whose Stop had already returned")
    [] e.ev = "ret" /\ e.op = "sysstop" ->
         /\ Check({key \in Keys : ist[key].alive} = {}, "C17", "an actor is still alive after ActorSystem.Stop returned")
         /\ Check(\A g \in DOMAIN gst : gst[g] # "active", "C17", "an active grain was not deactivated by ActorSystem.Stop")
    [] e.ev = "gdeact" ->
         Check(Get(gst, e.n, "off") = "active", "C17", "a grain was deactivated twice (or without being active)")
    [] e.ev = "ghandle" ->
         Check(e.run = 0, "C17", "a grain handled a message after ActorSystem.Stop returned")
    [] e.ev = "ret" /\ e.ok = 1 /\ e.op \in {"tell", "tellg"} ->
         Check(~open[e.t].late, "C17", "a send issued after ActorSystem.Stop had returned was accepted")
    [] e.ev = "End" /\ e.run = 1 ->
         LET live == {key \in Keys : ist[key].alive}  d == e.d
         IN
         /\ Check(e.c = base + Cardinality(live), "C11", "NumActors differs from the number of running user actors at quiescence")
         /\ Check(\A j \in 1..Len(d) : d[j].n = "u" \/ Alive(<<d[j].n, d[j].i>>), "C09", "a stopped actor is still registered at quiescence")
         /\ Check(\A j \in 1..Len(e.res) : Alive(<<e.res[j].n, e.res[j].i>>), "C09", "a stopped actor is still resolvable by name at quiescence")
         /\ Check(\A key \in live : RegAs(d, key), "C09", "a running actor is missing from the tree at quiescence")
         /\ Check(\A key \in live : par[key[1]] = "u" \/ (\E p \in AliveOf(par[key[1]]) : RegAs(d, p)), "C09", "a running actor's parent is gone at quiescence")
         /\ Check(\A j \in 1..Len(d) : NodeOK(d, j),
                  "C09", "parent / children / watcher relations of the tree are inconsistent at quiescence")
         /\ Check(\A o \in owed : ((Alive(<<o[1], o[2]>>) /\ ist[<<o[1], o[2]>>].k = 1) => Get(tc, o, 0) >= 1),
                  "C10", "a watcher that stayed running never received Terminated")
    [] OTHER -> TRUE

\* ---------------------------------------------------------------- state updates
Step ==
  /\ l <= Len(Trace)
  /\ l' = l + 1
  /\ LET e == Trace[l]  key == <<e.n, e.i>> IN
     /\ Checks(e)
     /\ names' = IF e.ev = "New" THEN SeqSet(e.names) ELSE names
     /\ par' = IF e.ev = "New" THEN e.parent ELSE par
     /\ base' = IF e.ev = "New" THEN e.c ELSE base
     /\ ist' = CASE e.ev = "New" -> <<>>
                 [] e.ev = "prestart" -> Upd(ist, key, [alive |-> TRUE, k |-> e.k, psn |-> 0])
                 [] e.ev = "psenter" -> Upd(ist, key, [Get(ist, key, [alive |-> TRUE, k |-> e.k, psn |-> 0]) EXCEPT !.psn = @ + 1])
                 [] e.ev = "psexit" -> Upd(ist, key, [Get(ist, key, [alive |-> TRUE, k |-> e.k, psn |-> 1]) EXCEPT !.alive = FALSE])
                 [] OTHER -> ist
     /\ lastd' = CASE e.ev = "New" -> <<>> [] e.ev \in {"mut", "Start"} -> e.d [] OTHER -> lastd
     /\ open' = CASE e.ev = "New" -> <<>>
                  [] e.ev = "call" -> Upd(open, e.t, [op |-> e.op, n |-> e.n, w |-> e.w,
                                                       seen |-> IF e.op \in SpawnOps THEN AliveOf(e.n) ELSE {},
                                                       dead |-> IF e.op = "actorof" THEN {k2 \in retStopped : k2[1] = e.n} ELSE {},
                                                       late |-> sysret])
                  [] e.ev = "prestart" -> [t \in DOMAIN open |-> IF open[t].op \in SpawnOps /\ open[t].n = e.n
                                                                   THEN [open[t] EXCEPT !.seen = @ \cup {key}] ELSE open[t]]
                  [] OTHER -> open
     /\ retStopped' = CASE e.ev = "New" -> {}
                        [] e.ev = "ret" /\ e.ok = 1 /\ e.op = "stop" ->
                             retStopped \cup {k2 \in Keys : (k2[1] = e.n \/ k2[1] \in DescOf(e.n)) /\ ~ist[k2].alive}
                        [] OTHER -> retStopped
     /\ tc' = CASE e.ev = "New" -> <<>>
                [] e.ev = "term" -> Upd(tc, <<e.n, e.i, e.w>>, Get(tc, <<e.n, e.i, e.w>>, 0) + 1)
                [] OTHER -> tc
     /\ pscount' = CASE e.ev = "New" -> <<>>
                     [] e.ev = "psenter" -> Upd(pscount, e.n, Get(pscount, e.n, 0) + 1)
                     [] OTHER -> pscount
     /\ watching' = CASE e.ev = "New" -> {<<x[1], x[2]>> : x \in SeqSet(e.watch)}
                      [] e.ev = "ret" /\ e.op = "watch" -> watching \cup {<<e.w, e.n>>}
                      [] e.ev = "call" /\ e.op = "unwatch" -> watching \ {<<e.w, e.n>>}
                      [] e.ev = "psexit" -> {x \in watching : x[1] # e.n /\ x[2] # e.n}   \* a stopped watcher or watchee ends the relation
                      [] OTHER -> watching
     /\ unw' = CASE e.ev = "New" -> {}
                 [] e.ev = "ret" /\ e.op = "unwatch" -> unw \cup {<<e.w, e.n>>}
                 [] e.ev = "call" /\ e.op = "watch" -> unw \ {<<e.w, e.n>>}
                 [] OTHER -> unw
     /\ unwAtPs' = CASE e.ev = "New" -> <<>>
                     [] e.ev = "psenter" -> Upd(unwAtPs, e.n, {x[1] : x \in {y \in unw : y[2] = e.n}})
                     [] e.ev = "call" /\ e.op = "watch" -> Upd(unwAtPs, e.n, Get(unwAtPs, e.n, {}) \ {e.w})   \* re-watched: it may see the snapshot
                     [] OTHER -> unwAtPs
     /\ owed' = CASE e.ev = "New" -> {}
                  [] e.ev = "psexit" -> owed \cup {<<a[1], a[2], e.n>> : a \in {b \in Keys : ist[b].alive /\ <<b[1], e.n>> \in watching}}
                  [] e.ev = "call" /\ e.op = "unwatch" -> {o \in owed : ~(o[1] = e.w /\ o[3] = e.n)}   \* it may win the race with the snapshot
                  [] OTHER -> owed
     /\ gst' = CASE e.ev = "New" -> <<>>
                 [] e.ev = "gact" -> Upd(gst, e.n, "active")
                 [] e.ev = "gdeact" -> Upd(gst, e.n, "off")
                 [] OTHER -> gst
     /\ sysret' = CASE e.ev = "New" -> FALSE
                    [] e.ev = "ret" /\ e.op = "sysstop" -> TRUE
                    [] OTHER -> sysret

Spec == Init /\ [][Step]_vars
=============================================================================
