SPECIFICATION Spec
CONSTANTS
  Names <- S_sysstop_Names
  NameSeq <- S_sysstop_Seq
  ParentOf <- S_sysstop_Par
  Init <- S_sysstop_Init
  InitWatch <- S_sysstop_Watch
  Prog <- S_sysstop_Prog
  After <- S_sysstop_After
  MaxInc = 1
  MaxPerm = 1
  Defects = {}
VIEW View
INVARIANTS TreeWF PostStopOnce AtMostOneRunning TerminatedAtMostOnce TerminatedDelivered SpawnReturnsLive CounterSettles ChildrenFirst StopIsComplete ResolvesLiveOnly LiveAreRegistered NoStaleNode ParentsLive SystemStopComplete
CHECK_DEADLOCK FALSE
