SPECIFICATION Spec
CONSTANTS
  Names <- S_child1_Names
  NameSeq <- S_child1_Seq
  ParentOf <- S_child1_Par
  Init <- S_child1_Init
  InitWatch <- S_child1_Watch
  Prog <- S_child1_Prog
  After <- S_child1_After
  MaxInc = 1
  MaxPerm = 1
  Defects <- AllDefects
VIEW View
INVARIANTS TreeWF PostStopOnce AtMostOneRunning TerminatedAtMostOnce TerminatedDelivered SpawnReturnsLive CounterSettles ChildrenFirst StopIsComplete ResolvesLiveOnly LiveAreRegistered NoStaleNode ParentsLive SystemStopComplete
CHECK_DEADLOCK FALSE
