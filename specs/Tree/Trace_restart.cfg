SPECIFICATION TraceSpec
CONSTANTS
  Names <- S_restart_Names
  NameSeq <- S_restart_Seq
  ParentOf <- S_restart_Par
  Init <- S_restart_Init
  InitWatch <- S_restart_Watch
  Prog <- S_restart_Prog
  After <- S_restart_After
  MaxInc = 1
  MaxPerm = 1
  Defects <- AllDefects
INVARIANTS TreeWF TerminatedAtMostOnce
CHECK_DEADLOCK FALSE
