SPECIFICATION TraceSpec
CONSTANTS
  Names <- S_watch_Names
  NameSeq <- S_watch_Seq
  ParentOf <- S_watch_Par
  Init <- S_watch_Init
  InitWatch <- S_watch_Watch
  Prog <- S_watch_Prog
  After <- S_watch_After
  MaxInc = 1
  MaxPerm = 2
  Defects <- AllDefects
INVARIANTS TreeWF TerminatedAtMostOnce
CHECK_DEADLOCK FALSE
