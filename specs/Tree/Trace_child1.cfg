SPECIFICATION TraceSpec
CONSTANTS
  Names <- S_child1_Names
  NameSeq <- S_child1_Seq
  ParentOf <- S_child1_Par
  Init <- S_child1_Init
  InitWatch <- S_child1_Watch
  Prog <- S_child1_Prog
  After <- S_child1_After
  MaxInc = 1
  MaxPerm = 1
  Defects <- AllDefects
INVARIANTS TreeWF TerminatedAtMostOnce
CHECK_DEADLOCK FALSE
