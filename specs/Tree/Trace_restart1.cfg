SPECIFICATION TraceSpec
CONSTANTS
  Names <- S_restart1_Names
  NameSeq <- S_restart1_Seq
  ParentOf <- S_restart1_Par
  Init <- S_restart1_Init
  InitWatch <- S_restart1_Watch
  Prog <- S_restart1_Prog
  After <- S_restart1_After
  MaxInc = 1
  MaxPerm = 1
  Defects <- AllDefects
INVARIANTS TreeWF TerminatedAtMostOnce
CHECK_DEADLOCK FALSE
