SPECIFICATION Spec
CONSTANTS
  Names <- S_spawn2n_Names
  NameSeq <- S_spawn2n_Seq
  ParentOf <- S_spawn2n_Par
  Init <- S_spawn2n_Init
  InitWatch <- S_spawn2n_Watch
  Prog <- S_spawn2n_Prog
  After <- S_spawn2n_After
  MaxInc = 2
  MaxPerm = 1
  Defects <- AllDefects
VIEW View
INVARIANTS TreeWF TerminatedAtMostOnce
CHECK_DEADLOCK FALSE
