SPECIFICATION Spec
CONSTANTS
  Names <- S_cancelsp_Names
  NameSeq <- S_cancelsp_Seq
  ParentOf <- S_cancelsp_Par
  Init <- S_cancelsp_Init
  InitWatch <- S_cancelsp_Watch
  Prog <- S_cancelsp_Prog
  After <- S_cancelsp_After
  MaxInc = 2
  MaxPerm = 1
  Defects = {}
VIEW View
INVARIANTS TreeWF PostStopOnce AtMostOneRunning TerminatedAtMostOnce TerminatedDelivered SpawnReturnsLive CounterSettles ChildrenFirst StopIsComplete ResolvesLiveOnly LiveAreRegistered NoStaleNode ParentsLive SystemStopComplete
CHECK_DEADLOCK FALSE
