SPECIFICATION TraceSpec
CONSTANTS
  Names <- S_cancelsp_Names
  NameSeq <- S_cancelsp_Seq
  ParentOf <- S_cancelsp_Par
  Init <- S_cancelsp_Init
  InitWatch <- S_cancelsp_Watch
  Prog <- S_cancelsp_Prog
  After <- S_cancelsp_After
  MaxInc = 2
  MaxPerm = 1
  Defects <- AllDefects
INVARIANTS TreeWF TerminatedAtMostOnce
CHECK_DEADLOCK FALSE
