SPECIFICATION TraceSpec
CONSTANTS
  Names <- S_wrestart_Names
  NameSeq <- S_wrestart_Seq
  ParentOf <- S_wrestart_Par
  Init <- S_wrestart_Init
  InitWatch <- S_wrestart_Watch
  Prog <- S_wrestart_Prog
  After <- S_wrestart_After
  MaxInc = 1
  MaxPerm = 1
  Defects <- AllDefects
INVARIANTS TreeWF TerminatedAtMostOnce
CHECK_DEADLOCK FALSE
