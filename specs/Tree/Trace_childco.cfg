SPECIFICATION TraceSpec
CONSTANTS
  Names <- S_childco_Names
  NameSeq <- S_childco_Seq
  ParentOf <- S_childco_Par
  Init <- S_childco_Init
  InitWatch <- S_childco_Watch
  Prog <- S_childco_Prog
  After <- S_childco_After
  MaxInc = 2
  MaxPerm = 1
  Defects <- AllDefects
INVARIANTS TreeWF TerminatedAtMostOnce
CHECK_DEADLOCK FALSE
