------------------------------- MODULE Tree -------------------------------
(* The actor tree of goakt and the lifecycle operations that read and write it, at the   *)
(* granularity of ONE ACTION PER TREE OPERATION (actor/pid_tree.go: every operation is    *)
(* one critical section of tree.mu) plus the lifecycle callbacks and the hand-over        *)
(* points between goroutines:                                                             *)
(*   spawn        actor/spawn.go Spawn / SpawnNamedFromFunc / pid.go spawnChildLocal,     *)
(*                runSpawnActivation (single flight: leader runs fn on its own goroutine, *)
(*                followers wait), actor_system.go attachAndPublish (counter, addNode,    *)
(*                duplicate branch, addWatcher(deathWatch))                                *)
(*   stop         pid.go Shutdown / doStop: stopLocker, freeWatchees (snapshot, UnWatch    *)
(*                each), freeChildren (snapshot, one goroutine per child: UnWatch,         *)
(*                removeDescendant, child.Shutdown; join), PostStop, freeWatchers          *)
(*                (snapshot; per watcher IsRunning/Tell Terminated, UnWatch), reset        *)
(*   death watch  death_watch.go handleTerminated: node lookup, counter, deleteNode        *)
(*   Watch/UnWatch, ActorOf, Kill (lookup by name, then Shutdown), PoisonPill (Shutdown    *)
(*   on the actor's own dispatcher worker), Restart (restartSubtree of a leaf), and        *)
(*   ActorSystem.Stop (user guardian subtree, then the rest as one step).                  *)
(* Every action is exactly one gate of the puppet scheduler in harness/cmd/tree, so a     *)
(* path of this model is a schedule that is executed on a REAL actor system.              *)
(*                                                                                        *)
(* Deviations of the code from the intended design are named branches guarded by          *)
(* `d \in Defects`; Defects = {} is the repaired design, Defects = AllDefects the code     *)
(* as it is.                                                                              *)
EXTENDS Integers, Sequences, FiniteSets, TLC

CONSTANTS Names,      \* names of the test actors
          NameSeq,    \* the same names as a sequence in ascending (Go string) order
          ParentOf,   \* [Names -> Names \cup {"u"}]   static parent of every name ("u" = user guardian)
          Init,       \* names that are spawned (running, registered, watched by parent and death watch) at the start
          InitWatch,  \* set of <<watcher, watchee>> explicit Watch relations at the start
          Prog,       \* [thread -> Seq([op, n, w])]   the operations every harness thread performs
          After,      \* [thread -> name or ""]  thread runs inside that actor's PostStart handler (its dispatcher worker)
          MaxInc,     \* PID objects per name (bounds re-spawning)
          MaxPerm,    \* 1: tree snapshots iterate in ascending name order; 2: ascending or descending
          Defects

AllDefects == {"StaleDup", "LeakDup", "StaleTerminated", "ResolveStopped", "OrphanAttach", "LateChild", "OverlapStop", "WatchGap", "RestartRace"}
Has(d) == d \in Defects

U == "u"
NoPid == <<"", 0>>
UP == <<U, 1>>                  \* user guardian
DWP == <<"dw", 1>>              \* death watch
RP == <<"r", 1>>                \* root guardian (watches the user guardian)
NodeIds == Names \cup {U}
Threads == DOMAIN Prog
TestPids == Names \X (1..MaxInc)
Pids == TestPids \cup {UP, DWP, RP}
Stoppers == ({"t"} \X Threads) \cup ({"b", "w"} \X Names)
NoS == <<"", "">>

VARIABLES node,       \* [NodeIds -> [reg, pid, desc, wers, wees]]   tree.pids / tree.names (test names are distinct)
          counter,    \* actorSystem.actorsCounter
          pst,        \* [Pids -> "none" | "running" | "stopping" | "stopped"]  lifecycle flags of the PID object
          pre, psn,   \* [Pids -> Nat] PreStart / PostStop executions of the PID object
          ninc,       \* [Names -> Nat] PID objects created so far
          lockh,      \* [Pids -> stopper holding pid.stopLocker]
          dwq, dwpc, dwm,   \* death watch: mailbox of Terminated(name), pc, pid in hand
          pc, ip, tl, \* harness threads: pc, index into Prog, locals
          spc, sp, slist, sbr, bpar,   \* stoppers (a goroutine inside Shutdown(sp)): pc, target, snapshot rest, branches, parent
          fl,         \* [Names -> flight of the single-flight group for that key]
          sysst,      \* "up" | "stopping" | "dead"
          dlv, terms, owed,   \* Terminated accepted per <<watcher, watchee>>; terminations begun; obligations
          viol,       \* property violations observed at the step where they occur
          wit,        \* defect branches taken (witness, for classification of real violations)
          last        \* label of the last action

treev == <<node, counter>>
lifev == <<pst, pre, psn, ninc, lockh>>
dwv == <<dwq, dwpc, dwm>>
thv == <<pc, ip, tl>>
stv == <<spc, sp, slist, sbr, bpar>>
histv == <<dlv, terms, owed, viol, wit>>
vars == <<node, counter, pst, pre, psn, ninc, lockh, dwq, dwpc, dwm, pc, ip, tl, spc, sp, slist, sbr, bpar, fl, sysst, dlv, terms, owed, viol, wit, last>>

\* ---------------------------------------------------------------- helpers
NoNode == [reg |-> FALSE, pid |-> NoPid, desc |-> {}, wers |-> {}, wees |-> {}]
NoFlight == [pc |-> "none", pid |-> NoPid, waiters |-> {}, child |-> FALSE, alive |-> {}, leader |-> "", cancelled |-> FALSE]
ByName(S, nm) == {x \in S : x[1] = nm}
Put(S, p) == (S \ ByName(S, p[1])) \cup {p}            \* the maps are keyed by id
Del(S, nm) == S \ ByName(S, nm)
ParPid(n) == IF ParentOf[n] = U THEN UP ELSE <<ParentOf[n], 1>>
Run(p) == pst[p] = "running"                           \* PID.IsRunning: running and not stopping
RunFlag(p) == pst[p] \in {"running", "stopping"}       \* isStateSet(runningState)
Reg(nd, nm) == IF nm \in NodeIds THEN nd[nm].reg ELSE TRUE

Rk(nm) == IF nm = "dw" THEN 0 ELSE IF nm = "r" THEN 1 ELSE IF nm = U THEN 2
          ELSE 2 + (CHOOSE i \in 1..Len(NameSeq) : NameSeq[i] = nm)
RECURSIVE SortPids(_)
SortPids(S) == IF S = {} THEN <<>>
              ELSE LET m == CHOOSE x \in S : \A y \in S : Rk(x[1]) <= Rk(y[1]) IN <<m>> \o SortPids(S \ {m})
Rev(s) == [i \in 1..Len(s) |-> s[Len(s) + 1 - i]]
Order(S, k) == IF k = 1 THEN SortPids(S) ELSE Rev(SortPids(S))
Orders(S) == IF Cardinality(S) >= 2 THEN 1..MaxPerm ELSE {1}

\* tree operations (pid_tree.go), as functions on the node map
AddWatcherT(nd, p, w) ==          \* addWatcher(pid p, watcher w): both must be registered (by id)
  IF ~(Reg(nd, p[1]) /\ Reg(nd, w[1])) THEN nd
  ELSE LET n1 == IF p[1] \in NodeIds THEN [nd EXCEPT ![p[1]].wers = Put(@, w)] ELSE nd
       IN IF w[1] \in NodeIds THEN [n1 EXCEPT ![w[1]].wees = Put(@, p)] ELSE n1
RemoveWatcherT(nd, watchee, watcher) ==
  LET n1 == IF watcher[1] \in NodeIds /\ nd[watcher[1]].reg THEN [nd EXCEPT ![watcher[1]].wees = Del(@, watchee[1])] ELSE nd
  IN IF watchee[1] \in NodeIds /\ n1[watchee[1]].reg THEN [n1 EXCEPT ![watchee[1]].wers = Del(@, watcher[1])] ELSE n1
RemoveDescT(nd, par, ch) == IF par \in NodeIds /\ nd[par].reg THEN [nd EXCEPT ![par].desc = @ \ {ch}] ELSE nd
AddNodeT(nd, p) ==                \* addNodeLocked(parent, p): p's id is free, the parent is registered
  LET par == ParentOf[p[1]]
      n1 == [nd EXCEPT ![p[1]] = [reg |-> TRUE, pid |-> p, desc |-> {},
                               wers |-> IF Has("WatchGap") THEN {ParPid(p[1])} ELSE {ParPid(p[1]), DWP}, wees |-> {}]]
  IN [n1 EXCEPT ![par].desc = @ \cup {p[1]}, ![par].wees = Put(@, p)]
AttachT(nd, p) ==                 \* attachNodeLocked(parent, p): a node with p's id exists (whatever PID it holds)
  LET par == ParentOf[p[1]]
      n1 == [nd EXCEPT ![p[1]].wers = Put(@, ParPid(p[1]))]
  IN [n1 EXCEPT ![par].desc = @ \cup {p[1]}, ![par].wees = Put(@, p)]
RECURSIVE Sub(_, _)
Sub(nd, S) == LET nx == S \cup UNION {nd[x].desc : x \in S} IN IF nx = S THEN S ELSE Sub(nd, nx)
DeleteT(nd, root) ==              \* deleteNode: the node and its whole subtree, all relations to them
  IF ~nd[root].reg THEN nd
  ELSE LET D == Sub(nd, {root}) IN
       [x \in NodeIds |-> IF x \in D THEN NoNode
                          ELSE IF nd[x].reg THEN [nd[x] EXCEPT !.wees = {p \in @ : p[1] \notin D},
                                                                 !.wers = {p \in @ : p[1] \notin D},
                                                                 !.desc = @ \ D]
                          ELSE nd[x]]

RECURSIVE Anc(_)
Anc(n) == IF n = U THEN {} ELSE {ParentOf[n]} \cup Anc(ParentOf[n])     \* proper ancestors of a name
DescNames(n) == {m \in Names : n \in Anc(m)}

CurOp(t) == Prog[t][ip[t]]
Done(t) == /\ ip' = [ip EXCEPT ![t] = @ + 1]
           /\ pc' = [pc EXCEPT ![t] = IF ip[t] + 1 > Len(Prog[t]) THEN "done" ELSE "call"]
Goto(t, l) == pc' = [pc EXCEPT ![t] = l] /\ UNCHANGED ip

\* ---------------------------------------------------------------- initial state
InitNode == [x \in NodeIds |->
   IF x = U THEN [reg |-> TRUE, pid |-> UP, desc |-> {n \in Init : ParentOf[n] = U},
                  wers |-> {RP}, wees |-> {<<n, 1>> : n \in {m \in Init : ParentOf[m] = U}}]
   ELSE IF x \in Init THEN [reg |-> TRUE, pid |-> <<x, 1>>, desc |-> {n \in Init : ParentOf[n] = x},
                            wers |-> {ParPid(x), DWP} \cup {<<e[1], 1>> : e \in {f \in InitWatch : f[2] = x}},
                            wees |-> {<<n, 1>> : n \in {m \in Init : ParentOf[m] = x}} \cup {<<e[2], 1>> : e \in {f \in InitWatch : f[1] = x}}]
   ELSE NoNode]

IV == [node |-> InitNode, counter |-> Cardinality(Init),
       pst |-> [p \in Pids |-> IF p \in {UP, DWP, RP} \/ (p[2] = 1 /\ p[1] \in Init) THEN "running" ELSE "none"],
       pre |-> [p \in Pids |-> IF p[2] = 1 /\ p[1] \in Init THEN 1 ELSE 0],
       psn |-> [p \in Pids |-> 0],
       ninc |-> [n \in Names |-> IF n \in Init THEN 1 ELSE 0],
       lockh |-> [p \in Pids |-> NoS],
       pc |-> [t \in Threads |-> IF Len(Prog[t]) = 0 THEN "done" ELSE "call"], ip |-> [t \in Threads |-> 1],
       tl |-> [t \in Threads |-> [did |-> FALSE, was |-> FALSE, re |-> FALSE]],
       spc |-> [s \in Stoppers |-> "idle"], sp |-> [s \in Stoppers |-> NoPid], slist |-> [s \in Stoppers |-> <<>>],
       sbr |-> [s \in Stoppers |-> {}], bpar |-> [s \in Stoppers |-> NoPid],
       fl |-> [n \in Names |-> NoFlight],
       dlv |-> [e \in TestPids \X TestPids |-> 0], terms |-> [p \in Pids |-> 0]]

Init0 ==
  /\ node = IV.node /\ counter = IV.counter /\ pst = IV.pst /\ pre = IV.pre /\ psn = IV.psn /\ ninc = IV.ninc /\ lockh = IV.lockh
  /\ dwq = <<>> /\ dwpc = "idle" /\ dwm = <<NoPid, 0>>
  /\ pc = IV.pc /\ ip = IV.ip /\ tl = IV.tl
  /\ spc = IV.spc /\ sp = IV.sp /\ slist = IV.slist /\ sbr = IV.sbr /\ bpar = IV.bpar
  /\ fl = IV.fl /\ sysst = "up"
  /\ dlv = IV.dlv /\ terms = IV.terms /\ owed = {}
  /\ viol = {} /\ wit = {} /\ last = <<"init">>

\* back to the initial state (trace validation: a new history begins)
Reset ==
  /\ node' = IV.node /\ counter' = IV.counter /\ pst' = IV.pst /\ pre' = IV.pre /\ psn' = IV.psn /\ ninc' = IV.ninc /\ lockh' = IV.lockh
  /\ dwq' = <<>> /\ dwpc' = "idle" /\ dwm' = <<NoPid, 0>>
  /\ pc' = IV.pc /\ ip' = IV.ip /\ tl' = IV.tl
  /\ spc' = IV.spc /\ sp' = IV.sp /\ slist' = IV.slist /\ sbr' = IV.sbr /\ bpar' = IV.bpar
  /\ fl' = IV.fl /\ sysst' = "up"
  /\ dlv' = IV.dlv /\ terms' = IV.terms /\ owed' = {}
  /\ viol' = {} /\ wit' = {} /\ last' = <<"init">>

\* ---------------------------------------------------------------- single-flight spawn
\* the flight's fn returned: DoChan hands the result to every waiter and forgets the key
Complete(n, res) ==
  /\ fl' = [fl EXCEPT ![n] = NoFlight]
  /\ pc' = [t \in Threads |-> IF t \in fl[n].waiters THEN (IF ip[t] + 1 > Len(Prog[t]) THEN "done" ELSE "call") ELSE pc[t]]
  /\ ip' = [t \in Threads |-> IF t \in fl[n].waiters THEN ip[t] + 1 ELSE ip[t]]
  /\ UNCHANGED tl

NewPid(n) == <<n, ninc[n] + 1>>

\* spawn.sf: DoChan - first caller for the key becomes the leader (fn starts on a new goroutine), others join
SpSf(t) ==
  /\ pc[t] = "sf" /\ last' = <<"SpSf", t>>
  /\ LET o == CurOp(t) IN
     /\ fl' = [fl EXCEPT ![o.n] = IF @.pc = "none"
                                  THEN [pc |-> "start", pid |-> NoPid, waiters |-> {t}, child |-> (o.op = "spawnchild"),
                                        alive |-> {p \in TestPids : p[1] = o.n /\ pst[p] = "running"}, leader |-> t, cancelled |-> FALSE]
                                  ELSE [@ EXCEPT !.waiters = @ \cup {t}]]
     /\ Goto(t, "wait")
  /\ UNCHANGED <<treev, lifev, dwv, tl, stv, sysst, histv>>

\* spawn.fn: the leader's fn begins.  Spawn: checkSpawnPreconditions, up to the lookup by name.
\* SpawnChild: findRunningChild (tree.node), then newPID up to the PreStart callback.
FlStart(n) ==
  /\ fl[n].pc = "start" /\ last' = <<"FlStart", n>>
  /\ IF ~fl[n].child
     THEN fl' = [fl EXCEPT ![n].pc = "lookup"] /\ UNCHANGED <<thv, ninc>>
     ELSE IF node[n].reg /\ Run(node[n].pid)
          THEN Complete(n, node[n].pid) /\ UNCHANGED ninc
          ELSE /\ ninc[n] < MaxInc
               /\ fl' = [fl EXCEPT ![n].pc = "prestart", ![n].pid = NewPid(n)]
               /\ ninc' = [ninc EXCEPT ![n] = @ + 1] /\ UNCHANGED thv
  /\ UNCHANGED <<treev, pst, pre, psn, lockh, dwv, stv, sysst, histv>>

\* tree.nodeByName in Spawn / SpawnNamedFromFunc: a running actor of that name is returned as is
FlLookup(n) ==
  /\ fl[n].pc = "lookup" /\ last' = <<"FlLookup", n>>
  /\ IF node[n].reg /\ Run(node[n].pid)
     THEN Complete(n, node[n].pid) /\ UNCHANGED ninc
     ELSE /\ ninc[n] < MaxInc
          /\ fl' = [fl EXCEPT ![n].pc = "prestart", ![n].pid = NewPid(n)]
          /\ ninc' = [ninc EXCEPT ![n] = @ + 1] /\ UNCHANGED thv
  /\ UNCHANGED <<treev, pst, pre, psn, lockh, dwv, stv, sysst, histv>>

\* The context of the caller that leads the flight ("spawnx": Spawn with a cancellable context) is cancelled while its
\* fn is parked before PreStart: that caller returns ctx.Err() at once, the flight goes on under the dead context.
SpCancel(t) ==
  /\ pc[t] = "wait" /\ CurOp(t).op = "spawnx" /\ last' = <<"SpCancel", t>>
  /\ LET n == CurOp(t).n IN
     /\ fl[n].pc = "prestart" /\ fl[n].leader = t /\ ~fl[n].cancelled
     /\ fl' = [fl EXCEPT ![n].cancelled = TRUE, ![n].waiters = @ \ {t}]
  /\ Done(t)
  /\ UNCHANGED <<treev, lifev, dwv, tl, stv, sysst, histv>>

\* fn failed with the leader's context.Canceled: every waiter whose own context is live goes back to DoChan once
\* (runSpawnActivation's retry), so the re-runs are serialized by the single flight again
CompleteCancelled(n) ==
  /\ fl' = [fl EXCEPT ![n] = NoFlight]
  /\ pc' = [t \in Threads |-> IF t \in fl[n].waiters THEN (IF tl[t].re THEN (IF ip[t] + 1 > Len(Prog[t]) THEN "done" ELSE "call") ELSE "sf") ELSE pc[t]]
  /\ ip' = [t \in Threads |-> IF t \in fl[n].waiters /\ tl[t].re THEN ip[t] + 1 ELSE ip[t]]
  /\ tl' = [t \in Threads |-> IF t \in fl[n].waiters THEN [tl[t] EXCEPT !.re = TRUE] ELSE tl[t]]

\* PreStart runs (init): the new PID is running (and tell-able) but not yet in the tree; PostStart is queued;
\* attachAndPublish counts the actor, up to tree.addNode.  Under a cancelled context PreStart fails: no actor.
FlPreStart(n) ==
  /\ fl[n].pc = "prestart" /\ last' = <<"FlPreStart", n>>
  /\ LET p == fl[n].pid IN
     IF fl[n].cancelled
     THEN /\ ninc' = [ninc EXCEPT ![n] = @ - 1]          \* the PID object never came to life
          /\ CompleteCancelled(n)
          /\ UNCHANGED <<counter, pst, pre>>
     ELSE /\ pst' = [pst EXCEPT ![p] = "running"] /\ pre' = [pre EXCEPT ![p] = @ + 1]
          /\ counter' = counter + 1
          /\ fl' = [fl EXCEPT ![n].pc = "attach", ![n].alive = @ \cup {p}]
          /\ UNCHANGED <<ninc, thv>>
  /\ UNCHANGED <<node, psn, lockh, dwv, stv, sysst, histv>>

\* tree.addNode and the duplicate branch of attachAndPublish
FailSpawn(n, p) ==     \* repaired designs only: the spawn returns an error and the new actor is stopped again
  /\ counter' = counter - 1
  /\ pst' = [pst EXCEPT ![p] = "stopped"] /\ psn' = [psn EXCEPT ![p] = @ + 1]
  /\ Complete(n, NoPid) /\ UNCHANGED <<node, histv>>
FlAttach(n) ==
  /\ fl[n].pc = "attach" /\ last' = <<"FlAttach", n>>
  /\ LET p == fl[n].pid  par == ParentOf[n]  can == node[n].pid
         deadpar == par # U /\ ~Run(ParPid(n)) IN
     IF deadpar /\ ~Has("LateChild") THEN FailSpawn(n, p)     \* repaired: no child is attached to a parent that is going down
     ELSE IF node[n].reg
     THEN \* errNodeAlreadyExists: hand back the canonical instance, undo the counter, leave the duplicate alone
          IF Run(can)
          THEN /\ counter' = counter - 1
               /\ IF Has("LeakDup") THEN pst' = pst /\ psn' = psn /\ wit' = wit \cup {"LeakDup"}
                                    ELSE pst' = [pst EXCEPT ![p] = "stopped"] /\ psn' = [psn EXCEPT ![p] = @ + 1] /\ wit' = wit
               /\ viol' = IF can \in fl[n].alive THEN viol ELSE viol \cup {"SpawnDead"}
               /\ Complete(n, can) /\ UNCHANGED <<node, dlv, terms, owed>>
          ELSE IF Has("StaleDup")
               THEN \* the registered PID is stopping, or stopped and not yet reaped by the death watch: it is returned anyway
                    /\ counter' = counter - 1 /\ wit' = wit \cup {"StaleDup"}
                    /\ viol' = IF can \in fl[n].alive THEN viol ELSE viol \cup {"SpawnDead"}
                    /\ Complete(n, can) /\ UNCHANGED <<node, pst, psn, dlv, terms, owed>>
               ELSE IF pst[can] = "stopping"
               THEN FailSpawn(n, p)     \* repaired: the name is still being torn down
               ELSE \* repaired: the dead entry is reaped inline and the new actor takes its place
                    /\ node' = AddNodeT(DeleteT(node, n), p)
                    /\ fl' = [fl EXCEPT ![n].pc = "addw"]
                    /\ UNCHANGED <<counter, pst, psn, thv, histv>>
     ELSE IF ~node[par].reg
          THEN \* "parent pid does not exist": the error is dropped, the actor stays running outside the tree
               IF Has("OrphanAttach")
               THEN /\ fl' = [fl EXCEPT ![n].pc = "addw"] /\ wit' = wit \cup {"OrphanAttach"}
                    /\ UNCHANGED <<treev, pst, psn, thv, dlv, terms, owed, viol>>
               ELSE FailSpawn(n, p)
          ELSE /\ node' = AddNodeT(node, p)
               /\ fl' = [fl EXCEPT ![n].pc = "addw"]
               /\ wit' = IF deadpar THEN wit \cup {"LateChild"} ELSE wit
               /\ UNCHANGED <<counter, pst, psn, thv, dlv, terms, owed, viol>>
  /\ UNCHANGED <<pre, ninc, lockh, dwv, stv, sysst>>

\* tree.addWatcher(pid, deathWatch); publication is a no-op outside cluster mode; fn returns the new PID
FlAddW(n) ==
  /\ fl[n].pc = "addw" /\ last' = <<"FlAddW", n>>
  /\ LET p == fl[n].pid IN
     /\ node' = AddWatcherT(node, p, DWP)
     /\ viol' = IF p \in fl[n].alive THEN viol ELSE viol \cup {"SpawnDead"}
     /\ Complete(n, p)
  /\ UNCHANGED <<counter, lifev, dwv, stv, sysst, dlv, terms, owed, wit>>

\* ---------------------------------------------------------------- Shutdown (a "stopper" s stops sp[s])
InPS(q) == \E s \in Stoppers : sp[s] = q /\ spc[s] = "psexit"
\* q is part of the tree and its PostStop has not completed
AliveIn(q) == RunFlag(q) /\ (psn[q] < pre[q] \/ InPS(q)) /\ node[q[1]].reg /\ node[q[1]].pid = q
\* the Shutdown call of stopper s returns to its caller
Cont(s) ==
  /\ spc' = [spc EXCEPT ![s] = "idle"]
  /\ IF s[1] = "t"
     THEN /\ UNCHANGED sbr
          /\ LET t == s[2]  o == CurOp(t) IN
             IF o.op = "restart" THEN Goto(t, "rs_wait")
             ELSE IF o.op = "sysstop" THEN Goto(t, "ss_rest")
             ELSE Done(t)
     ELSE IF s[1] = "b" THEN sbr' = [q \in Stoppers |-> sbr[q] \ {s}] /\ UNCHANGED <<pc, ip>>
     ELSE UNCHANGED <<sbr, pc, ip>>

SetPc(s, l) == spc' = [spc EXCEPT ![s] = l] /\ UNCHANGED <<sbr, pc, ip>>
PsPhase(p) == IF p = UP THEN "wers" ELSE "psenter"

\* stop.lock: stopLocker.Lock(); a PID that is not running any more is left alone
StLock(s) ==
  /\ spc[s] = "lock" /\ lockh[sp[s]] = NoS /\ last' = <<"StLock", s>>
  /\ LET p == sp[s] IN
     IF RunFlag(p)
     THEN /\ lockh' = [lockh EXCEPT ![p] = s] /\ pst' = [pst EXCEPT ![p] = "stopping"]
          /\ terms' = [terms EXCEPT ![p] = @ + 1]
          /\ tl' = IF s[1] = "t" THEN [tl EXCEPT ![s[2]].did = TRUE] ELSE tl
          /\ SetPc(s, "wees")
     ELSE /\ Cont(s) /\ UNCHANGED <<lockh, pst, terms, tl>>
  /\ UNCHANGED <<treev, pre, psn, ninc, dwv, sp, slist, bpar, fl, sysst, dlv, owed, viol, wit>>

\* after freeWatchees: freeChildren looks the node up (tree.node); without a node there are no children to free
AfterWees(nd, p) == IF Reg(nd, p[1]) /\ nd[p[1]].reg THEN "fckids" ELSE PsPhase(p)

\* tree.watchees: snapshot
StWees(s, k) ==
  /\ spc[s] = "wees" /\ last' = <<"StWees", s, k>>
  /\ LET p == sp[s]  S == IF node[p[1]].reg THEN node[p[1]].wees ELSE {} IN
     /\ k \in Orders(S)
     /\ slist' = [slist EXCEPT ![s] = Order(S, k)]
     /\ SetPc(s, IF S = {} THEN AfterWees(node, p) ELSE "unw")
  /\ UNCHANGED <<treev, lifev, dwv, tl, sp, bpar, fl, sysst, histv>>

\* tree.removeWatcher: pid.UnWatch(watchee)
StUnwee(s) ==
  /\ spc[s] = "unw" /\ last' = <<"StUnwee", s>>
  /\ LET p == sp[s]  h == Head(slist[s])  nd == RemoveWatcherT(node, h, p) IN
     /\ node' = nd
     /\ slist' = [slist EXCEPT ![s] = Tail(@)]
     /\ SetPc(s, IF Len(slist[s]) = 1 THEN AfterWees(nd, p) ELSE "unw")
  /\ UNCHANGED <<counter, lifev, dwv, tl, sp, bpar, fl, sysst, histv>>

\* tree.children: snapshot; one goroutine per child is started, the stopper waits for all of them
StFcKids(s, k) ==
  /\ spc[s] = "fckids" /\ last' = <<"StFcKids", s, k>>
  /\ LET p == sp[s]
         C == IF node[p[1]].reg THEN {node[c].pid : c \in {d \in node[p[1]].desc : node[d].reg}} ELSE {}
         B == {<<"b", c[1]>> : c \in C} IN
     /\ k \in Orders(C)
     /\ \A b \in B : spc[b] = "idle"
     /\ IF C = {} THEN SetPc(s, PsPhase(p)) /\ UNCHANGED <<sp, bpar>>
        ELSE /\ spc' = [q \in Stoppers |-> IF q = s THEN "join" ELSE IF q \in B THEN "b_unw" ELSE spc[q]]
             /\ sp' = [q \in Stoppers |-> IF q \in B THEN (CHOOSE c \in C : c[1] = q[2]) ELSE sp[q]]
             /\ bpar' = [q \in Stoppers |-> IF q \in B THEN p ELSE bpar[q]]
             /\ sbr' = [sbr EXCEPT ![s] = B] /\ UNCHANGED <<pc, ip>>
  /\ UNCHANGED <<treev, lifev, dwv, tl, slist, fl, sysst, histv>>

\* fc.child: the child's goroutine: parent.UnWatch(child)  (tree.removeWatcher)
BrUnw(b) ==
  /\ spc[b] = "b_unw" /\ last' = <<"BrUnw", b>>
  /\ node' = RemoveWatcherT(node, sp[b], bpar[b])
  /\ SetPc(b, "b_rd")
  /\ UNCHANGED <<counter, lifev, dwv, tl, sp, slist, bpar, fl, sysst, histv>>

\* tree.removeDescendant, then child.Shutdown if the child is running
BrRemDesc(b) ==
  /\ spc[b] = "b_rd" /\ last' = <<"BrRemDesc", b>>
  /\ node' = RemoveDescT(node, bpar[b][1], sp[b][1])
  /\ IF Run(sp[b]) \/ (~Has("OverlapStop") /\ RunFlag(sp[b]))
     THEN SetPc(b, "lock") /\ wit' = wit
     ELSE Cont(b) /\ wit' = IF RunFlag(sp[b]) THEN wit \cup {"OverlapStop"} ELSE wit
  /\ UNCHANGED <<counter, lifev, dwv, tl, sp, slist, bpar, fl, sysst, dlv, terms, owed, viol>>

StJoin(s) ==
  /\ spc[s] = "join" /\ sbr[s] = {} /\ last' = <<"StJoin", s>>
  /\ SetPc(s, PsPhase(sp[s]))
  /\ UNCHANGED <<treev, lifev, dwv, tl, sp, slist, bpar, fl, sysst, histv>>

\* PostStop of the test actor begins / ends
StPsEnter(s) ==
  /\ spc[s] = "psenter" /\ last' = <<"StPsEnter", s>>
  /\ LET p == sp[s] IN
     /\ psn' = [psn EXCEPT ![p] = @ + 1]
     /\ viol' = IF \E q \in TestPids : q[1] \in DescNames(p[1]) /\ AliveIn(q) THEN viol \cup {"ChildAlive"} ELSE viol
  /\ SetPc(s, "psexit")
  /\ UNCHANGED <<treev, pst, pre, ninc, lockh, dwv, tl, sp, slist, bpar, fl, sysst, dlv, terms, owed, wit>>

StPsExit(s) ==
  /\ spc[s] = "psexit" /\ last' = <<"StPsExit", s>>
  /\ SetPc(s, "wers")
  /\ UNCHANGED <<treev, lifev, dwv, tl, sp, slist, bpar, fl, sysst, histv>>

\* doStop's deferred reset, stopLocker.Unlock, Shutdown returns
FinishStop(s) ==
  /\ pst' = [pst EXCEPT ![sp[s]] = "stopped"] /\ lockh' = [lockh EXCEPT ![sp[s]] = NoS]
  /\ Cont(s)
StopViol(s) ==      \* C09: when a Stop returns, the actors that formed the subtree are down
  IF s[1] = "t" /\ CurOp(s[2]).op = "stop" /\ (\E q \in TestPids : q[1] \in DescNames(sp[s][1]) /\ AliveIn(q))
  THEN {"SubtreeAlive"} ELSE {}

\* tree.watchers: snapshot
StWers(s, k) ==
  /\ spc[s] = "wers" /\ last' = <<"StWers", s, k>>
  /\ LET p == sp[s]  S == IF node[p[1]].reg THEN node[p[1]].wers ELSE {} IN
     /\ k \in Orders(S)
     /\ slist' = [slist EXCEPT ![s] = Order(S, k)]
     /\ owed' = owed \cup {<<w, p>> : w \in S \cap TestPids}
     /\ IF S = {} THEN FinishStop(s) /\ viol' = viol \cup StopViol(s)
        ELSE SetPc(s, "fw") /\ UNCHANGED <<pst, lockh, viol>>
  /\ UNCHANGED <<treev, pre, psn, ninc, dwv, tl, sp, bpar, fl, sysst, dlv, terms, wit>>

\* fw.watcher: watcher.IsRunning() and Tell(watcher, Terminated)
StFwTell(s) ==
  /\ spc[s] = "fw" /\ last' = <<"StFwTell", s>>
  /\ LET p == sp[s]  h == Head(slist[s]) IN
     IF Run(h)
     THEN /\ dwq' = IF h = DWP THEN Append(dwq, <<p[1], pre[p]>>) ELSE dwq
          /\ dlv' = IF h \in TestPids THEN [dlv EXCEPT ![<<h, p>>] = @ + 1] ELSE dlv
          /\ SetPc(s, "fwun") /\ UNCHANGED <<pst, lockh, slist, viol>>
     ELSE /\ slist' = [slist EXCEPT ![s] = Tail(@)]
          /\ IF Len(slist[s]) = 1 THEN FinishStop(s) /\ viol' = viol \cup StopViol(s)
                                  ELSE SetPc(s, "fw") /\ UNCHANGED <<pst, lockh, viol>>
          /\ UNCHANGED <<dwq, dlv>>
  /\ UNCHANGED <<treev, pre, psn, ninc, dwpc, dwm, tl, sp, bpar, fl, sysst, terms, owed, wit>>

\* tree.removeWatcher: watcher.UnWatch(pid)
StFwUn(s) ==
  /\ spc[s] = "fwun" /\ last' = <<"StFwUn", s>>
  /\ LET p == sp[s]  h == Head(slist[s]) IN
     /\ node' = RemoveWatcherT(node, p, h)
     /\ slist' = [slist EXCEPT ![s] = Tail(@)]
     /\ IF Len(slist[s]) = 1 THEN FinishStop(s) /\ viol' = viol \cup StopViol(s)
                             ELSE SetPc(s, "fw") /\ UNCHANGED <<pst, lockh, viol>>
  /\ UNCHANGED <<counter, pre, psn, ninc, dwv, tl, sp, bpar, fl, sysst, dlv, terms, owed, wit>>

\* ---------------------------------------------------------------- death watch
\* dw.term: handleTerminated - tree.node(path); a registered user actor is un-counted
DwTerm ==
  /\ dwpc = "idle" /\ dwq # <<>> /\ sysst # "dead" /\ last' = <<"DwTerm">>
  /\ LET m == Head(dwq)[1] IN
     /\ dwq' = Tail(dwq)
     /\ IF node[m].reg
        THEN /\ counter' = IF m = U THEN counter ELSE counter - 1
             /\ dwpc' = "del" /\ dwm' = <<node[m].pid, Head(dwq)[2]>>
        ELSE UNCHANGED <<counter, dwpc, dwm>>
  /\ UNCHANGED <<node, lifev, thv, stv, fl, sysst, histv>>

\* tree.deleteNode(pid): whatever is registered under that id goes, with its subtree.
\* Repaired design: only the very incarnation the Terminated message is about, and only while it is not running.
DwDelete ==
  /\ dwpc = "del" /\ sysst # "dead" /\ last' = <<"DwDelete">>
  /\ LET id == dwm[1][1]
         stale == node[id].reg /\ (\E x \in Sub(node, {id}) : RunFlag(node[x].pid)) IN
     /\ node' = IF Has("StaleTerminated") \/ (node[id].reg /\ node[id].pid = dwm[1] /\ pre[dwm[1]] = dwm[2] /\ ~Run(dwm[1])) THEN DeleteT(node, id) ELSE node
     /\ wit' = IF Has("StaleTerminated") /\ stale THEN wit \cup {"StaleTerminated"} ELSE wit
  /\ dwpc' = "idle" /\ dwm' = <<NoPid, 0>>
  /\ UNCHANGED <<counter, lifev, dwq, thv, stv, fl, sysst, dlv, terms, owed, viol>>

\* ---------------------------------------------------------------- harness threads
Started(t) == IF After[t] = "" THEN TRUE ELSE pre[<<After[t], 1>>] >= 1

\* the call of the next operation, up to its first gate
OpCall(t) ==
  /\ pc[t] = "call" /\ Started(t) /\ last' = <<"OpCall", t>>
  /\ LET o == CurOp(t) IN
     CASE o.op \in {"spawn", "spawnfn", "spawnx"} ->
            /\ Goto(t, "sf") /\ UNCHANGED <<treev, lifev, dwv, tl, stv, fl, sysst, histv>>
       [] o.op = "spawnchild" ->
            \* spawnChildLocal: the parent must be running; a running child of that name is returned (tree.node)
            /\ IF ~Run(ParPid(o.n)) \/ (node[o.n].reg /\ Run(node[o.n].pid)) THEN Done(t) ELSE Goto(t, "sf")
            /\ UNCHANGED <<treev, lifev, dwv, tl, stv, fl, sysst, histv>>
       [] o.op \in {"stop", "actorof"} ->       \* Kill / ActorOf: up to tree.nodeByName (ErrActorSystemNotStarted once Stop has returned)
            /\ IF sysst = "dead" THEN Done(t) ELSE Goto(t, IF o.op = "stop" THEN "klookup" ELSE "aodo")
            /\ UNCHANGED <<treev, lifev, dwv, tl, stv, fl, sysst, histv>>
       [] o.op = "pill" ->                       \* Tell(pid, PoisonPill): the actor's own worker will run Shutdown
            /\ IF Run(<<o.n, 1>>) /\ spc[<<"w", o.n>>] = "idle"
               THEN /\ spc' = [spc EXCEPT ![<<"w", o.n>>] = "lock"] /\ sp' = [sp EXCEPT ![<<"w", o.n>>] = <<o.n, 1>>]
               ELSE UNCHANGED <<spc, sp>>
            /\ Done(t) /\ UNCHANGED <<treev, lifev, dwv, tl, slist, sbr, bpar, fl, sysst, histv>>
       [] o.op = "watch" -> /\ Goto(t, "wdo") /\ UNCHANGED <<treev, lifev, dwv, tl, stv, fl, sysst, histv>>
       [] o.op = "unwatch" -> /\ Goto(t, "uwdo") /\ UNCHANGED <<treev, lifev, dwv, tl, stv, fl, sysst, histv>>
       [] o.op = "restart" ->
            \* Restart: snapshot of the subtree and the parent (tree.descendants / tree.parent / tree.node), then
            \* Shutdown when the actor is running
            /\ tl' = [tl EXCEPT ![t].did = FALSE, ![t].was = node[o.n].reg]
            /\ IF Has("RestartRace") THEN UNCHANGED lockh
               ELSE \* repaired: a restart holds its parent's stopLocker, and needs a live actor and parent
                    /\ lockh[ParPid(o.n)] = NoS /\ lockh[<<o.n, 1>>] = NoS
                    /\ lockh' = IF Run(ParPid(o.n)) /\ Run(<<o.n, 1>>) THEN [lockh EXCEPT ![ParPid(o.n)] = <<"t", t>>] ELSE lockh
            /\ IF ~Has("RestartRace") /\ ~(Run(ParPid(o.n)) /\ Run(<<o.n, 1>>))
               THEN Done(t) /\ UNCHANGED <<spc, sp>>
               ELSE IF Run(<<o.n, 1>>)
               THEN /\ spc' = [spc EXCEPT ![<<"t", t>>] = "lock"] /\ sp' = [sp EXCEPT ![<<"t", t>>] = <<o.n, 1>>]
                    /\ Goto(t, "stopper")
               ELSE Goto(t, "rs_wait") /\ UNCHANGED <<spc, sp>>
            /\ UNCHANGED <<treev, pst, pre, psn, ninc, dwv, slist, sbr, bpar, fl, sysst, histv>>
       [] o.op \in {"tell", "tellg"} ->          \* a user message to <<n,1>> / to a grain: accepted, dead-lettered or refused
            /\ Done(t) /\ UNCHANGED <<treev, lifev, dwv, tl, stv, fl, sysst, histv>>
       [] o.op = "sysstop" ->                    \* ActorSystem.Stop: shuttingDown := true ... userGuardian.Shutdown
            /\ sysst' = "stopping"
            /\ spc' = [spc EXCEPT ![<<"t", t>>] = "lock"] /\ sp' = [sp EXCEPT ![<<"t", t>>] = UP]
            /\ Goto(t, "stopper")
            /\ UNCHANGED <<treev, lifev, dwv, tl, slist, sbr, bpar, fl, histv>>

\* tree.nodeByName in Kill: the PID registered under the name is shut down
KLookup(t) ==
  /\ pc[t] = "klookup" /\ last' = <<"KLookup", t>>
  /\ LET o == CurOp(t) IN
     IF node[o.n].reg
     THEN /\ spc' = [spc EXCEPT ![<<"t", t>>] = "lock"] /\ sp' = [sp EXCEPT ![<<"t", t>>] = node[o.n].pid]
          /\ Goto(t, "stopper")
     ELSE Done(t) /\ UNCHANGED <<spc, sp>>
  /\ UNCHANGED <<treev, lifev, dwv, tl, slist, sbr, bpar, fl, sysst, histv>>

\* tree.nodeByName in ActorOf: found unless the PID is flagged stopping
AoDo(t) ==
  /\ pc[t] = "aodo" /\ last' = <<"AoDo", t>>
  /\ LET o == CurOp(t)  p == node[o.n].pid
         found == node[o.n].reg /\ pst[p] # "stopping" /\ (Has("ResolveStopped") \/ Run(p)) IN
     /\ viol' = IF found /\ ~Run(p) THEN viol \cup {"ResolvedDead"} ELSE viol
     /\ wit' = IF found /\ ~Run(p) THEN wit \cup {"ResolveStopped"} ELSE wit
  /\ Done(t)
  /\ UNCHANGED <<treev, lifev, dwv, tl, stv, fl, sysst, dlv, terms, owed>>

WDo(t) ==
  /\ pc[t] = "wdo" /\ last' = <<"WDo", t>>
  /\ node' = AddWatcherT(node, <<CurOp(t).n, 1>>, <<CurOp(t).w, 1>>)
  /\ Done(t)
  /\ UNCHANGED <<counter, lifev, dwv, tl, stv, fl, sysst, histv>>

UwDo(t) ==
  /\ pc[t] = "uwdo" /\ last' = <<"UwDo", t>>
  /\ node' = RemoveWatcherT(node, <<CurOp(t).n, 1>>, <<CurOp(t).w, 1>>)
  /\ owed' = owed \ {<<<<CurOp(t).w, 1>>, <<CurOp(t).n, 1>>>>}
  /\ Done(t)
  /\ UNCHANGED <<counter, lifev, dwv, tl, stv, fl, sysst, dlv, terms, viol, wit>>

\* restart.wait: spin until no worker holds the actor
RsWait(t) ==
  /\ pc[t] = "rs_wait" /\ last' = <<"RsWait", t>>
  /\ Goto(t, "rs_init")
  /\ UNCHANGED <<treev, lifev, dwv, tl, stv, fl, sysst, histv>>
\* restart.init: resetBehavior, init up to the PreStart callback
RsInit(t) ==
  /\ pc[t] = "rs_init" /\ last' = <<"RsInit", t>>
  /\ Goto(t, "rs_pre")
  /\ UNCHANGED <<treev, lifev, dwv, tl, stv, fl, sysst, histv>>
\* PreStart: the same PID object is running again
RsPre(t) ==
  /\ pc[t] = "rs_pre" /\ last' = <<"RsPre", t>>
  /\ LET p == <<CurOp(t).n, 1>> IN
     /\ pst' = [pst EXCEPT ![p] = IF @ = "stopping" THEN @ ELSE "running"]
     /\ pre' = [pre EXCEPT ![p] = @ + 1]
     /\ fl' = [fl EXCEPT ![p[1]].alive = IF fl[p[1]].pc = "none" THEN @ ELSE @ \cup {p}]
  /\ Goto(t, "rs_att")
  /\ UNCHANGED <<treev, psn, ninc, lockh, dwv, tl, stv, sysst, histv>>
\* tree.addOrAttachNode(parent, pid)
RsAttach(t) ==
  /\ pc[t] = "rs_att" /\ last' = <<"RsAttach", t>>
  /\ LET p == <<CurOp(t).n, 1>>  par == ParentOf[p[1]] IN
     IF ~node[par].reg
     THEN \* "parent pid does not exist": the restart fails, the actor is flagged stopping and not running
          /\ pst' = [pst EXCEPT ![p] = "stopped"] /\ Done(t) /\ UNCHANGED node
          /\ lockh' = IF Has("RestartRace") THEN lockh ELSE [lockh EXCEPT ![ParPid(p[1])] = NoS]
     ELSE /\ node' = IF node[p[1]].reg THEN AttachT(node, p) ELSE AddNodeT(node, p)
          /\ Goto(t, "rs_addw") /\ UNCHANGED <<pst, lockh>>
  /\ UNCHANGED <<counter, pre, psn, ninc, dwv, tl, stv, fl, sysst, histv>>
\* tree.addWatcher(pid, deathWatch); the counter is bumped when the restart stopped the actor or re-added it; PostStart
RsAddW(t) ==
  /\ pc[t] = "rs_addw" /\ last' = <<"RsAddW", t>>
  /\ node' = AddWatcherT(node, <<CurOp(t).n, 1>>, DWP)
  /\ counter' = IF tl[t].did \/ ~tl[t].was THEN counter + 1 ELSE counter
  /\ lockh' = IF Has("RestartRace") THEN lockh ELSE [lockh EXCEPT ![ParPid(CurOp(t).n)] = NoS]
  /\ Done(t)
  /\ UNCHANGED <<pst, pre, psn, ninc, dwv, tl, stv, fl, sysst, histv>>

\* the rest of ActorSystem.Stop after the user guardian's subtree: system actors, tree reset (one step)
SsRest(t) ==
  /\ pc[t] = "ss_rest" /\ last' = <<"SsRest", t>>
  /\ sysst' = "dead" /\ node' = [x \in NodeIds |-> NoNode]
  /\ viol' = IF \E q \in TestPids : RunFlag(q) /\ (psn[q] < pre[q] \/ InPS(q)) THEN viol \cup {"AliveAfterSystemStop"} ELSE viol
  /\ Done(t)
  /\ UNCHANGED <<counter, lifev, dwv, tl, stv, fl, dlv, terms, owed, wit>>

Next ==
  \/ \E t \in Threads : OpCall(t) \/ SpSf(t) \/ SpCancel(t) \/ KLookup(t) \/ AoDo(t) \/ WDo(t) \/ UwDo(t)
                        \/ RsWait(t) \/ RsInit(t) \/ RsPre(t) \/ RsAttach(t) \/ RsAddW(t) \/ SsRest(t)
  \/ \E n \in Names : FlStart(n) \/ FlLookup(n) \/ FlPreStart(n) \/ FlAttach(n) \/ FlAddW(n)
  \/ \E s \in Stoppers : StLock(s) \/ StUnwee(s) \/ BrUnw(s) \/ BrRemDesc(s) \/ StJoin(s) \/ StPsEnter(s) \/ StPsExit(s)
                         \/ StFwTell(s) \/ StFwUn(s)
                         \/ \E k \in 1..MaxPerm : StWees(s, k) \/ StFcKids(s, k) \/ StWers(s, k)
  \/ DwTerm \/ DwDelete

Spec == Init0 /\ [][Next]_vars

\* ---------------------------------------------------------------- properties
Quiescent == /\ \A t \in Threads : pc[t] = "done"
             /\ dwq = <<>> /\ dwpc = "idle"
             /\ \A n \in Names : fl[n].pc = "none"
             /\ \A s \in Stoppers : spc[s] = "idle"
Live == {p \in TestPids : pst[p] = "running"}

\* C11
AtMostOneRunning == \A n \in Names : Cardinality({p \in Live : p[1] = n}) <= 1
SpawnReturnsLive == "SpawnDead" \notin viol            \* a successful Spawn returns a PID that ran during the call
CounterSettles == (Quiescent /\ sysst = "up") => counter = Cardinality(Live)
\* C09
ChildrenFirst == "ChildAlive" \notin viol               \* PostStop of an actor starts after its descendants are down
StopIsComplete == "SubtreeAlive" \notin viol
ResolvesLiveOnly == "ResolvedDead" \notin viol
LiveAreRegistered == (Quiescent /\ sysst = "up") => \A p \in Live : node[p[1]].reg /\ node[p[1]].pid = p
NoStaleNode == (Quiescent /\ sysst = "up") => \A n \in Names : node[n].reg => pst[node[n].pid] = "running"
ParentsLive == (Quiescent /\ sysst = "up") =>
                 \A p \in Live : ParentOf[p[1]] = U \/ (node[ParentOf[p[1]]].reg /\ Run(node[ParentOf[p[1]]].pid))
TreeWF == \A n \in NodeIds : node[n].reg =>
            /\ \A w \in node[n].wers : w[1] \in NodeIds => (node[w[1]].reg /\ \E x \in node[w[1]].wees : x[1] = n)
            /\ \A w \in node[n].wees : w[1] \in NodeIds => (node[w[1]].reg /\ \E x \in node[w[1]].wers : x[1] = n)
            /\ \A c \in node[n].desc : node[c].reg /\ ParentOf[c] = n
\* C10
TerminatedAtMostOnce == \A e \in DOMAIN dlv : dlv[e] <= terms[e[2]]
TerminatedDelivered == (Quiescent /\ sysst = "up") =>
                         \A e \in owed : (pst[e[1]] = "running" /\ terms[e[1]] = 0) => dlv[e] >= 1
\* C06 / C17
PostStopOnce == \A p \in TestPids : psn[p] <= pre[p] /\ (pst[p] = "stopped" => psn[p] = pre[p])
SystemStopComplete == "AliveAfterSystemStop" \notin viol
=============================================================================
