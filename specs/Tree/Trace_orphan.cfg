SPECIFICATION TraceSpec
CONSTANTS
  Names <- S_orphan_Names
  NameSeq <- S_orphan_Seq
  ParentOf <- S_orphan_Par
  Init <- S_orphan_Init
  InitWatch <- S_orphan_Watch
  Prog <- S_orphan_Prog
  After <- S_orphan_After
  MaxInc = 1
  MaxPerm = 1
  Defects <- AllDefects
INVARIANTS TreeWF TerminatedAtMostOnce
CHECK_DEADLOCK FALSE
