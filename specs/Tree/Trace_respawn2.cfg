SPECIFICATION TraceSpec
CONSTANTS
  Names <- S_respawn2_Names
  NameSeq <- S_respawn2_Seq
  ParentOf <- S_respawn2_Par
  Init <- S_respawn2_Init
  InitWatch <- S_respawn2_Watch
  Prog <- S_respawn2_Prog
  After <- S_respawn2_After
  MaxInc = 3
  MaxPerm = 1
  Defects <- AllDefects
INVARIANTS TreeWF TerminatedAtMostOnce
CHECK_DEADLOCK FALSE
