SPECIFICATION Spec
CONSTANTS
  Names <- S_deep_Names
  NameSeq <- S_deep_Seq
  ParentOf <- S_deep_Par
  Init <- S_deep_Init
  InitWatch <- S_deep_Watch
  Prog <- S_deep_Prog
  After <- S_deep_After
  MaxInc = 1
  MaxPerm = 1
  Defects = {}
VIEW View
INVARIANTS TreeWF PostStopOnce AtMostOneRunning TerminatedAtMostOnce TerminatedDelivered SpawnReturnsLive CounterSettles ChildrenFirst StopIsComplete ResolvesLiveOnly LiveAreRegistered NoStaleNode ParentsLive SystemStopComplete
CHECK_DEADLOCK FALSE
