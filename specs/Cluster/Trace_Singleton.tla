--------------------------- MODULE Trace_Singleton ---------------------------
(* Conformance: the recorded puppet replay of REAL actor systems must be a behaviour of *)
(* Singleton.tla, step by step (gate reached, node, registry record, running nodes).    *)
EXTENDS MC_Singleton, Json

Trace == ndJsonDeserialize("trace.ndjson")
VARIABLES l, run
tvars == <<vars, l, run>>
Range(q) == {q[i] : i \in 1..Len(q)}

GateOf(pc) == CASE pc = "RG" -> "AG" [] pc = "RR" -> "AR" [] OTHER -> pc
Reset == /\ lead' = Lead0 /\ rec' = Rec0 /\ inst' = [n \in Nodes |-> 0]
         /\ flight' = [n \in Nodes |-> NoThread] /\ wait' = [n \in Nodes |-> {}]
         /\ th' = [t \in Threads |-> [pc |-> "call", frames |-> <<Org[t]>>, tries |-> 0, res |-> "-", seen |-> NoNode]]
         /\ changes' = MaxChanges /\ faults' = MaxFaults /\ badRemove' = FALSE
         /\ last' = [t |-> "-", a |-> "init", pc |-> "-", at |-> NoNode, n |-> NoNode, m |-> NoNode]

TStep ==
  /\ l <= Len(Trace)
  /\ l' = l + 1
  /\ LET e == Trace[l] IN
     CASE e.ev = "New" -> Reset /\ run' = TRUE
       [] e.ev \in {"drift", "End"} -> run' = FALSE /\ UNCHANGED vars
       [] e.ev = "view" /\ run -> View(e.n, e.m) /\ UNCHANGED run
       [] e.ev = "step" /\ run ->
            /\ Step(e.t)
            /\ last'.a = e.a
            /\ GateOf(last'.pc) = e.gate
            /\ (e.at = "" \/ e.gate \in {"call", "done", "wait"} \/ last'.at = e.at)
            /\ rec' = e.own
            /\ Running' = Range(e.live)
            /\ UNCHANGED run
       [] OTHER -> UNCHANGED <<vars, run>>

TInit == Init /\ l = 1 /\ run = FALSE
TSpec == TInit /\ [][TStep]_tvars
=============================================================================
