---------------------------- MODULE Mon_Singleton ----------------------------
(* Property monitor for C36 on recorded executions of REAL goakt actor systems.  It   *)
(* knows nothing about SpawnSingleton: the singleton actor itself reports PreStart     *)
(* (start) and PostStop (stop) with its node and a unique instance number; the store    *)
(* reports every RemoveActor with the node the removed record named (prev).             *)
(* Every line is consumed; violations: <<"MISMATCH", "C36", line, what, id>>.          *)
EXTENDS Integers, Sequences, FiniteSets, TLC, Json

Trace == ndJsonDeserialize("trace.ndjson")
VARIABLES l, running, ended, cur    \* cur = name of the singleton of the current history (late events of an earlier one are ignored)
vars == <<l, running, ended, cur>>
Init == l = 1 /\ running = {} /\ ended = TRUE /\ cur = ""
Range(q) == {q[i] : i \in 1..Len(q)}
Check(cond, what, id) == IF cond THEN TRUE ELSE PrintT(<<"MISMATCH", "C36", l, what, id>>)

Step ==
  /\ l <= Len(Trace)
  /\ l' = l + 1
  /\ LET e == Trace[l] IN
     CASE e.ev = "New" -> running' = {} /\ ended' = FALSE /\ cur' = e.id
       [] e.ev = "start" /\ ~ended /\ e.id = cur ->
            /\ running' = running \cup {<<e.inst, e.n>>}
            /\ Check(Cardinality(running') <= 1, "two instances of the singleton are running in the cluster at the same time", e.id)
            /\ UNCHANGED <<ended, cur>>
       [] e.ev = "op" /\ ~ended /\ e.op = "RemoveActor" /\ e.key = cur ->
            \* a record owned by a live survivor is never removed by a non-owner
            /\ Check(~(\E x \in running : x[2] = e.prev),
                     "the registry record of a live singleton instance was removed by somebody else", e.key)
            /\ UNCHANGED <<running, ended, cur>>
       [] e.ev = "stop" /\ ~ended /\ e.id = cur ->
            /\ running' = {x \in running : x[1] # e.inst}
            /\ UNCHANGED <<ended, cur>>
       [] e.ev = "End" /\ ~ended ->
            /\ Check(Range(e.live) = {x[2] : x \in running}, "HARNESS: live bookkeeping differs from the monitor", e.id)
            /\ ended' = TRUE /\ UNCHANGED <<running, cur>>
       [] OTHER -> UNCHANGED <<running, ended, cur>>
Spec == Init /\ [][Step]_vars
=============================================================================
