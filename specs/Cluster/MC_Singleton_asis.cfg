SPECIFICATION Spec
CONSTANTS
  Nodes = {"A", "B", "C"}
  Threads = {"t1", "t2"}
  O1 = "A"
  O2 = "C"
  O3 = "-"
  LA = "A"
  LB = "A"
  LC = "A"
  Org <- OrgT
  Lead0 <- LeadT
  NewLead = "C"
  MaxChanges = 2
  MaxHops = 2
  MaxTries = 1
  Defects = {"NonAtomicPublish"}
VIEW View0
INVARIANTS TypeOK OneSingleton
CHECK_DEADLOCK FALSE
