---- MODULE MC_Singleton ----
(* Thread / view tables of a run as plain strings (cfg files cannot hold functions). *)
EXTENDS Singleton
CONSTANTS O1, O2, O3, K1, K2, K3, LA, LB, LC
OrgT == [t \in Threads |-> CASE t = "t1" -> O1 [] t = "t2" -> O2 [] OTHER -> O3]
KindT == [t \in Threads |-> CASE t = "t1" -> K1 [] t = "t2" -> K2 [] OTHER -> K3]
LeadT == [n \in Nodes |-> CASE n = "A" -> LA [] n = "B" -> LB [] OTHER -> LC]
View0 == core
====
