---- MODULE Gen_Singleton ----
(* Behaviour generator: random walks (-simulate) of Singleton.tla, printed at quiescence. *)
EXTENDS MC_Singleton, Json
VARIABLE hist
GInit == Init /\ hist = <<>>
GNext == Next /\ hist' = Append(hist, last')
GSpec == GInit /\ [][GNext]_<<vars, hist>>
Emit == (~Quiescent) \/ (PrintT(<<"BEHAVIOUR", ToJson(hist)>>) /\ FALSE)
====
