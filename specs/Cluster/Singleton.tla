----------------------------- MODULE Singleton -----------------------------
(* C36 - a cluster singleton runs at most once cluster-wide.                          *)
(*                                                                                    *)
(* Transcription of SpawnSingleton (actor/spawn.go retrySpawnSingleton,               *)
(* spawnSingletonOnLocal, checkSpawnPreconditions, actor/cluster_singleton.go         *)
(* spawnSingletonOnLeader, actor/actor_system.go attachAndPublish / putActorOnCluster, *)
(* actor/remote_server.go remoteSpawnHandler) for ONE singleton name, at the           *)
(* granularity of cluster operations:                                                  *)
(*   M   cl.Members on the node where the call currently runs: pick the member this    *)
(*       node's view marks as coordinator; local -> spawnSingletonOnLocal (per-name    *)
(*       single-flight of the node), remote -> RemoteSpawn = the same program on that  *)
(*       node (a new frame)                                                            *)
(*   AE  checkSpawnPreconditions: ActorExists(name) -> ErrActorAlreadyExists; a        *)
(*       running local instance is returned as is                                      *)
(*   pre the actor is created and started (configPID: PreStart)                        *)
(*   AP  attachAndPublish: plain PutActor                                              *)
(*   AG  handleSingletonNameConflict after ErrActorAlreadyExists: GetActor; bound to   *)
(*       the intended singleton -> idempotent success                                  *)
(* Every node has its own view of who the coordinator is (lead[n]); the environment    *)
(* moves the leadership from the initial coordinator to NewLead, one node's view at a  *)
(* time (a leadership change propagating through gossip).                              *)
(*                                                                                    *)
(* Defects: "NonAtomicPublish" (the code as it is): the uniqueness check (ActorExists) *)
(* and the publication (plain PutActor, after the actor has been started) are two      *)
(* registry operations.  Repair: the name is reserved atomically (PutActorIfAbsent)    *)
(* before the actor is started.                                                        *)
EXTENDS Integers, Sequences, FiniteSets, TLC

CONSTANTS Nodes, Threads, Org, Lead0, NewLead, MaxChanges, MaxHops, MaxTries, Defects

NoNode == "-"
NoThread == "-"

VARIABLES lead,     \* [Nodes -> Nodes]  coordinator in the view of each node
          rec,      \* registry record of the name: hosting node or NoNode
          inst,     \* [Nodes -> 0..2]   running instances of the singleton on the node
          flight,   \* [Nodes -> Threads \cup {NoThread}]  leader of the node's per-name spawn single-flight
          wait,     \* [Nodes -> SUBSET Threads]
          th,       \* [Threads -> [pc, frames, tries, res]]
          changes,  \* view changes left
          last

vars == <<lead, rec, inst, flight, wait, th, changes, last>>
core == <<lead, rec, inst, flight, wait, th, changes>>
Has(d) == d \in Defects

Cur(x) == x.frames[Len(x.frames)]

Init == /\ lead = Lead0
        /\ rec = NoNode
        /\ inst = [n \in Nodes |-> 0]
        /\ flight = [n \in Nodes |-> NoThread]
        /\ wait = [n \in Nodes |-> {}]
        /\ th = [t \in Threads |-> [pc |-> "call", frames |-> <<Org[t]>>, tries |-> 0, res |-> "-"]]
        /\ changes = MaxChanges
        /\ last = [t |-> "-", a |-> "init", pc |-> "-", at |-> NoNode, n |-> NoNode, m |-> NoNode]

S0 == [lead |-> lead, rec |-> rec, inst |-> inst, flight |-> flight, wait |-> wait, th |-> th, changes |-> changes]
Commit(s, t, a) == /\ lead' = s.lead /\ rec' = s.rec /\ inst' = s.inst /\ flight' = s.flight /\ wait' = s.wait /\ th' = s.th
                   /\ changes' = s.changes
                   /\ last' = [t |-> t, a |-> a, pc |-> s.th[t].pc, at |-> Cur(s.th[t]), n |-> NoNode, m |-> NoNode]

\* the call (all frames) returns
Finish(s, t) == [s EXCEPT !.th[t].pc = "done"]

\* what a thread does when spawnSingletonOnLocal returned r on the node of its top frame
Cont(s, t, r) ==
  IF r = "ok" THEN Finish(s, t)
  ELSE [s EXCEPT !.th[t].pc = "AG"]                                   \* ErrActorAlreadyExists -> handleSingletonNameConflict

EndFlight(s, t, r) ==
  LET m == Cur(s.th[t])
      s1 == [s EXCEPT !.flight[m] = NoThread, !.wait[m] = {},
                      !.th = [w \in Threads |-> IF w \in s.wait[m] THEN [s.th[w] EXCEPT !.pc = "woken", !.res = r] ELSE s.th[w]]]
  IN Cont(s1, t, r)

Woken == {w \in Threads : th[w].pc = "woken"}
At(t, pc) == th[t].pc = pc /\ Woken = {}

Call(t) == /\ At(t, "call")
           /\ Commit([S0 EXCEPT !.th[t].pc = "M"], t, "call")

\* spawnSingletonOnLeader: Members, leader pick
Members(t) ==
  /\ At(t, "M")
  /\ LET c == Cur(th[t])
         l == lead[c]
     IN Commit(IF l = c
               THEN (IF flight[c] # NoThread
                     THEN [S0 EXCEPT !.th[t].pc = "wait", !.wait[c] = @ \cup {t}]
                     ELSE [S0 EXCEPT !.flight[c] = t, !.th[t].pc = "AE"])
               ELSE IF Len(th[t].frames) <= MaxHops
                    THEN [S0 EXCEPT !.th[t].frames = Append(@, l), !.th[t].pc = "M"]      \* RemoteSpawn: same program on l
                    ELSE [S0 EXCEPT !.th[t].pc = "cut"], t, "M")                          \* hop bound of the model (the code goes on)

\* checkSpawnPreconditions (+ repaired: atomic reservation of the name)
Exists(t) ==
  /\ At(t, "AE")
  /\ LET c == Cur(th[t]) IN
     Commit(IF rec # NoNode THEN EndFlight(S0, t, "exists")
            ELSE IF inst[c] > 0 THEN EndFlight(S0, t, "ok")                               \* running local instance returned as is
            ELSE IF Has("NonAtomicPublish") THEN [S0 EXCEPT !.th[t].pc = "pre"]
            ELSE [S0 EXCEPT !.rec = c, !.th[t].pc = "pre"], t, "AE")

\* configPID: the actor is created and PreStart runs
PreStart(t) ==
  /\ At(t, "pre")
  /\ Commit([S0 EXCEPT !.inst[Cur(th[t])] = @ + 1, !.th[t].pc = "AP"], t, "pre")

\* attachAndPublish: plain PutActor
Publish(t) ==
  /\ At(t, "AP")
  /\ Commit(EndFlight([S0 EXCEPT !.rec = Cur(th[t])], t, "ok"), t, "AP")

\* handleSingletonNameConflict: GetActor
Conflict(t) ==
  /\ At(t, "AG")
  /\ Commit(IF rec # NoNode THEN Finish(S0, t)
            ELSE IF th[t].tries < MaxTries THEN [S0 EXCEPT !.th[t].tries = @ + 1, !.th[t].pc = "M"]
            ELSE Finish(S0, t), t, "AG")

Wake(t) ==
  /\ th[t].pc = "woken"
  /\ Commit(Cont(S0, t, th[t].res), t, "wake")

\* the environment: node n learns that m = NewLead is the coordinator
View(n, m) ==
  /\ Woken = {} /\ changes > 0 /\ lead[n] # m /\ m = NewLead
  /\ lead' = [lead EXCEPT ![n] = m] /\ changes' = changes - 1
  /\ last' = [t |-> "env", a |-> "view", pc |-> "-", at |-> NoNode, n |-> n, m |-> m]
  /\ UNCHANGED <<rec, inst, flight, wait, th>>

Step(t) == Call(t) \/ Members(t) \/ Exists(t) \/ PreStart(t) \/ Publish(t) \/ Conflict(t) \/ Wake(t)
Next == (\E t \in Threads : Step(t)) \/ (\E n, m \in Nodes : View(n, m))
Spec == Init /\ [][Next]_vars

\* ---------------------------------------------------------------- properties
Running == {n \in Nodes : inst[n] > 0}
\* C36: at most one running instance cluster-wide
OneSingleton == Cardinality(Running) <= 1 /\ \A n \in Nodes : inst[n] <= 1
Quiescent == \A t \in Threads : th[t].pc \in {"done", "cut"}
NoCut == \A t \in Threads : th[t].pc # "cut"
TypeOK == /\ rec \in Nodes \cup {NoNode}
          /\ \A t \in Threads : th[t].pc \in {"call", "M", "AE", "pre", "AP", "AG", "wait", "woken", "done", "cut"}
=============================================================================
