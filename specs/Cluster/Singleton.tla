----------------------------- MODULE Singleton -----------------------------
(* C36 - a cluster singleton runs at most once cluster-wide.                          *)
(*                                                                                    *)
(* Transcription of SpawnSingleton (actor/spawn.go retrySpawnSingleton,               *)
(* spawnSingletonOnLocal, checkSpawnPreconditions, actor/cluster_singleton.go         *)
(* spawnSingletonOnLeader, actor/actor_system.go attachAndPublish / putActorOnCluster, *)
(* actor/remote_server.go remoteSpawnHandler) for ONE singleton name, at the           *)
(* granularity of cluster operations:                                                  *)
(*   M   cl.Members on the node where the call currently runs: pick the member this    *)
(*       node's view marks as coordinator; local -> spawnSingletonOnLocal (per-name    *)
(*       single-flight of the node), remote -> RemoteSpawn = the same program on that  *)
(*       node (a new frame)                                                            *)
(*   AE  checkSpawnPreconditions: ActorExists(name) -> ErrActorAlreadyExists; a        *)
(*       running local instance is returned as is                                      *)
(*   pre the actor is created and started (configPID: PreStart)                        *)
(*   AP  attachAndPublish: plain PutActor                                              *)
(*   AG  handleSingletonNameConflict after ErrActorAlreadyExists: GetActor; bound to   *)
(*       the intended singleton -> idempotent success                                  *)
(* Every node has its own view of who the coordinator is (lead[n]); the environment    *)
(* moves the leadership from the initial coordinator to NewLead, one node's view at a  *)
(* time (a leadership change propagating through gossip).                              *)
(*                                                                                    *)
(* A view may also flag NO coordinator (lead[n] = NoNode): the node sees peers but no   *)
(* flag, or - n \in Solo - its view is exactly [self] (joining / minority node).  Then  *)
(* spawnSingletonOnLeader answers ErrLeaderNotFound, which the retrier retries.          *)
(*                                                                                    *)
(* Threads of kind "reloc" run the relocation of the singleton by the relocation worker *)
(* (actor/relocation_worker.go recreateSingletonFromWire) on their node, for a record   *)
(* left by the departed node "D"; several such threads = duplicate / re-run items:      *)
(*   RG  gating read GetActor: entry on a survivor -> skip; error -> the item fails      *)
(*   RR  RemoveActor (unconditional), then SpawnSingleton (M ...)                        *)
(* Cluster reads (Members, ActorExists, GetActor) may fail with a read-quorum error      *)
(* (MaxFaults, only for calls that run on their origin node): the retrier retries.       *)
(*                                                                                    *)
(* Defects (the code as it is = CODE; {} = repaired design):                            *)
(*  "NonAtomicPublish" CODE: the uniqueness check (ActorExists) and the publication     *)
(*      (plain PutActor, after the actor has been started) are two registry operations. *)
(*      Repair: the name is reserved atomically (PutActorIfAbsent) before the start.    *)
(*  "BlindRemove" CODE: recreateSingletonFromWire removes the record by key after its   *)
(*      gating read; a record a survivor published in between is removed.  Repair:      *)
(*      remove only the record the gating read saw.                                     *)
(*  "QuorumMissFallsThrough" (NOT the code; seeded-mutant witness): a failed gating     *)
(*      read is treated like "not found".                                               *)
(*  "SoloSelfLeader" (NOT the code; seeded-mutant witness): a node whose view is [self] *)
(*      without coordinator flag spawns locally.                                        *)
EXTENDS Integers, Sequences, FiniteSets, TLC

CONSTANTS Nodes, Threads, Org, Kind, Lead0, Solo, Rec0, NewLead, MaxChanges, MaxHops, MaxTries, MaxFaults, Defects

NoNode == "-"
NoThread == "-"

VARIABLES lead,     \* [Nodes -> Nodes]  coordinator in the view of each node
          rec,      \* registry record of the name: hosting node or NoNode
          inst,     \* [Nodes -> 0..2]   running instances of the singleton on the node
          flight,   \* [Nodes -> Threads \cup {NoThread}]  leader of the node's per-name spawn single-flight
          wait,     \* [Nodes -> SUBSET Threads]
          th,       \* [Threads -> [pc, frames, tries, res]]
          changes,  \* view changes left
          faults,   \* injected read failures left
          badRemove,\* a record naming a node with a running instance was removed by a relocation item (not by the instance's own stop)
          last

vars == <<lead, rec, inst, flight, wait, th, changes, faults, badRemove, last>>
core == <<lead, rec, inst, flight, wait, th, changes, faults, badRemove>>
Has(d) == d \in Defects

Cur(x) == x.frames[Len(x.frames)]

Init == /\ lead = Lead0
        /\ rec = Rec0
        /\ inst = [n \in Nodes |-> 0]
        /\ flight = [n \in Nodes |-> NoThread]
        /\ wait = [n \in Nodes |-> {}]
        /\ th = [t \in Threads |-> [pc |-> "call", frames |-> <<Org[t]>>, tries |-> 0, res |-> "-", seen |-> NoNode]]
        /\ changes = MaxChanges /\ faults = MaxFaults /\ badRemove = FALSE
        /\ last = [t |-> "-", a |-> "init", pc |-> "-", at |-> NoNode, n |-> NoNode, m |-> NoNode]

S0 == [lead |-> lead, rec |-> rec, inst |-> inst, flight |-> flight, wait |-> wait, th |-> th, changes |-> changes, faults |-> faults,
       badRemove |-> badRemove]
Commit(s, t, a) == /\ lead' = s.lead /\ rec' = s.rec /\ inst' = s.inst /\ flight' = s.flight /\ wait' = s.wait /\ th' = s.th
                   /\ changes' = s.changes /\ faults' = s.faults /\ badRemove' = s.badRemove
                   /\ last' = [t |-> t, a |-> a, pc |-> s.th[t].pc, at |-> Cur(s.th[t]), n |-> NoNode, m |-> NoNode]

\* the call (all frames) returns
Finish(s, t) == [s EXCEPT !.th[t].pc = "done"]

\* a retryable failure (ErrLeaderNotFound, read-quorum error) inside retrySpawnSingleton: next attempt or give up
RetryOrFail(s, t) ==
  IF Len(s.th[t].frames) > 1 THEN [s EXCEPT !.th[t].pc = "cut"]      \* nested retry loops of remote frames are not modelled
  ELSE IF s.th[t].tries < MaxTries THEN [s EXCEPT !.th[t].tries = @ + 1, !.th[t].pc = "M"]
  ELSE Finish(s, t)

\* what a thread does when spawnSingletonOnLocal returned r on the node of its top frame
Cont(s, t, r) ==
  CASE r = "ok" -> Finish(s, t)
    [] r = "fault" -> RetryOrFail(s, t)
    [] OTHER -> [s EXCEPT !.th[t].pc = "AG"]                           \* ErrActorAlreadyExists -> handleSingletonNameConflict

EndFlight(s, t, r) ==
  LET m == Cur(s.th[t])
      s1 == [s EXCEPT !.flight[m] = NoThread, !.wait[m] = {},
                      !.th = [w \in Threads |-> IF w \in s.wait[m] THEN [s.th[w] EXCEPT !.pc = "woken", !.res = r] ELSE s.th[w]]]
  IN Cont(s1, t, r)

Woken == {w \in Threads : th[w].pc = "woken"}
At(t, pc) == th[t].pc = pc /\ Woken = {}

Call(t) == /\ At(t, "call")
           /\ Commit([S0 EXCEPT !.th[t].pc = IF Kind[t] = "reloc" THEN "RG" ELSE "M"], t, "call")

Local(t) == Len(th[t].frames) = 1

\* recreateSingletonFromWire: gating read
RecreateGet(t) ==
  /\ At(t, "RG")
  /\ Commit(IF rec \in Nodes THEN Finish(S0, t)                                          \* already re-created on a survivor
            ELSE [S0 EXCEPT !.th[t].pc = "RR", !.th[t].seen = rec], t, "RG")
RecreateGetFault(t) ==
  /\ At(t, "RG") /\ faults > 0
  /\ Commit(IF Has("QuorumMissFallsThrough") THEN [S0 EXCEPT !.faults = @ - 1, !.th[t].pc = "RR", !.th[t].seen = NoNode]
            ELSE Finish([S0 EXCEPT !.faults = @ - 1], t), t, "RGfail")
\* RemoveActor, then SpawnSingleton
RecreateRemove(t) ==
  /\ At(t, "RR")
  /\ LET c == Cur(th[t])
         blind == Has("BlindRemove") \/ Has("QuorumMissFallsThrough")
     IN Commit(IF blind \/ rec = th[t].seen
               THEN [S0 EXCEPT !.badRemove = @ \/ (rec \in Nodes /\ inst[rec] > 0), !.rec = NoNode, !.th[t].pc = "M"]
               ELSE Finish(S0, t), t, "RR")                                                \* repaired: somebody re-established it meanwhile

\* spawnSingletonOnLeader: Members, leader pick
Members(t) ==
  /\ At(t, "M")
  /\ LET c == Cur(th[t])
         l == IF lead[c] = NoNode /\ c \in Solo /\ Has("SoloSelfLeader") THEN c ELSE lead[c]
     IN Commit(IF l = NoNode THEN RetryOrFail(S0, t)                                       \* ErrLeaderNotFound
               ELSE IF l = c
               THEN (IF flight[c] # NoThread
                     THEN [S0 EXCEPT !.th[t].pc = "wait", !.wait[c] = @ \cup {t}]
                     ELSE [S0 EXCEPT !.flight[c] = t, !.th[t].pc = "AE"])
               ELSE IF Len(th[t].frames) <= MaxHops
                    THEN [S0 EXCEPT !.th[t].frames = Append(@, l), !.th[t].pc = "M"]      \* RemoteSpawn: same program on l
                    ELSE [S0 EXCEPT !.th[t].pc = "cut"], t, "M")                          \* hop bound of the model (the code goes on)

\* checkSpawnPreconditions (+ repaired: atomic reservation of the name)
Exists(t) ==
  /\ At(t, "AE")
  /\ LET c == Cur(th[t]) IN
     Commit(IF rec # NoNode THEN EndFlight(S0, t, "exists")
            ELSE IF inst[c] > 0 THEN EndFlight(S0, t, "ok")                               \* running local instance returned as is
            ELSE IF Has("NonAtomicPublish") THEN [S0 EXCEPT !.th[t].pc = "pre"]
            ELSE [S0 EXCEPT !.rec = c, !.th[t].pc = "pre"], t, "AE")

\* configPID: the actor is created and PreStart runs
PreStart(t) ==
  /\ At(t, "pre")
  /\ Commit([S0 EXCEPT !.inst[Cur(th[t])] = @ + 1, !.th[t].pc = "AP"], t, "pre")

\* attachAndPublish: plain PutActor
Publish(t) ==
  /\ At(t, "AP")
  /\ Commit(EndFlight([S0 EXCEPT !.rec = Cur(th[t])], t, "ok"), t, "AP")

\* handleSingletonNameConflict: GetActor
Conflict(t) ==
  /\ At(t, "AG")
  /\ Commit(IF rec # NoNode THEN Finish(S0, t)
            ELSE IF th[t].tries < MaxTries THEN [S0 EXCEPT !.th[t].tries = @ + 1, !.th[t].pc = "M"]
            ELSE Finish(S0, t), t, "AG")

\* read-quorum failures of the cluster reads (calls running on their origin node only)
MembersFault(t) == /\ At(t, "M") /\ faults > 0 /\ Local(t)
                   /\ Commit(RetryOrFail([S0 EXCEPT !.faults = @ - 1], t), t, "Mfail")
ExistsFault(t) == /\ At(t, "AE") /\ faults > 0 /\ Local(t) /\ \A w \in wait[Cur(th[t])] : Len(th[w].frames) = 1
                  /\ Commit(EndFlight([S0 EXCEPT !.faults = @ - 1], t, "fault"), t, "AEfail")
ConflictFault(t) == /\ At(t, "AG") /\ faults > 0 /\ Local(t)
                    /\ Commit(RetryOrFail([S0 EXCEPT !.faults = @ - 1], t), t, "AGfail")

Wake(t) ==
  /\ th[t].pc = "woken"
  /\ Commit(Cont(S0, t, th[t].res), t, "wake")

\* the environment: node n learns that m = NewLead is the coordinator
View(n, m) ==
  /\ Woken = {} /\ changes > 0 /\ lead[n] # m /\ m = NewLead
  /\ lead' = [lead EXCEPT ![n] = m] /\ changes' = changes - 1
  /\ last' = [t |-> "env", a |-> "view", pc |-> "-", at |-> NoNode, n |-> n, m |-> m]
  /\ UNCHANGED <<rec, inst, flight, wait, th, faults, badRemove>>

Step(t) == Call(t) \/ Members(t) \/ Exists(t) \/ PreStart(t) \/ Publish(t) \/ Conflict(t) \/ Wake(t)
           \/ RecreateGet(t) \/ RecreateGetFault(t) \/ RecreateRemove(t) \/ MembersFault(t) \/ ExistsFault(t) \/ ConflictFault(t)
Next == (\E t \in Threads : Step(t)) \/ (\E n, m \in Nodes : View(n, m))
Spec == Init /\ [][Next]_vars

\* ---------------------------------------------------------------- properties
Running == {n \in Nodes : inst[n] > 0}
\* C36: at most one running instance cluster-wide
OneSingleton == Cardinality(Running) <= 1 /\ \A n \in Nodes : inst[n] <= 1
Quiescent == \A t \in Threads : th[t].pc \in {"done", "cut"}
NoCut == \A t \in Threads : th[t].pc # "cut"
\* a record owned by a live survivor is never removed by a non-owner (another node, or another call on the same node)
NoForeignRemove == ~badRemove
TypeOK == /\ rec \in Nodes \cup {NoNode, "D"}
          /\ \A t \in Threads : th[t].pc \in {"call", "M", "AE", "pre", "AP", "AG", "RG", "RR", "wait", "woken", "done", "cut"}
=============================================================================
