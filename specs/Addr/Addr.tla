---- MODULE Addr ----
(* C26 -- actor addresses and their text form (goakt internal/address/address.go).       *)
(*                                                                                        *)
(* A string is a sequence of TOKENS.  A token is either one of the separator characters   *)
(* ":" "/" "@" or a non-empty word that contains none of them ("goakt", "node-1.svc",     *)
(* "127.0.0.1", "fe80", "9000", "+", ...).  The real string is the concatenation of the   *)
(* tokens (Join).  Because words contain no separator character, strings.Cut /            *)
(* strings.Contains / strings.HasPrefix with the patterns "://", "@", "/", ":" on the     *)
(* real string coincide with the token-level operators below, so String, Parse and        *)
(* HostPortOf are transcribed line by line from the Go code.                              *)
(*                                                                                        *)
(* Defects = {} is the repaired design (host:port is cut at the LAST colon).              *)
(* "FirstColonCut" \in Defects is the code as found: host:port is cut at the FIRST colon  *)
(* and any further colon is rejected, so the un-bracketed IPv6 form written by String     *)
(* cannot be read back.                                                                   *)
EXTENDS AddrText, FiniteSets, TLC

CONSTANTS Defects

Colon == ":"
Slash == "/"
At    == "@"
Seps  == {Colon, Slash, At}
SchemeSep == <<Colon, Slash, Slash>>
Scheme    == "goakt"

(* ------------------------------------------------------------------ strings ---------- *)
MatchAt(s, pat, i) == /\ i + Len(pat) - 1 <= Len(s)
                      /\ \A j \in 1..Len(pat) : s[i + j - 1] = pat[j]
Occ(s, pat)      == {i \in 1..Len(s) : MatchAt(s, pat, i)}
Contains(s, pat) == Occ(s, pat) # {}
Min(S) == CHOOSE x \in S : \A y \in S : x <= y
Max(S) == CHOOSE x \in S : \A y \in S : x >= y
HasPrefix(s, pat) == MatchAt(s, pat, 1)
(* strings.Cut: split around the first occurrence of pat *)
Cut(s, pat) ==
  IF Contains(s, pat)
  THEN LET i == Min(Occ(s, pat)) IN
       [ok |-> TRUE, before |-> SubSeq(s, 1, i - 1), after |-> SubSeq(s, i + Len(pat), Len(s))]
  ELSE [ok |-> FALSE, before |-> s, after |-> <<>>]
(* split around the last occurrence (strings.LastIndexByte) *)
CutLast(s, pat) ==
  IF Contains(s, pat)
  THEN LET i == Max(Occ(s, pat)) IN
       [ok |-> TRUE, before |-> SubSeq(s, 1, i - 1), after |-> SubSeq(s, i + Len(pat), Len(s))]
  ELSE [ok |-> FALSE, before |-> s, after |-> <<>>]

(* ------------------------------------------------------------------ numbers ---------- *)
(* strconv.ParseInt(s, 10, 64) followed by the int32 range check of strconvx.ParseInt32.  *)
(* A numeric word is described by its value class: "fit" (0 .. 2^31-1, value v), "min"   *)
(* (exactly 2^31: fits int32 only when negated) or "over"; n is its number of digits.     *)
Num(v, n)  == [v |-> v, n |-> n, cls |-> "fit"]
NumTok ==
  [t \in {"0","1","2","3","4","5","6","7","8","9"} |->
      Num(CASE t = "0" -> 0 [] t = "1" -> 1 [] t = "2" -> 2 [] t = "3" -> 3 [] t = "4" -> 4
            [] t = "5" -> 5 [] t = "6" -> 6 [] t = "7" -> 7 [] t = "8" -> 8 [] t = "9" -> 9, 1)]
  @@ ("00" :> Num(0, 2)) @@ ("007" :> Num(7, 3)) @@ ("10" :> Num(10, 2)) @@ ("80" :> Num(80, 2))
  @@ ("9000" :> Num(9000, 4)) @@ ("65535" :> Num(65535, 5)) @@ ("65536" :> Num(65536, 5))
  @@ ("214748364" :> Num(214748364, 9)) @@ ("2147483647" :> Num(2147483647, 10))
  @@ ("2147483648" :> [v |-> 0, n |-> 10, cls |-> "min"])
  @@ ("99999999999999999999" :> [v |-> 0, n |-> 20, cls |-> "over"])
IsNumTok(t) == t \in DOMAIN NumTok
Pow10(k) == CASE k = 0 -> 1 [] k = 1 -> 10 [] k = 2 -> 100 [] k = 3 -> 1000 [] k = 4 -> 10000
              [] k = 5 -> 100000 [] k = 6 -> 1000000 [] k = 7 -> 10000000 [] k = 8 -> 100000000
              [] k = 9 -> 1000000000
Over(n) == [v |-> 0, n |-> n, cls |-> "over"]
(* value of the digit string x followed by the digit string y *)
NumCat(x, y) ==
  LET n == x.n + y.n IN
  IF x.cls = "fit" /\ x.v = 0 THEN [y EXCEPT !.n = n]
  ELSE IF x.cls # "fit" \/ y.cls # "fit" \/ y.n > 9 THEN Over(n)
  ELSE LET P == Pow10(y.n) IN
       IF x.v > MaxInt32 \div P THEN Over(n)
       ELSE LET t == x.v * P IN
            IF y.v > MaxInt32 - t
            THEN (IF y.v = (MaxInt32 - t) + 1 THEN [v |-> 0, n |-> n, cls |-> "min"] ELSE Over(n))
            ELSE [v |-> t + y.v, n |-> n, cls |-> "fit"]
RECURSIVE Digits(_)
Digits(ts) == IF Len(ts) = 1 THEN NumTok[ts[1]]
              ELSE NumCat(Digits(SubSeq(ts, 1, Len(ts) - 1)), NumTok[ts[Len(ts)]])
BadInt == [ok |-> FALSE, v |-> 0]
ParseInt32(ts) ==
  LET neg  == ts # <<>> /\ ts[1] = "-"
      sign == ts # <<>> /\ ts[1] \in {"+", "-"}
      ds   == IF sign THEN Tail(ts) ELSE ts
  IN IF ds = <<>> \/ \E i \in 1..Len(ds) : ~IsNumTok(ds[i]) THEN BadInt
     ELSE LET d == Digits(ds) IN
          CASE d.cls = "fit"           -> [ok |-> TRUE, v |-> IF neg THEN 0 - d.v ELSE d.v]
            [] d.cls = "min" /\ neg    -> [ok |-> TRUE, v |-> (0 - MaxInt32) - 1]
            [] OTHER                   -> BadInt
(* ------------------------------------------------------------------ addresses -------- *)
(* An address value: system/host/name/parent are token sequences, parent = <<>> when      *)
(* there is no parent (only the parent's NAME takes part in the text form).               *)
Address(sys, host, port, name, parent) ==
  [system |-> sys, host |-> host, port |-> port, name |-> name, parent |-> parent]

(* Address.buildString *)
String(a) ==
  <<Scheme>> \o SchemeSep \o a.system \o <<At>> \o a.host \o <<Colon>> \o IntToks(a.port) \o <<Slash>>
  \o (IF a.parent # <<>> THEN a.parent \o <<Slash>> ELSE <<>>) \o a.name

(* Address.HostPort / FormatHostPort *)
HostPort(a) == a.host \o <<Colon>> \o IntToks(a.port)

Err(c) == [ok |-> FALSE, err |-> c, addr |-> Address(<<>>, <<>>, 0, <<>>, <<>>)]
Ok(a)  == [ok |-> TRUE, err |-> "", addr |-> a]
ErrRequired == "address is required"
ErrFormat   == "address format is invalid"
ErrProtocol == "address protocol is not supported"
ErrPort     == "port"

(* address.Parse *)
Parse(s) ==
  IF s = <<>> THEN Err(ErrRequired) ELSE
  LET c1 == Cut(s, SchemeSep) IN
  IF ~c1.ok \/ Contains(c1.after, SchemeSep) THEN Err(ErrFormat) ELSE
  IF Join(c1.before) # Scheme THEN Err(ErrProtocol) ELSE
  LET c2 == Cut(c1.after, <<At>>) IN
  IF ~c2.ok \/ Contains(c2.after, <<At>>) THEN Err(ErrFormat) ELSE
  LET c3 == Cut(c2.after, <<Slash>>) IN
  IF ~c3.ok THEN Err(ErrFormat) ELSE
  LET hostPort == c3.before
      path     == c3.after IN
  IF HasPrefix(path, <<Slash>>) THEN Err(ErrFormat) ELSE
  LET c4 == IF "FirstColonCut" \in Defects THEN Cut(hostPort, <<Colon>>) ELSE CutLast(hostPort, <<Colon>>) IN
  IF ~c4.ok \/ ("FirstColonCut" \in Defects /\ Contains(c4.after, <<Colon>>)) THEN Err(ErrFormat) ELSE
  LET p == ParseInt32(c4.after) IN
  IF ~p.ok THEN Err(ErrPort) ELSE
  LET c5 == Cut(path, <<Slash>>) IN
  IF c5.ok /\ Contains(c5.after, <<Slash>>) THEN Err(ErrFormat) ELSE
  Ok(Address(c2.before, c4.before, p.v,
             IF c5.ok THEN c5.after ELSE path,
             IF c5.ok THEN c5.before ELSE <<>>))

(* address.HostPortOf *)
HostPortOf(s) ==
  LET c1 == Cut(s, <<At>>) IN
  IF ~c1.ok THEN [ok |-> FALSE, hp |-> <<>>] ELSE
  LET c2 == Cut(c1.after, <<Slash>>) IN
  IF ~c2.ok THEN [ok |-> FALSE, hp |-> <<>>] ELSE
  IF c2.before # <<>> THEN [ok |-> TRUE, hp |-> c2.before] ELSE [ok |-> FALSE, hp |-> <<>>]

(* ------------------------------------------------------------------ the property ----- *)
(* C26 on one valid address *)
RoundTrip(a) ==
  LET r == Parse(String(a)) IN
  /\ r.ok
  /\ r.addr.system = a.system /\ r.addr.host = a.host /\ r.addr.port = a.port /\ r.addr.name = a.name
  /\ r.addr.parent = a.parent
HostPortExtract(a) ==
  LET h == HostPortOf(String(a)) IN h.ok /\ h.hp = HostPort(a)
(* consequences for arbitrary strings: whatever Parse accepts is a fixed point *)
Idempotent(s) ==
  LET r == Parse(s) IN r.ok => Parse(String(r.addr)) = r
(* Join-level equality: two token sequences spell the same string *)
SameText(x, y) == Join(x) = Join(y)
(* on a canonical string (one that String reproduces) HostPortOf agrees with Parse *)
CanonicalHostPort(s) ==
  LET r == Parse(s) IN
  (r.ok /\ SameText(String(r.addr), s))
     => LET h == HostPortOf(s) IN h.ok /\ SameText(h.hp, HostPort(r.addr))
====
