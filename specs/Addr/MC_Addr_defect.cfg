SPECIFICATION Spec
CONSTANTS
  Defects = {"FirstColonCut"}
  Systems <- Q_Systems
  Hosts <- Q_Hosts
  Ports <- Q_Ports
  Names <- Q_Names
  HostAlpha <- Q_HostAlpha
  FreeHostLen = 2
  Prefixes <- Q_Prefixes
  Alphabet <- Q_Alphabet
  MaxSuffix = 4
CONSTRAINT Emit
INVARIANTS InvRoundTrip InvHostPort InvIdempotent InvCanonicalHP InvTotal
CHECK_DEADLOCK FALSE
