---- MODULE Trace_AddrAbs ----
(* Property monitor for C26 on recorded executions of the REAL internal/address code.    *)
(* It knows nothing about how Parse is implemented: only the contract                     *)
(*   - no call panics;                                                                    *)
(*   - for every address the real Validate accepts: Parse(String(a)) succeeds and gives   *)
(*     back system, host, port, name and the parent's name; Equals agrees; HostPortOf of  *)
(*     the string is "host:port";                                                         *)
(*   - for every string s: if Parse(s) succeeds, parsing the String() of the result gives *)
(*     the same address again; if moreover s is canonical (String() reproduces it),       *)
(*     HostPortOf(s) is the parsed host and port.                                         *)
(* Every line is consumed; a failed clause is printed as <<"MISMATCH", line, clause>>.    *)
EXTENDS AddrText, TLC, Json
Trace == ndJsonDeserialize("trace.ndjson")
VARIABLE l

Rep(tag, cond) == IF cond THEN TRUE ELSE PrintT(<<"MISMATCH", l, tag>>)
SameAddr(x, y) == /\ x.system = y.system /\ x.host = y.host /\ x.port = y.port
                  /\ x.name = y.name /\ x.parent = y.parent

CheckAddr(e) ==
  /\ Rep("panic", ~e.p.panic /\ ~e.hp.panic)
  /\ (e.valid /\ ~e.p.panic /\ ~e.hp.panic) =>
       /\ Rep("parse_ok", e.p.ok)
       /\ e.p.ok => /\ Rep("system", e.p.system = Join(e.system))
                    /\ Rep("host", e.p.host = Join(e.host))
                    /\ Rep("port", e.p.port = e.port)
                    /\ Rep("name", e.p.name = Join(e.name))
                    /\ Rep("parent", e.p.parent = Join(e.parent))
                    /\ Rep("equals", e.equals)
       /\ Rep("hostport", e.hp.ok /\ e.hp.v = HostPortText(Join(e.host), e.port))
CheckRaw(e) ==
  /\ Rep("panic", ~e.p.panic /\ ~e.rp.panic /\ ~e.hp.panic)
  /\ (e.p.ok /\ ~e.rp.panic) => Rep("idempotent", e.rp.ok /\ SameAddr(e.rp, e.p))
  /\ (e.p.ok /\ e.p.str = e.s /\ ~e.hp.panic) =>
        Rep("canonical_hostport", e.hp.ok /\ e.hp.v = HostPortText(e.p.host, e.p.port))

Init == l = 1
Step == /\ l <= Len(Trace)
        /\ l' = l + 1
        /\ LET e == Trace[l] IN IF e.kind = "addr" THEN CheckAddr(e) ELSE CheckRaw(e)
Spec == Init /\ [][Step]_l
====
