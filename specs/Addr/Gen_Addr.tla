---- MODULE Gen_Addr ----
(* Case generator and design-level check for C26.                                        *)
(*  - "addr" cases: every address of the product  Systems x Hosts x Ports x Names x       *)
(*    (optional parent name); hosts are host names, IPv4 and un-bracketed IPv6 literals   *)
(*    plus every token string over HostAlpha up to FreeHostLen tokens (the real           *)
(*    Address.Validate decides which of those are valid addresses).                       *)
(*  - "raw" cases: every token string  prefix \o suffix  with prefix \in Prefixes and     *)
(*    suffix over Alphabet up to MaxSuffix tokens (grown one token per step).             *)
(* TLC evaluates the transcription on every case (invariants below) and prints the case   *)
(* as JSON; the Go driver executes the real String/Parse/HostPortOf on each of them.      *)
EXTENDS Addr, Json
CONSTANTS Systems, Hosts, Ports, Names, HostAlpha, FreeHostLen, Prefixes, Alphabet, MaxSuffix

VARIABLE c

FreeHosts == UNION {[1..n -> HostAlpha] : n \in 1..FreeHostLen}
AllHosts  == Hosts \cup FreeHosts
NoAddr == Address(<<>>, <<>>, 0, <<>>, <<>>)

(* one seed state whose successors are the cases (lets TLC's workers share the work) *)
Init == c = [kind |-> "seed", a |-> NoAddr, pre |-> <<>>, suf |-> <<>>]
PickAddr == /\ c.kind = "seed"
            /\ \E s \in Systems, h \in AllHosts, p \in Ports, n \in Names, q \in Names \cup {<<>>} :
                 /\ q # n
                 /\ c' = [kind |-> "addr", a |-> Address(s, h, p, n, q), pre |-> <<>>, suf |-> <<>>]
PickPrefix == /\ c.kind = "seed"
              /\ \E p \in Prefixes : c' = [kind |-> "raw", a |-> NoAddr, pre |-> p, suf |-> <<>>]
Grow == /\ c.kind = "raw"
        /\ Len(c.suf) < MaxSuffix
        /\ \E t \in Alphabet : c' = [c EXCEPT !.suf = Append(@, t)]
Next == PickAddr \/ PickPrefix \/ Grow
Spec == Init /\ [][Next]_c

Text == c.pre \o c.suf
Case == IF c.kind = "addr"
        THEN [kind |-> "addr", system |-> c.a.system, host |-> c.a.host, port |-> c.a.port,
              name |-> c.a.name, parent |-> c.a.parent]
        ELSE [kind |-> "raw", toks |-> Text]
Emit == IF c.kind = "seed" THEN TRUE ELSE PrintT(<<"CASE", ToJson(Case)>>)

(* design-level obligations on the transcription *)
InvRoundTrip   == c.kind = "addr" => RoundTrip(c.a)
InvHostPort    == c.kind = "addr" => HostPortExtract(c.a)
InvIdempotent  == c.kind = "raw"  => Idempotent(Text)
InvCanonicalHP == c.kind = "raw"  => CanonicalHostPort(Text)
InvTotal       == c.kind = "raw"  => (Parse(Text).ok \in BOOLEAN /\ HostPortOf(Text).ok \in BOOLEAN)
====
