---- MODULE AddrText ----
(* Text conventions shared by the C26 specifications: a string is a sequence of tokens,   *)
(* its text is their concatenation; integers are written in base 10 as Go's               *)
(* strconv.AppendInt / Itoa does.  Nothing here depends on how goakt parses addresses.    *)
EXTENDS Integers, Sequences

RECURSIVE Join(_)
Join(s) == IF s = <<>> THEN "" ELSE Head(s) \o Join(Tail(s))


MaxInt32 == 2147483647
(* decimal rendering as single-digit tokens *)
DigitTok == <<"0","1","2","3","4","5","6","7","8","9">>
RECURSIVE NatToks(_)
NatToks(v) == IF v < 10 THEN <<DigitTok[v + 1]>> ELSE NatToks(v \div 10) \o <<DigitTok[(v % 10) + 1]>>
IntToks(v) == IF v >= 0 THEN NatToks(v)
              ELSE IF v = (0 - MaxInt32) - 1 THEN <<"-", "2147483648">>
              ELSE <<"-">> \o NatToks(0 - v)

(* "host:port" as text *)
HostPortText(host, port) == host \o ":" \o Join(IntToks(port))
====
