SPECIFICATION Spec
CONSTANTS
  Defects = {}
  Systems <- T_Systems
  Hosts <- T_Hosts
  Ports <- T_Ports
  Names <- T_Names
  HostAlpha <- T_HostAlpha
  FreeHostLen = 4
  Prefixes <- T_Prefixes
  Alphabet <- T_Alphabet
  MaxSuffix = 5
CONSTRAINT Emit
INVARIANTS InvRoundTrip InvHostPort InvIdempotent InvCanonicalHP InvTotal
CHECK_DEADLOCK FALSE
