---- MODULE Trace_Addr ----
(* Conformance for C26: every recorded real result must equal what the transcription      *)
(* (Addr.tla) computes for the same case: the text of String / HostPort, the outcome of   *)
(* Parse (success, error class, every field) and of HostPortOf.  A difference is drift    *)
(* (the model and the code disagree), printed as <<"DRIFT", line, what>>; it is not a     *)
(* property verdict.                                                                      *)
EXTENDS Addr, Json
Trace == ndJsonDeserialize("trace.ndjson")
VARIABLE l

Rep(tag, cond) == IF cond THEN TRUE ELSE PrintT(<<"DRIFT", l, tag>>)
ParseAgrees(r, o) ==
  /\ ~o.panic
  /\ r.ok = o.ok
  /\ r.err = o.err
  /\ r.ok => /\ Join(r.addr.system) = o.system /\ Join(r.addr.host) = o.host /\ r.addr.port = o.port
             /\ Join(r.addr.name) = o.name /\ Join(r.addr.parent) = o.parent
             /\ Join(String(r.addr)) = o.str
HPAgrees(h, o) == ~o.panic /\ h.ok = o.ok /\ Join(h.hp) = o.v

ConfAddr(e) ==
  LET a == Address(e.system, e.host, e.port, e.name, e.parent)
      s == String(a) IN
  /\ Rep("String", Join(s) = e.str)
  /\ Rep("HostPort", Join(HostPort(a)) = e.hostport /\ e.hostport = e.fmthostport)
  /\ Rep("Parse", ParseAgrees(Parse(s), e.p))
  /\ Rep("HostPortOf", HPAgrees(HostPortOf(s), e.hp))
ConfRaw(e) ==
  /\ Rep("Join", Join(e.toks) = e.s)
  /\ Rep("Parse", ParseAgrees(Parse(e.toks), e.p))
  /\ Rep("HostPortOf", HPAgrees(HostPortOf(e.toks), e.hp))

Init == l = 1
Step == /\ l <= Len(Trace)
        /\ l' = l + 1
        /\ LET e == Trace[l] IN IF e.kind = "addr" THEN ConfAddr(e) ELSE ConfRaw(e)
Spec == Init /\ [][Step]_l
====
