---- MODULE MC_Addr ----
(* Domains for Gen_Addr (token sequences cannot be written in a .cfg file).              *)
(* Q_* = quick tier, T_* = thorough tier.                                                 *)
EXTENDS Gen_Addr

W(t) == <<t>>

Q_Systems == {W("sys"), W("Orders-1.eu_w")}
Q_Names   == {W("n"), W("actor_1.x-y"), W("007")}
Q_Ports   == {0, 1, 9000, 65535}
Q_Hosts   == { W("h"), W("node-1.svc"), W("127.0.0.1"),
               <<":", ":", "1">>, <<":", ":">>, <<"fe80", ":", ":", "1">>,
               <<"2001", ":", "db8", ":", ":", "8", ":", "800", ":", "200c", ":", "417a">>,
               <<":", ":", "ffff", ":", "1.2.3.4">>, <<"fe80", ":", ":", "1%eth0">> }
Q_HostAlpha == {":", "a", "1"}
Q_Prefixes == { <<>>,
                <<"goakt", ":", "/", "/">>,
                <<"goakt", ":", "/", "/", "a", "@">>,
                <<"goakt", ":", "/", "/", "a", "@", "a", ":">>,
                <<"goakt", ":", "/", "/", "a", "@", "a", ":", "1", "/">>,
                <<"goakt", ":", "/", "/", "a", "@", ":", ":">> }
Q_Alphabet == {"a", "1", ":", "/", "@", "+", "goakt"}

T_Systems == Q_Systems \cup {W("S")}
T_Names   == Q_Names \cup {W("A"), W("x.y")}
T_Ports   == Q_Ports \cup {80, 65534}
T_Hosts   == Q_Hosts \cup { W("HOST"), W("a_b"), W("10.0.0.12"), <<"1", ":", ":">>,
                            <<"0", ":", "0", ":", "0", ":", "0", ":", "0", ":", "0", ":", "0", ":", "1">> }
T_HostAlpha == {":", "a", "1", "."}
T_Prefixes == Q_Prefixes \cup { <<"go", "akt", ":", "/", "/">>, <<"http", ":", "/", "/">>,
                                <<"goakt", ":", "/", "/", "a", "@", "a", ":", "2147483648">> }
T_Alphabet == Q_Alphabet \cup {"-"}
====
