----------------------------- MODULE MemberMon -----------------------------
(* C34 - the property itself, as a monitor over what an observer sees: the            *)
(* notifications fed to the tracker (with the ground-truth change number they          *)
(* belong to) and the events it emits.  It knows nothing of the tracker's state.       *)
(*                                                                                    *)
(*  once   between two NodeJoined(n) there is a node-left(n) notification or a         *)
(*         NodeLeft(n); between two NodeLeft(n) there is a node-join(n) notification   *)
(*         or a NodeJoined(n)  (duplicates of a notification never produce a second    *)
(*         event; "until the opposite event")                                          *)
(*  self   no event names the local node                                               *)
(*  settled NodeLeft(n) is emitted only by n's timeout, or when some epoch that        *)
(*         covers the departure has completed: an epoch e >= d where d is the change   *)
(*         number of the (earliest) pending departure of n.  A NodeLeft(n) without a   *)
(*         pending departure is spurious.                                              *)
(* Verdict codes: SELF, DUPJOIN, DUPLEFT, SPURIOUS, EARLY (no completed node-left       *)
(* epoch at all), EARLY_STALE (waited for a completed node-left epoch, but one that     *)
(* began before the departure: the observable class of the known findings StaleLeftEpoch and      *)
(* LateStartReassign; which emission belongs to which finding is decided by            *)
(* Trace_MembershipAttr, not here).            *)
EXTENDS Integers, Sequences, FiniteSets

MonInit(NodeSet) == [canJ |-> [n \in NodeSet |-> TRUE], canL |-> [n \in NodeSet |-> TRUE],
                     dep |-> [n \in NodeSet |-> 0], compl |-> {}, lstart |-> {}]

Min(a, b) == IF a <= b THEN a ELSE b

\* effect of the input on the monitor state
MonInput(m, in) ==
  CASE in.op = "join"     -> IF in.n \in DOMAIN m.canL THEN [m EXCEPT !.canL[in.n] = TRUE] ELSE m
    [] in.op = "left"     -> IF in.n \in DOMAIN m.canJ
                             THEN [m EXCEPT !.canJ[in.n] = TRUE, !.dep[in.n] = IF @ = 0 THEN in.e ELSE Min(@, in.e)]
                             ELSE m
    [] in.op = "start"    -> IF in.r = "left" THEN [m EXCEPT !.lstart = @ \cup {in.e}] ELSE m
    [] in.op = "complete" -> [m EXCEPT !.compl = @ \cup {in.e}]
    [] OTHER -> m

\* verdicts for one emitted event ev = [t, n] given the input of the step
Verdicts(m, in, ev, self) ==
  (IF ev.n = self THEN {"SELF"} ELSE {}) \cup
  (IF ev.n \notin DOMAIN m.canJ THEN {"UNKNOWN"}
   ELSE IF ev.t = "joined" THEN (IF m.canJ[ev.n] THEN {} ELSE {"DUPJOIN"})
   ELSE IF ev.t = "left" THEN
        (IF m.canL[ev.n] THEN {} ELSE {"DUPLEFT"}) \cup
        (IF in.op = "overdue" /\ in.n = ev.n THEN {}
         ELSE IF m.dep[ev.n] = 0 THEN {"SPURIOUS"}
         ELSE IF \E e \in m.compl : e >= m.dep[ev.n] THEN {}
         ELSE IF m.compl \cap m.lstart # {} THEN {"EARLY_STALE"} ELSE {"EARLY"})
   ELSE {"UNKNOWN"})

MonEvent(m, ev) ==
  IF ev.n \notin DOMAIN m.canJ THEN m
  ELSE IF ev.t = "joined" THEN [m EXCEPT !.canJ[ev.n] = FALSE, !.canL[ev.n] = TRUE]
  ELSE IF ev.t = "left" THEN [m EXCEPT !.canL[ev.n] = FALSE, !.canJ[ev.n] = TRUE, !.dep[ev.n] = 0]
  ELSE m

\* fold over the emitted sequence: returns [m, bad] with bad = set of <<code, node>>
RECURSIVE MonFold(_, _, _, _, _, _)
MonFold(m, in, em, i, self, bad) ==
  IF i > Len(em) THEN [m |-> m, bad |-> bad]
  ELSE MonFold(MonEvent(m, em[i]), in, em, i + 1, self,
               bad \cup {<<c, em[i].n>> : c \in Verdicts(m, in, em[i], self)})

MonStep(m, in, em, self) == MonFold(MonInput(m, in), in, em, 1, self, {})
=============================================================================
