SPECIFICATION MCSpec
CONSTANTS
  MaxPeers = 2
  MaxActors = 3
  MaxLoad = 1
  MaxGrains = 9
  MaxReActors = 3
  MaxSharePeers = 1
  MaxShareActors = 1
  MaxChunk = 9
  NKinds = 4
  MaxDerive = 4
  BigPeers = 9
  SmallActors = 9
  MaxSharePeers2 = 0
  MaxShareActors2 = 0
  MaxOkb = 0
INVARIANT Holds
CHECK_DEADLOCK FALSE
