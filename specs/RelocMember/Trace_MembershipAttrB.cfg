SPECIFICATION ASpec
CONSTANTS
  Peers = {"p1", "p2", "p3"}
  Self = "self"
  MaxEpoch = 4
  Defects = {"StaleLeftEpoch", "LateStartReassign", "StickyLeftFilter"}
CHECK_DEADLOCK FALSE
