SPECIFICATION Spec
CONSTANTS
  NodeSet = {"self", "p1", "p2", "p3"}
  Self = "self"
CHECK_DEADLOCK FALSE
