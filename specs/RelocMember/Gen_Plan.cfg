SPECIFICATION GSpec
CONSTANTS
  MaxPeers = 2
  MaxActors = 3
  MaxLoad = 1
  MaxGrains = 6
  MaxReActors = 2
  MaxSharePeers = 2
  MaxShareActors = 2
  MaxChunk = 7
  NKinds = 4
  MaxDerive = 3
  BigPeers = 9
  SmallActors = 9
  MaxSharePeers2 = 0
  MaxShareActors2 = 0
  MaxOkb = 1
  Families = {"Actors", "Grains", "Reassign", "Share", "Chunk", "Derive"}
CONSTRAINT Emit
