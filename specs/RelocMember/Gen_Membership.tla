---- MODULE Gen_Membership ----
(* Behaviour generator for C34: carries the history of handler calls and prints it,   *)
(* together with the ground-truth change sequence, when a walk reaches Depth          *)
(* (BFS: every history of that length; -simulate: random walks).                      *)
EXTENDS Membership, Json
CONSTANTS Depth
VARIABLE hist
GInit == Init /\ hist = <<>>
GNext == Next /\ hist' = Append(hist, [op |-> last'.op, n |-> last'.n, e |-> last'.e, r |-> last'.r])
GSpec == GInit /\ [][GNext]_<<vars, hist>>
Emit == (Len(hist) < Depth) \/ (PrintT(<<"BEHAVIOUR", ToJson([chg |-> chg, h |-> hist])>>) /\ FALSE)
\* Edge cover: with VIEW CoverView TLC explores every distinct tracker state once; the CONSTRAINT is
\* evaluated on every generated successor, so every (reachable state, handler call) pair - including
\* every duplicate / redelivered notification, start and complete in every state - is printed once.
CoverView == core
EmitAll == IF hist = <<>> THEN TRUE ELSE PrintT(<<"BEHAVIOUR", ToJson([chg |-> chg, h |-> hist])>>)
====
