---- MODULE Gen_Membership ----
(* Behaviour generator for C34: carries the history of handler calls and prints it,   *)
(* together with the ground-truth change sequence, when a walk reaches Depth          *)
(* (BFS: every history of that length; -simulate: random walks).                      *)
EXTENDS Membership, Json
CONSTANTS Depth
VARIABLE hist
GInit == Init /\ hist = <<>>
GNext == Next /\ hist' = Append(hist, [op |-> last'.op, n |-> last'.n, e |-> last'.e, r |-> last'.r])
GSpec == GInit /\ [][GNext]_<<vars, hist>>
Emit == (Len(hist) < Depth) \/ (PrintT(<<"BEHAVIOUR", ToJson([chg |-> chg, h |-> hist])>>) /\ FALSE)
====
