---- MODULE Trace_MembershipMon ----
(* Property monitor for C34 on recorded executions of the REAL tracker: only the     *)
(* inputs fed to handleClusterEvent / the timer callback and the events read from    *)
(* the events channel are used (MemberMon).  Every line is consumed; a verdict is    *)
(* printed as <<"MISMATCH", line, code, node>>.                                      *)
EXTENDS MemberMon, TLC, Json
CONSTANTS NodeSet, Self
Trace == ndJsonDeserialize("trace.ndjson")
VARIABLES l, mon
Init == l = 1 /\ mon = MonInit(NodeSet)
Report(bad) == \A b \in bad : PrintT(<<"MISMATCH", l, b[1], b[2]>>)
Step ==
  /\ l <= Len(Trace)
  /\ l' = l + 1
  /\ LET e == Trace[l] IN
     IF e.op = "New" THEN mon' = MonInit(NodeSet)
     ELSE LET r == MonStep(mon, [op |-> e.op, n |-> e.n, e |-> e.e, r |-> e.r], e.em, Self)
          IN Report(r.bad) /\ mon' = r.m
Spec == Init /\ [][Step]_<<l, mon>>
====
