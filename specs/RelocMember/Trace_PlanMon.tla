---- MODULE Trace_PlanMon ----
(* Property monitor for C32: every recorded (input, real output) pair of the planner *)
(* functions is judged against the CONTRACT only (Plan.tla part 1).  Every line is   *)
(* consumed; a failing line is printed as <<"MISMATCH", line, op>>.                  *)
EXTENDS Plan, Json
Trace == ndJsonDeserialize("trace.ndjson")
VARIABLE l
Valid(e) == CASE e.op = "Actors"   -> ValidActors(e.in, e.out)
              [] e.op = "Grains"   -> ValidGrains(e.in, e.out)
              [] e.op = "Reassign" -> ValidReassign(e.in, e.out)
              [] e.op = "Share"    -> ValidShare(e.in, e.out)
              [] e.op = "Chunk"    -> ValidChunks(e.in, e.out)
              [] e.op = "Derive"   -> ValidDerive(e.in, e.out)
              [] OTHER -> FALSE
Init == l = 1
Step == /\ l <= Len(Trace)
        /\ l' = l + 1
        /\ IF Valid(Trace[l]) THEN TRUE ELSE PrintT(<<"MISMATCH", l, Trace[l].op>>)
Spec == Init /\ [][Step]_l
====
