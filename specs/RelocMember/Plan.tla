------------------------------- MODULE Plan -------------------------------
(* C32 - the relocation planner of actor/relocation_worker.go.                       *)
(*                                                                                   *)
(* Part 1 is the CONTRACT: Valid<Op>(in, out) says what a correct plan is, without   *)
(* saying how it is computed.  It is the property monitor: TLC evaluates it on the   *)
(* (input, output) pairs recorded from the REAL planner functions.                   *)
(* Part 2 is a TRANSCRIPTION of the algorithms (allocateActors greedy with base      *)
(* loads and lower-index tie break, allocateGrains remainder + Chunkify,             *)
(* reassignByRole + leastLoadedEligibleSurvivor, chunk.Chunkify).  MC_Plan proves    *)
(* (bounded) that the transcription satisfies the contract for every input and every *)
(* map-iteration order; Trace_Plan compares the real output with it (conformance).   *)
(*                                                                                   *)
(* Encoding.  Targets are numbered 0..Len(peers): 0 is the leader, t is peers[t]     *)
(* (Go: index 0 = leader, index i = peers[i-1]).  Role lists are sequences of        *)
(* strings, "" is "no role required".  Go slices of shares are sequences whose       *)
(* element t+1 belongs to target t.  Items are identified by integer ids.            *)
EXTENDS Integers, Sequences, FiniteSets, TLC

Range(s) == {s[i] : i \in DOMAIN s}
RECURSIVE Flatten(_)
Flatten(ss) == IF ss = <<>> THEN <<>> ELSE Head(ss) \o Flatten(Tail(ss))
\* a sequence that lists every element of set S exactly once
ExactlyOnce(s, S) == Range(s) = S /\ Len(s) = Cardinality(S)
Elig(rs, role) == role = "" \/ \E i \in DOMAIN rs : rs[i] = role
TailFrom(s, i) == SubSeq(s, i, Len(s))       \* s[i..]

\* ========================================================================
\* Part 1 - contracts
\* ========================================================================

\* ---- allocateActors ----------------------------------------------------
\* in  = [lr, peers : Seq(roles), loads : Seq(Nat) (any other length = nil), actors : Seq([id, role, single])]
\* out = [leader, shares, unpl, order]   order = target index of the k-th placement (hook reloc.assign)
NT(in) == Len(in.peers) + 1
TRoles(in, t) == IF t = 0 THEN in.lr ELSE in.peers[t]
Base(in, t) == IF Len(in.loads) = NT(in) THEN in.loads[t + 1] ELSE 0
\* ids are positions in all generated cases (fast path); otherwise search
ActorOf(in, id) == IF id \in DOMAIN in.actors /\ in.actors[id].id = id THEN in.actors[id]
                   ELSE CHOOSE a \in Range(in.actors) : a.id = id
ActorIds(in) == {in.actors[i].id : i \in DOMAIN in.actors}
NoTarget(in, role) == \A t \in 0..(NT(in) - 1) : ~Elig(TRoles(in, t), role)

\* role-less actors land on a least-loaded target at assignment time (replay of the
\* observed placement order; cnt[t] = number of departed actors already handed to t)
RECURSIVE LeastLoadedFrom(_, _, _, _)
LeastLoadedFrom(in, out, k, cnt) ==
  IF k > Len(out.order)
  THEN \A t \in 0..(NT(in) - 1) : cnt[t] = Len(out.shares[t + 1])
  ELSE LET t == out.order[k]
           pos == cnt[t] + 1
       IN /\ t \in 0..(NT(in) - 1)
          /\ pos <= Len(out.shares[t + 1])
          /\ LET a == ActorOf(in, out.shares[t + 1][pos])
             IN a.role = "" => \A u \in 0..(NT(in) - 1) : Base(in, t) + cnt[t] <= Base(in, u) + cnt[u]
          /\ LeastLoadedFrom(in, out, k + 1, [cnt EXCEPT ![t] = @ + 1])

ValidActors(in, out) ==
  /\ Len(out.shares) = NT(in)
  \* every actor of the departed node exactly once: on the leader, on one peer, or unplaceable
  /\ ExactlyOnce(out.leader \o Flatten(TailFrom(out.shares, 2)) \o out.unpl, ActorIds(in))
  \* singletons go to the leader; the leader's other items are its own share and need its role
  /\ \A a \in Range(in.actors) : a.single => a.id \in Range(out.leader)
  /\ {id \in Range(out.leader) : ~ActorOf(in, id).single} = Range(out.shares[1])
  /\ \A t \in 0..(NT(in) - 1) : \A i \in DOMAIN out.shares[t + 1] :
        LET a == ActorOf(in, out.shares[t + 1][i]) IN ~a.single /\ Elig(TRoles(in, t), a.role)
  \* unplaceable exactly when no surviving target advertises the role
  /\ \A i \in DOMAIN out.unpl : LET a == ActorOf(in, out.unpl[i]) IN ~a.single /\ NoTarget(in, a.role)
  /\ LeastLoadedFrom(in, out, 1, [t \in 0..(NT(in) - 1) |-> 0])

\* ---- relocatableGrains + allocateGrains ---------------------------------
\* in  = [np (= number of peers + 1), grains : Seq([id, dis])]
\* out = [reloc, leader, shares]
RelocIds(in) == {g.id : g \in {x \in Range(in.grains) : ~x.dis}}
ValidGrains(in, out) ==
  /\ ExactlyOnce(out.reloc, RelocIds(in))                 \* disabled grains are not touched
  /\ Len(out.shares) <= in.np                             \* share i goes to peers[i-1]: i < np
  /\ ExactlyOnce(out.leader \o Flatten(TailFrom(out.shares, 2)), RelocIds(in))
  /\ Len(out.shares) > 0 => Range(out.shares[1]) \subseteq Range(out.leader)

\* ---- reassignByRole (redistribution of an unreachable peer's unsent share) ----
\* in  = [lr, surv : Seq(roles), reqs : Seq([actors : Seq([id, role, single]), grains : Seq(id)])]
\* out = [shares, leader, grains, failed]
ReqActors(in) == Flatten([i \in DOMAIN in.reqs |-> in.reqs[i].actors])
ReqGrains(in) == Flatten([i \in DOMAIN in.reqs |-> in.reqs[i].grains])
NoSurvivor(in, role) == \A t \in DOMAIN in.surv : ~Elig(in.surv[t], role)
ShareOf(out, id) == CHOOSE t \in DOMAIN out.shares : id \in Range(out.shares[t])

RECURSIVE ReassignLeast(_, _, _, _, _)
ReassignLeast(in, out, acts, k, cnt) ==
  IF k > Len(acts) THEN TRUE
  ELSE LET a == acts[k] IN
       IF \E t \in DOMAIN out.shares : a.id \in Range(out.shares[t])
       THEN LET t == ShareOf(out, a.id) IN
            /\ out.shares[t][cnt[t] + 1] = a.id               \* shares keep the processing order
            /\ a.role = "" => \A u \in DOMAIN out.shares : cnt[t] <= cnt[u]
            /\ ReassignLeast(in, out, acts, k + 1, [cnt EXCEPT ![t] = @ + 1])
       ELSE ReassignLeast(in, out, acts, k + 1, cnt)

ValidReassign(in, out) ==
  LET acts == ReqActors(in)
      ids == {acts[i].id : i \in DOMAIN acts}
      A(id) == IF id \in DOMAIN acts /\ acts[id].id = id THEN acts[id] ELSE CHOOSE a \in Range(acts) : a.id = id
  IN /\ Len(out.shares) = Len(in.surv)
     /\ ExactlyOnce(Flatten(out.shares) \o out.leader \o out.failed, ids)
     /\ \A t \in DOMAIN out.shares : \A i \in DOMAIN out.shares[t] : Elig(in.surv[t], A(out.shares[t][i]).role)
     \* the leader is the fallback: only what no surviving peer can host and it can
     /\ \A i \in DOMAIN out.leader : LET r == A(out.leader[i]).role IN NoSurvivor(in, r) /\ Elig(in.lr, r)
     \* reported unplaceable exactly when no surviving node, leader included, advertises the role
     /\ \A i \in DOMAIN out.failed : LET r == A(out.failed[i]).role IN NoSurvivor(in, r) /\ ~Elig(in.lr, r)
     /\ ExactlyOnce(out.grains, Range(ReqGrains(in))) /\ Len(ReqGrains(in)) = Len(out.grains)
     /\ ReassignLeast(in, out, acts, 1, [t \in DOMAIN out.shares |-> 0])

\* ---- relocateShare on a worker without local fallback (real redistribution run) ----
\* in  = [peers : Seq(roles), target, okb (batches the target accepts before it becomes
\*        unreachable), down : Seq(peer index) (unreachable survivors),
\*        actors : Seq([id, role, single]), grains : Seq([id, eager])]
\* out = [recv : Seq([a : Seq(id), g : Seq(id)]) (what each peer accepted), fa, fg (failed actor / grain ids)]
ValidShare(in, out) ==
  LET P == DOMAIN in.peers
      Surv == P \ {in.target}
      Down == Range(in.down)
      Stuck == Surv = {} \/ Surv \cap Down # {}        \* some of the redistribution could not be delivered
      recvA == Flatten([p \in P |-> out.recv[p].a])
      recvG == Flatten([p \in P |-> out.recv[p].g])
      EagerIds == {g.id : g \in {x \in Range(in.grains) : x.eager}}
      LazyIds == {g.id : g \in {x \in Range(in.grains) : ~x.eager}}
      IsEager(id) == id \in EagerIds
      IsLazy(id) == id \in LazyIds
      lazyRecv == SelectSeq(recvG, IsLazy)
  IN /\ Len(out.recv) = Len(in.peers)
     \* every actor ends in exactly one place: accepted by exactly one node, or reported failed once
     /\ ExactlyOnce(recvA \o out.fa, ActorIds(in))
     \* a survivor only gets what it can host, and only reachable nodes accept anything
     /\ \A p \in Surv : \A i \in DOMAIN out.recv[p].a : Elig(in.peers[p], ActorOf(in, out.recv[p].a[i]).role)
     /\ \A p \in Down \cap Surv : out.recv[p].a = <<>> /\ out.recv[p].g = <<>>
     \* an actor is reported failed only if no survivor advertises its role or an eligible survivor is unreachable
     /\ \A i \in DOMAIN out.fa : LET r == ActorOf(in, out.fa[i]).role IN
           (\A p \in Surv : ~Elig(in.peers[p], r)) \/ (\E p \in Surv \cap Down : Elig(in.peers[p], r))
     \* eager grains: exactly one outcome; reported failed only when delivery was impossible
     /\ ExactlyOnce(SelectSeq(recvG, IsEager) \o out.fg, EagerIds)
     /\ out.fg # <<>> => Stuck
     \* lazy grains are handed over at most once and never reported (their directory entry self-heals)
     /\ Range(lazyRecv) \subseteq LazyIds /\ Len(lazyRecv) = Cardinality(Range(lazyRecv))
     /\ Range(lazyRecv) # LazyIds => Stuck

\* ---- deriveRelocationSetFromRegistry (what enters the plan at all) -------------
\* in  = [actors : Seq([id, reloc, sys]), grains : Seq([id, sys, dis])]   registry records of the departed host
\* out = [ok, actors, grains]                                             ids in the derived PeerState
\* Non-relocatable and system entries never reach the planner (disabled grains are dropped
\* next, by relocatableGrains: see ValidGrains).
ValidDerive(in, out) ==
  /\ out.ok
  /\ ExactlyOnce(out.actors, {a.id : a \in {x \in Range(in.actors) : x.reloc /\ ~x.sys}})
  /\ ExactlyOnce(out.grains, {g.id : g \in {x \in Range(in.grains) : ~x.sys}})

\* ---- chunk.Chunkify ---------------------------------------------------------
\* in = [items : Seq(id), size (> 0)], out = [chunks : Seq(Seq(id))]
ValidChunks(in, out) ==
  /\ Flatten(out.chunks) = in.items                        \* nothing lost, duplicated or reordered
  /\ \A i \in DOMAIN out.chunks : Len(out.chunks[i]) > 0 /\ Len(out.chunks[i]) <= in.size
  /\ \A i \in DOMAIN out.chunks : i < Len(out.chunks) => Len(out.chunks[i]) = in.size

\* ========================================================================
\* Part 2 - transcription of the algorithms
\* ========================================================================
RECURSIVE Chunkify(_, _)
Chunkify(s, n) == IF s = <<>> THEN <<>>
                  ELSE LET m == IF Len(s) < n THEN Len(s) ELSE n
                       IN <<SubSeq(s, 1, m)>> \o Chunkify(SubSeq(s, m + 1, Len(s)), m)

\* allocateActors: `seq` is the iteration order of the PeerState.Actors map
BestTarget(in, role, loads) ==
  LET E == {t \in 0..(NT(in) - 1) : Elig(TRoles(in, t), role)}
  IN IF E = {} THEN -1
     ELSE CHOOSE t \in E : \A u \in E : loads[t] < loads[u] \/ (loads[t] = loads[u] /\ t <= u)

RECURSIVE AllocFrom(_, _, _, _)
AllocFrom(in, seq, k, st) ==     \* st = [shares : [0..NT-1 -> Seq(id)], loads, singles, unpl, order]
  IF k > Len(seq) THEN st
  ELSE LET a == seq[k] IN
       IF a.single THEN AllocFrom(in, seq, k + 1, [st EXCEPT !.singles = Append(@, a.id)])
       ELSE LET b == BestTarget(in, a.role, st.loads) IN
            IF b = -1 THEN AllocFrom(in, seq, k + 1, [st EXCEPT !.unpl = Append(@, a.id)])
            ELSE AllocFrom(in, seq, k + 1, [st EXCEPT !.shares[b] = Append(@, a.id), !.loads[b] = @ + 1,
                                                         !.order = Append(@, b)])

AllocActors(in, seq) ==
  LET T == 0..(NT(in) - 1)
      st == AllocFrom(in, seq, 1, [shares |-> [t \in T |-> <<>>], loads |-> [t \in T |-> Base(in, t)],
                                   singles |-> <<>>, unpl |-> <<>>, order |-> <<>>])
  IN [leader |-> st.singles \o st.shares[0], shares |-> [i \in 1..NT(in) |-> st.shares[i - 1]],
      unpl |-> st.unpl, order |-> st.order]

\* allocateGrains over the relocatable grains `rel` (order of relocatableGrains' result)
AllocGrains(np, rel) ==
  LET n == Len(rel)
      q == n \div np
      r == n % np
      chunks == Chunkify(SubSeq(rel, r + 1, n), q)
  IN [leader |-> SubSeq(rel, 1, r) \o (IF chunks = <<>> THEN <<>> ELSE chunks[1]), shares |-> chunks]

\* reassignByRole / leastLoadedEligibleSurvivor
BestSurvivor(in, role, shares) ==
  LET E == {t \in DOMAIN in.surv : Elig(in.surv[t], role)}
  IN IF E = {} THEN 0
     ELSE CHOOSE t \in E : \A u \in E : Len(shares[t]) < Len(shares[u]) \/ (Len(shares[t]) = Len(shares[u]) /\ t <= u)

RECURSIVE ReassignFrom(_, _, _, _)
ReassignFrom(in, acts, k, st) ==
  IF k > Len(acts) THEN st
  ELSE LET a == acts[k]
           b == BestSurvivor(in, a.role, st.shares)
       IN IF b # 0 THEN ReassignFrom(in, acts, k + 1, [st EXCEPT !.shares[b] = Append(@, a.id)])
          ELSE IF Elig(in.lr, a.role) THEN ReassignFrom(in, acts, k + 1, [st EXCEPT !.leader = Append(@, a.id)])
          ELSE ReassignFrom(in, acts, k + 1, [st EXCEPT !.failed = Append(@, a.id)])

Reassign(in) ==
  LET st == ReassignFrom(in, ReqActors(in), 1, [shares |-> [t \in DOMAIN in.surv |-> <<>>], leader |-> <<>>, failed |-> <<>>])
  IN [shares |-> st.shares, leader |-> st.leader, failed |-> st.failed, grains |-> ReqGrains(in)]
=============================================================================
