SPECIFICATION MCSpec
CONSTANTS
  Peers = {"p1"}
  Self = "self"
  MaxEpoch = 2
  Defects = {"SelfNodeLeft", "StickyLeftFilter"}
  MaxArmed = 2
CONSTRAINT Bound
VIEW View
INVARIANTS TypeOK Shape NoBad
