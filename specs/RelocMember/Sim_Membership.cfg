SPECIFICATION GSpec
CONSTANTS
  Peers = {"p1", "p2"}
  Self = "self"
  MaxEpoch = 3
  Defects = {"StaleLeftEpoch", "LateStartReassign", "StickyLeftFilter"}
  Depth = 12
CONSTRAINT Emit
