SPECIFICATION MCSpec
CONSTANTS
  MaxPeers = 2
  MaxActors = 2
  MaxLoad = 1
  MaxGrains = 6
  MaxReActors = 2
  MaxSharePeers = 1
  MaxShareActors = 1
  MaxChunk = 7
  NKinds = 4
  MaxDerive = 3
  BigPeers = 9
  SmallActors = 9
  MaxSharePeers2 = 0
  MaxShareActors2 = 0
  MaxOkb = 0
INVARIANT Holds
CHECK_DEADLOCK FALSE
