---- MODULE MC_Plan ----
(* Design-level obligation for C32: the TRANSCRIPTION of the planner algorithms       *)
(* satisfies the CONTRACT for every enumerated input and, for allocateActors, for      *)
(* every iteration order of the actors map.  (The contract is also shown not to be     *)
(* vacuous: broken plans derived from the transcription's output are rejected.)        *)
EXTENDS PlanCases
VARIABLE c
Perms(n) == {f \in [1..n -> 1..n] : \A i, j \in 1..n : i # j => f[i] # f[j]}
MCCases == UNION {{[k |-> x, p |-> f] : f \in Perms(Len(x.actors))} : x \in ActorCases} \cup
           {[k |-> x, p |-> <<>>] : x \in GrainCases \cup ReassignCases \cup ChunkCases}
RelSeq(g) == LET keep(x) == ~x.dis IN [i \in DOMAIN SelectSeq(g, keep) |-> SelectSeq(g, keep)[i].id]
Result(x, p) ==
  CASE x.op = "Actors"   -> AllocActors(x, [i \in DOMAIN x.actors |-> x.actors[p[i]]])
    [] x.op = "Grains"   -> LET rel == RelSeq(x.grains) r == AllocGrains(x.np, rel)
                            IN [reloc |-> rel, leader |-> r.leader, shares |-> r.shares]
    [] x.op = "Reassign" -> Reassign(x)
    [] x.op = "Chunk"    -> [chunks |-> Chunkify(x.items, x.size)]
ValidFor(x, out) ==
  CASE x.op = "Actors"   -> ValidActors(x, out)
    [] x.op = "Grains"   -> ValidGrains(x, out)
    [] x.op = "Reassign" -> ValidReassign(x, out)
    [] x.op = "Chunk"    -> ValidChunks(x, out)
\* broken variants of a correct plan that the contract must reject
Broken(x, out) ==
  CASE x.op = "Actors" ->
         (IF out.leader # <<>> THEN {[out EXCEPT !.leader = Tail(@)], [out EXCEPT !.leader = @ \o <<Head(@)>>]} ELSE {})
         \cup (IF out.unpl # <<>> THEN {[out EXCEPT !.unpl = <<>>, !.leader = @ \o out.unpl]} ELSE {})
         \cup (IF Len(out.shares) > 1 /\ out.shares[2] # <<>> THEN {[out EXCEPT !.shares[2] = Tail(@)]} ELSE {})
    [] x.op = "Grains" ->
         (IF out.leader # <<>> THEN {[out EXCEPT !.leader = Tail(@)], [out EXCEPT !.leader = @ \o <<Head(@)>>]} ELSE {})
         \cup (IF Len(out.shares) > 1 THEN {[out EXCEPT !.shares[2] = Tail(@)], [out EXCEPT !.shares = @ \o <<out.shares[2]>>]} ELSE {})
    [] x.op = "Reassign" ->
         (IF out.grains # <<>> THEN {[out EXCEPT !.grains = Tail(@)]} ELSE {})
         \cup (IF out.failed # <<>> THEN {[out EXCEPT !.failed = <<>>]} ELSE {})
         \cup (IF out.leader # <<>> THEN {[out EXCEPT !.leader = @ \o @]} ELSE {})
    [] x.op = "Chunk" -> (IF Len(out.chunks) > 1 THEN {[out EXCEPT !.chunks = Tail(@)], [out EXCEPT !.chunks = <<Head(@)>> \o @]} ELSE {})
Holds == LET out == Result(c.k, c.p) IN ValidFor(c.k, out) /\ \A b \in Broken(c.k, out) : ~ValidFor(c.k, b)
MCInit == c \in MCCases
MCSpec == MCInit /\ [][UNCHANGED c]_c
====
