SPECIFICATION GSpec
CONSTANTS
  Peers = {"p1"}
  Self = "self"
  MaxEpoch = 2
  Defects = {"StaleLeftEpoch", "StickyLeftFilter"}
  Depth = 4
CONSTRAINT Emit
