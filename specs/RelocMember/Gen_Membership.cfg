SPECIFICATION GSpec
CONSTANTS
  Peers = {"p1"}
  Self = "self"
  MaxEpoch = 2
  Defects = {"StaleLeftEpoch", "LateStartReassign", "StickyLeftFilter"}
  Depth = 3
CONSTRAINT Emit
