---- MODULE MC_Membership ----
(* Design-level check for C34: the tracker model composed with the property monitor   *)
(* (MemberMon) as history variables.  `bad` holds the verdicts of the latest step.     *)
EXTENDS Membership, MemberMon
CONSTANTS MaxArmed
VARIABLES mon, bad
SetToSeq(S) == IF S = {} THEN <<>> ELSE CHOOSE s \in [1..Cardinality(S) -> S] : {s[i] : i \in DOMAIN s} = S
EmSeq(c) == LET ls == SetToSeq(c.l) js == SetToSeq(c.j)
            IN [i \in DOMAIN ls |-> [t |-> "left", n |-> ls[i]]] \o [i \in DOMAIN js |-> [t |-> "joined", n |-> js[i]]]
MCInit == Init /\ mon = MonInit(Nodes) /\ bad = {}
MCNext == /\ Next
          /\ LET r == MonStep(mon, [op |-> last'.op, n |-> last'.n, e |-> last'.e, r |-> last'.r], EmSeq(last'), Self)
             IN mon' = r.m /\ bad' = r.bad
MCSpec == MCInit /\ [][MCNext]_<<vars, mon, bad>>
View == <<core, mon, bad>>
Bound == \A n \in Nodes : armed[n] <= MaxArmed
\* C34 (once, self, settled) on every step
NoBad == bad = {}
\* the code as found deviates from C34 only through the recorded witnesses
KnownOnly == \A b \in bad : b[1] \in {"EARLY_STALE", "SELF"}
OnlyStale == \A b \in bad : b[1] = "EARLY_STALE"
OnlySelf == \A b \in bad : b[1] = "SELF" /\ b[2] = Self
====
