---------------------------- MODULE PlanCases ----------------------------
(* The finite input spaces TLC enumerates for C32 (one record per case, field `op`   *)
(* selects the planner function).  Item order is canonical (non-decreasing kind)     *)
(* where the real function takes a Go map (iteration order is random anyway) and     *)
(* arbitrary where it takes a slice.                                                 *)
EXTENDS Plan
CONSTANTS MaxPeers, MaxActors, MaxLoad, MaxGrains, MaxReActors, MaxSharePeers, MaxShareActors, MaxChunk, NKinds, MaxOkb, MaxDerive,
          BigPeers, SmallActors, MaxSharePeers2, MaxShareActors2   \* with BigPeers or more peers only SmallActors actors are enumerated

RoleLists == << <<>>, <<"r1">>, <<"r2">>, <<"r1", "r2">> >>
Kinds == << [role |-> "", single |-> FALSE], [role |-> "r1", single |-> FALSE], [role |-> "r2", single |-> FALSE],
            [role |-> "", single |-> TRUE], [role |-> "r1", single |-> TRUE] >>
NonDecr(n, m) == {f \in [1..n -> 1..m] : \A i \in 1..(n - 1) : f[i] <= f[i + 1]}
MkActors(f, n) == [i \in 1..n |-> [id |-> i, role |-> Kinds[f[i]].role, single |-> Kinds[f[i]].single]]

PeerSeqs(maxp) == UNION {{[i \in 1..n |-> RoleLists[f[i]]] : f \in [1..n -> 1..4]} : n \in 0..maxp}
ActorBagsUpTo(m) == UNION {{MkActors(f, n) : f \in NonDecr(n, NKinds)} : n \in 0..m}
BoundFor(p, m) == LET b == IF Len(p) > BigPeers THEN SmallActors - 1 ELSE IF Len(p) = BigPeers THEN SmallActors ELSE m
                  IN IF b < m THEN b ELSE m
ActorSeqs(maxn) == UNION {{MkActors(f, n) : f \in [1..n -> 1..3]} : n \in 0..maxn}   \* ordered, no singletons
LoadsFor(p) == {<<>>} \cup [1..(Len(p) + 1) -> 0..MaxLoad]

ActorCases == UNION {UNION {{[op |-> "Actors", lr |-> RoleLists[a], peers |-> p, loads |-> l, actors |-> s]
                               : a \in 1..4, s \in ActorBagsUpTo(BoundFor(p, MaxActors))} : l \in LoadsFor(p)} : p \in PeerSeqs(MaxPeers)}

GrainBags == UNION {{[i \in 1..n |-> [id |-> i, dis |-> (i > k)]] : k \in 0..n} : n \in 0..MaxGrains}
GrainCases == {[op |-> "Grains", np |-> np, grains |-> g] : np \in 1..(MaxPeers + 1), g \in GrainBags}

IdSeq(from, n) == [i \in 1..n |-> from + i]
ReqShapes(s, ng) ==      \* the request lists buildRelocateBatchRequests can produce, plus a split actor batch
  LET g == IdSeq(100, ng) IN
  {<<[actors |-> s, grains |-> <<>>], [actors |-> <<>>, grains |-> g]>>,
   <<[actors |-> s, grains |-> g]>>} \cup
  (IF Len(s) >= 2 THEN {<<[actors |-> SubSeq(s, 1, 1), grains |-> <<>>], [actors |-> SubSeq(s, 2, Len(s)), grains |-> <<>>],
                          [actors |-> <<>>, grains |-> g]>>} ELSE {})
ReassignCases == UNION {UNION {{[op |-> "Reassign", lr |-> RoleLists[a], surv |-> p, reqs |-> r]
                                  : a \in 1..4, r \in ReqShapes(s, ng)} : s \in ActorSeqs(BoundFor(p, MaxReActors)), ng \in 0..2}
                        : p \in PeerSeqs(MaxPeers)}

SortedSeqs(S) == {s \in UNION {[1..n -> S] : n \in 0..Cardinality(S)} : \A i \in 1..(Len(s) - 1) : s[i] < s[i + 1]}
ShareGrains == UNION {{[i \in 1..n |-> [id |-> 100 + i, eager |-> (i > k)]] : k \in 0..n} : n \in 0..2}
ShareCasesFor(maxp, maxa) ==
  UNION {UNION {{[op |-> "Share", peers |-> p, target |-> t, okb |-> b, down |-> d, actors |-> s, grains |-> g]
                   : b \in 0..MaxOkb, d \in SortedSeqs(DOMAIN p \ {t}), s \in ActorSeqs(maxa), g \in ShareGrains}
                : t \in DOMAIN p} : p \in PeerSeqs(maxp) \ {<<>>}}
ShareCases == ShareCasesFor(MaxSharePeers, MaxShareActors) \cup ShareCasesFor(MaxSharePeers2, MaxShareActors2)

\* registry records: every combination of flags for up to MaxDerive actors and grains (canonical order)
Flags2 == << <<FALSE, FALSE>>, <<FALSE, TRUE>>, <<TRUE, FALSE>>, <<TRUE, TRUE>> >>
DeriveActors == UNION {{[i \in 1..n |-> [id |-> i, reloc |-> Flags2[f[i]][1], sys |-> Flags2[f[i]][2]]] : f \in NonDecr(n, 4)} : n \in 0..MaxDerive}
DeriveGrains == UNION {{[i \in 1..n |-> [id |-> i, sys |-> Flags2[f[i]][1], dis |-> Flags2[f[i]][2]]] : f \in NonDecr(n, 4)} : n \in 0..MaxDerive}
DeriveCases == {[op |-> "Derive", actors |-> a, grains |-> g] : a \in DeriveActors, g \in DeriveGrains}

ChunkCases == {[op |-> "Chunk", items |-> IdSeq(0, n), size |-> k] : n \in 0..MaxChunk, k \in 1..4}
=============================================================================
