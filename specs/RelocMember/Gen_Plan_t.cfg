SPECIFICATION GSpec
CONSTANTS
  MaxPeers = 3
  MaxActors = 4
  MaxLoad = 1
  MaxGrains = 9
  MaxReActors = 3
  MaxSharePeers = 2
  MaxShareActors = 2
  MaxChunk = 9
  NKinds = 5
  MaxDerive = 4
  BigPeers = 2
  SmallActors = 3
  MaxSharePeers2 = 3
  MaxShareActors2 = 1
  MaxOkb = 2
  Families = {"Actors", "Grains", "Reassign", "Share", "Chunk", "Derive"}
CONSTRAINT Emit
