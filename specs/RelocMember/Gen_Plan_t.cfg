SPECIFICATION GSpec
CONSTANTS
  MaxPeers = 3
  MaxActors = 4
  MaxLoad = 1
  MaxGrains = 9
  MaxReActors = 3
  MaxSharePeers = 3
  MaxShareActors = 2
  MaxChunk = 9
  NKinds = 5
  MaxDerive = 4
  BigPeers = 3
  SmallActors = 2
  MaxOkb = 2
  Families = {"Actors", "Grains", "Reassign", "Share", "Chunk", "Derive"}
CONSTRAINT Emit
