---- MODULE Trace_Membership ----
(* Conformance for C34: the recorded execution of the real tracker must be a          *)
(* behaviour of the transcription, step by step: same emitted events (as sets, with   *)
(* their timestamps = the first tracked notification's) and the same internal maps    *)
(* (projected through the shim).  TLC stopping before the last line is drift.          *)
EXTENDS Membership, Json
Trace == ndJsonDeserialize("trace.ndjson")
VARIABLE l
ToSet(s) == {s[i] : i \in DOMAIN s}
EmOf(e, t) == {x.n : x \in {y \in ToSet(e.em) : y.t = t}}
\* within one call every NodeLeft precedes every NodeJoined
Ordered(e) == \A i, j \in DOMAIN e.em : (e.em[i].t = "joined" /\ e.em[j].t = "left") => i > j
\* an emitted event carries the timestamp recorded when the node was first tracked
\* (possibly by this very call)
TsOK(e) == \A i \in DOMAIN e.em :
   LET x == e.em[i]
       old == IF x.t = "left" THEN leftTs[x.n] ELSE joinTs[x.n]
   IN x.ts = (IF old # 0 THEN old ELSE e.e)
Matches(e) ==
  /\ last'.l = EmOf(e, "left") /\ last'.j = EmOf(e, "joined") /\ Ordered(e) /\ Len(e.em) = Cardinality(last'.l) + Cardinality(last'.j)
  /\ \A n \in Nodes : /\ joinTs'[n] = e.st.jt[n] /\ leftTs'[n] = e.st.lt[n]
                      /\ joinEp'[n] = e.st.je[n] /\ leftEp'[n] = e.st.le[n]
  /\ latestJoin' = e.st.lj /\ latestLeft' = e.st.ll
  /\ startSeen' = ToSet(e.st.ss) /\ completeSeen' = ToSet(e.st.cs)
  /\ joinedF' = ToSet(e.st.jf) /\ leftF' = ToSet(e.st.lf)
TNew(e) == /\ chg' = e.chg
           /\ joinTs' = [n \in Nodes |-> 0] /\ leftTs' = [n \in Nodes |-> 0]
           /\ joinEp' = [n \in Nodes |-> 0] /\ leftEp' = [n \in Nodes |-> 0]
           /\ latestJoin' = 0 /\ latestLeft' = 0 /\ startSeen' = {} /\ completeSeen' = {}
           /\ joinedF' = {} /\ leftF' = {} /\ armed' = [n \in Nodes |-> 0]
           /\ last' = Call("init", "", 0, "", {}, {})
TStep ==
  /\ l <= Len(Trace)
  /\ l' = l + 1
  /\ LET e == Trace[l] IN
     \/ e.op = "New" /\ TNew(e)
     \/ e.op = "join" /\ TrackJoin(e.n, e.e) /\ Matches(e) /\ TsOK(e)
     \/ e.op = "left" /\ TrackLeft(e.n, e.e) /\ Matches(e) /\ TsOK(e)
     \/ e.op = "start" /\ Start(e.e, e.r, e.n) /\ Matches(e) /\ TsOK(e)
     \/ e.op = "complete" /\ Complete(e.e) /\ Matches(e) /\ TsOK(e)
     \/ e.op = "overdue" /\ Overdue(e.n) /\ Matches(e) /\ TsOK(e)
TInit == chg = <<>> /\ TrackerInit /\ l = 1
TSpec == TInit /\ [][TStep]_<<vars, l>>
====
