---- MODULE Trace_MembershipAttr ----
(* Attribution of early emissions to a known finding.  The transcription, with the   *)
(* Defects of the configuration, runs FREE next to the recorded execution (its state  *)
(* is its own, nothing is copied from the log) and its predicted emissions are        *)
(* compared with the real ones.  The first step of a behaviour where they differ is   *)
(* printed as <<"DIVERGED", line>>; from there to the end of the behaviour nothing is  *)
(* explained by this set of Defects.  An EARLY_STALE verdict of the monitor is         *)
(* attributed to a known finding only when it lies strictly before the divergence,    *)
(* i.e. the model of that finding predicts exactly this emission; any other early     *)
(* emission stays a violation.                                                         *)
EXTENDS Trace_Membership
VARIABLE div
Same(e) == /\ last'.l = EmOf(e, "left") /\ last'.j = EmOf(e, "joined")
           /\ Len(e.em) = Cardinality(last'.l) + Cardinality(last'.j)
Run(e) == \/ e.op = "join" /\ TrackJoin(e.n, e.e)
          \/ e.op = "left" /\ TrackLeft(e.n, e.e)
          \/ e.op = "start" /\ Start(e.e, e.r, e.n)
          \/ e.op = "complete" /\ Complete(e.e)
          \/ e.op = "overdue" /\ Overdue(e.n)
AStep ==
  /\ l <= Len(Trace)
  /\ l' = l + 1
  /\ LET e == Trace[l] IN
     IF e.op = "New" THEN TNew(e) /\ div' = FALSE
     ELSE IF e.op = "overdue" /\ armed[e.n] = 0       \* the model has no such timer: unexplained from here
     THEN /\ UNCHANGED vars /\ div' = TRUE
          /\ IF div THEN TRUE ELSE PrintT(<<"DIVERGED", l>>)
     ELSE /\ Run(e)
          /\ div' = (div \/ ~Same(e))
          /\ IF ~div /\ ~Same(e) THEN PrintT(<<"DIVERGED", l>>) ELSE TRUE
AInit == TInit /\ div = FALSE
ASpec == AInit /\ [][AStep]_<<vars, l, div>>
====
