---- MODULE Trace_PlanConf ----
(* Conformance for C32: the real output must equal what the TRANSCRIPTION of the     *)
(* algorithms (Plan.tla part 2) computes on the same input, given the observed map   *)
(* iteration order.  A differing line is printed as <<"DRIFT", line, op>>; drift is  *)
(* reported in the evidence and never decides the verdict.                           *)
EXTENDS Plan, Json
Trace == ndJsonDeserialize("trace.ndjson")
VARIABLE l

\* the sequence of placed actors, reconstructed from the hook order and the shares
RECURSIVE PlacedSeq(_, _, _, _)
PlacedSeq(in, out, k, cnt) ==
  IF k > Len(out.order) THEN <<>>
  ELSE LET t == out.order[k] IN
       <<ActorOf(in, out.shares[t + 1][cnt[t] + 1])>> \o PlacedSeq(in, out, k + 1, [cnt EXCEPT ![t] = @ + 1])
OrderOK(in, out) ==
  /\ Len(out.shares) = NT(in)
  /\ \A k \in DOMAIN out.order : out.order[k] \in 0..(NT(in) - 1)
  /\ \A t \in 0..(NT(in) - 1) : Cardinality({k \in DOMAIN out.order : out.order[k] = t}) = Len(out.shares[t + 1])
IsSingle(in) == [id \in ActorIds(in) |-> ActorOf(in, id).single]
ConfActors(in, out) ==
  /\ OrderOK(in, out)
  /\ LET r == AllocActors(in, PlacedSeq(in, out, 1, [t \in 0..(NT(in) - 1) |-> 0]))
         sg == IsSingle(in)
         Single(id) == sg[id]
     IN /\ r.shares = out.shares /\ r.order = out.order
        /\ out.leader = SelectSeq(out.leader, Single) \o out.shares[1]
        /\ Len(out.leader) + Len(Flatten(TailFrom(out.shares, 2))) + Len(out.unpl) = Len(in.actors)
ConfGrains(in, out) ==
  LET r == AllocGrains(in.np, out.reloc) IN r.leader = out.leader /\ r.shares = out.shares
ConfReassign(in, out) ==
  LET r == Reassign(in) IN /\ [t \in DOMAIN in.surv |-> out.shares[t]] = r.shares /\ Len(out.shares) = Len(in.surv)
                           /\ r.leader = out.leader /\ r.failed = out.failed /\ r.grains = out.grains
ConfChunk(in, out) == Chunkify(in.items, in.size) = out.chunks
Conf(e) == CASE e.op = "Actors"   -> ConfActors(e.in, e.out)
             [] e.op = "Grains"   -> ConfGrains(e.in, e.out)
             [] e.op = "Reassign" -> ConfReassign(e.in, e.out)
             [] e.op = "Chunk"    -> ConfChunk(e.in, e.out)
             [] OTHER -> TRUE      \* Share: contract only (its parts are Reassign + Chunk)
Init == l = 1
Step == /\ l <= Len(Trace)
        /\ l' = l + 1
        /\ IF Conf(Trace[l]) THEN TRUE ELSE PrintT(<<"DRIFT", l, Trace[l].op>>)
Spec == Init /\ [][Step]_l
====
