SPECIFICATION GSpec
CONSTANTS
  Peers = {"p1", "p2"}
  Self = "self"
  MaxEpoch = 2
  Defects = {"StaleLeftEpoch", "LateStartReassign", "StickyLeftFilter"}
  Depth = 0
VIEW CoverView
CONSTRAINT EmitAll
