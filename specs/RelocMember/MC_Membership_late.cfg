SPECIFICATION MCSpec
CONSTANTS
  Peers = {"p1", "p2"}
  Self = "self"
  MaxEpoch = 3
  Defects = {"LateStartReassign", "StickyLeftFilter"}
  MaxArmed = 2
CONSTRAINT Bound
VIEW View
INVARIANTS TypeOK Shape NoBad
