---- MODULE Gen_Plan ----
(* Prints every case of the selected families as one JSON object per line.  Each    *)
(* case is an initial state; the CONSTRAINT prints it and cuts the search.          *)
EXTENDS PlanCases, Json
CONSTANTS Families
VARIABLE c
Cases == (IF "Actors" \in Families THEN ActorCases ELSE {}) \cup (IF "Grains" \in Families THEN GrainCases ELSE {})
         \cup (IF "Reassign" \in Families THEN ReassignCases ELSE {}) \cup (IF "Share" \in Families THEN ShareCases ELSE {})
         \cup (IF "Chunk" \in Families THEN ChunkCases ELSE {}) \cup (IF "Derive" \in Families THEN DeriveCases ELSE {})
GInit == c \in Cases
GNext == UNCHANGED c
GSpec == GInit /\ [][GNext]_c
Emit == PrintT(<<"BEHAVIOUR", ToJson(c)>>) /\ FALSE
====
