----------------------------- MODULE Membership -----------------------------
(* C34 - transcription of the membership event tracker of internal/cluster/cluster.go *)
(* (trackNodeJoinEvent, trackNodeLeftEvent, processRebalanceStart,                    *)
(* processRebalanceComplete, emitOverdueNodeLeft and the helpers assign*EpochLocked,  *)
(* emitPending*ForEpochLocked, emitNode*Locked): one action per handler, the handler  *)
(* runs under eventsLock so it is one atomic step.                                    *)
(*                                                                                    *)
(* Environment (ground truth).  `chg` is the sequence of membership changes olric      *)
(* went through; change number i triggers rebalance epoch i.  For change i olric       *)
(* publishes a notification (node-join / node-left, none for kind "other"), a          *)
(* rebalance-start(i, reason, node) and possibly a rebalance-complete(i).  Every        *)
(* member publishes its own copy from its own goroutine, so the tracker may receive    *)
(* each message any number of times and in any order: every message of `chg` may be    *)
(* delivered at every step.  The timestamp of a notification is its change number.     *)
(*                                                                                    *)
(* Deviations of the real code from the design that satisfies C34 are named branches:  *)
(*   StaleLeftEpoch    trackNodeLeftEvent: a departure adopts rebalanceLeftLatestEpoch  *)
(*                     although that epoch began BEFORE the departure (the latest epoch *)
(*                     is never reset and is not compared with the departure)           *)
(*   LateStartReassign processRebalanceStart: a node-left start that arrives for the    *)
(*                     first time sets rebalanceLeftLatestEpoch even when a NEWER epoch *)
(*                     already started (arrival order, not epoch order) and             *)
(*                     assignLeftEpochLocked re-assigns EVERY pending departure to it,  *)
(*                     also departures that happened after that epoch began             *)
(*   SelfNodeLeft      trackNodeLeftEvent has no "ignore self" test (join has one)      *)
(*   StickyLeftFilter  nodeLeftEventsFilter is never cleared (a node that left,         *)
(*                     re-joined and leaves again gets no second NodeLeft)              *)
(* Defects = {} is the repaired design; the code as found is RealDefects.              *)
EXTENDS Integers, Sequences, FiniteSets, TLC

CONSTANTS Peers, Self, MaxEpoch, Defects

Nodes == Peers \cup {Self}
RealDefects == {"StaleLeftEpoch", "LateStartReassign", "SelfNodeLeft", "StickyLeftFilter"}

VARIABLES chg,            \* ground truth, Seq([kind : {"join","left","other"}, node])
          joinTs, leftTs, \* nodeJoinTimestamps / nodeLeftTimestamps   [Nodes -> Nat], 0 = no entry
          joinEp, leftEp, \* rebalanceJoinNodeEpochs / rebalanceLeftNodeEpochs, 0 = no entry
          latestJoin, latestLeft,   \* rebalance{Join,Left}LatestEpoch
          startSeen, completeSeen,  \* rebalance{Start,Complete}Seen
          joinedF, leftF,           \* node{Joined,Left}EventsFilter
          armed,                    \* [Nodes -> Nat] pending nodeLeftEmitTimeout timers
          last                      \* output only: the call and the events it emitted

core == <<chg, joinTs, leftTs, joinEp, leftEp, latestJoin, latestLeft, startSeen, completeSeen, joinedF, leftF, armed>>
vars == <<core, last>>

Max(a, b) == IF a >= b THEN a ELSE b
Call(op, n, e, r, l, j) == [op |-> op, n |-> n, e |-> e, r |-> r, l |-> l, j |-> j]

\* ---- emitPendingLeftForEpochLocked + emitNodeLeftLocked ----------------------
EmitPendingLeft(epoch, lt, le, jf, lf) ==
  LET S == {m \in Nodes : le[m] = epoch}
      R == {m \in S : lt[m] # 0}
  IN [lt |-> [m \in Nodes |-> IF m \in S THEN 0 ELSE lt[m]],
      le |-> [m \in Nodes |-> IF m \in S THEN 0 ELSE le[m]],
      jf |-> jf \ R, lf |-> lf \cup R, em |-> R \ lf]

\* ---- emitPendingJoinForEpochLocked + emitNodeJoinedLocked --------------------
EmitPendingJoin(epoch, jt, je, jf, lf) ==
  LET S == {m \in Nodes : je[m] = epoch}
      R == {m \in S : jt[m] # 0}
  IN [jt |-> [m \in Nodes |-> IF m \in S THEN 0 ELSE jt[m]],
      je |-> [m \in Nodes |-> IF m \in S THEN 0 ELSE je[m]],
      jf |-> jf \cup R, em |-> R \ jf,
      lf |-> IF "StickyLeftFilter" \in Defects THEN lf ELSE lf \ (R \ jf)]

\* ---- trackNodeJoinEvent --------------------------------------------------------
TrackJoin(n, ts) ==
  IF n = Self \/ n \in joinedF \/ joinTs[n] # 0
  THEN /\ last' = Call("join", n, ts, "", {}, {})
       /\ UNCHANGED core
  ELSE LET jt1 == [joinTs EXCEPT ![n] = ts]
           je1 == IF latestJoin # 0 THEN [joinEp EXCEPT ![n] = latestJoin] ELSE joinEp
           r == IF latestJoin # 0 /\ latestJoin \in completeSeen
                THEN EmitPendingJoin(latestJoin, jt1, je1, joinedF, leftF)
                ELSE [jt |-> jt1, je |-> je1, jf |-> joinedF, lf |-> leftF, em |-> {}]
       IN /\ joinTs' = r.jt /\ joinEp' = r.je /\ joinedF' = r.jf /\ leftF' = r.lf
          /\ last' = Call("join", n, ts, "", {}, r.em)
          /\ UNCHANGED <<chg, leftTs, leftEp, latestJoin, latestLeft, startSeen, completeSeen, armed>>

\* ---- trackNodeLeftEvent --------------------------------------------------------
TrackLeft(n, ts) ==
  IF n = Self /\ "SelfNodeLeft" \notin Defects
  THEN /\ last' = Call("left", n, ts, "", {}, {})
       /\ UNCHANGED core
  ELSE IF n \in leftF \/ leftTs[n] # 0
  THEN /\ joinedF' = joinedF \ {n}
       /\ last' = Call("left", n, ts, "", {}, {})
       /\ UNCHANGED <<chg, joinTs, leftTs, joinEp, leftEp, latestJoin, latestLeft, startSeen, completeSeen, leftF, armed>>
  ELSE LET jf1 == joinedF \ {n}
           lt1 == [leftTs EXCEPT ![n] = ts]
           adopt == latestLeft # 0 /\ ("StaleLeftEpoch" \in Defects \/ latestLeft >= ts)
           le1 == IF adopt THEN [leftEp EXCEPT ![n] = latestLeft] ELSE leftEp
           r == IF adopt /\ latestLeft \in completeSeen
                THEN EmitPendingLeft(latestLeft, lt1, le1, jf1, leftF)
                ELSE [lt |-> lt1, le |-> le1, jf |-> jf1, lf |-> leftF, em |-> {}]
       IN /\ leftTs' = r.lt /\ leftEp' = r.le /\ joinedF' = r.jf /\ leftF' = r.lf
          /\ armed' = [armed EXCEPT ![n] = @ + 1]          \* time.AfterFunc(nodeLeftEmitTimeout, ...)
          /\ last' = Call("left", n, ts, "", r.em, {})
          /\ UNCHANGED <<chg, joinTs, joinEp, latestJoin, latestLeft, startSeen, completeSeen>>

\* ---- emitOverdueNodeLeft (callback of the timer armed by trackNodeLeftEvent) ----
Overdue(n) ==
  /\ armed[n] > 0
  /\ armed' = [armed EXCEPT ![n] = @ - 1]
  /\ IF leftTs[n] = 0
     THEN /\ last' = Call("overdue", n, 0, "", {}, {})
          /\ UNCHANGED <<chg, joinTs, leftTs, joinEp, leftEp, latestJoin, latestLeft, startSeen, completeSeen, joinedF, leftF>>
     ELSE /\ joinedF' = joinedF \ {n}
          /\ leftF' = leftF \cup {n}
          /\ leftTs' = [leftTs EXCEPT ![n] = 0]
          /\ leftEp' = [leftEp EXCEPT ![n] = 0]
          /\ last' = Call("overdue", n, 0, "", {n} \ leftF, {})
          /\ UNCHANGED <<chg, joinTs, joinEp, latestJoin, latestLeft, startSeen, completeSeen>>

\* ---- processRebalanceStart -------------------------------------------------------
Start(e, reason, node) ==
  IF reason \notin {"left", "join"} \/ (reason = "join" /\ node = Self) \/ e \in startSeen
  THEN /\ last' = Call("start", node, e, reason, {}, {})
       /\ UNCHANGED core
  ELSE /\ startSeen' = startSeen \cup {e}
       /\ IF reason = "left"
          THEN LET stale == "LateStartReassign" \in Defects
                   le1 == [m \in Nodes |-> IF leftTs[m] # 0 /\ (stale \/ (leftTs[m] <= e /\ leftEp[m] <= e))
                                           THEN e ELSE leftEp[m]]     \* assignLeftEpochLocked
                   r == IF e \in completeSeen THEN EmitPendingLeft(e, leftTs, le1, joinedF, leftF)
                        ELSE [lt |-> leftTs, le |-> le1, jf |-> joinedF, lf |-> leftF, em |-> {}]
               IN /\ latestLeft' = IF stale THEN e ELSE Max(latestLeft, e)
                  /\ leftTs' = r.lt /\ leftEp' = r.le /\ joinedF' = r.jf /\ leftF' = r.lf
                  /\ last' = Call("start", node, e, reason, r.em, {})
                  /\ UNCHANGED <<chg, joinTs, joinEp, latestJoin, completeSeen, armed>>
          ELSE LET je1 == [m \in Nodes |-> IF joinTs[m] # 0 THEN e ELSE joinEp[m]]   \* assignJoinEpochLocked
                   r == IF e \in completeSeen THEN EmitPendingJoin(e, joinTs, je1, joinedF, leftF)
                        ELSE [jt |-> joinTs, je |-> je1, jf |-> joinedF, lf |-> leftF, em |-> {}]
               IN /\ latestJoin' = e
                  /\ joinTs' = r.jt /\ joinEp' = r.je /\ joinedF' = r.jf /\ leftF' = r.lf
                  /\ last' = Call("start", node, e, reason, {}, r.em)
                  /\ UNCHANGED <<chg, leftTs, leftEp, latestLeft, completeSeen, armed>>

\* ---- processRebalanceComplete ----------------------------------------------------
Complete(e) ==
  IF e \in completeSeen
  THEN /\ last' = Call("complete", "", e, "", {}, {})
       /\ UNCHANGED core
  ELSE LET r1 == EmitPendingLeft(e, leftTs, leftEp, joinedF, leftF)
           r2 == EmitPendingJoin(e, joinTs, joinEp, r1.jf, r1.lf)
       IN /\ completeSeen' = completeSeen \cup {e}
          /\ leftTs' = r1.lt /\ leftEp' = r1.le
          /\ joinTs' = r2.jt /\ joinEp' = r2.je /\ joinedF' = r2.jf /\ leftF' = r2.lf
          /\ last' = Call("complete", "", e, "", r1.em, r2.em)
          /\ UNCHANGED <<chg, latestJoin, latestLeft, startSeen, armed>>

\* ---- environment ---------------------------------------------------------------
Kinds == {"join", "left", "other"}
\* a node's joins and departures alternate; "other" (node-update) changes name the local node
Alternates(s) == \A i, j \in DOMAIN s :
                    (i < j /\ s[i].node = s[j].node /\ s[i].kind = s[j].kind /\ s[i].kind # "other")
                    => \E k \in (i + 1)..(j - 1) : s[k].node = s[i].node /\ s[k].kind \notin {s[i].kind, "other"}
ChangeSeqs == {s \in UNION {[1..n -> [kind : Kinds, node : Nodes]] : n \in 1..MaxEpoch} :
                  Alternates(s) /\ \A i \in DOMAIN s : s[i].kind = "other" => s[i].node = Self}

TrackerInit ==
  /\ joinTs = [n \in Nodes |-> 0] /\ leftTs = [n \in Nodes |-> 0]
  /\ joinEp = [n \in Nodes |-> 0] /\ leftEp = [n \in Nodes |-> 0]
  /\ latestJoin = 0 /\ latestLeft = 0 /\ startSeen = {} /\ completeSeen = {}
  /\ joinedF = {} /\ leftF = {} /\ armed = [n \in Nodes |-> 0]
  /\ last = Call("init", "", 0, "", {}, {})

Init == chg \in ChangeSeqs /\ TrackerInit

Next == \/ \E c \in DOMAIN chg : chg[c].kind = "join" /\ TrackJoin(chg[c].node, c)
        \/ \E c \in DOMAIN chg : chg[c].kind = "left" /\ TrackLeft(chg[c].node, c)
        \/ \E e \in DOMAIN chg : Start(e, chg[e].kind, chg[e].node)
        \/ \E e \in DOMAIN chg : Complete(e)
        \/ \E n \in Nodes : Overdue(n)

Spec == Init /\ [][Next]_vars

TypeOK == /\ joinTs \in [Nodes -> 0..MaxEpoch] /\ leftTs \in [Nodes -> 0..MaxEpoch]
          /\ joinEp \in [Nodes -> 0..MaxEpoch] /\ leftEp \in [Nodes -> 0..MaxEpoch]
          /\ latestJoin \in 0..MaxEpoch /\ latestLeft \in 0..MaxEpoch
          /\ startSeen \subseteq 1..MaxEpoch /\ completeSeen \subseteq 1..MaxEpoch
          /\ joinedF \subseteq Nodes /\ leftF \subseteq Nodes
\* an epoch entry exists only for a pending node, and a pending node is not filtered
Shape == /\ \A n \in Nodes : joinTs[n] # 0 => n \notin joinedF
         /\ \A n \in Nodes : leftTs[n] # 0 => n \notin leftF
=============================================================================
