---- MODULE Gen_Claim ----
(* Behaviour generator for the claim race: the sequence of steps (node, tick, action, outcome)  *)
(* of one complete run (every node through with every tick).  BFS = every interleaving of the   *)
(* bounded model, -simulate = random ones.                                                      *)
EXTENDS Claim, Json
VARIABLE hist
GInit == Init /\ hist = <<>>
Rec(n, t, a, r) == [n |-> n, t |-> t, a |-> a, r |-> r]
GNext ==
  \/ \E n \in Nodes, t \in Ticks : Fire(n, t) /\ hist' = Append(hist, Rec(n, t, "Fire", ""))
  \/ \E n \in Nodes, t \in Ticks : Tell(n, t) /\ hist' = Append(hist, Rec(n, t, "Tell", ""))
  \/ \E n \in Nodes, t \in Ticks, r \in {"fresh", "stale"} : Check(n, t, r) /\ hist' = Append(hist, Rec(n, t, "Check", r))
  \/ \E n \in Nodes, t \in Ticks, r \in ClaimOutcomes : Claim(n, t, r) /\ hist' = Append(hist, Rec(n, t, "Claim", r))
  \/ \E t \in Ticks : Expire(t) /\ hist' = Append(hist, Rec("", t, "Expire", ""))
GSpec == GInit /\ [][GNext]_<<vars, hist>>
Finished == \A th \in Th : pc[th] = "done"
Emit == ~Finished \/ (PrintT(<<"BEHAVIOUR", ToJson(hist)>>) /\ FALSE)
====
