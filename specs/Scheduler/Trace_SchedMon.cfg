SPECIFICATION Spec
CONSTANTS
  MaxGen = 8
  Tol = 2000
CHECK_DEADLOCK FALSE
