---- MODULE MC_Claim ----
EXTENDS Claim
====
