---- MODULE Trace_ClaimMon ----
(* Property monitor for the cluster part of C19 on recorded puppet replays of the REAL          *)
(* schedulers racing for cron ticks.  It knows only the observable contract: a tick is          *)
(* delivered at most once across all nodes, a tick that some node could try to claim (saw it    *)
(* fresh, no registry error) is delivered exactly once, and nothing is delivered outside a      *)
(* tick; a node fires (goes on to deliver) only if the real ClaimScheduleFire acknowledged its  *)
(* claim as won, and the claim is acknowledged as won only if the registry applied this node's  *)
(* put-if-absent and answered (r = what the registry did with the write: won, lost, err, tmo =  *)
(* timed out unapplied, tmoa = applied but the answer timed out; ack = what the node was told). *)
(* Every line is consumed; a failed check prints <<"MISMATCH", line, id, code, a, b>>.          *)
EXTENDS Integers, Sequences, TLC, Json
CONSTANT MaxTick
Trace == ndJsonDeserialize("trace.ndjson")
VARIABLES l, id, told, tried, total, blocked
vars == <<l, id, told, tried, total, blocked>>
T == 1..MaxTick
Init == l = 1 /\ id = -1 /\ told = [t \in T |-> 0] /\ tried = [t \in T |-> FALSE] /\ total = 0 /\ blocked = [t \in T |-> FALSE]
Chk(c, code, a, b) == IF c THEN TRUE ELSE PrintT(<<"MISMATCH", l, id, code, a, b>>)
ChkAll(S, P(_), code) == \A t \in S : Chk(P(t), code, t, told[t])
Step ==
  /\ l <= Len(Trace)
  /\ l' = l + 1
  /\ LET e == Trace[l] IN
     CASE e.op = "New" ->
            id' = e.id /\ told' = [t \in T |-> 0] /\ tried' = [t \in T |-> FALSE] /\ total' = 0 /\ blocked' = [t \in T |-> FALSE]
       [] e.op = "Claim" ->
            /\ tried' = IF e.r \in {"won", "lost"} THEN [tried EXCEPT ![e.t] = TRUE] ELSE tried
            /\ blocked' = IF e.r = "tmoa" THEN [blocked EXCEPT ![e.t] = TRUE] ELSE blocked
            /\ Chk((e.ack = "won") = (e.r = "won"), "claim-acknowledged-without-win", e.r, e.ack)
            /\ Chk(e.next # "tell" \/ (e.ack = "won" /\ e.r = "won"), "fires-without-won-claim", e.r, e.ack)
            /\ UNCHANGED <<id, told, total>>
       [] e.op = "Tell" ->
            /\ told' = [told EXCEPT ![e.t] = @ + e.dlv] /\ total' = total + e.dlv
            /\ Chk(told'[e.t] <= 1, "tick-delivered-twice", e.t, told'[e.t])
            /\ UNCHANGED <<id, tried, blocked>>
       [] e.op = "End" ->
            /\ Chk(e.sink = total /\ e.loose = 0, "delivery-outside-a-tick", e.sink, total)
            /\ (e.drift # "" \/ ChkAll(T, LAMBDA t : tried[t] /\ ~blocked[t] => told[t] = 1, "tick-not-delivered"))
            /\ Chk(e.drift # "" \/ e.sink <= MaxTick, "more-deliveries-than-ticks", e.sink, 0)
            /\ UNCHANGED <<id, told, tried, total, blocked>>
       [] OTHER -> UNCHANGED <<id, told, tried, total, blocked>>
Spec == Init /\ [][Step]_vars
====
