---- MODULE Trace_ClaimMon ----
(* Property monitor for the cluster part of C19 on recorded puppet replays of the REAL          *)
(* schedulers racing for cron ticks.  It knows only the observable contract: a tick is          *)
(* delivered at most once across all nodes, a tick that some node could try to claim (saw it    *)
(* fresh, no registry error) is delivered exactly once, and nothing is delivered outside a      *)
(* tick.  Every line is consumed; a failed check prints <<"MISMATCH", line, id, code, a, b>>.   *)
EXTENDS Integers, Sequences, TLC, Json
CONSTANT MaxTick
Trace == ndJsonDeserialize("trace.ndjson")
VARIABLES l, id, told, tried, total
vars == <<l, id, told, tried, total>>
T == 1..MaxTick
Init == l = 1 /\ id = -1 /\ told = [t \in T |-> 0] /\ tried = [t \in T |-> FALSE] /\ total = 0
Chk(c, code, a, b) == IF c THEN TRUE ELSE PrintT(<<"MISMATCH", l, id, code, a, b>>)
ChkAll(S, P(_), code) == \A t \in S : Chk(P(t), code, t, told[t])
Step ==
  /\ l <= Len(Trace)
  /\ l' = l + 1
  /\ LET e == Trace[l] IN
     CASE e.op = "New" ->
            id' = e.id /\ told' = [t \in T |-> 0] /\ tried' = [t \in T |-> FALSE] /\ total' = 0
       [] e.op = "Claim" ->
            /\ tried' = IF e.r \in {"won", "lost"} THEN [tried EXCEPT ![e.t] = TRUE] ELSE tried
            /\ UNCHANGED <<id, told, total>>
       [] e.op = "Tell" ->
            /\ told' = [told EXCEPT ![e.t] = @ + e.dlv] /\ total' = total + e.dlv
            /\ Chk(told'[e.t] <= 1, "tick-delivered-twice", e.t, told'[e.t])
            /\ UNCHANGED <<id, tried>>
       [] e.op = "End" ->
            /\ Chk(e.sink = total /\ e.loose = 0, "delivery-outside-a-tick", e.sink, total)
            /\ (e.drift # "" \/ ChkAll(T, LAMBDA t : tried[t] => told[t] = 1, "tick-not-delivered"))
            /\ Chk(e.drift # "" \/ e.sink <= MaxTick, "more-deliveries-than-ticks", e.sink, 0)
            /\ UNCHANGED <<id, told, tried, total>>
       [] OTHER -> UNCHANGED <<id, told, tried, total>>
Spec == Init /\ [][Step]_vars
====
