---- MODULE Claim ----
(* C19 (cluster part) - a cron tick is delivered at most once across all nodes.                 *)
(*                                                                                              *)
(* Every node registers the same cron schedule under the same reference.  When the tick with    *)
(* scheduled run time T fires on node n, goakt's job function (actor/scheduler.go makeJobFn /   *)
(* claimClusterFire) does, in this order:                                                       *)
(*   Check   skip the tick when it is older than the claim TTL (stale);                         *)
(*   Claim   cluster.ClaimScheduleFire("<ref>@<T>", ttl): an NX put with expiry - exactly one   *)
(*           node gets nil, the others ErrScheduleFireClaimed; a registry error delivers        *)
(*           nothing on that node.  Outcome classes of the write: won, lost, err (fails, not    *)
(*           applied), tmo (runs into the node's write timeout, not applied), tmoa (applied,    *)
(*           but the acknowledgement is lost: the node sees the same timeout).  A node fires    *)
(*           only if its claim was acknowledged as won.  "TimeoutWins" in Defects: a timed-out  *)
(*           claim is treated as won;                                                           *)
(*   Tell    only the winner delivers.                                                          *)
(* One logical thread per (node, tick); steps of different threads interleave freely.           *)
(* The claim key expires TTL after it was written.  Expiry is modelled under the ASSUMPTION     *)
(* NoLongStall: no node is between its staleness check and its claim when the key expires (a    *)
(* node that passed the check did so at most TTL after T, the key lives until at least TTL      *)
(* after T; crossing that point between the two steps needs a stall at exactly the wrong        *)
(* moment).  "LongStall" in Defects drops the assumption.                                       *)
EXTENDS Integers, Sequences, FiniteSets, TLC

CONSTANTS Nodes, Ticks,
          Faults,    \* may the registry fail a claim?   (BOOLEAN)
          Stale,     \* may a node lag beyond the TTL before the key expired? (BOOLEAN)
          Defects

VARIABLES pc,       \* [Nodes \X Ticks] -> "idle" "job" "claim" "tell" "done"
          out,      \* [Nodes \X Ticks] -> "" "stale" "won" "lost" "err"
          key,      \* [Ticks] -> claim key present in the registry
          expired,  \* [Ticks] -> the claim of the tick has expired
          told      \* [Ticks] -> number of deliveries of the tick

vars == <<pc, out, key, expired, told>>
Th == Nodes \X Ticks
\* "ClaimKeyNoRunTime": the key is the reference alone, all ticks share it
K(t) == IF "ClaimKeyNoRunTime" \in Defects THEN CHOOSE x \in Ticks : \A y \in Ticks : x <= y ELSE t

Init == /\ pc = [th \in Th |-> "idle"] /\ out = [th \in Th |-> ""]
        /\ key = [t \in Ticks |-> FALSE] /\ expired = [t \in Ticks |-> FALSE] /\ told = [t \in Ticks |-> 0]

\* quartz dispatches the tick on node n: the job function is entered
Fire(n, t) ==
  /\ pc[<<n, t>>] = "idle"
  /\ pc' = [pc EXCEPT ![<<n, t>>] = "job"]
  /\ UNCHANGED <<out, key, expired, told>>

\* the staleness check (r = "fresh" | "stale"); after the key expired every check is stale
Check(n, t, r) ==
  /\ pc[<<n, t>>] = "job"
  /\ r = "stale" => (Stale \/ expired[K(t)])
  /\ r = "fresh" => ~expired[K(t)]
  /\ IF "ClaimAfterTell" \in Defects /\ r = "fresh"
     THEN pc' = [pc EXCEPT ![<<n, t>>] = "tell"] /\ UNCHANGED out
     ELSE /\ pc' = [pc EXCEPT ![<<n, t>>] = IF r = "fresh" THEN "claim" ELSE "done"]
          /\ out' = [out EXCEPT ![<<n, t>>] = IF r = "fresh" THEN "" ELSE "stale"]
  /\ UNCHANGED <<key, expired, told>>

\* the NX put (r = "won" | "lost" | "err" | "tmo" | "tmoa")
ClaimOutcomes == {"won", "lost", "err", "tmo", "tmoa"}
Acked(r) == r = "won" \/ ("TimeoutWins" \in Defects /\ r \in {"tmo", "tmoa"})
Claim(n, t, r) ==
  /\ pc[<<n, t>>] = "claim"
  /\ r \in {"err", "tmo", "tmoa"} => Faults
  /\ r \in {"won", "tmoa"} => ~key[K(t)]
  /\ r = "lost" => key[K(t)]
  /\ key' = IF r \in {"won", "tmoa"} THEN [key EXCEPT ![K(t)] = TRUE] ELSE key
  /\ out' = [out EXCEPT ![<<n, t>>] = r]
  /\ pc' = [pc EXCEPT ![<<n, t>>] = IF Acked(r) /\ "ClaimAfterTell" \notin Defects THEN "tell" ELSE "done"]
  /\ UNCHANGED <<expired, told>>

Tell(n, t) ==
  /\ pc[<<n, t>>] = "tell"
  /\ told' = [told EXCEPT ![t] = @ + 1]
  /\ pc' = [pc EXCEPT ![<<n, t>>] = IF "ClaimAfterTell" \in Defects THEN "claim" ELSE "done"]
  /\ UNCHANGED <<out, key, expired>>

Expire(t) ==
  /\ key[t] /\ ~expired[t]
  /\ "LongStall" \in Defects \/ \A n \in Nodes, u \in Ticks : K(u) = t => pc[<<n, u>>] # "claim"
  /\ key' = [key EXCEPT ![t] = FALSE] /\ expired' = [expired EXCEPT ![t] = TRUE]
  /\ UNCHANGED <<pc, out, told>>

Next ==
  \/ \E n \in Nodes, t \in Ticks : Fire(n, t) \/ Tell(n, t)
  \/ \E n \in Nodes, t \in Ticks, r \in {"fresh", "stale"} : Check(n, t, r)
  \/ \E n \in Nodes, t \in Ticks, r \in ClaimOutcomes : Claim(n, t, r)
  \/ \E t \in Ticks : Expire(t)

Spec == Init /\ [][Next]_vars

----
\* each tick is delivered at most once across all nodes
AtMostOnce == \A t \in Ticks : told[t] <= 1
\* and not lost: once every node is through with a tick that some node won, it was delivered
AllDone(t) == \A n \in Nodes : pc[<<n, t>>] = "done"
Delivered == \A t \in Ticks : AllDone(t) /\ (\E n \in Nodes : out[<<n, t>>] = "won") => told[t] = 1
\* a tick that a node saw fresh and could claim without a registry error is won by someone
NotStarved == \A t \in Ticks : AllDone(t) /\ (\E n \in Nodes : out[<<n, t>>] \in {"won", "lost"}) =>
                 (\E n \in Nodes : out[<<n, t>>] = "won") \/ (\E u \in Ticks : u # t /\ K(u) = K(t))
\* (a claim that was applied but never acknowledged blocks the tick for everybody: nobody delivers it - accepted)
NoStarvation == \A t \in Ticks : AllDone(t) /\ (\E n \in Nodes : out[<<n, t>>] \in {"won", "lost"})
                                    /\ ~(\E n \in Nodes, u \in Ticks : K(u) = K(t) /\ out[<<n, u>>] = "tmoa") => told[t] = 1
\* a node fires only if its claim was acknowledged as won
FiresOnlyWon == "ClaimAfterTell" \in Defects \/ \A th \in Th : pc[th] = "tell" => out[th] = "won"
TypeOK == \A th \in Th : pc[th] \in {"idle", "job", "claim", "tell", "done"}
====
