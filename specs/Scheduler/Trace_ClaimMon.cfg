SPECIFICATION Spec
CONSTANT MaxTick = 4
CHECK_DEADLOCK FALSE
