---- MODULE Sched ----
(* C19 (single node part) - scheduled messages are delivered as scheduled, cancelled ones stop. *)
(*                                                                                              *)
(* goakt's scheduler (actor/scheduler.go) keeps a map reference -> quartz job key               *)
(* (scheduledKeys) next to the quartz scheduler, which is a black box here: only what goakt     *)
(* relies on is modelled - a job queue keyed by reference with a next run time, a suspended     *)
(* flag, ScheduleJob / DeleteJob / PauseJob / ResumeJob, and a dispatcher that starts a firing  *)
(* not before the job's next run time (ASSUMPTION, checked on every recorded trace) and then    *)
(* runs goakt's job function (Tell).  Time is discrete; operations are instantaneous.           *)
(*                                                                                              *)
(* Defects: "OnceResumeLost" - quartz' ResumeJob asks the job's trigger for its next fire time; *)
(* a RunOnceTrigger is spent as soon as the job was first scheduled, so resuming a paused       *)
(* ScheduleOnce removes the job and returns an error: the message is never delivered.           *)
EXTENDS Integers, Sequences, FiniteSets, TLC

CONSTANTS Refs,      \* references used by Schedule / ScheduleOnce
          Ghosts,    \* references never scheduled (only Cancel / Pause / Resume are tried on them)
          Delays,    \* delays of ScheduleOnce explored
          Periods,   \* intervals of Schedule explored
          MaxTime, MaxOps, MaxFly,
          Defects

VARIABLES now,
          keys,    \* scheduledKeys: references goakt knows
          job,     \* quartz queue: ref -> NoJob | [kind, next, susp, per, gen]
          gen,     \* ref -> number of schedule calls so far (identifies the schedule instance)
          fly,     \* ref -> sequence of generations whose firing was started and has not told yet
          inst,    \* <<ref, gen>> -> [kind, at, per, starts, told, cancelled, paused, resumed, lost, base, sinceBase, afterStop]
          nops,
          last     \* the last operation and its result (for the behaviour generator / trace validation)

vars == <<now, keys, job, gen, fly, inst, nops, last>>

NoJob == [kind |-> "none"]
AllRefs == Refs \cup Ghosts
Insts == {<<r, g>> : r \in Refs, g \in 1..MaxOps}
NoInst == [kind |-> "none", at |-> 0, per |-> 0, starts |-> 0, told |-> 0, cancelled |-> FALSE, paused |-> FALSE,
           resumed |-> FALSE, lost |-> FALSE, base |-> 0, sinceBase |-> 0, afterStop |-> 0]

Init ==
  /\ now = 0 /\ keys = {} /\ job = [r \in AllRefs |-> NoJob] /\ gen = [r \in AllRefs |-> 0]
  /\ fly = [r \in AllRefs |-> <<>>] /\ inst = [i \in Insts |-> NoInst] /\ nops = 0
  /\ last = [op |-> "Init", ref |-> "", arg |-> 0, res |-> "ok"]

Op(o, r, a, res) == last' = [op |-> o, ref |-> r, arg |-> a, res |-> res] /\ nops' = nops + 1

\* ScheduleOnce / Schedule: scheduledKeys.Set, then quartz.ScheduleJob (fails when the key is queued)
DoSchedule(kind, r, d) ==
  /\ nops < MaxOps /\ r \in Refs
  /\ keys' = keys \cup {r}
  /\ IF job[r] # NoJob
     THEN Op(kind, r, d, "err") /\ UNCHANGED <<job, gen, inst>>
     ELSE /\ gen' = [gen EXCEPT ![r] = @ + 1]
          /\ job' = [job EXCEPT ![r] = [kind |-> kind, next |-> now + d, susp |-> FALSE, per |-> d, gen |-> gen'[r]]]
          /\ inst' = [inst EXCEPT ![<<r, gen'[r]>>] = [NoInst EXCEPT !.kind = kind, !.at = now, !.per = d, !.base = now]]
          /\ Op(kind, r, d, "ok")
  /\ UNCHANGED <<now, fly>>

CurInst(r) == <<r, job[r].gen>>

\* CancelSchedule: unknown reference -> error; else DeleteJob (error when the job is gone); the key is always dropped
Cancel(r) ==
  /\ nops < MaxOps /\ r \in AllRefs
  /\ keys' = keys \ {r}
  /\ IF r \notin keys \/ job[r] = NoJob
     THEN Op("Cancel", r, 0, "err") /\ UNCHANGED <<job, inst>>
     ELSE /\ job' = [job EXCEPT ![r] = NoJob]
          /\ inst' = [inst EXCEPT ![CurInst(r)].cancelled = TRUE]
          /\ Op("Cancel", r, 0, "ok")
  /\ UNCHANGED <<now, gen, fly>>

Pause(r) ==
  /\ nops < MaxOps /\ r \in AllRefs
  /\ IF r \notin keys \/ job[r] = NoJob \/ job[r].susp
     THEN Op("Pause", r, 0, "err") /\ UNCHANGED <<job, inst>>
     ELSE /\ job' = [job EXCEPT ![r].susp = TRUE]
          /\ inst' = [inst EXCEPT ![CurInst(r)].paused = TRUE]
          /\ Op("Pause", r, 0, "ok")
  /\ UNCHANGED <<now, keys, gen, fly>>

Resume(r) ==
  /\ nops < MaxOps /\ r \in AllRefs
  /\ IF r \notin keys \/ job[r] = NoJob \/ ~job[r].susp
     THEN Op("Resume", r, 0, "err") /\ UNCHANGED <<job, inst>>
     ELSE IF job[r].kind = "Once" /\ "OnceResumeLost" \in Defects
     THEN \* ResumeJob removed the job from the queue, then the spent trigger failed
          /\ job' = [job EXCEPT ![r] = NoJob]
          /\ inst' = [inst EXCEPT ![CurInst(r)].lost = TRUE]
          /\ Op("Resume", r, 0, "err")
     ELSE /\ job' = [job EXCEPT ![r].susp = FALSE, ![r].next = IF job[r].kind = "Once" THEN (IF @ > now THEN @ ELSE now) ELSE now + job[r].per]
          /\ inst' = [inst EXCEPT ![CurInst(r)].paused = FALSE, ![CurInst(r)].resumed = TRUE,
                                  ![CurInst(r)].base = now, ![CurInst(r)].sinceBase = 0, ![CurInst(r)].afterStop = 0]
          /\ Op("Resume", r, 0, "ok")
  /\ UNCHANGED <<now, keys, gen, fly>>

Wait(dt) ==
  /\ now < MaxTime /\ dt > 0
  /\ now' = now + dt /\ last' = [op |-> "Wait", ref |-> "", arg |-> dt, res |-> "ok"]
  /\ UNCHANGED <<keys, job, gen, fly, inst, nops>>

\* the quartz dispatcher starts a firing: never before the job's next run time
FireStart(r) ==
  /\ job[r] # NoJob /\ ~job[r].susp /\ job[r].next <= now
  /\ Len(fly[r]) < MaxFly
  /\ fly' = [fly EXCEPT ![r] = Append(@, job[r].gen)]
  /\ job' = [job EXCEPT ![r] = IF job[r].kind = "Once" THEN NoJob ELSE [@ EXCEPT !.next = @ + job[r].per]]
  /\ inst' = [inst EXCEPT ![CurInst(r)].starts = @ + 1, ![CurInst(r)].sinceBase = @ + 1]
  /\ last' = [op |-> "Fire", ref |-> r, arg |-> job[r].gen, res |-> "ok"]
  /\ UNCHANGED <<now, keys, gen, nops>>

\* goakt's job function delivers (sender.Tell)
Tell(r) ==
  /\ fly[r] # <<>>
  /\ LET g == Head(fly[r]) IN
       /\ inst' = [inst EXCEPT ![<<r, g>>].told = @ + 1,
                               ![<<r, g>>].afterStop = IF inst[<<r, g>>].cancelled \/ inst[<<r, g>>].paused THEN @ + 1 ELSE @]
       /\ last' = [op |-> "Tell", ref |-> r, arg |-> g, res |-> "ok"]
  /\ fly' = [fly EXCEPT ![r] = Tail(@)]
  /\ UNCHANGED <<now, keys, job, gen, nops>>

Next ==
  \/ \E r \in Refs, d \in Delays : DoSchedule("Once", r, d)
  \/ \E r \in Refs, d \in Periods : DoSchedule("Every", r, d)
  \/ \E r \in AllRefs : Cancel(r) \/ Pause(r) \/ Resume(r)
  \/ Wait(1)
  \/ \E r \in Refs : FireStart(r) \/ Tell(r)

Fair == /\ \A r \in Refs : WF_vars(FireStart(r)) /\ WF_vars(Tell(r))
        /\ WF_vars(Wait(1))
Spec == Init /\ [][Next]_vars /\ Fair

----
(* The property.                                                                                *)
Live(i) == inst[i].kind # "none"
\* a ScheduleOnce message is delivered at most once, and never before its delay
OnceAtMostOnce == \A i \in Insts : inst[i].kind = "Once" => inst[i].starts <= 1 /\ inst[i].told <= 1
NotEarly == \A i \in Insts : Live(i) /\ inst[i].sinceBase > 0 =>
               now >= inst[i].base + (IF inst[i].kind = "Once" /\ inst[i].resumed THEN 0 ELSE inst[i].sinceBase * inst[i].per)
\* after CancelSchedule / PauseSchedule returned, at most the firings already in flight are delivered
StopStops == \A i \in Insts : Live(i) => inst[i].afterStop <= MaxFly
\* an unknown or cancelled reference reports an error
ErrOnUnknown == last.op \in {"Cancel", "Pause", "Resume"} /\ last.res = "ok" => last.ref \in Refs /\ gen[last.ref] > 0
ErrAfterCancel == [][\A r \in AllRefs : (r \notin keys /\ last'.op \in {"Cancel", "Pause", "Resume"} /\ last'.ref = r /\ nops' > nops) => last'.res = "err"]_vars
\* a ScheduleOnce message that is neither cancelled nor left paused is delivered exactly once
OnceDelivered == \A i \in Insts : [](inst[i].kind = "Once" => <>(inst[i].told = 1 \/ inst[i].cancelled \/ inst[i].paused \/ now = MaxTime))
NoLoss == \A i \in Insts : ~inst[i].lost
TypeOK == now >= 0 /\ keys \subseteq AllRefs
====
