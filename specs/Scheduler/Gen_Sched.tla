---- MODULE Gen_Sched ----
(* Behaviour generator for the single-node part of C19: the sequence of user operations and     *)
(* one-tick waits of a run (the firings in between are the scheduler's business and are not     *)
(* scripted).  Printed when the sequence has Depth entries.                                     *)
EXTENDS Sched, Json
CONSTANT Depth
VARIABLE hist
GInit == Init /\ hist = <<>>
GNext == /\ Next
         /\ hist' = IF nops' > nops \/ last'.op = "Wait"
                    THEN Append(hist, [op |-> last'.op, ref |-> last'.ref, arg |-> last'.arg, res |-> last'.res]) ELSE hist
GSpec == GInit /\ [][GNext]_<<vars, hist>>
Emit == Len(hist) < Depth \/ (PrintT(<<"BEHAVIOUR", ToJson(hist)>>) /\ FALSE)
\* do not start with waiting, do not wait three times in a row, try a never-scheduled reference at most once
Shape == /\ (Len(hist) > 0 => hist[1].op # "Wait")
         /\ \A i \in 1..(Len(hist) - 2) : ~(hist[i].op = "Wait" /\ hist[i + 1].op = "Wait" /\ hist[i + 2].op = "Wait")
         /\ Cardinality({i \in 1..Len(hist) : hist[i].ref = "g"}) <= 1
====
