---- MODULE Trace_Sched ----
(* Conformance of recorded executions of the real scheduler with Sched.tla: time unit one        *)
(* microsecond, time read from the trace (a line at time t is preceded by Wait(t - now)), every  *)
(* operation line must be the model's operation with the same result, every TellAt line the      *)
(* model's Tell.  The model's FireStart is quartz taking the job off its queue, which is not     *)
(* observable; the observable Start line is the entry of the job function a little later.        *)
(* Therefore FireStart may happen silently whenever it is enabled, and a Start line consumes one *)
(* dispatched firing.  The last consumed line prints <<"ACCEPTED", line>>; <<"AT", line of a     *)
(* New>> lines locate a rejection.  Rejection is drift, not a verdict.                           *)
EXTENDS Sched, Json
Trace == ndJsonDeserialize("trace.ndjson")
VARIABLES l, ent
TInit == Init /\ l = 1 /\ ent = 0
Consumed == /\ l' = l + 1
            /\ (IF l' = Len(Trace) + 1 THEN PrintT(<<"ACCEPTED", l>>) ELSE IF Trace[l].op = "New" THEN PrintT(<<"AT", l>>) ELSE TRUE)
TStep ==
  /\ l <= Len(Trace)
  /\ LET e == Trace[l] IN
     IF e.op \notin {"New", "End"} /\ e.t > now
     THEN Wait(e.t - now) /\ UNCHANGED <<l, ent>>
     ELSE \/ \E r \in Refs : FireStart(r) /\ ent' = ent + 1 /\ UNCHANGED l
          \/ /\ Consumed
             /\ CASE e.op = "New" ->
                       /\ now' = 0 /\ keys' = {} /\ job' = [r \in AllRefs |-> NoJob] /\ gen' = [r \in AllRefs |-> 0]
                       /\ fly' = [r \in AllRefs |-> <<>>] /\ inst' = [i \in Insts |-> NoInst] /\ nops' = 0
                       /\ last' = [op |-> "Init", ref |-> "", arg |-> 0, res |-> "ok"] /\ ent' = 0
                  [] e.op \in {"Once", "Every"} -> DoSchedule(e.op, e.ref, e.arg) /\ last'.res = e.res /\ UNCHANGED ent
                  [] e.op = "Cancel" -> Cancel(e.ref) /\ last'.res = e.res /\ UNCHANGED ent
                  [] e.op = "Pause"  -> Pause(e.ref) /\ last'.res = e.res /\ UNCHANGED ent
                  [] e.op = "Resume" -> Resume(e.ref) /\ last'.res = e.res /\ UNCHANGED ent
                  [] e.op = "Start"  -> ent > 0 /\ ent' = ent - 1 /\ UNCHANGED vars
                  [] e.op = "TellAt" -> Tell(e.ref) /\ UNCHANGED ent
                  [] OTHER -> UNCHANGED <<vars, ent>>
TSpec == TInit /\ [][TStep]_<<vars, l, ent>>
====
