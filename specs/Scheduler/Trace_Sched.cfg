SPECIFICATION TSpec
CONSTANTS
  Refs = {"r1"}
  Ghosts = {"g"}
  Delays = {}
  Periods = {}
  MaxTime = 2000000000
  MaxOps = 8
  MaxFly = 8
  Defects = {"OnceResumeLost"}
CHECK_DEADLOCK FALSE
