SPECIFICATION Spec
CONSTANTS
  Nodes = {"n1", "n2", "n3"}
  Ticks = {1, 2}
  Faults = TRUE
  Stale = TRUE
  Defects = {}
INVARIANTS TypeOK AtMostOnce Delivered NoStarvation FiresOnlyWon
