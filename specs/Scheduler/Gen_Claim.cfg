SPECIFICATION GSpec
CONSTANTS
  Nodes = {"n1", "n2"}
  Ticks = {1}
  Faults = TRUE
  Stale = TRUE
  Defects = {}
CONSTRAINT Emit
