---- MODULE Trace_SchedMon ----
(* Property monitor for the single-node part of C19 on recorded free-running executions of the  *)
(* REAL scheduler.  It knows only the contract of the API (all times in microseconds since the  *)
(* behaviour started; tc / tr = call / return time of an operation):                            *)
(*   unknown-ref-no-error   Cancel / Pause / Resume of a reference that was never scheduled or  *)
(*                          was cancelled must fail;                                            *)
(*   once-fired-twice / once-delivered-twice   a ScheduleOnce message is delivered at most once;*)
(*   fired-early            the k-th firing since the schedule call (or the last successful     *)
(*                          resume) does not start before call time + k * interval (ScheduleOnce:*)
(*                          not before call time + delay);                                      *)
(*   delivered-after-stop   after CancelSchedule / PauseSchedule returned at most one delivery  *)
(*                          (one already in flight) is attempted;                               *)
(*   once-not-delivered     a ScheduleOnce message neither cancelled nor left paused is         *)
(*                          delivered once its delay (+ slack) has passed;                      *)
(*   once-lost-after-pause-resume   the same, for a message whose ResumeSchedule failed;        *)
(*   interval-stalled       a Schedule message keeps firing: at least                           *)
(*                          floor((stop - base - slack) / interval) firings until it is stopped;*)
(*   tell-not-received      every delivery attempt reaches the target.                          *)
(* slack = max(100 ms, 20 % of the interval) + 3 x measured scheduling jitter.  ASSUMPTION      *)
(* checked per schedule: quartz does not start two firings of one schedule less than half an    *)
(* interval apart (catch-up after a stall); a schedule that breaks it is not judged for         *)
(* delivered-after-stop / interval-stalled (counted as disturbed).                              *)
EXTENDS Integers, Sequences, FiniteSets, TLC, Json
CONSTANTS MaxGen, Tol
Trace == ndJsonDeserialize("trace.ndjson")
VARIABLES l, id, jit, known, cur, inst, ndist
vars == <<l, id, jit, known, cur, inst, ndist>>
G == 1..MaxGen
Max(a, b) == IF a > b THEN a ELSE b
None == [kind |-> "none", per |-> 0, base |-> 0, nb |-> 0, starts |-> 0, tells |-> 0, told |-> 0, stopAt |-> -1, stopTc |-> -1,
         stopKind |-> "", after |-> 0, grace |-> 0, lastStart |-> -1, disturbed |-> FALSE, lost |-> FALSE, paused |-> FALSE, resumed |-> FALSE]
Init == l = 1 /\ id = -1 /\ jit = 0 /\ known = {} /\ cur = 0 /\ inst = [g \in G |-> None] /\ ndist = 0
Chk(c, code, a, b) == IF c THEN TRUE ELSE PrintT(<<"MISMATCH", l, id, code, a, b>>)
Slack(per) == Max(100000, per \div 5) + 3 * jit
Floor0(x, d) == IF x <= 0 THEN 0 ELSE x \div d
EndChecks(e) == \A g \in G : LET i == inst[g] IN
  /\ Chk(i.kind = "none" \/ i.tells = i.told, "tell-not-received", i.tells, i.told)
  /\ Chk(~(i.kind = "Once" /\ i.stopKind # "cancel" /\ ~i.paused /\ ~i.lost /\ e.tend >= i.base + i.per + Slack(i.per)) \/ i.told = 1,
         "once-not-delivered", g, i.told)
  /\ Chk(~(i.kind = "Once" /\ i.lost /\ i.stopKind # "cancel") \/ i.told = 1, "once-lost-after-pause-resume", g, i.told)
  /\ Chk(~(i.kind = "Every" /\ ~i.disturbed) \/
         i.nb >= Floor0((IF i.stopTc >= 0 THEN i.stopTc ELSE e.tend) - i.base - Slack(i.per), i.per),
         "interval-stalled", i.nb, Floor0((IF i.stopTc >= 0 THEN i.stopTc ELSE e.tend) - i.base - Slack(i.per), i.per))
Step ==
  /\ l <= Len(Trace)
  /\ l' = l + 1
  /\ LET e == Trace[l] IN
     CASE e.op = "New" ->
            id' = e.id /\ jit' = e.jit /\ known' = {} /\ cur' = 0 /\ inst' = [g \in G |-> None] /\ UNCHANGED ndist
       [] e.op \in {"Once", "Every"} ->
            /\ known' = known \cup {e.ref}
            /\ IF e.res = "ok"
               THEN cur' = e.gen /\ inst' = [inst EXCEPT ![e.gen] = [None EXCEPT !.kind = e.op, !.per = e.arg, !.base = e.tc]]
               ELSE UNCHANGED <<cur, inst>>
            /\ UNCHANGED <<id, jit, ndist>>
       [] e.op = "Cancel" ->
            /\ Chk(e.ref \in known \/ e.res = "err", "unknown-ref-no-error", e.ref, e.op)
            /\ known' = known \ {e.ref}
            /\ inst' = IF e.res = "ok" /\ cur > 0 /\ e.ref \in known
                       THEN [inst EXCEPT ![cur].stopAt = e.tr, ![cur].stopTc = IF inst[cur].stopTc >= 0 THEN @ ELSE e.tc, ![cur].stopKind = "cancel"] ELSE inst
            /\ UNCHANGED <<id, jit, cur, ndist>>
       [] e.op = "Pause" ->
            /\ Chk(e.ref \in known \/ e.res = "err", "unknown-ref-no-error", e.ref, e.op)
            /\ inst' = IF e.res = "ok" /\ cur > 0 /\ e.ref \in known
                       THEN [inst EXCEPT ![cur].stopAt = e.tr, ![cur].stopTc = e.tc, ![cur].stopKind = "pause", ![cur].paused = TRUE, ![cur].after = 0, ![cur].grace = 1] ELSE inst
            /\ UNCHANGED <<id, jit, known, cur, ndist>>
       [] e.op = "Resume" ->
            /\ Chk(e.ref \in known \/ e.res = "err", "unknown-ref-no-error", e.ref, e.op)
            /\ inst' = IF cur = 0 \/ e.ref \notin known THEN inst
                       ELSE IF e.res = "ok"
                       THEN \* the firings before the pause are settled here: a new base starts
                            [inst EXCEPT ![cur].base = e.tc, ![cur].nb = 0, ![cur].stopAt = -1, ![cur].stopTc = -1, ![cur].stopKind = "",
                                         ![cur].paused = FALSE, ![cur].resumed = TRUE, ![cur].after = 0, ![cur].lastStart = -1]
                       ELSE IF inst[cur].paused /\ inst[cur].kind = "Once" THEN [inst EXCEPT ![cur].lost = TRUE, ![cur].paused = FALSE]
                       ELSE inst
            \* an interval schedule is judged for liveness per running stretch: check the stretch that a pause ended
            /\ UNCHANGED <<id, jit, known, cur, ndist>>
       [] e.op = "Start" ->
            LET i == inst[e.gen]
                bound == i.base + (IF i.kind = "Once" /\ i.resumed THEN 0 ELSE (i.nb + 1) * i.per)
                early == e.t + Tol < bound
                \* a firing quartz dispatched before PauseSchedule / CancelSchedule took effect may enter the job function
                \* after the stop returned (even after a following resume): it belongs to the stretch before the stop
                inflight == (i.stopAt >= 0 /\ e.t > i.stopAt) \/ (early /\ i.grace > 0)
                \* catch-up burst (also among the firings dispatched just before a stop)
                dist == i.lastStart >= 0 /\ e.t - i.lastStart < i.per \div 2 IN
            /\ Chk(i.kind = "Every" \/ i.starts = 0, "once-fired-twice", e.gen, i.starts + 1)
            /\ Chk(inflight \/ ~early, "fired-early", e.t, bound)
            /\ inst' = IF inflight
                       THEN [inst EXCEPT ![e.gen].starts = @ + 1, ![e.gen].grace = IF @ > 0 THEN @ - 1 ELSE 0,
                                         ![e.gen].lastStart = e.t, ![e.gen].disturbed = @ \/ dist]
                       ELSE [inst EXCEPT ![e.gen].nb = @ + 1, ![e.gen].starts = @ + 1, ![e.gen].lastStart = e.t, ![e.gen].disturbed = @ \/ dist]
            /\ ndist' = IF dist /\ ~i.disturbed THEN ndist + 1 ELSE ndist
            /\ UNCHANGED <<id, jit, known, cur>>
       [] e.op = "TellAt" ->
            LET i == inst[e.gen]
                aft == IF i.stopAt >= 0 /\ e.t > i.stopAt THEN i.after + 1 ELSE i.after IN
            /\ inst' = [inst EXCEPT ![e.gen].tells = @ + 1, ![e.gen].after = aft]
            /\ Chk(i.disturbed \/ aft <= 1, "delivered-after-stop", e.gen, aft)
            /\ UNCHANGED <<id, jit, known, cur, ndist>>
       [] e.op = "Deliver" ->
            /\ inst' = [inst EXCEPT ![e.gen].told = @ + 1]
            /\ Chk(inst[e.gen].kind = "Every" \/ inst[e.gen].told = 0, "once-delivered-twice", e.gen, inst[e.gen].told + 1)
            /\ UNCHANGED <<id, jit, known, cur, ndist>>
       [] e.op = "End" ->
            /\ EndChecks(e)
            /\ (IF l < Len(Trace) THEN TRUE ELSE PrintT(<<"DISTURBED", ndist>>))
            /\ UNCHANGED <<id, jit, known, cur, inst, ndist>>
       [] OTHER -> UNCHANGED <<id, jit, known, cur, inst, ndist>>
Spec == Init /\ [][Step]_vars
====
