---- MODULE Trace_Claim ----
(* Conformance of the recorded puppet replays with Claim.tla: every trace line must be the      *)
(* corresponding action of the design spec with the observed outcome.                           *)
EXTENDS Claim, Json
Trace == ndJsonDeserialize("trace.ndjson")
VARIABLE l
TInit == Init /\ l = 1
TStep ==
  /\ l <= Len(Trace)
  /\ l' = l + 1
  /\ LET e == Trace[l] IN
     CASE e.op = "New" -> /\ pc' = [th \in Th |-> "idle"] /\ out' = [th \in Th |-> ""]
                          /\ key' = [t \in Ticks |-> FALSE] /\ expired' = [t \in Ticks |-> FALSE] /\ told' = [t \in Ticks |-> 0]
       [] e.op = "Fire"   -> Fire(e.n, e.t)
       [] e.op = "Check"  -> Check(e.n, e.t, e.r)
       [] e.op = "Claim"  -> /\ Claim(e.n, e.t, e.r) /\ e.fresh
                             /\ (e.next = "tell") = (pc'[<<e.n, e.t>>] = "tell")
                             /\ e.ack = (IF e.r = "tmoa" THEN "tmo" ELSE e.r)
       [] e.op = "Tell"   -> Tell(e.n, e.t) /\ e.dlv = 1
       [] e.op = "Expire" -> Expire(e.t)
       [] e.op = "End"    -> e.drift = "" /\ (\A th \in Th : pc[th] \in {"idle", "done"}) /\ UNCHANGED vars
       [] OTHER -> UNCHANGED vars
TSpec == TInit /\ [][TStep]_<<vars, l>>
====
