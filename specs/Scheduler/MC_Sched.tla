---- MODULE MC_Sched ----
EXTENDS Sched
====
