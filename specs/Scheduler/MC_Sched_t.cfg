SPECIFICATION Spec
CONSTANTS
  Refs = {"r1", "r2"}
  Ghosts = {"g"}
  Delays = {1, 2}
  Periods = {1, 2}
  MaxTime = 4
  MaxOps = 4
  MaxFly = 1
  Defects = {}
INVARIANTS TypeOK OnceAtMostOnce NotEarly StopStops ErrOnUnknown NoLoss
PROPERTIES ErrAfterCancel
