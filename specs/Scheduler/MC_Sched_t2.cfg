SPECIFICATION Spec
CONSTANTS
  Refs = {"r1"}
  Ghosts = {"g"}
  Delays = {1, 2}
  Periods = {1, 2}
  MaxTime = 5
  MaxOps = 5
  MaxFly = 1
  Defects = {}
INVARIANTS TypeOK OnceAtMostOnce NotEarly StopStops ErrOnUnknown NoLoss
PROPERTIES ErrAfterCancel
