SPECIFICATION GSpec
CONSTANTS
  Refs = {"r1"}
  Ghosts = {"g"}
  Delays = {2}
  Periods = {1}
  MaxTime = 6
  MaxOps = 6
  MaxFly = 1
  Defects = {"OnceResumeLost"}
  Depth = 5
CONSTRAINTS Emit Shape
