SPECIFICATION Spec
CONSTANTS
  W = 2
  N = 2
  MaxWin = 10000
  F = 1
  TP = 1
  TC = 1
  TG = 1
  Orders = {"pc"}
  QuietTicks = FALSE
  Defects = {}
VIEW View
INVARIANTS InFlightIsNext Watermarks NoFailure ConfirmedOnce DemandRespected BufferInWindow
PROPERTIES DeliveryOrder ConfirmStepwise EmitUnderDemand NeverBufFull
