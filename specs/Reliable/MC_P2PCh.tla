---- MODULE MC_P2PCh ----
EXTENDS P2PCh
View == core
LiveView == core
Ch21 == <<2, 1>>
Ch12 == <<1, 2>>
Ch22 == <<2, 2>>
Ch212 == <<2, 1, 2>>
Ch132 == <<1, 3, 2>>
Ch321 == <<3, 2, 1>>
====
