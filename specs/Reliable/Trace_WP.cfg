SPECIFICATION TSpec
CONSTANTS
  W = 2
  MaxWin = 10000
  Workers = {"w1", "w2", "w3"}
CHECK_DEADLOCK FALSE
