SPECIFICATION Spec
CONSTANTS
  W = 2
  N = 2
  Chunks <- Ch21
  MaxWin = 10000
  F = 1
  TP = 0
  TC = 1
  TG = 0
  Orders = {"pc"}
  QuietTicks = FALSE
  Defects = {}
VIEW View
INVARIANTS InFlightIsNext Watermarks NoFailure ConfirmedOnce DemandRespected BufferInWindow
PROPERTIES DeliveryOrder ConfirmStepwise EmitUnderDemand NeverBufFull
