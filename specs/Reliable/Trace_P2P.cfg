SPECIFICATION TSpec
CONSTANTS
  W = 2
  MaxWin = 10000
CHECK_DEADLOCK FALSE
