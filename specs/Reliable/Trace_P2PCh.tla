---- MODULE Trace_P2PCh ----
(* Chunking on (RDProducerCh / RDConsumerCh); otherwise identical to Trace_P2P.      *)
(* Conformance of recorded executions of the REAL controllers (scripted replays and  *)
(* free-running runs alike) with the transcription: every handled message must take  *)
(* the logged pre-state to the logged post-state and produce exactly the logged       *)
(* sends, in order.  Log lines (harness/cmd/reliable):                                *)
(*   new                      a fresh flow starts                                     *)
(*   send  from to m          a controller handed m to its tell helper                *)
(*   end   who m st           controller `who` finished handling m; st = its state    *)
(*   begin / fin / note       ignored here (used by the monitor)                      *)
(* A network message must have been sent before it is handled; endpoint replies and   *)
(* ticks are inputs.  A rejected line is conformance drift, never a verdict.          *)
EXTENDS RDProducerCh, RDConsumerCh, Json
Log == ndJsonDeserialize("trace.ndjson")
VARIABLES l, pc, cc, sent, box
tvars == <<l, pc, cc, sent, box>>

Box0 == [pc |-> <<>>, cc |-> <<>>]
Net(m) == m.t \in {"Register", "Request", "Ack", "RegAck", "Seq"}
Peer(w) == IF w = "pc" THEN "cc" ELSE "pc"

Explain(i, who, exp, got) == PrintT(<<"DRIFT", i, who, "expected", exp, "got", got>>) /\ FALSE

\* the gap-request rate limit is wall-clock: it may have expired before / after the handler
GapOK(modelSt, logSt) ==
  /\ [modelSt EXCEPT !.gapLim = logSt.gapLim] = logSt
  /\ modelSt.gapLim \/ ~logSt.gapLim

TInit == l = 1 /\ pc = PC0 /\ cc = CC0 /\ sent = {} /\ box = Box0

TStep ==
  /\ l <= Len(Log)
  /\ l' = l + 1
  /\ LET e == Log[l] IN
     CASE e.e = "new" -> pc' = PC0 /\ cc' = CC0 /\ sent' = {} /\ box' = Box0
       [] e.e = "send" ->
            /\ box' = [box EXCEPT ![e.from] = Append(@, [to |-> e.to, m |-> e.m])]
            /\ sent' = sent \cup {[to |-> e.to, m |-> e.m]}
            /\ UNCHANGED <<pc, cc>>
       [] e.e = "end" /\ e.m.t \in {"Terminated", "Other"} ->      \* lifecycle traffic outside the model
            /\ IF e.who = "pc" THEN pc' = e.st /\ cc' = cc ELSE cc' = e.st /\ pc' = pc
            /\ box' = [box EXCEPT ![e.who] = <<>>] /\ UNCHANGED sent
       [] e.e = "end" /\ e.who = "pc" ->
            LET r == PCHandle(pc, e.m) IN
            /\ Net(e.m) => [to |-> "pc", m |-> e.m] \in sent
            /\ IF r.st = e.st /\ r.out = box.pc THEN TRUE
               \* a registration whose sender does not (yet) resolve as the consumer's companion in the
               \* actor tree is dropped: environment non-determinism outside the model
               ELSE IF e.m.t = "Register" /\ e.st = pc /\ box.pc = <<>> THEN TRUE
               ELSE Explain(l, "pc", r, [st |-> e.st, out |-> box.pc])
            /\ pc' = e.st /\ box' = [box EXCEPT !.pc = <<>>]
            /\ UNCHANGED <<cc, sent>>
       [] e.e = "end" /\ e.who = "cc" ->
            /\ Net(e.m) => [to |-> "cc", m |-> e.m] \in sent
            /\ IF \E g \in (IF cc.gapLim THEN {TRUE, FALSE} ELSE {FALSE}) :
                    LET r == CCHandle([cc EXCEPT !.gapLim = g], e.m)
                    IN GapOK(r.st, e.st) /\ r.out = box.cc
               THEN TRUE
               ELSE Explain(l, "cc", CCHandle(cc, e.m), [st |-> e.st, out |-> box.cc])
            /\ cc' = e.st /\ box' = [box EXCEPT !.cc = <<>>]
            /\ UNCHANGED <<pc, sent>>
       [] OTHER -> UNCHANGED <<pc, cc, sent, box>>
TSpec == TInit /\ [][TStep]_tvars
====
