----------------------------- MODULE RDConsumerCh ---------------------------
(* actor/reliable_delivery_consumer_controller.go WITH chunk runs: chunks buffer until  *)
(* the whole first-to-last run is contiguous at expectedSeq (runLast = verified hint),  *)
(* then assemble delivers the message under the last chunk's sequence; the run stays   *)
(* buffered until the message is confirmed.  One producer session.  gapLim abstracts   *)
(* now - lastGapRequest < resendInterval.  Buffer entries / Seq messages carry          *)
(* [seq, id, ch, first, last].                                                          *)
EXTENDS RDCommon
CONSTANTS W         \* flow-control window (WithReliableFlowControlWindow)

(* ------------------------------------------------------------------------------ *)
(* Consumer controller                                                             *)
(* ------------------------------------------------------------------------------ *)
CC0 == [res |-> FALSE, sess |-> 0, nonce |-> 0, nonceCtr |-> 0, exp |-> 1, conf |-> 0, upTo |-> 0,
        buf |-> <<>>, inf |-> NoInf, runLast |-> 0, saw |-> FALSE, gapLim |-> FALSE, failed |-> FALSE]

CCFail(r) == [r EXCEPT !.st.failed = TRUE]          \* fail: publish failure, Shutdown

\* register: resolve the producer companion, fresh nonce
CCRegister(r) ==
  LET n == r.st.nonceCtr + 1
  IN Send([r EXCEPT !.st.res = TRUE, !.st.nonce = n, !.st.nonceCtr = n], "pc", [t |-> "Register", n |-> n])

\* sendRequest
CCSendRequest(r, via) ==
  IF ~r.st.res \/ r.st.sess = 0 THEN r
  ELSE LET upTo == r.st.conf + W
       IN Send([r EXCEPT !.st.upTo = upTo], "pc",
               [t |-> "Request", n |-> r.st.nonce, conf |-> r.st.conf, upTo |-> upTo, via |-> via])

\* sendAck
CCSendAck(r) ==
  IF ~r.st.res \/ r.st.sess = 0 THEN r
  ELSE Send(r, "pc", [t |-> "Ack", n |-> r.st.nonce, conf |-> r.st.conf])

\* gapOpen
\* chunkRunComplete: one index probe (buffer sorted, de-duplicated, nothing below exp)
CCRunComplete(st) ==
  /\ st.runLast >= st.exp
  /\ LET k == st.runLast - st.exp IN k < Len(st.buf) /\ st.buf[k + 1].seq = st.runLast

CCGapOpen(st) ==
  /\ Len(st.buf) > 0
  /\ \/ st.buf[1].seq > (IF st.inf.seq # 0 THEN st.inf.seq + 1 ELSE st.exp)
     \/ st.inf.seq = 0 /\ st.buf[1].seq = st.exp /\ st.buf[1].ch /\ ~CCRunComplete(st)

\* solicitGapRequest / sendGapRequest (rate limit: one per resend interval)
CCSolicit(r) == CCSendRequest([r EXCEPT !.st.gapLim = TRUE], TRUE)
CCSendGapRequest(r) == IF r.st.gapLim THEN r ELSE CCSolicit(r)

\* deliver / deliverFrame
CCDeliver(r, e) == Send([r EXCEPT !.st.inf = e], "c", [t |-> "Delivery", seq |-> e.seq, id |-> e.id])

\* bufferMessage
CCBuffer(r, e) ==
  LET buf == r.st.buf
      found == \E i \in 1..Len(buf) : buf[i].seq = e.seq
      idx == Cardinality({i \in 1..Len(buf) : buf[i].seq < e.seq})
      r1 == IF found THEN r
            ELSE IF Len(buf) >= W THEN Send(r, "obs", [t |-> "BufFull", seq |-> e.seq])
            ELSE [r EXCEPT !.st.buf = SubSeq(buf, 1, idx) \o <<e>> \o SubSeq(buf, idx + 1, Len(buf))]
  IN IF CCGapOpen(r1.st) THEN CCSendGapRequest(r1) ELSE r1

\* scanChunkRun: [n |-> entries of a complete well-formed run (0: incomplete), bad |-> violation]
RECURSIVE CCScan(_, _, _)
CCScan(st, i, next) ==
  IF i > Len(st.buf) THEN [n |-> 0, bad |-> FALSE]
  ELSE LET e == st.buf[i] IN
       IF e.seq # next THEN [n |-> 0, bad |-> FALSE]
       ELSE IF ~e.ch \/ e.id # st.buf[1].id \/ (i > 1 /\ e.first) THEN [n |-> 0, bad |-> TRUE]
       ELSE IF e.last THEN [n |-> i, bad |-> FALSE]
       ELSE CCScan(st, i + 1, next + 1)
CCScanRun(st) == IF ~st.buf[1].first THEN [n |-> 0, bad |-> TRUE] ELSE CCScan(st, 1, st.exp)

\* assemble: the run stays buffered; the Delivery carries the last chunk's sequence
CCAssemble(r) ==
  LET s == CCScanRun(r.st) IN
  IF s.bad THEN CCFail(r)
  ELSE IF s.n = 0 THEN r
  ELSE CCDeliver(r, [seq |-> r.st.buf[s.n].seq, id |-> r.st.buf[1].id])

\* drain
CCDrain(r) ==
  IF r.st.inf.seq # 0 \/ Len(r.st.buf) = 0 \/ r.st.buf[1].seq # r.st.exp THEN r
  ELSE IF r.st.buf[1].ch THEN (IF CCRunComplete(r.st) THEN CCAssemble(r) ELSE r)
  ELSE CCDeliver([r EXCEPT !.st.buf = Tail(@)], [seq |-> r.st.buf[1].seq, id |-> r.st.buf[1].id])

\* purgeBuffer
CCPurge(r) ==
  LET buf == r.st.buf
      cut == CHOOSE k \in 0..Len(buf) :
               /\ \A i \in 1..k : buf[i].seq < r.st.exp
               /\ k = Len(buf) \/ ~(buf[k + 1].seq < r.st.exp)
  IN [r EXCEPT !.st.buf = SubSeq(buf, cut + 1, Len(buf))]

\* refreshRunLast
CCRefreshRunLast(r) ==
  LET idx == {i \in 1..Len(r.st.buf) : r.st.buf[i].last}
  IN [r EXCEPT !.st.runLast = IF idx = {} THEN 0 ELSE r.st.buf[CHOOSE i \in idx : \A j \in idx : i <= j].seq]

\* batchConfirmation
CCBatch(r) ==
  IF r.st.upTo - r.st.conf <= (W \div 2) THEN CCSendRequest(r, FALSE)
  ELSE IF Len(r.st.buf) = 0 /\ r.st.inf.seq = 0 THEN CCSendAck(r)
  ELSE r

\* handleRegistrationAck (one producer session, id 1)
CCOnRegAck(st, m) ==
  IF ~st.res \/ m.n # st.nonce THEN R0(st)
  ELSE LET st1 == [st EXCEPT !.saw = TRUE]
           st2 == IF st1.sess # 1
                  THEN [st1 EXCEPT !.sess = 1, !.exp = m.next, !.conf = m.next - 1, !.buf = <<>>, !.inf = NoInf, !.runLast = 0]
                  ELSE st1
       IN CCSendRequest(R0(st2), TRUE)

\* handleSequencedMessage
CCOnSeq(st, m) ==
  IF ~st.res \/ st.sess = 0 THEN R0(st)
  ELSE LET r == R0([st EXCEPT !.saw = TRUE])
           e == [seq |-> m.seq, id |-> m.id, ch |-> m.ch, first |-> m.first, last |-> m.last]
       IN IF m.seq < 1 \/ m.seq > st.upTo THEN r
          ELSE IF m.seq < st.exp THEN CCSendAck(r)
          ELSE IF m.ch
          THEN LET r1 == CCBuffer(r, e)
                   r2 == IF m.last /\ (r1.st.runLast = 0 \/ m.seq < r1.st.runLast) THEN [r1 EXCEPT !.st.runLast = m.seq] ELSE r1
               IN CCDrain(r2)
          ELSE IF m.seq = st.exp /\ st.inf.seq = 0 THEN CCDeliver(r, [seq |-> m.seq, id |-> m.id])
          ELSE IF st.inf.seq # 0 /\ m.seq = st.inf.seq THEN r
          ELSE CCDrain(CCBuffer(r, e))

\* handleConfirmed
CCOnConfirmed(st, m) ==
  IF st.inf.seq = 0 \/ m.id # st.inf.id \/ m.seq # st.inf.seq THEN R0(st)
  ELSE LET r1 == R0([st EXCEPT !.conf = st.inf.seq, !.exp = st.inf.seq + 1, !.inf = NoInf])
           r2 == CCDrain(CCBatch(CCRefreshRunLast(CCPurge(r1))))
       IN IF CCGapOpen(r2.st) THEN CCSolicit(r2) ELSE r2

\* handleTick: exactly one recovery rule
CCOnTick(st) ==
  LET r == R0(st)
      r1 == IF st.sess = 0 \/ ~st.saw THEN CCRegister(r)
            ELSE IF st.inf.seq # 0 THEN Send(r, "c", [t |-> "Delivery", seq |-> st.inf.seq, id |-> st.inf.id])
            ELSE IF CCGapOpen(st) THEN CCSendGapRequest(r)
            ELSE r
      wedged == /\ st.sess # 0 /\ st.saw /\ st.inf.seq = 0 /\ CCGapOpen(st)       \* failWedgedChunkRun
                /\ st.buf[1].seq = st.exp /\ st.buf[1].ch /\ CCScanRun(st).bad
  IN IF wedged THEN CCFail(r) ELSE [r1 EXCEPT !.st.saw = FALSE]

\* handlePostStart: register if the producer endpoint already exists
CCOnPostStart(st, producerUp) == IF producerUp THEN CCRegister(R0(st)) ELSE R0(st)

CCHandle(st, m) ==
  CASE m.t = "PostStart" -> CCOnPostStart(st, m.up)
    [] m.t = "RegAck"    -> CCOnRegAck(st, m)
    [] m.t = "Seq"       -> CCOnSeq(st, m)
    [] m.t = "Confirmed" -> CCOnConfirmed(st, m)
    [] m.t = "Tick"      -> CCOnTick(st)

=============================================================================
