---- MODULE Trace_WP ----
(* Conformance of recorded executions of the REAL work-pulling controller and worker *)
(* consumer controllers with the transcription (see Trace_P2P for the log format;     *)
(* join / leave lines track which workers are alive, which decides whether a          *)
(* registration authenticates).  Rejection = drift, never a verdict.                  *)
EXTENDS RDWorkPull, RDConsumer, Json
Log == ndJsonDeserialize("trace.ndjson")
VARIABLES l, wp, cc, life, sent, box
tvars == <<l, wp, cc, life, sent, box>>

Box0 == [w \in Workers \cup {"pc"} |-> <<>>]
Net(m) == m.t \in {"Register", "Request", "Ack", "RegAck", "Seq"}
Explain(i, who, exp, got) == PrintT(<<"DRIFT", i, who, "expected", exp, "got", got>>) /\ FALSE
GapOK(modelSt, logSt) ==
  /\ [modelSt EXCEPT !.gapLim = logSt.gapLim] = logSt
  /\ modelSt.gapLim \/ ~logSt.gapLim
\* a worker that is being shut down may or may not still authenticate
\* (nor does one whose companion is not attached to the actor tree yet)
AliveChoices(w) == IF w = "" THEN {FALSE}
                   ELSE IF life[w] \in {"up", "leaving"} THEN {TRUE, FALSE} ELSE {FALSE}

TInit == /\ l = 1 /\ wp = WP0 /\ cc = [w \in Workers |-> CC0] /\ life = [w \in Workers |-> "no"]
         /\ sent = {} /\ box = Box0

TStep ==
  /\ l <= Len(Log)
  /\ l' = l + 1
  /\ LET e == Log[l] IN
     CASE e.e = "new" ->
            /\ wp' = WP0 /\ cc' = [w \in Workers |-> CC0] /\ life' = [w \in Workers |-> "no"]
            /\ sent' = {} /\ box' = Box0
       [] e.e = "join" -> life' = [life EXCEPT ![e.w] = "up"] /\ UNCHANGED <<wp, cc, sent, box>>
       [] e.e = "leave" -> life' = [life EXCEPT ![e.w] = "leaving"] /\ UNCHANGED <<wp, cc, sent, box>>
       [] e.e = "send" /\ e.from = "pc" ->
            /\ box' = [box EXCEPT !.pc = Append(@, [to |-> e.to, w |-> IF e.to = "p" THEN "" ELSE e.w, m |-> e.m])]
            /\ sent' = sent \cup {[to |-> e.to, w |-> e.w, m |-> e.m]}
            /\ UNCHANGED <<wp, cc, life>>
       [] e.e = "send" /\ e.from = "cc" ->
            /\ box' = [box EXCEPT ![e.w] = Append(@, [to |-> e.to, m |-> e.m])]
            /\ sent' = sent \cup {[to |-> e.to, w |-> e.w, m |-> e.m]}
            /\ UNCHANGED <<wp, cc, life>>
       [] e.e = "end" /\ e.m.t = "Other" ->
            /\ IF e.who = "pc" THEN wp' = e.st /\ cc' = cc /\ box' = [box EXCEPT !.pc = <<>>]
               ELSE cc' = [cc EXCEPT ![e.w] = e.st] /\ wp' = wp /\ box' = [box EXCEPT ![e.w] = <<>>]
            /\ UNCHANGED <<sent, life>>
       [] e.e = "end" /\ e.who = "pc" ->
            /\ Net(e.m) => [to |-> "pc", w |-> e.w, m |-> e.m] \in sent
            /\ IF \E alive \in AliveChoices(e.w) :
                    LET r == WPHandle(wp, e.w, e.m, alive) IN r.st = e.st /\ r.out = box.pc
               THEN TRUE
               ELSE Explain(l, "pc", WPHandle(wp, e.w, e.m, e.w # "" /\ life[e.w] = "up"), [st |-> e.st, out |-> box.pc])
            /\ wp' = e.st /\ box' = [box EXCEPT !.pc = <<>>]
            /\ life' = IF e.m.t = "Terminated" THEN [life EXCEPT ![e.w] = "dead"] ELSE life
            /\ UNCHANGED <<cc, sent>>
       [] e.e = "end" /\ e.who = "cc" /\ e.m.t = "Terminated" ->   \* the worker endpoint died: the controller stops
            cc' = [cc EXCEPT ![e.w] = e.st] /\ box' = [box EXCEPT ![e.w] = <<>>] /\ UNCHANGED <<wp, sent, life>>
       [] e.e = "end" /\ e.who = "cc" ->
            /\ Net(e.m) => [to |-> "cc", w |-> e.w, m |-> e.m] \in sent
            /\ IF \E g \in (IF cc[e.w].gapLim THEN {TRUE, FALSE} ELSE {FALSE}) :
                    LET r == CCHandle([cc[e.w] EXCEPT !.gapLim = g], e.m)
                    IN GapOK(r.st, e.st) /\ r.out = box[e.w]
               THEN TRUE
               ELSE Explain(l, e.w, CCHandle(cc[e.w], e.m), [st |-> e.st, out |-> box[e.w]])
            /\ cc' = [cc EXCEPT ![e.w] = e.st] /\ box' = [box EXCEPT ![e.w] = <<>>]
            /\ UNCHANGED <<wp, sent, life>>
       [] OTHER -> UNCHANGED <<wp, cc, life, sent, box>>
TSpec == TInit /\ [][TStep]_tvars
====
