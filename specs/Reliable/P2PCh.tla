-------------------------------- MODULE P2PCh ------------------------------
(* P2P.tla with chunking switched on (RDProducerCh / RDConsumerCh): message k needs   *)
(* Chunks[k] chunks.  Everything else (channels, faults, ticks, endpoints) is P2P.    *)
(* Reliable point-to-point delivery of goakt, transcribed handler by handler:        *)
(*   actor/reliable_delivery_producer_controller.go   (PC*, volatile path: no queue) *)
(*   actor/reliable_delivery_consumer_controller.go   (CC*, whole messages)          *)
(* Every handler is an operator  state x message -> [st |-> state', out |-> sends]   *)
(* so that the same text serves the exhaustive spec, the behaviour generator and the  *)
(* trace specs (scripted replays and free-running executions).                        *)
(*                                                                                    *)
(* Topology: producer endpoint P <-> PC  (local, FIFO, reliable: toP / fromP)         *)
(*           PC <-> CC   (the "network": bags p2c / c2p with Drop, Dup and arbitrary  *)
(*                        reordering inside a fault budget)                           *)
(*           CC <-> consumer endpoint C  (local, FIFO, reliable: toC / fromC)         *)
(* One PC session (no controller restart, as C42 scopes it).  Message ids are the     *)
(* production index 1..N, so "payload in production order" is  id = seq.              *)
EXTENDS RDProducerCh, RDConsumerCh, RDEndpointsCh, Bags

CONSTANTS F,        \* fault budget (Drop + Dup on the two network channels)
          TP, TC,   \* tick budgets of the two controllers
          TG,       \* how often the gap-request rate limit may expire (time passing)
          Orders,   \* subset of {"pc","cp"}: spawn order producer-first / consumer-first
          QuietTicks  \* TRUE: timers fire only when nothing is in flight and work remains
                    \* (the timing assumption of the liveness configuration)

VARIABLES pc,       \* producer controller state
          cc,       \* consumer controller state
          c2p, p2c, \* network channels (bags of messages)
          fromP, fromC,   \* local FIFO legs endpoint -> controller (see PReact / CReact)
          env,      \* the two endpoints
          bud,      \* budgets used: [f, tp, tc, g]
          last,     \* [a |-> action, m |-> message]      (output only)
          outs      \* sends of the last step             (output only)

vars == <<pc, cc, c2p, p2c, fromP, fromC, env, bud, last, outs>>
core == <<pc, cc, c2p, p2c, fromP, fromC, env, bud>>

(* ------------------------------------------------------------------------------ *)
(* Routing                                                                         *)
(* ------------------------------------------------------------------------------ *)
BagOf(s) == LET rng == {s[i] : i \in 1..Len(s)}
            IN [x \in rng |-> Cardinality({i \in 1..Len(s) : s[i] = x})]
One(m) == SetToBag({m})

Init ==
  /\ \E o \in Orders :
       LET r == CCOnPostStart(CC0, o = "pc")
       IN /\ cc = r.st
          /\ c2p = BagOf(Msgs(r.out, "pc"))
          /\ last = [a |-> "Init", m |-> [t |-> o]]
          /\ outs = r.out
  /\ pc = PC0
  /\ p2c = EmptyBag
  /\ fromP = <<>> /\ fromC = <<>>
  /\ env = Env0
  /\ bud = [f |-> 0, tp |-> 0, tc |-> 0, g |-> 0]

\* Endpoints react at once: a controller -> endpoint message is handled by the endpoint
\* in the same step and only its reply travels (fromP / fromC) with arbitrary delay
\* relative to everything else.  This is a partial-order reduction, not a restriction:
\* an endpoint step reads the head of its inbox and its own state only, so moving it
\* left to just after the send gives a behaviour with the same controller observations.
RECURSIVE PReact(_, _, _)
PReact(e, ms, acc) ==      \* e: env, ms: messages for P in order, acc: replies so far
  IF ms = <<>> THEN [st |-> e, out |-> acc]
  ELSE LET r == PHandle(e, Head(ms)) IN PReact(r.st, Tail(ms), acc \o Msgs(r.out, "pc"))

RECURSIVE CReact(_, _)
CReact(ms, acc) == IF ms = <<>> THEN acc ELSE CReact(Tail(ms), acc \o Msgs(CHandle(Head(ms)), "cc"))

\* a step of PC on message m: state, sends to CC (network) and to P (local, answered at once)
PCStep(m, fromP0) ==
  LET r == PCHandle(pc, m)
      p == PReact(env, Msgs(r.out, "p"), <<>>)
  IN /\ pc' = r.st
     /\ p2c' = p2c (+) BagOf(Msgs(r.out, "cc"))
     /\ env' = p.st
     /\ fromP' = fromP0 \o p.out
     /\ outs' = r.out

\* Liveness configuration only (QuietTicks): timers fire when nothing is in flight, so
\* no message carries an old nonce and a re-registration may reuse any nonce that neither
\* controller holds; this keeps the fair state space finite without changing behaviour
\* (nonces are compared for equality only).
Canon(r, ownNonce, peerNonce) ==
  IF ~QuietTicks \/ r.st.nonce = ownNonce THEN r
  ELSE LET k == CHOOSE k \in 1..3 : k # ownNonce /\ k # peerNonce
       IN [st |-> [r.st EXCEPT !.nonce = k, !.nonceCtr = k],
           out |-> [i \in 1..Len(r.out) |-> IF r.out[i].m.t = "Register" THEN [r.out[i] EXCEPT !.m.n = k] ELSE r.out[i]]]

CCStep(m, fromC0) ==
  LET r == Canon(CCHandle(cc, m), cc.nonce, pc.nonce)
  IN /\ cc' = r.st
     /\ c2p' = c2p (+) BagOf(Msgs(r.out, "pc"))
     /\ fromC' = fromC0 \o CReact(Msgs(r.out, "c"), <<>>)
     /\ outs' = r.out

(* ------------------------------------------------------------------------------ *)
(* Actions                                                                         *)
(* ------------------------------------------------------------------------------ *)
\* C42 (liveness goal): everything offered was produced, confirmed by the consumer and
\* reported to the producer endpoint
LastSeq == LET RECURSIVE E(_)
                E(k) == IF k = 0 THEN 0 ELSE E(k - 1) + Chunks[k]
            IN E(N)
AllConfirmed == cc.conf = LastSeq /\ pc.conf = LastSeq /\ \A k \in 1..N : env.dconf[k] = 1
Quiet == c2p = EmptyBag /\ p2c = EmptyBag /\ fromP = <<>> /\ fromC = <<>>
TimerGate == QuietTicks => (Quiet /\ ~AllConfirmed)

PCRecvNet(m) ==                    \* a CC -> PC message arrives
  /\ ~pc.failed /\ BagIn(m, c2p)
  /\ c2p' = c2p (-) One(m)
  /\ PCStep(m, fromP)
  /\ last' = [a |-> "PCRecvNet", m |-> m]
  /\ UNCHANGED <<cc, fromC, bud>>

PCRecvLocal ==                     \* the next endpoint -> PC message is handled
  /\ ~pc.failed /\ fromP # <<>>
  /\ PCStep(Head(fromP), Tail(fromP))
  /\ last' = [a |-> "PCRecvLocal", m |-> Head(fromP)]
  /\ UNCHANGED <<cc, c2p, fromC, bud>>

TickPC ==
  /\ ~pc.failed /\ (QuietTicks \/ bud.tp < TP) /\ TimerGate
  /\ bud' = IF QuietTicks THEN bud ELSE [bud EXCEPT !.tp = @ + 1]
  /\ PCStep(Tick, fromP)
  /\ last' = [a |-> "TickPC", m |-> Tick]
  /\ UNCHANGED <<cc, c2p, fromC>>

CCRecvNet(m) ==                    \* a PC -> CC message arrives
  /\ ~cc.failed /\ BagIn(m, p2c)
  /\ p2c' = p2c (-) One(m)
  /\ CCStep(m, fromC)
  /\ last' = [a |-> "CCRecvNet", m |-> m]
  /\ UNCHANGED <<pc, fromP, env, bud>>

CCRecvLocal ==
  /\ ~cc.failed /\ fromC # <<>>
  /\ CCStep(Head(fromC), Tail(fromC))
  /\ last' = [a |-> "CCRecvLocal", m |-> Head(fromC)]
  /\ UNCHANGED <<pc, p2c, fromP, env, bud>>

TickCC ==
  /\ ~cc.failed /\ (QuietTicks \/ bud.tc < TC) /\ TimerGate
  /\ bud' = IF QuietTicks THEN bud ELSE [bud EXCEPT !.tc = @ + 1]
  /\ CCStep(Tick, fromC)
  /\ last' = [a |-> "TickCC", m |-> Tick]
  /\ UNCHANGED <<pc, p2c, fromP, env>>

ElapseGap ==                       \* one resend interval passed since the last gap request
  /\ cc.gapLim /\ (QuietTicks \/ bud.g < TG) /\ TimerGate
  /\ bud' = IF QuietTicks THEN bud ELSE [bud EXCEPT !.g = @ + 1]
  /\ cc' = [cc EXCEPT !.gapLim = FALSE]
  /\ last' = [a |-> "ElapseGap", m |-> NoMsg] /\ outs' = <<>>
  /\ UNCHANGED <<pc, c2p, p2c, fromP, fromC, env>>

Drop(ch, m) ==                     \* network fault: lose one copy
  /\ bud.f < F
  /\ bud' = [bud EXCEPT !.f = @ + 1]
  /\ \/ ch = "c2p" /\ BagIn(m, c2p) /\ c2p' = c2p (-) One(m) /\ UNCHANGED p2c
     \/ ch = "p2c" /\ BagIn(m, p2c) /\ p2c' = p2c (-) One(m) /\ UNCHANGED c2p
  /\ last' = [a |-> "Drop", m |-> m] /\ outs' = <<>>
  /\ UNCHANGED <<pc, cc, fromP, fromC, env>>

Dup(ch, m) ==                      \* network fault: one more copy
  /\ bud.f < F
  /\ bud' = [bud EXCEPT !.f = @ + 1]
  /\ \/ ch = "c2p" /\ BagIn(m, c2p) /\ c2p' = c2p (+) One(m) /\ UNCHANGED p2c
     \/ ch = "p2c" /\ BagIn(m, p2c) /\ p2c' = p2c (+) One(m) /\ UNCHANGED c2p
  /\ last' = [a |-> "Dup", m |-> m] /\ outs' = <<>>
  /\ UNCHANGED <<pc, cc, fromP, fromC, env>>

Next ==
  \/ \E m \in BagToSet(c2p) : PCRecvNet(m) \/ Drop("c2p", m) \/ Dup("c2p", m)
  \/ \E m \in BagToSet(p2c) : CCRecvNet(m) \/ Drop("p2c", m) \/ Dup("p2c", m)
  \/ PCRecvLocal \/ CCRecvLocal
  \/ TickPC \/ TickCC \/ ElapseGap

Spec == Init /\ [][Next]_vars

(* ------------------------------------------------------------------------------ *)
(* Properties (chunk-aware versions of the ones in P2P.tla)                        *)
(* ------------------------------------------------------------------------------ *)
RECURSIVE EndSeq(_)
EndSeq(k) == IF k = 0 THEN 0 ELSE EndSeq(k - 1) + Chunks[k]      \* last sequence of message k
StartSeq(k) == EndSeq(k - 1) + 1
MsgOf(seq) == CHOOSE k \in 1..N : StartSeq(k) <= seq /\ seq <= EndSeq(k)
Boundary(x) == \E k \in 0..N : x = EndSeq(k)
MarkOK(e) == LET k == e.id IN
  /\ k = MsgOf(e.seq)
  /\ e.ch = (Chunks[k] > 1)
  /\ e.first = (e.ch /\ e.seq = StartSeq(k))
  /\ e.last = (e.ch /\ e.seq = EndSeq(k))

InFlightIsNext ==
  cc.inf.seq # 0 => /\ cc.inf.id \in 1..N /\ StartSeq(cc.inf.id) = cc.exp /\ cc.inf.seq = EndSeq(cc.inf.id)
                    /\ cc.exp = cc.conf + 1
DeliveryOrder ==
  [][\A i \in 1..Len(outs') :
        outs'[i].m.t = "Delivery" =>
          /\ outs'[i].m.id \in 1..N
          /\ StartSeq(outs'[i].m.id) = cc'.conf + 1
          /\ outs'[i].m.seq = EndSeq(outs'[i].m.id)
          /\ cc'.inf = [seq |-> outs'[i].m.seq, id |-> outs'[i].m.id]]_vars
ConfirmStepwise ==
  [][cc'.conf = cc.conf \/ (\E k \in 1..N : StartSeq(k) = cc.conf + 1 /\ cc'.conf = EndSeq(k))]_vars
Watermarks ==
  /\ cc.exp = cc.conf + 1 /\ Boundary(cc.conf) /\ Boundary(pc.conf) /\ Boundary(pc.cur)
  /\ pc.conf <= cc.conf /\ cc.conf <= pc.cur /\ pc.cur <= EndSeq(env.produced)
  /\ Len(pc.unc) = pc.cur - pc.conf
  /\ \A i \in 1..Len(pc.unc) : pc.unc[i].seq = pc.conf + i /\ MarkOK(pc.unc[i])
NoFailure == ~pc.failed /\ ~cc.failed
ConfirmedOnce == \A k \in 1..N : env.dconf[k] <= 1 /\ (env.dconf[k] = 1 => EndSeq(k) <= cc.conf)

DemandRespected ==
  /\ \A m \in BagToSet(p2c) : m.t = "Seq" => m.seq <= cc.upTo /\ MarkOK(m)
  /\ pc.dem <= cc.upTo \/ cc.sess = 0
EmitUnderDemand ==
  [][\A i \in 1..Len(outs') : outs'[i].m.t = "Seq" => outs'[i].m.seq <= pc'.dem /\ outs'[i].m.seq <= cc.upTo]_vars
BufferInWindow ==
  /\ Len(cc.buf) <= W
  /\ \A i \in 1..Len(cc.buf) : cc.buf[i].seq >= cc.exp /\ cc.buf[i].seq <= cc.upTo /\ MarkOK(cc.buf[i])
  /\ \A i \in 1..Len(cc.buf) - 1 : cc.buf[i].seq < cc.buf[i + 1].seq
  /\ Len(cc.buf) > 0 /\ cc.buf[1].seq = cc.exp => cc.buf[1].ch     \* a whole message at exp is never left buffered while nothing is in flight ... or is in flight
     \/ cc.inf.seq # 0
NeverBufFull == [][\A i \in 1..Len(outs') : outs'[i].m.t # "BufFull"]_vars

Fair ==
  /\ WF_vars(PCRecvLocal) /\ WF_vars(CCRecvLocal)
  /\ WF_vars(\E m \in BagToSet(c2p) : PCRecvNet(m))
  /\ WF_vars(\E m \in BagToSet(p2c) : CCRecvNet(m))
  /\ SF_vars(TickPC) /\ SF_vars(TickCC) /\ SF_vars(ElapseGap)
LiveSpec == Init /\ [][Next]_vars /\ Fair
EventuallyAllConfirmed == <>AllConfirmed
=============================================================================
