----------------------------- MODULE RDEndpointsCh --------------------------
(* The two endpoints: application code that follows the documented contract.  The    *)
(* harness endpoints (harness/cmd/reliable) implement exactly this.                   *)
EXTENDS RDCommon
CONSTANTS N,        \* messages the producer endpoint offers (ids 1..N in this order)
          Chunks    \* Chunks[k]: how many chunks the encoded frame of message k needs (1 = whole)

Env0 == [produced |-> 0, lastTok |-> 0, lastProd |-> NoMsg, dconf |-> [k \in 1..N |-> 0]]

\* producer endpoint: answers RequestNext once per token (idempotent resend), acks Stored
PHandle(e, m) ==
  CASE m.t = "ReqNext" ->
         IF m.tok = e.lastTok THEN [st |-> e, out |-> <<[to |-> "pc", m |-> e.lastProd]>>]
         ELSE IF e.produced < N
         THEN LET p == [t |-> "Produced", tok |-> m.tok, id |-> e.produced + 1, c |-> Chunks[e.produced + 1]]
              IN [st |-> [e EXCEPT !.produced = @ + 1, !.lastTok = m.tok, !.lastProd = p],
                  out |-> <<[to |-> "pc", m |-> p]>>]
         ELSE R0(e)
    [] m.t = "Stored" -> [st |-> e, out |-> <<[to |-> "pc", m |-> [t |-> "StoredAck", tok |-> m.tok, id |-> m.id]]>>]
    [] m.t = "DConf"  -> R0([e EXCEPT !.dconf[m.id] = @ + 1])

\* consumer endpoint: confirms every Delivery it is handed
CHandle(m) == <<[to |-> "cc", m |-> [t |-> "Confirmed", seq |-> m.seq, id |-> m.id]]>>

=============================================================================
