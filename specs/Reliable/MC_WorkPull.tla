---- MODULE MC_WorkPull ----
EXTENDS WorkPull
View == core
LiveView == <<wp, cc, life, c2p, p2c, fromP, fromC, env, bud.f>>
Init1 == <<"w1">>
Init2 == <<"w1", "w2">>
====
