---- MODULE MC_WorkPull ----
EXTENDS WorkPull
View == core
LiveView == core
Init1 == <<"w1">>
Init2 == <<"w1", "w2">>
====
