----------------------------- MODULE RDWorkPull -----------------------------
(* actor/reliable_delivery_work_pulling_controller.go, volatile path (no durable     *)
(* work queue), one session.  The controller multiplexes a shared pending pool over  *)
(* per-worker bindings; each binding is a point-to-point sub-flow with its own        *)
(* sequence space.  Handlers have the shape of RDCommon; a send to a worker's         *)
(* consumer controller carries the worker name: [to |-> "cc", w |-> w, m |-> ...].    *)
EXTENDS RDCommon
CONSTANTS MaxWin,   \* MaxReliableFlowControlWindow
          Workers   \* worker endpoint names (strings)

NoB == [on |-> FALSE, nonce |-> 0, cur |-> 0, conf |-> 0, dem |-> 0, unc |-> <<>>]

WP0 == [sseq |-> 0, pend |-> <<>>, b |-> [w \in Workers |-> NoB], ord |-> <<>>, nw |-> 0,
        hs |-> HsIdle, tok |-> 0, tokCtr |-> 0, pid |-> 0, pseq |-> 0,
        lastTok |-> 0, lastId |-> 0, failed |-> FALSE]

WPSendW(r, w, m) == [r EXCEPT !.out = Append(@, [to |-> "cc", w |-> w, m |-> m])]
WPSendP(r, m)    == [r EXCEPT !.out = Append(@, [to |-> "p", w |-> "", m |-> m])]
WPObs(r, w, what) == [r EXCEPT !.out = Append(@, [to |-> "obs", w |-> w, m |-> [t |-> what]])]
WPFail(r) == [r EXCEPT !.st.failed = TRUE]

\* bindingWork.freeDemand
FreeDem(b) == IF ~b.on \/ b.dem <= b.cur THEN 0 ELSE b.dem - b.cur

RECURSIVE SumFree(_, _)
SumFree(st, S) == IF S = {} THEN 0 ELSE LET w == CHOOSE x \in S : TRUE IN FreeDem(st.b[w]) + SumFree(st, S \ {w})
AggFree(st) == SumFree(st, Workers)                 \* aggregateFreeDemand

\* emitSequenced (the binding's controller is never nil while the binding exists)
WPEmit(r, w, e) ==
  IF e.seq > r.st.b[w].dem THEN r
  ELSE WPSendW(r, w, [t |-> "Seq", seq |-> e.seq, id |-> e.id])

\* nextEligibleBinding: round robin over bindingOrder from nextWorker; the cursor moves
\* even when nobody is eligible
RECURSIVE WPNextElig(_, _, _)
WPNextElig(st, nw, examined) ==
  IF Len(st.ord) = 0 \/ examined >= Len(st.ord) THEN [w |-> "", nw |-> nw]
  ELSE LET nw1 == IF nw >= Len(st.ord) THEN 0 ELSE nw
           name == st.ord[nw1 + 1]
       IN IF FreeDem(st.b[name]) > 0 THEN [w |-> name, nw |-> nw1 + 1]
          ELSE WPNextElig(st, nw1 + 1, examined + 1)

\* dispatchPending
RECURSIVE WPDispatch(_)
WPDispatch(r) ==
  IF Len(r.st.pend) = 0 THEN r
  ELSE LET sel == WPNextElig(r.st, r.st.nw, 0)
       IN IF sel.w = "" THEN [r EXCEPT !.st.nw = sel.nw]
          ELSE LET work == Head(r.st.pend)
                   b == r.st.b[sel.w]
                   e == [seq |-> b.cur + 1, id |-> work.id, sseq |-> work.sseq]
                   r1 == [r EXCEPT !.st.nw = sel.nw, !.st.pend = Tail(@),
                                   !.st.b[sel.w].cur = b.cur + 1,
                                   !.st.b[sel.w].unc = Append(@, e)]
               IN WPDispatch(WPEmit(r1, sel.w, e))

WPSendRequestNext(r) == WPSendP(r, [t |-> "ReqNext", tok |-> r.st.tok])

\* allowNextRequest: pool-aware credit
WPAllowNext(r) ==
  IF r.st.hs # HsIdle \/ AggFree(r.st) <= Len(r.st.pend) THEN r
  ELSE WPSendRequestNext([r EXCEPT !.st.hs = HsCredit, !.st.tok = r.st.tokCtr + 1, !.st.tokCtr = r.st.tokCtr + 1])

WPProgress(r) == WPAllowNext(WPDispatch(r))

\* endBinding: unconfirmed work goes back to the head of the pool
WPEndBinding(r, w) ==
  IF ~r.st.b[w].on THEN r
  ELSE LET unc == r.st.b[w].unc
           req == [i \in 1..Len(unc) |-> [id |-> unc[i].id, sseq |-> unc[i].sseq]]
           ord2 == SelectSeq(r.st.ord, LAMBDA x : x # w)
       IN [r EXCEPT !.st.pend = req \o @, !.st.b[w] = NoB, !.st.ord = ord2,
                    !.st.nw = IF @ > Len(ord2) THEN 0 ELSE @]

\* advanceConfirmed (+ sendConfirmation: DeliveryConfirmed carries the store sequence)
RECURSIVE WPConfirmEach(_, _, _)
WPConfirmEach(r, unc, i) ==
  IF i > Len(unc) THEN r
  ELSE WPConfirmEach(WPSendP(r, [t |-> "DConf", id |-> unc[i].id, seq |-> unc[i].sseq]), unc, i + 1)

WPAdvance(r, w, c) ==
  IF c <= r.st.b[w].conf THEN r
  ELSE LET unc == r.st.b[w].unc
           cut == CHOOSE k \in 0..Len(unc) :
                    /\ \A i \in 1..k : unc[i].seq <= c
                    /\ k = Len(unc) \/ unc[k + 1].seq > c
           r1  == [r EXCEPT !.st.b[w].conf = c]
       IN IF cut = 0 THEN r1
          ELSE [WPConfirmEach(r1, SubSeq(unc, 1, cut), 1) EXCEPT !.st.b[w].unc = SubSeq(unc, cut + 1, Len(unc))]

\* resendUnconfirmed
RECURSIVE WPResendFrom(_, _, _)
WPResendFrom(r, w, i) ==
  LET b == r.st.b[w] IN
  IF i > Len(b.unc) \/ b.unc[i].seq > b.cur \/ b.unc[i].seq > b.dem THEN r
  ELSE WPResendFrom(WPEmit(r, w, b.unc[i]), w, i + 1)

\* handleRegisterConsumer.  alive: the sender authenticates as the live consumer
\* companion of a running worker endpoint naming this producer (a look-up in the
\* actor tree).  A worker name is spawned once, so the companion never changes.
WPOnRegister(st, w, m, alive) ==
  IF ~alive THEN R0(st)
  ELSE LET r1 == IF ~st.b[w].on
                 THEN R0([st EXCEPT !.b[w] = [NoB EXCEPT !.on = TRUE, !.nonce = m.n], !.ord = Append(@, w)])
                 ELSE IF st.b[w].nonce # m.n THEN R0([st EXCEPT !.b[w].nonce = m.n])
                 ELSE R0(st)
           r2 == WPSendW(r1, w, [t |-> "RegAck", n |-> r1.st.b[w].nonce, next |-> r1.st.b[w].conf + 1])
       IN WPProgress(r2)

\* bindingFrom
WPBound(st, w, m) == st.b[w].on /\ st.b[w].nonce = m.n

\* handleRequest
WPOnRequest(st, w, m) ==
  IF ~WPBound(st, w, m) THEN R0(st)
  ELSE IF m.conf < 0 \/ m.conf > st.b[w].cur \/ m.upTo < m.conf \/ m.upTo > m.conf + MaxWin
  THEN WPProgress(WPEndBinding(WPObs(R0(st), w, "Illegal"), w))
  ELSE LET r1 == WPAdvance(R0(st), w, m.conf)
           r2 == [r1 EXCEPT !.st.b[w].dem = m.upTo]
           r3 == IF m.via THEN WPResendFrom(r2, w, 1) ELSE r2
       IN WPProgress(r3)

\* handleAck
WPOnAck(st, w, m) ==
  IF ~WPBound(st, w, m) THEN R0(st)
  ELSE IF m.conf < 0 \/ m.conf > st.b[w].cur
  THEN WPProgress(WPEndBinding(WPObs(R0(st), w, "Illegal"), w))
  ELSE WPProgress(WPAdvance(R0(st), w, m.conf))

\* handleProduced -> startStore -> completeStore -> replyStored
WPOnProduced(st, m) ==
  IF st.hs # HsIdle /\ st.hs # HsCredit /\ m.tok = st.tok /\ m.id = st.pid THEN R0(st)
  ELSE IF m.tok = st.lastTok /\ m.id = st.lastId THEN R0(st)
  ELSE IF st.hs # HsCredit THEN WPFail(R0(st))
  ELSE IF m.tok # st.tok THEN WPFail(R0(st))
  ELSE LET s == st.sseq + 1
           st1 == [st EXCEPT !.pid = m.id, !.sseq = s, !.pseq = s, !.hs = HsStoredAck]
       IN WPSendP(R0(st1), [t |-> "Stored", tok |-> st1.tok, id |-> st1.pid, seq |-> st1.pseq])

\* owns
WPOwns(st, id) ==
  \/ \E i \in 1..Len(st.pend) : st.pend[i].id = id
  \/ \E w \in Workers : \E i \in 1..Len(st.b[w].unc) : st.b[w].unc[i].id = id

\* handleStoredAck -> startAccept -> completeAccept
WPOnStoredAck(st, m) ==
  IF st.hs = HsStoredAck /\ m.tok = st.tok /\ m.id = st.pid
  THEN LET st1 == IF WPOwns(st, st.pid) THEN st
                  ELSE [st EXCEPT !.pend = Append(@, [id |-> st.pid, sseq |-> st.pseq])]
           st2 == [st1 EXCEPT !.lastTok = st.tok, !.lastId = st.pid,
                              !.hs = HsIdle, !.tok = 0, !.pid = 0, !.pseq = 0]
       IN WPProgress(R0(st2))
  ELSE IF m.tok = st.lastTok /\ m.id = st.lastId THEN R0(st)
  ELSE WPFail(R0(st))

\* handleTick
WPOnTick(st) ==
  IF st.hs = HsCredit THEN WPSendRequestNext(R0(st))
  ELSE IF st.hs = HsStoredAck
  THEN WPSendP(R0(st), [t |-> "Stored", tok |-> st.tok, id |-> st.pid, seq |-> st.pseq])
  ELSE R0(st)

\* handleTerminated for a worker companion
WPOnTerminated(st, w) == IF st.b[w].on THEN WPProgress(WPEndBinding(R0(st), w)) ELSE R0(st)

\* w: the worker the message comes from / concerns ("" for the producer's local leg and ticks)
WPHandle(st, w, m, alive) ==
  CASE m.t = "Register"   -> WPOnRegister(st, w, m, alive)
    [] m.t = "Request"    -> WPOnRequest(st, w, m)
    [] m.t = "Ack"        -> WPOnAck(st, w, m)
    [] m.t = "Produced"   -> WPOnProduced(st, m)
    [] m.t = "StoredAck"  -> WPOnStoredAck(st, m)
    [] m.t = "Tick"       -> WPOnTick(st)
    [] m.t = "Terminated" -> WPOnTerminated(st, w)
    [] m.t = "PostStart"  -> R0(st)
=============================================================================
