---- MODULE Gen_WP ----
(* Behaviour generator for WorkPull (see Gen_P2P): the histories are executed on the  *)
(* real controllers by harness/cmd/reliable (wp-replay).                              *)
EXTENDS WorkPull, Json
CONSTANTS Depth,
          Dice      \* random walks: a fault step is kept with probability 1/Dice (spreads faults over the walk); 1 = always
VARIABLE hist
Rec(a, w, m, p, c, o) == [a |-> a, w |-> w, m |-> m, pc |-> p, cc |-> c, out |-> o]
GInit == Init /\ hist = <<Rec("Init", "", [t |-> "init", ws |-> Initial], wp, cc, outs)>>
FaultGate == (last'.a \in {"Drop", "Dup"} /\ Dice > 1) => RandomElement(1..Dice) = 1
GNext == Next /\ FaultGate /\ hist' = Append(hist, Rec(last'.a, last'.w, last'.m, wp', cc', outs'))
GSpec == GInit /\ [][GNext]_<<vars, hist>>
Emit == (Len(hist) < Depth) \/ (PrintT(<<"BEHAVIOUR", ToJson(hist)>>) /\ FALSE)
Init1 == <<"w1">>
Init2 == <<"w1", "w2">>
====
