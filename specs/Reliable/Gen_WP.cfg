SPECIFICATION GSpec
CONSTANTS
  W = 2
  N = 3
  MaxWin = 10000
  Workers = {"w1", "w2", "w3"}
  Initial <- Init2
  Leavers = {"w1", "w2"}
  F = 2
  TP = 1
  TC = 3
  TG = 1
  QuietTicks = FALSE
  Depth = 36
  Dice = 1
CONSTRAINT Emit
