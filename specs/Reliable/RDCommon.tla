------------------------------ MODULE RDCommon ------------------------------
(* Shared vocabulary of the reliable-delivery specifications.  A handler is an        *)
(* operator  state x message -> [st |-> state', out |-> <<[to, m], ...>>]  (the sends  *)
(* in program order), so that the exhaustive specs, the behaviour generators and the  *)
(* trace specs all evaluate the same text.                                            *)
EXTENDS Integers, Sequences, FiniteSets, TLC

Min(a, b) == IF a < b THEN a ELSE b
NoMsg == [t |-> "none"]
NoInf == [seq |-> 0, id |-> 0]
Tick == [t |-> "Tick"]

\* handshake phases, numbered as in the Go const block (Store = 2 and Accept = 4 are
\* transient inside one handler on the volatile path)
HsIdle == 0
HsCredit == 1
HsStoredAck == 3

R0(st) == [st |-> st, out |-> <<>>]
Send(r, to, m) == [r EXCEPT !.out = Append(@, [to |-> to, m |-> m])]

Only(out, to) == SelectSeq(out, LAMBDA o : o.to = to)
Msgs(out, to) == LET s == Only(out, to) IN [i \in 1..Len(s) |-> s[i].m]
=============================================================================
