---- MODULE Mon_P2PCh ----
(* Mon_P2P for flows with chunking on.  The message boundaries are learnt from what    *)
(* the producer endpoint hands over (the first Produced of every message id carries    *)
(* the number of chunks c its encoded payload needs): message k occupies the sequences *)
(* ends[k-1]+1 .. ends[k].  C42: every Delivery is the next unconfirmed MESSAGE, under *)
(* the last chunk's sequence; every SequencedMessage carries the id and chunk mark of   *)
(* its position; DeliveryConfirmed once per message, with the last chunk's sequence,   *)
(* after the consumer confirmed.  C43 as in Mon_P2P (per sequence, i.e. per chunk).     *)
EXTENDS Integers, Sequences, FiniteSets, TLC, Json
CONSTANTS W
Log == ndJsonDeserialize("trace.ndjson")
VARIABLES l, conf, req, dconf, ends
mvars == <<l, conf, req, dconf, ends>>
Max(a, b) == IF a > b THEN a ELSE b
Bad(p, what, a, b) == PrintT(<<"MISMATCH", l, p, what, a, b>>)
Check(ok, p, what, a, b) == IF ok THEN TRUE ELSE Bad(p, what, a, b)
End(k) == IF k = 0 THEN 0 ELSE IF k <= Len(ends) THEN ends[k] ELSE -1
NConf == Cardinality({k \in 1..Len(ends) : ends[k] <= conf})       \* messages confirmed so far

Init == l = 1 /\ conf = 0 /\ req = 0 /\ dconf = <<>> /\ ends = <<>>

Step ==
  /\ l <= Len(Log)
  /\ l' = l + 1
  /\ LET e == Log[l] IN
     CASE e.e = "new" -> conf' = 0 /\ req' = 0 /\ dconf' = <<>> /\ ends' = <<>>
       [] e.e = "begin" /\ e.who = "pc" /\ e.m.t = "Produced" ->
            /\ ends' = IF e.m.id = Len(ends) + 1 THEN Append(ends, End(Len(ends)) + e.m.c) ELSE ends
            /\ UNCHANGED <<conf, req, dconf>>
       [] e.e = "begin" /\ e.who = "cc" /\ e.m.t = "Confirmed" ->
            /\ conf' = IF e.m.id = NConf + 1 /\ e.m.seq = End(e.m.id) THEN e.m.seq ELSE conf
            /\ UNCHANGED <<req, dconf, ends>>
       [] e.e = "send" /\ e.m.t = "Delivery" ->
            /\ Check(e.m.id = NConf + 1, "C42", "delivery-is-next-unconfirmed-message", NConf + 1, e.m.id)
            /\ Check(e.m.seq = End(e.m.id), "C42", "delivery-under-last-chunk-sequence", End(e.m.id), e.m.seq)
            /\ UNCHANGED <<conf, req, dconf, ends>>
       [] e.e = "send" /\ e.m.t = "Request" ->
            /\ req' = Max(req, e.m.upTo)
            /\ UNCHANGED <<conf, dconf, ends>>
       [] e.e = "send" /\ e.m.t = "Seq" ->
            /\ Check(e.m.seq <= req, "C43", "emitted-beyond-requested", req, e.m.seq)
            /\ Check(e.m.id \in 1..Len(ends) /\ End(e.m.id - 1) < e.m.seq /\ e.m.seq <= End(e.m.id),
                     "C42", "sequenced-in-production-order", e.m.seq, e.m.id)
            /\ Check(e.m.id \in 1..Len(ends) =>
                       /\ e.m.ch = (End(e.m.id) - End(e.m.id - 1) > 1)
                       /\ e.m.first = (e.m.ch /\ e.m.seq = End(e.m.id - 1) + 1)
                       /\ e.m.last = (e.m.ch /\ e.m.seq = End(e.m.id)),
                     "C42", "chunk-mark-of-position", e.m.seq, e.m.id)
            /\ UNCHANGED <<conf, req, dconf, ends>>
       [] e.e = "send" /\ e.m.t = "BufFull" ->
            /\ Bad("C43", "buffer-overflow-drop", W, e.m.seq)
            /\ UNCHANGED <<conf, req, dconf, ends>>
       [] e.e = "send" /\ e.m.t = "DConf" ->
            /\ Check(e.m.seq = End(e.m.id) /\ e.m.seq <= conf, "C42", "confirmed-to-producer-before-consumer-confirmed", conf, e.m.seq)
            /\ Check(\A i \in 1..Len(dconf) : dconf[i] # e.m.id, "C42", "confirmed-to-producer-twice", e.m.id, 0)
            /\ dconf' = Append(dconf, e.m.id)
            /\ UNCHANGED <<conf, req, ends>>
       [] e.e = "end" /\ e.who = "cc" ->
            /\ Check(Len(e.st.buf) <= W, "C43", "buffer-exceeds-window", W, Len(e.st.buf))
            /\ Check(~e.st.failed, "C42", "consumer-controller-failed-the-flow", 0, 0)
            /\ UNCHANGED <<conf, req, dconf, ends>>
       [] e.e = "end" /\ e.who = "pc" ->
            /\ Check(~e.st.failed, "C42", "producer-controller-failed-the-flow", 0, 0)
            /\ UNCHANGED <<conf, req, dconf, ends>>
       [] e.e = "fin" ->
            /\ Check(e.done \/ e.free, "C42", "not-every-produced-message-confirmed", e.produced, NConf)
            /\ Check(~e.done \/ (NConf = e.produced /\ Len(dconf) = e.produced), "C42", "confirmation-count", e.produced, Len(dconf))
            /\ UNCHANGED <<conf, req, dconf, ends>>
       [] OTHER -> UNCHANGED <<conf, req, dconf, ends>>
Spec == Init /\ [][Step]_mvars
====
