---- MODULE Mon_WP ----
(* Property monitor for C44 on recorded executions of the REAL work-pulling flow.    *)
(* Observable contract only (messages crossing the controllers' boundaries):          *)
(*   - every worker sub-flow hands its consumer the next unconfirmed sequence, and a  *)
(*     (worker, sequence) pair always carries the same job;                           *)
(*   - only produced jobs are handed out;                                             *)
(*   - the producer is told DeliveryConfirmed at most once per job, and only for a    *)
(*     job that some worker's consumer confirmed;                                     *)
(*   - at the end of a drained flow every produced job was handed to >= 1 worker and  *)
(*     confirmed to the producer exactly once (a job held by a worker that stopped    *)
(*     therefore went to another worker);                                             *)
(*   - the controller never ends the binding of a live worker for a protocol          *)
(*     violation (that would strand the worker: reported as "binding-ended").         *)
EXTENDS Integers, Sequences, FiniteSets, TLC, Json
CONSTANTS Workers
Log == ndJsonDeserialize("trace.ndjson")
VARIABLES l, conf, jobOf, hand, confd, dconf
mvars == <<l, conf, jobOf, hand, confd, dconf>>
Bad(what, a, b) == PrintT(<<"MISMATCH", l, "C44", what, a, b>>)
Check(ok, what, a, b) == IF ok THEN TRUE ELSE Bad(what, a, b)
Keep == UNCHANGED <<conf, jobOf, hand, confd, dconf>>

Init == /\ l = 1 /\ conf = [w \in Workers |-> 0] /\ jobOf = {} /\ hand = {} /\ confd = {} /\ dconf = <<>>

Step ==
  /\ l <= Len(Log)
  /\ l' = l + 1
  /\ LET e == Log[l] IN
     CASE e.e = "new" ->
            conf' = [w \in Workers |-> 0] /\ jobOf' = {} /\ hand' = {} /\ confd' = {} /\ dconf' = <<>>
       [] e.e = "begin" /\ e.who = "cc" /\ e.m.t = "Confirmed" ->
            /\ conf' = [conf EXCEPT ![e.w] = IF e.m.seq = @ + 1 THEN e.m.seq ELSE @]
            /\ confd' = confd \cup {e.m.id}
            /\ UNCHANGED <<jobOf, hand, dconf>>
       [] e.e = "send" /\ e.m.t = "Delivery" ->
            /\ Check(e.m.seq = conf[e.w] + 1, "worker-delivery-is-next-unconfirmed", conf[e.w] + 1, e.m.seq)
            /\ Check(e.m.id >= 1, "delivery-of-unknown-job", e.w, e.m.id)
            /\ Check(\A j \in jobOf : (j.w = e.w /\ j.seq = e.m.seq) => j.id = e.m.id, "sequence-rebound-to-another-job", e.m.seq, e.m.id)
            /\ jobOf' = jobOf \cup {[w |-> e.w, seq |-> e.m.seq, id |-> e.m.id]}
            /\ hand' = hand \cup {e.m.id}
            /\ UNCHANGED <<conf, confd, dconf>>
       [] e.e = "send" /\ e.m.t = "DConf" ->
            /\ Check(e.m.id \in confd, "confirmed-to-producer-but-no-worker-confirmed", e.m.id, 0)
            /\ Check(\A i \in 1..Len(dconf) : dconf[i] # e.m.id, "confirmed-to-producer-twice", e.m.id, 0)
            /\ dconf' = Append(dconf, e.m.id)
            /\ UNCHANGED <<conf, jobOf, hand, confd>>
       [] e.e = "send" /\ e.m.t = "Illegal" ->
            /\ Bad("binding-ended", e.w, 0) /\ Keep
       [] e.e = "end" ->
            /\ Check(~e.st.failed, "controller-failed-the-flow", e.who, e.w) /\ Keep
       [] e.e = "fin" ->
            /\ Check(e.done \/ e.free, "job-never-confirmed", e.produced, Len(dconf))
            /\ Check(~e.done \/ \A k \in 1..e.produced : k \in hand, "job-never-handed-to-a-worker", e.produced, Cardinality(hand))
            /\ Check(~e.done \/ Len(dconf) = e.produced, "confirmation-count", e.produced, Len(dconf))
            /\ Keep
       [] OTHER -> Keep
Spec == Init /\ [][Step]_mvars
====
