---- MODULE Mon_P2P ----
(* Property monitor for C42 / C43 on recorded executions of the REAL controllers.    *)
(* It knows nothing about the controllers' internals: only what crosses their         *)
(* boundary (the messages they hand to their tell helper, the messages they are       *)
(* given) plus the consumer controller's buffer length.  Every line is consumed; a    *)
(* violated clause prints <<"MISMATCH", line, property, clause, ...>>.                *)
(*   C42  every Delivery handed to the consumer is the next unconfirmed message of    *)
(*        the production order (seq = confirmed + 1, id = seq-th produced message);   *)
(*        the producer is told DeliveryConfirmed at most once per message and only    *)
(*        after the consumer confirmed it; at the end of a drained flow every         *)
(*        produced message was confirmed.                                             *)
(*        Neither controller may fail the flow terminally (ReliableDeliveryFailed) under  *)
(*        message faults: that strands every later message.                              *)
(*   C43  every SequencedMessage emitted has seq <= the highest sequence requested by *)
(*        the consumer controller so far; the receive buffer never exceeds the window *)
(*        and never has to drop an arrival for lack of room.                          *)
EXTENDS Integers, Sequences, FiniteSets, TLC, Json
CONSTANTS W
Log == ndJsonDeserialize("trace.ndjson")
VARIABLES l, conf, req, dconf
mvars == <<l, conf, req, dconf>>
Max(a, b) == IF a > b THEN a ELSE b
Bad(p, what, a, b) == PrintT(<<"MISMATCH", l, p, what, a, b>>)
Check(ok, p, what, a, b) == IF ok THEN TRUE ELSE Bad(p, what, a, b)

Init == l = 1 /\ conf = 0 /\ req = 0 /\ dconf = <<>>

Step ==
  /\ l <= Len(Log)
  /\ l' = l + 1
  /\ LET e == Log[l] IN
     CASE e.e = "new" -> conf' = 0 /\ req' = 0 /\ dconf' = <<>>
       [] e.e = "begin" /\ e.who = "cc" /\ e.m.t = "Confirmed" ->
            /\ conf' = IF e.m.seq = conf + 1 THEN e.m.seq ELSE conf
            /\ UNCHANGED <<req, dconf>>
       [] e.e = "send" /\ e.m.t = "Delivery" ->
            /\ Check(e.m.seq = conf + 1, "C42", "delivery-is-next-unconfirmed", conf + 1, e.m.seq)
            /\ Check(e.m.id = e.m.seq, "C42", "delivery-in-production-order", e.m.seq, e.m.id)
            /\ UNCHANGED <<conf, req, dconf>>
       [] e.e = "send" /\ e.m.t = "Request" ->
            /\ req' = Max(req, e.m.upTo)
            /\ UNCHANGED <<conf, dconf>>
       [] e.e = "send" /\ e.m.t = "Seq" ->
            /\ Check(e.m.seq <= req, "C43", "emitted-beyond-requested", req, e.m.seq)
            /\ Check(e.m.id = e.m.seq, "C42", "sequenced-in-production-order", e.m.seq, e.m.id)
            /\ UNCHANGED <<conf, req, dconf>>
       [] e.e = "send" /\ e.m.t = "BufFull" ->
            /\ Bad("C43", "buffer-overflow-drop", W, e.m.seq)
            /\ UNCHANGED <<conf, req, dconf>>
       [] e.e = "send" /\ e.m.t = "DConf" ->
            /\ Check(e.m.id <= conf, "C42", "confirmed-to-producer-before-consumer-confirmed", conf, e.m.id)
            /\ Check(\A i \in 1..Len(dconf) : dconf[i] # e.m.id, "C42", "confirmed-to-producer-twice", e.m.id, 0)
            /\ dconf' = Append(dconf, e.m.id)
            /\ UNCHANGED <<conf, req>>
       [] e.e = "end" /\ e.who = "cc" ->
            /\ Check(Len(e.st.buf) <= W, "C43", "buffer-exceeds-window", W, Len(e.st.buf))
            /\ Check(~e.st.failed, "C42", "consumer-controller-failed-the-flow", 0, 0)
            /\ UNCHANGED <<conf, req, dconf>>
       [] e.e = "end" /\ e.who = "pc" ->
            /\ Check(~e.st.failed, "C42", "producer-controller-failed-the-flow", 0, 0)
            /\ UNCHANGED <<conf, req, dconf>>
       [] e.e = "fin" ->
            /\ Check(e.done \/ e.free, "C42", "not-every-produced-message-confirmed", e.produced, conf)
            /\ Check(~e.done \/ (conf = e.produced /\ Len(dconf) = e.produced), "C42", "confirmation-count", e.produced, Len(dconf))
            /\ UNCHANGED <<conf, req, dconf>>
       [] OTHER -> UNCHANGED <<conf, req, dconf>>
Spec == Init /\ [][Step]_mvars
====
