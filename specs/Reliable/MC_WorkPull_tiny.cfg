SPECIFICATION Spec
CONSTANTS
  W = 1
  N = 2
  MaxWin = 10000
  Workers = {"w1", "w2"}
  Initial <- Init1
  Leavers = {"w1"}
  F = 1
  TP = 0
  TC = 1
  TG = 0
  QuietTicks = FALSE
VIEW View
INVARIANTS JobConservation ConfirmedOnce NoFailure Bindings SubFlows
PROPERTIES NeverIllegal DeliveryOrder
