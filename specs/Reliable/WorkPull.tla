------------------------------ MODULE WorkPull ------------------------------
(* Work-pulling reliable delivery of goakt: one work-pulling producer controller     *)
(* (RDWorkPull) and a changing set of workers, each running the unchanged consumer    *)
(* controller (RDConsumer) behind its own faulty network leg.                         *)
(*   P <-> WP                local, FIFO, reliable (fromP; P answers at once)         *)
(*   WP <-> CC[w]            network: bags c2p[w] / p2c[w], Drop / Dup / reordering   *)
(*   CC[w] <-> C[w]          local, FIFO, reliable (fromC[w]; C[w] confirms at once)  *)
(* Join(w): the worker endpoint is spawned (its controller registers at once).        *)
(* Leave(w): the worker endpoint is shut down; the death watch tells WP, which ends   *)
(* the binding in the same step (the harness cannot hold a Terminated back; the       *)
(* window between the two is exercised by the free-running executions).  Messages in  *)
(* flight from / to a dead worker are inert (WP drops traffic of an ended binding,    *)
(* authentication of a dead sender fails, a dead controller receives nothing), so     *)
(* Leave discards them.  Job ids are the production index 1..N.                       *)
EXTENDS RDWorkPull, RDConsumer, RDEndpoints, Bags

CONSTANTS F,          \* fault budget (Drop + Dup on the network legs)
          TP, TC,     \* tick budgets: WP controller / all worker controllers together
          TG,         \* how often a gap-request rate limit may expire
          Initial,    \* sequence of workers present from the start (spawn order)
          Leavers,    \* workers that may stop
          QuietTicks  \* TRUE: timers fire only when nothing is in flight and work remains

VARIABLES wp,         \* work-pulling producer controller
          cc,         \* [Workers -> consumer controller state]
          life,       \* [Workers -> {"no", "up", "dead"}]
          c2p, p2c,   \* [Workers -> bag]
          fromP,      \* FIFO P -> WP
          fromC,      \* [Workers -> FIFO C[w] -> CC[w]]
          env,        \* endpoints: producer (as in RDEndpoints) + hand[k] = workers handed job k
          bud,        \* budgets used [f, tp, tc, g]
          last, outs  \* output only

vars == <<wp, cc, life, c2p, p2c, fromP, fromC, env, bud, last, outs>>
core == <<wp, cc, life, c2p, p2c, fromP, fromC, env, bud>>

BagOf(s) == LET rng == {s[i] : i \in 1..Len(s)}
            IN [x \in rng |-> Cardinality({i \in 1..Len(s) : s[i] = x})]
One(m) == SetToBag({m})
OnlyW(out, to, w) == SelectSeq(out, LAMBDA o : o.to = to /\ o.w = w)
MsgsW(out, to, w) == LET s == OnlyW(out, to, w) IN [i \in 1..Len(s) |-> s[i].m]

WEnv0 == [produced |-> 0, lastTok |-> 0, lastProd |-> NoMsg, dconf |-> [k \in 1..N |-> 0],
          hand |-> [k \in 1..N |-> {}]]

\* the producer endpoint reacts at once (see P2P.tla for why this loses nothing)
RECURSIVE PReact(_, _, _)
PReact(e, ms, acc) ==
  IF ms = <<>> THEN [st |-> e, out |-> acc]
  ELSE LET r == PHandle(e, Head(ms)) IN PReact(r.st, Tail(ms), acc \o Msgs(r.out, "pc"))

RECURSIVE CReact(_, _)
CReact(ms, acc) == IF ms = <<>> THEN acc ELSE CReact(Tail(ms), acc \o Msgs(CHandle(Head(ms)), "cc"))

RECURSIVE Handed(_, _, _)
Handed(hand, ms, w) ==
  IF ms = <<>> THEN hand
  ELSE Handed(IF Head(ms).id \in 1..N THEN [hand EXCEPT ![Head(ms).id] = @ \cup {w}] ELSE hand, Tail(ms), w)

\* spawn worker w: PostStart registers with the (existing) producer controller
Spawned(c, w) == CCOnPostStart(CC0, TRUE)

RECURSIVE InitJoin(_, _, _)
InitJoin(ws, ccs, chans) ==       \* all Initial workers spawned before anything else happens
  IF ws = <<>> THEN [cc |-> ccs, c2p |-> chans]
  ELSE LET r == CCOnPostStart(CC0, TRUE)
       IN InitJoin(Tail(ws), [ccs EXCEPT ![Head(ws)] = r.st],
                   [chans EXCEPT ![Head(ws)] = BagOf(Msgs(r.out, "pc"))])

Init ==
  /\ wp = WP0
  /\ LET j == InitJoin(Initial, [w \in Workers |-> CC0], [w \in Workers |-> EmptyBag])
     IN cc = j.cc /\ c2p = j.c2p
  /\ life = [w \in Workers |-> IF \E i \in 1..Len(Initial) : Initial[i] = w THEN "up" ELSE "no"]
  /\ p2c = [w \in Workers |-> EmptyBag]
  /\ fromP = <<>>
  /\ fromC = [w \in Workers |-> <<>>]
  /\ env = WEnv0
  /\ bud = [f |-> 0, tp |-> 0, tc |-> 0, g |-> 0]
  /\ last = [a |-> "Init", w |-> "", m |-> NoMsg]
  /\ outs = <<>>

\* one step of WP on message m from / about worker w
WPStep(w, m, fromP0) ==
  LET r == WPHandle(wp, w, m, w # "" /\ life[w] = "up")
      p == PReact(env, Msgs(r.out, "p"), <<>>)
  IN /\ wp' = r.st
     /\ p2c' = [x \in Workers |-> p2c[x] (+) BagOf(MsgsW(r.out, "cc", x))]
     /\ env' = [p.st EXCEPT !.hand = env.hand]
     /\ fromP' = fromP0 \o p.out
     /\ outs' = r.out

\* see P2P.tla: canonical nonces in the liveness configuration
Canon(r, ownNonce, peerNonce) ==
  IF ~QuietTicks \/ r.st.nonce = ownNonce THEN r
  ELSE LET k == CHOOSE k \in 1..3 : k # ownNonce /\ k # peerNonce
       IN [st |-> [r.st EXCEPT !.nonce = k, !.nonceCtr = k],
           out |-> [i \in 1..Len(r.out) |-> IF r.out[i].m.t = "Register" THEN [r.out[i] EXCEPT !.m.n = k] ELSE r.out[i]]]

CCStep(w, m, fromCw) ==
  LET r == Canon(CCHandle(cc[w], m), cc[w].nonce, wp.b[w].nonce)
      toC == Msgs(r.out, "c")
  IN /\ cc' = [cc EXCEPT ![w] = r.st]
     /\ c2p' = [c2p EXCEPT ![w] = @ (+) BagOf(Msgs(r.out, "pc"))]
     /\ fromC' = [fromC EXCEPT ![w] = fromCw \o CReact(toC, <<>>)]
     /\ env' = [env EXCEPT !.hand = Handed(@, toC, w)]
     /\ outs' = r.out

AllDone == \A k \in 1..N : env.dconf[k] = 1
Quiet == /\ fromP = <<>>
         /\ \A w \in Workers : c2p[w] = EmptyBag /\ p2c[w] = EmptyBag /\ fromC[w] = <<>>
TimerGate == QuietTicks => (Quiet /\ ~AllDone)

PCRecvNet(w, m) ==
  /\ ~wp.failed /\ BagIn(m, c2p[w])
  /\ c2p' = [c2p EXCEPT ![w] = @ (-) One(m)]
  /\ WPStep(w, m, fromP)
  /\ last' = [a |-> "PCRecvNet", w |-> w, m |-> m]
  /\ UNCHANGED <<cc, life, fromC, bud>>

PCRecvLocal ==
  /\ ~wp.failed /\ fromP # <<>>
  /\ WPStep("", Head(fromP), Tail(fromP))
  /\ last' = [a |-> "PCRecvLocal", w |-> "", m |-> Head(fromP)]
  /\ UNCHANGED <<cc, life, c2p, fromC, bud>>

TickPC ==
  /\ ~wp.failed /\ (QuietTicks \/ bud.tp < TP) /\ TimerGate
  /\ bud' = IF QuietTicks THEN bud ELSE [bud EXCEPT !.tp = @ + 1]
  /\ WPStep("", Tick, fromP)
  /\ last' = [a |-> "TickPC", w |-> "", m |-> Tick]
  /\ UNCHANGED <<cc, life, c2p, fromC>>

CCRecvNet(w, m) ==
  /\ life[w] = "up" /\ ~cc[w].failed /\ BagIn(m, p2c[w])
  /\ p2c' = [p2c EXCEPT ![w] = @ (-) One(m)]
  /\ CCStep(w, m, fromC[w])
  /\ last' = [a |-> "CCRecvNet", w |-> w, m |-> m]
  /\ UNCHANGED <<wp, life, fromP, bud>>

CCRecvLocal(w) ==
  /\ life[w] = "up" /\ ~cc[w].failed /\ fromC[w] # <<>>
  /\ CCStep(w, Head(fromC[w]), Tail(fromC[w]))
  /\ last' = [a |-> "CCRecvLocal", w |-> w, m |-> Head(fromC[w])]
  /\ UNCHANGED <<wp, life, p2c, fromP, bud>>

TickCC(w) ==
  /\ life[w] = "up" /\ ~cc[w].failed /\ (QuietTicks \/ bud.tc < TC) /\ TimerGate
  /\ bud' = IF QuietTicks THEN bud ELSE [bud EXCEPT !.tc = @ + 1]
  /\ CCStep(w, Tick, fromC[w])
  /\ last' = [a |-> "TickCC", w |-> w, m |-> Tick]
  /\ UNCHANGED <<wp, life, p2c, fromP>>

ElapseGap(w) ==
  /\ life[w] = "up" /\ cc[w].gapLim /\ (QuietTicks \/ bud.g < TG) /\ TimerGate
  /\ bud' = IF QuietTicks THEN bud ELSE [bud EXCEPT !.g = @ + 1]
  /\ cc' = [cc EXCEPT ![w].gapLim = FALSE]
  /\ last' = [a |-> "ElapseGap", w |-> w, m |-> NoMsg] /\ outs' = <<>>
  /\ UNCHANGED <<wp, life, c2p, p2c, fromP, fromC, env>>

Join(w) ==
  /\ life[w] = "no" /\ ~wp.failed
  /\ LET r == CCOnPostStart(CC0, TRUE)
     IN /\ cc' = [cc EXCEPT ![w] = r.st]
        /\ c2p' = [c2p EXCEPT ![w] = BagOf(Msgs(r.out, "pc"))]
        /\ outs' = r.out
  /\ life' = [life EXCEPT ![w] = "up"]
  /\ last' = [a |-> "Join", w |-> w, m |-> NoMsg]
  /\ UNCHANGED <<wp, p2c, fromP, fromC, env, bud>>

Leave(w) ==
  /\ life[w] = "up" /\ w \in Leavers /\ ~wp.failed
  /\ \E v \in Workers : v # w /\ life[v] # "dead"      \* somebody is left to do the work
  /\ life' = [life EXCEPT ![w] = "dead"]
  /\ c2p' = [c2p EXCEPT ![w] = EmptyBag]
  /\ fromC' = [fromC EXCEPT ![w] = <<>>]
  /\ LET r == WPHandle(wp, w, [t |-> "Terminated"], FALSE)
         p == PReact(env, Msgs(r.out, "p"), <<>>)
     IN /\ wp' = r.st
        /\ p2c' = [x \in Workers |-> IF x = w THEN EmptyBag ELSE p2c[x] (+) BagOf(MsgsW(r.out, "cc", x))]
        /\ env' = [p.st EXCEPT !.hand = env.hand]
        /\ fromP' = fromP \o p.out
        /\ outs' = r.out
  /\ last' = [a |-> "Leave", w |-> w, m |-> NoMsg]
  /\ UNCHANGED <<cc, bud>>

Drop(w, m) ==
  /\ bud.f < F /\ life[w] = "up"
  /\ bud' = [bud EXCEPT !.f = @ + 1]
  /\ \/ BagIn(m, c2p[w]) /\ m.t \in {"Register", "Request", "Ack"}
        /\ c2p' = [c2p EXCEPT ![w] = @ (-) One(m)] /\ UNCHANGED p2c
     \/ BagIn(m, p2c[w]) /\ m.t \in {"RegAck", "Seq"}
        /\ p2c' = [p2c EXCEPT ![w] = @ (-) One(m)] /\ UNCHANGED c2p
  /\ last' = [a |-> "Drop", w |-> w, m |-> m] /\ outs' = <<>>
  /\ UNCHANGED <<wp, cc, life, fromP, fromC, env>>

Dup(w, m) ==
  /\ bud.f < F /\ life[w] = "up"
  /\ bud' = [bud EXCEPT !.f = @ + 1]
  /\ \/ BagIn(m, c2p[w]) /\ m.t \in {"Register", "Request", "Ack"}
        /\ c2p' = [c2p EXCEPT ![w] = @ (+) One(m)] /\ UNCHANGED p2c
     \/ BagIn(m, p2c[w]) /\ m.t \in {"RegAck", "Seq"}
        /\ p2c' = [p2c EXCEPT ![w] = @ (+) One(m)] /\ UNCHANGED c2p
  /\ last' = [a |-> "Dup", w |-> w, m |-> m] /\ outs' = <<>>
  /\ UNCHANGED <<wp, cc, life, fromP, fromC, env>>

Next ==
  \/ \E w \in Workers :
       \/ \E m \in BagToSet(c2p[w]) : PCRecvNet(w, m) \/ Drop(w, m) \/ Dup(w, m)
       \/ \E m \in BagToSet(p2c[w]) : CCRecvNet(w, m) \/ Drop(w, m) \/ Dup(w, m)
       \/ CCRecvLocal(w) \/ TickCC(w) \/ ElapseGap(w) \/ Join(w) \/ Leave(w)
  \/ PCRecvLocal \/ TickPC

Spec == Init /\ [][Next]_vars

(* ------------------------------------------------------------------------------ *)
(* Properties (C44)                                                                *)
(* ------------------------------------------------------------------------------ *)
RECURSIVE CountIn(_, _)
CountIn(s, k) == IF s = <<>> THEN 0 ELSE (IF Head(s).id = k THEN 1 ELSE 0) + CountIn(Tail(s), k)
RECURSIVE SumUnc(_, _)
SumUnc(S, k) == IF S = {} THEN 0 ELSE LET w == CHOOSE x \in S : TRUE IN CountIn(wp.b[w].unc, k) + SumUnc(S \ {w}, k)
Holders(k) == CountIn(wp.pend, k) + SumUnc(Workers, k) + env.dconf[k]

\* every accepted job is in exactly one place: the pool, one worker's unconfirmed list,
\* or already confirmed to the producer; nothing else is anywhere
JobConservation ==
  \A k \in 1..N : Holders(k) = IF k <= wp.lastId THEN 1 ELSE 0
\* producer-visible confirmation: at most once, and only for a job some worker was handed
ConfirmedOnce == \A k \in 1..N : env.dconf[k] <= 1 /\ (env.dconf[k] = 1 => env.hand[k] # {})
NoFailure == ~wp.failed /\ \A w \in Workers : ~cc[w].failed
NeverIllegal == [][\A i \in 1..Len(outs') : outs'[i].m.t # "Illegal"]_vars
\* each binding is a healthy point-to-point sub-flow
Bindings ==
  \A w \in Workers :
    LET b == wp.b[w] IN
    /\ b.on => /\ life[w] = "up"
               /\ Len(b.unc) = b.cur - b.conf
               /\ \A i \in 1..Len(b.unc) : b.unc[i].seq = b.conf + i
               /\ cc[w].sess = 1 => b.conf <= cc[w].conf /\ cc[w].conf <= b.cur
    /\ (\E i \in 1..Len(wp.ord) : wp.ord[i] = w) <=> b.on
    /\ \A m \in BagToSet(p2c[w]) : m.t = "Seq" => m.seq <= cc[w].upTo
SubFlows ==
  \A w \in Workers :
    /\ cc[w].exp = cc[w].conf + 1
    /\ cc[w].inf.seq # 0 => cc[w].inf.seq = cc[w].exp
    /\ Len(cc[w].buf) <= W
DeliveryOrder ==
  [][\A w \in Workers : \A i \in 1..Len(outs') :
        (last'.w = w /\ outs'[i].m.t = "Delivery") => outs'[i].m.seq = cc'[w].conf + 1]_vars

\* liveness: with fair handling and timers, every job is eventually confirmed as long as
\* some worker stays
Fair ==
  /\ WF_vars(PCRecvLocal)
  /\ \A w \in Workers :
       /\ WF_vars(CCRecvLocal(w))
       /\ WF_vars(\E m \in BagToSet(c2p[w]) : PCRecvNet(w, m))
       /\ WF_vars(\E m \in BagToSet(p2c[w]) : CCRecvNet(w, m))
       /\ SF_vars(TickCC(w)) /\ SF_vars(ElapseGap(w))
       /\ WF_vars(Join(w))                 \* a worker that is going to join does join
  /\ SF_vars(TickPC)
LiveSpec == Init /\ [][Next]_vars /\ Fair
EventuallyAllDone == <>AllDone
=============================================================================
