SPECIFICATION GSpec
CONSTANTS
  W = 2
  N = 3
  Chunks <- Ch212
  MaxWin = 10000
  F = 2
  TP = 2
  TC = 6
  TG = 1
  Orders = {"pc", "cp"}
  QuietTicks = FALSE
  Defects = {}
  Depth = 34
  Dice = 3
CONSTRAINT Emit
