SPECIFICATION Spec
CONSTANTS
  Workers = {"w1", "w2", "w3"}
CHECK_DEADLOCK FALSE
