---- MODULE Gen_P2PCh ----
(* Behaviour generator for P2PCh (chunking on): carries the history of (action, message, predicted   *)
(* controller states, predicted sends) and prints it as JSON when a walk reaches      *)
(* Depth.  The histories are executed step by step on the real controllers by         *)
(* harness/cmd/reliable (p2p-replay).                                                 *)
EXTENDS P2PCh, Json
CONSTANTS Depth,
          Dice      \* random walks: a fault step is kept with probability 1/Dice (spreads faults over the walk); 1 = always
VARIABLE hist
Rec(a, m, p, c, o) == [a |-> a, m |-> m, pc |-> p, cc |-> c, out |-> o]
GInit == Init /\ hist = <<Rec(last.a, last.m, pc, cc, outs)>>
FaultGate == (last'.a \in {"Drop", "Dup"} /\ Dice > 1) => RandomElement(1..Dice) = 1
GNext == Next /\ FaultGate /\ hist' = Append(hist, Rec(last'.a, last'.m, pc', cc', outs'))
GSpec == GInit /\ [][GNext]_<<vars, hist>>
Emit == (Len(hist) < Depth) \/ (PrintT(<<"BEHAVIOUR", ToJson(hist)>>) /\ FALSE)
Ch21 == <<2, 1>>
Ch12 == <<1, 2>>
Ch22 == <<2, 2>>
Ch212 == <<2, 1, 2>>
Ch121 == <<1, 2, 1>>
Ch132 == <<1, 3, 2>>
Ch321 == <<3, 2, 1>>
Ch2132 == <<2, 1, 3, 2>>
====
