----------------------------- MODULE RDProducerCh ---------------------------
(* actor/reliable_delivery_producer_controller.go, volatile path (no durable queue),  *)
(* one session (no controller restart), WITH chunking (WithReliableChunking): a        *)
(* Produced whose encoded frame needs c > 1 chunks is stored as c unconfirmed entries  *)
(* under contiguous sequences (storeChunks); Stored / DeliveryConfirmed carry the last *)
(* chunk's sequence.  Entries and SequencedMessages carry the chunk mark               *)
(* [ch, first, last]; a whole message has the zero mark.  RDProducer is this module    *)
(* with every c = 1.                                                                   *)
EXTENDS RDCommon
CONSTANTS MaxWin,   \* MaxReliableFlowControlWindow
          Defects   \* named deviations from the repaired design; {} = the code as it is now
                    \*   "RegisterRaisesDemand": (re-)registration sets demandUpTo := currentSeq even when
                    \*   that is above the demand (possible with a chunked message straddling the
                    \*   demand boundary); repaired in goakt by taking the minimum (known_findings.d)

(* ------------------------------------------------------------------------------ *)
(* Producer controller                                                             *)
(* ------------------------------------------------------------------------------ *)
PC0 == [cur |-> 0, conf |-> 0, unc |-> <<>>, reg |-> FALSE, nonce |-> 0, dem |-> 0,
        hs |-> HsIdle, tok |-> 0, tokCtr |-> 0, pid |-> 0, pseq |-> 0, pn |-> 0, span |-> 0,
        lastTok |-> 0, lastId |-> 0, failed |-> FALSE]

Whole == [ch |-> FALSE, first |-> FALSE, last |-> FALSE]
Entry(seq, id, mk) == [seq |-> seq, id |-> id, ch |-> mk.ch, first |-> mk.first, last |-> mk.last]

PCFail(r) == [r EXCEPT !.st.failed = TRUE]          \* terminate: publish failure, Shutdown

\* emitSequenced: never above the granted demand, only to a registered consumer
PCEmit(r, e) ==
  IF ~r.st.reg \/ e.seq > r.st.dem THEN r
  ELSE Send(r, "cc", [t |-> "Seq", seq |-> e.seq, id |-> e.id, ch |-> e.ch, first |-> e.first, last |-> e.last])

PCSendRequestNext(r) == Send(r, "p", [t |-> "ReqNext", tok |-> r.st.tok])

\* allowNextRequest
PCAllowNext(r) ==
  IF r.st.hs # HsIdle \/ r.st.cur >= r.st.dem THEN r
  ELSE PCSendRequestNext([r EXCEPT !.st.hs = HsCredit, !.st.tok = r.st.tokCtr + 1, !.st.tokCtr = r.st.tokCtr + 1])

\* advanceConfirmed (+ sendConfirmation: the endpoint asked for DeliveryConfirmed)
RECURSIVE PCConfirmEach(_, _, _)
PCConfirmEach(r, unc, i) ==
  IF i > Len(unc) THEN r
  ELSE PCConfirmEach(IF ~unc[i].ch \/ unc[i].last                 \* notifiesConfirmation
                     THEN Send(r, "p", [t |-> "DConf", id |-> unc[i].id, seq |-> unc[i].seq])
                     ELSE r, unc, i + 1)

PCAdvance(r, c) ==
  IF c <= r.st.conf THEN r
  ELSE LET unc == r.st.unc
           cut == CHOOSE k \in 0..Len(unc) :
                    /\ \A i \in 1..k : unc[i].seq <= c
                    /\ k = Len(unc) \/ unc[k + 1].seq > c
           r1  == [r EXCEPT !.st.conf = c]
           r2  == PCConfirmEach(r1, SubSeq(unc, 1, cut), 1)
       IN [r2 EXCEPT !.st.unc = SubSeq(unc, cut + 1, Len(unc))]

\* resendUnconfirmed
RECURSIVE PCResendFrom(_, _, _)
PCResendFrom(r, i, limit) ==
  IF i > Len(r.st.unc) \/ r.st.unc[i].seq > limit THEN r
  ELSE PCResendFrom(PCEmit(r, r.st.unc[i]), i + 1, limit)
PCResend(r) == PCResendFrom(r, 1, Min(r.st.cur, r.st.dem))

\* handleRegisterConsumer (the sender is the resolved consumer companion: one consumer)
PCOnRegister(st, m) ==
  LET r1 == IF ~st.reg \/ st.nonce # m.n
            THEN R0([st EXCEPT !.reg = TRUE, !.nonce = m.n,
                           !.dem = IF "RegisterRaisesDemand" \in Defects THEN st.cur ELSE Min(st.dem, st.cur)])
            ELSE R0(st)
  IN Send(r1, "cc", [t |-> "RegAck", n |-> r1.st.nonce, next |-> r1.st.conf + 1])

\* fromRegisteredConsumer
PCFromRegistered(st, m) == st.reg /\ m.n = st.nonce

\* handleRequest
PCOnRequest(st, m) ==
  IF ~PCFromRegistered(st, m) THEN R0(st)
  ELSE IF m.conf < 0 \/ m.conf > st.cur \/ m.upTo < m.conf \/ m.upTo > m.conf + MaxWin
  THEN PCFail(R0(st))
  ELSE LET r1 == PCAdvance(R0(st), m.conf)
           r2 == [r1 EXCEPT !.st.dem = m.upTo, !.st.span = m.upTo - m.conf]
           r3 == IF m.via THEN PCResend(r2) ELSE r2
       IN PCAllowNext(r3)

\* handleAck
PCOnAck(st, m) ==
  IF ~PCFromRegistered(st, m) THEN R0(st)
  ELSE IF m.conf < 0 \/ m.conf > st.cur THEN PCFail(R0(st))
  ELSE PCAdvance(R0(st), m.conf)

\* replyStored
PCReplyStored(r) ==
  Send([r EXCEPT !.st.hs = HsStoredAck], "p",
       [t |-> "Stored", tok |-> r.st.tok, id |-> r.st.pid, seq |-> r.st.pseq])

\* handleProduced -> startStore -> completeStore -> replyStored (volatile: synchronous)
PCOnProduced(st, m) ==
  IF st.hs # HsIdle /\ st.hs # HsCredit /\ m.tok = st.tok /\ m.id = st.pid THEN R0(st)
  ELSE IF m.tok = st.lastTok /\ m.id = st.lastId THEN R0(st)
  ELSE IF st.hs # HsCredit THEN PCFail(R0(st))
  ELSE IF m.tok # st.tok THEN PCFail(R0(st))
  ELSE IF m.c > 1
  THEN \* storeChunks: the window bound is terminal (the consumer confirms nothing mid-message)
       IF m.c > st.span THEN PCFail(R0([st EXCEPT !.hs = 2, !.pid = m.id]))
       ELSE LET chunks == [i \in 1..m.c |-> Entry(st.cur + i, m.id, [ch |-> TRUE, first |-> i = 1, last |-> i = m.c])]
            IN PCReplyStored(R0([st EXCEPT !.pid = m.id, !.pn = m.c, !.pseq = st.cur + m.c, !.cur = st.cur + m.c,
                                           !.unc = @ \o chunks]))
  ELSE LET seq == st.cur + 1
       IN PCReplyStored(R0([st EXCEPT !.pid = m.id, !.pseq = seq, !.cur = seq,
                                      !.unc = Append(@, Entry(seq, m.id, Whole))]))

\* completeAccept for a chunked message: every pending chunk, each under the demand check
\* (pendingChunks = the entries pseq-pn+1 .. pseq, kept even if already confirmed meanwhile)
RECURSIVE PCEmitChunks(_, _)
PCEmitChunks(r, i) ==
  LET n == r.st.pn IN
  IF i > n THEN r
  ELSE PCEmitChunks(PCEmit(r, Entry(r.st.pseq - n + i, r.st.pid, [ch |-> TRUE, first |-> i = 1, last |-> i = n])), i + 1)

\* handleStoredAck -> startAccept -> completeAccept (volatile: synchronous)
PCOnStoredAck(st, m) ==
  IF st.hs = HsStoredAck /\ m.tok = st.tok /\ m.id = st.pid
  THEN LET r1 == IF st.pn > 0 THEN PCEmitChunks(R0(st), 1)
                 ELSE PCEmit(R0(st), Entry(st.pseq, st.pid, Whole))
           r2 == [r1 EXCEPT !.st.lastTok = st.tok, !.st.lastId = st.pid,
                            !.st.hs = HsIdle, !.st.tok = 0, !.st.pid = 0, !.st.pseq = 0, !.st.pn = 0]
       IN PCAllowNext(r2)
  ELSE IF m.tok = st.lastTok /\ m.id = st.lastId THEN R0(st)
  ELSE PCFail(R0(st))

\* handleTick
PCOnTick(st) ==
  IF st.hs = HsCredit THEN PCSendRequestNext(R0(st))
  ELSE IF st.hs = HsStoredAck
  THEN Send(R0(st), "p", [t |-> "Stored", tok |-> st.tok, id |-> st.pid, seq |-> st.pseq])
  ELSE R0(st)

PCHandle(st, m) ==
  CASE m.t = "Register"  -> PCOnRegister(st, m)
    [] m.t = "Request"   -> PCOnRequest(st, m)
    [] m.t = "Ack"       -> PCOnAck(st, m)
    [] m.t = "Produced"  -> PCOnProduced(st, m)
    [] m.t = "StoredAck" -> PCOnStoredAck(st, m)
    [] m.t = "Tick"      -> PCOnTick(st)
    [] m.t = "PostStart" -> R0(st)        \* watch the producer, schedule the tick

=============================================================================
