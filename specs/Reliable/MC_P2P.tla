---- MODULE MC_P2P ----
EXTENDS P2P
View == core
\* the liveness configuration has no tick budgets: hide the counters
LiveView == core
====
