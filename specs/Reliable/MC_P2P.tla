---- MODULE MC_P2P ----
EXTENDS P2P
View == core
\* the liveness configuration has no tick budgets: hide the counters
LiveView == <<pc, cc, c2p, p2c, fromP, fromC, env, bud.f>>
====
