SPECIFICATION LiveSpec
CONSTANTS
  W = 2
  N = 2
  MaxWin = 10000
  F = 1
  TP = 1000
  TC = 1000
  TG = 1000
  Orders = {"pc", "cp"}
  QuietTicks = TRUE
  Defects = {}
VIEW LiveView
INVARIANTS InFlightIsNext Watermarks NoFailure
PROPERTIES EventuallyAllConfirmed
