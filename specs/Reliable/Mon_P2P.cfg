SPECIFICATION Spec
CONSTANTS
  W = 2
CHECK_DEADLOCK FALSE
