----------------------------- MODULE RDConsumer -----------------------------
(* actor/reliable_delivery_consumer_controller.go, whole messages (no chunk runs),    *)
(* one producer session.  gapLim abstracts  now - lastGapRequest < resendInterval.    *)
EXTENDS RDCommon
CONSTANTS W         \* flow-control window (WithReliableFlowControlWindow)

(* ------------------------------------------------------------------------------ *)
(* Consumer controller                                                             *)
(* ------------------------------------------------------------------------------ *)
CC0 == [res |-> FALSE, sess |-> 0, nonce |-> 0, nonceCtr |-> 0, exp |-> 1, conf |-> 0, upTo |-> 0,
        buf |-> <<>>, inf |-> NoInf, saw |-> FALSE, gapLim |-> FALSE, failed |-> FALSE]

\* register: resolve the producer companion, fresh nonce
CCRegister(r) ==
  LET n == r.st.nonceCtr + 1
  IN Send([r EXCEPT !.st.res = TRUE, !.st.nonce = n, !.st.nonceCtr = n], "pc", [t |-> "Register", n |-> n])

\* sendRequest
CCSendRequest(r, via) ==
  IF ~r.st.res \/ r.st.sess = 0 THEN r
  ELSE LET upTo == r.st.conf + W
       IN Send([r EXCEPT !.st.upTo = upTo], "pc",
               [t |-> "Request", n |-> r.st.nonce, conf |-> r.st.conf, upTo |-> upTo, via |-> via])

\* sendAck
CCSendAck(r) ==
  IF ~r.st.res \/ r.st.sess = 0 THEN r
  ELSE Send(r, "pc", [t |-> "Ack", n |-> r.st.nonce, conf |-> r.st.conf])

\* gapOpen
CCGapOpen(st) ==
  /\ Len(st.buf) > 0
  /\ st.buf[1].seq > (IF st.inf.seq # 0 THEN st.inf.seq + 1 ELSE st.exp)

\* solicitGapRequest / sendGapRequest (rate limit: one per resend interval)
CCSolicit(r) == CCSendRequest([r EXCEPT !.st.gapLim = TRUE], TRUE)
CCSendGapRequest(r) == IF r.st.gapLim THEN r ELSE CCSolicit(r)

\* deliver / deliverFrame
CCDeliver(r, e) == Send([r EXCEPT !.st.inf = e], "c", [t |-> "Delivery", seq |-> e.seq, id |-> e.id])

\* bufferMessage
CCBuffer(r, e) ==
  LET buf == r.st.buf
      found == \E i \in 1..Len(buf) : buf[i].seq = e.seq
      idx == Cardinality({i \in 1..Len(buf) : buf[i].seq < e.seq})
      r1 == IF found THEN r
            ELSE IF Len(buf) >= W THEN Send(r, "obs", [t |-> "BufFull", seq |-> e.seq])
            ELSE [r EXCEPT !.st.buf = SubSeq(buf, 1, idx) \o <<e>> \o SubSeq(buf, idx + 1, Len(buf))]
  IN IF CCGapOpen(r1.st) THEN CCSendGapRequest(r1) ELSE r1

\* drain
CCDrain(r) ==
  IF r.st.inf.seq # 0 \/ Len(r.st.buf) = 0 \/ r.st.buf[1].seq # r.st.exp THEN r
  ELSE CCDeliver([r EXCEPT !.st.buf = Tail(@)], r.st.buf[1])

\* purgeBuffer
CCPurge(r) ==
  LET buf == r.st.buf
      cut == CHOOSE k \in 0..Len(buf) :
               /\ \A i \in 1..k : buf[i].seq < r.st.exp
               /\ k = Len(buf) \/ ~(buf[k + 1].seq < r.st.exp)
  IN [r EXCEPT !.st.buf = SubSeq(buf, cut + 1, Len(buf))]

\* batchConfirmation
CCBatch(r) ==
  IF r.st.upTo - r.st.conf <= (W \div 2) THEN CCSendRequest(r, FALSE)
  ELSE IF Len(r.st.buf) = 0 /\ r.st.inf.seq = 0 THEN CCSendAck(r)
  ELSE r

\* handleRegistrationAck (one producer session, id 1)
CCOnRegAck(st, m) ==
  IF ~st.res \/ m.n # st.nonce THEN R0(st)
  ELSE LET st1 == [st EXCEPT !.saw = TRUE]
           st2 == IF st1.sess # 1
                  THEN [st1 EXCEPT !.sess = 1, !.exp = m.next, !.conf = m.next - 1, !.buf = <<>>, !.inf = NoInf]
                  ELSE st1
       IN CCSendRequest(R0(st2), TRUE)

\* handleSequencedMessage
CCOnSeq(st, m) ==
  IF ~st.res \/ st.sess = 0 THEN R0(st)
  ELSE LET r == R0([st EXCEPT !.saw = TRUE])
           e == [seq |-> m.seq, id |-> m.id]
       IN IF m.seq < 1 \/ m.seq > st.upTo THEN r
          ELSE IF m.seq < st.exp THEN CCSendAck(r)
          ELSE IF m.seq = st.exp /\ st.inf.seq = 0 THEN CCDeliver(r, e)
          ELSE IF st.inf.seq # 0 /\ m.seq = st.inf.seq THEN r
          ELSE CCDrain(CCBuffer(r, e))

\* handleConfirmed
CCOnConfirmed(st, m) ==
  IF st.inf.seq = 0 \/ m.id # st.inf.id \/ m.seq # st.inf.seq THEN R0(st)
  ELSE LET r1 == R0([st EXCEPT !.conf = st.inf.seq, !.exp = st.inf.seq + 1, !.inf = NoInf])
           r2 == CCDrain(CCBatch(CCPurge(r1)))
       IN IF CCGapOpen(r2.st) THEN CCSolicit(r2) ELSE r2

\* handleTick: exactly one recovery rule
CCOnTick(st) ==
  LET r == R0(st)
      r1 == IF st.sess = 0 \/ ~st.saw THEN CCRegister(r)
            ELSE IF st.inf.seq # 0 THEN Send(r, "c", [t |-> "Delivery", seq |-> st.inf.seq, id |-> st.inf.id])
            ELSE IF CCGapOpen(st) THEN CCSendGapRequest(r)
            ELSE r
  IN [r1 EXCEPT !.st.saw = FALSE]

\* handlePostStart: register if the producer endpoint already exists
CCOnPostStart(st, producerUp) == IF producerUp THEN CCRegister(R0(st)) ELSE R0(st)

CCHandle(st, m) ==
  CASE m.t = "PostStart" -> CCOnPostStart(st, m.up)
    [] m.t = "RegAck"    -> CCOnRegAck(st, m)
    [] m.t = "Seq"       -> CCOnSeq(st, m)
    [] m.t = "Confirmed" -> CCOnConfirmed(st, m)
    [] m.t = "Tick"      -> CCOnTick(st)

=============================================================================
