SPECIFICATION GSpec
CONSTANTS
  W = 2
  N = 3
  MaxWin = 10000
  F = 2
  TP = 1
  TC = 3
  TG = 1
  Orders = {"pc", "cp"}
  QuietTicks = FALSE
  Defects = {}
  Depth = 30
  Dice = 1
CONSTRAINT Emit
