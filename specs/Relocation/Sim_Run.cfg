SPECIFICATION GSpec
CONSTANTS
  Addrs = {"d1", "d2"}
  Items = {"a1", "a2", "a3"}
  Targets = {"L", "p1", "p2"}
  Peers = {"p1", "p2"}
  MaxLeft = 3
  MinLeft = 3
  Defects = {}
CONSTRAINT Emit
