---- MODULE MC_Run ----
EXTENDS Run
====
