SPECIFICATION Spec
CONSTANTS
  Window = 60
  NFWindow = 10
  MinBackoff = 1
  MaxBackoff = 6
  MaxWaits = {0, 1, 5, 30, 61, 75}
  MaskExps = {0, 3, 9, 35, 1000}
  Outcomes = {"live", "dead", "none", "tmo", "err"}
  J = 0
  JC = 0
  Defects = {}
INVARIANTS TypeOK Budget SleepBudget AttemptWithinCaller DeliverWithinCaller MaskBound AsyncNoBlock RetryableOnGiveUp
