SPECIFICATION Spec
CONSTANTS
  Addrs = {"d1", "d2"}
  Items = {"a1", "a2"}
  Targets = {"L", "p1"}
  MaxLeft = 3
  Defects = {}
INVARIANTS OneWorker OncePerDeparture Exclusive OneFailedEvent Accounted
PROPERTY Completes
