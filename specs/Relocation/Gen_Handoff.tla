---- MODULE Gen_Handoff ----
(* Behaviour generator for C35: a behaviour is the environment of one call - API, caller     *)
(* timeout, mask expiry, the registry's answer at every resolution and what the delivery     *)
(* does - together with the model's prediction under exact timing (J = 0).  BFS prints every *)
(* complete call of the bounded model, -simulate random ones.                                *)
EXTENDS Handoff, Json
VARIABLES outs, dlv, dslow
GInit == Init /\ outs = <<>> /\ dlv = "" /\ dslow = FALSE
GNext == /\ Next
         /\ outs' = IF nres' > nres THEN Append(outs, res') ELSE outs
         /\ dlv' = IF delivered' /\ ~delivered THEN result' ELSE dlv
         /\ dslow' = IF delivered' /\ ~delivered THEN now' > now ELSE dslow
GSpec == GInit /\ [][GNext]_<<vars, outs, dlv, dslow>>
Script == [mode |-> mode, maxWait |-> maxWait, maskExp |-> maskExp, outs |-> outs,
           dlv |-> IF dlv = "dlvtmo" THEN "hang" ELSE IF dlv = "dlverr" THEN "err" ELSE dlv,
           pred |-> result, predT |-> now, predSleeps |-> nsleep]
Emit == \/ pc # "done"
        \/ (dslow /\ dlv # "dlvtmo")   \* a slow successful delivery is not scripted
        \/ (PrintT(<<"BEHAVIOUR", ToJson(Script)>>) /\ FALSE)
====
