SPECIFICATION TSpec
CONSTANTS
  Addrs = {"d1", "d2"}
  Items = {"a1", "a2", "a3"}
  Targets = {"L", "p1", "p2"}
  MaxLeft = 4
  Defects = {}
CHECK_DEADLOCK FALSE
