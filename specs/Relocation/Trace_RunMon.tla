---- MODULE Trace_RunMon ----
(* Property monitor for C33 on recorded departure histories executed on a REAL leader (real      *)
(* NodeLeft handler, relocator, relocation worker, RelocateBatch to real peers).  It knows only  *)
(* the contract:                                                                                 *)
(*   second-relocation-started   a NodeLeft for an address whose relocation is in flight starts  *)
(*                               nothing (no job registered, no RelocationStarted, no worker);   *)
(*   two-workers                 at most one worker of an address runs at a time;                *)
(*   worker-without-job / started-event-without-job   one worker, one RelocationStarted per      *)
(*                               registered relocation;                                          *)
(*   second-failed-event         at most one RelocationFailed event per relocation;              *)
(*   item-on-two-survivors, item-lost, item-placed-and-reported, registry-points-elsewhere       *)
(*                               when the relocation is over every item of the departed node     *)
(*                               runs on exactly one survivor (and the registry says so) or is   *)
(*                               listed in the RelocationFailed event - never both, never neither*)
(*   job-not-released            the relocation job is released exactly once per relocation.     *)
(* Every line is consumed; a failed check prints <<"MISMATCH", line, id, code, a, b>>.           *)
EXTENDS Integers, Sequences, FiniteSets, TLC, Json
CONSTANT Addrs
Trace == ndJsonDeserialize("trace.ndjson")
VARIABLES l, id, inflight, accepted, spawns, running, startev, failev, listed
vars == <<l, id, inflight, accepted, spawns, running, startev, failev, listed>>
Zero == [a \in Addrs |-> 0]
Init == l = 1 /\ id = -1 /\ inflight = {} /\ accepted = Zero /\ spawns = Zero /\ running = Zero /\ startev = Zero /\ failev = Zero
        /\ listed = [a \in Addrs |-> {}]
Chk(c, code, a, b) == IF c THEN TRUE ELSE PrintT(<<"MISMATCH", l, id, code, a, b>>)
Range(s) == {s[i] : i \in 1..Len(s)}
Step ==
  /\ l <= Len(Trace)
  /\ l' = l + 1
  /\ LET e == Trace[l] IN
     CASE e.op = "New" ->
            /\ id' = e.id /\ inflight' = {} /\ accepted' = Zero /\ spawns' = Zero /\ running' = Zero /\ startev' = Zero /\ failev' = Zero
            /\ listed' = [a \in Addrs |-> {}]
       [] e.op = "NodeLeft" ->
            /\ Chk(~(e.res = "started" /\ e.a \in inflight), "second-relocation-started", e.a, e.res)
            /\ inflight' = IF e.res = "started" THEN inflight \cup {e.a} ELSE inflight
            /\ accepted' = IF e.res = "started" THEN [accepted EXCEPT ![e.a] = @ + 1] ELSE accepted
            /\ UNCHANGED <<id, spawns, running, startev, failev, listed>>
       [] e.op = "Spawn" ->
            /\ spawns' = [spawns EXCEPT ![e.a] = @ + 1]
            /\ Chk(spawns'[e.a] <= accepted[e.a], "worker-without-job", e.a, spawns'[e.a])
            /\ UNCHANGED <<id, inflight, accepted, running, startev, failev, listed>>
       [] e.op = "Run" ->
            /\ Chk(running[e.a] = 0, "two-workers", e.a, running[e.a] + 1)
            /\ running' = [running EXCEPT ![e.a] = @ + 1]
            /\ UNCHANGED <<id, inflight, accepted, spawns, startev, failev, listed>>
       [] e.op = "Finish" ->
            /\ running' = [running EXCEPT ![e.a] = IF @ > 0 THEN @ - 1 ELSE 0]
            /\ inflight' = inflight \ {e.a}
            /\ UNCHANGED <<id, accepted, spawns, startev, failev, listed>>
       [] e.op = "Event" ->
            /\ startev' = IF e.kind = "Started" THEN [startev EXCEPT ![e.a] = @ + 1] ELSE startev
            /\ failev' = IF e.kind = "Failed" THEN [failev EXCEPT ![e.a] = @ + 1] ELSE failev
            /\ listed' = IF e.kind = "Failed" THEN [listed EXCEPT ![e.a] = @ \cup Range(e.items)] ELSE listed
            /\ Chk(e.kind # "Started" \/ startev'[e.a] <= accepted[e.a], "started-event-without-job", e.a, startev'[e.a])
            /\ Chk(e.kind # "Failed" \/ failev'[e.a] <= accepted[e.a], "second-failed-event", e.a, failev'[e.a])
            /\ UNCHANGED <<id, inflight, accepted, spawns, running>>
       [] e.op = "Hooks" ->
            /\ Chk(e.spawns <= accepted[e.a] /\ e.runs <= accepted[e.a], "worker-without-job", e.a, e.spawns)
            /\ Chk(e.ends = accepted[e.a], "job-not-released", e.ends, accepted[e.a])
            /\ UNCHANGED <<id, inflight, accepted, spawns, running, startev, failev, listed>>
       [] e.op = "Item" ->
            /\ (IF accepted[e.a] = 0 THEN TRUE ELSE
                 /\ Chk(e.non <= 1, "item-on-two-survivors", e.it, e.non)
                 /\ Chk(e.non >= 1 \/ e.it \in listed[e.a], "item-lost", e.a, e.it)
                 /\ Chk(~(e.non >= 1 /\ e.it \in listed[e.a]), "item-placed-and-reported", e.a, e.it)
                 /\ Chk(e.non # 1 \/ e.reg = e.on[1], "registry-points-elsewhere", e.it, e.reg))
            /\ UNCHANGED <<id, inflight, accepted, spawns, running, startev, failev, listed>>
       [] OTHER -> UNCHANGED <<id, inflight, accepted, spawns, running, startev, failev, listed>>
Spec == Init /\ [][Step]_vars
====
