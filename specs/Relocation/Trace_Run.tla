---- MODULE Trace_Run ----
(* Conformance of the recorded departure histories with Run.tla: every step line must be the     *)
(* design spec's action with the observed outcome; the item lines at the end must agree with the *)
(* model's placement / failure bookkeeping (which items failed and where the others went is      *)
(* chosen at the Relocate line and confirmed there).  Rejection is drift, not a verdict.         *)
EXTENDS Run, Json
Trace == ndJsonDeserialize("trace.ndjson")
VARIABLE l
TInit == Init /\ l = 1
TStep ==
  /\ l <= Len(Trace)
  /\ l' = l + 1
  /\ LET e == Trace[l] IN
     CASE e.op = "New" ->
            /\ jobs' = {} /\ snap' = Addrs /\ mbox' = <<>> /\ wk' = [a \in Addrs |-> <<>>]
            /\ place' = [x \in AI |-> {}] /\ failed' = [x \in AI |-> 0]
            /\ started' = [a \in Addrs |-> 0] /\ fevents' = [a \in Addrs |-> 0] /\ pendf' = [a \in Addrs |-> {}]
            /\ nleft' = [a \in Addrs |-> 0]
       [] e.op = "NodeLeft" -> NodeLeft(e.a) /\ ((e.res = "started") <=> (started'[e.a] = started[e.a] + 1))
                               /\ ((e.res = "dup") => e.a \in jobs)
       [] e.op = "Spawn"    -> Spawn /\ Head(mbox) = e.a /\ Len(wk'[e.a]) = e.i
       [] e.op = "Run"      -> Run(e.a, e.i)
       [] e.op = "Relocate" -> \E f \in SUBSET Items, pl \in [Items -> Targets] : Relocate(e.a, e.i, f, pl) /\ Cardinality(f) = e.nf
       [] e.op = "Finish"   -> Finish(e.a, e.i)
       [] e.op = "Event"    -> /\ (e.kind = "Started" => started[e.a] >= 1)
                               /\ (e.kind = "Failed" => fevents[e.a] >= 1 /\ \A i \in 1..Len(e.items) : failed[<<e.a, e.items[i]>>] = 1)
                               /\ UNCHANGED vars
       [] e.op = "Item"     -> /\ (Len(wk[e.a]) = 0 \/ place[<<e.a, e.it>>] = {e.on[i] : i \in 1..Len(e.on)})
                               /\ (Len(wk[e.a]) = 0 \/ (failed[<<e.a, e.it>>] = 1) = (e.non = 0))
                               /\ UNCHANGED vars
       [] e.op = "End"      -> e.drift = "" /\ UNCHANGED vars
       [] OTHER -> UNCHANGED vars
TSpec == TInit /\ [][TStep]_<<vars, l>>
====
