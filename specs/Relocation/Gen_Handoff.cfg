SPECIFICATION GSpec
CONSTANTS
  Window = 60
  NFWindow = 10
  MinBackoff = 1
  MaxBackoff = 6
  MaxWaits = {1, 3, 7, 12}
  MaskExps = {0, 4, 1000}
  Outcomes = {"live", "dead", "none", "tmo", "err"}
  J = 0
  JC = 0
  Defects = {}
CONSTRAINT Emit
