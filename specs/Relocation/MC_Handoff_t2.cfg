SPECIFICATION Spec
CONSTANTS
  Window = 60
  NFWindow = 10
  MinBackoff = 1
  MaxBackoff = 6
  MaxWaits = {2, 5, 11}
  MaskExps = {0, 3, 9, 1000}
  Outcomes = {"live", "dead", "none", "tmo", "err"}
  J = 2
  JC = 0
  Defects = {}
INVARIANTS TypeOK Budget SleepBudget AttemptWithinCaller DeliverWithinCaller MaskBound AsyncNoBlock RetryableOnGiveUp
PROPERTY Terminates
