---- MODULE Handoff ----
(* C35 - relocation handoff masking respects caller deadlines.                              *)
(*                                                                                          *)
(* Transcription of actor/relocation_handoff.go: deliverAcrossHandoff (the synchronous,     *)
(* masking path behind PID.SendSync), deliverBypassingHandoff (the non-blocking path behind *)
(* PID.SendAsync) and sleepWithinHandoff, over discrete time.  One call is modelled from    *)
(* its first name resolution to its return.                                                 *)
(*                                                                                          *)
(* Environment (free): the caller's timeout, the registry's answer at every resolution      *)
(* ("live" = record on a node considered alive, "dead" = record still on the departed       *)
(* endpoint, "none" = no record, "tmo" = transient registry failure, "err" = terminal       *)
(* registry failure), the time at which the departed endpoint's mask entry expires          *)
(* (relocatingEndpoints is a TTL map), how long the final delivery takes and how much every *)
(* blocking operation overshoots (0..J; the registry read takes 0..J).                      *)
(*                                                                                          *)
(* Deviations from the code are named branches guarded by Defects; Defects = {} is the code *)
(* as it is.                                                                                *)
EXTENDS Integers, Sequences, FiniteSets, TLC

CONSTANTS Window,      \* relocationHandoffWindow
          NFWindow,    \* relocationNotFoundMaskWindow
          MinBackoff,  \* relocationHandoffMinBackoff
          MaxBackoff,  \* relocationHandoffMaxBackoff
          MaxWaits,    \* caller timeouts explored (0 = the caller imposed none)
          MaskExps,    \* times at which the mask entry expires (0 = nothing is relocating)
          Outcomes,    \* registry answers explored
          J,           \* overshoot bound of one blocking operation / latency bound of one registry read
          JC,          \* latency bound of a non-blocking step (0 when model checking; free in trace validation)
          Defects

VARIABLES pc,       \* "idle" "resolve" "classify" "sleep" "deliver" "bypass" "done"
          mode,     \* "sync" (deliverAcrossHandoff) | "async" (deliverBypassingHandoff)
          maxWait, maskExp,
          now,      \* current time (the call starts at 0)
          start,    \* `start := time.Now()` (taken after the first resolution); -1 before
          backoff,
          nfdl,     \* notFoundDeadline, NoDl = zero time
          atdl,     \* attemptDeadline of the pending sleep
          rerr,     \* retryErr of the pending sleep
          res,      \* last registry answer
          dlvdl,    \* deadline of the context handed to deliver (NoDl = the caller's context as is)
          nres, nsleep, slept, delivered,
          result    \* "" | "ok" | "reloc" | "notfound" | "tmo" | "terminal" | "dlverr" | "dlvtmo"

vars == <<pc, mode, maxWait, maskExp, now, start, backoff, nfdl, atdl, rerr, res, dlvdl, nres, nsleep, slept, delivered, result>>

NoDl == -1
Min(a, b) == IF a < b THEN a ELSE b
Max(a, b) == IF a > b THEN a ELSE b

\* callerDeadline / window / deadline of deliverAcrossHandoff (valid once start is known)
Cdl == IF maxWait > 0 THEN start + maxWait ELSE NoDl
Win == IF "WindowUncapped" \notin Defects /\ maxWait > 0 /\ maxWait < Window THEN maxWait ELSE Window
Deadline == start + Win

\* mask predicates evaluated at time t
InFlight(t) == t < maskExp                 \* relocationInFlight(): the TTL map has an unexpired entry
Pinned(t)   == res = "dead" /\ t < maskExp \* isEndpointRelocating(to)

Init ==
  /\ pc = "idle" /\ mode = "sync" /\ maxWait = 0 /\ maskExp = 0 /\ now = 0 /\ start = -1
  /\ backoff = MinBackoff /\ nfdl = NoDl /\ atdl = NoDl /\ rerr = "" /\ res = "" /\ dlvdl = NoDl
  /\ nres = 0 /\ nsleep = 0 /\ slept = 0 /\ delivered = FALSE /\ result = ""

Call(m, w, x) ==
  /\ pc = "idle"
  /\ mode' = m /\ maxWait' = w /\ maskExp' = x /\ pc' = "resolve"
  /\ UNCHANGED <<now, start, backoff, nfdl, atdl, rerr, res, dlvdl, nres, nsleep, slept, delivered, result>>

\* system.ActorOf(ctx, actorName): answer o, returning at time t
Resolve(o, t) ==
  /\ pc = "resolve" /\ t >= now /\ t <= now + J
  /\ res' = o /\ now' = t /\ nres' = nres + 1
  /\ start' = IF start = -1 THEN t ELSE start
  /\ pc' = IF mode = "async" /\ "AsyncMasks" \notin Defects THEN "bypass" ELSE "classify"
  /\ UNCHANGED <<mode, maxWait, maskExp, backoff, nfdl, atdl, rerr, dlvdl, nsleep, slept, delivered, result>>

\* the switch of the retry loop, evaluated at time t (now <= t)
Classify(t) ==
  /\ pc = "classify" /\ t >= now /\ t <= now + JC
  /\ now' = t
  /\ CASE Pinned(t) ->
            /\ rerr' = "reloc" /\ atdl' = Deadline /\ pc' = "sleep"
            /\ UNCHANGED <<nfdl, dlvdl, result>>
       [] res \in {"live", "dead"} /\ ~Pinned(t) ->
            /\ dlvdl' = IF "FreshDeliverTimeout" \in Defects THEN NoDl ELSE Cdl
            /\ pc' = "deliver"
            /\ UNCHANGED <<nfdl, atdl, rerr, result>>
       [] res \in {"none", "tmo"} /\ InFlight(t) ->
            /\ nfdl' = IF nfdl # NoDl THEN nfdl
                       ELSE IF Cdl # NoDl /\ Cdl < t + NFWindow /\ "NFUncapped" \notin Defects THEN Cdl ELSE t + NFWindow
            /\ rerr' = IF res = "none" THEN "notfound" ELSE "tmo"
            /\ atdl' = nfdl' /\ pc' = "sleep"
            /\ UNCHANGED <<dlvdl, result>>
       [] OTHER ->   \* terminal resolution failure, or nothing is relocating
            /\ result' = IF res = "none" THEN "notfound" ELSE IF res = "tmo" THEN "tmo" ELSE "terminal"
            /\ pc' = "done"
            /\ UNCHANGED <<nfdl, atdl, rerr, dlvdl>>
  /\ UNCHANGED <<mode, maxWait, maskExp, start, backoff, res, nres, nsleep, slept, delivered>>

\* sleepWithinHandoff(ctx, backoff, attemptDeadline) entered at time t0, returning at time t
GiveUp(t0) ==
  /\ pc = "sleep" /\ t0 >= now /\ t0 <= now + JC
  /\ atdl - t0 <= 0
  /\ now' = t0 /\ result' = rerr /\ pc' = "done"
  /\ UNCHANGED <<mode, maxWait, maskExp, start, backoff, nfdl, atdl, rerr, res, dlvdl, nres, nsleep, slept, delivered>>

SleepDur(t0) == IF "NoClip" \in Defects THEN backoff ELSE Min(backoff, atdl - t0)

Sleep(t0, t) ==
  /\ pc = "sleep" /\ t0 >= now /\ t0 <= now + JC
  /\ atdl - t0 > 0
  /\ t >= t0 + SleepDur(t0) /\ t <= t0 + SleepDur(t0) + J
  /\ now' = t /\ slept' = slept + SleepDur(t0) /\ nsleep' = nsleep + 1
  /\ backoff' = Min(backoff * 2, MaxBackoff)
  /\ pc' = "resolve"
  /\ UNCHANGED <<mode, maxWait, maskExp, start, nfdl, atdl, rerr, res, dlvdl, nres, delivered, result>>

\* deliver(dctx, to): a black box that honours its context; r is its outcome, t its return time.
\* Without a context deadline the callers' deliver is an Ask with the caller's timeout (<= 0: ErrInvalidTimeout at once).
DeliverBound == IF dlvdl # NoDl THEN Max(now, dlvdl) ELSE now + Max(maxWait, 0)
Deliver(r, t) ==
  /\ pc = "deliver"
  /\ t >= now /\ t <= DeliverBound + J
  /\ r = "dlvtmo" => t >= DeliverBound
  /\ now' = t /\ delivered' = TRUE /\ result' = r /\ pc' = "done"
  /\ UNCHANGED <<mode, maxWait, maskExp, start, backoff, nfdl, atdl, rerr, res, dlvdl, nres, nsleep, slept>>

\* deliverBypassingHandoff after its single resolution
Bypass(r) ==
  /\ pc = "bypass"
  /\ CASE res \in {"none", "tmo", "err"} ->
            /\ r = "" /\ result' = (IF res = "none" THEN "notfound" ELSE IF res = "tmo" THEN "tmo" ELSE "terminal")
            /\ UNCHANGED delivered
       [] Pinned(now) ->
            /\ r = "" /\ result' = "reloc" /\ UNCHANGED delivered
       [] OTHER ->
            /\ r \in {"ok", "dlverr"} /\ result' = r /\ delivered' = TRUE
  /\ pc' = "done"
  /\ UNCHANGED <<mode, maxWait, maskExp, now, start, backoff, nfdl, atdl, rerr, res, dlvdl, nres, nsleep, slept>>

Done == pc = "done" /\ UNCHANGED vars

Next ==
  \/ \E m \in {"sync", "async"}, w \in MaxWaits, x \in MaskExps : Call(m, w, x)
  \/ \E o \in Outcomes, t \in now..(now + J) : Resolve(o, t)
  \/ \E t \in now..(now + JC) : Classify(t) \/ GiveUp(t)
  \/ \E t0 \in now..(now + JC) : \E t \in (t0 + SleepDur(t0))..(t0 + SleepDur(t0) + J) : Sleep(t0, t)
  \/ \E r \in {"ok", "dlverr", "dlvtmo"} : \E t \in {now, DeliverBound} \cup (DeliverBound..(DeliverBound + J)) : Deliver(r, t)
  \/ \E r \in {"", "ok", "dlverr"} : Bypass(r)
  \/ Done

Spec == Init /\ [][Next]_vars /\ WF_vars(Next)

----
(* The property.                                                                            *)
Retryable == {"reloc", "notfound", "tmo"}

\* a synchronous send returns within the caller's timeout (counted, like the code counts it, from
\* `start`), up to the overshoot of the operations it waited for last: overshoot never accumulates
Budget == pc = "done" /\ mode = "sync" /\ maxWait > 0 => now - start <= maxWait + 3 * J
\* the logical form the binding checks exactly: the requested sleeps fit into the caller's timeout,
\* every sleep ends by the caller's deadline, the delivery is bounded by the caller's deadline
SleepBudget == mode = "sync" /\ maxWait > 0 => slept <= maxWait
AttemptWithinCaller == pc = "sleep" /\ maxWait > 0 => atdl <= start + maxWait
DeliverWithinCaller == pc = "deliver" /\ maxWait > 0 => dlvdl # NoDl /\ dlvdl <= start + maxWait
\* masking is bounded even when the caller gave no timeout
MaskBound == slept <= Window + NFWindow
\* an asynchronous send never sleeps and resolves once
AsyncNoBlock == mode = "async" => nsleep = 0 /\ nres <= 1 /\ now <= J
\* a send that gives up without delivering reports a retryable error, unless the registry failed terminally
RetryableOnGiveUp == pc = "done" /\ ~delivered =>
                        /\ result \in Retryable \cup {"terminal"}
                        /\ (result = "terminal" <=> res = "err")
TypeOK == /\ backoff \in MinBackoff..MaxBackoff /\ now >= 0 /\ slept >= 0
          /\ result \in {"", "ok", "reloc", "notfound", "tmo", "terminal", "dlverr", "dlvtmo"}
\* every call returns
Terminates == <>(pc = "done")
====
