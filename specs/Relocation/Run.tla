---- MODULE Run ----
(* C33 - relocation accounts for every item and runs once per departure.                        *)
(*                                                                                              *)
(* The leader's side of a departure (actor/actor_system.go handleNodeLeftEvent,                 *)
(* beginRelocation / endRelocation, actor/relocator.go, actor/relocation_worker.go):            *)
(*   NodeLeft(a)     the cluster events loop handles a NodeLeft notification for address a:     *)
(*                   with a snapshot of a's peer state and no relocation of a in flight it      *)
(*                   registers the job (beginRelocation), publishes RelocationStarted and tells *)
(*                   the relocator; a notification for an address whose relocation is in flight *)
(*                   is dropped by beginRelocation; one that finds no snapshot (a relocation of *)
(*                   a completed before) starts nothing here;                                   *)
(*   Spawn(a)        the relocator takes the Rebalance order and spawns + watches one worker;   *)
(*   Run(a)          the worker starts relocate();                                              *)
(*   Relocate(a, f)  every item of a gets its outcome: recreated on one surviving target, or    *)
(*                   failed (f = the set of failed items: target unreachable twice, actor kind  *)
(*                   unknown, Peers() failed - the reasons are the environment's);              *)
(*   Finish(a)       the worker publishes ONE RelocationFailed event iff something failed,      *)
(*                   deletes the snapshot, releases the job (endRelocation) and stops;          *)
(*   Terminated(a)   the relocator reconciles the worker's death (a no-op after a normal end).  *)
(* Where an item is placed is the planner's business (C32); here a placement is any target.     *)
EXTENDS Integers, Sequences, FiniteSets, TLC

CONSTANTS Addrs,     \* departed addresses
          Items,     \* items (relocatable actors) of every departed address
          Targets,   \* surviving nodes (leader and peers)
          MaxLeft,   \* bound on NodeLeft notifications per address
          Defects

VARIABLES jobs,     \* relocationJobs: addresses with a relocation in flight
          snap,     \* addresses whose peer state snapshot the leader's cluster store holds
          mbox,     \* the relocator's mailbox: Rebalance orders (addresses)
          wk,       \* address -> sequence of worker states "spawned" | "running" | "relocated" | "stopped" (one entry per worker ever spawned)
          place,    \* <<address, item>> -> set of targets the item was recreated on
          failed,   \* <<address, item>> -> number of RelocationFailed events listing the item
          started,  \* address -> number of RelocationStarted events
          fevents,  \* address -> number of RelocationFailed events
          pendf,    \* address -> items the running worker recorded as failed
          nleft     \* address -> NodeLeft notifications handled

vars == <<jobs, snap, mbox, wk, place, failed, started, fevents, pendf, nleft>>
AI == Addrs \X Items

Init ==
  /\ jobs = {} /\ snap = Addrs /\ mbox = <<>> /\ wk = [a \in Addrs |-> <<>>]
  /\ place = [x \in AI |-> {}] /\ failed = [x \in AI |-> 0]
  /\ started = [a \in Addrs |-> 0] /\ fevents = [a \in Addrs |-> 0] /\ pendf = [a \in Addrs |-> {}]
  /\ nleft = [a \in Addrs |-> 0]

Active(a) == {i \in 1..Len(wk[a]) : wk[a][i] \in {"running", "relocated"}}
Live(a)   == {i \in 1..Len(wk[a]) : wk[a][i] # "stopped"}

NodeLeft(a) ==
  /\ nleft[a] < MaxLeft
  /\ nleft' = [nleft EXCEPT ![a] = @ + 1]
  /\ IF a \in snap /\ (a \notin jobs \/ "NoDedup" \in Defects)
     THEN /\ jobs' = jobs \cup {a}
          /\ started' = [started EXCEPT ![a] = @ + 1]
          /\ mbox' = Append(mbox, a)
     ELSE UNCHANGED <<jobs, started, mbox>>
  /\ UNCHANGED <<snap, wk, place, failed, fevents, pendf>>

Spawn ==
  /\ mbox # <<>>
  /\ LET a == Head(mbox) IN wk' = [wk EXCEPT ![a] = Append(@, "spawned")]
  /\ mbox' = Tail(mbox)
  /\ UNCHANGED <<jobs, snap, place, failed, started, fevents, pendf, nleft>>

Run(a, i) ==
  /\ i \in 1..Len(wk[a]) /\ wk[a][i] = "spawned"
  /\ wk' = [wk EXCEPT ![a][i] = "running"]
  /\ UNCHANGED <<jobs, snap, mbox, place, failed, started, fevents, pendf, nleft>>

\* f = items that fail; every other item is recreated on exactly one target chosen by pl
Relocate(a, i, f, pl) ==
  /\ i \in 1..Len(wk[a]) /\ wk[a][i] = "running"
  /\ wk' = [wk EXCEPT ![a][i] = "relocated"]
  /\ place' = [x \in AI |-> IF x[1] = a /\ x[2] \notin f
                            THEN (IF place[x] = {} \/ "Replace" \in Defects THEN place[x] \cup {pl[x[2]]} ELSE place[x])
                            ELSE place[x]]
  /\ pendf' = [pendf EXCEPT ![a] = {it \in f : place[<<a, it>>] = {}}]
  /\ UNCHANGED <<jobs, snap, mbox, failed, started, fevents, nleft>>

Finish(a, i) ==
  /\ i \in 1..Len(wk[a]) /\ wk[a][i] = "relocated"
  /\ wk' = [wk EXCEPT ![a][i] = "stopped"]
  /\ IF pendf[a] # {} /\ "SilentLoss" \notin Defects
     THEN /\ fevents' = [fevents EXCEPT ![a] = @ + 1]
          /\ failed' = [x \in AI |-> IF x[1] = a /\ x[2] \in pendf[a] THEN failed[x] + 1 ELSE failed[x]]
     ELSE UNCHANGED <<fevents, failed>>
  /\ pendf' = [pendf EXCEPT ![a] = {}]
  /\ snap' = snap \ {a}
  /\ jobs' = jobs \ {a}
  /\ UNCHANGED <<mbox, place, started, nleft>>

Next ==
  \/ \E a \in Addrs : NodeLeft(a)
  \/ Spawn
  \/ \E a \in Addrs, i \in 1..MaxLeft : Run(a, i) \/ Finish(a, i)
  \/ \E a \in Addrs, i \in 1..MaxLeft, f \in SUBSET Items, pl \in [Items -> Targets] : Relocate(a, i, f, pl)

Spec == Init /\ [][Next]_vars /\ WF_vars(Next)

----
\* at most one worker of an address runs at a time, and at most one is alive per registered job
OneWorker == \A a \in Addrs : Cardinality(Active(a)) <= 1
\* duplicate notifications during flight start nothing: one RelocationStarted, one worker per registered job
OncePerDeparture == \A a \in Addrs : started[a] <= 1 /\ Len(wk[a]) <= 1
\* never on two survivors, never both recreated and reported, at most one RelocationFailed event
Exclusive == \A x \in AI : Cardinality(place[x]) <= 1 /\ failed[x] <= 1 /\ ~(place[x] # {} /\ failed[x] > 0)
OneFailedEvent == \A a \in Addrs : fevents[a] <= 1
\* when the relocation of a is over, every item is accounted for
Quiet(a) == a \notin jobs /\ a \notin snap /\ Live(a) = {}
Accounted == \A a \in Addrs : Quiet(a) /\ Len(wk[a]) > 0 => \A it \in Items : (place[<<a, it>>] # {}) # (failed[<<a, it>>] = 1)
\* a departure that was noticed is eventually dealt with
Completes == \A a \in Addrs : [](nleft[a] > 0 => <>(Quiet(a)))
====
