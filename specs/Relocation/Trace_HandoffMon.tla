---- MODULE Trace_HandoffMon ----
(* Property monitor for C35 on recorded executions of the REAL PID.SendSync / PID.SendAsync    *)
(* (deliverAcrossHandoff / deliverBypassingHandoff / sleepWithinHandoff).  It knows nothing    *)
(* about how masking works: per call it knows the API, the caller's timeout, what the registry *)
(* answered last, and checks                                                                   *)
(*   - logical budget (exact integer arithmetic on the values the code computed): every        *)
(*     attempt deadline and the deadline of the delivery context lie within start + timeout,   *)
(*     every requested sleep fits into what remains, the requested sleeps sum to <= timeout;   *)
(*   - lateness does not accumulate: return - start <= timeout + 3 * (largest lateness of one  *)
(*     step of this call, measured in the trace);                                              *)
(*   - wall clock: return - start <= timeout + max(100 ms, 20 %) + 3 * scheduling jitter       *)
(*     measured while the calls ran (judged only when that jitter is below QuietJit);          *)
(*   - the asynchronous API never sleeps / masks and resolves at most once;                    *)
(*   - a call that gives up without delivering reports the retryable error of its last         *)
(*     resolution (ErrRelocationInProgress / not found / transient registry error).            *)
(* Every line is consumed; a failed check prints <<"MISMATCH", line, call id, code, a, b>>.    *)
EXTENDS Integers, Sequences, TLC, Json
CONSTANTS QuietJit, Eps
Trace == ndJsonDeserialize("trace.ndjson")
VARIABLES l, id, mode, maxWait, dlvs, jit, start, sum, nres, deliv, lastOut, lastT, pend, jrun
vars == <<l, id, mode, maxWait, dlvs, jit, start, sum, nres, deliv, lastOut, lastT, pend, jrun>>
Max(a, b) == IF a > b THEN a ELSE b
Min(a, b) == IF a < b THEN a ELSE b
Init == l = 1 /\ id = -1 /\ mode = "" /\ maxWait = 0 /\ dlvs = "" /\ jit = 0 /\ start = -1 /\ sum = 0 /\ nres = 0
        /\ deliv = FALSE /\ lastOut = "" /\ lastT = 0 /\ pend = -1 /\ jrun = 0
Chk(c, code, a, b) == IF c THEN TRUE ELSE PrintT(<<"MISMATCH", l, id, code, a, b>>)
\* lateness of the step that ends with an event at time t: measured from the end of the pending blocking
\* operation (pend) if there is one, else from the previous event
Late(t) == IF pend >= 0 THEN Max(t - pend, 0) ELSE Max(t - lastT, 0)
Bounded == mode = "sync" /\ maxWait > 0
Step ==
  /\ l <= Len(Trace)
  /\ l' = l + 1
  /\ LET e == Trace[l] IN
     CASE e.op = "New" ->
            /\ id' = e.id /\ mode' = e.mode /\ maxWait' = e.maxWait /\ dlvs' = e.dlv /\ jit' = e.jit
            /\ start' = -1 /\ sum' = 0 /\ nres' = 0 /\ deliv' = FALSE /\ lastOut' = "" /\ lastT' = 0 /\ pend' = -1 /\ jrun' = 0
       [] e.op = "Resolve" ->
            /\ nres' = nres + 1 /\ lastOut' = e.out
            /\ Chk(mode = "sync" \/ nres' <= 1, "async-resolves-again", nres', 0)
            /\ jrun' = Max(jrun, Late(e.t)) /\ lastT' = e.t /\ pend' = -1
            /\ UNCHANGED <<id, mode, maxWait, dlvs, jit, start, sum, deliv>>
       [] e.op = "Begin" ->
            /\ start' = e.start
            /\ Chk(e.maxWait = maxWait, "begin-timeout-differs", e.maxWait, maxWait)
            /\ jrun' = Max(jrun, Late(e.t)) /\ lastT' = e.t
            /\ UNCHANGED <<id, mode, maxWait, dlvs, jit, sum, nres, deliv, lastOut, pend>>
       [] e.op = "Attempt" ->
            /\ Chk(mode = "sync", "async-masks", e.dl, 0)
            /\ Chk(~Bounded \/ e.dl <= start + maxWait, "attempt-deadline-beyond-caller", e.dl, start + maxWait)
            /\ jrun' = Max(jrun, Late(e.t)) /\ lastT' = e.t
            /\ UNCHANGED <<id, mode, maxWait, dlvs, jit, start, sum, nres, deliv, lastOut, pend>>
       [] e.op = "Sleep" ->
            /\ Chk(mode = "sync", "async-sleeps", e.d, 0)
            /\ Chk(e.d <= e.rem /\ e.d > 0, "sleep-not-clipped", e.d, e.rem)
            /\ sum' = sum + e.d
            /\ Chk(~Bounded \/ sum' <= maxWait, "sleeps-exceed-timeout", sum', maxWait)
            /\ jrun' = Max(jrun, Late(e.t)) /\ lastT' = e.t /\ pend' = e.t + e.d
            /\ UNCHANGED <<id, mode, maxWait, dlvs, jit, start, nres, deliv, lastOut>>
       [] e.op = "Deliver" ->
            /\ deliv' = TRUE
            /\ Chk(~Bounded \/ (e.dl # -1 /\ e.dl <= start + maxWait), "deliver-deadline-beyond-caller", e.dl, start + maxWait)
            /\ jrun' = Max(jrun, Late(e.t)) /\ lastT' = e.t
            \* a scripted never-answering target returns when the context or the ask timeout fires
            /\ pend' = IF dlvs = "hang" /\ mode = "sync"
                       THEN (IF e.dl = -1 THEN e.t + e.tmo ELSE Max(e.t, Min(e.dl, e.t + e.tmo))) ELSE -1
            /\ UNCHANGED <<id, mode, maxWait, dlvs, jit, start, sum, nres, lastOut>>
       [] e.op = "Return" ->
            /\ jrun' = Max(jrun, Late(e.t)) /\ lastT' = e.t
            /\ Chk(~Bounded \/ start < 0 \/ e.t - start <= maxWait + 3 * jrun' + Eps, "late-beyond-step-lateness", e.t - start - maxWait, jrun')
            /\ Chk(~Bounded \/ start < 0 \/ jit >= QuietJit \/ e.t - start <= maxWait + Max(100000, maxWait \div 5) + 3 * jit,
                   "wall-clock-beyond-slack", e.t - start - maxWait, jit)
            /\ Chk(mode = "sync" \/ jit >= QuietJit \/ e.t <= 100000 + 3 * jit, "async-wall-clock", e.t, jit)
            /\ Chk(deliv \/ lastOut # "dead" \/ e.cls = "reloc", "giveup-not-retryable", lastOut, e.cls)
            /\ Chk(deliv \/ lastOut # "none" \/ e.cls = "notfound", "giveup-not-retryable", lastOut, e.cls)
            /\ Chk(deliv \/ lastOut # "tmo" \/ e.cls = "tmo", "giveup-not-retryable", lastOut, e.cls)
            /\ UNCHANGED <<id, mode, maxWait, dlvs, jit, start, sum, nres, deliv, lastOut, pend>>
       [] OTHER -> UNCHANGED <<id, mode, maxWait, dlvs, jit, start, sum, nres, deliv, lastOut, lastT, pend, jrun>>
Spec == Init /\ [][Step]_vars
====
