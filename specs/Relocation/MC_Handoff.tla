---- MODULE MC_Handoff ----
EXTENDS Handoff
====
