SPECIFICATION Spec
CONSTANT Addrs = {"d1", "d2"}
CHECK_DEADLOCK FALSE
