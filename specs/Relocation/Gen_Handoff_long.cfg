SPECIFICATION GSpec
CONSTANTS
  Window = 60
  NFWindow = 10
  MinBackoff = 1
  MaxBackoff = 6
  MaxWaits = {0, 45, 61, 75}
  MaskExps = {35, 1000}
  Outcomes = {"dead", "live"}
  J = 0
  JC = 0
  Defects = {}
CONSTRAINT Emit
