---- MODULE Trace_Handoff ----
(* Conformance of recorded executions of the real SendSync / SendAsync with Handoff.tla: every *)
(* trace line must be explained by the corresponding action of the design spec, with the time  *)
(* unit of the constants set to one microsecond, time read from the trace (J, JC unbounded)    *)
(* and the logged deadlines / backoff / sleep durations equal to the primed variables.         *)
(* Rejection of a trace is drift between model and code, not a property verdict.               *)
EXTENDS Handoff, Json
CONSTANT Tol   \* tolerated disagreement between wall-clock deadlines (hook values) and monotonic durations (time.Until)
Trace == ndJsonDeserialize("trace.ndjson")
VARIABLES l, dseen
tvars == <<vars, l, dseen>>
TInit == Init /\ l = 1 /\ dseen = FALSE
Abs(x) == IF x < 0 THEN -x ELSE x
TStep ==
  /\ l <= Len(Trace)
  /\ l' = l + 1
  /\ LET e == Trace[l] IN
     CASE e.op = "New" ->
            /\ pc' = "resolve" /\ mode' = e.mode /\ maxWait' = e.maxWait /\ maskExp' \in {e.maskLo, e.maskHi}
            /\ now' = 0 /\ start' = -1 /\ backoff' = MinBackoff /\ nfdl' = NoDl /\ atdl' = NoDl /\ rerr' = "" /\ res' = ""
            /\ dlvdl' = NoDl /\ nres' = 0 /\ nsleep' = 0 /\ slept' = 0 /\ delivered' = FALSE /\ result' = ""
            /\ dseen' = FALSE
       [] e.op = "Resolve" ->
            /\ LET t == IF nres = 0 /\ l < Len(Trace) /\ Trace[l + 1].op = "Begin" THEN Trace[l + 1].start ELSE e.t
               IN Resolve(e.out, t)
            /\ nres' = e.i
            /\ UNCHANGED dseen
       [] e.op = "Begin" ->
            /\ start = e.start /\ maxWait = e.maxWait
            /\ UNCHANGED <<vars, dseen>>
       [] e.op = "Attempt" ->
            /\ \E tc \in {now, Max(now, e.t)} \cup (IF e.dl - NFWindow >= now /\ e.dl - NFWindow <= e.t THEN {e.dl - NFWindow} ELSE {}) :
                  Classify(tc) /\ pc' = "sleep" /\ atdl' = e.dl
            /\ backoff = e.backoff
            /\ UNCHANGED dseen
       [] e.op = "Sleep" ->
            /\ LET t0 == Max(now, atdl - e.rem) IN
                 /\ Sleep(t0, t0 + SleepDur(t0))
                 /\ Abs(SleepDur(t0) - e.d) <= Tol
            /\ UNCHANGED dseen
       [] e.op = "Deliver" ->
            IF mode = "sync"
            THEN /\ \E tc \in {now, Max(now, e.t)} : Classify(tc) /\ pc' = "deliver" /\ dlvdl' = e.dl
                 /\ UNCHANGED dseen
            ELSE dseen' = TRUE /\ UNCHANGED vars
       [] e.op = "Return" ->
            /\ CASE pc = "deliver"  -> Deliver(e.cls, Max(now, e.t))
                 [] pc = "sleep"    -> GiveUp(Max(now, atdl)) /\ Max(now, atdl) <= e.t /\ result' = e.cls
                 [] pc = "classify" -> \E tc \in {now, Max(now, e.t)} : Classify(tc) /\ pc' = "done" /\ result' = e.cls
                 [] pc = "bypass"   -> Bypass(IF dseen THEN e.cls ELSE "") /\ result' = e.cls
                 [] OTHER -> FALSE
            /\ UNCHANGED dseen
       [] OTHER -> UNCHANGED <<vars, dseen>>
TSpec == TInit /\ [][TStep]_tvars
====
