---- MODULE Gen_Run ----
(* Behaviour generator for C33: an environment (which items cannot be recreated anywhere, which *)
(* peers are unreachable) and the sequence of steps of one departure history, printed when the  *)
(* leader is quiet again after at least MinLeft NodeLeft notifications.                         *)
EXTENDS Run, Json
CONSTANTS MinLeft, Peers
VARIABLES hist, bad, down
GInit == Init /\ hist = <<>> /\ bad \in SUBSET AI /\ down \in SUBSET Peers /\ Cardinality(bad) <= 2
Step(act, a, i) == hist' = Append(hist, [act |-> act, a |-> a, i |-> i])
\* an item fails iff it cannot be recreated anywhere; with every peer unreachable the items handed to peers fail as well
Fails(a, f) == /\ {it \in Items : <<a, it>> \in bad} \subseteq f
               /\ (down # Peers \/ Peers = {} => f = {it \in Items : <<a, it>> \in bad})
GNext ==
  /\ UNCHANGED <<bad, down>>
  /\ \/ \E a \in Addrs : NodeLeft(a) /\ Step("NodeLeft", a, 0)
     \/ Spawn /\ Step("Spawn", Head(mbox), 0)
     \/ \E a \in Addrs, i \in 1..MaxLeft : (Run(a, i) /\ Step("Run", a, i)) \/ (Finish(a, i) /\ Step("Finish", a, i))
     \/ \E a \in Addrs, i \in 1..MaxLeft, f \in SUBSET Items, pl \in [Items -> Targets] :
          Fails(a, f) /\ Relocate(a, i, f, pl) /\ Step("Relocate", a, i)
GSpec == GInit /\ [][GNext]_<<vars, hist, bad, down>>
Total == LET S[A \in SUBSET Addrs] == IF A = {} THEN 0 ELSE LET a == CHOOSE x \in A : TRUE IN nleft[a] + S[A \ {a}] IN S[Addrs]
AllQuiet == jobs = {} /\ mbox = <<>> /\ \A a \in Addrs : Live(a) = {} /\ (nleft[a] > 0 => a \notin snap)
Script == [steps |-> hist, bad |-> {<<x[1], x[2]>> : x \in bad}, down |-> down]
Emit == ~(AllQuiet /\ Total >= MinLeft) \/ (PrintT(<<"BEHAVIOUR", ToJson(Script)>>) /\ FALSE)
\* placements do not matter to the script: explore one representative
View == <<jobs, snap, mbox, wk, pendf, nleft, hist, bad, down>>
====
