SPECIFICATION Spec
CONSTANTS
  QuietJit = 50000
  Eps = 2000
CHECK_DEADLOCK FALSE
