SPECIFICATION TSpec
CONSTANTS
  Window = 3000000
  NFWindow = 500000
  MinBackoff = 50000
  MaxBackoff = 300000
  MaxWaits = {}
  MaskExps = {}
  Outcomes = {"live", "dead", "none", "tmo", "err"}
  J = 100000000
  JC = 100000000
  Defects = {}
  Tol = 2000
CHECK_DEADLOCK FALSE
