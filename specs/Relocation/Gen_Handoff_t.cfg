SPECIFICATION GSpec
CONSTANTS
  Window = 60
  NFWindow = 10
  MinBackoff = 1
  MaxBackoff = 6
  MaxWaits = {1, 2, 3, 5, 7, 9, 12, 16}
  MaskExps = {0, 2, 4, 9, 1000}
  Outcomes = {"live", "dead", "none", "tmo", "err"}
  J = 0
  JC = 0
  Defects = {}
CONSTRAINT Emit
