---------------------------- MODULE Trace_Request ----------------------------
(* Conformance: the recorded replay must be a behaviour of Request.tla step by step: the  *)
(* order in which handlers ran, the order and outcome of the continuations, the real      *)
(* inFlightCount / blockingCount, the number of tracked request states, StashSize(),      *)
(* the mailbox length and the command inside the held handler.  Rejection = drift.         *)
EXTENDS Request, Json
Trace == ndJsonDeserialize("trace.ndjson")
VARIABLE l
SeqEq(s, t) == Len(s) = Len(t) /\ \A i \in 1..Len(s) : s[i] = t[i]
Matches(e) ==
  /\ SeqEq(handled', e.handled)
  /\ Len(cblog') = Len(e.cblog) /\ \A i \in 1..Len(e.cblog) : cblog'[i].rq = e.cblog[i][1] /\ cblog'[i].out = e.cblog[i][2]
  /\ nreq' = e.nreq /\ cur'.id = e.cur
  /\ (e.run = 1 => /\ inflight' = e.inflight /\ blocking' = e.blocking
                   /\ e.tracked = Cardinality({r \in Reqs : req'[r].st = "inflight"})
                   /\ Len(stash') = e.stash /\ Len(mb') = e.mlen)
TNew == /\ life' = "running" /\ enabled' = TRUE /\ mb' = <<>> /\ cur' = NoCmd /\ ncmd' = 0 /\ nreq' = 0
        /\ req' = [r \in Reqs |-> NoReq] /\ inflight' = 0 /\ blocking' = 0 /\ stash' = <<>>
        /\ handled' = <<>> /\ cblog' = <<>>
        /\ last' = [a |-> "Init", id |-> 0, op |-> "", mode |-> "", tmo |-> FALSE, th |-> "", rq |-> 0, err |-> ""]
TStep ==
  /\ l <= Len(Trace)
  /\ l' = l + 1
  /\ LET e == Trace[l] IN
     IF e.ev = "New" THEN TNew
     ELSE IF e.ev # "step" THEN UNCHANGED vars
     ELSE /\ \/ e.a = "Send" /\ Send([op |-> e.what, mode |-> e.mode, tmo |-> e.tmo = 1, th |-> e.th, rq |-> e.rq])
             \/ e.a = "Finish" /\ Finish
             \/ e.a = "Reply" /\ Reply(e.rq)
             \/ e.a = "TimeoutFire" /\ TimeoutFire(e.rq)
             \/ e.a = "Cancel" /\ Cancel(e.rq)
             \/ e.a = "Stop" /\ Stop
          /\ Matches(e)
TInit == Init /\ l = 1
TSpec == TInit /\ [][TStep]_<<vars, l>>
=============================================================================
