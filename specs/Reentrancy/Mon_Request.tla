----------------------------- MODULE Mon_Request -----------------------------
(* Property monitor for C16 on recorded executions of a REAL requester actor.  It knows  *)
(* only the public contract of Request / RequestCall, not the bookkeeping.  Events:       *)
(*   New    (id = MaxInFlight of the requester, 0 = unlimited)                             *)
(*   send   (id, what = op)         a command was told to the requester                    *)
(*   enter / exit (id, what = op)   its handler starts / returns                           *)
(*   reqcall (id, rq, what = "ok" | "limit" | "skipped" | "error..", n = 1 Then registered  *)
(*            at once, m = 1 StashNonReentrant)   ctx.Request returned                      *)
(*   then   (rq)                    Then registered on the handle later (on the turn)      *)
(*   disable / enable (n = 1 error) ctx.DisableReentrancy() / ctx.EnableReentrancy(..) ran; *)
(*            reqcall m = 2: the request carried no per-call mode override                   *)
(*   cause  (rq, what = reply | timeout | cancel)  a completion signal is about to be sent *)
(*            towards the requester (responder released / timer goroutine released /       *)
(*            Cancel called)                                                                *)
(*   cb     (rq, what = outcome, n = 1 iff it ran on the goroutine holding the requester's  *)
(*            turn)                 the continuation ran                                    *)
(*   stop                           the (idle) requester was shut down                      *)
(*   End    (id = 1 quiescent, n = in-flight counter, m = blocking counter, rq = tracked    *)
(*            request states, stash, run)                                                   *)
(* Mismatches are printed as <<"MISMATCH", "C16", line, what, rq-or-id>>.                    *)
EXTENDS Integers, Sequences, FiniteSets, TLC, Json

Trace == ndJsonDeserialize("trace.ndjson")

VARIABLES l, en, maxf, sent, handled, inH, reqs, causes, cbs, hascb, stopped
vars == <<l, en, maxf, sent, handled, inH, reqs, causes, cbs, hascb, stopped>>
\* reqs: set of [rq, stash]; causes: set of [rq, what]; cbs: Seq of [rq, what]; hascb: set of rq

Init == /\ l = 1 /\ en = TRUE /\ maxf = 0 /\ sent = {} /\ handled = <<>> /\ inH = 0 /\ reqs = {} /\ causes = {} /\ cbs = <<>> /\ hascb = {}
        /\ stopped = FALSE

Bad(what, x) == PrintT(<<"MISMATCH", "C16", l, what, x>>)
Check(cond, what, x) == IF cond THEN TRUE ELSE Bad(what, x)
Caused == {c.rq : c \in causes}
RqIds == {q.rq : q \in reqs}
NCb(r) == Cardinality({i \in 1..Len(cbs) : cbs[i].rq = r})
Done == {cbs[i].rq : i \in 1..Len(cbs)}
\* stash-mode requests that are certainly still in flight: accepted, no completion signal released yet
BlockingForSure == {q.rq : q \in {x \in reqs : x.stash}} \ Caused
NHandled(id) == Cardinality({i \in 1..Len(handled) : handled[i] = id})

Step ==
  /\ l <= Len(Trace)
  /\ l' = l + 1
  /\ LET e == Trace[l] IN
     CASE e.ev = "New" ->
            /\ en' = TRUE /\ maxf' = e.id /\ sent' = {} /\ handled' = <<>> /\ inH' = 0 /\ reqs' = {} /\ causes' = {} /\ cbs' = <<>> /\ hascb' = {}
            /\ stopped' = FALSE
       [] e.ev = "send" -> sent' = sent \cup {e.id} /\ UNCHANGED <<en, maxf, handled, inH, reqs, causes, cbs, hascb, stopped>>
       [] e.ev = "enter" ->
            /\ Check(BlockingForSure = {}, "an ordinary message is handled while a StashNonReentrant request is outstanding", e.id)
            /\ Check(inH = 0, "two handlers at once", e.id)
            /\ inH' = e.id /\ UNCHANGED <<en, maxf, sent, handled, reqs, causes, cbs, hascb, stopped>>
       [] e.ev = "exit" ->
            /\ inH' = 0 /\ handled' = Append(handled, e.id) /\ UNCHANGED <<en, maxf, sent, reqs, causes, cbs, hascb, stopped>>
       [] e.ev = "reqcall" ->
            /\ Check(e.what # "limit" \/ (maxf > 0 /\ Cardinality(RqIds \ Done) >= maxf),
                     "Request refused with the in-flight limit although fewer requests than the limit can be in flight", e.id)
            /\ Check(e.what # "ok" \/ maxf = 0 \/ Cardinality(RqIds \ Caused) < maxf,
                     "Request accepted although the in-flight limit is reached", e.rq)
            /\ Check(e.what \in {"ok", "limit", "skipped", "disabled"}, "Request failed unexpectedly", e.id)
            /\ Check(e.what # "disabled" \/ (~en /\ e.m = 2), "Request refused as disabled although the policy is on or the call overrides the mode", e.id)
            /\ Check(~(e.what = "ok" /\ e.m = 2 /\ ~en), "Request without a mode override admitted while reentrancy is disabled", e.rq)
            /\ reqs' = IF e.what = "ok" THEN reqs \cup {[rq |-> e.rq, stash |-> e.m = 1]} ELSE reqs
            /\ hascb' = IF e.what = "ok" /\ e.n = 1 THEN hascb \cup {e.rq} ELSE hascb
            /\ UNCHANGED <<en, maxf, sent, handled, inH, causes, cbs, stopped>>
       [] e.ev = "disable" -> en' = FALSE /\ UNCHANGED <<maxf, sent, handled, inH, reqs, causes, cbs, hascb, stopped>>
       [] e.ev = "enable" ->
            /\ Check(e.n = 0, "EnableReentrancy failed", e.id)
            /\ en' = TRUE /\ UNCHANGED <<maxf, sent, handled, inH, reqs, causes, cbs, hascb, stopped>>
       [] e.ev = "then" -> hascb' = hascb \cup {e.rq} /\ UNCHANGED <<en, maxf, sent, handled, inH, reqs, causes, cbs, stopped>>
       [] e.ev = "cause" -> causes' = causes \cup {[rq |-> e.rq, what |-> e.what]} /\ UNCHANGED <<en, maxf, sent, handled, inH, reqs, cbs, hascb, stopped>>
       [] e.ev = "cb" ->
            /\ Check(NCb(e.rq) = 0, "the continuation of a request ran more than once", e.rq)
            /\ Check(e.rq \in hascb, "a continuation ran that was never registered", e.rq)
            /\ Check([rq |-> e.rq, what |-> e.what] \in causes, "a request completed with an outcome nobody produced", e.rq)
            /\ Check(e.n = 1, "the continuation did not run on the requester's turn", e.rq)
            /\ cbs' = Append(cbs, [rq |-> e.rq, what |-> e.what])
            /\ UNCHANGED <<en, maxf, sent, handled, inH, reqs, causes, hascb, stopped>>
       [] e.ev = "stop" -> stopped' = TRUE /\ UNCHANGED <<en, maxf, sent, handled, inH, reqs, causes, cbs, hascb>>
       [] e.ev = "End" ->
            /\ \/ e.id # 1
               \/ /\ \A r \in (hascb \cap Caused) : Check(stopped \/ NCb(r) = 1, "a request was completed but its continuation never ran", r)
                  /\ Check(stopped \/ e.n = Cardinality(RqIds \ Caused), "the in-flight counter differs from the number of requests in flight at quiescence", e.n)
                  /\ Check(stopped \/ e.m = Cardinality(BlockingForSure), "the blocking counter differs from the number of StashNonReentrant requests in flight at quiescence", e.m)
                  /\ Check(stopped \/ e.rq = Cardinality(RqIds \ Caused), "request states are still tracked for completed requests", e.rq)
                  /\ Check(stopped \/ BlockingForSure # {} \/ e.stash = 0, "messages are still stashed although no StashNonReentrant request is in flight", e.stash)
                  /\ Check(~stopped \/ (e.n = 0 /\ e.m = 0), "counters not reset by the shutdown", e.n)
                  /\ \A c \in sent : Check(stopped \/ BlockingForSure # {} \/ NHandled(c) = 1, "a message was not handled exactly once", c)
            /\ UNCHANGED <<en, maxf, sent, handled, inH, reqs, causes, cbs, hascb, stopped>>
       [] OTHER -> UNCHANGED <<en, maxf, sent, handled, inH, reqs, causes, cbs, hascb, stopped>>

Spec == Init /\ [][Step]_vars
=============================================================================
