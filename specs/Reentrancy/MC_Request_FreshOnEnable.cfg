SPECIFICATION Spec
CONSTANTS
  MaxCmd = 4
  MaxReq = 2
  MaxInFlight = 1
  Defects = {"FreshOnEnable"}
VIEW View
INVARIANTS OnceEach Counters Limit Released
PROPERTIES Exclusive
