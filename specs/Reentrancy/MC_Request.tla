---- MODULE MC_Request ----
EXTENDS Request
View == core
====
