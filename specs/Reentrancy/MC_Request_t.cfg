SPECIFICATION Spec
CONSTANTS
  MaxCmd = 4
  MaxReq = 3
  MaxInFlight = 2
  Defects = {}
VIEW View
INVARIANTS OnceEach Counters Limit Released
PROPERTIES Exclusive
