SPECIFICATION Spec
CONSTANTS
  MaxCmd = 3
  MaxReq = 2
  MaxInFlight = 0
  Defects = {}
VIEW View
INVARIANTS OnceEach Counters Limit Released
PROPERTIES Exclusive
