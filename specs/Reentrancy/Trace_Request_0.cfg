SPECIFICATION TSpec
CONSTANTS
  MaxCmd = 8
  MaxReq = 4
  MaxInFlight = 0
  Defects = {}
CHECK_DEADLOCK FALSE
INVARIANTS OnceEach Counters Limit Released
