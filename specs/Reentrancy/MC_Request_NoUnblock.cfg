SPECIFICATION Spec
CONSTANTS
  MaxCmd = 3
  MaxReq = 2
  MaxInFlight = 1
  Defects = {"NoUnblock"}
VIEW View
INVARIANTS OnceEach Counters Limit Released
PROPERTIES Exclusive
