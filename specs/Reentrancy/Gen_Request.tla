---- MODULE Gen_Request ----
(* Behaviour generator: BFS = every history of length Depth, -simulate = random walks. *)
EXTENDS Request, Json
CONSTANTS Depth
VARIABLE hist
GInit == Init /\ hist = <<>>
GNext == Next /\ hist' = Append(hist, last')
GSpec == GInit /\ [][GNext]_<<vars, hist>>
Emit == (Len(hist) < Depth) \/ (PrintT(<<"BEHAVIOUR", ToJson(hist)>>) /\ FALSE)
====
