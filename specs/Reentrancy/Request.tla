------------------------------ MODULE Request ------------------------------
(* Reentrant requests of a goakt actor (actor/reentrancy.go requestState / requestHandle, *)
(* actor/pid.go request, registerRequestState, deregisterRequestState, completeRequest,    *)
(* enqueueAsyncError, cancelInFlightRequests, enableReentrancyStash / dispatchOne,         *)
(* handleAsyncResponse; actor/async_reply.go).                                             *)
(*                                                                                         *)
(* Requester "R" (reentrancy enabled, default mode AllowAll, MaxInFlight) with its mailbox *)
(* `mb`; the harness holds the handler of every command message, so that other traffic     *)
(* piles up behind it.  A command carries what its handler does on R's turn:               *)
(*   "plain"                nothing                                                        *)
(*   "req" (mode, tmo, th)  ctx.Request(responder, .., WithReentrancyMode(mode)            *)
(*                          [, WithRequestTimeout]) and - th = "now" - call.Then(callback) *)
(*   "then" (rq)            call.Then(callback) on the handle of an earlier request        *)
(*   "cancel" (rq)          call.Cancel() from inside the handler                          *)
(*   "disable" / "enable"   ctx.DisableReentrancy() / ctx.EnableReentrancy(AllowAll,       *)
(*                          MaxInFlight): the default policy goes Off / back on; requests   *)
(*                          in flight, their counters and the stash must survive the cycle. *)
(*                          A request with mode "default" carries no per-call mode override *)
(*                          and is refused (ErrReentrancyDisabled) while the policy is Off; *)
(*                          "allow" / "stash" are per-call overrides and are still admitted *)
(* Everything that completes a request reaches R through its mailbox as an AsyncResponse:  *)
(*   Reply(rq)              the responder (one actor per request, held by the harness)     *)
(*                          calls ctx.Response                                             *)
(*   TimeoutFire(rq)        the timeout goroutine (timer fired, parked at req.timeout.fire)*)
(*                          calls enqueueAsyncError(ErrRequestTimeout)                     *)
(*   Cancel(rq)             call.Cancel() from a goroutine outside the actor               *)
(* R is an eager consumer: when no handler is held it processes its mailbox in order:      *)
(* commands are stashed while a StashNonReentrant request is in flight (blocking > 0),      *)
(* an AsyncResponse completes its request (first one wins, later ones are dropped),         *)
(* deregisters it (inFlight-1, blocking-1, unstashAll at 0) and runs the continuation.      *)
(* Stop = PID.Shutdown of the idle requester: cancelInFlightRequests completes every        *)
(* request with ErrRequestCanceled WITHOUT running continuations and zeroes the counters.   *)
EXTENDS Integers, Sequences, FiniteSets, TLC

CONSTANTS MaxCmd,       \* commands sent per history
          MaxReq,       \* requests started per history
          MaxInFlight,  \* 0 = unlimited
          Defects

VARIABLES life,      \* "running" | "stopped"
          enabled,   \* the default request policy is on (AllowAll) / Off after DisableReentrancy
          mb,        \* R's mailbox: Seq of [k |-> "cmd", id, op, mode, tmo, th, rq] or [k |-> "resp", rq, why]
          cur,       \* the command whose handler is held (id = 0: none)
          ncmd, nreq,
          req,       \* [1..MaxReq -> [st: "none"|"inflight"|"done", mode, out: ""|"reply"|"timeout"|"cancel"|"stopped",
                     \*                hascb: BOOLEAN, cbs: Nat, tmo: "none"|"armed"|"fired", creq: BOOLEAN, replied: BOOLEAN]]
          inflight, blocking,
          stash,     \* Seq of stashed commands
          handled,   \* Seq of command ids whose handler ran, in order
          cblog,     \* Seq of [rq, out]: continuations in the order they ran
          last       \* output-only description of the step

vars == <<life, enabled, mb, cur, ncmd, nreq, req, inflight, blocking, stash, handled, cblog, last>>
core == <<life, enabled, mb, cur, ncmd, nreq, req, inflight, blocking, stash, handled, cblog>>

NoCmd == [k |-> "cmd", id |-> 0, op |-> "", mode |-> "", tmo |-> FALSE, th |-> "", rq |-> 0]
NoReq == [st |-> "none", mode |-> "", out |-> "", hascb |-> FALSE, cbs |-> 0, tmo |-> "none", creq |-> FALSE, replied |-> FALSE]
Reqs == 1..MaxReq

Init == /\ life = "running" /\ enabled = TRUE /\ mb = <<>> /\ cur = NoCmd /\ ncmd = 0 /\ nreq = 0
        /\ req = [r \in Reqs |-> NoReq] /\ inflight = 0 /\ blocking = 0 /\ stash = <<>>
        /\ handled = <<>> /\ cblog = <<>>
        /\ last = [a |-> "Init", id |-> 0, op |-> "", mode |-> "", tmo |-> FALSE, th |-> "", rq |-> 0, err |-> ""]

\* ---- the eager consumer ------------------------------------------------------------------
\* state of the runtime side while draining: record of the variables it changes
RT == [mb : Seq(Nat), cur : Nat]   \* (documentation only)

\* completing request r with outcome why on R's turn (completeRequest)
Completed(s, r, why) ==
  LET q    == s.req[r]
      blk2 == IF q.mode = "stash" THEN s.blocking - 1 ELSE s.blocking
      keepBlocked == "NoUnblock" \in Defects
      release == q.mode = "stash" /\ blk2 = 0 /\ ~("NoUnstash" \in Defects)
      runs == IF q.hascb THEN (IF "CallbackTwice" \in Defects THEN 2 ELSE 1) ELSE 0
  IN [s EXCEPT !.req[r] = [q EXCEPT !.st = "done", !.out = why, !.cbs = q.cbs + runs],
               !.inflight = s.inflight - 1,
               !.blocking = IF keepBlocked THEN s.blocking ELSE blk2,
               !.mb = IF release THEN s.mb \o s.stash ELSE s.mb,
               !.stash = IF release THEN <<>> ELSE s.stash,
               !.cblog = IF q.hascb THEN Append(s.cblog, [rq |-> r, out |-> why]) ELSE s.cblog]

RECURSIVE Drain(_)
Drain(s) ==
  IF s.cur.id # 0 \/ s.mb = <<>> \/ s.life # "running" THEN s
  ELSE LET m == Head(s.mb)
           s1 == [s EXCEPT !.mb = Tail(s.mb)]
       IN IF m.k = "resp"
          THEN IF s.req[m.rq].st = "inflight" THEN Drain(Completed(s1, m.rq, m.why)) ELSE Drain(s1)   \* late duplicate: dropped
          ELSE IF s.blocking > 0
               THEN Drain([s1 EXCEPT !.stash = Append(s.stash, m)])
               ELSE [s1 EXCEPT !.cur = m]       \* the handler is entered and held

Rec == [life |-> life, mb |-> mb, cur |-> cur, req |-> req, inflight |-> inflight, blocking |-> blocking, stash |-> stash, cblog |-> cblog]
Apply(s) == /\ mb' = s.mb /\ cur' = s.cur /\ req' = s.req /\ inflight' = s.inflight /\ blocking' = s.blocking
            /\ stash' = s.stash /\ cblog' = s.cblog

Lbl(a, m, err) == last' = [a |-> a, id |-> m.id, op |-> m.op, mode |-> m.mode, tmo |-> m.tmo, th |-> m.th, rq |-> m.rq, err |-> err]

\* ---- the harness sends a command (actor.Tell) ----------------------------------------------
Ops == [op : {"plain"}, mode : {""}, tmo : {FALSE}, th : {""}, rq : {0}]
       \cup [op : {"req"}, mode : {"allow", "stash"}, tmo : BOOLEAN, th : {"now", "later"}, rq : {0}]
       \cup [op : {"req"}, mode : {"default"}, tmo : {FALSE}, th : {"now"}, rq : {0}]
       \cup [op : {"disable", "enable"}, mode : {""}, tmo : {FALSE}, th : {""}, rq : {0}]
       \cup [op : {"then", "cancel"}, mode : {""}, tmo : {FALSE}, th : {""}, rq : Reqs]

Send(o) ==
  /\ life = "running" /\ ncmd < MaxCmd
  /\ o.op = "req" => nreq + Cardinality({i \in 1..Len(mb) : mb[i].k = "cmd" /\ mb[i].op = "req"})
                          + Cardinality({i \in 1..Len(stash) : stash[i].op = "req"}) + (IF cur.op = "req" THEN 1 ELSE 0) < MaxReq
  /\ o.op \in {"then", "cancel"} => o.rq <= nreq      \* the handle must exist already
  /\ o.op = "then" => ~req[o.rq].hascb /\ req[o.rq].mode = "allow"
  /\ ncmd' = ncmd + 1
  /\ LET m == [k |-> "cmd", id |-> ncmd + 1, op |-> o.op, mode |-> o.mode, tmo |-> o.tmo, th |-> o.th, rq |-> o.rq]
     IN Apply(Drain([Rec EXCEPT !.mb = Append(mb, m)])) /\ Lbl("Send", m, "")
  /\ UNCHANGED <<life, enabled, nreq, handled>>

\* ---- the held handler runs its operation on R's turn and returns -----------------------------
Finish ==
  /\ cur.id # 0
  /\ handled' = Append(handled, cur.id)
  /\ LET s0 == [Rec EXCEPT !.cur = NoCmd] IN
     CASE cur.op = "plain" -> Apply(Drain(s0)) /\ Lbl("Finish", cur, "") /\ UNCHANGED nreq
       [] cur.op = "disable" -> Apply(Drain(s0)) /\ Lbl("Finish", cur, "") /\ UNCHANGED nreq
       [] cur.op = "enable" ->
            \* installReentrancy retunes the existing state; "FreshOnEnable": a policy that is Off is replaced by a fresh one
            IF "FreshOnEnable" \in Defects /\ ~enabled
            THEN Apply(Drain([s0 EXCEPT !.inflight = 0, !.blocking = 0])) /\ Lbl("Finish", cur, "") /\ UNCHANGED nreq
            ELSE Apply(Drain(s0)) /\ Lbl("Finish", cur, "") /\ UNCHANGED nreq
       [] cur.op = "req" /\ cur.mode = "default" /\ ~enabled ->
            Apply(Drain(s0)) /\ Lbl("Finish", cur, "disabled") /\ UNCHANGED nreq
       [] cur.op = "req" ->
            IF MaxInFlight > 0 /\ inflight >= MaxInFlight + (IF "LimitOffByOne" \in Defects THEN 1 ELSE 0)
            THEN Apply(Drain(s0)) /\ Lbl("Finish", cur, "limit") /\ UNCHANGED nreq
            ELSE LET r == nreq + 1
                     q == [NoReq EXCEPT !.st = "inflight", !.mode = IF cur.mode = "default" THEN "allow" ELSE cur.mode, !.hascb = (cur.th = "now"),
                                        !.tmo = IF cur.tmo THEN "armed" ELSE "none"]
                     s1 == [s0 EXCEPT !.req[r] = q, !.inflight = inflight + 1,
                                      !.blocking = IF cur.mode = "stash" THEN blocking + 1 ELSE blocking]
                 IN nreq' = r /\ Apply(Drain(s1)) /\ Lbl("Finish", [cur EXCEPT !.rq = r], "")
       [] cur.op = "then" ->
            \* Then on an existing handle: runs at once (on the turn) when the request is already complete
            LET q == req[cur.rq]
                s1 == IF q.hascb THEN s0
                      ELSE IF q.st = "done"
                           THEN [s0 EXCEPT !.req[cur.rq] = [q EXCEPT !.hascb = TRUE, !.cbs = q.cbs + 1],
                                           !.cblog = Append(cblog, [rq |-> cur.rq, out |-> q.out])]
                           ELSE [s0 EXCEPT !.req[cur.rq] = [q EXCEPT !.hascb = TRUE]]
            IN Apply(Drain(s1)) /\ Lbl("Finish", cur, "") /\ UNCHANGED nreq
       [] cur.op = "cancel" ->
            LET q == req[cur.rq]
                go == q.st = "inflight" /\ ~q.creq
                s1 == IF go THEN [s0 EXCEPT !.req[cur.rq] = [q EXCEPT !.creq = TRUE],
                                            !.mb = Append(mb, [k |-> "resp", rq |-> cur.rq, why |-> "cancel"])]
                      ELSE s0
            IN Apply(Drain(s1)) /\ Lbl("Finish", cur, "") /\ UNCHANGED nreq
  /\ enabled' = CASE cur.op = "disable" -> FALSE [] cur.op = "enable" -> TRUE [] OTHER -> enabled
  /\ UNCHANGED <<life, ncmd>>

\* ---- completion sources, all off R's turn ---------------------------------------------------------
Pseudo(a, r) == last' = [a |-> a, id |-> 0, op |-> "", mode |-> "", tmo |-> FALSE, th |-> "", rq |-> r, err |-> ""]

Reply(r) ==
  /\ r <= nreq /\ req[r].st # "none" /\ ~req[r].replied
  /\ LET s1 == [Rec EXCEPT !.req[r] = [req[r] EXCEPT !.replied = TRUE],
                           !.mb = IF life = "running" THEN Append(mb, [k |-> "resp", rq |-> r, why |-> "reply"]) ELSE mb]
     IN Apply(Drain(s1))
  /\ Pseudo("Reply", r) /\ UNCHANGED <<life, enabled, ncmd, nreq, handled>>

TimeoutFire(r) ==
  /\ r <= nreq /\ req[r].tmo = "armed"
  /\ LET s1 == [Rec EXCEPT !.req[r] = [req[r] EXCEPT !.tmo = "fired"],
                           !.mb = IF life = "running" THEN Append(mb, [k |-> "resp", rq |-> r, why |-> "timeout"]) ELSE mb]
     IN Apply(Drain(s1))
  /\ Pseudo("TimeoutFire", r) /\ UNCHANGED <<life, enabled, ncmd, nreq, handled>>

Cancel(r) ==
  /\ r <= nreq /\ req[r].st # "none"
  /\ LET q == req[r]
         go == q.st = "inflight" /\ ~q.creq
         s1 == IF go THEN [Rec EXCEPT !.req[r] = [q EXCEPT !.creq = TRUE], !.mb = Append(mb, [k |-> "resp", rq |-> r, why |-> "cancel"])]
               ELSE Rec
     IN Apply(Drain(s1))
  /\ Pseudo("Cancel", r) /\ UNCHANGED <<life, enabled, ncmd, nreq, handled>>

\* PID.Shutdown of the idle requester
Stop ==
  /\ life = "running" /\ cur.id = 0
  /\ life' = "stopped"
  /\ req' = [r \in Reqs |-> IF req[r].st = "inflight" THEN [req[r] EXCEPT !.st = "done", !.out = "stopped"] ELSE req[r]]
  /\ inflight' = 0 /\ blocking' = 0
  /\ Pseudo("Stop", 0)
  /\ UNCHANGED <<enabled, mb, cur, ncmd, nreq, stash, handled, cblog>>

Next == \/ \E o \in Ops : Send(o)
        \/ Finish
        \/ \E r \in Reqs : Reply(r) \/ TimeoutFire(r) \/ Cancel(r)
        \/ Stop

Spec == Init /\ [][Next]_vars

\* ---- C16 -----------------------------------------------------------------------------------------
\* a continuation runs at most once, exactly once for a completed request that has one (unless the requester stopped first)
OnceEach == \A r \in Reqs : /\ req[r].cbs <= 1
                            /\ (req[r].st = "done" /\ req[r].hascb /\ req[r].out # "stopped") => req[r].cbs = 1
                            /\ req[r].st # "done" => req[r].cbs = 0
\* the counters are exactly the requests in flight
Counters == /\ inflight = Cardinality({r \in Reqs : req[r].st = "inflight"})
            /\ blocking = Cardinality({r \in Reqs : req[r].st = "inflight" /\ req[r].mode = "stash"})
Limit == MaxInFlight > 0 => inflight <= MaxInFlight
\* no command is inside its handler while a stash-mode request is in flight, except the one that started it
Exclusive == [][(cur'.id # 0 /\ cur'.id # cur.id) => blocking' = 0]_vars
\* nothing stays stashed once no stash-mode request is in flight
Released == (blocking = 0 /\ life = "running") => stash = <<>>
\* the first completion signal that reaches the mailbox decides the outcome (action property on cblog)
=============================================================================
