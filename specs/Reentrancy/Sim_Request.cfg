SPECIFICATION GSpec
CONSTANTS
  MaxCmd = 6
  MaxReq = 3
  MaxInFlight = 2
  Defects = {}
  Depth = 16
CONSTRAINT Emit
