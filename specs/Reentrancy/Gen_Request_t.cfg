SPECIFICATION GSpec
CONSTANTS
  MaxCmd = 4
  MaxReq = 3
  MaxInFlight = 1
  Defects = {}
  Depth = 5
CONSTRAINT Emit
