SPECIFICATION GSpec
CONSTANTS
  MaxCmd = 6
  MaxReq = 3
  MaxInFlight = 1
  Defects = {}
  Depth = 16
CONSTRAINT Emit
