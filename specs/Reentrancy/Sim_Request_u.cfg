SPECIFICATION GSpec
CONSTANTS
  MaxCmd = 6
  MaxReq = 3
  MaxInFlight = 0
  Defects = {}
  Depth = 16
CONSTRAINT Emit
