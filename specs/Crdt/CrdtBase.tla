----------------------------- MODULE CrdtBase ------------------------------
(* Constants and partial-map helpers shared by the transcription (CrdtTypes), the  *)
(* semantic oracle (CrdtOracle) and the JSON decoding of recorded states (CrdtJson).*)
EXTENDS Integers, FiniteSets, Sequences, TLC

CONSTANTS NodeSeq,   \* node ids in lexicographic order, e.g. <<"n1","n2","n3">>; replica i uses node id NodeSeq[i]
          Elems      \* ORSet elements / ORMap keys / register values (strings)

Nodes == {NodeSeq[i] : i \in DOMAIN NodeSeq}
Rank(n) == IF n = "" THEN 0 ELSE CHOOSE i \in DOMAIN NodeSeq : NodeSeq[i] = n

Nil == [nil |-> TRUE]                 \* Delta() == nil
IsNil(d) == "nil" \in DOMAIN d

\* ---- partial maps -----------------------------------------------------------
EmptyMap == <<>>
Get0(m, k) == IF k \in DOMAIN m THEN m[k] ELSE 0
GetS(m, k) == IF k \in DOMAIN m THEN m[k] ELSE {}
Put(m, k, v) == [x \in (DOMAIN m) \cup {k} |-> IF x = k THEN v ELSE m[x]]
Drop(m, k) == [x \in (DOMAIN m) \ {k} |-> m[x]]
Max(a, b) == IF a >= b THEN a ELSE b
MaxOf(S) == CHOOSE x \in S : \A y \in S : y <= x
MaxMap(a, b) == [n \in (DOMAIN a) \cup (DOMAIN b) |-> Max(Get0(a, n), Get0(b, n))]
RECURSIVE SumMap(_)
SumMap(m) == IF DOMAIN m = {} THEN 0
             ELSE LET k == CHOOSE k \in DOMAIN m : TRUE IN m[k] + SumMap(Drop(m, k))
Range(f) == {f[i] : i \in DOMAIN f}
=============================================================================
