SPECIFICATION HSpec
CONSTANTS
  NodeSeq <- N2
  Elems = {"x", "y"}
  Defects = {}
  Types = {"gcounter", "pncounter", "flag", "lww", "mvreg", "orset", "ormap"}
  Amounts = {1}
  MaxTs = 2
  MaxBatch = 1
  MaxUpd = 3
  Depth = 3
CONSTRAINT Emit
