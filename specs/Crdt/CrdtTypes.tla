----------------------------- MODULE CrdtTypes -----------------------------
(* Transcription of package crdt of Tochemey/goakt (crdt/gcounter.go, pncounter.go, *)
(* flag.go, lww_register.go, mv_register.go, or_set.go, or_map.go): abstract states *)
(* WITH their metadata (per-node counters, dots, vector clocks, timestamps, delta    *)
(* trackers), the mutators, Merge, Delta, ResetDelta and Compact, as the code is.    *)
(* Deviations of the code from a convergent design are named branches guarded by     *)
(* `"Name" \in Defects`: Defects = {} is the repaired design.                        *)
(*                                                                                   *)
(* Go maps are partial functions (DOMAIN = keys present); dot slices are sets (the   *)
(* code keeps them duplicate-free: appendDotUnique / fresh dots).                    *)
EXTENDS CrdtBase

CONSTANTS Defects    \* subset of DefectNames

DefectNames == {"ORSetDeltaClock",     \* ORSet.Delta: clock claims every dot of the node up to the sender's clock
                                       \* (or the removed dot's counter) but entries list only the new dots
                "ORSetDeltaDeadAdd",   \* ORSet.Delta: a dot added and removed before Delta() is shipped as live
                "LWWSetOverwrites",    \* LWWRegister.Set discards a current value with a newer timestamp
                "ORMapValueDrop"}      \* ORMap.Remove/Merge/Compact discard the value of an absent key, so whether an
                                       \* old value is merged into a re-added key depends on the order of merges

\* ============================ GCounter (gcounter.go) ==========================
\* state: s = node -> count, d = keys of the delta map
GCNew == [s |-> EmptyMap, d |-> {}]
GCInc(c, n, v) == [s |-> Put(c.s, n, Get0(c.s, n) + v), d |-> c.d \cup {n}]
GCMerge(a, b) == [s |-> MaxMap(a.s, b.s), d |-> a.d]                 \* merged := c.Clone() keeps c's delta
GCDelta(c) == IF c.d = {} THEN Nil ELSE [s |-> [n \in c.d |-> c.s[n]], d |-> {}]
GCReset(c) == [c EXCEPT !.d = {}]
GCVal(c) == SumMap(c.s)

\* ============================ PNCounter (pncounter.go) ========================
PNNew == [p |-> GCNew, m |-> GCNew]
PNInc(c, n, v) == [p |-> GCInc(c.p, n, v), m |-> c.m]
PNDec(c, n, v) == [p |-> c.p, m |-> GCInc(c.m, n, v)]
PNMerge(a, b) == [p |-> GCMerge(a.p, b.p), m |-> GCMerge(a.m, b.m)]
PNDelta(c) == LET dp == GCDelta(c.p)
                  dm == GCDelta(c.m)
              IN IF IsNil(dp) /\ IsNil(dm) THEN Nil
                 ELSE [p |-> IF IsNil(dp) THEN GCNew ELSE dp, m |-> IF IsNil(dm) THEN GCNew ELSE dm]
PNReset(c) == [p |-> GCReset(c.p), m |-> GCReset(c.m)]
PNVal(c) == SumMap(c.p.s) - SumMap(c.m.s)

\* ============================ Flag (flag.go) ==================================
FLNew == [en |-> FALSE, dirty |-> FALSE]
FLEnable(f) == IF f.en THEN f ELSE [en |-> TRUE, dirty |-> TRUE]
FLMerge(a, b) == [en |-> a.en \/ b.en, dirty |-> FALSE]
FLDelta(f) == IF f.dirty THEN f ELSE Nil
FLReset(f) == [f EXCEPT !.dirty = FALSE]

\* ============================ LWWRegister (lww_register.go) ===================
\* v = "" is the nil value of a register never set
LWNew == [v |-> "", ts |-> 0, n |-> "", dirty |-> FALSE]
LWWins(o, r) == o.ts > r.ts \/ (o.ts = r.ts /\ Rank(o.n) > Rank(r.n))     \* o beats r
LWMerge(r, o) == LET w == IF LWWins(o, r) THEN o ELSE r IN [v |-> w.v, ts |-> w.ts, n |-> w.n, dirty |-> FALSE]
LWSet(r, v, ts, n) ==
  LET new == [v |-> v, ts |-> ts, n |-> n, dirty |-> TRUE]
  IN IF "LWWSetOverwrites" \in Defects THEN new                            \* the code: unconditional overwrite
     ELSE IF LWWins(new, r) THEN new ELSE [r EXCEPT !.dirty = TRUE]        \* repaired: keep the winner
LWDelta(r) == IF r.dirty THEN r ELSE Nil
LWReset(r) == [r EXCEPT !.dirty = FALSE]

\* ============================ dots ============================================
Dot(n, c) == [n |-> n, c |-> c]
Dominated(dt, clock) == dt.c <= Get0(clock, dt.n)                          \* isDominated

\* ============================ MVRegister (mv_register.go) =====================
\* e = set of [v, n, c] (value + dot)
MVNew == [e |-> {}, clock |-> EmptyMap, dirty |-> FALSE]
MVSet(r, n, v) == LET c == Get0(r.clock, n) + 1
                  IN [e |-> {[v |-> v, n |-> n, c |-> c]}, clock |-> Put(r.clock, n, c), dirty |-> TRUE]
MVHasDot(E, x) == \E y \in E : y.n = x.n /\ y.c = x.c
MVMerge(r, o) ==
  LET left  == {x \in r.e : ~Dominated(x, o.clock) \/ MVHasDot(o.e, x)}
      right == {x \in o.e : (~Dominated(x, r.clock) \/ MVHasDot(r.e, x)) /\ ~MVHasDot(left, x)}
  IN [e |-> left \cup right, clock |-> MaxMap(r.clock, o.clock), dirty |-> FALSE]
MVDelta(r) == IF r.dirty THEN r ELSE Nil
MVReset(r) == [r EXCEPT !.dirty = FALSE]
MVVal(r) == {x.v : x \in r.e}

\* ============================ ORSet (or_set.go) ===============================
\* e = element -> non-empty set of dots; da / dr = delta tracker (added / removed dots per element)
OSNew == [e |-> EmptyMap, clock |-> EmptyMap, da |-> EmptyMap, dr |-> EmptyMap]
OSContains(s, x) == x \in DOMAIN s.e /\ s.e[x] # {}
OSAdd(s, n, x) ==
  LET c == Get0(s.clock, n) + 1
      d == Dot(n, c)
  IN [e |-> Put(s.e, x, GetS(s.e, x) \cup {d}), clock |-> Put(s.clock, n, c),
      da |-> Put(s.da, x, GetS(s.da, x) \cup {d}), dr |-> s.dr]
OSRemove(s, x) ==
  IF x \notin DOMAIN s.e THEN s
  ELSE [e |-> Drop(s.e, x), clock |-> s.clock, da |-> s.da, dr |-> Put(s.dr, x, GetS(s.dr, x) \cup s.e[x])]
OSMerge(s, o) ==
  LET kept(x) == {d \in GetS(s.e, x) : ~Dominated(d, o.clock) \/ d \in GetS(o.e, x)}
                 \cup {d \in GetS(o.e, x) : ~Dominated(d, s.clock) \/ d \in GetS(s.e, x)}
      live == {x \in (DOMAIN s.e) \cup (DOMAIN o.e) : kept(x) # {}}
  IN [e |-> [x \in live |-> kept(x)], clock |-> MaxMap(s.clock, o.clock), da |-> EmptyMap, dr |-> EmptyMap]
OSDelta(s) ==
  IF DOMAIN s.da = {} /\ DOMAIN s.dr = {} THEN Nil
  ELSE LET added == UNION {s.da[x] : x \in DOMAIN s.da}
           remd  == UNION {s.dr[x] : x \in DOMAIN s.dr}
           ckA   == [n \in {d.n : d \in added} |-> Get0(s.clock, n)]
           ckR   == [n \in {d.n : d \in remd} |-> MaxOf({d.c : d \in {q \in remd : q.n = n}})]
           ck    == MaxMap(ckA, ckR)
           new(x)  == IF "ORSetDeltaDeadAdd" \in Defects THEN GetS(s.da, x)
                      ELSE GetS(s.da, x) \cap GetS(s.e, x)
           rest(x) == IF "ORSetDeltaClock" \in Defects THEN {}
                      ELSE {d \in GetS(s.e, x) : Dominated(d, ck)}       \* every live dot the delta clock covers
           ent(x)  == new(x) \cup rest(x)
           dom     == {x \in (DOMAIN s.da) \cup (DOMAIN s.e) : ent(x) # {}}
       IN [e |-> [x \in dom |-> ent(x)], clock |-> ck, da |-> EmptyMap, dr |-> EmptyMap]
OSReset(s) == [s EXCEPT !.da = EmptyMap, !.dr = EmptyMap]
OSCompact(s) == [e |-> [x \in DOMAIN s.e |-> {d \in s.e[x] : \A q \in s.e[x] : q.n = d.n => q.c <= d.c}],
                 clock |-> s.clock, da |-> EmptyMap, dr |-> EmptyMap]
OSVal(s) == {x \in DOMAIN s.e : s.e[x] # {}}
OSDirty(s) == DOMAIN s.da # {} \/ DOMAIN s.dr # {}

\* ============================ ORMap (or_map.go) ===============================
\* k = ORSet of keys, v = key -> GCounter state map (values are GCounters here), dirty
OMNew == [k |-> OSNew, v |-> EmptyMap, dirty |-> FALSE]
OMGet(m, key) == IF OSContains(m.k, key) /\ key \in DOMAIN m.v THEN m.v[key] ELSE EmptyMap
\* user code: v, _ := m.Get(key) (or NewGCounter()); m.Set(node, key, v.Increment(node, 1))
OMPut(m, n, key) ==
  LET cur  == OMGet(m, key)
      newv == Put(cur, n, Get0(cur, n) + 1)
  IN [k |-> OSAdd(m.k, n, key),
      v |-> Put(m.v, key, IF key \in DOMAIN m.v THEN MaxMap(m.v[key], newv) ELSE newv),
      dirty |-> TRUE]
OMRemove(m, key) ==
  IF ~OSContains(m.k, key) THEN m
  ELSE [k |-> OSRemove(m.k, key),
        v |-> IF "ORMapValueDrop" \in Defects THEN Drop(m.v, key) ELSE m.v,     \* the code: delete(out.values, key)
        dirty |-> TRUE]
OMMerge(m, o) ==
  LET ks == OSMerge(m.k, o.k)
      val(key) == IF key \in DOMAIN m.v /\ key \in DOMAIN o.v THEN MaxMap(m.v[key], o.v[key])    \* lv.Merge(rv)
                  ELSE IF key \in DOMAIN m.v THEN m.v[key] ELSE o.v[key]
      \* the code keeps values only for keys of the merged key set; whether the value of a side whose key dots
      \* were all removed is merged in then depends on the order of merges.  Repaired design: values are kept
      \* for every key ever set (hidden while the key is absent), so values form a product lattice.
      keys == IF "ORMapValueDrop" \in Defects THEN {key \in DOMAIN ks.e : key \in (DOMAIN m.v) \cup (DOMAIN o.v)}
              ELSE (DOMAIN m.v) \cup (DOMAIN o.v)
  IN [k |-> ks, v |-> [key \in keys |-> val(key)], dirty |-> FALSE]
OMDelta(m) == IF m.dirty THEN m ELSE Nil
OMReset(m) == [k |-> OSReset(m.k), v |-> m.v, dirty |-> FALSE]
OMCompact(m) == LET ks == OSCompact(m.k)
                    keys == IF "ORMapValueDrop" \in Defects THEN (DOMAIN ks.e) \cap (DOMAIN m.v) ELSE DOMAIN m.v
                IN [k |-> ks, v |-> [key \in keys |-> m.v[key]], dirty |-> FALSE]
OMVal(m) == [key \in OSVal(m.k) \cap DOMAIN m.v |-> SumMap(m.v[key])]

\* ============================ dispatch ========================================
AllTypes == {"gcounter", "pncounter", "flag", "lww", "mvreg", "orset", "ormap"}

New(ty) == CASE ty = "gcounter" -> GCNew [] ty = "pncounter" -> PNNew [] ty = "flag" -> FLNew
             [] ty = "lww" -> LWNew [] ty = "mvreg" -> MVNew [] ty = "orset" -> OSNew [] ty = "ormap" -> OMNew

Merge(ty, a, b) == CASE ty = "gcounter" -> GCMerge(a, b) [] ty = "pncounter" -> PNMerge(a, b)
                     [] ty = "flag" -> FLMerge(a, b) [] ty = "lww" -> LWMerge(a, b) [] ty = "mvreg" -> MVMerge(a, b)
                     [] ty = "orset" -> OSMerge(a, b) [] ty = "ormap" -> OMMerge(a, b)

Delta(ty, s) == CASE ty = "gcounter" -> GCDelta(s) [] ty = "pncounter" -> PNDelta(s) [] ty = "flag" -> FLDelta(s)
                  [] ty = "lww" -> LWDelta(s) [] ty = "mvreg" -> MVDelta(s) [] ty = "orset" -> OSDelta(s)
                  [] ty = "ormap" -> OMDelta(s)

Reset(ty, s) == CASE ty = "gcounter" -> GCReset(s) [] ty = "pncounter" -> PNReset(s) [] ty = "flag" -> FLReset(s)
                  [] ty = "lww" -> LWReset(s) [] ty = "mvreg" -> MVReset(s) [] ty = "orset" -> OSReset(s)
                  [] ty = "ormap" -> OMReset(s)

Compactable(ty) == ty \in {"orset", "ormap"}
Compact(ty, s) == CASE ty = "orset" -> OSCompact(s) [] ty = "ormap" -> OMCompact(s) [] OTHER -> s

\* one mutator call; op = [k, x, n]: k kind, x element/value, n amount/timestamp
ApplyOp(ty, s, node, op) ==
  CASE ty = "gcounter"  -> GCInc(s, node, op.n)
    [] ty = "pncounter" -> IF op.k = "inc" THEN PNInc(s, node, op.n) ELSE PNDec(s, node, op.n)
    [] ty = "flag"      -> IF op.k = "enable" THEN FLEnable(s) ELSE s
    [] ty = "lww"       -> LWSet(s, op.x, op.n, node)
    [] ty = "mvreg"     -> MVSet(s, node, op.x)
    [] ty = "orset"     -> IF op.k = "add" THEN OSAdd(s, node, op.x) ELSE OSRemove(s, op.x)
    [] ty = "ormap"     -> IF op.k = "put" THEN OMPut(s, node, op.x) ELSE OMRemove(s, op.x)

RECURSIVE ApplyOps(_, _, _, _)
ApplyOps(ty, s, node, ops) == IF ops = <<>> THEN s
                              ELSE ApplyOps(ty, ApplyOp(ty, s, node, Head(ops)), node, Tail(ops))

\* observable value
Val(ty, s) == CASE ty = "gcounter" -> GCVal(s) [] ty = "pncounter" -> PNVal(s) [] ty = "flag" -> s.en
                [] ty = "lww" -> s.v [] ty = "mvreg" -> MVVal(s) [] ty = "orset" -> OSVal(s) [] ty = "ormap" -> OMVal(s)

\* value + causal metadata, without the delta trackers; this is also exactly what the harness logs as
\* Abs(real) (plus the dirty bit), see AbsOf
Core(ty, s) == CASE ty = "gcounter" -> [s |-> s.s]
                 [] ty = "pncounter" -> [p |-> s.p.s, m |-> s.m.s]
                 [] ty = "flag" -> [en |-> s.en]
                 [] ty = "lww" -> [v |-> s.v, ts |-> s.ts, n |-> s.n]
                 [] ty = "mvreg" -> [e |-> s.e, clock |-> s.clock]
                 [] ty = "orset" -> [e |-> s.e, clock |-> s.clock]
                 [] ty = "ormap" -> [e |-> s.k.e, clock |-> s.k.clock, v |-> s.v]

\* has un-shipped changes (Delta() # nil)
Dirty(ty, s) == ~IsNil(Delta(ty, s))

AbsOf(ty, s) == [core |-> Core(ty, s), dirty |-> Dirty(ty, s)]
=============================================================================
