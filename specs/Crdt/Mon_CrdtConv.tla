---- MODULE Mon_CrdtConv ----
(* C39 monitor on steps.ndjson.  It follows, from the steps alone, which updates every *)
(* replica has received (ghost g of CrdtOracle) and judges the REAL values recorded    *)
(* after every step:                                                                    *)
(*   same   replicas that received the same updates expose the same value               *)
(*   all    a replica that received every update exposes the value of the real join of  *)
(*          all replicas' full states                                                   *)
(*   lost / resurrected / invented / count   the value leaves the bounds of CrdtOracle  *)
(*          (an add or increment lost, a removed element back, ...)                     *)
(* It never looks at dots or clocks and does not use the transcription.  Failures are   *)
(* printed as <<"MISMATCH", line, type, kind, replica, cause>>; cause names the known   *)
(* finding whose witness matches, if any.                                               *)
EXTENDS CrdtOracle, CrdtJson, Json
NS == <<"n1", "n2", "n3">>
Trace == ndJsonDeserialize("trace.ndjson")
VARIABLES l, ty, g, stale    \* stale[r]: r overwrote a register write it had received with an older one of its own
                             \* (LWWRegister.Set discards the current value), or merged the full state of such a replica

CoreAt(e, r) == IF JIsAbsent(e.st[r]) THEN NewCore(ty') ELSE JCore(ty', e.st[r].core)

\* witness of LWWSetOverwrites: the replica (or one whose full state it merged) issued a Set with a timestamp
\* older than a write it had received, which discarded that write locally
StaleLWW(e, r) == ty' = "lww" /\ stale'[r]
\* witness of ORMapValueDrop: keys, dots and clock agree, only the nested values differ
ValueOnly(c1, c2) == ty' = "ormap" /\ c1.e = c2.e /\ c1.clock = c2.clock /\ c1.v # c2.v
Cause(e, r, c2) == IF StaleLWW(e, r) THEN "LWWSetOverwrites"
                   ELSE IF ValueOnly(CoreAt(e, r), c2) THEN "ORMapValueDrop" ELSE ""

Rep(ok, e, kind, r, cause) == IF ok THEN TRUE ELSE PrintT(<<"MISMATCH", l, ty', kind, r, cause>>)

Judge(e) ==
  /\ \A r1, r2 \in Nodes :
       Rep(Rank(r1) >= Rank(r2) \/ g'.smin[r1] # g'.smin[r2]
             \/ CoreVal(ty', CoreAt(e, r1)) = CoreVal(ty', CoreAt(e, r2)), e, "same", r1,
           IF StaleLWW(e, r2) THEN "LWWSetOverwrites" ELSE Cause(e, r1, CoreAt(e, r2)))
  /\ \A r \in Nodes :
       Rep(g'.smin[r] # 1..g'.n \/ CoreVal(ty', CoreAt(e, r)) = CoreVal(ty', JCore(ty', e.join)), e, "all", r,
           Cause(e, r, JCore(ty', e.join)))
  /\ \A r \in Nodes :
       LET v == OracleVerdict(g', ty', r, CoreAt(e, r)) IN Rep(v = "", e, v, r, IF StaleLWW(e, r) THEN "LWWSetOverwrites" ELSE "")

LastSet(r, ops) == [v |-> ops[Len(ops)].x, ts |-> ops[Len(ops)].n, n |-> r]

Step ==
  /\ l <= Len(Trace)
  /\ l' = l + 1
  /\ LET e == Trace[l] IN
     CASE e.a = "New"     -> ty' = e.ty /\ g' = GInit /\ stale' = [r \in Nodes |-> FALSE]
       [] e.a = "Update"  -> /\ g' = GUpdate(g, ty, e.r, e.ops)
                             /\ stale' = IF ty = "lww" /\ \E id \in g.smin[e.r] : g.u[id].set # NoSet /\ Beats(g.u[id].set, LastSet(e.r, e.ops))
                                         THEN [stale EXCEPT ![e.r] = TRUE] ELSE stale
                             /\ UNCHANGED ty /\ Judge(e)
       [] e.a = "Deliver" -> g' = GDeliver(g, e.r, e.id) /\ UNCHANGED <<ty, stale>> /\ Judge(e)
       [] e.a = "Merge"   -> /\ g' = GMerge(g, e.r, e.q) /\ stale' = [stale EXCEPT ![e.r] = @ \/ stale[e.q]]
                             /\ UNCHANGED ty /\ Judge(e)
       [] e.a = "Compact" -> UNCHANGED <<ty, g, stale>> /\ Judge(e)
Init == l = 1 /\ ty = "" /\ g = GInit /\ stale = [r \in Nodes |-> FALSE]
Spec == Init /\ [][Step]_<<l, ty, g, stale>>
====
