SPECIFICATION Spec
CONSTANTS
  NodeSeq <- R2
  Keys = {"k"}
  Defects = {}
  MaxUpd = 2
  MaxDel = 1
  MaxRecv = 3
CONSTRAINT Bound
VIEW View
INVARIANTS TombSafe VersShape
PROPERTIES TombStable
