---- MODULE Mon_CrdtLaws ----
(* C38 monitor.  Every line of laws.ndjson holds three jointly reachable REAL states  *)
(* a, b, c and Abs of the REAL results a|b, b|a, b|c, (a|b)|c, a|(b|c), a|a, (a|b)|a, *)
(* a|(a|b), clone(a), and of a, b, c after the results were mutated.  The monitor     *)
(* knows nothing about dots or clocks beyond reading the observable value off a state:*)
(*   comm    Val(a|b) = Val(b|a)            assoc   Val((a|b)|c) = Val(a|(b|c))       *)
(*   idem    a|a = a  (value and metadata)  absorb  (a|b)|a = a|b = a|(a|b)  (a <= a|b)*)
(*   inputs  a, b, c unchanged              clone   clone(a) = a                       *)
(*   grow    what a (and b) holds is still in a|b, in the information order of the type *)
(* comm-meta / assoc-meta: the same equalities on value + causal metadata.            *)
(* Every line is consumed; failures are printed as <<"MISMATCH", line, type, law, cause>>. *)
EXTENDS CrdtJson, Json
NS == <<"n1", "n2", "n3">>
Trace == ndJsonDeserialize("trace.ndjson")
VARIABLE l

Rep(ok, e, law, cause) == IF ok THEN TRUE ELSE PrintT(<<"MISMATCH", l, e.ty, law, cause>>)

Check(e) ==
  LET ty == e.ty
      co(f) == JCore(ty, e[f].core)
      va(f) == CoreVal(ty, co(f))
      \* known finding ORMapValueDrop: same keys, dots and clock on both sides, only the nested values differ
      mapCause(f1, f2) == IF ty = "ormap" /\ co(f1).e = co(f2).e /\ co(f1).clock = co(f2).clock /\ co(f1).v # co(f2).v
                          THEN "ORMapValueDrop" ELSE ""
  IN /\ Rep(va("ab") = va("ba"), e, "comm", "")
     /\ Rep(va("ab_c") = va("a_bc"), e, "assoc", mapCause("ab_c", "a_bc"))
     /\ Rep(va("ab") # va("ba") \/ co("ab") = co("ba"), e, "comm-meta", "")
     /\ Rep(va("ab_c") # va("a_bc") \/ co("ab_c") = co("a_bc"), e, "assoc-meta", "")
     /\ Rep(co("aa") = co("a"), e, "idem", "")
     /\ Rep(co("ab_a") = co("ab") /\ co("a_ab") = co("ab"), e, "absorb", "")
     /\ Rep(Grows(ty, co("a"), co("b"), co("ab")) /\ Grows(ty, co("b"), co("a"), co("ab")), e, "grow", "")
     /\ Rep(e.a2 = e.a /\ e.b2 = e.b /\ e.c2 = e.c, e, "inputs", "")
     /\ Rep(e.cl = e.a, e, "clone", "")

Init == l = 1
Step == l <= Len(Trace) /\ l' = l + 1 /\ Check(Trace[l])
Spec == Init /\ [][Step]_l
====
