SPECIFICATION TSpec
CONSTANTS
  NodeSeq <- R3
  Keys = {"k", "j"}
  Defects = {}
CHECK_DEADLOCK FALSE
INVARIANTS TombSafe
