----------------------------- MODULE Replicator -----------------------------
(* actor/replicator.go: the key store of the CRDT Replicator of every node with its   *)
(* tombstones, one action per message handler:                                        *)
(*   Update      handleUpdate   (crdt.Update from a local actor)                      *)
(*   Delete      handleDelete   (crdt.Delete from a local actor; publishes tombstone) *)
(*   RecvDelta   handleProtoDelta / handleDelta      (peer delta via the topic)        *)
(*   RecvTomb    handleProtoTombstone                                                  *)
(*   SendDigest  buildDigest    (anti-entropy round started by r towards q)            *)
(*   RecvDigest  handleDigest   (q answers with the full state of keys it is ahead on) *)
(*   RecvFull    handleFullState                                                       *)
(*   Prune       handlePrune    (tombstone TTL not yet expired: tombstones stay)       *)
(*   Get         handleGet                                                             *)
(* Published messages stay in `net` and may be delivered in any order, any number of   *)
(* times, to any other replica.  Values are GCounters (node -> count).                 *)
(* C41: a replica that holds the tombstone of a key exposes no value for it and takes  *)
(* no update, delta or full-state entry for it.                                        *)
EXTENDS Integers, FiniteSets, Sequences, TLC

CONSTANTS NodeSeq,    \* replica / node ids
          Keys,       \* CRDT key ids
          Defects     \* named deviations (none known: Defects = {} is the code as it is)

Nodes == {NodeSeq[i] : i \in DOMAIN NodeSeq}

VARIABLES store,      \* [Nodes -> partial Keys -> (partial Nodes -> Nat)]   r.store
          tomb,       \* [Nodes -> SUBSET Keys]                               r.tombstones
          vers,       \* [Nodes -> partial Keys -> Nat]                       r.versions
          known,      \* [Nodes -> SUBSET Keys]                               r.keyTypes
          net,        \* messages published so far
          nmsg,       \* number of messages published (message ids 1..nmsg)
          cnt,        \* [u, d, r] updates / deletes / receive steps so far (for bounding)
          last        \* the step just taken and what Get returned (output only)

vars == <<store, tomb, vers, known, net, nmsg, cnt, last>>

EmptyMap == <<>>
Get0(m, k) == IF k \in DOMAIN m THEN m[k] ELSE 0
Put(m, k, v) == [x \in (DOMAIN m) \cup {k} |-> IF x = k THEN v ELSE m[x]]
Drop(m, k) == [x \in (DOMAIN m) \ {k} |-> m[x]]
Max(a, b) == IF a >= b THEN a ELSE b
MaxMap(a, b) == [n \in (DOMAIN a) \cup (DOMAIN b) |-> Max(Get0(a, n), Get0(b, n))]

\* messages: one record shape; d = delta value, dv = digest (key -> version), fs = full state (key -> value)
Msg(t, id, k, from, to, d, dv, fs) == [t |-> t, id |-> id, k |-> k, from |-> from, to |-> to, d |-> d, dv |-> dv, fs |-> fs]

\* id = message consumed by the step (0: none), out = message published by the step (0: none)
Step(a, r, q, k, id, out) == [a |-> a, r |-> r, q |-> q, k |-> k, id |-> id, out |-> out]

Init == /\ store = [r \in Nodes |-> EmptyMap]
        /\ tomb = [r \in Nodes |-> {}]
        /\ vers = [r \in Nodes |-> EmptyMap]
        /\ known = [r \in Nodes |-> {}]
        /\ net = {}
        /\ nmsg = 0
        /\ cnt = [u |-> 0, d |-> 0, r |-> 0]
        /\ last = Step("Init", "", "", "", 0, 0)

\* merge or store one incoming value (handleDelta / handleFullState body after the tombstone check)
Ingest(r, k, d, st, ve, kn) ==
  IF k \in DOMAIN st
  THEN <<Put(st, k, MaxMap(st[k], d)), Put(ve, k, Get0(ve, k) + 1), kn>>
  ELSE <<Put(st, k, d), Put(ve, k, Get0(ve, k) + 1), kn \cup {k}>>

Update(r, k) ==
  /\ IF k \in tomb[r] /\ "UpdateIgnoresTombstone" \notin Defects
     THEN UNCHANGED <<store, vers, known, net, nmsg>>                    \* reject updates to tombstoned keys
     ELSE LET cur == IF k \in DOMAIN store[r] THEN store[r][k] ELSE EmptyMap
              upd == Put(cur, r, Get0(cur, r) + 1)
          IN /\ store' = [store EXCEPT ![r] = Put(@, k, upd)]
             /\ vers' = [vers EXCEPT ![r] = Put(@, k, Get0(@, k) + 1)]
             /\ known' = [known EXCEPT ![r] = @ \cup {k}]
             /\ nmsg' = nmsg + 1
             /\ net' = net \cup {Msg("delta", nmsg + 1, k, r, "", Put(EmptyMap, r, upd[r]), EmptyMap, EmptyMap)}
  /\ cnt' = [cnt EXCEPT !.u = @ + 1]
  /\ last' = Step("Update", r, "", k, 0, IF k \in tomb[r] /\ "UpdateIgnoresTombstone" \notin Defects THEN 0 ELSE nmsg + 1)
  /\ UNCHANGED tomb

Delete(r, k) ==
  /\ store' = [store EXCEPT ![r] = Drop(@, k)]
  /\ vers' = [vers EXCEPT ![r] = Drop(@, k)]
  /\ tomb' = [tomb EXCEPT ![r] = @ \cup {k}]
  /\ IF k \in known[r]                                                   \* tombstone is published only if the type is known
     THEN /\ nmsg' = nmsg + 1
          /\ net' = net \cup {Msg("tomb", nmsg + 1, k, r, "", EmptyMap, EmptyMap, EmptyMap)}
     ELSE UNCHANGED <<net, nmsg>>
  /\ cnt' = [cnt EXCEPT !.d = @ + 1]
  /\ last' = Step("Delete", r, "", k, 0, IF k \in known[r] THEN nmsg + 1 ELSE 0)
  /\ UNCHANGED known

RecvDelta(r, m) ==
  /\ m.t = "delta" /\ m.from # r
  /\ IF m.k \in tomb[r] /\ "DeltaIgnoresTombstone" \notin Defects
     THEN UNCHANGED <<store, vers, known>>                               \* reject deltas for tombstoned keys
     ELSE LET x == Ingest(r, m.k, m.d, store[r], vers[r], known[r])
          IN /\ store' = [store EXCEPT ![r] = x[1]]
             /\ vers' = [vers EXCEPT ![r] = x[2]]
             /\ known' = [known EXCEPT ![r] = x[3]]
  /\ cnt' = [cnt EXCEPT !.r = @ + 1]
  /\ last' = Step("RecvDelta", r, m.from, m.k, m.id, 0)
  /\ UNCHANGED <<tomb, net, nmsg>>

RecvTomb(r, m) ==
  /\ m.t = "tomb" /\ m.from # r
  /\ store' = [store EXCEPT ![r] = Drop(@, m.k)]
  /\ vers' = [vers EXCEPT ![r] = Drop(@, m.k)]
  /\ tomb' = [tomb EXCEPT ![r] = @ \cup {m.k}]
  /\ cnt' = [cnt EXCEPT !.r = @ + 1]
  /\ last' = Step("RecvTomb", r, m.from, m.k, m.id, 0)
  /\ UNCHANGED <<known, net, nmsg>>

\* r starts an anti-entropy round with q: its digest travels to q
SendDigest(r, q) ==
  /\ r # q
  /\ nmsg' = nmsg + 1
  /\ net' = net \cup {Msg("digest", nmsg + 1, "", r, q, EmptyMap, [k \in DOMAIN store[r] |-> Get0(vers[r], k)], EmptyMap)}
  /\ cnt' = [cnt EXCEPT !.r = @ + 1]
  /\ last' = Step("SendDigest", r, q, "", 0, nmsg + 1)
  /\ UNCHANGED <<store, tomb, vers, known>>

\* q answers the digest with the full state of every key it has and the peer lacks or is behind on
RecvDigest(q, m) ==
  /\ m.t = "digest" /\ m.to = q
  /\ LET ahead == {k \in DOMAIN store[q] : k \notin DOMAIN m.dv \/ Get0(vers[q], k) > m.dv[k]}
     IN IF ahead = {} THEN UNCHANGED <<net, nmsg>> /\ last' = Step("RecvDigest", q, m.from, "", m.id, 0)
        ELSE /\ nmsg' = nmsg + 1
             /\ net' = net \cup {Msg("full", nmsg + 1, "", q, m.from, EmptyMap, EmptyMap, [k \in ahead |-> store[q][k]])}
             /\ last' = Step("RecvDigest", q, m.from, "", m.id, nmsg + 1)
  /\ cnt' = [cnt EXCEPT !.r = @ + 1]
  /\ UNCHANGED <<store, tomb, vers, known>>

RECURSIVE IngestAll(_, _, _, _, _, _)
IngestAll(r, ks, d, st, ve, kn) ==
  IF ks = {} THEN <<st, ve, kn>>
  ELSE LET k == CHOOSE k \in ks : TRUE
           x == IF k \in tomb[r] /\ "FullStateIgnoresTombstone" \notin Defects
                THEN <<st, ve, kn>>                                      \* skip tombstoned keys
                ELSE Ingest(r, k, d[k], st, ve, kn)
       IN IngestAll(r, ks \ {k}, d, x[1], x[2], x[3])

RecvFull(r, m) ==
  /\ m.t = "full" /\ m.to = r
  /\ LET x == IngestAll(r, DOMAIN m.fs, m.fs, store[r], vers[r], known[r])
     IN /\ store' = [store EXCEPT ![r] = x[1]]
        /\ vers' = [vers EXCEPT ![r] = x[2]]
        /\ known' = [known EXCEPT ![r] = x[3]]
  /\ cnt' = [cnt EXCEPT !.r = @ + 1]
  /\ last' = Step("RecvFull", r, m.from, "", m.id, 0)
  /\ UNCHANGED <<tomb, net, nmsg>>

\* pruneTick before any tombstone TTL has expired
Prune(r) ==
  /\ tomb' = IF "PruneDropsTombstones" \in Defects THEN [tomb EXCEPT ![r] = {}] ELSE tomb
  /\ cnt' = [cnt EXCEPT !.r = @ + 1]
  /\ last' = Step("Prune", r, "", "", 0, 0)
  /\ UNCHANGED <<store, vers, known, net, nmsg>>

Next == \/ \E r \in Nodes, k \in Keys : Update(r, k) \/ Delete(r, k)
        \/ \E r \in Nodes, m \in net : RecvDelta(r, m) \/ RecvTomb(r, m) \/ RecvDigest(r, m) \/ RecvFull(r, m)
        \/ \E r, q \in Nodes : SendDigest(r, q)
        \/ \E r \in Nodes : Prune(r)

Spec == Init /\ [][Next]_vars

\* ---- C41 -----------------------------------------------------------------------------------
TombSafe == \A r \in Nodes : tomb[r] \cap DOMAIN store[r] = {}
\* a tombstone, once held, is held (no expiry within the horizon) and the key stays out
TombStable == [][\A r \in Nodes : tomb[r] \subseteq tomb'[r]]_vars
\* versions are kept exactly for stored keys
VersShape == \A r \in Nodes : DOMAIN vers[r] = DOMAIN store[r] /\ DOMAIN store[r] \subseteq known[r]
=============================================================================
